import Yaep.Lemmas.CompleteMain
/-!
# Completeness of the all-parses forest, part 15: the state before the loop and the result

`makeParse_all_complete_ctx`: over any parse list whose sets are exactly the Earley sets of the
input (any order and multiplicity of the situations), a run of `make_parse` in all-parses mode that
counts neither a *reuse* nor an *origins* event returns a forest that denotes the translation of
EVERY derivation of the input.
-/
namespace Yaep.CP
open Yaep Yaep.MP

section
variable {g : Grammar} {ok : Nat → Nat → Nat → Bool} {toks : List Nat} {c : Ctx}

/-- the state before the loop -/
theorem cinit (hc : CtxAll g ok toks c) (hg : GrOK g) (hroot : RootUniq g toks) {s0 : St}
    (hi : init c = some s0) : CInv g ok toks s0 := by
  have hgood0 := ainit_inv hc hg hi
  unfold init at hi
  simp only at hi
  split at hi
  · cases hi
  · rename_i sit hsit
    split at hi
    · cases hi
    · rename_i hcond
      injection hi with hi
      simp only [Bool.or_eq_true, bne_iff_ne, ne_eq, not_or, Decidable.not_not] at hcond
      obtain ⟨⟨ho, hlhs⟩, hdot⟩ := hcond
      have hpl : c.sets.size - 1 = toks.length := by rw [hc.size]; rfl
      rw [hpl] at hsit hi
      have h0lt : 0 < (c.sets.getD toks.length #[]).size := by
        rcases Nat.eq_zero_or_pos (c.sets.getD toks.length #[]).size with h | h
        · rw [Array.getElem?_eq_none (by omega)] at hsit; cases hsit
        · exact h
      have hsit' : (c.sets.getD toks.length #[]).getD 0 default = sit := by
        rw [Array.getD_eq_getD_getElem?, hsit]; rfl
      have hE := hc.sound toks.length 0 h0lt
      rw [hsit'] at hE
      obtain ⟨rl0, hr0, _⟩ := hE.sound
      have hrule := hc.rule_eq hr0
      rw [hrule] at hlhs hdot
      rw [hc.axiomN] at hlhs
      obtain ⟨sr, sd, so⟩ := sit
      simp only at ho hdot hr0 hlhs
      subst ho; subst hdot
      have hok := Grammar.translWF_rule hg.twf hr0
      have hnone := hg.axiomPass _ _ hr0 hlhs
      obtain ⟨_, kids0, hk0⟩ := hE.complete_valid hr0
      have hs1 : s0.state 1 = ⟨sr, rl0.rhs.length, 0, toks.length, 0, 0, none⟩ := by rw [← hi]; rfl
      have hs00 : (s0.state 0).anode = some rootId := by rw [← hi]; rfl
      have hstk : s0.stack = [1] := by rw [← hi]
      have hheap : s0.heap = #[MNode.nil, MNode.err, MNode.anode "$result" 0 #[none]] := by rw [← hi]
      have hcur : cur (s0.state 1) = toks.length := by
        rw [hs1]
        unfold cur
        simp only
        split
        · rename_i h0
          rw [h0] at hE
          exact hE.dot_zero
        · rfl
      have htg : tgt s0 (s0.state 1) = (rootId, 0) := by
        unfold tgt
        rw [hs1]
        simp only
        rw [hs00]; rfl
      refine ⟨hgood0, ?_, ?_, ?_, ?_⟩
      · intro x hx
        rw [hstk] at hx
        simp only [List.mem_singleton] at hx
        subst hx
        refine ⟨rl0, [], by rw [hs1]; exact hr0, FollowCovers.nil g _, ?_⟩
        rw [hcur, hs1]
        show Der g (rl0.rhs.drop rl0.rhs.length ++ []) (toks.drop toks.length)
        rw [List.drop_length, List.append_nil, List.drop_length]
        exact Der.nil
      · intro x hx a ha
        rw [hstk] at hx
        simp only [List.mem_singleton] at hx
        subst hx
        rw [hs1] at ha
        cases ha
      · intro m nd m' hcell
        exfalso
        rw [hheap] at hcell
        by_cases hm : m < 3
        · have : m = 0 ∨ m = 1 ∨ m = 2 := by omega
          rcases this with rfl | rfl | rfl <;> simp [Array.getD_eq_getD_getElem?] at hcell
        · rw [Array.getD_eq_getD_getElem?, Array.getElem?_eq_none (by simp; omega)] at hcell
          cases hcell
      · intro t ht
        obtain ⟨pt, hv, rfl⟩ := ht
        cases hv with
        | @node r rl _ kids _ _ hr hl hk =>
          have hrr : r = sr := hroot r sr rl rl0 kids kids0 hr hr0 hl hlhs hk hk0
          subst hrr
          rw [hr0] at hr; injection hr with hr; subst hr
          refine Ev.owe (x := 1) (by rw [hstk]; simp) ?_
          have hval : PT.ValidListAt g toks kids (rl0.rhs.take (s0.state 1).pos) (s0.state 1).orig
              (cur (s0.state 1)) := by
            rw [hcur, hs1]
            show PT.ValidListAt g toks kids (rl0.rhs.take rl0.rhs.length) 0 toks.length
            rw [List.take_length]; exact hk
          have hrs : g.rules[(s0.state 1).rule]? = some rl0 := by rw [hs1]; exact hr0
          have han : (s0.state 1).anode = none := by rw [hs1]
          rcases translate_pass_cases hok hr0 hnone hk.length_eq with ⟨q, q1, q2, q3⟩ | ⟨q1, q2⟩
          · rw [q3]
            exact .pass (kids := kids) htg han hrs hval (by rw [hs1]; exact q1) q2
          · rw [q2]
            exact .passNil htg han hrs q1

/-- at the end of the loop everything that was to be denoted is denoted -/
theorem ev_final {s : St} (hst : s.stack = []) {π : Nat × Nat} {t : Tree} (h : Ev g toks s π t) :
    DenSlot s.heap π t := by
  rcases h.inv with h | ⟨x, hx, _⟩
  · exact h
  · rw [hst] at hx; cases hx

/-- **`make_parse`, all parses, is complete for a run without events**, over any parse list whose
sets are exactly the Earley sets of the input -/
theorem makeParse_all_complete_ctx {sets : Array (Array Item)} {plToks : Array Int} {fuel : Nat}
    {res : Result} (hcc : CtxAllc g ok toks (mkCtx g sets plToks false)) (hg : GrOK g)
    (hsr : g.symsInRange = true) (hokd : OkDer g ok toks) (hroot : RootUniq g toks)
    (hm : makeParse g sets plToks false fuel = .ok res)
    (hev : res.reuse = 0 ∧ res.origins = 0) {pt : PT} (hpt : PT.IsDerivation g toks pt) :
    translate g pt ∈ (denoteTab res.tab).getD res.root [] := by
  have hc := hcc.toCtxAll
  simp only [makeParse] at hm
  split at hm
  · cases hm
  · rename_i s0 hi
    split at hm
    · cases hm
    · rename_i s hr
      split at hm
      · cases hm
      · rename_i hb
        split at hm
        · cases hm
        · rename_i r hres
          split at hm
          · cases hm
          · rename_i tab root hx
            injection hm with hm
            subst hm
            simp only at hev ⊢
            have hb' : s.bad = false := by simpa using hb
            have hinv0 := cinit hc hg hroot hi
            obtain ⟨c1, c2⟩ := run_counts _ fuel s0 s hr
            have hinv := crun hcc hg hsr hokd fuel s0 s hinv0 hr hb' (by omega) (by omega)
            have hstk := run_stack_empty _ fuel s0 s hr
            have hd := ev_final hstk (hinv.root _ ⟨pt, hpt, rfl⟩)
            obtain ⟨k, hk, hden⟩ := hd
            have hk' : getKid s.heap rootId 0 = some k := hk
            have hres' : getKid s.heap rootId 0 = some r := hres
            rw [hres'] at hk'
            injection hk' with hk'
            subst hk'
            obtain ⟨G, hgood⟩ := hinv.good
            refine export_complete hx hinv.shape ?_ hden
            intro m nm cc ks hroot' hcell
            have hmlt : m < s.heap.size := by
              apply Classical.byContradiction
              intro hge
              rw [Array.getD_eq_getD_getElem?, Array.getElem?_eq_none (by omega)] at hcell
              cases hcell
            rcases hgood.cells m hmlt (by omega) ⟨nm, cc, ks, hcell⟩ with ⟨hf, _⟩ | ⟨sid, hsid, _⟩
            · obtain ⟨rl, nm', ks', sp, _, _, f3, f4, _, _, _, _, f9⟩ := hf
              rw [hcell] at f3
              injection f3 with _ _ e
              subst e
              rw [f4]
              exact ⟨Nat.succ_ne_zero _, by simpa using f9⟩
            · rw [hstk] at hsid; cases hsid

end

end Yaep.CP
