import Yaep.Lemmas.MakeParseFlagStep
import Yaep.Lemmas.MakeParseSoundMain
/-!
# The ambiguity flag of `make_parse`, part 6: a run that ends with the flag off returns the
translation of *every* derivation (one parse)
-/
namespace Yaep.MP
open Yaep

/-- all derivations of the whole input start with the same rule -/
def RootUniq (g : Grammar) (toks : List Nat) : Prop :=
  ∀ (r1 r2 : Nat) (rl1 rl2 : Rule) (k1 k2 : List PT), g.rules[r1]? = some rl1 →
    g.rules[r2]? = some rl2 → rl1.lhs = g.axiomN → rl2.lhs = g.axiomN →
    PT.ValidListAt g toks k1 rl1.rhs 0 toks.length → PT.ValidListAt g toks k2 rl2.rhs 0 toks.length →
    r1 = r2

/-- the state before the loop is on every derivation -/
theorem init_on {g : Grammar} {ok : Nat → Nat → Nat → Bool} {toks : List Nat} {c : Ctx} {pt0 : PT}
    (hc : CtxOK g ok toks c) (hg : GrOK g) (hroot : RootUniq g toks)
    (hpt0 : PT.IsDerivation g toks pt0) {s0 : St} (hi : init c = some s0) :
    OnGood g ok toks pt0 s0 := by
  have hgood := init_inv hc hg hi
  unfold init at hi
  simp only at hi
  split at hi
  · cases hi
  · rename_i sit hsit
    split at hi
    · cases hi
    · rename_i hcond
      injection hi with hi
      simp only [Bool.or_eq_true, bne_iff_ne, ne_eq, not_or, Decidable.not_not] at hcond
      obtain ⟨⟨ho, hlhs⟩, hdot⟩ := hcond
      have hpl : c.sets.size - 1 = toks.length := by rw [hc.size]; rfl
      rw [hpl] at hsit hi
      have h0lt : 0 < (c.sets.getD toks.length #[]).size := by
        rcases Nat.eq_zero_or_pos (c.sets.getD toks.length #[]).size with h | h
        · rw [Array.getElem?_eq_none (by omega)] at hsit; cases hsit
        · exact h
      have hsit' : (c.sets.getD toks.length #[]).getD 0 default = sit := by
        rw [Array.getD_eq_getD_getElem?, hsit]; rfl
      have hE := hc.sound toks.length 0 h0lt
      rw [hsit'] at hE
      obtain ⟨rl0, hr0, _⟩ := hE.sound
      have hrule := hc.rule_eq hr0
      rw [hrule] at hlhs hdot
      rw [hc.axiomN] at hlhs
      obtain ⟨sr, sd, so⟩ := sit
      simp only at ho hdot hr0 hlhs
      subst ho; subst hdot
      obtain ⟨_, kids0, hk0⟩ := hE.complete_valid hr0
      rcases hgood.main with ⟨he, _⟩ | ⟨frs, htop⟩
      · rw [← hi] at he; simp at he
      · refine ⟨hgood.h0, hgood.h1, Or.inr ⟨frs, htop, ?_⟩⟩
        have hstk : s0.stack = [1] := by rw [← hi]
        have hst1 : s0.states.getD 1 default =
            { rule := sr, pos := rl0.rhs.length, orig := 0, plInd := toks.length, parent := 0,
              parentDisp := 0, anode := none } := by rw [← hi]; rfl
        rw [hstk] at htop ⊢
        cases frs with
        | nil => simp [TopOK] at htop
        | cons fr frs =>
          have hdone : fr.done = [] := TopOK.done_nil htop (by rw [hst1]; exact hr0) (by rw [hst1])
          cases hpt0 with
          | node hr hl hk =>
            rename_i r rl kids
            have hrr : r = sr := hroot r sr rl rl0 kids kids0 hr hr0 hl hlhs hk hk0
            subst hrr
            rw [hr0] at hr; injection hr with hr; subst hr
            simp only [OnTop, OnBelow]
            rw [hst1, hdone]
            refine ⟨kids, rl0, hr0, ?_, by rw [List.append_nil]⟩
            simp only
            rw [List.take_length]
            split
            · rename_i hz
              have hnil : rl0.rhs = [] := List.eq_nil_of_length_eq_zero hz
              rw [hnil] at hk ⊢
              obtain ⟨rfl, _⟩ := ValidListAt.nil_inv hk
              exact .nil
            · exact hk

/-- **a run that ends with the flag off returns the translation of every derivation**
(one parse), over any parse list whose sets are exactly the Earley sets of a filter that keeps
the items of derivations -/
theorem makeParse_one_unamb_ctx {g : Grammar} {ok : Nat → Nat → Nat → Bool} {toks : List Nat}
    {sets : Array (Array Item)} {plToks : Array Int} {fuel : Nat} {res : Result}
    (hcc : CtxOKc g ok toks (mkCtx g sets plToks true)) (hg : GrOK g)
    (hsr : g.symsInRange = true) (hok : OkDer g ok toks) (hroot : RootUniq g toks)
    (hm : makeParse g sets plToks true fuel = .ok res) (hamb : res.amb = false)
    {pt0 : PT} (hpt0 : PT.IsDerivation g toks pt0) :
    denote (unfoldAt res.tab res.root) = [translate g pt0] ∧
    (denoteTab res.tab).getD res.root [] = [translate g pt0] := by
  have hc := hcc.toCtxOK
  have hwf := makeParse_tableWF hm
  simp only [makeParse] at hm
  split at hm
  · cases hm
  · rename_i s0 hi
    split at hm
    · cases hm
    · rename_i s hr
      split at hm
      · cases hm
      · rename_i hb
        split at hm
        · cases hm
        · rename_i r hres
          split at hm
          · cases hm
          · rename_i tab root hx
            injection hm with hm
            subst hm
            simp only at hwf hamb ⊢
            have hinv := run_cinv hcc hg hsr hok fuel s0 s
              (Or.inr (Or.inr (init_on hc hg hroot hpt0 hi))) hr
            rcases hinv with hbad | ha | hgood
            · rw [hbad] at hb; simp at hb
            · rw [hamb] at ha; cases ha
            · obtain ⟨h0, h1, hmain⟩ := hgood
              rcases hmain with ⟨_, _, cl, hk, hden⟩ | ⟨frs, htop, _⟩
              · have hcl : cl = r := by
                  unfold St.result at hres
                  rw [hk] at hres; injection hres
                subst hcl
                obtain ⟨tab', root', e1, e2, e3⟩ := exportTable_den h0 h1 hden
                rw [hx] at e1
                injection e1 with e1
                injection e1 with e1a e1b
                subst e1a; subst e1b
                have hd := RecDen.denoteTab hwf.1 _ _ e2
                refine ⟨?_, hd⟩
                unfold unfoldAt
                rw [← denoteTab_spec_getD hwf.1 hwf.2 (Nat.lt_succ_self _), hd]
              · rw [run_stack_empty _ fuel s0 s hr] at htop
                simp [TopOK] at htop

end Yaep.MP
