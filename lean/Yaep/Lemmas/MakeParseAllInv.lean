import Yaep.Lemmas.MakeParseSoundNT
import Yaep.Lemmas.MakeParseAllStep
/-!
# All-parses mode of the model of `make_parse`: the soundness invariant

Every cell of the tree memory gets a *type* — a set of translation trees that contains every tree
the (finished) cell will denote:

* an abstract-node cell for the rule instance `(rule, orig, fin)`: the translations of the
  applications of `rule` on `toks[orig, fin)` (`TrRule`);
* a slot of such a cell, for the right-hand-side position `q` with split points `sp q`, `sp (q+1)`:
  the translations of the derivations of `rhs[q]` on that span (`Tr`).

`PtrOK m T`: everything reachable through the pointer `m` (a leaf, an abstract node, an ALT chain)
has a type inside `T`.  The invariant says that every pointer stored in a slot is `PtrOK` for the
type of the slot; alternatives added later to a slot only have to satisfy the same condition,
which is why sharing and ALT chains need no special care.
-/
namespace Yaep.MP
open Yaep

/-- translations of the derivations of `X` on `toks[i, j)` -/
def Tr (g : Grammar) (toks : List Nat) (X : Sym) (i j : Nat) (t : Tree) : Prop :=
  ∃ pt, PT.ValidAt g toks pt X i j ∧ translate g pt = t

/-- translations of the applications of rule `r` on `toks[o, f)` -/
def TrRule (g : Grammar) (toks : List Nat) (r o f : Nat) (t : Tree) : Prop :=
  ∃ rl kids, g.rules[r]? = some rl ∧ PT.ValidListAt g toks kids rl.rhs o f ∧
    translate g (.node r kids) = t

theorem TrRule.tr {g : Grammar} {toks : List Nat} {r o f : Nat} {t : Tree} {rl : Rule}
    (hr : g.rules[r]? = some rl) (h : TrRule g toks r o f t) : Tr g toks (.n rl.lhs) o f t := by
  obtain ⟨rl', kids, hr', hk, ht⟩ := h
  rw [hr] at hr'; injection hr' with hr'; subst hr'
  exact ⟨.node r kids, .node hr rfl hk, ht⟩

/-- the rule instance an abstract-node cell is built for -/
structure CellTy where
  rule : Nat
  orig : Nat
  fin : Nat
deriving Inhabited

/-- ghost data: the type of every abstract-node cell, the end of the span and the split points
of every parse state -/
structure Ghost where
  ty : Nat → CellTy
  sfin : Nat → Nat
  ssp : Nat → Nat → Nat

/-- everything reachable through the pointer `m` has its type inside `T` -/
inductive PtrOK (g : Grammar) (toks : List Nat) (ty : Nat → CellTy) (h : Array MNode) :
    Nat → (Tree → Prop) → Prop where
  | nil {m : Nat} {T : Tree → Prop} : m < h.size → h.getD m .nil = .nil → T .nil → PtrOK g toks ty h m T
  | err {m : Nat} {T : Tree → Prop} : m < h.size → h.getD m .nil = .err → T .error → PtrOK g toks ty h m T
  | term {m : Nat} {T : Tree → Prop} {c a : Int} : m < h.size → h.getD m .nil = .term c a →
      T (.term c a) → PtrOK g toks ty h m T
  | anode {m : Nat} {T : Tree → Prop} {nm : String} {c : Nat} {ks : Array (Option Nat)} :
      m < h.size → rootId < m → h.getD m .nil = .anode nm c ks →
      (∀ t, TrRule g toks (ty m).rule (ty m).orig (ty m).fin t → T t) → PtrOK g toks ty h m T
  | alt {m : Nat} {T : Tree → Prop} {node : Nat} {next : Option Nat} :
      m < h.size → h.getD m .nil = .alt node next → PtrOK g toks ty h node T →
      (∀ m', next = some m' → PtrOK g toks ty h m' T) → PtrOK g toks ty h m T

/-- the heap grows; cells keep their content, except that the slots of abstract nodes may change -/
def HeapExt (h h' : Array MNode) : Prop :=
  h.size ≤ h'.size ∧ ∀ m, m < h.size → h'.getD m .nil = h.getD m .nil ∨
    ∃ nm c ks ks', h.getD m .nil = .anode nm c ks ∧ h'.getD m .nil = .anode nm c ks'

theorem HeapExt.refl (h : Array MNode) : HeapExt h h := ⟨Nat.le_refl _, fun _ _ => Or.inl rfl⟩

theorem HeapExt.trans {a b c : Array MNode} (h1 : HeapExt a b) (h2 : HeapExt b c) : HeapExt a c := by
  refine ⟨Nat.le_trans h1.1 h2.1, fun m hm => ?_⟩
  rcases h1.2 m hm with e1 | ⟨nm, cc, ks, ks', e1, e1'⟩
  · rcases h2.2 m (by have := h1.1; omega) with e2 | ⟨nm, cc, ks, ks', e2, e2'⟩
    · left; rw [e2, e1]
    · right; exact ⟨nm, cc, ks, ks', by rw [← e1]; exact e2, e2'⟩
  · rcases h2.2 m (by have := h1.1; omega) with e2 | ⟨nm2, cc2, ks2, ks2', e2, e2'⟩
    · right; exact ⟨nm, cc, ks, ks', e1, by rw [e2]; exact e1'⟩
    · right
      rw [e1'] at e2
      injection e2 with a1 a2 a3
      subst a1; subst a2; subst a3
      exact ⟨nm, cc, ks, ks2', e1, e2'⟩

theorem PtrOK.mono {g : Grammar} {toks : List Nat} {ty ty' : Nat → CellTy} {h h' : Array MNode}
    (he : HeapExt h h') (hty : ∀ m, m < h.size → ty' m = ty m) {m : Nat} {T T' : Tree → Prop}
    (hT : ∀ t, T t → T' t) (hp : PtrOK g toks ty h m T) : PtrOK g toks ty' h' m T' := by
  induction hp with
  | nil hm hc ht =>
    rcases he.2 _ hm with e | ⟨_, _, _, _, e, _⟩
    · exact .nil (by have := he.1; omega) (by rw [e]; exact hc) (hT _ ht)
    · rw [hc] at e; cases e
  | err hm hc ht =>
    rcases he.2 _ hm with e | ⟨_, _, _, _, e, _⟩
    · exact .err (by have := he.1; omega) (by rw [e]; exact hc) (hT _ ht)
    · rw [hc] at e; cases e
  | term hm hc ht =>
    rcases he.2 _ hm with e | ⟨_, _, _, _, e, _⟩
    · exact .term (by have := he.1; omega) (by rw [e]; exact hc) (hT _ ht)
    · rw [hc] at e; cases e
  | @anode m0 _ _ _ _ hm hroot hc ht =>
    have hlt : m0 < h'.size := by have := he.1; omega
    rcases he.2 _ hm with e | ⟨nm, c, ks, ks', e, e'⟩
    · exact .anode hlt hroot (by rw [e]; exact hc)
        (fun t h1 => hT _ (ht t (by rw [← hty _ hm]; exact h1)))
    · exact .anode hlt hroot e' (fun t h1 => hT _ (ht t (by rw [← hty _ hm]; exact h1)))
  | alt hm hc _ _ ih1 ih2 =>
    rcases he.2 _ hm with e | ⟨_, _, _, _, e, _⟩
    · exact .alt (by have := he.1; omega) (by rw [e]; exact hc) (ih1 hT)
        (fun m' hm' => ih2 m' hm' hT)
    · rw [hc] at e; cases e

/-- what `place_translation` does to the heap: slot `i` of cell `n` now holds `m'` -/
structure PlaceRes (h h' : Array MNode) (n i m' : Nat) : Prop where
  ext : HeapExt h h'
  other : ∀ k, k < h.size → k ≠ n → h'.getD k .nil = h.getD k .nil
  cell : ∃ nm c ks, h.getD n .nil = .anode nm c ks ∧ h'.getD n .nil = .anode nm c (ks.set! i (some m'))
  fresh : ∀ k, h.size ≤ k → k < h'.size → ∃ a b, h'.getD k .nil = .alt a b
  lt : m' < h'.size

/-- `place_translation` into a slot whose content (if any) is well typed keeps it well typed -/
theorem place_ptr {g : Grammar} {toks : List Nat} {ty : Nat → CellTy} {h : Array MNode}
    {n i node : Nat} {nm : String} {c : Nat} {ks : Array (Option Nat)} {T : Tree → Prop}
    (hc : h.getD n .nil = .anode nm c ks) (hn : n < h.size)
    (hold : ∀ old, ks.getD i none = some old → PtrOK g toks ty h old T)
    (hnode : PtrOK g toks ty h node T) :
    ∃ m', PlaceRes h (placeTranslation h (n, i) node) n i m' ∧
      PtrOK g toks ty (placeTranslation h (n, i) node) m' T := by
  have hnodelt : node < h.size := by cases hnode <;> assumption
  unfold placeTranslation
  rw [getKid_of_cell hc]
  cases hk : ks.getD i none with
  | none =>
    simp only
    have hext : HeapExt h (setKid h n i (some node)) := by
      refine ⟨by rw [setKid_size]; exact Nat.le_refl _, fun m hm => ?_⟩
      by_cases hmn : m = n
      · subst hmn
        right; exact ⟨nm, c, ks, _, hc, setKid_getD_same hc hn⟩
      · left; exact setKid_getD_ne hmn
    refine ⟨node, ⟨hext, fun k _ hk' => setKid_getD_ne hk', ⟨nm, c, ks, hc, setKid_getD_same hc hn⟩,
      fun k h1 h2 => by rw [setKid_size] at h2; omega, by rw [setKid_size]; exact hnodelt⟩, ?_⟩
    exact hnode.mono hext (fun _ _ => rfl) (fun _ ht => ht)
  | some old =>
    have hold' := hold old hk
    have holdlt : old < h.size := by cases hold' <;> assumption
    simp only
    split
    · -- the slot holds an ALT chain already
      have hcp : (h.push (.alt node (some old))).getD n .nil = .anode nm c ks := by
        rw [getD_push_lt _ _ _ _ hn]; exact hc
      have hnp : n < (h.push (MNode.alt node (some old))).size := by simp; omega
      have hext1 : HeapExt h (h.push (.alt node (some old))) :=
        ⟨by simp, fun m hm => Or.inl (getD_push_lt _ _ _ _ hm)⟩
      have hext2 : HeapExt (h.push (.alt node (some old)))
          (setKid (h.push (.alt node (some old))) n i (some h.size)) := by
        refine ⟨by rw [setKid_size]; exact Nat.le_refl _, fun m hm => ?_⟩
        by_cases hmn : m = n
        · subst hmn
          right; exact ⟨nm, c, ks, _, hcp, setKid_getD_same hcp hnp⟩
        · left; exact setKid_getD_ne hmn
      have hext := hext1.trans hext2
      refine ⟨h.size, ⟨hext, ?_, ⟨nm, c, ks, hc, setKid_getD_same hcp hnp⟩, ?_, ?_⟩, ?_⟩
      · intro k hk1 hk2
        rw [setKid_getD_ne hk2, getD_push_lt _ _ _ _ hk1]
      · intro k hk1 hk2
        rw [setKid_size] at hk2
        simp only [Array.size_push] at hk2
        have : k = h.size := by omega
        subst this
        exact ⟨node, some old, by rw [setKid_getD_ne (by omega), getD_push_eq]⟩
      · rw [setKid_size]; simp
      · refine .alt (by rw [setKid_size]; simp) (by rw [setKid_getD_ne (by omega), getD_push_eq])
          (hnode.mono hext (fun _ _ => rfl) (fun _ ht => ht)) ?_
        intro m' hm'
        injection hm' with hm'
        subst hm'
        exact hold'.mono hext (fun _ _ => rfl) (fun _ ht => ht)
    · -- first alternative: an ALT cell for it too
      have hcp : ((h.push (.alt node (some (h.size + 1)))).push (.alt old none)).getD n .nil =
          .anode nm c ks := by
        rw [getD_push_lt _ _ _ _ (by simp; omega), getD_push_lt _ _ _ _ hn]; exact hc
      have hnp : n < ((h.push (MNode.alt node (some (h.size + 1)))).push (.alt old none)).size := by
        simp; omega
      have hext1 : HeapExt h ((h.push (.alt node (some (h.size + 1)))).push (.alt old none)) :=
        ⟨by simp; omega, fun m hm => Or.inl (by
          rw [getD_push_lt _ _ _ _ (by simp; omega), getD_push_lt _ _ _ _ hm])⟩
      have hext2 : HeapExt ((h.push (.alt node (some (h.size + 1)))).push (.alt old none))
          (setKid ((h.push (.alt node (some (h.size + 1)))).push (.alt old none)) n i (some h.size)) := by
        refine ⟨by rw [setKid_size]; exact Nat.le_refl _, fun m hm => ?_⟩
        by_cases hmn : m = n
        · subst hmn
          right; exact ⟨nm, c, ks, _, hcp, setKid_getD_same hcp hnp⟩
        · left; exact setKid_getD_ne hmn
      have hext := hext1.trans hext2
      have hcell1 : (setKid ((h.push (.alt node (some (h.size + 1)))).push (.alt old none)) n i
          (some h.size)).getD h.size .nil = .alt node (some (h.size + 1)) := by
        rw [setKid_getD_ne (by omega), getD_push_lt _ _ _ _ (by simp), getD_push_eq]
      have hcell2 : (setKid ((h.push (.alt node (some (h.size + 1)))).push (.alt old none)) n i
          (some h.size)).getD (h.size + 1) .nil = .alt old none := by
        rw [setKid_getD_ne (by omega)]
        have := getD_push_eq (h.push (.alt node (some (h.size + 1)))) (.alt old none) MNode.nil
        simpa using this
      refine ⟨h.size, ⟨hext, ?_, ⟨nm, c, ks, hc, setKid_getD_same hcp hnp⟩, ?_, ?_⟩, ?_⟩
      · intro k hk1 hk2
        rw [setKid_getD_ne hk2, getD_push_lt _ _ _ _ (by simp; omega), getD_push_lt _ _ _ _ hk1]
      · intro k hk1 hk2
        rw [setKid_size] at hk2
        simp only [Array.size_push] at hk2
        rcases Nat.eq_or_lt_of_le hk1 with e | hlt
        · subst e; exact ⟨_, _, hcell1⟩
        · have : k = h.size + 1 := by omega
          subst this; exact ⟨_, _, hcell2⟩
      · rw [setKid_size]; simp; omega
      · refine .alt (by rw [setKid_size]; simp; omega) hcell1
          (hnode.mono hext (fun _ _ => rfl) (fun _ ht => ht)) ?_
        intro m' hm'
        injection hm' with hm'
        subst hm'
        refine .alt (by rw [setKid_size]; simp) hcell2
          (hold'.mono hext (fun _ _ => rfl) (fun _ ht => ht)) (fun _ hh => by cases hh)

end Yaep.MP
