import Yaep.Lemmas.NoGarbageBase
/-!
# No garbage, part 2: the invariant of the main loop of `make_parse` and the primitive moves

The invariant is purely structural (nothing about the parse list is needed):

* `HOK`: cells 0, 1, 2 are NIL, ERROR and the `result` slot; every other cell is reachable from the
  `result` cell `rootId`; the last slot of an abstract node (the terminating NULL) is empty;
* `Flags`: `nilUsed` / `errUsed` is set iff the NIL / ERROR node is referred to;
* `SOK`: the abstract node of a parse state is a cell with `trans_len + 1` slots, the slot a state
  without abstract node delivers into (`parent_disp` of the abstract node of its parent) exists;
* `FullOK`: an abstract node has all its slots filled, or its parse state is still on the stack.
-/
namespace Yaep.NG
open Yaep MP

/-- slot `d` of the abstract node `pa` may be written: the `result` slot, or a slot before the
terminating NULL of an abstract node of the tree -/
def PSlot (h : Array MNode) (pa d : Nat) : Prop :=
  ∃ nm cst ks, h.getD pa .nil = .anode nm cst ks ∧ d < ks.size ∧
    (pa = rootId ∨ (3 ≤ pa ∧ d + 1 < ks.size))

/-- all slots but the last one are filled -/
def Full (ks : Array (Option Nat)) : Prop := ∀ j, j + 1 < ks.size → (ks.getD j none).isSome = true

/-- `h'` has the cells of `h`, abstract nodes may have got more children -/
structure Shp (h h' : Array MNode) : Prop where
  size_le : h.size ≤ h'.size
  cell : ∀ u, u < h.size → h'.getD u .nil = h.getD u .nil ∨
    ∃ nm cst ks ks', h.getD u .nil = .anode nm cst ks ∧ h'.getD u .nil = .anode nm cst ks' ∧
      ks'.size = ks.size ∧ (∀ j, (ks.getD j none).isSome = true → (ks'.getD j none).isSome = true) ∧
      (u ≠ rootId → ks'.getD (ks.size - 1) none = ks.getD (ks.size - 1) none)

theorem Shp.refl (h : Array MNode) : Shp h h := ⟨Nat.le_refl _, fun _ _ => Or.inl rfl⟩

theorem Shp.trans {h1 h2 h3 : Array MNode} (a : Shp h1 h2) (b : Shp h2 h3) : Shp h1 h3 := by
  refine ⟨Nat.le_trans a.size_le b.size_le, ?_⟩
  intro u hu
  have hu2 : u < h2.size := Nat.lt_of_lt_of_le hu a.size_le
  rcases a.cell u hu with e1 | ⟨nm, cst, ks, ks', c1, c2, c3, c4, c5⟩
  · rcases b.cell u hu2 with e2 | ⟨nm, cst, ks, ks', c1, c2, c3, c4, c5⟩
    · exact Or.inl (e2.trans e1)
    · exact Or.inr ⟨nm, cst, ks, ks', e1 ▸ c1, c2, c3, c4, c5⟩
  · rcases b.cell u hu2 with e2 | ⟨nm', cst', ks2, ks3, d1, d2, d3, d4, d5⟩
    · exact Or.inr ⟨nm, cst, ks, ks', c1, e2.trans c2, c3, c4, c5⟩
    · rw [c2] at d1
      injection d1 with e1 e2 e3
      subst e1; subst e2; subst e3
      refine Or.inr ⟨nm, cst, ks, ks3, c1, d2, d3.trans c3, fun j hj => d4 j (c4 j hj), ?_⟩
      intro hne
      rw [← c5 hne, ← c3]
      exact d5 hne

theorem Shp.anode {h h' : Array MNode} (hs : Shp h h') {u : Nat} {nm : String} {cst : Nat}
    {ks : Array (Option Nat)} (hc : h.getD u .nil = .anode nm cst ks) :
    ∃ ks', h'.getD u .nil = .anode nm cst ks' ∧ ks'.size = ks.size ∧
      (∀ j, (ks.getD j none).isSome = true → (ks'.getD j none).isSome = true) ∧
      (u ≠ rootId → ks'.getD (ks.size - 1) none = ks.getD (ks.size - 1) none) := by
  rcases hs.cell u (lt_of_anode hc) with e | ⟨nm', cst', ks0, ks', c1, c2, c3, c4, c5⟩
  · exact ⟨ks, e.trans hc, rfl, fun _ hj => hj, fun _ => rfl⟩
  · rw [hc] at c1
    injection c1 with e1 e2 e3
    subst e1; subst e2; subst e3
    exact ⟨ks', c2, c3, c4, c5⟩

/-- an abstract node of the new heap at an old address was an abstract node -/
theorem Shp.anode_inv {h h' : Array MNode} (hs : Shp h h') {u : Nat} (hu : u < h.size) {nm : String}
    {cst : Nat} {ks' : Array (Option Nat)} (hc : h'.getD u .nil = .anode nm cst ks') :
    ∃ ks, h.getD u .nil = .anode nm cst ks ∧ ks'.size = ks.size ∧
      (∀ j, (ks.getD j none).isSome = true → (ks'.getD j none).isSome = true) ∧
      (u ≠ rootId → ks'.getD (ks.size - 1) none = ks.getD (ks.size - 1) none) := by
  rcases hs.cell u hu with e | ⟨nm', cst', ks0, ks1, c1, c2, c3, c4, c5⟩
  · exact ⟨ks', e ▸ hc, rfl, fun _ hj => hj, fun _ => rfl⟩
  · rw [hc] at c2
    injection c2 with e1 e2 e3
    subst e1; subst e2; subst e3
    exact ⟨ks0, c1, c3, c4, c5⟩

theorem Shp.leaf {h h' : Array MNode} (hs : Shp h h') {u : Nat} (hu : u < h.size)
    (hc : ∀ nm cst ks, h.getD u .nil ≠ .anode nm cst ks) : h'.getD u .nil = h.getD u .nil := by
  rcases hs.cell u hu with e | ⟨nm', cst', ks0, ks1, c1, _⟩
  · exact e
  · exact absurd c1 (hc _ _ _)

theorem PSlot.shp {h h' : Array MNode} (hs : Shp h h') {pa d : Nat} (hp : PSlot h pa d) :
    PSlot h' pa d := by
  obtain ⟨nm, cst, ks, c1, c2, c3⟩ := hp
  obtain ⟨ks', d1, d2, _⟩ := hs.anode c1
  exact ⟨nm, cst, ks', d1, by omega, by omega⟩

theorem Shp.push (h : Array MNode) (m : MNode) : Shp h (h.push m) :=
  ⟨by simp, fun _ hu => Or.inl (push_old m hu)⟩

theorem Placed.shp {h h' : Array MNode} {a d node : Nat} {nm : String} {c : Nat}
    {ks : Array (Option Nat)} (hp : Placed h h' a d node nm c ks)
    (hc : h.getD a .nil = .anode nm c ks) (hd : a = rootId ∨ d + 1 < ks.size) : Shp h h' := by
  refine ⟨hp.size_le, ?_⟩
  intro u hu
  by_cases hua : u = a
  · subst hua
    obtain ⟨x, hx, _⟩ := hp.cell
    refine Or.inr ⟨nm, c, ks, _, hc, hx, by simp, ?_, ?_⟩
    · intro j hj
      rw [kids_getD_set!]
      split
      · rfl
      · exact hj
    · intro hne
      rw [kids_getD_set!, if_neg]
      rcases hd with hd | hd
      · exact absurd hd hne
      · omega
  · exact Or.inl (hp.other u hua hu)

/-! ## the heap -/

structure HOK (h : Array MNode) : Prop where
  size : 3 ≤ h.size
  cnil : h.getD nilId .nil = .nil
  cerr : h.getD errId .nil = .err
  croot : ∃ nm cst ks, h.getD rootId .nil = .anode nm cst ks ∧ ks.size = 1
  reach : ∀ i, 3 ≤ i → i < h.size → Reach h rootId i
  last : ∀ i nm cst ks, 3 ≤ i → h.getD i .nil = .anode nm cst ks →
    0 < ks.size ∧ ks.getD (ks.size - 1) none = none
  /-- the only NIL / ERROR cells are `empty_node` and `error_node` -/
  leaf : ∀ i, 3 ≤ i → i < h.size → h.getD i .nil ≠ .nil ∧ h.getD i .nil ≠ .err

theorem HOK.step {h h' : Array MNode} (hk : HOK h) (hs : Shp h h')
    (he : ∀ u v, Edge h u v → Reach h' u v)
    (hnew : ∀ i, h.size ≤ i → i < h'.size → Reach h' rootId i ∧
      (∀ nm cst ks, h'.getD i .nil = .anode nm cst ks →
        0 < ks.size ∧ ks.getD (ks.size - 1) none = none) ∧
      h'.getD i .nil ≠ .nil ∧ h'.getD i .nil ≠ .err) :
    HOK h' := by
  have hsz := hk.size
  refine ⟨Nat.le_trans hk.size hs.size_le, ?_, ?_, ?_, ?_, ?_, ?_⟩
  · rw [hs.leaf (by unfold nilId; omega) (by intro _ _ _; rw [hk.cnil]; intro e; cases e)]
    exact hk.cnil
  · rw [hs.leaf (by unfold errId; omega) (by intro _ _ _; rw [hk.cerr]; intro e; cases e)]
    exact hk.cerr
  · obtain ⟨nm, cst, ks, c1, c2⟩ := hk.croot
    obtain ⟨ks', d1, d2, _⟩ := hs.anode c1
    exact ⟨nm, cst, ks', d1, by omega⟩
  · intro i h3 hi
    by_cases hlt : i < h.size
    · exact (hk.reach i h3 hlt).mono he
    · exact (hnew i (by omega) hi).1
  · intro i nm cst ks h3 hc
    by_cases hlt : i < h.size
    · obtain ⟨ks0, c1, c2, _, c4⟩ := hs.anode_inv hlt hc
      have := hk.last i nm cst ks0 h3 c1
      have hne : i ≠ rootId := by unfold rootId; omega
      rw [c2, c4 hne]
      exact this
    · exact (hnew i (by omega) (lt_of_anode hc)).2.1 nm cst ks hc
  · intro i h3 hi
    by_cases hlt : i < h.size
    · rcases hs.cell i hlt with e | ⟨nm, cst, ks, ks', _, c2, _⟩
      · rw [e]; exact hk.leaf i h3 hlt
      · rw [c2]; exact ⟨nofun, nofun⟩
    · exact (hnew i (by omega) hi).2.2

/-! ## the flags of the NIL and the ERROR node -/

structure Flags (h : Array MNode) (nu eu : Bool) : Prop where
  nilR : nu = true → Reach h rootId nilId
  errR : eu = true → Reach h rootId errId
  nilE : nu = false → ∀ u, ¬ Edge h u nilId
  errE : eu = false → ∀ u, ¬ Edge h u errId

theorem Flags.step {h h' : Array MNode} {nu eu : Bool} (hf : Flags h nu eu) (node : Nat)
    (he : ∀ u v, Edge h u v → Reach h' u v)
    (hinv : ∀ u v, Edge h' u v → (∃ u', Edge h u' v) ∨ v = node ∨ 3 ≤ v)
    (hn : Reach h' rootId node) :
    Flags h' (nu || node == nilId) (eu || node == errId) := by
  constructor
  · intro h1
    simp only [Bool.or_eq_true, beq_iff_eq] at h1
    rcases h1 with h1 | h1
    · exact (hf.nilR h1).mono he
    · rw [← h1]; exact hn
  · intro h1
    simp only [Bool.or_eq_true, beq_iff_eq] at h1
    rcases h1 with h1 | h1
    · exact (hf.errR h1).mono he
    · rw [← h1]; exact hn
  · intro h1 u e
    simp only [Bool.or_eq_false_iff, beq_eq_false_iff_ne, ne_eq] at h1
    rcases hinv u _ e with ⟨u', e'⟩ | h2 | h2
    · exact hf.nilE h1.1 u' e'
    · exact h1.2 h2.symm
    · unfold nilId at h2; omega
  · intro h1 u e
    simp only [Bool.or_eq_false_iff, beq_eq_false_iff_ne, ne_eq] at h1
    rcases hinv u _ e with ⟨u', e'⟩ | h2 | h2
    · exact hf.errE h1.1 u' e'
    · exact h1.2 h2.symm
    · unfold errId at h2; omega

/-- no new reference to NIL / ERROR -/
theorem Flags.step' {h h' : Array MNode} {nu eu : Bool} (hf : Flags h nu eu)
    (he : ∀ u v, Edge h u v → Reach h' u v)
    (hinv : ∀ u v, Edge h' u v → (∃ u', Edge h u' v) ∨ 3 ≤ v) : Flags h' nu eu := by
  constructor
  · intro h1; exact (hf.nilR h1).mono he
  · intro h1; exact (hf.errR h1).mono he
  · intro h1 u e
    rcases hinv u _ e with ⟨u', e'⟩ | h2
    · exact hf.nilE h1 u' e'
    · unfold nilId at h2; omega
  · intro h1 u e
    rcases hinv u _ e with ⟨u', e'⟩ | h2
    · exact hf.errE h1 u' e'
    · unfold errId at h2; omega

/-! ## the parse states -/

structure SOK (c : Ctx) (h : Array MNode) (sts : Array PState) : Prop where
  size0 : 0 < sts.size
  st0 : (sts.getD 0 default).anode = some rootId
  plt : ∀ sid, (sts.getD sid default).parent < sts.size
  own : ∀ sid a, sid ≠ 0 → (sts.getD sid default).anode = some a → 3 ≤ a ∧
    ∃ nm cst ks, h.getD a .nil = .anode nm cst ks ∧
      ks.size = (c.rule (sts.getD sid default).rule).transLen + 1
  par : ∀ sid pa, (sts.getD (sts.getD sid default).parent default).anode = some pa →
    PSlot h pa (sts.getD sid default).parentDisp

theorem SOK.shp {c : Ctx} {h h' : Array MNode} {sts : Array PState} (hs : SOK c h sts)
    (hh : Shp h h') : SOK c h' sts := by
  refine ⟨hs.size0, hs.st0, hs.plt, ?_, ?_⟩
  · intro sid a hne ha
    obtain ⟨h3, nm, cst, ks, c1, c2⟩ := hs.own sid a hne ha
    obtain ⟨ks', d1, d2, _⟩ := hh.anode c1
    exact ⟨h3, nm, cst, ks', d1, by omega⟩
  · intro sid pa hpa
    exact (hs.par sid pa hpa).shp hh

/-- an abstract node of the tree has all its slots filled, or its parse state is on the stack -/
def FullOK (h : Array MNode) (sts : Array PState) (stack : List Nat) : Prop :=
  ∀ i nm cst ks, 3 ≤ i → h.getD i .nil = .anode nm cst ks →
    Full ks ∨ ∃ sid, sid ∈ stack ∧ (sts.getD sid default).anode = some i

theorem FullOK.shp {h h' : Array MNode} {sts : Array PState} {stack : List Nat}
    (hf : FullOK h sts stack) (hh : Shp h h')
    (hnew : ∀ i nm cst ks, h.size ≤ i → h'.getD i .nil = .anode nm cst ks →
      Full ks ∨ ∃ sid, sid ∈ stack ∧ (sts.getD sid default).anode = some i) :
    FullOK h' sts stack := by
  intro i nm cst ks h3 hc
  by_cases hlt : i < h.size
  · obtain ⟨ks0, c1, c2, c3, _⟩ := hh.anode_inv hlt hc
    rcases hf i nm cst ks0 h3 c1 with hfull | hst
    · left
      intro j hj
      exact c3 j (hfull j (by omega))
    · exact Or.inr hst
  · exact hnew i nm cst ks (by omega) hc

/-! ## the name blocks -/

/-- `nr` = the rules whose name block (`caller_anode`) has been allocated, `na` = the cells after
which that happened (parallel lists): every abstract node of the tree carries the name of such a
rule; the cell recorded for a rule is an abstract node with the name of the rule -/
structure NOK (c : Ctx) (h : Array MNode) (nr na : List Nat) : Prop where
  cover : ∀ i nm cst ks, 3 ≤ i → h.getD i .nil = .anode nm cst ks →
    ∃ rl, rl ∈ nr ∧ (c.rule rl).anode = some nm
  len : nr.length = na.length
  pair : ∀ q, q ∈ nr.zip na → 3 ≤ q.2 ∧ q.2 < h.size ∧
    ∃ nm cst ks, h.getD q.2 .nil = .anode nm cst ks ∧ (c.rule q.1).anode = some nm
  nrnd : nr.Nodup
  nand : na.Nodup
  nalt : ∀ i, i ∈ na → i < h.size

/-- no abstract node among the new cells -/
def NoNewAnode (h h' : Array MNode) : Prop :=
  ∀ i nm cst ks, h.size ≤ i → h'.getD i .nil ≠ .anode nm cst ks

theorem NOK.shp {c : Ctx} {h h' : Array MNode} {nr na : List Nat} (hn : NOK c h nr na)
    (hh : Shp h h')
    (hnew : ∀ i nm cst ks, h.size ≤ i → h'.getD i .nil = .anode nm cst ks →
      ∃ rl, rl ∈ nr ∧ (c.rule rl).anode = some nm) : NOK c h' nr na := by
  refine ⟨?_, hn.len, ?_, hn.nrnd, hn.nand, fun i hi => Nat.lt_of_lt_of_le (hn.nalt i hi) hh.size_le⟩
  · intro i nm cst ks h3 hc
    by_cases hlt : i < h.size
    · obtain ⟨ks0, c1, _⟩ := hh.anode_inv hlt hc
      exact hn.cover i nm cst ks0 h3 c1
    · exact hnew i nm cst ks (by omega) hc
  · intro q hq
    obtain ⟨a1, a2, nm, cst, ks, a3, a4⟩ := hn.pair q hq
    obtain ⟨ks', b1, _⟩ := hh.anode a3
    exact ⟨a1, Nat.lt_of_lt_of_le a2 hh.size_le, nm, cst, ks', b1, a4⟩

theorem NOK.shp' {c : Ctx} {h h' : Array MNode} {nr na : List Nat} (hn : NOK c h nr na)
    (hh : Shp h h') (hnew : NoNewAnode h h') : NOK c h' nr na :=
  hn.shp hh fun i nm cst ks h1 h2 => absurd h2 (hnew i nm cst ks h1)

theorem NoNewAnode.trans {h1 h2 h3 : Array MNode} (a : NoNewAnode h1 h2) (s : Shp h2 h3)
    (b : NoNewAnode h2 h3) : NoNewAnode h1 h3 := by
  intro i nm cst ks hi hc
  by_cases hlt : i < h2.size
  · obtain ⟨ks0, c1, _⟩ := s.anode_inv hlt hc
    exact a i nm cst ks0 hi c1
  · exact b i nm cst ks (by omega) hc

theorem NoNewAnode.refl (h : Array MNode) : NoNewAnode h h := by
  intro i nm cst ks hi hc
  have := lt_of_anode hc
  omega

/-- the first abstract node of rule `rl`: its name block is allocated -/
theorem NOK.cons {c : Ctx} {h h' : Array MNode} {nr na : List Nat} (hn : NOK c h nr na)
    (hh : Shp h h') {rl : Nat} {nm : String} {cst : Nat} {ks : Array (Option Nat)}
    (hrl : rl ∉ nr) (hnm : (c.rule rl).anode = some nm) (h3 : 3 ≤ h.size)
    (hcell : h'.getD h.size .nil = .anode nm cst ks)
    (hnew : ∀ i nm cst ks, h.size < i → h'.getD i .nil ≠ .anode nm cst ks) :
    NOK c h' (rl :: nr) (h.size :: na) := by
  have hlt : h.size < h'.size := lt_of_anode hcell
  refine ⟨?_, by simp [hn.len], ?_, List.nodup_cons.2 ⟨hrl, hn.nrnd⟩,
    List.nodup_cons.2 ⟨fun hm => Nat.lt_irrefl _ (hn.nalt _ hm), hn.nand⟩, ?_⟩
  · intro i nm' cst' ks' h3' hc
    by_cases hlt' : i < h.size
    · obtain ⟨ks0, c1, _⟩ := hh.anode_inv hlt' hc
      obtain ⟨r, r1, r2⟩ := hn.cover i nm' cst' ks0 h3' c1
      exact ⟨r, List.mem_cons_of_mem _ r1, r2⟩
    · by_cases he : i = h.size
      · subst he
        rw [hcell] at hc
        injection hc with e1 _ _
        subst e1
        exact ⟨rl, List.mem_cons_self, hnm⟩
      · exact absurd hc (hnew i nm' cst' ks' (by omega))
  · intro q hq
    simp only [List.zip_cons_cons, List.mem_cons] at hq
    rcases hq with e | hq
    · subst e
      exact ⟨h3, hlt, nm, cst, ks, hcell, hnm⟩
    · obtain ⟨a1, a2, nm', cst', ks', a3, a4⟩ := hn.pair q hq
      obtain ⟨ks'', b1, _⟩ := hh.anode a3
      exact ⟨a1, Nat.lt_of_lt_of_le a2 hh.size_le, nm', cst', ks'', b1, a4⟩
  · intro i hi
    rcases List.mem_cons.1 hi with e | e
    · rw [e]; exact hlt
    · exact Nat.lt_of_lt_of_le (hn.nalt i e) hh.size_le

/-! ## the invariant -/

structure Inv (c : Ctx) (h : Array MNode) (sts : Array PState) (stack : List Nat) (nu eu : Bool)
    (nr na : List Nat) : Prop where
  hok : HOK h
  flags : Flags h nu eu
  sok : SOK c h sts
  nz : 0 ∉ stack
  full : FullOK h sts stack
  nok : NOK c h nr na

theorem PSlot.reach_root {h : Array MNode} (hk : HOK h) {a d : Nat} (hp : PSlot h a d) :
    Reach h rootId a := by
  obtain ⟨nm, cst, ks, c1, _, c3⟩ := hp
  rcases c3 with c3 | c3
  · rw [c3]; exact .refl _
  · exact hk.reach a c3.1 (lt_of_anode c1)

/-- `place_translation` into a slot that may be written -/
theorem Inv.place {c : Ctx} {h : Array MNode} {sts : Array PState} {stack : List Nat} {nu eu : Bool}
    {nr na : List Nat} (hi : Inv c h sts stack nu eu nr na) {a d : Nat} (hs : PSlot h a d) (node : Nat) :
    Inv c (placeTranslation h (a, d) node) sts stack (nu || node == nilId) (eu || node == errId)
        nr na ∧
      Shp h (placeTranslation h (a, d) node) ∧ NoNewAnode h (placeTranslation h (a, d) node) ∧
      (∃ x, getKid (placeTranslation h (a, d) node) a d = some x) := by
  obtain ⟨nm, cst, ks, c1, c2, c3⟩ := hs
  have hp := place_placed (node := node) c1 c2
  have hshp : Shp h (placeTranslation h (a, d) node) :=
    hp.shp c1 (by rcases c3 with c3 | c3; exact Or.inl c3; exact Or.inr c3.2)
  have hra : Reach (placeTranslation h (a, d) node) rootId a :=
    hp.reach c1 (PSlot.reach_root hi.hok ⟨nm, cst, ks, c1, c2, c3⟩)
  have hsz := hi.hok.size
  have hnonew : NoNewAnode h (placeTranslation h (a, d) node) := by
    intro i nm' cst' ks' h1 hc'
    obtain ⟨⟨nd, nx, hcell, _⟩, _⟩ := hp.fresh i h1 (lt_of_anode hc')
    rw [hcell] at hc'; cases hc'
  refine ⟨⟨?_, ?_, hi.sok.shp hshp, hi.nz, ?_, hi.nok.shp' hshp hnonew⟩, hshp, hnonew, ?_⟩
  · apply hi.hok.step hshp (fun u v e => hp.edge c1 e)
    intro i h1 h2
    obtain ⟨⟨nd, nx, hcell, _⟩, hr⟩ := hp.fresh i h1 h2
    refine ⟨hra.trans hr, ?_, by rw [hcell]; exact ⟨nofun, nofun⟩⟩
    intro nm' cst' ks' hc'
    rw [hcell] at hc'; cases hc'
  · apply hi.flags.step node (fun u v e => hp.edge c1 e)
    · intro u v e
      rcases hp.edge_inv c1 e with h1 | h1 | h1
      · exact Or.inl h1
      · exact Or.inr (Or.inl h1)
      · exact Or.inr (Or.inr (by omega))
    · exact hra.trans (hp.reach_node c2)
  · apply hi.full.shp hshp
    intro i nm' cst' ks' h1 hc'
    obtain ⟨⟨nd, nx, hcell, _⟩, _⟩ := hp.fresh i h1 (lt_of_anode hc')
    rw [hcell] at hc'; cases hc'
  · obtain ⟨x, hx, _⟩ := hp.cell
    refine ⟨x, ?_⟩
    rw [getKid_cell hx, kids_getD_set!]
    simp [c2]

/-- what is required of a cell that is allocated and placed at once -/
structure NewCell (h : Array MNode) (m : MNode) : Prop where
  edges : ∀ v, CellEdge m v → ∃ u, Edge h u v
  last : ∀ nm cst ks, m = .anode nm cst ks → 0 < ks.size ∧ ks.getD (ks.size - 1) none = none
  notleaf : m ≠ .nil ∧ m ≠ .err

/-- allocation of a cell that is placed at once: the heap part -/
theorem alloc_place {h : Array MNode} {nu eu : Bool} (hk : HOK h) (hf : Flags h nu eu) {a d : Nat}
    (hs : PSlot h a d) {m : MNode} (hm : NewCell h m) :
    HOK (placeTranslation (h.push m) (a, d) h.size) ∧
    Flags (placeTranslation (h.push m) (a, d) h.size) nu eu ∧
    Shp h (placeTranslation (h.push m) (a, d) h.size) ∧
    (placeTranslation (h.push m) (a, d) h.size).getD h.size .nil = m ∧
    (∀ i nm cst ks, h.size < i → (placeTranslation (h.push m) (a, d) h.size).getD i .nil ≠
      .anode nm cst ks) := by
  obtain ⟨nm, cst, ks, c1, c2, c3⟩ := hs
  have ha : a < h.size := lt_of_anode c1
  have c1' : (h.push m).getD a .nil = .anode nm cst ks := by rw [push_old m ha]; exact c1
  have hp := place_placed (node := h.size) c1' c2
  have hshp1 : Shp (h.push m) (placeTranslation (h.push m) (a, d) h.size) :=
    hp.shp c1' (by rcases c3 with c3 | c3; exact Or.inl c3; exact Or.inr c3.2)
  have hshp : Shp h (placeTranslation (h.push m) (a, d) h.size) := (Shp.push h m).trans hshp1
  have hedge : ∀ u v, Edge h u v → Reach (placeTranslation (h.push m) (a, d) h.size) u v :=
    fun u v e => hp.edge c1' (edge_push m e)
  have hra : Reach (placeTranslation (h.push m) (a, d) h.size) rootId a :=
    (PSlot.reach_root hk ⟨nm, cst, ks, c1, c2, c3⟩).mono hedge
  have hsz := hk.size
  have hnewcell : (placeTranslation (h.push m) (a, d) h.size).getD h.size .nil = m := by
    rw [hp.other h.size (by omega) (by simp), push_new]
  refine ⟨?_, ?_, hshp, hnewcell, ?_⟩
  · apply hk.step hshp hedge
    intro i h1 h2
    by_cases hi : i = h.size
    · subst hi
      refine ⟨hra.trans (hp.reach_node c2), ?_, by rw [hnewcell]; exact hm.notleaf⟩
      intro nm' cst' ks' hc'
      rw [hnewcell] at hc'
      exact hm.last nm' cst' ks' hc'
    · obtain ⟨⟨nd, nx, hcell, _⟩, hr⟩ := hp.fresh i (by simp; omega) h2
      refine ⟨hra.trans hr, ?_, by rw [hcell]; exact ⟨nofun, nofun⟩⟩
      intro nm' cst' ks' hc'
      rw [hcell] at hc'; cases hc'
  · apply hf.step' hedge
    intro u v e
    rcases hp.edge_inv c1' e with ⟨u', e'⟩ | h1 | h1
    · rcases edge_of_push e' with e'' | ⟨_, e''⟩
      · exact Or.inl ⟨u', e''⟩
      · exact Or.inl (hm.edges v e'')
    · exact Or.inr (by omega)
    · simp only [Array.size_push] at h1
      exact Or.inr (by omega)
  · intro i nm' cst' ks' h1 hc'
    obtain ⟨⟨nd, nx, hcell, _⟩, _⟩ := hp.fresh i (by simp; omega) (lt_of_anode hc')
    rw [hcell] at hc'; cases hc'

/-- a TERM node is allocated and placed -/
theorem Inv.allocLeaf {c : Ctx} {h : Array MNode} {sts : Array PState} {stack : List Nat}
    {nu eu : Bool} {nr na : List Nat} (hi : Inv c h sts stack nu eu nr na) {a d : Nat} (hs : PSlot h a d) (cd at' : Int) :
    Inv c (placeTranslation (h.push (.term cd at')) (a, d) h.size) sts stack nu eu nr na ∧
      Shp h (placeTranslation (h.push (.term cd at')) (a, d) h.size) ∧
      NoNewAnode h (placeTranslation (h.push (.term cd at')) (a, d) h.size) := by
  have hm : NewCell h (.term cd at') :=
    ⟨fun v e => False.elim e, (fun nm cst ks e => by cases e), ⟨nofun, nofun⟩⟩
  obtain ⟨h1, h2, h3, h4, h5⟩ := alloc_place hi.hok hi.flags hs hm
  have hnn : NoNewAnode h (placeTranslation (h.push (.term cd at')) (a, d) h.size) := by
    intro i nm cst ks hge hc
    by_cases hi' : i = h.size
    · subst hi'; rw [h4] at hc; cases hc
    · exact absurd hc (h5 i nm cst ks (by omega))
  refine ⟨⟨h1, h2, hi.sok.shp h3, hi.nz, ?_, hi.nok.shp' h3 hnn⟩, h3, hnn⟩
  apply hi.full.shp h3
  intro i nm cst ks hge hc
  by_cases hi' : i = h.size
  · subst hi'; rw [h4] at hc; cases hc
  · exact absurd hc (h5 i nm cst ks (by omega))

theorem getD_push_cases (sts : Array PState) (p : PState) (sid : Nat) :
    (sts.push p).getD sid default = sts.getD sid default ∨
      (sid = sts.size ∧ (sts.push p).getD sid default = p) := by
  rcases Nat.lt_trichotomy sid sts.size with h1 | h1 | h1
  · exact Or.inl (getD_push_lt _ _ _ _ h1)
  · exact Or.inr ⟨h1, h1 ▸ getD_push_eq _ _ _⟩
  · left
    simp [Array.getD_eq_getD_getElem?, Array.getElem?_eq_none (show (sts.push p).size ≤ sid by simp; omega),
      Array.getElem?_eq_none (show sts.size ≤ sid by omega)]

theorem lt_of_anode_some {sts : Array PState} {sid a : Nat}
    (h : (sts.getD sid default).anode = some a) : sid < sts.size := by
  rcases Nat.lt_or_ge sid sts.size with h1 | h1
  · exact h1
  · simp [Array.getD_eq_getD_getElem?, Array.getElem?_eq_none h1] at h
    cases h

theorem SOK.push {c : Ctx} {h : Array MNode} {sts : Array PState} (hs : SOK c h sts) (p : PState)
    (hp1 : p.parent < sts.size)
    (hp2 : ∀ pa, (sts.getD p.parent default).anode = some pa → PSlot h pa p.parentDisp)
    (hp3 : ∀ a, p.anode = some a → 3 ≤ a ∧ ∃ nm cst ks, h.getD a .nil = .anode nm cst ks ∧
      ks.size = (c.rule p.rule).transLen + 1) : SOK c h (sts.push p) := by
  have hs0 := hs.size0
  have hold : ∀ sid, sid < sts.size → (sts.push p).getD sid default = sts.getD sid default :=
    fun sid hs => getD_push_lt _ _ _ _ hs
  refine ⟨by simp, ?_, ?_, ?_, ?_⟩
  · rw [hold 0 hs0]; exact hs.st0
  · intro sid
    simp only [Array.size_push]
    rcases getD_push_cases sts p sid with e | ⟨_, e⟩
    · rw [e]; have := hs.plt sid; omega
    · rw [e]; omega
  · intro sid a hne ha
    rcases getD_push_cases sts p sid with e | ⟨_, e⟩
    · rw [e] at ha ⊢; exact hs.own sid a hne ha
    · rw [e] at ha ⊢; exact hp3 a ha
  · intro sid pa hpa
    rcases getD_push_cases sts p sid with e | ⟨_, e⟩
    · rw [e] at hpa ⊢
      rw [hold _ (hs.plt sid)] at hpa
      exact hs.par sid pa hpa
    · rw [e] at hpa ⊢
      rw [hold _ hp1] at hpa
      exact hp2 pa hpa

theorem FullOK.push {h : Array MNode} {sts : Array PState} {stack : List Nat}
    (hf : FullOK h sts stack) (p : PState) : FullOK h (sts.push p) (sts.size :: stack) := by
  intro i nm cst ks h3 hc
  rcases hf i nm cst ks h3 hc with hf | ⟨sid, hs1, hs2⟩
  · exact Or.inl hf
  · right
    refine ⟨sid, List.mem_cons_of_mem _ hs1, ?_⟩
    rw [getD_push_lt _ _ _ _ (lt_of_anode_some hs2)]; exact hs2

theorem nz_push {sts : Array PState} {stack : List Nat} (h0 : 0 < sts.size) (hn : 0 ∉ stack) :
    0 ∉ sts.size :: stack := by
  intro hm
  rcases List.mem_cons.1 hm with h1 | h1
  · omega
  · exact hn h1

/-- a parse state is pushed -/
theorem Inv.pushState {c : Ctx} {h : Array MNode} {sts : Array PState} {stack : List Nat}
    {nu eu : Bool} {nr na : List Nat} (hi : Inv c h sts stack nu eu nr na) (p : PState) (hp1 : p.parent < sts.size)
    (hp2 : ∀ pa, (sts.getD p.parent default).anode = some pa → PSlot h pa p.parentDisp)
    (hp3 : ∀ a, p.anode = some a → 3 ≤ a ∧ ∃ nm cst ks, h.getD a .nil = .anode nm cst ks ∧
      ks.size = (c.rule p.rule).transLen + 1) :
    Inv c h (sts.push p) (sts.size :: stack) nu eu nr na :=
  ⟨hi.hok, hi.flags, hi.sok.push p hp1 hp2 hp3, nz_push hi.sok.size0 hi.nz, hi.full.push p, hi.nok⟩

/-- an abstract node (new, or a copy) is allocated and placed, and its parse state is pushed -/
theorem Inv.allocAnode {c : Ctx} {h : Array MNode} {sts : Array PState} {stack : List Nat}
    {nu eu : Bool} {nr na : List Nat} (hi : Inv c h sts stack nu eu nr na) {a d : Nat} (hs : PSlot h a d) {m : MNode}
    (hm : NewCell h m) (p : PState) (hp1 : p.parent < sts.size)
    (hp2 : ∀ pa, (sts.getD p.parent default).anode = some pa → PSlot h pa p.parentDisp)
    (hp3 : p.anode = some h.size)
    (hp4 : ∃ nm cst ks, m = .anode nm cst ks ∧ ks.size = (c.rule p.rule).transLen + 1)
    {nr' na' : List Nat} (hnok : NOK c (placeTranslation (h.push m) (a, d) h.size) nr' na') :
    Inv c (placeTranslation (h.push m) (a, d) h.size) (sts.push p) (sts.size :: stack) nu eu
        nr' na' ∧
      Shp h (placeTranslation (h.push m) (a, d) h.size) := by
  obtain ⟨h1, h2, h3, h4, h5⟩ := alloc_place hi.hok hi.flags hs hm
  have hsz := hi.hok.size
  refine ⟨⟨h1, h2, ?_, nz_push hi.sok.size0 hi.nz, ?_, hnok⟩, h3⟩
  · apply (hi.sok.shp h3).push p hp1 (fun pa hpa => (hp2 pa hpa).shp h3)
    intro a' ha'
    rw [hp3] at ha'
    injection ha' with ha'
    subst ha'
    obtain ⟨nm, cst, ks, e1, e2⟩ := hp4
    exact ⟨hsz, nm, cst, ks, by rw [h4, e1], e2⟩
  · intro i nm cst ks hge hc
    by_cases hlt : i < h.size
    · obtain ⟨ks0, c1, c2, c3, _⟩ := h3.anode_inv hlt hc
      rcases hi.full i nm cst ks0 hge c1 with hfull | ⟨sid, hs1, hs2⟩
      · left
        intro j hj
        exact c3 j (hfull j (by omega))
      · right
        refine ⟨sid, List.mem_cons_of_mem _ hs1, ?_⟩
        rw [getD_push_lt _ _ _ _ (lt_of_anode_some hs2)]; exact hs2
    · by_cases hi' : i = h.size
      · subst hi'
        right
        exact ⟨sts.size, List.mem_cons_self, by rw [getD_push_eq]; exact hp3⟩
      · exact absurd hc (h5 i nm cst ks (by omega))

/-! ## a parse state changes its position / list index -/

/-- the fields of a parse state that never change -/
def SameImm (p q : PState) : Prop :=
  p.anode = q.anode ∧ p.rule = q.rule ∧ p.parent = q.parent ∧ p.parentDisp = q.parentDisp

theorem SameImm.refl (p : PState) : SameImm p p := ⟨rfl, rfl, rfl, rfl⟩

theorem SameImm.trans {p q r : PState} (a : SameImm p q) (b : SameImm q r) : SameImm p r :=
  ⟨a.1.trans b.1, a.2.1.trans b.2.1, a.2.2.1.trans b.2.2.1, a.2.2.2.trans b.2.2.2⟩

theorem set!_sameImm (sts : Array PState) (sid : Nat) (p' : PState)
    (hp : SameImm p' (sts.getD sid default)) (x : Nat) :
    SameImm ((sts.set! sid p').getD x default) (sts.getD x default) := by
  rw [getD_set!]
  split
  · rename_i hh; rw [← hh.1]; exact hp
  · exact SameImm.refl _

theorem SOK.congr {c : Ctx} {h : Array MNode} {sts sts' : Array PState} (hs : SOK c h sts)
    (hsz : sts'.size = sts.size)
    (hi : ∀ x, SameImm (sts'.getD x default) (sts.getD x default)) : SOK c h sts' := by
  refine ⟨by rw [hsz]; exact hs.size0, by rw [(hi 0).1]; exact hs.st0, ?_, ?_, ?_⟩
  · intro sid; rw [(hi sid).2.2.1, hsz]; exact hs.plt sid
  · intro sid a hne ha
    rw [(hi sid).1] at ha
    rw [(hi sid).2.1]
    exact hs.own sid a hne ha
  · intro sid pa hpa
    rw [(hi sid).2.2.1, (hi _).1] at hpa
    rw [(hi sid).2.2.2]
    exact hs.par sid pa hpa

theorem Inv.setState {c : Ctx} {h : Array MNode} {sts : Array PState} {stack : List Nat}
    {nu eu : Bool} {nr na : List Nat} (hi : Inv c h sts stack nu eu nr na) (sid : Nat) (p' : PState)
    (hp : SameImm p' (sts.getD sid default)) : Inv c h (sts.set! sid p') stack nu eu nr na := by
  refine ⟨hi.hok, hi.flags, hi.sok.congr (by simp) (set!_sameImm sts sid p' hp), hi.nz, ?_, hi.nok⟩
  intro i nm cst ks h3 hc
  rcases hi.full i nm cst ks h3 hc with hf | ⟨x, hx1, hx2⟩
  · exact Or.inl hf
  · exact Or.inr ⟨x, hx1, by rw [(set!_sameImm sts sid p' hp x).1]; exact hx2⟩

/-! ## popping a state -/

theorem Inv.pop {c : Ctx} {h : Array MNode} {sts : Array PState} {sid : Nat} {rest : List Nat}
    {nu eu : Bool} {nr na : List Nat} (hi : Inv c h sts (sid :: rest) nu eu nr na)
    (hfull : ∀ an nm cst ks, (sts.getD sid default).anode = some an →
      h.getD an .nil = .anode nm cst ks → Full ks) : Inv c h sts rest nu eu nr na := by
  refine ⟨hi.hok, hi.flags, hi.sok, fun hm => hi.nz (List.mem_cons_of_mem _ hm), ?_, hi.nok⟩
  intro i nm cst ks h3 hc
  rcases hi.full i nm cst ks h3 hc with hf | ⟨x, hx1, hx2⟩
  · exact Or.inl hf
  · rcases List.mem_cons.1 hx1 with e | e
    · subst e; exact Or.inl (hfull i nm cst ks hx2 hc)
    · exact Or.inr ⟨x, e, hx2⟩

/-! ## the final NULL → NIL pass over the children of a finished abstract node -/

theorem place_none_eq {h : Array MNode} {a d : Nat} (node : Nat) (hk : getKid h a d = none) :
    placeTranslation h (a, d) node = setKid h a d (some node) := by
  unfold placeTranslation
  simp only [hk]

/-- one step of the pass -/
def fillStep (an : Nat) (x : Array MNode × Bool) (i : Nat) : Array MNode × Bool :=
  if (getKid x.1 an i).isNone then (setKid x.1 an i (some nilId), true) else x

theorem fill_inv {c : Ctx} {sts : Array PState} {stack : List Nat} {eu : Bool} {an : Nat}
    {nr na : List Nat} :
    ∀ (l : List Nat) (h : Array MNode) (nu : Bool), Inv c h sts stack nu eu nr na →
      (∀ i ∈ l, PSlot h an i) →
      Inv c (l.foldl (fillStep an) (h, nu)).1 sts stack (l.foldl (fillStep an) (h, nu)).2 eu nr na ∧
      Shp h (l.foldl (fillStep an) (h, nu)).1 ∧
      ∀ i ∈ l, (getKid (l.foldl (fillStep an) (h, nu)).1 an i).isSome = true
  | [], h, nu, hi, _ => ⟨hi, Shp.refl _, fun _ hm => by cases hm⟩
  | i :: l, h, nu, hi, hsl => by
    simp only [List.foldl_cons]
    have hstep : Inv c (fillStep an (h, nu) i).1 sts stack (fillStep an (h, nu) i).2 eu nr na ∧
        Shp h (fillStep an (h, nu) i).1 ∧ (getKid (fillStep an (h, nu) i).1 an i).isSome = true := by
      unfold fillStep
      simp only
      split
      · rename_i hnone
        have hk : getKid h an i = none := by simpa using hnone
        rw [← place_none_eq nilId hk]
        obtain ⟨a1, a2, _, x, a3⟩ := hi.place (hsl i List.mem_cons_self) nilId
        refine ⟨?_, a2, by rw [a3]; rfl⟩
        have e1 : (nu || nilId == nilId) = true := by simp
        have e2 : (eu || nilId == errId) = eu := by simp [nilId, errId]
        rw [e1, e2] at a1
        exact a1
      · rename_i hsome
        refine ⟨hi, Shp.refl _, ?_⟩
        cases hg : getKid h an i with
        | none => rw [hg] at hsome; exact absurd rfl hsome
        | some _ => rfl
    obtain ⟨s1, s2, s3⟩ := hstep
    have ih := fill_inv l (fillStep an (h, nu) i).1 (fillStep an (h, nu) i).2 s1
      (fun j hj => (hsl j (List.mem_cons_of_mem _ hj)).shp s2)
    obtain ⟨i1, i2, i3⟩ := ih
    refine ⟨i1, s2.trans i2, ?_⟩
    intro j hj
    rcases List.mem_cons.1 hj with e | e
    · subst e
      -- filled slots stay filled
      obtain ⟨nm, cst, ks, c1, _⟩ := (hsl j List.mem_cons_self).shp s2
      obtain ⟨ks', d1, _, d3, _⟩ := i2.anode c1
      rw [getKid_cell d1]
      rw [getKid_cell c1] at s3
      exact d3 j s3
    · exact i3 j e

end Yaep.NG
