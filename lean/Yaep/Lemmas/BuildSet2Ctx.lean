import Yaep.Model.BuildSet2
import Yaep.Lemmas.Earley2C
import Yaep.Lemmas.BuildSetExpand
/-!
# Helper lemmas for `Yaep/Model/BuildSet2.lean`, part 1: the context loop of
`expand_new_start_set` (`lookahead_level > 1`)

The `do … while (changed_p)` loop recomputes the contexts of the initial situations in place.
Here: the contexts only grow, a pass that changes something makes the total size of the
contexts bigger (so the loop ends), the final contexts are a fixpoint, and they are below every
pre-fixpoint — whatever the order in which the situations are visited.
-/
namespace Yaep.BS2
open Yaep

/-! ## small facts -/

/-- the core of levels 0/1 obtained by forgetting the contexts -/
def Core2.proj (c : Core2) : BS.Core :=
  { num := c.num, sits := c.sits.map Sit2.proj, nStart := c.nStart, nAllDists := c.nAllDists,
    parents := c.parents, trans := c.trans, reduces := c.reduces }

def Core2.sitAt (c : Core2) (k : Nat) : Sit2 := c.sits.getD k default
def Core2.ctxAt (c : Core2) (k : Nat) : List Nat := (c.sits.getD k default).ctx

theorem getD_map_proj (l : List Sit2) (k : Nat) :
    (l.map Sit2.proj).getD k default = (l.getD k default).proj := by
  rw [List.getD_eq_getElem?_getD, List.getD_eq_getElem?_getD, List.getElem?_map]
  cases l[k]? <;> rfl

theorem sum_map_le {L : List Nat} {f h : Nat → Nat} (hle : ∀ k ∈ L, f k ≤ h k) :
    (L.map f).sum ≤ (L.map h).sum := by
  induction L with
  | nil => simp
  | cons a L ih =>
    have h1 := hle a List.mem_cons_self
    have h2 := ih fun k hk => hle k (List.mem_cons_of_mem _ hk)
    simp only [List.map_cons, List.sum_cons]
    omega

theorem sum_map_lt {L : List Nat} {f h : Nat → Nat} (hle : ∀ k ∈ L, f k ≤ h k)
    {i : Nat} (hi : i ∈ L) (hlt : f i < h i) : (L.map f).sum < (L.map h).sum := by
  induction L with
  | nil => cases hi
  | cons a L ih =>
    have h1 := hle a List.mem_cons_self
    have hle' : ∀ k ∈ L, f k ≤ h k := fun k hk => hle k (List.mem_cons_of_mem _ hk)
    simp only [List.map_cons, List.sum_cons]
    rcases List.mem_cons.mp hi with rfl | hi
    · have := sum_map_le hle'
      omega
    · have := ih hle' hi
      omega

theorem sum_map_le_const {L : List Nat} {f : Nat → Nat} {n : Nat} (hle : ∀ k ∈ L, f k ≤ n) :
    (L.map f).sum ≤ L.length * n := by
  induction L with
  | nil => simp
  | cons a L ih =>
    have h1 := hle a List.mem_cons_self
    have h2 := ih fun k hk => hle k (List.mem_cons_of_mem _ hk)
    simp only [List.map_cons, List.sum_cons, List.length_cons, Nat.succ_mul]
    omega

/-- a proper superset among strictly increasing lists is longer -/
theorem sorted_subset_length_lt {c c' : List Nat} (hc : SortedLt c) (hc' : SortedLt c')
    (hsub : ∀ a ∈ c, a ∈ c') (hne : c' ≠ c) : c.length < c'.length := by
  have hle := nodup_subset_length hc.nodup (fun a ha => hsub a ha)
  rcases Nat.lt_or_ge c.length c'.length with h | h
  · exact h
  · exfalso
    apply hne
    have hback := subset_of_nodup_length hc.nodup hsub h
    exact sortedLt_ext hc' hc (fun x => ⟨hback x, hsub x⟩)

/-! ## replacing the context of one situation -/

def Core2.setCtx (c : Core2) (i : Nat) (x : List Nat) : Core2 :=
  { c with sits := c.sits.set i { c.sits.getD i default with ctx := x } }

theorem ctxStepWith_eq (flag : Bool → Bool → Bool) (g : Grammar) (an : Analysis)
    (st : Core2 × Bool) (i : Nat) :
    ctxStepWith flag g an st i =
      if newCtx g an st.1 i = st.1.ctxAt i then (st.1, flag st.2 false)
      else (st.1.setCtx i (newCtx g an st.1 i), flag st.2 true) := rfl

theorem setCtx_sitAt (c : Core2) (i : Nat) (x : List Nat) (k : Nat) (hi : i < c.sits.length) :
    (c.setCtx i x).sitAt k = if k = i then { c.sitAt i with ctx := x } else c.sitAt k := by
  unfold Core2.sitAt Core2.setCtx
  simp only
  rw [List.getD_eq_getElem?_getD, List.getElem?_set]
  by_cases hk : k = i
  · subst hk
    simp [hi]
  · have : ¬ i = k := fun h => hk h.symm
    simp only [this, if_false, hk]
    rw [← List.getD_eq_getElem?_getD]

theorem setCtx_proj (c : Core2) (i : Nat) (x : List Nat) : (c.setCtx i x).proj = c.proj := by
  unfold Core2.setCtx Core2.proj
  simp only [BS.Core.mk.injEq, true_and, and_true]
  rw [List.map_set]
  apply List.ext_getElem?
  intro k
  rw [List.getElem?_set]
  split
  · rename_i h
    subst h
    split
    · rename_i hlt
      rw [List.length_map] at hlt
      rw [List.getElem?_map, List.getD_eq_getElem?_getD, List.getElem?_eq_getElem hlt]
      rfl
    · rename_i hlt
      rw [List.getElem?_eq_none (by omega)]
  · rfl

theorem setCtx_length (c : Core2) (i : Nat) (x : List Nat) :
    (c.setCtx i x).sits.length = c.sits.length := by
  unfold Core2.setCtx; simp

/-- facts that follow from `c.proj = c0.proj` -/
theorem proj_facts {c c0 : Core2} (h : c.proj = c0.proj) :
    c.trans = c0.trans ∧ c.nAllDists = c0.nAllDists ∧ c.sits.length = c0.sits.length ∧
    (∀ k, (c.sitAt k).rule = (c0.sitAt k).rule ∧ (c.sitAt k).dot = (c0.sitAt k).dot) := by
  have h1 : c.proj.trans = c0.proj.trans := by rw [h]
  have h2 : c.proj.nAllDists = c0.proj.nAllDists := by rw [h]
  have h3 : c.proj.sits = c0.proj.sits := by rw [h]
  refine ⟨h1, h2, ?_, ?_⟩
  · have := congrArg List.length h3
    simpa [Core2.proj] using this
  · intro k
    have : (c.sits.map Sit2.proj).getD k default = (c0.sits.map Sit2.proj).getD k default := by
      show c.proj.sits.getD k default = c0.proj.sits.getD k default
      rw [h3]
    rw [getD_map_proj, getD_map_proj] at this
    unfold Sit2.proj at this
    injection this with e1 e2
    exact ⟨e1, e2⟩

/-! ## the operator of the context loop -/

theorem mem_ctxOfNt {g : Grammar} {an : Analysis} {c : Core2} {A a : Nat} :
    a ∈ ctxOfNt g an c A ↔ ∃ k ∈ (c.transOf (.n A)).getD [],
      a ∈ la2 g an (c.sitAt k).rule ((c.sitAt k).dot + 1) (c.ctxAt k) := by
  unfold ctxOfNt
  rw [mem_normSet, List.mem_flatMap]
  rfl

theorem ctxOfNt_sorted (g : Grammar) (an : Analysis) (c : Core2) (A : Nat) :
    SortedLt (ctxOfNt g an c A) := normSet_sorted _

/-- the transition vectors are exact -/
def TransExact (g : Grammar) (c : Core2) : Prop :=
  ∀ X k, k ∈ (c.transOf X).getD [] ↔
    k < c.sits.length ∧ g.nextSym (c.sitAt k).rule (c.sitAt k).dot = some X

/-- `Y` (a context for every nonterminal) is closed under the rules that define the contexts
of the initial situations of `c0`: a situation below `n_all_dists` contributes the lookahead of
its shifted situation, an initial situation contributes it with the context `Y` gives to its own
left-hand side.  (The contexts of the initial situations of `c0` play no role.) -/
def PreFix (g : Grammar) (an : Analysis) (c0 : Core2) (Y : Nat → List Nat) : Prop :=
  ∀ k, k < c0.sits.length → ∀ A, g.nextSym (c0.sitAt k).rule (c0.sitAt k).dot = some (.n A) →
    ∀ a ∈ la2 g an (c0.sitAt k).rule ((c0.sitAt k).dot + 1)
        (if k < c0.nAllDists then c0.ctxAt k else Y (lhsOf g (c0.sitAt k))), a ∈ Y A

theorem lhsOf_eq_of_rule {g : Grammar} {s s' : Sit2} (h : s.rule = s'.rule) :
    lhsOf g s = lhsOf g s' := by
  unfold lhsOf; rw [h]

/-- monotonicity of the operator in the contexts -/
theorem ctxOfNt_mono {g : Grammar} {an : Analysis} {c c' : Core2} (hp : c'.proj = c.proj)
    (hle : ∀ k, ∀ a ∈ c.ctxAt k, a ∈ c'.ctxAt k) (A : Nat) :
    ∀ a ∈ ctxOfNt g an c A, a ∈ ctxOfNt g an c' A := by
  intro a ha
  obtain ⟨htr, _, _, hrd⟩ := proj_facts hp
  rw [mem_ctxOfNt] at ha ⊢
  obtain ⟨k, hk, hak⟩ := ha
  refine ⟨k, ?_, ?_⟩
  · unfold Core2.transOf at hk ⊢; rw [htr]; exact hk
  · rw [(hrd k).1, (hrd k).2]
    exact la2_mono (hle k) a hak

/-! ## the loop invariant -/

/-- state of the context loop: `c0` is the core at the entry of the loop -/
structure CLInv (g : Grammar) (an : Analysis) (c0 c : Core2) : Prop where
  proj : c.proj = c0.proj
  low : ∀ k, k < c0.nAllDists → c.sitAt k = c0.sitAt k
  /-- every context is below what the operator gives: the contexts can only grow -/
  infl : ∀ i, c0.nAllDists ≤ i → i < c0.sits.length → ∀ a ∈ c.ctxAt i, a ∈ newCtx g an c i
  /-- every context is below every pre-fixpoint -/
  least : ∀ Y, PreFix g an c0 Y → ∀ i, c0.nAllDists ≤ i → i < c0.sits.length →
    ∀ a ∈ c.ctxAt i, a ∈ Y (lhsOf g (c0.sitAt i))
  canon : ∀ i, c0.nAllDists ≤ i → i < c0.sits.length → SortedLt (c.ctxAt i)
  bnd : ∀ i, c0.nAllDists ≤ i → i < c0.sits.length → ∀ a ∈ c.ctxAt i, a < g.nT

/-- all initial situations have the empty context (state after the second loop) -/
def InitNil (c : Core2) : Prop := ∀ i, c.nAllDists ≤ i → c.ctxAt i = []

theorem CLInv_init {g : Grammar} {an : Analysis} {c0 : Core2} (h : InitNil c0) :
    CLInv g an c0 c0 := by
  refine ⟨rfl, fun _ _ => rfl, ?_, ?_, ?_, ?_⟩
  · intro i hi _ a ha; rw [h i hi] at ha; cases ha
  · intro Y _ i hi _ a ha; rw [h i hi] at ha; cases ha
  · intro i hi _; rw [h i hi]; exact List.Pairwise.nil
  · intro i hi _ a ha; rw [h i hi] at ha; cases ha

section Step
variable {g : Grammar} {c0 c : Core2}

theorem newCtx_eq (g : Grammar) (an : Analysis) (c : Core2) (i : Nat) :
    newCtx g an c i = ctxOfNt g an c (lhsOf g (c.sitAt i)) := rfl

/-- what the operator gives is below every pre-fixpoint -/
theorem newCtx_le_prefix (htr : TransExact g c0) (h : CLInv g g.analysis c0 c)
    {Y : Nat → List Nat} (hY : PreFix g g.analysis c0 Y) (A : Nat) :
    ∀ a ∈ ctxOfNt g g.analysis c A, a ∈ Y A := by
  intro a ha
  obtain ⟨htrans, hnA, hlen, hrd⟩ := proj_facts h.proj
  obtain ⟨k, hk, hak⟩ := mem_ctxOfNt.mp ha
  have hk0 : k ∈ (c0.transOf (.n A)).getD [] := by
    unfold Core2.transOf at hk ⊢; rw [← htrans]; exact hk
  obtain ⟨hklt, hnx⟩ := (htr _ k).mp hk0
  rw [(hrd k).1, (hrd k).2] at hak
  apply hY k hklt A hnx a
  by_cases hlow : k < c0.nAllDists
  · rw [if_pos hlow]
    have : c.ctxAt k = c0.ctxAt k := by
      unfold Core2.ctxAt
      have := h.low k hlow
      unfold Core2.sitAt at this
      rw [this]
    rw [← this]; exact hak
  · rw [if_neg hlow]
    exact la2_mono (h.least Y hY k (by omega) hklt) a hak

theorem newCtx_bnd (hsr : g.symsInRange = true)
    (hbase : ∀ k, k < c0.nAllDists → ∀ a ∈ c0.ctxAt k, a < g.nT)
    (h : CLInv g g.analysis c0 c) (A : Nat) :
    ∀ a ∈ ctxOfNt g g.analysis c A, a < g.nT := by
  intro a ha
  obtain ⟨htrans, hnA, hlen, hrd⟩ := proj_facts h.proj
  obtain ⟨k, hk, hak⟩ := mem_ctxOfNt.mp ha
  refine la2_lt_nT hsr ?_ a hak
  by_cases hlow : k < c0.nAllDists
  · have : c.ctxAt k = c0.ctxAt k := by
      unfold Core2.ctxAt
      have := h.low k hlow
      unfold Core2.sitAt at this
      rw [this]
    rw [this]; exact hbase k hlow
  · rcases Nat.lt_or_ge k c0.sits.length with hlt | hge
    · exact h.bnd k (by omega) hlt
    · intro b hb
      have : c.ctxAt k = [] := by
        unfold Core2.ctxAt
        rw [List.getD_eq_getElem?_getD, List.getElem?_eq_none (by omega)]
        rfl
      rw [this] at hb; cases hb

/-- one situation recomputed -/
theorem CLInv_step (hsr : g.symsInRange = true)
    (hbase : ∀ k, k < c0.nAllDists → ∀ a ∈ c0.ctxAt k, a < g.nT)
    (htr : TransExact g c0) (h : CLInv g g.analysis c0 c) {i : Nat}
    (hi1 : c0.nAllDists ≤ i) (hi2 : i < c0.sits.length) :
    CLInv g g.analysis c0 (c.setCtx i (newCtx g g.analysis c i)) ∧
    (∀ k, ∀ a ∈ c.ctxAt k, a ∈ (c.setCtx i (newCtx g g.analysis c i)).ctxAt k) ∧
    (c.setCtx i (newCtx g g.analysis c i)).ctxAt i = newCtx g g.analysis c i := by
  obtain ⟨htrans, hnA, hlen, hrd⟩ := proj_facts h.proj
  have hi2' : i < c.sits.length := by omega
  generalize hx : newCtx g g.analysis c i = x
  have hat : ∀ k, (c.setCtx i x).ctxAt k = if k = i then x else c.ctxAt k := by
    intro k
    have := setCtx_sitAt c i x k hi2'
    unfold Core2.ctxAt
    unfold Core2.sitAt at this
    rw [this]
    split <;> rfl
  have hsat : ∀ k, ((c.setCtx i x).sitAt k).rule = (c.sitAt k).rule := by
    intro k
    rw [setCtx_sitAt c i x k hi2']
    split
    · rename_i hk; subst hk; rfl
    · rfl
  have hmono : ∀ k, ∀ a ∈ c.ctxAt k, a ∈ (c.setCtx i x).ctxAt k := by
    intro k a ha
    rw [hat]
    split
    · rename_i hk; subst hk
      rw [← hx]; exact h.infl k hi1 hi2 a ha
    · exact ha
  have hproj : (c.setCtx i x).proj = c.proj := setCtx_proj c i x
  have hop : ∀ A, ∀ a ∈ ctxOfNt g g.analysis c A, a ∈ ctxOfNt g g.analysis (c.setCtx i x) A :=
    fun A => ctxOfNt_mono hproj hmono A
  refine ⟨⟨hproj.trans h.proj, ?_, ?_, ?_, ?_, ?_⟩, hmono, ?_⟩
  · intro k hk
    rw [setCtx_sitAt c i x k hi2', if_neg (by omega)]
    exact h.low k hk
  · intro j hj1 hj2 a ha
    rw [newCtx_eq, lhsOf_eq_of_rule (hsat j)]
    apply hop
    rw [hat] at ha
    split at ha
    · rename_i hj; subst hj
      rw [← hx] at ha; exact ha
    · exact h.infl j hj1 hj2 a ha
  · intro Y hY j hj1 hj2 a ha
    rw [hat] at ha
    split at ha
    · rename_i hj; subst hj
      rw [← hx, newCtx_eq, lhsOf_eq_of_rule (hrd j).1] at ha
      exact newCtx_le_prefix htr h hY _ a ha
    · exact h.least Y hY j hj1 hj2 a ha
  · intro j hj1 hj2
    rw [hat]
    split
    · rw [← hx]; exact ctxOfNt_sorted _ _ _ _
    · exact h.canon j hj1 hj2
  · intro j hj1 hj2 a ha
    rw [hat] at ha
    split at ha
    · rw [← hx] at ha; exact newCtx_bnd hsr hbase h _ a ha
    · exact h.bnd j hj1 hj2 a ha
  · rw [hat, if_pos rfl]

end Step

/-! ## a pass -/

/-- total size of the contexts of the initial situations -/
def ctxSize (c0 c : Core2) : Nat :=
  ((ctxOrder c0).map fun k => (c.ctxAt k).length).sum

theorem mem_ctxOrder {c : Core2} {i : Nat} :
    i ∈ ctxOrder c ↔ c.nAllDists ≤ i ∧ i < c.sits.length := by
  unfold ctxOrder
  rw [List.mem_range'_1]
  omega

theorem ctxSize_le {g : Grammar} {an : Analysis} {c0 c : Core2} (h : CLInv g an c0 c) :
    ctxSize c0 c ≤ (c0.sits.length - c0.nAllDists) * g.nT := by
  have := sum_map_le_const (L := ctxOrder c0) (f := fun k => (c.ctxAt k).length) (n := g.nT) (by
    intro k hk
    obtain ⟨h1, h2⟩ := mem_ctxOrder.mp hk
    exact length_le_of_nodup_lt (h.canon k h1 h2).nodup (h.bnd k h1 h2))
  unfold ctxSize
  have e : (ctxOrder c0).length = c0.sits.length - c0.nAllDists := by
    unfold ctxOrder; simp
  rw [e] at this
  exact this

section Pass
variable {g : Grammar} {c0 : Core2}

/-- the effect of a pass over any list of indices of initial situations, with the flag of the
present code -/
theorem ctxPass_spec (hsr : g.symsInRange = true)
    (hbase : ∀ k, k < c0.nAllDists → ∀ a ∈ c0.ctxAt k, a < g.nT)
    (htr : TransExact g c0) (order : List Nat)
    (hval : ∀ i ∈ order, c0.nAllDists ≤ i ∧ i < c0.sits.length) :
    ∀ (c : Core2) (b : Bool), CLInv g g.analysis c0 c →
      let r := order.foldl (ctxStepWith flagOr g g.analysis) (c, b)
      CLInv g g.analysis c0 r.1 ∧ (∀ k, ∀ a ∈ c.ctxAt k, a ∈ r.1.ctxAt k) ∧
      (r.2 = false → b = false ∧ r.1 = c ∧
        ∀ i ∈ order, newCtx g g.analysis c i = c.ctxAt i) ∧
      (r.2 = true → b = true ∨ ctxSize c0 c < ctxSize c0 r.1) := by
  induction order with
  | nil =>
    intro c b h
    refine ⟨h, fun _ _ ha => ha, fun hb => ⟨hb, rfl, fun i hi => by cases hi⟩, fun hb => .inl hb⟩
  | cons i order ih =>
    intro c b h
    obtain ⟨hi1, hi2⟩ := hval i List.mem_cons_self
    have hval' : ∀ j ∈ order, c0.nAllDists ≤ j ∧ j < c0.sits.length :=
      fun j hj => hval j (List.mem_cons_of_mem _ hj)
    simp only [List.foldl_cons]
    rw [ctxStepWith_eq]
    by_cases heq : newCtx g g.analysis c i = c.ctxAt i
    · rw [if_pos heq]
      have hb : flagOr b false = b := by unfold flagOr; simp
      rw [hb]
      obtain ⟨h1, h2, h3, h4⟩ := ih hval' c b h
      refine ⟨h1, h2, ?_, h4⟩
      intro hr
      obtain ⟨e1, e2, e3⟩ := h3 hr
      refine ⟨e1, e2, ?_⟩
      intro j hj
      rcases List.mem_cons.mp hj with rfl | hj
      · exact heq
      · exact e3 j hj
    · rw [if_neg heq]
      obtain ⟨hs1, hs2, hs3⟩ := CLInv_step hsr hbase htr h hi1 hi2
      have hb : flagOr b true = true := by unfold flagOr; simp
      rw [hb]
      obtain ⟨h1, h2, h3, h4⟩ := ih hval' _ true hs1
      have hgrow : ctxSize c0 c < ctxSize c0 (c.setCtx i (newCtx g g.analysis c i)) := by
        unfold ctxSize
        apply sum_map_lt (i := i)
        · intro k hk
          obtain ⟨hk1, hk2⟩ := mem_ctxOrder.mp hk
          exact nodup_subset_length (h.canon k hk1 hk2).nodup (fun a ha => hs2 k a ha)
        · exact mem_ctxOrder.mpr ⟨hi1, hi2⟩
        · rw [hs3]
          exact sorted_subset_length_lt (h.canon i hi1 hi2) (ctxOfNt_sorted _ _ _ _)
            (h.infl i hi1 hi2) heq
      have hgrow2 : ctxSize c0 (c.setCtx i (newCtx g g.analysis c i)) ≤
          ctxSize c0 (order.foldl (ctxStepWith flagOr g g.analysis)
            (c.setCtx i (newCtx g g.analysis c i), true)).1 := by
        unfold ctxSize
        apply sum_map_le
        intro k hk
        obtain ⟨hk1, hk2⟩ := mem_ctxOrder.mp hk
        exact nodup_subset_length (hs1.canon k hk1 hk2).nodup (fun a ha => h2 k a ha)
      refine ⟨h1, fun k a ha => h2 k a (hs2 k a ha), ?_, ?_⟩
      · intro hr
        obtain ⟨e1, _, _⟩ := h3 hr
        cases e1
      · intro _
        exact .inr (Nat.lt_of_lt_of_le hgrow hgrow2)

end Pass

/-! ## the `do … while` -/

section Loop
variable {g : Grammar} {c0 : Core2}

theorem ctxLoopOn_succ (flag : Bool → Bool → Bool) (g : Grammar) (an : Analysis) (order : List Nat)
    (fuel : Nat) (c : Core2) :
    ctxLoopOn flag g an order (fuel + 1) c =
      if (ctxPassOn flag g an order c).2 = true then
        ctxLoopOn flag g an order fuel (ctxPassOn flag g an order c).1
      else (ctxPassOn flag g an order c).1 := rfl

/-- With enough fuel the loop leaves through its test `changed_p == FALSE`, at a fixpoint; the
invariant holds at the end; more fuel does not change the result. -/
theorem ctxLoopOn_spec (hsr : g.symsInRange = true)
    (hbase : ∀ k, k < c0.nAllDists → ∀ a ∈ c0.ctxAt k, a < g.nT)
    (htr : TransExact g c0) (order : List Nat)
    (hval : ∀ i ∈ order, c0.nAllDists ≤ i ∧ i < c0.sits.length)
    (hcov : ∀ i, c0.nAllDists ≤ i → i < c0.sits.length → i ∈ order) :
    ∀ (fuel : Nat) (c : Core2), CLInv g g.analysis c0 c →
      (c0.sits.length - c0.nAllDists) * g.nT < ctxSize c0 c + fuel →
      CLInv g g.analysis c0 (ctxLoopOn flagOr g g.analysis order fuel c) ∧
      (∀ i, c0.nAllDists ≤ i → i < c0.sits.length →
        newCtx g g.analysis (ctxLoopOn flagOr g g.analysis order fuel c) i =
          (ctxLoopOn flagOr g g.analysis order fuel c).ctxAt i) ∧
      ∀ extra, ctxLoopOn flagOr g g.analysis order (fuel + extra) c =
        ctxLoopOn flagOr g g.analysis order fuel c := by
  intro fuel
  induction fuel with
  | zero =>
    intro c h hf
    have := ctxSize_le h
    omega
  | succ fuel ih =>
    intro c h hf
    obtain ⟨h1, _, h3, h4⟩ := ctxPass_spec hsr hbase htr order hval c false h
    have hpass : ctxPassOn flagOr g g.analysis order c =
        order.foldl (ctxStepWith flagOr g g.analysis) (c, false) := rfl
    rw [ctxLoopOn_succ]
    by_cases hch : (ctxPassOn flagOr g g.analysis order c).2 = true
    · rw [if_pos hch]
      rw [hpass] at hch ⊢
      rcases h4 hch with hb | hlt
      · cases hb
      · obtain ⟨i1, i2, i3⟩ := ih _ h1 (by omega)
        refine ⟨i1, i2, ?_⟩
        intro extra
        rw [show fuel + 1 + extra = (fuel + extra) + 1 by omega, ctxLoopOn_succ, hpass, if_pos hch]
        exact i3 extra
    · rw [if_neg hch]
      rw [hpass] at hch ⊢
      have hf' : (order.foldl (ctxStepWith flagOr g g.analysis) (c, false)).2 = false := by
        cases hx : (order.foldl (ctxStepWith flagOr g g.analysis) (c, false)).2
        · rfl
        · exact absurd hx hch
      obtain ⟨_, e2, e3⟩ := h3 hf'
      rw [e2]
      refine ⟨h, fun i hi1 hi2 => e3 i (hcov i hi1 hi2), ?_⟩
      intro extra
      rw [show fuel + 1 + extra = (fuel + extra) + 1 by omega, ctxLoopOn_succ, hpass, if_neg hch, e2]

end Loop

/-! ## what does not depend on the invariant -/

theorem ctxStepWith_proj (flag : Bool → Bool → Bool) (g : Grammar) (an : Analysis)
    (st : Core2 × Bool) (i : Nat) : (ctxStepWith flag g an st i).1.proj = st.1.proj := by
  rw [ctxStepWith_eq]
  split
  · rfl
  · exact setCtx_proj _ _ _

theorem ctxPassOn_proj (flag : Bool → Bool → Bool) (g : Grammar) (an : Analysis)
    (order : List Nat) (c : Core2) : (ctxPassOn flag g an order c).1.proj = c.proj := by
  unfold ctxPassOn
  have : ∀ st : Core2 × Bool, (order.foldl (ctxStepWith flag g an) st).1.proj = st.1.proj := by
    induction order with
    | nil => intro st; rfl
    | cons i order ih =>
      intro st
      simp only [List.foldl_cons]
      rw [ih, ctxStepWith_proj]
  exact this (c, false)

theorem ctxLoopOn_proj (flag : Bool → Bool → Bool) (g : Grammar) (an : Analysis)
    (order : List Nat) (fuel : Nat) (c : Core2) :
    (ctxLoopOn flag g an order fuel c).proj = c.proj := by
  induction fuel generalizing c with
  | zero => rfl
  | succ fuel ih =>
    rw [ctxLoopOn_succ]
    split
    · rw [ih, ctxPassOn_proj]
    · exact ctxPassOn_proj ..

/-! ## the result as a least fixpoint, independent of the order -/

section Lfp
variable {g : Grammar} {c0 : Core2}

/-- at a fixpoint of the loop, the contexts the operator computes form a pre-fixpoint -/
theorem prefix_of_fix {c : Core2} (htr : TransExact g c0) (h : CLInv g g.analysis c0 c)
    (hfix : ∀ i, c0.nAllDists ≤ i → i < c0.sits.length → newCtx g g.analysis c i = c.ctxAt i) :
    PreFix g g.analysis c0 (fun A => ctxOfNt g g.analysis c A) := by
  obtain ⟨htrans, hnA, hlen, hrd⟩ := proj_facts h.proj
  intro k hk A hnx a ha
  apply mem_ctxOfNt.mpr
  refine ⟨k, ?_, ?_⟩
  · unfold Core2.transOf
    rw [htrans]
    exact (htr _ k).mpr ⟨hk, hnx⟩
  · rw [(hrd k).1, (hrd k).2]
    by_cases hlow : k < c0.nAllDists
    · rw [if_pos hlow] at ha
      have : c.ctxAt k = c0.ctxAt k := by
        unfold Core2.ctxAt
        have := h.low k hlow
        unfold Core2.sitAt at this
        rw [this]
      rw [this]; exact ha
    · rw [if_neg hlow] at ha
      rw [← hfix k (by omega) hk, newCtx_eq, lhsOf_eq_of_rule (hrd k).1]
      exact ha

/-- two fixpoints that satisfy the invariant are the same core -/
theorem fix_unique {c c' : Core2} (htr : TransExact g c0)
    (h : CLInv g g.analysis c0 c) (h' : CLInv g g.analysis c0 c')
    (hfix : ∀ i, c0.nAllDists ≤ i → i < c0.sits.length → newCtx g g.analysis c i = c.ctxAt i)
    (hfix' : ∀ i, c0.nAllDists ≤ i → i < c0.sits.length → newCtx g g.analysis c' i = c'.ctxAt i) :
    c = c' := by
  obtain ⟨_, hnA, hlen, hrd⟩ := proj_facts h.proj
  obtain ⟨_, hnA', hlen', hrd'⟩ := proj_facts h'.proj
  have hpre := prefix_of_fix htr h hfix
  have hpre' := prefix_of_fix htr h' hfix'
  have hctx : ∀ i, c0.nAllDists ≤ i → i < c0.sits.length → c.ctxAt i = c'.ctxAt i := by
    intro i hi1 hi2
    apply sortedLt_ext (h.canon i hi1 hi2) (h'.canon i hi1 hi2)
    intro a
    constructor
    · intro ha
      have := h.least _ hpre' i hi1 hi2 a ha
      rw [← hfix' i hi1 hi2, newCtx_eq, lhsOf_eq_of_rule (hrd' i).1]; exact this
    · intro ha
      have := h'.least _ hpre i hi1 hi2 a ha
      rw [← hfix i hi1 hi2, newCtx_eq, lhsOf_eq_of_rule (hrd i).1]; exact this
  have hsits : c.sits = c'.sits := by
    apply List.ext_getElem?
    intro k
    rcases Nat.lt_or_ge k c0.sits.length with hk | hk
    · have e1 : c.sits[k]? = some (c.sitAt k) := by
        unfold Core2.sitAt
        rw [List.getD_eq_getElem?_getD, List.getElem?_eq_getElem (by omega)]; rfl
      have e2 : c'.sits[k]? = some (c'.sitAt k) := by
        unfold Core2.sitAt
        rw [List.getD_eq_getElem?_getD, List.getElem?_eq_getElem (by omega)]; rfl
      rw [e1, e2]
      congr 1
      rcases Nat.lt_or_ge k c0.nAllDists with hl | hl
      · rw [h.low k hl, h'.low k hl]
      · have e3 := hctx k hl hk
        unfold Core2.ctxAt at e3
        have r1 := (hrd k).1; have r2 := (hrd k).2
        have r1' := (hrd' k).1; have r2' := (hrd' k).2
        unfold Core2.sitAt at r1 r2 r1' r2' ⊢
        generalize c.sits.getD k default = s at e3 r1 r2
        generalize c'.sits.getD k default = s' at e3 r1' r2'
        cases s; cases s'
        simp only at e3 r1 r2 r1' r2'
        simp only [Sit2.mk.injEq]
        exact ⟨by rw [r1, r1'], by rw [r2, r2'], e3⟩
    · rw [List.getElem?_eq_none (by omega), List.getElem?_eq_none (by omega)]
  have hp : c.proj = c'.proj := h.proj.trans h'.proj.symm
  cases c; cases c'
  simp only [Core2.proj, BS.Core.mk.injEq] at hp
  simp only at hsits
  simp only [Core2.mk.injEq]
  exact ⟨hp.1, hsits, hp.2.2.1, hp.2.2.2.1, hp.2.2.2.2.1, hp.2.2.2.2.2.1, hp.2.2.2.2.2.2⟩

end Lfp

end Yaep.BS2
