import Yaep.Lemmas.LaIndep2Tg
/-!
# Lookahead independence at level 2, list part 3: the start situations of `build_new_set` at levels 0 and 2

`newStarts2_iter`: the start pairs of level 2 are `iterI (BS2.step2Pairs …)` run to its end.
`newStarts_rel2`: if the sets before position `j` hand the same source lists (`src`, without contexts) to both
loops and carry the contexts `cx`, the start pairs of level 2 are those of level 0 that pass the level-2 test
`Kj` (with the context `cx` of their rule and origin), in the same order, with that context attached.
-/
namespace Yaep.LI2
open Yaep Yaep.BS Yaep.LI

section
variable {g : Grammar} {w : List Nat} {plA : List (List Item2)} {pl : List BS2.CSet2} {k a : Nat}
  {nxt : Option Nat}

theorem newStarts2_iter (h : BS2.PLOK2 g plA pl) (hinv : Inv2 g w plA) (hlen : plA.length = k + 1)
    (hw : w[k]? = some a) :
    ∃ n, (BS2.newStarts g nxt pl a).1 =
        iterI (BS2.step2Pairs g g.analysis (ok2 g g.analysis nxt) pl (pl.length - 1)) []
          (loop1Pairs2 g (ok2 g g.analysis nxt) pl a) n ∧
      n = (BS2.newStarts g nxt pl a).1.length := by
  have hT := transOK2_of_PLOK2 h
  unfold BS2.newStarts BS2.newSetLoop2
  rw [loop1_eq2 hT]
  generalize hA : loop1Pairs2 g (ok2 g g.analysis nxt) pl a = A
  let P := BS2.PairOK2 g nxt plA pl a
  have hP := BS2.pairOK_step (nxt := nxt) h hinv hlen hw
  have hA1 : ∀ p ∈ A, P p := by
    rw [← hA, ← loop1_eq2 (ok := ok2 g g.analysis nxt) (a := a) hT]
    exact BS2.pairOK_loop1 h hlen
  have hAnd : A.Nodup := by rw [← hA]; exact addNew_nodup _ List.nodup_nil
  let Inv : Nat → BS2.NewStart2 × Bool → Prop := fun i st =>
    BS2.NSInv g g.analysis (ok2 g g.analysis nxt) pl (pl.length - 1) P A i st.1 ∧
      st.1 = iterI (BS2.step2Pairs g g.analysis (ok2 g g.analysis nxt) pl (pl.length - 1)) [] A i
  have hstep : ∀ i (st : BS2.NewStart2 × Bool), Inv i st → i < st.1.length →
      Inv (i + 1) (BS2.newSetStep2 g g.analysis (ok2 g g.analysis nxt) pl (pl.length - 1) st i) ∧
        i + 1 ≤ (BS2.newSetStep2 g g.analysis (ok2 g g.analysis nxt) pl (pl.length - 1) st i).1.length := by
    rintro i st ⟨hI, hit⟩ hi
    obtain ⟨h1, h2⟩ := BS2.NSInv_step hP i st hI hi
    refine ⟨⟨h1, ?_⟩, h2⟩
    rw [BS2.newSetStep2_fst, iterI_succ, List.nil_append, ← hit, if_pos hi]
  have hbound : ∀ (i : Nat) (st : BS2.NewStart2 × Bool), Inv i st →
      st.1.length ≤ (BS2.shiftUniv pl).length := by
    rintro i st ⟨hI, _⟩
    exact nodup_subset_length hI.nodup (fun p hp => (hI.all p hp).2.2.2)
  have h0 : Inv 0 (A, false) :=
    ⟨⟨hAnd, hA1, fun _ h => h, fun k hk => absurd hk (Nat.not_lt_zero _)⟩, rfl⟩
  have := scanLoop_inv (len := fun st : BS2.NewStart2 × Bool => st.1.length) Inv _ hstep hbound
    (BS2.newSetFuel pl) 0 _ h0 (Nat.zero_le _) (by have := BS2.length_shiftUniv pl; omega)
  exact ⟨_, this.2, rfl⟩

end

theorem getD_map_of_get {α β : Type} [Inhabited β] (f : α → β) {l : List α} {c : Nat} {x : α}
    (h : l[c]? = some x) : (l.map f).getD c default = f x := by
  rw [List.getD_eq_getElem?_getD, List.getElem?_map, h]; rfl

/-- **the start pairs of level 2 are those of level 0 that pass the level-2 test, with their contexts** -/
theorem newStarts_rel2 {g : Grammar} {w : List Nat} {ok0 : Nat → Nat → Bool}
    {plA0 : List (List Item)} {pl0 : List CSet} {plA : List (List Item2)} {plA2 : List (List Item2)}
    {pl2 : List BS2.CSet2} {a j k : Nat} {nxt : Option Nat}
    (h0 : PLOK g plA0 pl0) (hne0 : pl0 ≠ [])
    (h2 : BS2.PLOK2 g plA2 pl2) (hinv2 : Inv2 g w plA2) (hlen2 : plA2.length = k + 1)
    (hw : w[k]? = some a)
    (hj0 : pl0.length = j) (hj2 : pl2.length = j) (hj : 1 ≤ j)
    (hok0 : ∀ r d, ok0 r d = true)
    (hatt : ∀ m, m < j → tg2 (pl2.getD m default) = (tg (projSet (pl2.getD m default))).map (attach plA m))
    (hsrc1 : src g (pl0.getLastD default) (Sym.t a) = src g (projSet (pl2.getLastD default)) (Sym.t a))
    (hdist : ∀ p ∈ (newStarts g g.analysis ok0 pl0 a).1, 1 ≤ p.2 ∧ p.2 ≤ j)
    (hsrc2 : ∀ p ∈ (newStarts g g.analysis ok0 pl0 a).1, emptyTailP g g.analysis p.1 = true →
      src g (pl0.getD (j - p.2) default) (Sym.n (BS.lhsOf g p.1)) =
        src g (projSet (pl2.getD (j - p.2) default)) (Sym.n (BS.lhsOf g p.1)))
    (hfail : ∀ p ∈ (newStarts g g.analysis ok0 pl0 a).1, emptyTailP g g.analysis p.1 = true →
      Kj g plA nxt j p = false →
      ∀ y ∈ src g (pl0.getD (j - p.2) default) (Sym.n (BS.lhsOf g p.1)),
        Kj g plA nxt j ((y.1.1, y.1.2 + 1), y.2 + p.2) = false) :
    (BS2.newStarts g nxt pl2 a).1 =
      ((newStarts g g.analysis ok0 pl0 a).1.filter (Kj g plA nxt j)).map (attach plA j) := by
  have hT0 := transOK_of_PLOK h0
  have hT2 := transOK2_of_PLOK2 h2
  obtain ⟨n0, e0, t0⟩ := newStarts_iter (an := g.analysis) (ok := ok0) (a := a) rfl h0 hne0
  obtain ⟨n2, e2, t2⟩ := newStarts2_iter (nxt := nxt) h2 hinv2 hlen2 hw
  generalize hK : Kj g plA nxt j = K at hfail ⊢
  generalize hf : attach plA j = f
  have hfinj : ∀ x y, f x = f y → x = y := by rw [← hf]; exact attach_inj plA j
  -- the first loop
  have hA : loop1Pairs2 g (ok2 g g.analysis nxt) pl2 a =
      ((loop1Pairs g ok0 pl0 a).filter K).map f := by
    unfold loop1Pairs2 loop1Pairs
    have hm : j - 1 < j := by omega
    have hlast : pl2.getLastD default = pl2.getD (j - 1) default := by
      rw [LI.getLastD_eq_getD', hj2]
    rw [src2_eq_attach (by rw [hlast]; exact hatt (j - 1) hm) (Sym.t a), ← hsrc1,
      shiftL2_attach g plA nxt hok0 (j - 1) 1, show j - 1 + 1 = j by omega, hK, hf,
      ← addNew_nil_left_filter, addNew_map f hfinj]
    rfl
  -- the second loop
  have hterm0 : ([] ++ iterI (step2Pairs g g.analysis ok0 pl0 (pl0.length - 1)) [] (loop1Pairs g ok0 pl0 a) n0).length ≤ n0 := by
    rw [List.nil_append, ← e0, ← t0]; exact Nat.le_refl _
  have hc : ∀ n x, ([] ++ iterI (step2Pairs g g.analysis ok0 pl0 (pl0.length - 1)) [] (loop1Pairs g ok0 pl0 a) n)[n]? = some x →
      (K x = true → ((step2Pairs g g.analysis ok0 pl0 (pl0.length - 1)
          ([] ++ iterI (step2Pairs g g.analysis ok0 pl0 (pl0.length - 1)) [] (loop1Pairs g ok0 pl0 a) n) n).filter K).map f =
        BS2.step2Pairs g g.analysis (ok2 g g.analysis nxt) pl2 (pl2.length - 1)
          ((([] ++ iterI (step2Pairs g g.analysis ok0 pl0 (pl0.length - 1)) [] (loop1Pairs g ok0 pl0 a) n).filter K).map f)
          ((([] ++ iterI (step2Pairs g g.analysis ok0 pl0 (pl0.length - 1)) [] (loop1Pairs g ok0 pl0 a) n).take n).countP K)) ∧
      (K x = false → (step2Pairs g g.analysis ok0 pl0 (pl0.length - 1)
          ([] ++ iterI (step2Pairs g g.analysis ok0 pl0 (pl0.length - 1)) [] (loop1Pairs g ok0 pl0 a) n) n).filter K = []) := by
    intro n x hx
    have hxmem : x ∈ (newStarts g g.analysis ok0 pl0 a).1 := by
      rw [e0]
      apply iterI_mem_of_terminal _ _ _ hterm0 n
      rw [List.nil_append] at hx
      exact List.mem_of_getElem? hx
    obtain ⟨hx1, hx2⟩ := hdist x hxmem
    generalize [] ++ iterI (step2Pairs g g.analysis ok0 pl0 (pl0.length - 1)) [] (loop1Pairs g ok0 pl0 a) n = L at hx
    have hgetD : L.getD n default = x := by rw [List.getD_eq_getElem?_getD, hx]; rfl
    have hplace0 : pl0.length - 1 + 1 - x.2 = j - x.2 := by omega
    have hplace2 : pl2.length - 1 + 1 - x.2 = j - x.2 := by omega
    constructor
    · intro hKx
      have hxc : ((L.filter K).map f).getD ((L.take n).countP K) default = f x :=
        getD_map_of_get f (getElem?_filter_countP K hx hKx)
      rw [step2Pairs_eq_src hT0, step2Pairs2_eq_src hT2, hgetD, hxc]
      have hfx1 : (f x).1.proj = x.1 := by rw [← hf]; rfl
      have hfx2 : (f x).2 = x.2 := by rw [← hf]; rfl
      have hfx3 : BS2.lhsOf g (f x).1 = BS.lhsOf g x.1 := by rw [← hf]; rfl
      rw [hfx1, hfx2, hfx3, hplace0, hplace2]
      by_cases het : emptyTailP g g.analysis x.1 = true
      · rw [if_pos het, if_pos het]
        have hm : j - x.2 < j := by omega
        rw [src2_eq_attach (hatt (j - x.2) hm), ← hsrc2 x hxmem het,
          shiftL2_attach g plA nxt hok0 (j - x.2) x.2, show j - x.2 + x.2 = j by omega, hK, hf]
      · rw [if_neg het, if_neg het]; rfl
    · intro hKx
      rw [step2Pairs_eq_src hT0, hgetD, hplace0]
      by_cases het : emptyTailP g g.analysis x.1 = true
      · rw [if_pos het]
        apply List.filter_eq_nil_iff.mpr
        intro q hq hKq
        obtain ⟨p, hp, _, rfl⟩ := mem_shiftL hq
        have := hfail x hxmem het hKx p hp
        rw [this] at hKq
        cases hKq
      · rw [if_neg het]; rfl
  obtain ⟨c, ec, tc⟩ := iterI_restrict_map_terminal K f hfinj
    (step2Pairs g g.analysis ok0 pl0 (pl0.length - 1))
    (BS2.step2Pairs g g.analysis (ok2 g g.analysis nxt) pl2 (pl2.length - 1)) [] (loop1Pairs g ok0 pl0 a) hc
    (by rw [List.nil_append, ← e0]; exact t0)
  rw [e2]
  conv => rhs; rw [e0, ec]
  rw [List.filter_nil, List.map_nil, ← hA] at ec tc ⊢
  apply iterI_terminal_unique
  · rw [List.nil_append, ← e2, ← t2]; exact Nat.le_refl _
  · exact tc

end Yaep.LI2
