import Yaep.Props.RecoveredCost
import Yaep.Props.MakeParseComplete
/-!
# Exact minimal-cost forests: vocabulary and the logical core

`CX.MinDer g toks pt`: `pt` is a derivation of `toks` and the total cost of its translation is
minimal among the translations of ALL derivations of `toks` (not only of those a forest happens to
contain).  `CX.ExactCostSpec` / `CX.ExactCostSpecR`: the clauses 2–4 of `CostParseSpec` /
`RC.CostSpec` with "minimal in the forest `make_parse` built" replaced by `MinDer`, and
"every tree of the forest is a translation" by "the forest denotes exactly the translations".

`exact_core`: the step from the relative to the absolute statement is pure logic once the forest
is known to denote exactly the translations of all derivations.
-/
namespace Yaep.CX
open Yaep

/-- `pt` is a derivation of `toks` whose translation has minimal total cost among the translations
of all derivations of `toks` -/
def MinDer (g : Grammar) (toks : List Nat) (pt : PT) : Prop :=
  PT.IsDerivation g toks pt ∧
    ∀ pt', PT.IsDerivation g toks pt' → (translate g pt).totalCost ≤ (translate g pt').totalCost

/-- **C04 exactly** for the final machine state `s` / result cell `r` of an all-parses run of the
model of `make_parse` on the input `w`: for every value of `parse_free`, of the name blocks and
every fuel `≥` the number of cells,

1. the forest of `make_parse` denotes exactly the translations of the derivations of `w $eof`;
2. all parses: the trees `find_minimal_translation` (model) leaves at the new root are exactly the
   translations — cost fields accumulated — of the derivations whose translation has minimal total
   cost over ALL derivations of `w $eof`;
3. one parse: exactly one tree is denoted, and it is one of those. -/
def ExactCostSpec (g : Grammar) (w : List Nat) (s : MP.St) (r : Nat) : Prop :=
  ∀ (free : Bool) (nameBlk : Nat → Nat) (fuel' f : Nat), s.heap.size ≤ fuel' → s.heap.size ≤ f →
    (∀ t, t ∈ denote (PC.unfoldC (PC.ofHeap s.heap) f r) ↔
      ∃ pt, PT.IsDerivation g (w ++ [g.eofT]) pt ∧ t = translate g pt) ∧
    (∀ t', t' ∈ denote (PC.unfoldC
          (PC.findMinimalTranslation fuel' (PC.ofHeap s.heap) r false free nameBlk s.nilUsed s.errUsed).heap f
          (PC.findMinimalTranslation fuel' (PC.ofHeap s.heap) r false free nameBlk s.nilUsed s.errUsed).root) ↔
        ∃ pt, MinDer g (w ++ [g.eofT]) pt ∧ t' = (translate g pt).accum) ∧
    (∃ pt, MinDer g (w ++ [g.eofT]) pt ∧
      denote (PC.unfoldC
          (PC.findMinimalTranslation fuel' (PC.ofHeap s.heap) r true free nameBlk s.nilUsed s.errUsed).heap f
          (PC.findMinimalTranslation fuel' (PC.ofHeap s.heap) r true free nameBlk s.nilUsed s.errUsed).root) =
        [(translate g pt).accum])

/-- the same after a recovery: `wd` the repaired input, `fx` the renaming of the TERM attributes
(position in the repaired input ↦ token number) -/
def ExactCostSpecR (g : Grammar) (wd : List Nat) (fx : Int → Int) (s : MP.St) (r : Nat) : Prop :=
  ∀ (free : Bool) (nameBlk : Nat → Nat) (fuel' f : Nat), s.heap.size ≤ fuel' → s.heap.size ≤ f →
    (∀ t, t ∈ denote (PC.unfoldC (PC.ofHeap s.heap) f r) ↔
      ∃ pt, PT.IsDerivation g wd pt ∧ t = (translate g pt).mapAttr fx) ∧
    (∀ t', t' ∈ denote (PC.unfoldC
          (PC.findMinimalTranslation fuel' (PC.ofHeap s.heap) r false free nameBlk s.nilUsed s.errUsed).heap f
          (PC.findMinimalTranslation fuel' (PC.ofHeap s.heap) r false free nameBlk s.nilUsed s.errUsed).root) ↔
        ∃ pt, MinDer g wd pt ∧ t' = ((translate g pt).mapAttr fx).accum) ∧
    (∃ pt, MinDer g wd pt ∧
      denote (PC.unfoldC
          (PC.findMinimalTranslation fuel' (PC.ofHeap s.heap) r true free nameBlk s.nilUsed s.errUsed).heap f
          (PC.findMinimalTranslation fuel' (PC.ofHeap s.heap) r true free nameBlk s.nilUsed s.errUsed).root) =
        [((translate g pt).mapAttr fx).accum])

/-- minimal in a list that holds exactly the images `tr pt` of the derivations = image of a
derivation that is minimal among all derivations -/
theorem isMinCost_iff {g : Grammar} {toks : List Nat} {F : List Tree} {tr : PT → Tree}
    (hc : ∀ pt, (tr pt).totalCost = (translate g pt).totalCost)
    (hF : ∀ t, t ∈ F ↔ ∃ pt, PT.IsDerivation g toks pt ∧ t = tr pt) (t : Tree) :
    IsMinCost F t ↔ ∃ pt, MinDer g toks pt ∧ t = tr pt := by
  constructor
  · rintro ⟨hm, hmin⟩
    obtain ⟨pt, hpt, rfl⟩ := (hF t).mp hm
    refine ⟨pt, ⟨hpt, fun pt' hpt' => ?_⟩, rfl⟩
    have := hmin (tr pt') ((hF _).mpr ⟨pt', hpt', rfl⟩)
    rw [hc, hc] at this
    exact this
  · rintro ⟨pt, ⟨hpt, hmin⟩, rfl⟩
    refine ⟨(hF _).mpr ⟨pt, hpt, rfl⟩, fun u hu => ?_⟩
    obtain ⟨pt', hpt', rfl⟩ := (hF u).mp hu
    rw [hc, hc]
    exact hmin pt' hpt'

/-- **the logical core**: clauses 3 and 4 of `CostParseSpec` for a forest `F` that holds exactly
the images of the derivations -/
theorem exact_core {g : Grammar} {toks : List Nat} {F Pall Pone : List Tree} {tr : PT → Tree}
    (hc : ∀ pt, (tr pt).totalCost = (translate g pt).totalCost)
    (hF : ∀ t, t ∈ F ↔ ∃ pt, PT.IsDerivation g toks pt ∧ t = tr pt)
    (h3 : ∀ t', t' ∈ Pall ↔ ∃ t, IsMinCost F t ∧ t' = t.accum)
    (h4 : ∃ t, IsMinCost F t ∧ Pone = [t.accum]) :
    (∀ t', t' ∈ Pall ↔ ∃ pt, MinDer g toks pt ∧ t' = (tr pt).accum) ∧
    (∃ pt, MinDer g toks pt ∧ Pone = [(tr pt).accum]) := by
  constructor
  · intro t'
    rw [h3 t']
    constructor
    · rintro ⟨t, hm, rfl⟩
      obtain ⟨pt, hpt, rfl⟩ := (isMinCost_iff hc hF t).mp hm
      exact ⟨pt, hpt, rfl⟩
    · rintro ⟨pt, hpt, rfl⟩
      exact ⟨tr pt, (isMinCost_iff hc hF _).mpr ⟨pt, hpt, rfl⟩, rfl⟩
  · obtain ⟨t, hm, he⟩ := h4
    obtain ⟨pt, hpt, rfl⟩ := (isMinCost_iff hc hF t).mp hm
    exact ⟨pt, hpt, he⟩

/-- the forest of the tree memory is the forest of the exported table -/
theorem unfold_export {s : MP.St} {r : Nat} {tab : Array NodeRec} {root : Nat}
    (hx : MP.exportTable s.heap r = some (tab, root))
    (hwf : ∃ rk hd, PC.WfHeap (PC.ofHeap s.heap) rk hd ∧ r < (PC.ofHeap s.heap).size ∧ hd r = r)
    {f : Nat} (hfu : s.heap.size ≤ f) :
    unfoldAt tab root = PC.unfoldC (PC.ofHeap s.heap) f r := by
  obtain ⟨rk, hd, wf, hr, _⟩ := hwf
  have hsz : (PC.ofHeap s.heap).size = s.heap.size := MP.size_ofHeap _
  have hx' : MP.exportTable (PC.toHeap (PC.ofHeap s.heap)) r = some (tab, root) := by
    rw [toHeap_ofHeap]; exact hx
  rw [PC.pruneC_unfold_is_export wf hr hx']
  have hrk := wf.rk_lt r hr
  exact PC.unfoldWith_indep _ wf (rk r) r (Nat.le_refl _) hr _ _ hrk (by omega)

/-- the list a well-formed table denotes at its root, as the unfolded forest -/
theorem denote_unfoldAt {g : Grammar} {sets : Array (Array Item)} {plToks : Array Int} {one : Bool}
    {fuel : Nat} {res : MP.Result} (hm : MP.makeParse g sets plToks one fuel = .ok res) :
    denote (unfoldAt res.tab res.root) = (denoteTab res.tab).getD res.root [] := by
  have hwf := MP.makeParse_tableWF hm
  unfold unfoldAt
  rw [← denoteTab_spec_getD hwf.1 hwf.2 (Nat.lt_succ_self _)]

end Yaep.CX
