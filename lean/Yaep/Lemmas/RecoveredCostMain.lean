import Yaep.Lemmas.RecoveredCostState
/-!
# The cost-flag parse on the final list of a recovering parse

`RC.CostSpec` is `CostParseSpec` of `Props/HeapWf.lean` with "translation of a derivation of
`w $eof`" replaced by "translation of a derivation of the repaired input, TERM attributes renamed
by `fx`", plus the additive law of the cost fields of the final heap.  `RC.final_cost_spec`: it
holds for the final machine state of the all-parses run of the model of `make_parse` on the final
list of a recovering parse.

The argument avoids commuting `PC.findMinimalTranslation` with the renaming: the tree memory after
a recovery is the renamed tree memory of the reference run (`RC.final_state_all`), `PC.WfHeap` does
not look at the attributes (`RC.wfHeap_rcH`), so all theorems of `Props/PruneC.lean` apply to it
directly; the forest it denotes is covered by `RP.Final.all_sound`.
(`Lemmas/RecoveredCostPrune.lean` proves the commutation as well.)
-/
namespace Yaep.RC
open Yaep Yaep.MP Yaep.RP

/-- what `find_minimal_translation` (model) does to the tree memory `s.heap` of a finished run of
`make_parse` (result cell `r`) on the final list of a recovering parse; `wd` the repaired input,
`fx` the renaming of the TERM attributes.  For every value of the one-parse flag, of `parse_free`,
of the name blocks, every fuel `≥` the number of cells:

1. the model does not run out of fuel;
2. every tree of the forest of `make_parse` is the translation of a derivation of the repaired
   input, TERM attributes renamed;
3. all parses: the trees denoted at the new root are exactly the trees of minimal total cost of that
   forest, with accumulated cost fields;
4. one parse: exactly one tree is denoted, such a minimal tree;
5. with `parse_free`: the freed cells are exactly the cells that were reachable from `r` and are
   not reachable from the new root (NIL / ERROR excluded), each freed once;
6. the cost fields add up: every abstract node reachable from the new root carries its own
   (original) cost plus the cost fields of its children, and no field is negative. -/
def CostSpec (g : Grammar) (wd : List Nat) (fx : Int → Int) (s : MP.St) (r : Nat) : Prop :=
  ∀ (free : Bool) (nameBlk : Nat → Nat) (fuel' f : Nat), s.heap.size ≤ fuel' → s.heap.size ≤ f →
    (∀ one, (PC.findMinimalTranslation fuel' (PC.ofHeap s.heap) r one free nameBlk
      s.nilUsed s.errUsed).oof = false) ∧
    (∀ t ∈ denote (PC.unfoldC (PC.ofHeap s.heap) f r),
      ∃ pt, PT.IsDerivation g wd pt ∧ t = (translate g pt).mapAttr fx) ∧
    (∀ t', t' ∈ denote (PC.unfoldC
          (PC.findMinimalTranslation fuel' (PC.ofHeap s.heap) r false free nameBlk s.nilUsed s.errUsed).heap f
          (PC.findMinimalTranslation fuel' (PC.ofHeap s.heap) r false free nameBlk s.nilUsed s.errUsed).root) ↔
        ∃ t, IsMinCost (denote (PC.unfoldC (PC.ofHeap s.heap) f r)) t ∧ t' = t.accum) ∧
    (∃ t, IsMinCost (denote (PC.unfoldC (PC.ofHeap s.heap) f r)) t ∧
      denote (PC.unfoldC
          (PC.findMinimalTranslation fuel' (PC.ofHeap s.heap) r true free nameBlk s.nilUsed s.errUsed).heap f
          (PC.findMinimalTranslation fuel' (PC.ofHeap s.heap) r true free nameBlk s.nilUsed s.errUsed).root) =
        [t.accum]) ∧
    (∀ one,
      (∀ q, PC.Mem.cell q ∈ (PC.findMinimalTranslation fuel' (PC.ofHeap s.heap) r one true nameBlk
            s.nilUsed s.errUsed).frees ↔
          PC.Reach (PC.ofHeap s.heap) r q ∧
          ¬ PC.Reach (PC.findMinimalTranslation fuel' (PC.ofHeap s.heap) r one true nameBlk
              s.nilUsed s.errUsed).heap
            (PC.findMinimalTranslation fuel' (PC.ofHeap s.heap) r one true nameBlk
              s.nilUsed s.errUsed).root q ∧
          PC.isNE (PC.ofHeap s.heap) q = false) ∧
      (PC.findMinimalTranslation fuel' (PC.ofHeap s.heap) r one true nameBlk
        s.nilUsed s.errUsed).frees.Nodup) ∧
    (∀ one z nm c ks,
      PC.Reach (PC.findMinimalTranslation fuel' (PC.ofHeap s.heap) r one free nameBlk
          s.nilUsed s.errUsed).heap
        (PC.findMinimalTranslation fuel' (PC.ofHeap s.heap) r one free nameBlk
          s.nilUsed s.errUsed).root z →
      PC.cellAt (PC.findMinimalTranslation fuel' (PC.ofHeap s.heap) r one free nameBlk
          s.nilUsed s.errUsed).heap z = .anode nm c ks →
      0 ≤ c ∧ ∃ c0 ks0, PC.cellAt (PC.ofHeap s.heap) z = .anode nm c0 ks0 ∧
        c = c0 + ((PC.kidsOf ks).map
          (PC.costOf (PC.findMinimalTranslation fuel' (PC.ofHeap s.heap) r one free nameBlk
            s.nilUsed s.errUsed).heap)).sum)

section
variable {g : Grammar} {la : Nat} {full : List Nat} {pl : List PSet} {S : Array (Array Item)}

/-- a finished, unflagged all-parses run on the final list has the outcome `.ok` -/
theorem final_ok_of_state (h : Final g la full pl) (hS : SameSets pl S) (hg : GrOK g)
    (hcyc : ¬ Cyclic g) (hsr : g.symsInRange = true) {fuel : Nat} {s' : St} {r : Nat}
    (hm : makeParseSt (mkCtx g S (tokNums pl) false) fuel = some s') (hb : s'.bad = false)
    (hres : s'.result = some r) :
    ∃ res, makeParse g S (tokNums pl) false fuel = .ok res ∧
      exportTable s'.heap r = some (res.tab, res.root) ∧ res.amb = s'.amb := by
  obtain ⟨s0, _, _, _, _, _, _, _, rk, hd, _, wf, hr, _⟩ := final_state_all h hS hg hcyc hsr hm hb hres
  obtain ⟨tab, root, hx⟩ := PC.exportTable_some wf hr
  rw [toHeap_ofHeap] at hx
  unfold makeParseSt at hm
  split at hm
  · cases hm
  · rename_i s00 hi
    simp only [makeParse, hi, hm, hb, hres, hx]
    exact ⟨_, rfl, rfl, rfl⟩

/-- **the cost-flag parse on the final list of a recovering parse**, from the machine state -/
theorem final_cost_spec (h : Final g la full pl) (hS : SameSets pl S) (hg : GrOK g)
    (hcyc : ¬ Cyclic g) (hsr : g.symsInRange = true) {fuel : Nat} {s' : St} {r : Nat}
    (hm : makeParseSt (mkCtx g S (tokNums pl) false) fuel = some s') (hb : s'.bad = false)
    (hres : s'.result = some r) :
    (∃ rk hd, PC.WfHeap (PC.ofHeap s'.heap) rk hd ∧ r < (PC.ofHeap s'.heap).size ∧ hd r = r) ∧
    CostSpec g (word pl) (fix pl) s' r := by
  obtain ⟨s0, _, _, _, _, _, _, _, rk, hd, _, wf, hr, hdr⟩ :=
    final_state_all h hS hg hcyc hsr hm hb hres
  obtain ⟨res, hok, hx, _⟩ := final_ok_of_state h hS hg hcyc hsr hm hb hres
  refine ⟨⟨rk, hd, wf, hr, hdr⟩, ?_⟩
  intro free nameBlk fuel' f hf hfu
  have hsz : (PC.ofHeap s'.heap).size = s'.heap.size := MP.size_ofHeap _
  have hf' : (PC.ofHeap s'.heap).size ≤ fuel' := by rw [hsz]; exact hf
  have hfu' : (PC.ofHeap s'.heap).size ≤ f := by rw [hsz]; exact hfu
  have hx' : MP.exportTable (PC.toHeap (PC.ofHeap s'.heap)) r = some (res.tab, res.root) := by
    rw [toHeap_ofHeap]; exact hx
  have hun : unfoldAt res.tab res.root = PC.unfoldC (PC.ofHeap s'.heap) f r := by
    rw [PC.pruneC_unfold_is_export wf hr hx']
    have hrk := wf.rk_lt r hr
    exact PC.unfoldWith_indep _ wf (rk r) r (Nat.le_refl _) hr _ _ hrk (by omega)
  refine ⟨fun one => PC.pruneC_fuel wf hr hdr hf' one free nameBlk _ _, ?_,
    PC.pruneC_minimal_all wf hr hdr hf' free nameBlk _ _ f hfu',
    PC.pruneC_minimal_one wf hr hdr hf' free nameBlk _ _ f hfu',
    fun one => ⟨PC.pruneC_frees wf hr hdr hf' one nameBlk _ _, PC.pruneC_frees_nodup one nameBlk _ _⟩,
    fun one z nm c ks hz hc => PC.pruneC_costs_restored wf hr hdr hf' one free nameBlk _ _ hz hc⟩
  rw [← hun]
  exact (h.all_sound hS hg hcyc hsr hok).2

/-- **the same on what the harness prints**: `tabI`, `rI` the node table of the forest `make_parse`
built, `tabO`, `rO` the table of what `find_minimal_translation` returns -/
theorem final_cost_tables (h : Final g la full pl) (hS : SameSets pl S) (hg : GrOK g)
    (hcyc : ¬ Cyclic g) (hsr : g.symsInRange = true) {fuel : Nat} {res : Result}
    (hok : makeParse g S (tokNums pl) false fuel = .ok res) :
    ∃ s r, makeParseSt (mkCtx g S (tokNums pl) false) fuel = some s ∧ s.result = some r ∧
      (∀ t ∈ (denoteTab res.tab).getD res.root [],
        ∃ pt, PT.IsDerivation g (word pl) pt ∧ t = (translate g pt).mapAttr (fix pl)) ∧
      ∀ (one free : Bool) (nameBlk : Nat → Nat) (fuel' : Nat), s.heap.size ≤ fuel' →
        ∀ (tabO : Array NodeRec) (rO : Nat),
          MP.exportTable (PC.toHeap (PC.findMinimalTranslation fuel' (PC.ofHeap s.heap) r one free nameBlk
              s.nilUsed s.errUsed).heap)
            (PC.findMinimalTranslation fuel' (PC.ofHeap s.heap) r one free nameBlk
              s.nilUsed s.errUsed).root = some (tabO, rO) →
          (∀ t, t ∈ (denoteTab tabO).getD rO [] ↔
            t ∈ denote (prune (!one) (unfoldAt res.tab res.root)).1) ∧
          (one = true → (denoteTab tabO).getD rO [] =
            denote (prune (!one) (unfoldAt res.tab res.root)).1) := by
  obtain ⟨s, r, h1, h2, h3, hx⟩ := makeParse_ok_state hok
  obtain ⟨s0, _, _, _, _, _, _, _, rk, hd, _, wf, hr, hdr⟩ :=
    final_state_all h hS hg hcyc hsr h1 h2 h3
  refine ⟨s, r, h1, h3, (h.all_sound hS hg hcyc hsr hok).1, ?_⟩
  intro one free nameBlk fuel' hf tabO rO ho
  have hx' : MP.exportTable (PC.toHeap (PC.ofHeap s.heap)) r = some (res.tab, res.root) := by
    rw [toHeap_ofHeap]; exact hx
  exact PC.pruneC_denote_tables wf hr hdr (by rw [MP.size_ofHeap]; exact hf) one free nameBlk _ _ hx' ho

end

end Yaep.RC
