import Yaep.Lemmas.MakeParseSoundDen
import Yaep.Lemmas.MakeParseSoundEarley
/-!
# Soundness of the model of `make_parse`, part 3: the invariant of the main loop (one parse)

The stack of parse states is a path in a derivation tree under construction.  For every state on
the stack the ghost data `Frame` records the derivations of the right-hand-side symbols already
processed (`done`), the end of the span of the rule instance (`fin`) and the start of the address
window of the finished children (`lo`).

* `BelowOK` describes the states that wait for a child (everything but the top): the item
  `(rule, pos, orig)` is in the Earley set `plInd`, the symbol at `pos` is the nonterminal the
  state above derives, and that symbol is translated into the place `tgt`, whose content is left
  unspecified.
* `TopOK` describes the top state.
-/
namespace Yaep.MP
open Yaep

/-- what the proofs need to know about the context -/
structure CtxOK (g : Grammar) (ok : Nat → Nat → Nat → Bool) (toks : List Nat) (c : Ctx) : Prop where
  rules : c.rules = g.rules.toArray
  codes : c.termCodes = g.termCodes.toArray
  errT : c.errT = g.errT
  axiomN : c.axiomN = g.axiomN
  one : c.oneParse = true
  size : c.sets.size = toks.length + 1
  sound : ∀ j i, i < (c.sets.getD j #[]).size →
    EarleyF g ok toks j ((c.sets.getD j #[]).getD i default)
  ptoks : ∀ j, 1 ≤ j → j ≤ toks.length → c.plToks.getD j (-1) = (j : Int) - 1

/-- ghost data of a parse state -/
structure Frame where
  fin : Nat
  lo : Nat
  done : List PT

/-- the cell of a state with an abstract node: the slots of the processed positions `≥ frm` hold
finished translations, all others (but `skip`) are still NULL -/
def SlotsOK (g : Grammar) (h : Array MNode) (hi : Nat) (rl : Rule) (an lo frm : Nat)
    (done : List PT) (skip : Option Nat) : Prop :=
  ∃ nm ks, rl.anode = some nm ∧ h.getD an .nil = .anode nm rl.cost ks ∧ ks.size = rl.transLen + 1 ∧
    ∀ d, some d ≠ skip →
      (∀ q, frm ≤ q → rl.order.getD q none = some d →
        ∃ cl, ks.getD d none = some cl ∧
          Den h hi (translate g (done.getD (q - frm) default)) lo cl) ∧
      ((∀ q, frm ≤ q → rl.order.getD q none ≠ some d) → ks.getD d none = none)

/-- a state without abstract node: its translation goes to the place `tgt` of the nearest
state below that has one -/
def PassOK (g : Grammar) (h : Array MNode) (hi : Nat) (rl : Rule) (tgt : Nat × Nat) (lo frm : Nat)
    (done : List PT) : Prop :=
  rl.anode = none ∧
  (∀ q d, frm ≤ q → rl.order.getD q none = some d →
    ∃ cl, getKid h tgt.1 tgt.2 = some cl ∧
      Den h hi (translate g (done.getD (q - frm) default)) lo cl) ∧
  ((∀ q, frm ≤ q → rl.order.getD q none = none) → getKid h tgt.1 tgt.2 = none)

def BelowOK (g : Grammar) (ok : Nat → Nat → Nat → Bool) (toks : List Nat) (h : Array MNode)
    (sts : Array PState) :
    List Nat → List Frame → (hi sb : Nat) → (tgt : Nat × Nat) → (A cLo cFin : Nat) → Prop
  | [], frs, hi, _, tgt, A, cLo, cFin =>
      frs = [] ∧ tgt = (rootId, 0) ∧ A = g.axiomN ∧ cLo = 0 ∧ cFin = toks.length ∧ rootId < hi ∧
      ∃ ks, h.getD rootId .nil = .anode "$result" 0 ks ∧ ks.size = 1
  | _ :: _, [], _, _, _, _, _, _ => False
  | sid :: rest, fr :: frs, hi, sb, tgt, A, cLo, cFin =>
      sid < sb ∧ (sts.getD sid default).parent < sid ∧
      ∃ rl d pa, g.rules[(sts.getD sid default).rule]? = some rl ∧
        rl.rhs[(sts.getD sid default).pos]? = some (.n A) ∧
        rl.order.getD (sts.getD sid default).pos none = some d ∧
        (sts.getD sid default).plInd = cLo ∧
        EarleyF g ok toks cLo ⟨(sts.getD sid default).rule, (sts.getD sid default).pos,
          (sts.getD sid default).orig⟩ ∧
        PT.ValidListAt g toks fr.done (rl.rhs.drop ((sts.getD sid default).pos + 1)) cFin fr.fin ∧
        (sts.getD (sts.getD sid default).parent default).anode = some pa ∧
        match (sts.getD sid default).anode with
        | some an => tgt = (an, d) ∧ an < fr.lo ∧ fr.lo ≤ hi ∧
            SlotsOK g h hi rl an fr.lo ((sts.getD sid default).pos + 1) fr.done (some d) ∧
            getKid h pa (sts.getD sid default).parentDisp = some an ∧
            BelowOK g ok toks h sts rest frs an sid (pa, (sts.getD sid default).parentDisp)
              rl.lhs (sts.getD sid default).orig fr.fin
        | none => rl.anode = none ∧ tgt = (pa, (sts.getD sid default).parentDisp) ∧ fr.lo ≤ hi ∧
            BelowOK g ok toks h sts rest frs fr.lo sid tgt rl.lhs (sts.getD sid default).orig fr.fin

def TopOK (g : Grammar) (ok : Nat → Nat → Nat → Bool) (toks : List Nat) (h : Array MNode)
    (sts : Array PState) : List Nat → List Frame → Prop
  | sid :: rest, fr :: frs =>
      sid < sts.size ∧ (sts.getD sid default).parent < sid ∧
      ∃ rl pa, g.rules[(sts.getD sid default).rule]? = some rl ∧
        (sts.getD sid default).pos ≤ rl.rhs.length ∧
        (sts.getD (sts.getD sid default).parent default).anode = some pa ∧
        ((sts.getD sid default).pos ≠ 0 →
          EarleyF g ok toks (sts.getD sid default).plInd ⟨(sts.getD sid default).rule,
            (sts.getD sid default).pos, (sts.getD sid default).orig⟩) ∧
        PT.ValidListAt g toks fr.done (rl.rhs.drop (sts.getD sid default).pos)
          (if (sts.getD sid default).pos = 0 then (sts.getD sid default).orig
           else (sts.getD sid default).plInd) fr.fin ∧
        fr.lo ≤ h.size ∧
        match (sts.getD sid default).anode with
        | some an => an < fr.lo ∧
            SlotsOK g h h.size rl an fr.lo (sts.getD sid default).pos fr.done none ∧
            getKid h pa (sts.getD sid default).parentDisp = some an ∧
            BelowOK g ok toks h sts rest frs an sid (pa, (sts.getD sid default).parentDisp)
              rl.lhs (sts.getD sid default).orig fr.fin
        | none =>
            PassOK g h h.size rl (pa, (sts.getD sid default).parentDisp) fr.lo
              (sts.getD sid default).pos fr.done ∧
            BelowOK g ok toks h sts rest frs fr.lo sid (pa, (sts.getD sid default).parentDisp)
              rl.lhs (sts.getD sid default).orig fr.fin
  | _, _ => False

/-- the state after the loop: the result slot holds the translation of a derivation -/
def Final (g : Grammar) (toks : List Nat) (h : Array MNode) : Prop :=
  ∃ pt cl, PT.IsDerivation g toks pt ∧ getKid h rootId 0 = some cl ∧
    Den h h.size (translate g pt) 0 cl

structure Good (g : Grammar) (ok : Nat → Nat → Nat → Bool) (toks : List Nat) (s : St) : Prop where
  h0 : s.heap.getD nilId .nil = .nil
  h1 : s.heap.getD errId .nil = .err
  main : (s.stack = [] ∧ Final g toks s.heap) ∨
    ∃ frs, TopOK g ok toks s.heap s.states s.stack frs

def MInv (g : Grammar) (ok : Nat → Nat → Nat → Bool) (toks : List Nat) (s : St) : Prop :=
  s.bad = true ∨ Good g ok toks s

end Yaep.MP
