import Yaep.Lemmas.LaIndep2Rel
import Yaep.Lemmas.LaIndepMP
/-!
# Lookahead independence of `make_parse` at any level: the same run on the unfiltered parse list and on the
parse list of a level `L`

`makeParse_eq_of_setsRelA`: for two parse lists related by `SetsRelA` (the unfiltered sets and the sets of the
level `L` of the same token string) the model of `make_parse` goes through literally the same machine states.
The invariant `LInvA`: every parse state on the stack whose dot is not at the start is an item of the level that
passes the test of the level.  (The proof of `LaIndepMP.lean` with the pair (`F1`, `ok1`) replaced by `L`.)
-/
namespace Yaep.LI2
open Yaep Yaep.MP Yaep.LI

/-- `(r, p, o)` at list index `j`, if its dot is not at the start, is an item of the level that passes its test -/
def UseFA {g : Grammar} {w' : List Nat} (L : Lvl g w') (r p o j : Nat) : Prop :=
  p ≠ 0 → ∃ rl, g.rules[r]? = some rl ∧ p ≤ rl.rhs.length ∧ L.G j ⟨r, p, o⟩

/-- a parse state whose dot is not at the start is an item of the level that passes its test -/
def UseA {g : Grammar} {w' : List Nat} (L : Lvl g w') (st : PState) : Prop :=
  st.pos ≠ 0 → ∃ rl, g.rules[st.rule]? = some rl ∧ st.pos ≤ rl.rhs.length ∧
    L.G st.plInd ⟨st.rule, st.pos, st.orig⟩

def LInvA {g : Grammar} {w' : List Nat} (L : Lvl g w') (s : St) : Prop :=
  ∀ sid ∈ s.stack, sid < s.states.size ∧ UseA L (s.state sid)

theorem useA_of_useFA {g : Grammar} {w' : List Nat} {L : Lvl g w'} {st : PState} {r p o j : Nat}
    (h : UseFA L r p o j) (e1 : st.rule = r) (e2 : st.pos = p) (e3 : st.orig = o) (e4 : st.plInd = j) :
    UseA L st := by
  unfold UseA
  rw [e1, e2, e3, e4]
  exact h

section
variable {g : Grammar} {w' : List Nat} {L : Lvl g w'} {sets0 sets1 : Array (Array Item)}

/-! ## the candidates that pass the check loop are the same -/

theorem pass_filter_eqA (h : SetsRelA g w' L sets0 sets1) (toks : Array Int)
    (one : Bool) {lc : Loc} {rl : Rule} {j : Nat} (hr : g.rules[lc.rule]? = some rl)
    (hs : rl.rhs[lc.pos]? = some (.n lc.A)) (hG : L.G j ⟨lc.rule, lc.pos + 1, lc.orig⟩) :
    ((sets0.getD j #[]).toList.filter (isRed g lc.A)).filter
        (fun it => checkFound (mkCtx g sets0 toks one) lc it.origin) =
      ((sets1.getD j #[]).toList.filter (isRed g lc.A)).filter
        (fun it => checkFound (mkCtx g sets1 toks one) lc it.origin) := by
  obtain ⟨l, h1, h2, h3⟩ := h.mask j lc.A (L.F_F0 (L.G_F hG)).le_length
  rw [← h1, ← h2]
  apply filter_eq_of_mask
  intro x hx
  have hxm : x.1 ∈ (sets0.getD j #[]).toList.filter (isRed g lc.A) := by
    rw [← h1]; exact List.mem_map.mpr ⟨x, hx, rfl⟩
  obtain ⟨hxm0, hred⟩ := List.mem_filter.mp hxm
  have hit : F0 g w' j x.1 := h.sound0 _ _ hxm0
  have hsym0 : ((mkCtx g sets0 toks one).rule lc.rule).rhs[lc.pos]? = some (.n lc.A) := by
    rw [mk_rule_eq _ _ _ hr]; exact hs
  have hsym1 : ((mkCtx g sets1 toks one).rule lc.rule).rhs[lc.pos]? = some (.n lc.A) := by
    rw [mk_rule_eq _ _ _ hr]; exact hs
  cases hp0 : checkFound (mkCtx g sets0 toks one) lc x.1.origin with
  | true =>
    have hq0 : F0 g w' x.1.origin ⟨lc.rule, lc.pos, lc.orig⟩ := h.sound0 _ _ (checkFound_iff.mp hp0).1
    obtain ⟨hq1, hit1⟩ := L.cand hr hs hG hit hred hq0
    have hm : x.2 = true := h3 x hx hit1
    have hp1 : checkFound (mkCtx g sets1 toks one) lc x.1.origin = true :=
      checkFound_iff.mpr ⟨h.complete1 _ _ (L.G_F hq1), hsym1⟩
    rw [hm, hp1]; rfl
  | false =>
    cases hp1 : checkFound (mkCtx g sets1 toks one) lc x.1.origin with
    | false => simp
    | true =>
      have hq1 : L.F x.1.origin ⟨lc.rule, lc.pos, lc.orig⟩ := h.sound1 _ _ (checkFound_iff.mp hp1).1
      have : checkFound (mkCtx g sets0 toks one) lc x.1.origin = true :=
        checkFound_iff.mpr ⟨h.complete0 _ _ (L.F_F0 hq1), hsym0⟩
      rw [hp0] at this; cases this

/-! ## one iteration of the main loop -/

/-- what `UseA` of the top state with the dot not at the start gives -/
theorem use_topA {s : St} {sid : Nat} (hu : UseA L (s.state sid)) (hpos : (s.state sid).pos ≠ 0) :
    ∃ rl, g.rules[(s.state sid).rule]? = some rl ∧ (s.state sid).pos - 1 < rl.rhs.length ∧
      L.G (s.state sid).plInd ⟨(s.state sid).rule, (s.state sid).pos - 1 + 1, (s.state sid).orig⟩ := by
  obtain ⟨rl, hr, hle, hG⟩ := hu hpos
  have hpp : (s.state sid).pos - 1 + 1 = (s.state sid).pos := by omega
  rw [hpp]
  exact ⟨rl, hr, by omega, hG⟩

theorem step_eqA (h : SetsRelA g w' L sets0 sets1) (toks : Array Int) (one : Bool)
    {s : St} (hinv : LInvA L s) :
    step (mkCtx g sets0 toks one) s = step (mkCtx g sets1 toks one) s := by
  cases hst : s.stack with
  | nil =>
    unfold step
    simp only [hst]
  | cons sid rest =>
    by_cases hpos : (s.state sid).pos = 0
    · unfold step
      simp only [hst, hpos, beq_self_eq_true, if_true]
      rfl
    · obtain ⟨_, hu⟩ := hinv sid (by rw [hst]; exact List.mem_cons_self)
      obtain ⟨rl, hr, hlt, hG⟩ := use_topA hu hpos
      have hr0 := mk_rule_eq sets0 toks one hr
      have hr1 := mk_rule_eq sets1 toks one hr
      cases hsym : rl.rhs.getD ((s.state sid).pos - 1) (.t 0) with
      | t a =>
        rw [step_term hst hpos (by rw [hr0]; exact hsym), step_term hst hpos (by rw [hr1]; exact hsym), hr0, hr1]
        rfl
      | n A =>
        rw [step_nt' hst hpos (by rw [hr0]; exact hsym), step_nt' hst hpos (by rw [hr1]; exact hsym)]
        have hL : ntLoc (mkCtx g sets0 toks one) s sid A = ntLoc (mkCtx g sets1 toks one) s sid A := by
          unfold ntLoc; rw [hr0, hr1]
        have key : candLoop (mkCtx g sets0 toks one) (ntLoc (mkCtx g sets0 toks one) s sid A)
              ((mkCtx g sets0 toks one).sets.getD (s.state sid).plInd #[])
              (reduces (mkCtx g sets0 toks one) ((mkCtx g sets0 toks one).sets.getD (s.state sid).plInd #[]) A)
              0 [] (ntS0 s sid) =
            candLoop (mkCtx g sets1 toks one) (ntLoc (mkCtx g sets1 toks one) s sid A)
              ((mkCtx g sets1 toks one).sets.getD (s.state sid).plInd #[])
              (reduces (mkCtx g sets1 toks one) ((mkCtx g sets1 toks one).sets.getD (s.state sid).plInd #[]) A)
              0 [] (ntS0 s sid) := by
          rw [hL, candLoop_eq_L, candLoop_eq_L, reduces_items (g := g) rfl, reduces_items (g := g) rfl,
            candLoopL_congr (c := mkCtx g sets0 toks one) (c' := mkCtx g sets1 toks one) rfl rfl]
          congr 1
          exact pass_filter_eqA h toks one (lc := ntLoc (mkCtx g sets1 toks one) s sid A) hr
            (getElem?_of_getD_n hsym) hG
        rw [key]

/-! ## the invariant is kept -/

/-- an entry of the reduce vector of the set of the level that passes the check loop: the two kinds of states the
candidate loop creates for it satisfy `UseA` -/
theorem passes_useA (h : SetsRelA g w' L sets0 sets1) (toks : Array Int) (one : Bool)
    {s : St} {sid A i : Nat} {rl : Rule} (hr : g.rules[(s.state sid).rule]? = some rl)
    (hs : rl.rhs[(s.state sid).pos - 1]? = some (.n A))
    (hG : L.G (s.state sid).plInd ⟨(s.state sid).rule, (s.state sid).pos - 1 + 1, (s.state sid).orig⟩)
    (hP : Passes (mkCtx g sets1 toks one) s sid A i) :
    UseFA L (s.state sid).rule ((s.state sid).pos - 1) (s.state sid).orig
        (((mkCtx g sets1 toks one).sets.getD (s.state sid).plInd #[]).getD i default).origin ∧
      UseFA L (((mkCtx g sets1 toks one).sets.getD (s.state sid).plInd #[]).getD i default).rule
        (((mkCtx g sets1 toks one).sets.getD (s.state sid).plInd #[]).getD i default).dot
        (((mkCtx g sets1 toks one).sets.getD (s.state sid).plInd #[]).getD i default).origin
        (s.state sid).plInd := by
  obtain ⟨hi, hcf⟩ := hP
  obtain ⟨hlt, hdot, hlhs⟩ := mem_reduces hi
  have hmem : ((mkCtx g sets1 toks one).sets.getD (s.state sid).plInd #[]).getD i default ∈
      ((mkCtx g sets1 toks one).sets.getD (s.state sid).plInd #[]).toList := by
    rw [getD_of_lt _ _ hlt]
    exact Array.getElem_mem_toList hlt
  generalize ((mkCtx g sets1 toks one).sets.getD (s.state sid).plInd #[]).getD i default = sit at hmem hdot hlhs hcf ⊢
  have hit1 : L.F (s.state sid).plInd sit := h.sound1 _ _ hmem
  obtain ⟨rl', hr', hd', _, _⟩ := (L.F_F0 hit1).sound
  rw [mk_rule_eq _ _ _ hr'] at hdot hlhs
  have hred : isRed g A sit = true := (isRed_iff hr').mpr ⟨hdot, hlhs⟩
  have hq1 : L.F sit.origin ⟨(s.state sid).rule, (s.state sid).pos - 1, (s.state sid).orig⟩ :=
    h.sound1 _ _ (checkFound_iff.mp hcf).1
  obtain ⟨hGq, hGit⟩ := L.cand hr hs hG (L.F_F0 hit1) hred (L.F_F0 hq1)
  have hposq := (List.getElem?_eq_some_iff.mp hs).1
  constructor
  · intro _
    exact ⟨rl, hr, by omega, hGq⟩
  · intro _
    exact ⟨rl', hr', hd', hGit⟩

theorem step_linvA (h : SetsRelA g w' L sets0 sets1) (toks : Array Int) (one : Bool)
    {s : St} (hinv : LInvA L s) : LInvA L (step (mkCtx g sets1 toks one) s) := by
  cases hst : s.stack with
  | nil =>
    have : step (mkCtx g sets1 toks one) s = s := by
      unfold step
      simp only [hst]
    rw [this]; exact hinv
  | cons sid rest =>
    obtain ⟨hsid, hu⟩ := hinv sid (by rw [hst]; exact List.mem_cons_self)
    by_cases hpos : (s.state sid).pos = 0
    · obtain ⟨e1, e2, _⟩ := step_pop_shape (c := mkCtx g sets1 toks one) hst hpos
      intro x hx
      rw [e2] at hx
      unfold St.state
      rw [e1]
      exact hinv x (by rw [hst]; exact List.mem_cons_of_mem _ hx)
    · obtain ⟨rl, hr, hlt, hG⟩ := use_topA hu hpos
      have hr1 := mk_rule_eq sets1 toks one hr
      cases hsym : rl.rhs.getD ((s.state sid).pos - 1) (.t 0) with
      | t a =>
        obtain ⟨e1, e2, _⟩ := step_term_shape (c := mkCtx g sets1 toks one) hst hpos (by rw [hr1]; exact hsym)
        intro x hx
        rw [e2] at hx
        obtain ⟨hxlt, hxu⟩ := hinv x hx
        unfold St.state
        rw [e1, getD_set!]
        refine ⟨by simpa using hxlt, ?_⟩
        by_cases hc : sid = x ∧ sid < s.states.size
        · rw [if_pos hc]
          have hG0 := L.term hr (getElem?_of_getD_t hlt hsym) hG
          by_cases hp : (s.state sid).pos - 1 = 0
          · intro hp0; exact absurd hp hp0
          · have hne : ((s.state sid).pos - 1 != 0) = true := by simpa using hp
            refine useA_of_useFA (r := (s.state sid).rule) (p := (s.state sid).pos - 1) (o := (s.state sid).orig)
              (j := (s.state sid).plInd - 1) ?_ rfl rfl rfl (by simp only [hne, if_true])
            intro _
            exact ⟨rl, hr, by omega, hG0⟩
        · rw [if_neg hc]; exact hxu
      | n A =>
        have hsym1 : ((mkCtx g sets1 toks one).rule (s.state sid).rule).rhs.getD ((s.state sid).pos - 1) (.t 0) =
            .n A := by rw [hr1]; exact hsym
        have hs := getElem?_of_getD_n hsym
        rw [step_nt' hst hpos hsym1]
        -- the shape of the states after the loop
        have h0 : CandShape (ntLoc (mkCtx g sets1 toks one) s sid A)
            ((mkCtx g sets1 toks one).sets.getD (s.state sid).plInd #[])
            (Passes (mkCtx g sets1 toks one) s sid A)
            { s.state sid with pos := (s.state sid).pos - 1 } (ntS0 s sid).states (sid :: rest) (ntS0 s sid) 0 := by
          refine ⟨Nat.le_refl _, fun _ _ _ => rfl, ⟨[], by show s.stack = _; rw [hst]; rfl, fun _ h => by cases h⟩,
            Or.inl ⟨rfl, ?_⟩, fun y h1 h2 => by omega⟩
          exact state_setState_same _ hsid
        have hsz : (ntLoc (mkCtx g sets1 toks one) s sid A).origSid < (ntS0 s sid).states.size := by
          show sid < (s.states.set! sid _).size
          simpa using hsid
        have hshape := candLoop_shape (c := mkCtx g sets1 toks one) hsz
          (reduces (mkCtx g sets1 toks one) ((mkCtx g sets1 toks one).sets.getD (s.state sid).plInd #[]) A) 0 []
          (ntS0 s sid) (fun i hi hf => ⟨hi, hf⟩) h0
        -- there is a candidate
        have hne : (candLoop (mkCtx g sets1 toks one) (ntLoc (mkCtx g sets1 toks one) s sid A)
            ((mkCtx g sets1 toks one).sets.getD (s.state sid).plInd #[])
            (reduces (mkCtx g sets1 toks one) ((mkCtx g sets1 toks one).sets.getD (s.state sid).plInd #[]) A) 0 []
            (ntS0 s sid)).2 ≠ 0 := by
          rw [candLoop_eq_L, reduces_items (g := g) rfl]
          apply candLoopL_snd_ne_zero
          right
          obtain ⟨r', rl', k, hr', hlhs, hE1, hE2⟩ := (L.F_F0 (L.G_F hG)).nt_inv hr hs
          have hred' : isRed g A ⟨r', rl'.rhs.length, k⟩ = true :=
            (isRed_iff (it := ⟨r', rl'.rhs.length, k⟩) hr').mpr ⟨rfl, hlhs⟩
          obtain ⟨hG2, hG1⟩ := L.cand (it := ⟨r', rl'.rhs.length, k⟩) hr hs hG hE1 hred' hE2
          apply List.ne_nil_of_mem (a := ⟨r', rl'.rhs.length, k⟩)
          refine List.mem_filter.mpr ⟨List.mem_filter.mpr ⟨h.complete1 _ _ (L.G_F hG1), hred'⟩, ?_⟩
          refine checkFound_iff.mpr ⟨h.complete1 _ _ (L.G_F hG2), ?_⟩
          show ((mkCtx g sets1 toks one).rule (s.state sid).rule).rhs[(s.state sid).pos - 1]? = some (.n A)
          rw [hr1]; exact hs
        have hne' : ((candLoop (mkCtx g sets1 toks one) (ntLoc (mkCtx g sets1 toks one) s sid A)
            ((mkCtx g sets1 toks one).sets.getD (s.state sid).plInd #[])
            (reduces (mkCtx g sets1 toks one) ((mkCtx g sets1 toks one).sets.getD (s.state sid).plInd #[]) A) 0 []
            (ntS0 s sid)).2 == 0) = false := by simpa using hne
        rw [hne']
        simp only [Bool.false_eq_true, if_false]
        generalize candLoop (mkCtx g sets1 toks one) (ntLoc (mkCtx g sets1 toks one) s sid A)
            ((mkCtx g sets1 toks one).sets.getD (s.state sid).plInd #[])
            (reduces (mkCtx g sets1 toks one) ((mkCtx g sets1 toks one).sets.getD (s.state sid).plInd #[]) A) 0 []
            (ntS0 s sid) = r at hshape hne
        obtain ⟨a1, a2, ⟨ids, a3, a3'⟩, a4, a5⟩ := hshape
        have hsz0 : (ntS0 s sid).states.size = s.states.size := by
          show (s.states.set! sid _).size = _
          simp
        rw [hsz0] at a1 a2 a3' a5
        have huse := fun i hP => passes_useA h toks one (s := s) (sid := sid) (A := A) (i := i) hr hs hG hP
        -- the original state
        have horig : UseA L (r.1.state sid) := by
          rcases a4 with ⟨a4, _⟩ | ⟨_, i, hP, e⟩
          · exact absurd a4 hne
          · have e' : r.1.state sid = { ({ s.state sid with pos := (s.state sid).pos - 1 } : PState) with
                plInd := ((sets1.getD (s.state sid).plInd #[]).getD i default).origin } := e
            rw [e']
            exact useA_of_useFA (huse i hP).1 rfl rfl rfl rfl
        intro x hx
        rw [a3] at hx
        rcases List.mem_append.mp hx with hx | hx
        · obtain ⟨hx1, hx2⟩ := a3' x hx
          refine ⟨hx2, ?_⟩
          obtain ⟨i, hP, _, hnew⟩ := a5 x hx1 hx2
          rcases hnew with ⟨p1, p2, p3, p4⟩ | ⟨p1, p2, p3, p4⟩
          · exact useA_of_useFA (huse i hP).2 p1 p2 p3 p4
          · exact useA_of_useFA (huse i hP).1 p1 p2 p3 p4
        · obtain ⟨hxlt, hxu⟩ := hinv x (by rw [hst]; exact hx)
          refine ⟨by omega, ?_⟩
          by_cases hxs : x = sid
          · rw [hxs]; exact horig
          · have e : r.1.state x = s.state x := by
              unfold St.state
              rw [a2 x hxlt hxs]
              show (s.states.set! sid _).getD x default = _
              rw [getD_set!, if_neg (fun hh => hxs hh.1.symm)]
            rw [e]; exact hxu

/-! ## the initial state -/

theorem init_eqA (h : SetsRelA g w' L sets0 sets1) (toks : Array Int) (one : Bool) :
    init (mkCtx g sets0 toks one) = init (mkCtx g sets1 toks one) := by
  unfold init
  simp only [mkCtx, Ctx.rule, h.size0, h.size1, Nat.add_sub_cancel, h.first]

theorem init_linvA (h : SetsRelA g w' L sets0 sets1) (toks : Array Int) (one : Bool) {s0 : St}
    (hi : init (mkCtx g sets1 toks one) = some s0) : LInvA L s0 := by
  unfold init at hi
  simp only [mkCtx, h.size1, Nat.add_sub_cancel] at hi
  split at hi
  · cases hi
  · rename_i sit hsit
    split at hi
    · cases hi
    · rename_i hcond
      injection hi with hi
      subst hi
      simp only [Bool.or_eq_true, bne_iff_ne, ne_eq, not_or, Decidable.not_not] at hcond
      obtain ⟨⟨ho, _⟩, _⟩ := hcond
      have hmem : sit ∈ (sets1.getD w'.length #[]).toList := by
        have := Array.getElem?_eq_some_iff.mp hsit
        obtain ⟨hlt, he⟩ := this
        rw [← he]
        exact Array.getElem_mem_toList hlt
      have hF : L.F w'.length sit := h.sound1 _ _ hmem
      obtain ⟨rl, hr, hd, _, _⟩ := (L.F_F0 hF).sound
      intro x hx
      have hx1 : x = 1 := by simpa using hx
      subst hx1
      refine ⟨by simp, ?_⟩
      refine useA_of_useFA (r := sit.rule) (p := sit.dot) (o := 0) (j := w'.length) ?_ rfl rfl rfl rfl
      intro _
      refine ⟨rl, hr, hd, ?_⟩
      rw [← ho]
      exact L.last hF

/-! ## the run -/

theorem run_eqA (h : SetsRelA g w' L sets0 sets1) (toks : Array Int) (one : Bool) :
    ∀ (fuel : Nat) (s : St), LInvA L s →
      run (mkCtx g sets0 toks one) fuel s = run (mkCtx g sets1 toks one) fuel s
  | 0, _, _ => rfl
  | fuel + 1, s, hinv => by
    unfold run
    split
    · rfl
    · rw [step_eqA h toks one hinv]
      exact run_eqA h toks one fuel _ (step_linvA h toks one hinv)

end

/-- `make_parse` does the same on the unfiltered parse list and on the parse list of the level `L` -/
theorem makeParse_eq_of_setsRelA {g : Grammar} {w' : List Nat} {L : Lvl g w'}
    {sets0 sets1 : Array (Array Item)} (h : SetsRelA g w' L sets0 sets1) (toks : Array Int) (one : Bool)
    (fuel : Nat) : MP.makeParse g sets0 toks one fuel = MP.makeParse g sets1 toks one fuel := by
  unfold makeParse
  simp only
  rw [init_eqA h toks one]
  cases hi : init (mkCtx g sets1 toks one) with
  | none => rfl
  | some s0 =>
    simp only
    rw [run_eqA h toks one fuel s0 (init_linvA h toks one hi)]

end Yaep.LI2
