import Yaep.Lemmas.AnalysisCBase
import Yaep.Lemmas.Analysis
/-!
# `set_loop_p` step for step: the scans in closed form, the shrinking loop terminates, its
result is the abstract `loopSet`
-/
namespace Yaep.AC

/-! ## `othersScan`: all symbols but the `i`-th are `empty_p` -/

theorem othersScan_le (empty : Sym → Bool) (i : Nat) :
    ∀ (l : List Sym) (j : Nat), othersScan empty i l j ≤ j + l.length := by
  intro l
  induction l with
  | nil => intro j; simp [othersScan]
  | cons x rest ih =>
    intro j
    unfold othersScan
    have := ih (j + 1)
    simp only [List.length_cons]
    split
    · omega
    · split
      · omega
      · omega

theorem othersScan_ge_iff (empty : Sym → Bool) (i : Nat) :
    ∀ (l : List Sym) (j : Nat), j + l.length ≤ othersScan empty i l j ↔
      ∀ (k : Nat) (x : Sym), l[k]? = some x → j + k ≠ i → empty x = true := by
  intro l
  induction l with
  | nil => intro j; simp [othersScan]
  | cons y rest ih =>
    intro j
    unfold othersScan
    have hih := ih (j + 1)
    simp only [List.length_cons]
    have hshift : (∀ (k : Nat) (x : Sym), rest[k]? = some x → j + 1 + k ≠ i → empty x = true) ↔
        (∀ (k : Nat) (x : Sym), (y :: rest)[k + 1]? = some x → j + (k + 1) ≠ i → empty x = true) := by
      constructor
      · intro h k x hk hne
        exact h k x (by simpa using hk) (by omega)
      · intro h k x hk hne
        exact h k x (by simpa using hk) (by omega)
    split
    · rename_i hij
      have hij' : i = j := by simpa using hij
      rw [show j + (rest.length + 1) = j + 1 + rest.length by omega, hih, hshift]
      constructor
      · intro h k x hk hne
        cases k with
        | zero => exact absurd hij'.symm (by simpa using hne)
        | succ k => exact h k x hk hne
      · intro h k x hk hne
        exact h (k + 1) x hk hne
    · rename_i hij
      have hij' : ¬ i = j := by simpa using hij
      split
      · rename_i hy
        have hy' : empty y = false := by simpa using hy
        constructor
        · intro h; omega
        · intro h
          have := h 0 y (by simp) (by intro hh; exact hij' (by omega))
          rw [hy'] at this
          cases this
      · rename_i hy
        have hy' : empty y = true := by simpa using hy
        rw [show j + (rest.length + 1) = j + 1 + rest.length by omega, hih, hshift]
        constructor
        · intro h k x hk hne
          cases k with
          | zero =>
            simp only [List.getElem?_cons_zero, Option.some.injEq] at hk
            subst hk
            exact hy'
          | succ k => exact h k x hk hne
        · intro h k x hk hne
          exact h (k + 1) x hk hne

/-- `B` stands at position `i` of `rhs` and all the other symbols are `empty_p` -/
def UnitPos (empty : Sym → Bool) (rhs : List Sym) (i B : Nat) : Prop :=
  rhs[i]? = some (Sym.n B) ∧ ∀ (j : Nat) (s : Sym), j ≠ i → rhs[j]? = some s → empty s = true

theorem othersScan_ok_iff (empty : Sym → Bool) (i : Nat) (rhs : List Sym) :
    othersScan empty i rhs 0 ≥ rhs.length ↔
      ∀ (j : Nat) (s : Sym), j ≠ i → rhs[j]? = some s → empty s = true := by
  have := othersScan_ge_iff empty i rhs 0
  simp only [Nat.zero_add] at this
  rw [ge_iff_le, this]
  constructor
  · intro h j s hj hs; exact h j s hs hj
  · intro h j s hs hj; exact h j s hj hs

/-! ## the initialisation -/

/-- the fold of `loopInitRule` over any list of positions -/
theorem loopInitRule_aux (empty : Sym → Bool) (r : Rule) (is : List Nat) (lp : Nat → Bool) (B : Nat) :
    (is.foldl (loopInitStep empty r) lp) B = true ↔
    (lp B = true ∨ ∃ i ∈ is, UnitPos empty r.rhs i B) := by
  induction is generalizing lp with
  | nil => simp
  | cons i is ih =>
    simp only [List.foldl_cons]
    rw [ih]
    have hstep : (loopInitStep empty r lp i B = true) ↔ (lp B = true ∨ UnitPos empty r.rhs i B) := by
      unfold UnitPos loopInitStep
      rw [← othersScan_ok_iff]
      cases hi : (r.rhs[i]? : Option Sym) with
      | none => simp
      | some s =>
        cases s with
        | t a => simp
        | n C =>
          simp only [Option.some.injEq, Sym.n.injEq]
          split
          · rename_i hok
            rw [upd_true_iff]
            constructor
            · rintro (h | h)
              · exact Or.inr ⟨h.symm, hok⟩
              · exact Or.inl h
            · rintro (h | ⟨h, _⟩)
              · exact Or.inr h
              · exact Or.inl h.symm
          · rename_i hok
            constructor
            · exact Or.inl
            · rintro (h | ⟨_, h⟩)
              · exact h
              · exact absurd h hok
    rw [hstep]
    simp only [List.mem_cons, exists_eq_or_imp]
    constructor
    · rintro ((h | h) | h)
      · exact Or.inl h
      · exact Or.inr (Or.inl h)
      · exact Or.inr (Or.inr h)
    · rintro (h | h | h)
      · exact Or.inl (Or.inl h)
      · exact Or.inl (Or.inr h)
      · exact Or.inr h

theorem UnitPos.lt {empty : Sym → Bool} {rhs : List Sym} {i B : Nat} (h : UnitPos empty rhs i B) :
    i < rhs.length := (List.getElem?_eq_some_iff.mp h.1).1

theorem loopInitRule_iff (empty : Sym → Bool) (lp : Nat → Bool) (r : Rule) (B : Nat) :
    loopInitRule empty lp r B = true ↔ (lp B = true ∨ ∃ i, UnitPos empty r.rhs i B) := by
  unfold loopInitRule
  rw [loopInitRule_aux]
  constructor
  · rintro (h | ⟨i, _, h⟩)
    · exact Or.inl h
    · exact Or.inr ⟨i, h⟩
  · rintro (h | ⟨i, h⟩)
    · exact Or.inl h
    · exact Or.inr ⟨i, List.mem_range.mpr h.lt, h⟩

theorem loopInit_aux (empty : Sym → Bool) (rules : List Rule) (lp : Nat → Bool) (B : Nat) :
    rules.foldl (loopInitRule empty) lp B = true ↔
      (lp B = true ∨ ∃ r ∈ rules, ∃ i, UnitPos empty r.rhs i B) := by
  induction rules generalizing lp with
  | nil => simp
  | cons r rs ih =>
    simp only [List.foldl_cons]
    rw [ih, loopInitRule_iff]
    simp only [List.mem_cons, exists_eq_or_imp]
    constructor
    · rintro ((h | h) | h)
      · exact Or.inl h
      · exact Or.inr (Or.inl h)
      · exact Or.inr (Or.inr h)
    · rintro (h | h | h)
      · exact Or.inl (Or.inl h)
      · exact Or.inl (Or.inr h)
      · exact Or.inr h

/-- after the initialisation `loop_p` marks the nonterminals that stand somewhere among
`empty_p` symbols only -/
theorem loopInit_iff (g : Grammar) (empty : Sym → Bool) (B : Nat) :
    loopInit g empty B = true ↔ ∃ r ∈ g.rules, ∃ i, UnitPos empty r.rhs i B := by
  unfold loopInit
  rw [loopInit_aux]
  simp

/-! ## one left-hand side of the major cycle -/

theorem loopRule_aux (empty : Sym → Bool) (lp : Nat → Bool) (r : Rule) (js : List Nat) (acc : Bool) :
    (js.foldl (loopRuleStep empty lp r) acc) = true ↔
    (acc = true ∨ ∃ j ∈ js, ∃ B, UnitPos empty r.rhs j B ∧ lp B = true) := by
  induction js generalizing acc with
  | nil => simp
  | cons j js ih =>
    simp only [List.foldl_cons]
    rw [ih]
    have hstep : (loopRuleStep empty lp r acc j = true) ↔
        (acc = true ∨ ∃ B, UnitPos empty r.rhs j B ∧ lp B = true) := by
      unfold UnitPos loopRuleStep
      rw [← othersScan_ok_iff]
      cases hj : (r.rhs[j]? : Option Sym) with
      | none => simp
      | some s =>
        cases s with
        | t a => simp
        | n C =>
          simp only [Option.some.injEq, Sym.n.injEq]
          by_cases hC : lp C = true
          · by_cases hok : othersScan empty j r.rhs 0 ≥ r.rhs.length
            · simp only [hC, hok, if_true, true_iff]
              exact Or.inr ⟨C, ⟨rfl, trivial⟩, hC⟩
            · simp only [hC, hok, if_true, if_false]
              constructor
              · exact Or.inl
              · rintro (h | ⟨B, ⟨_, h⟩, _⟩)
                · exact h
                · exact h.elim
          · simp only [hC, if_false, Bool.false_eq_true]
            constructor
            · exact Or.inl
            · rintro (h | ⟨B, ⟨h, _⟩, hB⟩)
              · exact h
              · subst h; exact absurd hB hC
    rw [hstep]
    simp only [List.mem_cons, exists_eq_or_imp]
    constructor
    · rintro ((h | h) | h)
      · exact Or.inl h
      · exact Or.inr (Or.inl h)
      · exact Or.inr (Or.inr h)
    · rintro (h | h | h)
      · exact Or.inl (Or.inl h)
      · exact Or.inl (Or.inr h)
      · exact Or.inr h

theorem loopRule_iff (empty : Sym → Bool) (lp : Nat → Bool) (acc : Bool) (r : Rule) :
    loopRule empty lp acc r = true ↔
      (acc = true ∨ ∃ j B, UnitPos empty r.rhs j B ∧ lp B = true) := by
  unfold loopRule
  rw [loopRule_aux]
  constructor
  · rintro (h | ⟨j, _, B, h⟩)
    · exact Or.inl h
    · exact Or.inr ⟨j, B, h⟩
  · rintro (h | ⟨j, B, h⟩)
    · exact Or.inl h
    · exact Or.inr ⟨j, List.mem_range.mpr h.1.lt, B, h⟩

/-- some rule of `A` has a `loop_p` nonterminal among `empty_p` symbols only -/
def HasEdge (g : Grammar) (empty : Sym → Bool) (lp : Nat → Bool) (A : Nat) : Prop :=
  ∃ r ∈ g.rules, r.lhs = A ∧ ∃ j B, UnitPos empty r.rhs j B ∧ lp B = true

theorem loopRules_aux (empty : Sym → Bool) (lp : Nat → Bool) (rs : List Rule) (acc : Bool) :
    rs.foldl (loopRule empty lp) acc = true ↔
      (acc = true ∨ ∃ r ∈ rs, ∃ j B, UnitPos empty r.rhs j B ∧ lp B = true) := by
  induction rs generalizing acc with
  | nil => simp
  | cons r rs ih =>
    simp only [List.foldl_cons]
    rw [ih, loopRule_iff]
    simp only [List.mem_cons, exists_eq_or_imp]
    constructor
    · rintro ((h | h) | h)
      · exact Or.inl h
      · exact Or.inr (Or.inl h)
      · exact Or.inr (Or.inr h)
    · rintro (h | h | h)
      · exact Or.inl (Or.inl h)
      · exact Or.inl (Or.inr h)
      · exact Or.inr h

/-- the local `loop_p` computed for the left-hand side `A` -/
theorem loopLocal_iff (g : Grammar) (empty : Sym → Bool) (lp : Nat → Bool) (A : Nat) :
    (rulesOf g A).foldl (loopRule empty lp) false = true ↔ HasEdge g empty lp A := by
  rw [loopRules_aux]
  simp only [Bool.false_eq_true, false_or]
  unfold HasEdge
  constructor
  · rintro ⟨r, hr, h⟩
    obtain ⟨h1, h2⟩ := mem_rulesOf.mp hr
    exact ⟨r, h1, h2, h⟩
  · rintro ⟨r, h1, h2, h⟩
    exact ⟨r, mem_rulesOf.mpr ⟨h1, h2⟩, h⟩

/-- `loopLhs` in closed form -/
theorem loopLhs_spec (g : Grammar) (empty : Sym → Bool) (st : (Nat → Bool) × Bool) (A : Nat) :
    (∀ B, (loopLhs g empty st A).1 B = true ↔
      (st.1 B = true ∧ (B = A → HasEdge g empty st.1 A))) ∧
    ((loopLhs g empty st A).2 = true ↔
      (st.2 = true ∨ (st.1 A = true ∧ ¬ HasEdge g empty st.1 A))) := by
  unfold loopLhs
  have hloc := loopLocal_iff g empty st.1 A
  by_cases hA : st.1 A = true
  · simp only [hA, if_true]
    cases hb : (rulesOf g A).foldl (loopRule empty st.1) false
    · rw [hb] at hloc
      have hno : ¬ HasEdge g empty st.1 A := fun h => by simpa using hloc.mpr h
      refine ⟨?_, by simp [hno]⟩
      intro B
      by_cases hBA : B = A
      · subst hBA; simp [hno]
      · rw [upd_other _ _ hBA]; simp [hBA]
    · rw [hb] at hloc
      have hyes : HasEdge g empty st.1 A := hloc.mp rfl
      refine ⟨?_, by simp [hyes]⟩
      intro B
      by_cases hBA : B = A
      · subst hBA; simp [hyes, hA]
      · rw [upd_other _ _ hBA]; simp [hBA]
  · have hA0 : st.1 A = false := by simpa using hA
    simp only [hA0, Bool.false_eq_true, if_false]
    refine ⟨?_, by simp⟩
    intro B
    constructor
    · intro h
      refine ⟨h, ?_⟩
      rintro rfl
      rw [hA0] at h; cases h
    · exact fun h => h.1

/-! ## a pass: shrinking, nothing lost, no change -/

theorem loopLhs_noChange (g : Grammar) (empty : Sym → Bool) (st : (Nat → Bool) × Bool) (A : Nat)
    (h : (loopLhs g empty st A).2 = false) :
    st.2 = false ∧ (loopLhs g empty st A).1 = st.1 ∧
      (st.1 A = true → HasEdge g empty st.1 A) := by
  obtain ⟨h1, h2⟩ := loopLhs_spec g empty st A
  have hn := fun hh => Bool.eq_false_iff.mp h (h2.mpr hh)
  have hedge : st.1 A = true → HasEdge g empty st.1 A := by
    intro hA
    apply Classical.byContradiction
    intro hne
    exact hn (Or.inr ⟨hA, hne⟩)
  refine ⟨?_, ?_, hedge⟩
  · cases hx : st.2
    · rfl
    · exact absurd (Or.inl hx) hn
  · apply bool_fun_ext'
    intro B
    rw [h1]
    constructor
    · exact fun h => h.1
    · intro hB
      refine ⟨hB, ?_⟩
      rintro rfl
      exact hedge hB
where
  bool_fun_ext' {f f' : Nat → Bool} (h : ∀ x, f x = true ↔ f' x = true) : f = f' := by
    funext x
    have := h x
    cases hf : f x <;> cases hf' : f' x <;> simp_all

/-- how many of the `nN` flags are cleared -/
def loopMu (g : Grammar) (lp : Nat → Bool) : Nat := g.nN - cnt (List.range g.nN) lp

theorem loopLhs_progress (g : Grammar) (empty : Sym → Bool) (st : (Nat → Bool) × Bool) {A : Nat}
    (hA : A < g.nN) :
    loopMu g st.1 ≤ loopMu g (loopLhs g empty st A).1 ∧
    ((loopLhs g empty st A).2 = true →
      st.2 = true ∨ loopMu g st.1 < loopMu g (loopLhs g empty st A).1) := by
  obtain ⟨h1, h2⟩ := loopLhs_spec g empty st A
  have hle : cnt (List.range g.nN) (loopLhs g empty st A).1 ≤ cnt (List.range g.nN) st.1 :=
    cnt_mono fun x _ hx => ((h1 x).mp hx).1
  have hb := cnt_le_length (List.range g.nN) st.1
  simp only [List.length_range] at hb
  refine ⟨by unfold loopMu; omega, ?_⟩
  intro hc
  rcases h2.mp hc with h | ⟨hAt, hno⟩
  · exact Or.inl h
  · right
    have hf : (loopLhs g empty st A).1 A = false := by
      cases hx : (loopLhs g empty st A).1 A
      · rfl
      · exact absurd (((h1 A).mp hx).2 rfl) hno
    have : cnt (List.range g.nN) (loopLhs g empty st A).1 < cnt (List.range g.nN) st.1 :=
      cnt_lt (fun x _ hx => ((h1 x).mp hx).1) (List.mem_range.mpr hA) hf hAt
    unfold loopMu; omega

theorem loopPass_progress (g : Grammar) (empty : Sym → Bool) (lp : Nat → Bool)
    (h : (loopPass g empty lp).2 = true) : loopMu g lp < loopMu g (loopPass g empty lp).1 := by
  have := foldl_progress (loopLhs g empty) (fun st => st.2) (fun st => loopMu g st.1)
    (List.range g.nN) (fun s A hA => loopLhs_progress g empty s (List.mem_range.mp hA)) (lp, false)
  rcases this.2 h with h' | h'
  · cases h'
  · exact h'

theorem loopPass_noChange (g : Grammar) (empty : Sym → Bool) (lp : Nat → Bool)
    (h : (loopPass g empty lp).2 = false) :
    (loopPass g empty lp).1 = lp ∧ ∀ A < g.nN, lp A = true → HasEdge g empty lp A := by
  obtain ⟨_, h2, h3⟩ := foldl_closed (loopLhs g empty) (fun st => st.2) (fun st => st.1)
    (fun A lp => lp A = true → HasEdge g empty lp A) (List.range g.nN)
    (fun s A _ hc => loopLhs_noChange g empty s A hc) (lp, false) h
  exact ⟨h2, fun A hA => h3 A (List.mem_range.mpr hA)⟩

/-- a pass never sets a flag -/
theorem loopPass_le (g : Grammar) (empty : Sym → Bool) (lp : Nat → Bool) (A : Nat)
    (h : (loopPass g empty lp).1 A = true) : lp A = true := by
  unfold loopPass at h
  exact foldl_rel (loopLhs g empty) (fun a b => ∀ A, b.1 A = true → a.1 A = true)
    (fun _ _ h => h) (fun _ _ _ h1 h2 A h => h1 A (h2 A h)) _
    (fun s B _ A h => ((loopLhs_spec g empty s B).1 A).mp h |>.1) (lp, false) A h

theorem loop_isSome (g : Grammar) (empty : Sym → Bool) :
    (doWhile (loopPass g empty) (loopFuel g) (loopInit g empty)).isSome = true := by
  apply doWhile_isSome (loopPass g empty) (fun _ => True) (fun _ _ => trivial) (loopMu g) g.nN
    (fun s _ => Nat.sub_le _ _) (fun s _ h => loopPass_progress g empty s h) _ _ trivial
  unfold loopFuel
  omega

/-! ## the result is the abstract `loopSet` -/

/-- the `empty_p` flags are the abstract nullable set -/
def EmptyOK (g : Grammar) (empty : Sym → Bool) : Prop := ∀ s, empty s = symNullable g.nullable s

theorem unitPos_iff_edge {g : Grammar} {empty : Sym → Bool} (hE : EmptyOK g empty) {A B : Nat} :
    (∃ r ∈ g.rules, r.lhs = A ∧ ∃ i, UnitPos empty r.rhs i B) ↔ (A, B) ∈ g.unitEdges := by
  rw [mem_unitEdges]
  constructor
  · rintro ⟨r, hr, hl, i, hi, hall⟩
    refine ⟨r, hr, hl, mem_unitPositions.mpr ⟨i, hi, ?_⟩⟩
    intro j s hj hs
    rw [← hE]; exact hall j s hj hs
  · rintro ⟨r, hr, hl, hB⟩
    obtain ⟨i, hi, hall⟩ := mem_unitPositions.mp hB
    refine ⟨r, hr, hl, i, hi, ?_⟩
    intro j s hj hs
    rw [hE]; exact hall j s hj hs

theorem hasEdge_iff {g : Grammar} {empty : Sym → Bool} (hE : EmptyOK g empty) (lp : Nat → Bool)
    (A : Nat) : HasEdge g empty lp A ↔ ∃ B, (A, B) ∈ g.unitEdges ∧ lp B = true := by
  constructor
  · rintro ⟨r, hr, hl, j, B, hpos, hB⟩
    exact ⟨B, (unitPos_iff_edge hE).mp ⟨r, hr, hl, j, hpos⟩, hB⟩
  · rintro ⟨B, he, hB⟩
    obtain ⟨r, hr, hl, j, hpos⟩ := (unitPos_iff_edge hE).mpr he
    exact ⟨r, hr, hl, j, B, hpos, hB⟩

/-- invariant of the major cycle: only edge targets are flagged, and no member of the abstract
`loopSet` has been cleared -/
structure LoopInv (g : Grammar) (lp : Nat → Bool) : Prop where
  below : ∀ B, lp B = true → ∃ A, (A, B) ∈ g.unitEdges
  keeps : ∀ A ∈ g.loopSet, lp A = true

theorem loopSet_target (g : Grammar) {B : Nat} (h : B ∈ g.loopSet) : ∃ A, (A, B) ∈ g.unitEdges := by
  rw [loopSet_eq] at h
  exact mem_loopInit.mp (shrink_subset _ _ _ h)

theorem loopInit_inv {g : Grammar} {empty : Sym → Bool} (hE : EmptyOK g empty) :
    LoopInv g (loopInit g empty) := by
  have hiff : ∀ B, loopInit g empty B = true ↔ ∃ A, (A, B) ∈ g.unitEdges := by
    intro B
    rw [loopInit_iff]
    constructor
    · rintro ⟨r, hr, i, hpos⟩
      exact ⟨r.lhs, (unitPos_iff_edge hE).mp ⟨r, hr, rfl, i, hpos⟩⟩
    · rintro ⟨A, he⟩
      obtain ⟨r, hr, _, i, hpos⟩ := (unitPos_iff_edge hE).mpr he
      exact ⟨r, hr, i, hpos⟩
  exact ⟨fun B hB => (hiff B).mp hB, fun A hA => (hiff A).mpr (loopSet_target g hA)⟩

theorem loopLhs_inv {g : Grammar} {empty : Sym → Bool} (hE : EmptyOK g empty)
    (st : (Nat → Bool) × Bool) (A : Nat) (h : LoopInv g st.1) :
    LoopInv g (loopLhs g empty st A).1 := by
  obtain ⟨h1, _⟩ := loopLhs_spec g empty st A
  refine ⟨fun B hB => h.below B ((h1 B).mp hB).1, ?_⟩
  intro C hC
  rw [h1]
  refine ⟨h.keeps C hC, ?_⟩
  rintro rfl
  obtain ⟨B, hB, he⟩ := loopSet_stable g C hC
  exact (hasEdge_iff hE _ _).mpr ⟨B, he, h.keeps B hB⟩

theorem loopPass_inv {g : Grammar} {empty : Sym → Bool} (hE : EmptyOK g empty) (lp : Nat → Bool)
    (h : LoopInv g lp) : LoopInv g (loopPass g empty lp).1 := by
  unfold loopPass
  exact foldl_inv (loopLhs g empty) (fun st => LoopInv g st.1) _
    (fun s A _ hs => loopLhs_inv hE s A hs) _ h

/-- targets of edges are nonterminals in range -/
theorem edge_target_lt {g : Grammar} (h : g.symsInRange = true) {A B : Nat}
    (he : (A, B) ∈ g.unitEdges) : B < g.nN := by
  obtain ⟨r, hr, _, hB⟩ := mem_unitEdges.mp he
  obtain ⟨i, hi, _⟩ := mem_unitPositions.mp hB
  have hmem : Sym.n B ∈ r.rhs := List.mem_of_getElem? hi
  unfold Grammar.symsInRange at h
  have := List.all_eq_true.mp h r hr
  simp only [Bool.and_eq_true] at this
  have := List.all_eq_true.mp this.2 _ hmem
  simpa [Sym.inRange] using this

/-- `set_loop_p` run with the right `empty_p` flags computes the abstract `loopSet` -/
theorem loopWith_iff {g : Grammar} (h : g.symsInRange = true) {empty : Sym → Bool}
    (hE : EmptyOK g empty) (A : Nat) : loopWith g empty A = true ↔ A ∈ g.loopSet := by
  have hs := loop_isSome g empty
  obtain ⟨r, hr⟩ := Option.isSome_iff_exists.mp hs
  have he : loopWith g empty = r := by
    unfold loopWith
    rw [hr]; rfl
  obtain ⟨s0, hs0, h1, h2⟩ := doWhile_spec (loopPass g empty) (LoopInv g)
    (fun s hs => loopPass_inv hE s hs) _ _ _ (loopInit_inv hE) hr
  obtain ⟨h3, h4⟩ := loopPass_noChange g empty s0 h2
  have hrs : r = s0 := h1.symm.trans h3
  rw [he, hrs]
  constructor
  · intro hA
    -- the flagged nonterminals form a stable set of edge targets
    have hsub : (List.range g.nN).filter s0 ⊆ g.loopSet := by
      apply loopSet_greatest
      · intro B hB
        exact hs0.below B (List.mem_filter.mp hB).2
      · intro C hC
        obtain ⟨hC1, hC2⟩ := List.mem_filter.mp hC
        obtain ⟨B, he, hB⟩ := (hasEdge_iff hE _ _).mp (h4 C (List.mem_range.mp hC1) hC2)
        exact ⟨B, List.mem_filter.mpr ⟨List.mem_range.mpr (edge_target_lt h he), hB⟩, he⟩
    obtain ⟨C, he⟩ := hs0.below A hA
    exact hsub (List.mem_filter.mpr ⟨List.mem_range.mpr (edge_target_lt h he), hA⟩)
  · exact hs0.keeps A

end Yaep.AC
