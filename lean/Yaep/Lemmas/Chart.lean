import Yaep.Model.Chart
import Yaep.Lemmas.Saturate
import Yaep.Lemmas.Trees
/-!
# Helper lemmas about the recogniser chart and the pruned enumerators
-/
namespace Yaep

/-- a chain of splits for a symbol string: terminals match the input, every nonterminal
piece is a triple of `ch` -/
inductive SeqChain (toks : List Nat) (ch : List Triple) : List Sym → Nat → Nat → Prop where
  | nil {i : Nat} : SeqChain toks ch [] i i
  | t {a i j : Nat} {rest : List Sym} :
      toks[i]? = some a → SeqChain toks ch rest (i + 1) j → SeqChain toks ch (.t a :: rest) i j
  | n {B i m j : Nat} {rest : List Sym} :
      (B, i, m) ∈ ch → SeqChain toks ch rest m j → SeqChain toks ch (.n B :: rest) i j

theorem mem_addNew_nil {α : Type} [DecidableEq α] {xs : List α} {a : α} :
    a ∈ addNew [] xs ↔ a ∈ xs := by
  constructor
  · intro h
    rcases mem_addNew h with h | h
    · simp at h
    · exact h
  · intro h; exact addNew_subset_right _ _ h

theorem mem_seqEnds {toks : List Nat} {ch : List Triple} :
    ∀ (Xs : List Sym) (starts : List Nat) (j : Nat),
      j ∈ seqEnds toks ch Xs starts ↔ ∃ i ∈ starts, SeqChain toks ch Xs i j := by
  intro Xs
  induction Xs with
  | nil =>
    intro starts j
    simp only [seqEnds]
    constructor
    · intro h; exact ⟨j, h, .nil⟩
    · rintro ⟨i, hi, hc⟩; cases hc; exact hi
  | cons X rest ih =>
    intro starts j
    cases X with
    | t a =>
      simp only [seqEnds, ih, mem_addNew_nil, List.mem_filterMap]
      constructor
      · rintro ⟨m', ⟨m, hm, he⟩, hc⟩
        split at he
        · rename_i ht
          simp at he; subst he
          exact ⟨m, hm, .t ht hc⟩
        · simp at he
      · rintro ⟨i, hi, hc⟩
        cases hc with
        | t ht hc => exact ⟨i + 1, ⟨i, hi, by simp [ht]⟩, hc⟩
    | n B =>
      simp only [seqEnds, ih, mem_addNew_nil, List.mem_flatMap, List.mem_filterMap]
      constructor
      · rintro ⟨m', ⟨m, hm, t, ht, he⟩, hc⟩
        split at he
        · rename_i hB
          simp at he; subst he
          obtain ⟨A, i', j'⟩ := t
          simp at hB
          obtain ⟨rfl, rfl⟩ := hB
          exact ⟨_, hm, .n ht hc⟩
        · simp at he
      · rintro ⟨i, hi, hc⟩
        cases hc with
        | @n _ _ m _ _ hB hc => exact ⟨m, ⟨i, hi, (B, i, m), hB, by simp⟩, hc⟩

theorem SeqChain.mono {toks : List Nat} {ch ch' : List Triple} (h : ch ⊆ ch') :
    ∀ {Xs : List Sym} {i j : Nat}, SeqChain toks ch Xs i j → SeqChain toks ch' Xs i j := by
  intro Xs i j hc
  induction hc with
  | nil => exact .nil
  | t ht _ ih => exact .t ht ih
  | n hB _ ih => exact .n (h hB) ih

/-- end positions stay inside the input if the chart does -/
theorem SeqChain.le_length {toks : List Nat} {ch : List Triple}
    (hch : ∀ t ∈ ch, t.2.2 ≤ toks.length) :
    ∀ {Xs : List Sym} {i j : Nat}, SeqChain toks ch Xs i j → i ≤ toks.length → j ≤ toks.length := by
  intro Xs i j hc
  induction hc with
  | nil => exact id
  | t ht _ ih =>
    intro _
    exact ih (lt_length_of_getElem?_eq_some ht)
  | n hB _ ih =>
    intro _
    exact ih (hch _ hB)

theorem seqOk_iff {toks : List Nat} {ch : List Triple} {Xs : List Sym} {i j : Nat} :
    seqOk toks ch Xs i j = true ↔ SeqChain toks ch Xs i j := by
  simp only [seqOk, List.contains_iff_mem, mem_seqEnds, List.mem_singleton]
  constructor
  · rintro ⟨_, rfl, h⟩; exact h
  · intro h; exact ⟨i, rfl, h⟩

/-! ## the universe of the saturation -/

/-- all triples `(lhs of a rule, i, j)` with `i, j ≤ n` -/
def chartUniv (g : Grammar) (n : Nat) : List Triple :=
  (g.rules.map (·.lhs)).flatMap fun A =>
    (List.range (n + 1)).flatMap fun i => (List.range (n + 1)).map fun j => (A, i, j)

theorem sum_map_const' {α : Type} (l : List α) (c : Nat) : (l.map fun _ => c).sum = l.length * c :=
  sum_map_const l c

theorem chartUniv_length (g : Grammar) (n : Nat) :
    (chartUniv g n).length = g.rules.length * (n + 1) * (n + 1) := by
  simp only [chartUniv, List.length_flatMap, List.length_map, List.map_map, Function.comp_def,
    List.length_range, sum_map_const]
  rw [Nat.mul_assoc]

theorem mem_chartUniv {g : Grammar} {n : Nat} {t : Triple} :
    t ∈ chartUniv g n ↔ (∃ rl ∈ g.rules, rl.lhs = t.1) ∧ t.2.1 ≤ n ∧ t.2.2 ≤ n := by
  obtain ⟨A, i, j⟩ := t
  simp only [chartUniv, List.mem_flatMap, List.mem_map, List.mem_range, Prod.mk.injEq]
  constructor
  · rintro ⟨_, ⟨rl, hrl, rfl⟩, i', hi', j', hj', rfl, rfl, rfl⟩
    exact ⟨⟨rl, hrl, rfl⟩, by omega, by omega⟩
  · rintro ⟨⟨rl, hrl, rfl⟩, hi, hj⟩
    exact ⟨_, ⟨rl, hrl, rfl⟩, i, by omega, j, by omega, rfl, rfl, rfl⟩

theorem mem_chartStep {g : Grammar} {toks : List Nat} {ch : List Triple} {t : Triple} :
    t ∈ chartStep g toks ch ↔
      ∃ rl ∈ g.rules, rl.lhs = t.1 ∧ t.2.1 ≤ toks.length ∧ SeqChain toks ch rl.rhs t.2.1 t.2.2 := by
  obtain ⟨A, i, j⟩ := t
  simp only [chartStep, List.mem_flatMap, List.mem_map, List.mem_range, Prod.mk.injEq,
    mem_seqEnds, List.mem_singleton]
  constructor
  · rintro ⟨rl, hrl, i', hi', j', ⟨_, rfl, hc⟩, rfl, rfl, rfl⟩
    exact ⟨rl, hrl, rfl, by omega, hc⟩
  · rintro ⟨rl, hrl, rfl, hi, hc⟩
    exact ⟨rl, hrl, i, by omega, j, ⟨i, rfl, hc⟩, rfl, rfl, rfl⟩

theorem chartStep_subset_univ (g : Grammar) (toks : List Nat) (s : List Triple)
    (hs : s ⊆ chartUniv g toks.length) : chartStep g toks s ⊆ chartUniv g toks.length := by
  intro t ht
  obtain ⟨rl, hrl, hl, hi, hc⟩ := mem_chartStep.1 ht
  refine mem_chartUniv.2 ⟨⟨rl, hrl, hl⟩, hi, ?_⟩
  exact hc.le_length (fun t ht => (mem_chartUniv.1 (hs ht)).2.2) hi

theorem chart_subset_univ (g : Grammar) (toks : List Nat) :
    chart g toks ⊆ chartUniv g toks.length :=
  saturate_subset_univ _ _ (chartStep_subset_univ g toks) _ _ (by simp)

/-- the chart is closed under `chartStep` -/
theorem chart_closed (g : Grammar) (toks : List Nat) :
    chartStep g toks (chart g toks) ⊆ chart g toks := by
  apply saturate_closed _ (chartUniv g toks.length) (chartStep_subset_univ g toks) _ _
    (by simp) List.nodup_nil
  rw [chartUniv_length]; simp


/-! ## completeness and soundness of the chart -/

theorem mem_rules_of_getElem? {g : Grammar} {r : Nat} {rl : Rule} (h : g.rules[r]? = some rl) :
    rl ∈ g.rules := List.mem_of_getElem? h

mutual
theorem chart_complete_aux {g : Grammar} {toks : List Nat} : ∀ (pt : PT) {A i j : Nat},
    PT.ValidAt g toks pt (.n A) i j → j ≤ toks.length → (A, i, j) ∈ chart g toks
  | .leaf _ _, _, _, _, h, _ => by cases h
  | .node r kids, A, i, j, h, hj => by
    cases h with
    | @node _ rl _ _ _ _ e hl v =>
      have hc := chain_complete_aux kids v hj
      have hij := v.le
      apply chart_closed g toks
      exact mem_chartStep.2 ⟨rl, mem_rules_of_getElem? e, hl, by simp only; omega, hc⟩
theorem chain_complete_aux {g : Grammar} {toks : List Nat} : ∀ (kids : List PT)
    {Xs : List Sym} {i j : Nat},
    PT.ValidListAt g toks kids Xs i j → j ≤ toks.length → SeqChain toks (chart g toks) Xs i j
  | [], _, _, _, h, _ => by cases h; exact .nil
  | k :: ks, _, _, _, h, hj => by
    cases h with
    | @cons _ _ X _ _ m _ h1 h2 =>
      have hm := h2.le
      have hrest := chain_complete_aux ks h2 hj
      cases X with
      | t a =>
        cases h1 with
        | leaf ht => exact .t ht hrest
      | n B => exact .n (chart_complete_aux k h1 (by omega)) hrest
end

theorem symOk_complete_aux {g : Grammar} {toks : List Nat} {pt : PT} {X : Sym} {i j : Nat}
    (h : PT.ValidAt g toks pt X i j) (hj : j ≤ toks.length) :
    symOk toks (chart g toks) X i j = true := by
  cases X with
  | t a =>
    cases h with
    | leaf ht => simp [symOk, ht]
  | n A =>
    simp only [symOk, List.contains_iff_mem]
    exact chart_complete_aux pt h hj

/-- every chain over a set of derivable triples is realised by a list of derivations -/
theorem SeqChain.exists_valid {g : Grammar} {toks : List Nat} {ch : List Triple}
    (hch : ∀ t ∈ ch, ∃ pt, PT.ValidAt g toks pt (.n t.1) t.2.1 t.2.2) :
    ∀ {Xs : List Sym} {i j : Nat}, SeqChain toks ch Xs i j →
      ∃ kids, PT.ValidListAt g toks kids Xs i j := by
  intro Xs i j hc
  induction hc with
  | nil => exact ⟨[], .nil⟩
  | t ht _ ih =>
    obtain ⟨ks, hks⟩ := ih
    exact ⟨_ :: ks, .cons (.leaf ht) hks⟩
  | n hB _ ih =>
    obtain ⟨ks, hks⟩ := ih
    obtain ⟨pt, hpt⟩ := hch _ hB
    exact ⟨pt :: ks, .cons hpt hks⟩

theorem chart_sound_aux (g : Grammar) (toks : List Nat) :
    ∀ t ∈ chart g toks, ∃ pt, PT.ValidAt g toks pt (.n t.1) t.2.1 t.2.2 := by
  apply saturate_sound (chartStep g toks)
    (fun t => ∃ pt, PT.ValidAt g toks pt (.n t.1) t.2.1 t.2.2)
  · intro s hs t ht
    obtain ⟨rl, hrl, hl, _, hc⟩ := mem_chartStep.1 ht
    obtain ⟨kids, hk⟩ := hc.exists_valid hs
    obtain ⟨r, hr⟩ := List.getElem?_of_mem hrl
    exact ⟨.node r kids, .node hr hl hk⟩
  · simp

/-! ## the pruned enumerators -/

theorem foldl_congr_mem {α β : Type} {f g : β → α → β} {l : List α}
    (h : ∀ b, ∀ x ∈ l, f b x = g b x) (b : β) : l.foldl f b = l.foldl g b := by
  induction l generalizing b with
  | nil => rfl
  | cons x l ih =>
    simp only [List.foldl_cons]
    rw [h b x (by simp)]
    exact ih (fun b y hy => h b y (by simp [hy])) _

theorem flatMap_congr_mem {α β : Type} {f g : α → List β} {l : List α}
    (h : ∀ x ∈ l, f x = g x) : l.flatMap f = l.flatMap g := by
  induction l with
  | nil => rfl
  | cons x l ih =>
    simp only [List.flatMap_cons]
    rw [h x (by simp), ih (fun y hy => h y (by simp [hy]))]

theorem derivSeqP_eq_aux {g : Grammar} {toks : List Nat} {fuel : Nat}
    {symFP : Sym → Nat → Nat → List PT}
    (hP : ∀ X i j, j ≤ toks.length → symFP X i j = derivSym g toks fuel X i j) :
    ∀ (Xs : List Sym) (i j : Nat), j ≤ toks.length →
      derivSeqP toks (chart g toks) symFP Xs i j = derivSeq (derivSym g toks fuel) Xs i j := by
  intro Xs
  induction Xs with
  | nil => intro i j _; simp [derivSeqP, derivSeq]
  | cons X rest ih =>
    intro i j hj
    simp only [derivSeqP, derivSeq]
    apply flatMap_congr_mem
    intro d hd
    have hm : i + d ≤ toks.length := by have := List.mem_range.1 hd; omega
    rw [hP X i (i + d) hm, ih (i + d) j hj]
    by_cases hok : (symOk toks (chart g toks) X i (i + d) &&
        seqOk toks (chart g toks) rest (i + d) j) = true
    · rw [if_pos hok]
      split
      · rename_i he; simp [List.isEmpty_iff] at he; simp [he]
      · rfl
    · rw [if_neg hok]
      split
      · rfl
      · symm
        rw [List.eq_nil_iff_forall_not_mem]
        intro l hl
        simp only [List.mem_flatMap, List.mem_map] at hl
        obtain ⟨a, ha, b, hb, rfl⟩ := hl
        have va := ((derivSym_mem g toks fuel a X i (i + d)).1 ha).1
        have vb := ((mem_derivSeq (derivSym_mem g toks fuel) rest b (i + d) j).1 hb).1
        apply hok
        rw [Bool.and_eq_true]
        exact ⟨symOk_complete_aux va hm, seqOk_iff.2 (chain_complete_aux b vb hj)⟩

theorem derivSymP_eq_aux (g : Grammar) (toks : List Nat) (fuel : Nat) :
    ∀ (X : Sym) (i j : Nat), j ≤ toks.length →
      derivSymP g toks (chart g toks) fuel X i j = derivSym g toks fuel X i j := by
  induction fuel with
  | zero =>
    intro X i j _
    cases X <;> simp [derivSymP, derivSym]
  | succ fuel ih =>
    intro X i j hj
    cases X with
    | t a => simp [derivSymP, derivSym]
    | n A =>
      simp only [derivSymP]
      split
      · simp only [derivSym]
        apply flatMap_congr_mem
        intro r _
        cases e : g.rules[r]? with
        | none => rfl
        | some rl => simp only [derivSeqP_eq_aux ih _ i j hj]
      · rename_i hc
        symm
        rw [List.eq_nil_iff_forall_not_mem]
        intro pt hpt
        apply hc
        rw [List.contains_iff_mem]
        exact chart_complete_aux pt ((derivSym_mem g toks (fuel + 1) pt (.n A) i j).1 hpt).1 hj

theorem countSeqP_eq_aux {g : Grammar} {toks : List Nat} {cap fuel : Nat}
    {cntP : Sym → Nat → Nat → Nat}
    (hP : ∀ X i j, j ≤ toks.length → cntP X i j = countSym g toks cap fuel X i j) :
    ∀ (Xs : List Sym) (i j : Nat), j ≤ toks.length →
      countSeqP toks (chart g toks) cap cntP Xs i j =
        countSeq cap (countSym g toks cap fuel) Xs i j := by
  intro Xs
  induction Xs with
  | nil => intro i j _; simp [countSeqP, countSeq]
  | cons X rest ih =>
    intro i j hj
    simp only [countSeqP, countSeq]
    apply foldl_congr_mem
    intro acc d hd
    have hm : i + d ≤ toks.length := by have := List.mem_range.1 hd; omega
    rw [hP X i (i + d) hm, ih (i + d) j hj]
    split
    · rfl
    · rename_i hacc
      by_cases hok : (symOk toks (chart g toks) X i (i + d) &&
          seqOk toks (chart g toks) rest (i + d) j) = true
      · rw [if_pos hok]
        split
        · rename_i hz; rw [hz]; simp; omega
        · rfl
      · rw [if_neg hok]
        split
        · rfl
        · rename_i hz
          have hzero : countSeq cap (countSym g toks cap fuel) rest (i + d) j = 0 := by
            rw [countSeq_spec (countSym_spec_aux g toks cap fuel)]
            have : derivSeq (derivSym g toks fuel) rest (i + d) j = [] := by
              rw [List.eq_nil_iff_forall_not_mem]
              intro b hb
              have vb := ((mem_derivSeq (derivSym_mem g toks fuel) rest b (i + d) j).1 hb).1
              have hne : derivSym g toks fuel X i (i + d) ≠ [] := by
                intro he
                rw [countSym_spec_aux, he] at hz
                simp at hz
              obtain ⟨a, _, ha⟩ := List.exists_cons_of_ne_nil hne
              have va := ((derivSym_mem g toks fuel a X i (i + d)).1 (by rw [ha]; simp)).1
              apply hok
              rw [Bool.and_eq_true]
              exact ⟨symOk_complete_aux va hm, seqOk_iff.2 (chain_complete_aux b vb hj)⟩
            simp [this]
          rw [hzero]; simp; omega

theorem countSymP_eq_aux (g : Grammar) (toks : List Nat) (cap fuel : Nat) :
    ∀ (X : Sym) (i j : Nat), j ≤ toks.length →
      countSymP g toks (chart g toks) cap fuel X i j = countSym g toks cap fuel X i j := by
  induction fuel with
  | zero =>
    intro X i j _
    cases X <;> simp [countSymP, countSym]
  | succ fuel ih =>
    intro X i j hj
    cases X with
    | t a => simp [countSymP, countSym]
    | n A =>
      simp only [countSymP]
      split
      · simp only [countSym]
        apply foldl_congr_mem
        intro acc r _
        split
        · rfl
        · cases e : g.rules[r]? with
          | none => rfl
          | some rl => simp only [countSeqP_eq_aux ih _ i j hj]
      · rename_i hc
        rw [countSym_spec_aux]
        have : derivSym g toks (fuel + 1) (.n A) i j = [] := by
          rw [List.eq_nil_iff_forall_not_mem]
          intro pt hpt
          apply hc
          rw [List.contains_iff_mem]
          exact chart_complete_aux pt ((derivSym_mem g toks (fuel + 1) pt (.n A) i j).1 hpt).1 hj
        simp [this]

end Yaep
