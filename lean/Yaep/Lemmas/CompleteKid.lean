import Yaep.Lemmas.CompleteInv
import Yaep.Lemmas.CompleteOps
/-!
# Completeness of the all-parses forest: no slot points outside the tree memory
-/
namespace Yaep.CP
open Yaep Yaep.MP

/-- no slot of an abstract node holds a pointer outside the heap -/
def KidLt (h : Array MNode) : Prop := ∀ n i k, getKid h n i = some k → k < h.size

theorem ptrOK_lt {g : Grammar} {toks : List Nat} {ty : Nat → CellTy} {h : Array MNode} {m : Nat}
    {T : Tree → Prop} (hp : PtrOK g toks ty h m T) : m < h.size := by
  cases hp <;> assumption

theorem kidLt_of_good {g : Grammar} {ok : Nat → Nat → Nat → Bool} {toks : List Nat} {s : St} {G : Ghost}
    {hole : Option (Nat × Nat)} (hgood : AGood g ok toks s G hole) : KidLt s.heap := by
  intro n i k hk
  obtain ⟨nm, c, ks, hc, hki⟩ := getKid_some_iff.mp hk
  have hn : n < s.heap.size := by
    apply Classical.byContradiction
    intro hge
    rw [Array.getD_eq_getD_getElem?, Array.getElem?_eq_none (by omega)] at hc
    cases hc
  by_cases hroot : n = rootId
  · subst hroot
    obtain ⟨ks', k1, _, _, k4⟩ := hgood.root
    rw [k1] at hc; injection hc with _ _ e; subst e
    by_cases hi : i = 0
    · subst hi; exact ptrOK_lt (k4 k hki)
    · exfalso
      rename_i k2 _
      rw [Array.getD_eq_getD_getElem?, Array.getElem?_eq_none (by omega)] at hki
      cases hki
  · rcases hgood.cells n hn hroot ⟨nm, c, ks, hc⟩ with ⟨hf, _⟩ | ⟨sid, hsid, ha⟩
    · obtain ⟨rl, nm', ks', sp, _, _, f3, f4, _, _, _, f8, f9⟩ := hf
      rw [hc] at f3; injection f3 with _ _ e; subst e
      rcases Nat.lt_trichotomy i rl.transLen with hlt | heq | hgt
      · obtain ⟨m, hm, hcase⟩ := f8 i hlt
        rw [hki] at hm; injection hm with hm; subst hm
        rcases hcase with ⟨_, _, _, _, hp⟩ | ⟨_, hnil⟩
        · exact ptrOK_lt hp
        · rw [hnil]; exact Nat.lt_of_le_of_lt (Nat.zero_le _) hn
      · subst heq; rw [f9] at hki; cases hki
      · rw [Array.getD_eq_getD_getElem?, Array.getElem?_eq_none (by omega)] at hki
        cases hki
    · obtain ⟨rl, hst⟩ := hgood.states sid hsid
      have hcell := hst.cell
      rw [ha] at hcell
      obtain ⟨_, _, _, nm', ks', _, c5, _, c7⟩ := hcell
      rw [hc] at c5; injection c5 with _ _ e; subst e
      obtain ⟨_, _, _, _, _, hp⟩ := c7 i k hki
      exact ptrOK_lt hp

theorem KidLt.push {h : Array MNode} (hk : KidLt h) (cell : MNode)
    (hcell : ∀ nm c ks, cell = .anode nm c ks → ∀ i k, ks.getD i none = some k → k < h.size) :
    KidLt (h.push cell) := by
  intro n i k hki
  obtain ⟨nm, c, ks, hc, hks⟩ := getKid_some_iff.mp hki
  simp only [Array.size_push]
  by_cases hn : n < h.size
  · rw [getD_push_lt _ _ _ _ hn] at hc
    have := hk n i k (getKid_some_iff.mpr ⟨nm, c, ks, hc, hks⟩)
    omega
  · by_cases hn' : n = h.size
    · subst hn'
      rw [getD_push_eq] at hc
      have := hcell nm c ks hc i k hks
      omega
    · rw [Array.getD_eq_getD_getElem?, Array.getElem?_eq_none (by simp; omega)] at hc
      cases hc

theorem KidLt.place {h : Array MNode} (hk : KidLt h) {n i node : Nat} {nm : String} {c : Nat}
    {ks : Array (Option Nat)} (hc : h.getD n .nil = .anode nm c ks) (hn : n < h.size)
    (hi : i < ks.size) (hnode : node < h.size) : KidLt (placeTranslation h (n, i) node) := by
  obtain ⟨hm, _, _, p4, _, _, p7⟩ := hmono_place hc hn hi hnode hk
  obtain ⟨m', hp⟩ := place_res (i := i) hc hn hnode
  intro n' i' k hki
  obtain ⟨nm', c', ks', hc', hks'⟩ := getKid_some_iff.mp hki
  have hn'lt : n' < h.size := by
    apply Classical.byContradiction
    intro hge
    by_cases h2 : n' < (placeTranslation h (n, i) node).size
    · obtain ⟨a, b, e⟩ := p7 n' (by omega) h2
      rw [e] at hc'; cases hc'
    · rw [Array.getD_eq_getD_getElem?, Array.getElem?_eq_none (by omega)] at hc'
      cases hc'
  by_cases hsame : (n', i') = (n, i)
  · injection hsame with e1 e2; subst e1; subst e2
    obtain ⟨nm2, c2, ks2, q1, q2⟩ := hp.cell
    rw [q2] at hc'; injection hc' with _ _ e; subst e
    rw [hc] at q1; injection q1 with _ _ e; subst e
    rw [getD_set!, if_pos ⟨rfl, hi⟩] at hks'
    injection hks' with hks'; subst hks'
    exact hp.lt
  · rw [p4 n' i' hn'lt hsame] at hki
    have := hk n' i' k hki
    have := hm.size
    omega

end Yaep.CP
