import Yaep.Model.Recovery
import Yaep.Lemmas.Earley
import Yaep.Spec.WF
/-!
# Invariants of the error-recovery search (`Yaep/Model/Recovery.lean`)

Helper definitions and lemmas for `Yaep/Props/C06.lean` and `Yaep/Props/C07.lean`.
-/
namespace Yaep

/-! ## counting sets -/

/-- the input token indices of the sets of a list, in list order -/
def toks (l : List PSet) : List Nat := l.filterMap (·.tok)

/-- number of sets shifted on an input token -/
def cnt (l : List PSet) : Nat := (toks l).length

/-- number of sets without an input token (`error` sets, and set 0) -/
def errc (l : List PSet) : Nat := (l.filter fun s => s.tok.isNone).length

/-- number of sets that are not `error` sets in the sense of the model (`PSet.isErr`) -/
def nonErr (g : Grammar) (l : List PSet) : Nat := (l.filter fun s => !s.isErr g).length

@[simp] theorem toks_nil : toks [] = [] := rfl
theorem toks_append (l1 l2 : List PSet) : toks (l1 ++ l2) = toks l1 ++ toks l2 := by
  unfold toks; rw [List.filterMap_append]
theorem toks_cons_none {s : PSet} (l : List PSet) (h : s.tok = none) : toks (s :: l) = toks l := by
  unfold toks; rw [List.filterMap_cons, h]
theorem toks_cons_some {s : PSet} {k : Nat} (l : List PSet) (h : s.tok = some k) :
    toks (s :: l) = k :: toks l := by
  unfold toks; rw [List.filterMap_cons, h]

@[simp] theorem cnt_nil : cnt [] = 0 := rfl
theorem cnt_append (l1 l2 : List PSet) : cnt (l1 ++ l2) = cnt l1 + cnt l2 := by
  unfold cnt; rw [toks_append, List.length_append]
theorem cnt_cons_none {s : PSet} (l : List PSet) (h : s.tok = none) : cnt (s :: l) = cnt l := by
  unfold cnt; rw [toks_cons_none l h]
theorem cnt_cons_some {s : PSet} {k : Nat} (l : List PSet) (h : s.tok = some k) :
    cnt (s :: l) = cnt l + 1 := by
  unfold cnt; rw [toks_cons_some l h, List.length_cons]
theorem cnt_singleton_some {s : PSet} {k : Nat} (h : s.tok = some k) : cnt [s] = 1 := by
  rw [cnt_cons_some [] h]; rfl
theorem cnt_singleton_none {s : PSet} (h : s.tok = none) : cnt [s] = 0 := by
  rw [cnt_cons_none [] h]; rfl

@[simp] theorem errc_nil : errc [] = 0 := rfl
theorem errc_append (l1 l2 : List PSet) : errc (l1 ++ l2) = errc l1 + errc l2 := by
  unfold errc; rw [List.filter_append, List.length_append]
theorem errc_cons_none {s : PSet} (l : List PSet) (h : s.tok = none) :
    errc (s :: l) = errc l + 1 := by
  unfold errc; rw [List.filter_cons_of_pos (by simp [h]), List.length_cons]
theorem errc_cons_some {s : PSet} {k : Nat} (l : List PSet) (h : s.tok = some k) :
    errc (s :: l) = errc l := by
  unfold errc; rw [List.filter_cons_of_neg (by simp [h])]
theorem errc_singleton_some {s : PSet} {k : Nat} (h : s.tok = some k) : errc [s] = 0 := by
  rw [errc_cons_some [] h]; rfl
theorem errc_singleton_none {s : PSet} (h : s.tok = none) : errc [s] = 1 := by
  rw [errc_cons_none [] h]; rfl

theorem length_eq_errc_add_cnt (l : List PSet) : l.length = errc l + cnt l := by
  induction l with
  | nil => rfl
  | cons s l ih =>
    cases h : s.tok with
    | none => rw [errc_cons_none l h, cnt_cons_none l h, List.length_cons, ih]; omega
    | some k => rw [errc_cons_some l h, cnt_cons_some l h, List.length_cons, ih]; omega

theorem errc_take_le (l : List PSet) (k : Nat) : errc (l.take k) ≤ errc l := by
  conv => rhs; rw [← List.take_append_drop k l, errc_append]
  omega

theorem cnt_drop_le (l : List PSet) (k : Nat) : cnt (l.drop k) ≤ cnt l := by
  conv => rhs; rw [← List.take_append_drop k l, cnt_append]
  omega

@[simp] theorem nonErr_nil (g : Grammar) : nonErr g [] = 0 := rfl
theorem nonErr_append (g : Grammar) (l1 l2 : List PSet) :
    nonErr g (l1 ++ l2) = nonErr g l1 + nonErr g l2 := by
  unfold nonErr; rw [List.filter_append, List.length_append]
theorem nonErr_cons (g : Grammar) (s : PSet) (l : List PSet) :
    nonErr g (s :: l) = (if s.isErr g then 0 else 1) + nonErr g l := by
  unfold nonErr
  cases h : s.isErr g with
  | true => rw [List.filter_cons_of_neg (by simp [h])]; simp
  | false => rw [List.filter_cons_of_pos (by simp [h]), List.length_cons]; simp; omega

/-! ## well-formed sets and segments -/

/-- an `error` set, or a set shifted on input token `k` whose terminal is `full[k]` -/
def PSet.Ok (g : Grammar) (full : List Nat) (s : PSet) : Prop :=
  (s.tok = none ∧ s.term = some g.errT) ∨
  ∃ k t, s.tok = some k ∧ s.term = some t ∧ full[k]? = some t

theorem PSet.isErr_of_tok_none {g : Grammar} {full : List Nat} {s : PSet} (h : s.Ok g full)
    (ht : s.tok = none) : s.isErr g = true := by
  rcases h with ⟨_, h2⟩ | ⟨k, t, h1, _, _⟩
  · simp [PSet.isErr, h2]
  · rw [ht] at h1; cases h1

theorem nonErr_le_cnt {g : Grammar} {full : List Nat} {l : List PSet}
    (h : ∀ s ∈ l, s.Ok g full) : nonErr g l ≤ cnt l := by
  induction l with
  | nil => simp
  | cons s l ih =>
    have ih' := ih (fun x hx => h x (List.mem_cons_of_mem _ hx))
    rw [nonErr_cons]
    cases ht : s.tok with
    | none =>
      rw [cnt_cons_none l ht, PSet.isErr_of_tok_none (h s List.mem_cons_self) ht]
      simpa using ih'
    | some k =>
      rw [cnt_cons_some l ht]
      split <;> omega

/-- if no input token is `error`, the two ways of counting agree -/
theorem nonErr_eq_cnt {g : Grammar} {full : List Nat} (hno : g.errT ∉ full) {l : List PSet}
    (h : ∀ s ∈ l, s.Ok g full) : nonErr g l = cnt l := by
  induction l with
  | nil => simp
  | cons s l ih =>
    have ih' := ih (fun x hx => h x (List.mem_cons_of_mem _ hx))
    rw [nonErr_cons]
    rcases h s List.mem_cons_self with ⟨h1, h2⟩ | ⟨k, t, h1, h2, h3⟩
    · rw [cnt_cons_none l h1]
      have : s.isErr g = true := by simp [PSet.isErr, h2]
      rw [this]; simpa using ih'
    · rw [cnt_cons_some l h1]
      have hne : t ≠ g.errT := fun he => hno (he ▸ List.mem_of_getElem? h3)
      have : s.isErr g = false := by simp [PSet.isErr, h2, hne]
      rw [this]; simp; omega

theorem pairwise_lt_length {l : List Nat} {lo hi : Nat} (hp : l.Pairwise (· < ·))
    (hb : ∀ x ∈ l, lo ≤ x ∧ x < hi) : l.length ≤ hi - lo := by
  induction l generalizing lo with
  | nil => simp
  | cons a l ih =>
    rw [List.pairwise_cons] at hp
    have ha := hb a List.mem_cons_self
    have := ih (lo := a + 1) hp.2
      (fun x hx => ⟨hp.1 x hx, (hb x (List.mem_cons_of_mem _ hx)).2⟩)
    rw [List.length_cons]; omega

/-- a segment of a parse list: all sets well formed, token indices strictly increasing and
inside `[lo, hi)` -/
structure SegOk (g : Grammar) (full : List Nat) (l : List PSet) (lo hi : Nat) : Prop where
  sets : ∀ s ∈ l, s.Ok g full
  sorted : (toks l).Pairwise (· < ·)
  bounds : ∀ k ∈ toks l, lo ≤ k ∧ k < hi

theorem SegOk.nil (g : Grammar) (full : List Nat) (lo hi : Nat) : SegOk g full [] lo hi :=
  ⟨fun _ h => absurd h (List.not_mem_nil), List.Pairwise.nil, fun _ h => absurd h (List.not_mem_nil)⟩

theorem SegOk.mono {g : Grammar} {full : List Nat} {l : List PSet} {lo hi lo' hi' : Nat}
    (h : SegOk g full l lo hi) (h1 : lo' ≤ lo) (h2 : hi ≤ hi') : SegOk g full l lo' hi' :=
  ⟨h.sets, h.sorted, fun k hk => ⟨Nat.le_trans h1 (h.bounds k hk).1,
    Nat.lt_of_lt_of_le (h.bounds k hk).2 h2⟩⟩

theorem SegOk.append {g : Grammar} {full : List Nat} {l1 l2 : List PSet} {lo mid hi : Nat}
    (h1 : SegOk g full l1 lo mid) (h2 : SegOk g full l2 mid hi) (hlm : lo ≤ mid) (hmh : mid ≤ hi) :
    SegOk g full (l1 ++ l2) lo hi := by
  refine ⟨?_, ?_, ?_⟩
  · intro s hs
    rcases List.mem_append.mp hs with h | h
    · exact h1.sets s h
    · exact h2.sets s h
  · rw [toks_append, List.pairwise_append]
    exact ⟨h1.sorted, h2.sorted, fun a ha b hb =>
      Nat.lt_of_lt_of_le (h1.bounds a ha).2 (h2.bounds b hb).1⟩
  · intro k hk
    rw [toks_append] at hk
    rcases List.mem_append.mp hk with h | h
    · exact ⟨(h1.bounds k h).1, Nat.lt_of_lt_of_le (h1.bounds k h).2 hmh⟩
    · exact ⟨Nat.le_trans hlm (h2.bounds k h).1, (h2.bounds k h).2⟩

theorem SegOk.left {g : Grammar} {full : List Nat} {l1 l2 : List PSet} {lo hi : Nat}
    (h : SegOk g full (l1 ++ l2) lo hi) : SegOk g full l1 lo hi := by
  refine ⟨fun s hs => h.sets s (List.mem_append_left _ hs), ?_, ?_⟩
  · have := h.sorted; rw [toks_append, List.pairwise_append] at this; exact this.1
  · intro k hk; exact h.bounds k (by rw [toks_append]; exact List.mem_append_left _ hk)

theorem SegOk.right {g : Grammar} {full : List Nat} {l1 l2 : List PSet} {lo hi : Nat}
    (h : SegOk g full (l1 ++ l2) lo hi) : SegOk g full l2 lo hi := by
  refine ⟨fun s hs => h.sets s (List.mem_append_right _ hs), ?_, ?_⟩
  · have := h.sorted; rw [toks_append, List.pairwise_append] at this; exact this.2.1
  · intro k hk; exact h.bounds k (by rw [toks_append]; exact List.mem_append_right _ hk)

theorem SegOk.take {g : Grammar} {full : List Nat} {l : List PSet} {lo hi : Nat}
    (h : SegOk g full l lo hi) (k : Nat) : SegOk g full (l.take k) lo hi := by
  rw [← List.take_append_drop k l] at h; exact h.left

theorem SegOk.drop {g : Grammar} {full : List Nat} {l : List PSet} {lo hi : Nat}
    (h : SegOk g full l lo hi) (k : Nat) : SegOk g full (l.drop k) lo hi := by
  rw [← List.take_append_drop k l] at h; exact h.right

theorem SegOk.cnt_le {g : Grammar} {full : List Nat} {l : List PSet} {lo hi : Nat}
    (h : SegOk g full l lo hi) : cnt l ≤ hi - lo :=
  pairwise_lt_length h.sorted h.bounds

theorem SegOk.single_err {g : Grammar} {full : List Nat} {s : PSet} (lo hi : Nat)
    (h1 : s.tok = none) (h2 : s.term = some g.errT) : SegOk g full [s] lo hi := by
  refine ⟨?_, ?_, ?_⟩
  · intro x hx; rw [List.mem_singleton] at hx; subst hx; exact Or.inl ⟨h1, h2⟩
  · rw [toks_cons_none [] h1]; simp
  · intro k hk; rw [toks_cons_none [] h1] at hk; cases hk

theorem SegOk.single_tok {g : Grammar} {full : List Nat} {s : PSet} {k t : Nat}
    (h1 : s.tok = some k) (h2 : s.term = some t) (h3 : full[k]? = some t) :
    SegOk g full [s] k (k + 1) := by
  refine ⟨?_, ?_, ?_⟩
  · intro x hx; rw [List.mem_singleton] at hx; subst hx; exact Or.inr ⟨k, t, h1, h2, h3⟩
  · rw [toks_cons_some [] h1]; simp
  · intro j hj
    rw [toks_cons_some [] h1] at hj
    simp only [toks_nil, List.mem_singleton] at hj
    subst hj; exact ⟨Nat.le_refl _, Nat.lt_succ_self _⟩

/-! ## `findError` and `skipLoop` -/

theorem drop_eq_getD_cons {l : List PSet} {k : Nat} (h : k < l.length) :
    l.drop k = l.getD k default :: l.drop (k + 1) := by
  rw [List.drop_eq_getElem_cons h, List.getD_eq_getElem?_getD, List.getElem?_eq_getElem h,
    Option.getD_some]

/-- `findError` goes back to some `b ≤ k`; the cost it adds is the number of non-`error`
sets in `(b, k]` -/
theorem findError_spec (g : Grammar) (pl : List PSet) :
    ∀ (k c : Nat), k < pl.length →
      (findError g pl k c).1 ≤ k ∧
      (findError g pl k c).2 + nonErr g (pl.drop (k + 1)) =
        c + nonErr g (pl.drop ((findError g pl k c).1 + 1)) := by
  intro k
  induction k with
  | zero => intro c _; unfold findError; exact ⟨Nat.le_refl _, rfl⟩
  | succ k ih =>
    intro c hk
    unfold findError
    simp only
    split
    · exact ⟨Nat.le_refl _, rfl⟩
    · obtain ⟨h1, h2⟩ := ih (if (pl.getD (k + 1) default).isErr g then c else c + 1) (by omega)
      refine ⟨Nat.le_succ_of_le h1, ?_⟩
      rw [drop_eq_getD_cons hk, nonErr_cons] at h2
      split at h2 <;> simp_all <;> omega

theorem findError_congr (g : Grammar) (pl1 pl2 : List PSet) :
    ∀ (k c : Nat), (∀ i, i ≤ k → pl1.getD i default = pl2.getD i default) →
      findError g pl1 k c = findError g pl2 k c := by
  intro k
  induction k with
  | zero => intro c _; unfold findError; rfl
  | succ k ih =>
    intro c h
    unfold findError
    simp only
    rw [h (k + 1) (Nat.le_refl _)]
    split
    · rfl
    · exact ih _ (fun i hi => h i (Nat.le_succ_of_le hi))

theorem getD_take_append {orig tail : List PSet} {last i : Nat} (hl : last < orig.length)
    (hi : i ≤ last) :
    (orig.take (last + 1) ++ tail).getD i default = orig.getD i default := by
  rw [List.getD_eq_getElem?_getD, List.getD_eq_getElem?_getD,
    List.getElem?_append_left (by rw [List.length_take]; omega),
    List.getElem?_take_of_lt (by omega)]

theorem drop_append_of_length {α} {P T : List α} {k : Nat} (h : P.length = k) :
    (P ++ T).drop k = T := by
  subst h; simp

/-- the tokens skipped are charged one each -/
theorem skipLoop_spec (g : Grammar) (cur : List Item) (full : List Nat) (best : Nat) :
    ∀ (fuel ctok cost : Nat),
      ctok ≤ (skipLoop g cur full best fuel ctok cost).1 ∧
      (skipLoop g cur full best fuel ctok cost).2 + ctok =
        cost + (skipLoop g cur full best fuel ctok cost).1 := by
  intro fuel
  induction fuel with
  | zero => intro ctok cost; unfold skipLoop; exact ⟨Nat.le_refl _, rfl⟩
  | succ fuel ih =>
    intro ctok cost
    unfold skipLoop
    split
    · exact ⟨Nat.le_refl _, rfl⟩
    · split
      · exact ⟨Nat.le_refl _, rfl⟩
      · split
        · exact ⟨Nat.le_succ _, by simp only; omega⟩
        · obtain ⟨h1, h2⟩ := ih (ctok + 1) (cost + 1)
          exact ⟨by omega, by omega⟩

/-! ## valid runs of the Earley construction -/

/-- how a set of a parse list is computed from the list `pre` of the sets before it: an
`error` set is the (unfiltered) goto on `error`; a set shifted on token `k` is the goto on
`full[k]` with lookahead `full[k+1]`, and that token had a transition -/
def SetRun (g : Grammar) (an : Analysis) (la : Nat) (full : List Nat) (pre : List PSet) (s : PSet) :
    Prop :=
  (s.tok = none ∧ s.items = nextSet g (fun _ _ => true) (psItems pre) g.errT) ∨
  (∃ k, s.tok = some k ∧ hasTrans g (pre.getLastD default).items (full.getD k 0) = true ∧
    s.items = nextSet g (okItem g an la full[k + 1]?) (psItems pre) (full.getD k 0))

/-- the list is a run of the Earley construction: set 0 is `set0`, every other set is
computed from its predecessors -/
inductive RunOk (g : Grammar) (an : Analysis) (la : Nat) (full : List Nat) : List PSet → Prop where
  | init (s0 : PSet) : s0.items = set0 g → RunOk g an la full [s0]
  | snoc {pl : List PSet} {s : PSet} : RunOk g an la full pl → SetRun g an la full pl s →
      RunOk g an la full (pl ++ [s])

theorem RunOk.take {g : Grammar} {an : Analysis} {la : Nat} {full : List Nat} {pl : List PSet}
    (h : RunOk g an la full pl) (k : Nat) : RunOk g an la full (pl.take (k + 1)) := by
  induction h with
  | init s0 h0 =>
    have : [s0].take (k + 1) = [s0] := by simp
    rw [this]; exact RunOk.init s0 h0
  | @snoc pl s hpl hs ih =>
    rcases Nat.lt_or_ge k pl.length with hlt | hge
    · rw [List.take_append_of_le_length (by omega)]; exact ih
    · rw [List.take_of_length_le (by rw [List.length_append, List.length_singleton]; omega)]
      exact RunOk.snoc hpl hs

theorem skipLoop_stop (g : Grammar) (cur : List Item) (full : List Nat) (best : Nat) :
    ∀ (fuel ctok cost : Nat), full.length + 1 ≤ fuel + ctok →
      (skipLoop g cur full best fuel ctok cost).2 ≥ best ∨
      (skipLoop g cur full best fuel ctok cost).1 ≥ full.length ∨
      hasTrans g cur (full.getD (skipLoop g cur full best fuel ctok cost).1 0) = true := by
  intro fuel
  induction fuel with
  | zero => intro ctok cost h; unfold skipLoop; right; left; simp only; omega
  | succ fuel ih =>
    intro ctok cost h
    unfold skipLoop
    split
    · rename_i hn; right; left; exact List.getElem?_eq_none_iff.mp hn
    · rename_i t ht
      split
      · rename_i hT; right; right
        simp only
        rw [List.getD_eq_getElem?_getD, ht]; exact hT
      · split
        · rename_i hb; left; exact hb
        · exact ih _ _ (by omega)

/-! ## the invariants -/

/-- a parse list as the `build_pl` loop holds it when it is about to look at token `tok`:
set 0 followed by well-formed sets with increasing token indices below `tok`; at most `tok`
`error` sets -/
def PLOk (g : Grammar) (full : List Nat) (pl : List PSet) (tok : Nat) : Prop :=
  ∃ s0 rest, pl = s0 :: rest ∧ s0.term = none ∧ s0.tok = none ∧ SegOk g full rest 0 tok ∧
    errc rest ≤ tok

/-- the cost of going back to set `last`: the number of non-`error` sets after it -/
def backCost (g : Grammar) (orig : List PSet) (last : Nat) : Nat := nonErr g (orig.drop (last + 1))

/-- the context of one call of `error_recovery` -/
structure RCtx (g : Grammar) (an : Analysis) (la : Nat) (full : List Nat) (orig : List PSet) (startTok startPl : Nat) :
    Prop where
  len : orig.length = startPl + 1
  tokLt : startTok < full.length
  ok : PLOk g full orig startTok
  run : RunOk g an la full orig

/-- a recovery state -/
structure StateInv (g : Grammar) (an : Analysis) (la : Nat) (full : List Nat) (orig : List PSet) (startTok startPl : Nat)
    (s : RState) : Prop where
  last_le : s.last ≤ startPl
  seg : SegOk g full s.tail startTok s.stok
  stok_ge : startTok ≤ s.stok
  stok_lt : s.stok < full.length
  acct : s.back + cnt s.tail = backCost g orig s.last + (s.stok - startTok)
  errs : errc s.tail ≤ cnt s.tail
  run : RunOk g an la full (orig.take (s.last + 1) ++ s.tail)

/-- what the matching loop (and hence a candidate recovery) has built after the kept prefix
`P`: own sets `T`, last shifted token `ls` -/
structure TailInv (g : Grammar) (an : Analysis) (la : Nat) (full : List Nat) (orig : List PSet) (startTok : Nat)
    (last cost : Nat) (T : List PSet) (ls : Nat) : Prop where
  seg : SegOk g full T startTok (ls + 1)
  ls_ge : startTok ≤ ls
  ls_lt : ls < full.length
  acct : cost + cnt T = backCost g orig last + (ls + 1 - startTok)
  errs : errc T ≤ cnt T
  pos : 1 ≤ cnt T
  run : RunOk g an la full (orig.take (last + 1) ++ T)
  lastTok : ∃ s, T.getLast? = some s ∧ s.tok = some ls

def MatchOut (g : Grammar) (an : Analysis) (la : Nat) (full : List Nat) (orig : List PSet) (startTok startPl : Nat)
    (rmatch : Nat) (last cost : Nat) (mr : MatchRes) : Prop :=
  ∃ T ls, mr.cpl = orig.take (last + 1) ++ T ∧ TailInv g an la full orig startTok last cost T ls ∧
    (mr.ctok = ls ∨ (mr.ctok = ls + 1 ∧ (mr.ctok = full.length ∨ mr.nm < rmatch))) ∧
    ∀ s ∈ mr.pushes, StateInv g an la full orig startTok startPl s ∧ s.last = last

theorem gotoSet_tok (g : Grammar) (an : Analysis) (la : Nat) (pl : List PSet) (a : Nat)
    (tok : Option Nat) (nxt : Option Nat) : (gotoSet g an la pl a tok nxt).tok = tok := rfl
theorem gotoSet_term (g : Grammar) (an : Analysis) (la : Nat) (pl : List PSet) (a : Nat)
    (tok : Option Nat) (nxt : Option Nat) : (gotoSet g an la pl a tok nxt).term = some a := rfl

theorem getD_eq_some {full : List Nat} {k : Nat} (h : k < full.length) :
    full[k]? = some (full.getD k 0) := by
  rw [List.getD_eq_getElem?_getD, List.getElem?_eq_getElem h, Option.getD_some]

theorem gotoSet_items (g : Grammar) (an : Analysis) (la : Nat) (pl : List PSet) (a : Nat)
    (tok : Option Nat) (nxt : Option Nat) :
    (gotoSet g an la pl a tok nxt).items = nextSet g (okItem g an la nxt) (psItems pl) a := rfl

/-- appending the set shifted on token `ls + 1` -/
theorem TailInv.snoc {g : Grammar} {an : Analysis} {la : Nat} {full : List Nat} {orig : List PSet}
    {startTok last cost : Nat} {T : List PSet} {ls : Nat}
    (h : TailInv g an la full orig startTok last cost T ls) (hlt : ls + 1 < full.length)
    (hTr : hasTrans g ((orig.take (last + 1) ++ T).getLastD default).items
      (full.getD (ls + 1) 0) = true) :
    TailInv g an la full orig startTok last cost
      (T ++ [gotoSet g an la (orig.take (last + 1) ++ T) (full.getD (ls + 1) 0) (some (ls + 1))
        full[ls + 1 + 1]?]) (ls + 1) := by
  refine ⟨?_, Nat.le_succ_of_le h.ls_ge, hlt, ?_, ?_, ?_, ?_, ⟨_, List.getLast?_concat, rfl⟩⟩
  · exact h.seg.append ((SegOk.single_tok (gotoSet_tok ..) (gotoSet_term ..) (getD_eq_some hlt)))
      (by have := h.ls_ge; omega) (Nat.le_succ _)
  · rw [cnt_append, cnt_singleton_some (gotoSet_tok ..)]; have := h.acct; have := h.ls_ge; omega
  · rw [cnt_append, errc_append, cnt_singleton_some (gotoSet_tok ..),
      errc_singleton_some (gotoSet_tok ..)]
    have := h.errs; omega
  · rw [cnt_append]; have := h.pos; omega
  · rw [← List.append_assoc]
    exact RunOk.snoc h.run (Or.inr ⟨ls + 1, rfl, hTr, rfl⟩)

theorem matchLoop_spec {g : Grammar} {an : Analysis} {la rmatch : Nat} {full : List Nat}
    {orig : List PSet} {startTok startPl : Nat} (last cost : Nat)
    (hP : (orig.take (last + 1)).length = last + 1) (hlast : last ≤ startPl) :
    ∀ (fuel : Nat) (T : List PSet) (ctok nm : Nat) (ps : List RState),
      TailInv g an la full orig startTok last cost T ctok →
      (∀ s ∈ ps, StateInv g an la full orig startTok startPl s ∧ s.last = last) →
      MatchOut g an la full orig startTok startPl rmatch last cost
        (matchLoop g an la rmatch full last cost fuel (orig.take (last + 1) ++ T) ctok nm ps) := by
  intro fuel
  induction fuel with
  | zero =>
    intro T ctok nm ps hT hps
    unfold matchLoop
    exact ⟨T, ctok, rfl, hT, Or.inl rfl, hps⟩
  | succ fuel ih =>
    intro T ctok nm ps hT hps
    unfold matchLoop
    simp only
    split
    · exact ⟨T, ctok, rfl, hT, Or.inl rfl, hps⟩
    · rename_i hnm
      split
      · rename_i hge
        refine ⟨T, ctok, rfl, hT, Or.inr ⟨rfl, Or.inl ?_⟩, hps⟩
        have := hT.ls_lt
        simp only at hge ⊢
        omega
      · rename_i hlt
        have hlt' : ctok + 1 < full.length := by omega
        have hps' : ∀ s ∈ (if hasTrans g ((orig.take (last + 1) ++ T).getLastD default).items
              g.errT = true then
            ps ++ [⟨last, (orig.take (last + 1) ++ T).drop (last + 1), ctok + 1, cost⟩] else ps),
            StateInv g an la full orig startTok startPl s ∧ s.last = last := by
          intro s hs
          split at hs
          · rcases List.mem_append.mp hs with h | h
            · exact hps s h
            · rw [List.mem_singleton] at h
              subst h
              rw [drop_append_of_length hP]
              exact ⟨⟨hlast, hT.seg, Nat.le_succ_of_le hT.ls_ge, hlt', hT.acct, hT.errs, hT.run⟩,
                rfl⟩
          · exact hps s hs
        split
        · refine ⟨T, ctok, rfl, hT, Or.inr ⟨rfl, Or.inr ?_⟩, hps'⟩
          simp only; omega
        · rename_i hTr
          rw [List.append_assoc]
          exact ih _ _ _ _ (hT.snoc hlt' (by simpa using hTr)) hps'

/-! ## one iteration of the search loop, cut into pieces -/

/-- advancing the back frontier: new stack bottom part, new frontier, new frontier cost -/
def backStep (g : Grammar) (cpl : List PSet) (startTok : Nat) (st : SearchSt) (rest : List RState) :
    List RState × Nat × Nat :=
  if st.bf > 0 then
    if st.bestCost ≥ st.btf + (if (cpl.getD st.bf default).isErr g then (findError g cpl (st.bf - 1) 0).2
        else (findError g cpl (st.bf - 1) 0).2 + 1) then
      ((⟨(findError g cpl (st.bf - 1) 0).1, [], startTok,
          st.btf + (if (cpl.getD st.bf default).isErr g then (findError g cpl (st.bf - 1) 0).2
        else (findError g cpl (st.bf - 1) 0).2 + 1)⟩ : RState) :: rest,
        (findError g cpl (st.bf - 1) 0).1,
        st.btf + (if (cpl.getD st.bf default).isErr g then (findError g cpl (st.bf - 1) 0).2
        else (findError g cpl (st.bf - 1) 0).2 + 1))
    else (rest, st.bf, st.btf)
  else (rest, st.bf, st.btf)

/-- the search state after both frontiers have been advanced -/
def frontierSt (g : Grammar) (full : List Nat) (orig : List PSet) (startTok : Nat) (st : SearchSt)
    (top : RState) (rest : List RState) : SearchSt :=
  { st with
    stack :=
      if st.bestCost ≥ top.back + 1 ∧ top.stok + 1 < full.length then
        (⟨top.last, top.tail, top.stok + 1, top.back + 1⟩ : RState) ::
          (backStep g (orig.take (top.last + 1) ++ top.tail) startTok st rest).1
      else (backStep g (orig.take (top.last + 1) ++ top.tail) startTok st rest).1,
    bf := (backStep g (orig.take (top.last + 1) ++ top.tail) startTok st rest).2.1,
    btf := (backStep g (orig.take (top.last + 1) ++ top.tail) startTok st rest).2.2,
    steps := st.steps + 1 }

def errSetOf (g : Grammar) (cpl : List PSet) : PSet :=
  { term := some g.errT, tok := none, items := nextSet g (fun _ _ => true) (psItems cpl) g.errT }

/-- the state after the secondary states have been pushed -/
def pushSt (st1 : SearchSt) (mr : MatchRes) : SearchSt :=
  { st1 with stack := mr.pushes.reverse ++ st1.stack }

/-- the state after a better recovery has been recorded -/
def bestSt (g : Grammar) (full : List Nat) (orig : List PSet) (startTok startPl : Nat)
    (st1 : SearchSt) (top : RState) (cost : Nat) (mr : MatchRes) : SearchSt :=
  { pushSt st1 mr with
    bestCost := cost,
    best := some ⟨top.last, mr.cpl.drop (top.last + 1),
      if mr.ctok = full.length then mr.ctok - 1 else mr.ctok,
      startTok - (((orig.drop (top.last + 1)).take (startPl - top.last)).filter
        (fun s => !s.isErr g)).length,
      startTok - (((orig.drop (top.last + 1)).take (startPl - top.last)).filter
        (fun s => !s.isErr g)).length + cost⟩ }

/-- one iteration of `searchLoop`, with the continuation `k` in place of the recursive call -/
def searchStepK {α : Type} (k : SearchSt → α) (g : Grammar) (an : Analysis) (la rmatch : Nat)
    (full : List Nat) (orig : List PSet) (startTok startPl : Nat) (st : SearchSt) (top : RState)
    (rest : List RState) : α :=
  let cpl := orig.take (top.last + 1) ++ top.tail
  let st1 := frontierSt g full orig startTok st top rest
  let sk := skipLoop g (errSetOf g cpl).items full st1.bestCost (full.length + 1) top.stok top.back
  if sk.2 ≥ st1.bestCost then k st1
  else if sk.1 ≥ full.length then k st1
  else
    let mr := matchLoop g an la rmatch full top.last sk.2 (full.length + 1)
      (cpl ++ [errSetOf g cpl] ++
        [gotoSet g an la (cpl ++ [errSetOf g cpl]) (full.getD sk.1 0) (some sk.1) full[sk.1 + 1]?])
      sk.1 0 []
    if mr.nm ≥ rmatch ∨ mr.ctok ≥ full.length then
      if (pushSt st1 mr).bestCost > sk.2 then
        k (bestSt g full orig startTok startPl st1 top sk.2 mr)
      else k (pushSt st1 mr)
    else k (pushSt st1 mr)

theorem searchLoop_nil (g : Grammar) (an : Analysis) (la rmatch : Nat) (full : List Nat)
    (orig : List PSet) (startTok startPl fuel : Nat) (st : SearchSt) (hst : st.stack = []) :
    searchLoop g an la rmatch full orig startTok startPl (fuel + 1) st = st := by
  rw [searchLoop]; simp only [hst]

theorem searchLoop_cons (g : Grammar) (an : Analysis) (la rmatch : Nat) (full : List Nat)
    (orig : List PSet) (startTok startPl fuel : Nat) (st : SearchSt) (top : RState)
    (rest : List RState) (hst : st.stack = top :: rest) :
    searchLoop g an la rmatch full orig startTok startPl (fuel + 1) st =
      searchStepK (searchLoop g an la rmatch full orig startTok startPl fuel)
        g an la rmatch full orig startTok startPl st top rest := by
  obtain ⟨stack, bf, btf, bc, best, steps⟩ := st
  simp only at hst
  subst hst
  rfl

/-! ## the search invariant -/

/-- the best recovery found so far -/
structure BestInv (g : Grammar) (an : Analysis) (la : Nat) (full : List Nat) (orig : List PSet) (startTok startPl : Nat)
    (b : Best) : Prop where
  last_le : b.last ≤ startPl
  rstart_eq : b.rstart = startTok - backCost g orig b.last
  tail : ∃ cost, b.rstop = b.rstart + cost ∧ TailInv g an la full orig startTok b.last cost b.tail b.tok

structure SearchInv (g : Grammar) (an : Analysis) (la : Nat) (full : List Nat) (orig : List PSet) (startTok startPl : Nat)
    (st : SearchSt) : Prop where
  states : ∀ s ∈ st.stack, StateInv g an la full orig startTok startPl s ∧ st.bf ≤ s.last
  bf_le : st.bf ≤ startPl
  btf_eq : st.btf = backCost g orig st.bf
  best : ∀ b, st.best = some b → BestInv g an la full orig startTok startPl b

section Search
variable {g : Grammar} {an : Analysis} {la rmatch : Nat} {full : List Nat} {orig : List PSet}
  {startTok startPl : Nat}

theorem RCtx.take_length (ctx : RCtx g an la full orig startTok startPl) {last : Nat}
    (hl : last ≤ startPl) : (orig.take (last + 1)).length = last + 1 := by
  rw [List.length_take, ctx.len]; omega

theorem RCtx.backCost_le (ctx : RCtx g an la full orig startTok startPl) (last : Nat) :
    backCost g orig last ≤ startTok := by
  obtain ⟨s0, rest, rfl, _, _, hseg, _⟩ := ctx.ok
  unfold backCost
  rw [List.drop_succ_cons]
  have h1 := nonErr_le_cnt (hseg.drop last).sets
  have h2 := cnt_drop_le rest last
  have h3 := hseg.cnt_le
  omega

theorem RCtx.kept_eq (ctx : RCtx g an la full orig startTok startPl) {last : Nat} (hl : last ≤ startPl) :
    (((orig.drop (last + 1)).take (startPl - last)).filter (fun s => !s.isErr g)).length =
      backCost g orig last := by
  unfold backCost nonErr
  rw [List.take_of_length_le (by rw [List.length_drop, ctx.len]; omega)]

theorem backStep_cases (g : Grammar) (cpl : List PSet) (startTok : Nat) (st : SearchSt)
    (rest : List RState) :
    backStep g cpl startTok st rest = (rest, st.bf, st.btf) ∨
    (0 < st.bf ∧ backStep g cpl startTok st rest =
      ((⟨(findError g cpl (st.bf - 1) 0).1, [], startTok,
          st.btf + ((findError g cpl (st.bf - 1) 0).2 +
            (if (cpl.getD st.bf default).isErr g then 0 else 1))⟩ : RState) :: rest,
        (findError g cpl (st.bf - 1) 0).1,
        st.btf + ((findError g cpl (st.bf - 1) 0).2 +
            (if (cpl.getD st.bf default).isErr g then 0 else 1)))) := by
  have e : (if (cpl.getD st.bf default).isErr g then (findError g cpl (st.bf - 1) 0).2
        else (findError g cpl (st.bf - 1) 0).2 + 1) =
      (findError g cpl (st.bf - 1) 0).2 + (if (cpl.getD st.bf default).isErr g then 0 else 1) := by
    split <;> rfl
  unfold backStep
  rw [e]
  by_cases h1 : st.bf > 0
  · by_cases h2 : st.bestCost ≥ st.btf + ((findError g cpl (st.bf - 1) 0).2 +
        (if (cpl.getD st.bf default).isErr g then 0 else 1))
    · rw [if_pos h1, if_pos h2]; exact Or.inr ⟨h1, rfl⟩
    · rw [if_pos h1, if_neg h2]; exact Or.inl rfl
  · rw [if_neg h1]; exact Or.inl rfl

theorem backStep_inv (ctx : RCtx g an la full orig startTok startPl) {st : SearchSt} {top : RState}
    {rest : List RState} (hinv : SearchInv g an la full orig startTok startPl st)
    (hst : st.stack = top :: rest) :
    (∀ s ∈ (backStep g (orig.take (top.last + 1) ++ top.tail) startTok st rest).1,
      StateInv g an la full orig startTok startPl s ∧
        (backStep g (orig.take (top.last + 1) ++ top.tail) startTok st rest).2.1 ≤ s.last) ∧
    (backStep g (orig.take (top.last + 1) ++ top.tail) startTok st rest).2.1 ≤ st.bf ∧
    (backStep g (orig.take (top.last + 1) ++ top.tail) startTok st rest).2.2 =
      backCost g orig (backStep g (orig.take (top.last + 1) ++ top.tail) startTok st rest).2.1 := by
  have htop := hinv.states top (by rw [hst]; exact List.mem_cons_self)
  have hrest : ∀ s ∈ rest, StateInv g an la full orig startTok startPl s ∧ st.bf ≤ s.last :=
    fun s hs => hinv.states s (by rw [hst]; exact List.mem_cons_of_mem _ hs)
  have hlastlt : top.last < orig.length := by rw [ctx.len]; exact Nat.lt_succ_of_le htop.1.last_le
  rcases backStep_cases g (orig.take (top.last + 1) ++ top.tail) startTok st rest with h | ⟨hpos, h⟩
  · rw [h]; exact ⟨hrest, Nat.le_refl _, hinv.btf_eq⟩
  · rw [h]
    simp only
    have hfe : findError g (orig.take (top.last + 1) ++ top.tail) (st.bf - 1) 0 =
        findError g orig (st.bf - 1) 0 :=
      findError_congr g _ _ _ _ (fun i hi => getD_take_append hlastlt (by have := htop.2; omega))
    have hgd : (orig.take (top.last + 1) ++ top.tail).getD st.bf default = orig.getD st.bf default :=
      getD_take_append hlastlt htop.2
    rw [hfe, hgd]
    have hbflt : st.bf < orig.length := by rw [ctx.len]; exact Nat.lt_succ_of_le hinv.bf_le
    obtain ⟨hb, hc⟩ := findError_spec g orig (st.bf - 1) 0 (by omega)
    have e1 : st.bf - 1 + 1 = st.bf := by omega
    rw [e1, drop_eq_getD_cons hbflt, nonErr_cons, Nat.zero_add] at hc
    have hbtf := hinv.btf_eq
    unfold backCost at hbtf ⊢
    have hacct : st.btf + ((findError g orig (st.bf - 1) 0).2 +
        (if (orig.getD st.bf default).isErr g then 0 else 1)) =
        nonErr g (orig.drop ((findError g orig (st.bf - 1) 0).1 + 1)) := by omega
    refine ⟨?_, by omega, hacct⟩
    intro s hs
    rcases List.mem_cons.mp hs with rfl | hs
    · refine ⟨⟨by simp only; have := hinv.bf_le; omega, SegOk.nil _ _ _ _, Nat.le_refl _,
        ctx.tokLt, ?_, Nat.le_refl _, ?_⟩, Nat.le_refl _⟩
      · simp only [cnt_nil, Nat.add_zero, Nat.sub_self]
        unfold backCost
        exact hacct
      · simp only [List.append_nil]; exact ctx.run.take _
    · exact ⟨(hrest s hs).1, by have := (hrest s hs).2; omega⟩

theorem frontierSt_inv (ctx : RCtx g an la full orig startTok startPl) {st : SearchSt} {top : RState}
    {rest : List RState} (hinv : SearchInv g an la full orig startTok startPl st)
    (hst : st.stack = top :: rest) :
    SearchInv g an la full orig startTok startPl (frontierSt g full orig startTok st top rest) ∧
    (frontierSt g full orig startTok st top rest).bf ≤ top.last := by
  have htop := hinv.states top (by rw [hst]; exact List.mem_cons_self)
  obtain ⟨h1, h2, h3⟩ := backStep_inv ctx hinv hst
  refine ⟨⟨?_, Nat.le_trans h2 hinv.bf_le, h3, hinv.best⟩, Nat.le_trans h2 htop.2⟩
  intro s hs
  unfold frontierSt at hs ⊢
  simp only at hs ⊢
  split at hs
  · rename_i hc
    rcases List.mem_cons.mp hs with rfl | hs
    · refine ⟨⟨htop.1.last_le, htop.1.seg.mono (Nat.le_refl _) (Nat.le_succ _),
        Nat.le_succ_of_le htop.1.stok_ge, hc.2, ?_, htop.1.errs, htop.1.run⟩, Nat.le_trans h2 htop.2⟩
      have := htop.1.acct; have := htop.1.stok_ge
      simp only; omega
    · exact h1 s hs
  · exact h1 s hs

theorem getLastD_concat (l : List PSet) (x d : PSet) : (l ++ [x]).getLastD d = x := by
  rw [List.getLastD_eq_getLast?, List.getLast?_concat]; rfl

theorem tail_after_skip {top : RState}
    (htop : StateInv g an la full orig startTok startPl top) {c k : Nat} (hc : top.stok ≤ c)
    (hk : k + top.stok = top.back + c) (hcl : c < full.length)
    (hTr : hasTrans g (errSetOf g (orig.take (top.last + 1) ++ top.tail)).items
      (full.getD c 0) = true) :
    TailInv g an la full orig startTok top.last k
      (top.tail ++ [errSetOf g (orig.take (top.last + 1) ++ top.tail)] ++
        [gotoSet g an la (orig.take (top.last + 1) ++ top.tail ++
            [errSetOf g (orig.take (top.last + 1) ++ top.tail)])
          (full.getD c 0) (some c) full[c + 1]?]) c := by
  have hge := htop.stok_ge
  have he1 : (errSetOf g (orig.take (top.last + 1) ++ top.tail)).tok = none := rfl
  have hseg1 : SegOk g full (top.tail ++ [errSetOf g (orig.take (top.last + 1) ++ top.tail)])
      startTok c :=
    (htop.seg.mono (Nat.le_refl _) hc).append (SegOk.single_err c c he1 rfl)
      (Nat.le_trans hge hc) (Nat.le_refl _)
  refine ⟨hseg1.append (SegOk.single_tok (gotoSet_tok ..) (gotoSet_term ..) (getD_eq_some hcl))
    (Nat.le_trans hge hc) (Nat.le_succ _), Nat.le_trans hge hc, hcl, ?_, ?_, ?_, ?_,
    ⟨_, List.getLast?_concat, rfl⟩⟩
  · rw [cnt_append, cnt_append, cnt_singleton_none he1, cnt_singleton_some (gotoSet_tok ..)]
    have := htop.acct; omega
  · rw [cnt_append, cnt_append, errc_append, errc_append, cnt_singleton_none he1,
      cnt_singleton_some (gotoSet_tok ..), errc_singleton_none he1,
      errc_singleton_some (gotoSet_tok ..)]
    have := htop.errs; omega
  · rw [cnt_append, cnt_singleton_some (gotoSet_tok ..)]; omega
  · rw [← List.append_assoc, ← List.append_assoc]
    refine RunOk.snoc (RunOk.snoc htop.run (Or.inl ⟨rfl, rfl⟩)) (Or.inr ⟨c, rfl, ?_, rfl⟩)
    rw [getLastD_concat]; exact hTr

theorem pushSt_inv {st1 : SearchSt} {top : RState} {mr : MatchRes}
    (h1 : SearchInv g an la full orig startTok startPl st1) (hbf : st1.bf ≤ top.last)
    (hp : ∀ s ∈ mr.pushes, StateInv g an la full orig startTok startPl s ∧ s.last = top.last) :
    SearchInv g an la full orig startTok startPl (pushSt st1 mr) := by
  refine ⟨?_, h1.bf_le, h1.btf_eq, h1.best⟩
  intro s hs
  unfold pushSt at hs ⊢
  simp only at hs ⊢
  rcases List.mem_append.mp hs with h | h
  · have := hp s (List.mem_reverse.mp h)
    exact ⟨this.1, by rw [this.2]; exact hbf⟩
  · exact h1.states s h

theorem bestSt_inv (ctx : RCtx g an la full orig startTok startPl) {st1 : SearchSt} {top : RState}
    {mr : MatchRes} {cost : Nat} (h1 : SearchInv g an la full orig startTok startPl st1)
    (hbf : st1.bf ≤ top.last) (hlast : top.last ≤ startPl)
    (hp : ∀ s ∈ mr.pushes, StateInv g an la full orig startTok startPl s ∧ s.last = top.last)
    {T : List PSet} {ls : Nat} (hcpl : mr.cpl = orig.take (top.last + 1) ++ T)
    (hT : TailInv g an la full orig startTok top.last cost T ls)
    (hbtok : (if mr.ctok = full.length then mr.ctok - 1 else mr.ctok) = ls) :
    SearchInv g an la full orig startTok startPl (bestSt g full orig startTok startPl st1 top cost mr) := by
  have hpush := pushSt_inv h1 hbf hp
  refine ⟨hpush.states, hpush.bf_le, hpush.btf_eq, ?_⟩
  intro b hb
  unfold bestSt at hb
  simp only [Option.some.injEq] at hb
  subst hb
  refine ⟨hlast, ?_, cost, rfl, ?_⟩
  · simp only; rw [ctx.kept_eq hlast]
  · simp only
    rw [hbtok, hcpl, drop_append_of_length (ctx.take_length hlast)]
    exact hT

theorem searchStepK_ind {α : Type} (k : SearchSt → α) (P : α → Prop)
    (ctx : RCtx g an la full orig startTok startPl) {st : SearchSt} {top : RState} {rest : List RState}
    (hinv : SearchInv g an la full orig startTok startPl st) (hst : st.stack = top :: rest)
    (hk : ∀ st', SearchInv g an la full orig startTok startPl st' → P (k st')) :
    P (searchStepK k g an la rmatch full orig startTok startPl st top rest) := by
  have htop := (hinv.states top (by rw [hst]; exact List.mem_cons_self)).1
  obtain ⟨hf, hbf⟩ := frontierSt_inv ctx hinv hst
  unfold searchStepK
  simp only
  obtain ⟨hs1, hs2⟩ := skipLoop_spec g (errSetOf g (orig.take (top.last + 1) ++ top.tail)).items full
    (frontierSt g full orig startTok st top rest).bestCost (full.length + 1) top.stok top.back
  have hs3 := skipLoop_stop g (errSetOf g (orig.take (top.last + 1) ++ top.tail)).items full
    (frontierSt g full orig startTok st top rest).bestCost (full.length + 1) top.stok top.back
    (by omega)
  generalize skipLoop g (errSetOf g (orig.take (top.last + 1) ++ top.tail)).items full
    (frontierSt g full orig startTok st top rest).bestCost (full.length + 1) top.stok top.back = sk
    at hs1 hs2 hs3 ⊢
  obtain ⟨c, kk⟩ := sk
  simp only at hs1 hs2 hs3 ⊢
  split
  · exact hk _ hf
  split
  · exact hk _ hf
  rename_i h1 h2
  have hTr : hasTrans g (errSetOf g (orig.take (top.last + 1) ++ top.tail)).items
      (full.getD c 0) = true := by
    rcases hs3 with h | h | h
    · exact absurd h h1
    · exact absurd h h2
    · exact h
  have hT := tail_after_skip htop hs1 hs2 (Nat.lt_of_not_le h2) hTr
  have hM := matchLoop_spec (an := an) (la := la) (rmatch := rmatch) (startPl := startPl)
    top.last kk (ctx.take_length htop.last_le) htop.last_le
    (full.length + 1) _ c 0 [] hT (fun s hs => absurd hs List.not_mem_nil)
  rw [← List.append_assoc, ← List.append_assoc] at hM
  obtain ⟨T', ls, hcpl, hT', hct, hpush⟩ := hM
  split
  · rename_i h3
    split
    · apply hk
      refine bestSt_inv ctx hf hbf htop.last_le hpush hcpl hT' ?_
      have := hT'.ls_lt
      split
      · rename_i h4; rcases hct with h | ⟨h, _⟩ <;> omega
      · rename_i h4
        rcases hct with h | ⟨h, h5⟩
        · exact h
        · rcases h5 with h5 | h5
          · exact absurd h5 h4
          · rcases h3 with h3 | h3 <;> omega
    · exact hk _ (pushSt_inv hf hbf hpush)
  · exact hk _ (pushSt_inv hf hbf hpush)

theorem searchLoop_inv (ctx : RCtx g an la full orig startTok startPl) :
    ∀ (fuel : Nat) (st : SearchSt), SearchInv g an la full orig startTok startPl st →
      SearchInv g an la full orig startTok startPl
        (searchLoop g an la rmatch full orig startTok startPl fuel st) := by
  intro fuel
  induction fuel with
  | zero => intro st h; unfold searchLoop; exact h
  | succ fuel ih =>
    intro st h
    cases hst : st.stack with
    | nil => rw [searchLoop_nil _ _ _ _ _ _ _ _ _ _ hst]; exact h
    | cons top rest =>
      rw [searchLoop_cons _ _ _ _ _ _ _ _ _ _ _ _ hst]
      exact searchStepK_ind _ _ ctx h hst ih

end Search

/-! ## `recoverAt` -/

theorem PLOk.rctx {g : Grammar} {an : Analysis} {la : Nat} {full : List Nat} {pl : List PSet}
    {tok : Nat} (h : PLOk g full pl tok) (ht : tok < full.length) (hrun : RunOk g an la full pl) :
    RCtx g an la full pl tok (pl.length - 1) := by
  refine ⟨?_, ht, h, hrun⟩
  obtain ⟨s0, rest, rfl, _⟩ := h
  simp

theorem recoverAt_inv {g : Grammar} {an : Analysis} {la rmatch : Nat} {full : List Nat}
    {pl : List PSet} {tok : Nat} (h : PLOk g full pl tok) (ht : tok < full.length)
    (hrun : RunOk g an la full pl) (fuel : Nat) :
    SearchInv g an la full pl tok (pl.length - 1) (recoverAt g an la rmatch full pl tok fuel) := by
  have ctx := h.rctx ht hrun
  unfold recoverAt
  simp only
  apply searchLoop_inv ctx
  have hlt : pl.length - 1 < pl.length := by rw [ctx.len]; omega
  obtain ⟨hb, hc⟩ := findError_spec g pl (pl.length - 1) 0 hlt
  have hnil : pl.drop (pl.length - 1 + 1) = [] := List.drop_eq_nil_iff.mpr (by omega)
  rw [hnil, nonErr_nil, Nat.add_zero, Nat.zero_add] at hc
  refine ⟨?_, hb, hc, fun b hb => by cases hb⟩
  intro s hs
  simp only [List.mem_singleton] at hs
  subst hs
  exact ⟨⟨hb, SegOk.nil _ _ _ _, Nat.le_refl _, ht, by simpa [backCost] using hc, Nat.le_refl _,
    by simp only [List.append_nil]; exact hrun.take _⟩, Nat.le_refl _⟩

/-! ## the outer loop -/

/-- tokens reported as ignored by a list of recovery calls -/
def ignoredSum : List (Nat × Nat × Nat) → Nat
  | [] => 0
  | c :: cs => (c.2.2 - c.2.1) + ignoredSum cs

theorem ignoredSum_append (l1 l2 : List (Nat × Nat × Nat)) :
    ignoredSum (l1 ++ l2) = ignoredSum l1 + ignoredSum l2 := by
  induction l1 with
  | nil => simp [ignoredSum]
  | cons c cs ih => simp only [List.cons_append, ignoredSum, ih]; omega

theorem ignoredSum_eq_sum (l : List (Nat × Nat × Nat)) :
    ignoredSum l = (l.map fun c => c.2.2 - c.2.1).sum := by
  induction l with
  | nil => rfl
  | cons c cs ih => simp only [ignoredSum, List.map_cons, List.sum_cons, ih]

/-- the state of `parseRecLoop` when it is about to look at token `tok` -/
structure OuterInv (g : Grammar) (an : Analysis) (la : Nat) (full : List Nat) (tok : Nat) (pl : List PSet)
    (calls : List (Nat × Nat × Nat)) : Prop where
  pl_ok : PLOk g full pl tok
  tok_le : tok ≤ full.length
  calls_wf : ∀ c ∈ calls, c.2.1 ≤ c.2.2 ∧ c.2.2 < full.length ∧ c.1 < tok ∧ c.2.1 ≤ c.1
  calls_sorted : (calls.map (·.1)).Pairwise (· < ·)
  acct : g.errT ∉ full → ignoredSum calls + cnt pl = tok
  run : RunOk g an la full pl
  lastTok : 0 < tok → ∃ s, pl.getLast? = some s ∧ s.tok = some (tok - 1)

theorem OuterInv.shift {g : Grammar} {an : Analysis} {la : Nat} {full : List Nat} {tok : Nat}
    {pl : List PSet} {calls : List (Nat × Nat × Nat)} (h : OuterInv g an la full tok pl calls)
    {t : Nat} (ht : full[tok]? = some t) (hTr : hasTrans g (pl.getLastD default).items t = true) :
    OuterInv g an la full (tok + 1) (pl ++ [gotoSet g an la pl t (some tok) full[tok + 1]?]) calls := by
  have hlt := (List.getElem?_eq_some_iff.mp ht).1
  have htd : full.getD tok 0 = t := by rw [List.getD_eq_getElem?_getD, ht]; rfl
  have hrun : RunOk g an la full (pl ++ [gotoSet g an la pl t (some tok) full[tok + 1]?]) :=
    RunOk.snoc h.run (Or.inr ⟨tok, rfl, by rw [htd]; exact hTr, by rw [htd]; rfl⟩)
  obtain ⟨s0, rest, rfl, h1, h2, hseg, herr⟩ := h.pl_ok
  have hnew : SegOk g full [gotoSet g an la (s0 :: rest) t (some tok) full[tok + 1]?] tok (tok + 1) :=
    SegOk.single_tok (gotoSet_tok ..) (gotoSet_term ..) ht
  refine ⟨⟨s0, rest ++ [_], by simp, h1, h2, hseg.append hnew (Nat.zero_le _) (Nat.le_succ _), ?_⟩,
    hlt, ?_, h.calls_sorted, ?_, hrun, fun _ => ⟨_, List.getLast?_concat, rfl⟩⟩
  · rw [errc_append, errc_singleton_some (gotoSet_tok ..)]; omega
  · intro c hc
    obtain ⟨a, b, c', d⟩ := h.calls_wf c hc
    exact ⟨a, b, Nat.lt_succ_of_lt c', d⟩
  · intro hno
    have := h.acct hno
    rw [cnt_append, cnt_singleton_some (gotoSet_tok ..)]
    omega

theorem OuterInv.recover {g : Grammar} {an : Analysis} {la : Nat} {full : List Nat} {tok : Nat}
    {pl : List PSet} {calls : List (Nat × Nat × Nat)} (h : OuterInv g an la full tok pl calls)
    (ht : tok < full.length) {b : Best} (hb : BestInv g an la full pl tok (pl.length - 1) b) :
    OuterInv g an la full (b.tok + 1) (pl.take (b.last + 1) ++ b.tail)
      (calls ++ [(tok, b.rstart, b.rstop)]) ∧ tok ≤ b.tok := by
  have ctx := h.pl_ok.rctx ht h.run
  have hK := ctx.backCost_le b.last
  obtain ⟨cost, hstop, hT⟩ := hb.tail
  have hcnt := hT.seg.cnt_le
  have hacct := hT.acct
  have hpos := hT.pos
  have hge := hT.ls_ge
  have hrs := hb.rstart_eq
  have hrun := hT.run
  obtain ⟨sl, hsl1, hsl2⟩ := hT.lastTok
  have hlast : ∃ s, (pl.take (b.last + 1) ++ b.tail).getLast? = some s ∧
      s.tok = some (b.tok + 1 - 1) :=
    ⟨sl, by rw [List.getLast?_append, hsl1]; rfl, hsl2⟩
  refine ⟨?_, hge⟩
  obtain ⟨s0, rest, rfl, h1, h2, hseg, herr⟩ := h.pl_ok
  have hbc : backCost g (s0 :: rest) b.last = nonErr g (rest.drop b.last) := by
    unfold backCost; rw [List.drop_succ_cons]
  refine ⟨⟨s0, rest.take b.last ++ b.tail, by simp [List.take_succ_cons], h1, h2,
      (hseg.take b.last).append hT.seg (Nat.zero_le _) (by omega), ?_⟩, hT.ls_lt, ?_, ?_, ?_,
      hrun, fun _ => hlast⟩
  · rw [errc_append]
    have := errc_take_le rest b.last
    have := hT.errs
    omega
  · intro c hc
    rcases List.mem_append.mp hc with hc | hc
    · obtain ⟨a, b', c', d⟩ := h.calls_wf c hc
      exact ⟨a, b', by omega, d⟩
    · rw [List.mem_singleton] at hc
      subst hc
      have := hT.ls_lt
      simp only
      refine ⟨by omega, by omega, by omega, by omega⟩
  · rw [List.map_append, List.pairwise_append]
    refine ⟨h.calls_sorted, by simp, ?_⟩
    intro a ha b' hb'
    simp only [List.map_cons, List.map_nil, List.mem_singleton] at hb'
    subst hb'
    obtain ⟨c, hc, rfl⟩ := List.mem_map.mp ha
    exact (h.calls_wf c hc).2.2.1
  · intro hno
    have hold := h.acct hno
    rw [ignoredSum_append]
    simp only [ignoredSum, Nat.add_zero]
    have e1 : cnt (List.take (b.last + 1) (s0 :: rest) ++ b.tail) =
        cnt (rest.take b.last) + cnt b.tail := by
      rw [List.take_succ_cons, List.cons_append, cnt_cons_none _ h2, cnt_append]
    have e2 : cnt (s0 :: rest) = cnt (rest.take b.last) + cnt (rest.drop b.last) := by
      rw [cnt_cons_none _ h2, ← cnt_append, List.take_append_drop]
    have e3 : nonErr g (rest.drop b.last) = cnt (rest.drop b.last) :=
      nonErr_eq_cnt hno (hseg.drop b.last).sets
    rw [e1]
    omega

theorem parseRecLoop_inv {g : Grammar} {an : Analysis} {la rmatch : Nat} {full : List Nat}
    {sfuel : Nat} :
    ∀ (fuel tok : Nat) (pl : List PSet) (calls : List (Nat × Nat × Nat)) (steps : Nat),
      OuterInv g an la full tok pl calls →
      (parseRecLoop g an la rmatch full sfuel fuel tok pl calls steps).ok = true →
      OuterInv g an la full full.length
        (parseRecLoop g an la rmatch full sfuel fuel tok pl calls steps).pl
        (parseRecLoop g an la rmatch full sfuel fuel tok pl calls steps).calls := by
  intro fuel
  induction fuel with
  | zero => intro tok pl calls steps _ hok; unfold parseRecLoop at hok; cases hok
  | succ fuel ih =>
    intro tok pl calls steps h hok
    unfold parseRecLoop at hok ⊢
    split
    · rename_i hnone
      have hge := List.getElem?_eq_none_iff.mp hnone
      have : tok = full.length := Nat.le_antisymm h.tok_le hge
      subst this
      exact h
    · rename_i t ht
      rw [ht] at hok
      simp only at hok ⊢
      split
      · rename_i hT
        rw [if_pos hT] at hok
        exact ih _ _ _ _ (h.shift ht hT) hok
      · rename_i hT
        rw [if_neg hT] at hok
        have hlt := (List.getElem?_eq_some_iff.mp ht).1
        have hSI := recoverAt_inv (rmatch := rmatch) h.pl_ok hlt h.run sfuel
        split
        · rename_i hbest; rw [hbest] at hok; cases hok
        · rename_i b hbest
          rw [hbest] at hok
          simp only at hok ⊢
          split
          · rename_i hne; rw [if_pos hne] at hok; cases hok
          · rename_i hne
            rw [if_neg hne] at hok
            exact ih _ _ _ _ (h.recover hlt (hSI.best b hbest)).1 hok

/-- calls are only ever appended -/
theorem parseRecLoop_calls_prefix {g : Grammar} {an : Analysis} {la rmatch : Nat} {full : List Nat}
    {sfuel : Nat} :
    ∀ (fuel tok : Nat) (pl : List PSet) (calls : List (Nat × Nat × Nat)) (steps : Nat),
      ∃ more, (parseRecLoop g an la rmatch full sfuel fuel tok pl calls steps).calls = calls ++ more := by
  intro fuel
  induction fuel with
  | zero => intro tok pl calls steps; unfold parseRecLoop; exact ⟨[], by simp⟩
  | succ fuel ih =>
    intro tok pl calls steps
    unfold parseRecLoop
    split
    · exact ⟨[], by simp⟩
    · simp only
      split
      · exact ih _ _ _ _
      · split
        · exact ⟨[], by simp⟩
        · split
          · exact ⟨[], by simp⟩
          · obtain ⟨more, hm⟩ := ih (_ + 1) (List.take (_ + 1) pl ++ _) (calls ++ [(tok, _, _)]) _
            exact ⟨_ :: more, by rw [hm, List.append_assoc]; rfl⟩

theorem default_items : (default : PSet).items = [] := rfl

theorem psItems_getLastD (pl : List PSet) :
    (pl.getLastD default).items = (psItems pl).getLastD [] := by
  unfold psItems
  induction pl with
  | nil => rfl
  | cons s l ih =>
    cases l with
    | nil => rfl
    | cons s' l' =>
      simp only [List.getLastD_cons, List.map_cons] at ih ⊢
      exact ih

theorem psItems_append (l1 l2 : List PSet) : psItems (l1 ++ l2) = psItems l1 ++ psItems l2 := by
  unfold psItems; rw [List.map_append]

/-- up to the first error the recovering loop is `parseLoop` -/
theorem parseRecLoop_vs_parseLoop {g : Grammar} {an : Analysis} {la rmatch : Nat} {full : List Nat}
    {sfuel : Nat} :
    ∀ (fuel tok : Nat) (pl : List PSet) (calls : List (Nat × Nat × Nat)) (steps : Nat),
      (parseRecLoop g an la rmatch full sfuel fuel tok pl calls steps).ok = true →
      ((parseLoop g an la (full.drop tok) (psItems pl) tok).1 = none →
        (parseRecLoop g an la rmatch full sfuel fuel tok pl calls steps).calls = calls) ∧
      (∀ e, (parseLoop g an la (full.drop tok) (psItems pl) tok).1 = some e →
        ∃ a b more, (parseRecLoop g an la rmatch full sfuel fuel tok pl calls steps).calls =
          calls ++ (e, a, b) :: more) := by
  intro fuel
  induction fuel with
  | zero => intro tok pl calls steps hok; unfold parseRecLoop at hok; cases hok
  | succ fuel ih =>
    intro tok pl calls steps hok
    unfold parseRecLoop at hok ⊢
    split
    · rename_i hnone
      have hge := List.getElem?_eq_none_iff.mp hnone
      rw [List.drop_eq_nil_iff.mpr hge]
      unfold parseLoop
      exact ⟨fun _ => rfl, fun e he => absurd he (by simp)⟩
    · rename_i t ht
      rw [ht] at hok
      have hlt := (List.getElem?_eq_some_iff.mp ht).1
      have hdrop : full.drop tok = t :: full.drop (tok + 1) := by
        rw [List.drop_eq_getElem_cons hlt, (List.getElem?_eq_some_iff.mp ht).2]
      rw [hdrop]
      unfold parseLoop
      rw [← psItems_getLastD]
      simp only at hok ⊢
      split
      · rename_i hT
        rw [if_pos hT] at hok
        have := ih (tok + 1) _ calls steps hok
        rw [psItems_append] at this
        have hhead : (full.drop (tok + 1)).head? = full[tok + 1]? := by rw [List.head?_drop]
        rw [hhead]
        exact this
      · rename_i hT
        rw [if_neg hT] at hok
        refine ⟨fun h => absurd h (by simp), ?_⟩
        intro e he
        simp only [Option.some.injEq] at he
        subst he
        split
        · rename_i hbest; rw [hbest] at hok; cases hok
        · rename_i b hbest
          split
          · rename_i hne; rw [hbest] at hok; simp only at hok; rw [if_pos hne] at hok; cases hok
          · obtain ⟨more, hm⟩ := parseRecLoop_calls_prefix (g := g) (an := an) (la := la)
              (rmatch := rmatch) (full := full) (sfuel := sfuel) fuel (b.tok + 1)
              (List.take (b.last + 1) pl ++ b.tail) (calls ++ [(tok, b.rstart, b.rstop)])
              (steps + (recoverAt g an la rmatch full pl tok sfuel).steps)
            exact ⟨_, _, more, by rw [hm, List.append_assoc]; rfl⟩

/-- every iteration of `parseRecLoop` consumes at least one token, so any fuel that covers
the remaining tokens (plus the final iteration) gives the same result -/
theorem parseRecLoop_fuel_irrel {g : Grammar} {an : Analysis} {la rmatch : Nat} {full : List Nat}
    {sfuel : Nat} :
    ∀ (f1 f2 tok : Nat) (pl : List PSet) (calls : List (Nat × Nat × Nat)) (steps : Nat),
      OuterInv g an la full tok pl calls → full.length + 1 ≤ f1 + tok → full.length + 1 ≤ f2 + tok →
      parseRecLoop g an la rmatch full sfuel f1 tok pl calls steps =
        parseRecLoop g an la rmatch full sfuel f2 tok pl calls steps := by
  intro f1
  induction f1 with
  | zero => intro f2 tok pl calls steps h h1 _; have := h.tok_le; omega
  | succ f1 ih =>
    intro f2 tok pl calls steps h h1 h2
    cases f2 with
    | zero => have := h.tok_le; omega
    | succ f2 =>
      unfold parseRecLoop
      split
      · rfl
      · rename_i t ht
        have hlt := (List.getElem?_eq_some_iff.mp ht).1
        simp only
        split
        · rename_i hT
          exact ih _ _ _ _ _ (h.shift ht hT) (by omega) (by omega)
        · have hSI := recoverAt_inv (rmatch := rmatch) h.pl_ok hlt h.run sfuel
          split
          · rfl
          · rename_i b hbest
            split
            · rfl
            · obtain ⟨hO, hge⟩ := h.recover hlt (hSI.best b hbest)
              exact ih _ _ _ _ _ hO (by omega) (by omega)

/-! ## `parseWithRecovery` -/

theorem outerInv_init (g : Grammar) (an : Analysis) (la : Nat) (full : List Nat) :
    OuterInv g an la full 0 [{ term := none, tok := none, items := set0 g }] [] := by
  refine ⟨⟨_, [], rfl, rfl, rfl, SegOk.nil _ _ _ _, Nat.le_refl _⟩, Nat.zero_le _,
    fun c hc => absurd hc List.not_mem_nil, List.Pairwise.nil, fun _ => rfl,
    RunOk.init _ rfl, fun h => absurd h (Nat.lt_irrefl _)⟩

theorem parseWithRecovery_inv {g : Grammar} {la rmatch : Nat} {w : List Nat} {sfuel : Nat}
    (hok : (parseWithRecovery g la rmatch w sfuel).ok = true) :
    OuterInv g g.analysis la (w ++ [g.eofT]) (w ++ [g.eofT]).length
      (parseWithRecovery g la rmatch w sfuel).pl
      (parseWithRecovery g la rmatch w sfuel).calls := by
  unfold parseWithRecovery at hok ⊢
  exact parseRecLoop_inv _ _ _ _ _ (outerInv_init g _ _ _) hok

/-- bounds on the lists the search builds: a state's list with the `error` set appended -/
theorem state_list_bound {g : Grammar} {full : List Nat} {orig : List PSet} {startTok startPl : Nat}
    (ctx : RCtx g an la full orig startTok startPl) {s : RState}
    (hs : StateInv g an la full orig startTok startPl s) :
    (orig.take (s.last + 1) ++ s.tail).length + 1 ≤ 2 * full.length := by
  obtain ⟨s0, rest, rfl, _, h2, hseg, herr⟩ := ctx.ok
  have hsg : SegOk g full (rest.take s.last ++ s.tail) 0 s.stok :=
    (hseg.take s.last).append hs.seg (Nat.zero_le _) hs.stok_ge
  have h1 := hsg.cnt_le
  have h3 := hs.seg.cnt_le
  have h4 := errc_take_le rest s.last
  have h5 := hs.errs
  have h6 := hs.stok_lt
  have h7 := hs.stok_ge
  rw [List.take_succ_cons, List.cons_append, List.length_cons, length_eq_errc_add_cnt,
    errc_append]
  omega

/-- the list of a candidate recovery (and of every intermediate step of the matching loop) -/
theorem tail_list_bound {g : Grammar} {full : List Nat} {orig : List PSet} {startTok startPl : Nat}
    (ctx : RCtx g an la full orig startTok startPl) {last cost ls : Nat} {T : List PSet}
    (hT : TailInv g an la full orig startTok last cost T ls) :
    (orig.take (last + 1) ++ T).length ≤ 2 * full.length + 1 := by
  obtain ⟨s0, rest, rfl, _, h2, hseg, herr⟩ := ctx.ok
  have hsg : SegOk g full (rest.take last ++ T) 0 (ls + 1) :=
    (hseg.take last).append hT.seg (Nat.zero_le _) (by have := hT.ls_ge; omega)
  have h1 := hsg.cnt_le
  have h3 := hT.seg.cnt_le
  have h4 := errc_take_le rest last
  have h5 := hT.errs
  have h6 := hT.ls_lt
  have h7 := hT.ls_ge
  rw [List.take_succ_cons, List.cons_append, List.length_cons, length_eq_errc_add_cnt,
    errc_append]
  omega

theorem PLOk.length_le {g : Grammar} {full : List Nat} {pl : List PSet} {tok : Nat}
    (h : PLOk g full pl tok) : pl.length ≤ 2 * tok + 1 := by
  obtain ⟨s0, rest, rfl, _, _, hseg, herr⟩ := h
  have := hseg.cnt_le
  rw [List.length_cons, length_eq_errc_add_cnt]
  omega

/-- the terms of the token sets are the input tokens at their indices -/
theorem terms_eq_tokens {g : Grammar} {full : List Nat} {l : List PSet}
    (h : ∀ s ∈ l, s.Ok g full) :
    (l.filter fun s => s.tok.isSome).map (·.term) = (toks l).map fun k => full[k]? := by
  induction l with
  | nil => rfl
  | cons s l ih =>
    have ih' := ih (fun x hx => h x (List.mem_cons_of_mem _ hx))
    rcases h s List.mem_cons_self with ⟨h1, _⟩ | ⟨k, t, h1, h2, h3⟩
    · rw [toks_cons_none l h1, List.filter_cons_of_neg (by simp [h1])]; exact ih'
    · rw [toks_cons_some l h1, List.filter_cons_of_pos (by simp [h1]), List.map_cons,
        List.map_cons, ih', h2, h3]

/-! ## the last set of a successful run -/

theorem RunOk.last_inv {g : Grammar} {an : Analysis} {la : Nat} {full : List Nat} {pl : List PSet}
    (h : RunOk g an la full pl) {s : PSet} (hs : pl.getLast? = some s) :
    (pl = [s] ∧ s.items = set0 g) ∨
    ∃ pre, pl = pre ++ [s] ∧ RunOk g an la full pre ∧ SetRun g an la full pre s := by
  cases h with
  | init s0 h0 =>
    simp only [List.getLast?_singleton, Option.some.injEq] at hs
    subst hs; exact Or.inl ⟨rfl, h0⟩
  | @snoc pre s' hpre hs' =>
    rw [List.getLast?_concat] at hs
    simp only [Option.some.injEq] at hs
    subst hs; exact Or.inr ⟨pre, rfl, hpre, hs'⟩

theorem okItem_none (g : Grammar) (an : Analysis) (la r d : Nat) : okItem g an la none r d = true := by
  unfold okItem
  cases la <;> rfl

/-- a set shifted on the end marker contains a completed rule of `$S` -/
theorem complete_axiom_item_of_shift_eof {g : Grammar} (hwf : g.WF) {an : Analysis} {la : Nat}
    {pre : List PSet} (hTr : hasTrans g (pre.getLastD default).items g.eofT = true) :
    ∃ it rl, it ∈ nextSet g (okItem g an la none) (psItems pre) g.eofT ∧
      g.rules[it.rule]? = some rl ∧ rl.lhs = g.axiomN ∧ it.dot = rl.rhs.length ∧
      (it.rule = 0 ∨ rl.rhs = [Sym.t g.errT, Sym.t g.eofT]) := by
  obtain ⟨p, hp, hns⟩ := hasTrans_iff.mp hTr
  obtain ⟨rl, hr, hs⟩ := nextSym_eq_some.mp hns
  have hmem : rl ∈ g.rules := List.mem_of_getElem? hr
  have hax : rl.lhs = g.axiomN := hwf.2.2.2.1 rl hmem (List.mem_of_getElem? hs)
  refine ⟨⟨p.rule, p.dot + 1, p.origin⟩, rl, ?_, hr, hax, ?_⟩
  · unfold nextSet
    apply start_subset_closeSet
    rw [← psItems_getLastD]
    exact mem_advanceOver.mpr ⟨p, hp, hns, okItem_none g an la _ _, rfl⟩
  · obtain ⟨hrlt, hrl⟩ := List.getElem?_eq_some_iff.mp hr
    have hcases := hwf.2.1 p.rule hrlt (by rw [hrl]; exact hax)
    rw [hrl] at hcases
    rcases hcases with h0 | herrR
    · obtain ⟨r0, hr0, _, hrhs⟩ := hwf.rule0
      rw [h0] at hr
      rw [hr] at hr0; injection hr0 with hr0; subst hr0
      rw [hrhs] at hs ⊢
      refine ⟨?_, Or.inl h0⟩
      match hd : p.dot, hs with
      | 0, hs => simp at hs
      | 1, _ => rfl
      | d + 2, hs => simp at hs
    · rw [herrR] at hs ⊢
      refine ⟨?_, Or.inr rfl⟩
      match hd : p.dot, hs with
      | 0, hs =>
        simp only [List.getElem?_cons_zero, Option.some.injEq, Sym.t.injEq] at hs
        exact absurd hs hwf.2.2.2.2.1
      | 1, _ => rfl
      | d + 2, hs => simp at hs

/-- after a successful run the last set was shifted on the end marker and contains a
completed rule of `$S` -/
theorem OuterInv.final_accepts {g : Grammar} (hwf : g.WF) {an : Analysis} {la : Nat} {w : List Nat}
    {pl : List PSet} {calls : List (Nat × Nat × Nat)}
    (h : OuterInv g an la (w ++ [g.eofT]) (w ++ [g.eofT]).length pl calls) :
    ∃ s it rl, pl.getLast? = some s ∧ s.term = some g.eofT ∧ s.tok = some w.length ∧
      it ∈ s.items ∧ g.rules[it.rule]? = some rl ∧ rl.lhs = g.axiomN ∧ it.dot = rl.rhs.length ∧
      (it.rule = 0 ∨ rl.rhs = [Sym.t g.errT, Sym.t g.eofT]) := by
  have hlen : (w ++ [g.eofT]).length = w.length + 1 := by simp
  obtain ⟨s, hs, htok⟩ := h.lastTok (by omega)
  rw [hlen, Nat.add_sub_cancel] at htok
  have hget : (w ++ [g.eofT])[w.length]? = some g.eofT := by
    rw [List.getElem?_append_right (Nat.le_refl _), Nat.sub_self]; rfl
  have hgd : (w ++ [g.eofT]).getD w.length 0 = g.eofT := by
    rw [List.getD_eq_getElem?_getD, hget]; rfl
  have hnone : (w ++ [g.eofT])[w.length + 1]? = none :=
    List.getElem?_eq_none_iff.mpr (by omega)
  rcases h.run.last_inv hs with ⟨hsingle, _⟩ | ⟨pre, hpl, _, hset⟩
  · -- the list is `[s]`: then `s` is set 0, which has no token
    obtain ⟨s0, rest, hpl, _, h0, _⟩ := h.pl_ok
    rw [hsingle] at hpl
    injection hpl with hpl _
    rw [hpl, h0] at htok; cases htok
  · rcases hset with ⟨hn, _⟩ | ⟨k, hk, hTr, hitems⟩
    · rw [hn] at htok; cases htok
    · rw [htok] at hk; injection hk with hk; subst hk
      rw [hgd] at hTr hitems
      rw [hnone] at hitems
      obtain ⟨it, rl, hit, h1, h2, h3, h4⟩ := complete_axiom_item_of_shift_eof hwf (an := an)
        (la := la) hTr
      refine ⟨s, it, rl, hs, ?_, htok, by rw [hitems]; exact hit, h1, h2, h3, h4⟩
      -- the terminal of the set
      obtain ⟨s0, rest, hpl', _, h0, hseg, _⟩ := h.pl_ok
      have hmem : s ∈ pl := List.mem_of_getLast? hs
      rw [hpl'] at hmem
      rcases List.mem_cons.mp hmem with rfl | hmem
      · rw [h0] at htok; cases htok
      · rcases hseg.sets s hmem with ⟨hn, _⟩ | ⟨k, t, hk, ht, hft⟩
        · rw [hn] at htok; cases htok
        · rw [htok] at hk; injection hk with hk; subst hk
          rw [hget] at hft; injection hft with hft; subst hft
          exact ht

end Yaep
