import Yaep.Lemmas.HeapWfStep
/-!
# The heaps of the model of `make_parse` are well formed, part 6: one candidate of a translated
nonterminal — the tail (`candTail`)

* `cand_below`: the rule instance of a candidate is strictly below the instance of the state it is
  attached to (sub-span; on the same span a unit step: the prefix derives ε because the item with
  the dot before the nonterminal has an empty span, the suffix by the invariant `suf`);
* `cand_suf`: the invariant `suf` after the dot has moved over the nonterminal;
* `child_sinv`: the invariant of the state pushed for the candidate;
* `htail`: `candTail` (new abstract node, reused abstract node, state without abstract node, empty
  node) keeps `HInv`.
-/
namespace Yaep.MP
open Yaep

section
variable {g : Grammar} {ok : Nat → Nat → Nat → Bool} {toks : List Nat}

theorem cand_below {L : Loc} {rlX rl' : Rule} {sr k A hiX : Nat}
    (hr : g.rules[L.rule]? = some rlX) (hsym : rlX.rhs[L.pos]? = some (.n A))
    (hE : EarleyF g ok toks L.plInd ⟨sr, rl'.rhs.length, k⟩)
    (hE2 : EarleyF g ok toks k ⟨L.rule, L.pos, L.orig⟩) (hple : L.plInd ≤ hiX)
    (hsufX : L.plInd = hiX → ∀ j s, L.pos < j → rlX.rhs[j]? = some s → Der g [s] []) :
    Below g A k L.plInd rlX.lhs L.orig hiX := by
  obtain ⟨rl2, h1, _, hle2, hd2⟩ := hE2.sound
  simp only at h1 hle2 hd2
  rw [hr] at h1; injection h1 with h1; subst h1
  obtain ⟨_, _, _, hle1, _⟩ := hE.sound
  simp only at hle1
  refine ⟨hle2, hle1, hple, ?_⟩
  intro e1 e2
  subst e1
  rw [slice_self] at hd2
  have hpre := hd2.forall_of_nil
  refine .single ⟨L.rule, rlX, L.pos, hr, rfl, hsym, ?_⟩
  intro j s hj hs
  rcases Nat.lt_or_gt_of_ne hj with hlt | hgt
  · apply hpre
    apply List.mem_of_getElem? (i := j)
    rw [List.getElem?_take, if_pos hlt]; exact hs
  · exact hsufX e2 j s hgt hs

theorem cand_suf {L : Loc} {rlX rl' : Rule} {sr k A hiX : Nat}
    (hsym : rlX.rhs[L.pos]? = some (.n A)) (hr' : g.rules[sr]? = some rl') (hlhs : rl'.lhs = A)
    (hE : EarleyF g ok toks L.plInd ⟨sr, rl'.rhs.length, k⟩) (hple : L.plInd ≤ hiX)
    (hsufX : L.plInd = hiX → ∀ j s, L.pos < j → rlX.rhs[j]? = some s → Der g [s] []) :
    k = hiX → ∀ j s, L.pos ≤ j → rlX.rhs[j]? = some s → Der g [s] [] := by
  intro hk j s hj hs
  obtain ⟨rl2, h1, _, hle1, hd1⟩ := hE.sound
  simp only at h1 hle1 hd1
  rw [hr'] at h1; injection h1 with h1; subst h1
  have hpl : L.plInd = hiX := by omega
  rcases Nat.eq_or_lt_of_le hj with e | hlt
  · subst e
    rw [hsym] at hs; injection hs with hs; subst hs
    have e2 : k = L.plInd := by omega
    rw [e2, slice_self, List.take_length] at hd1
    have := Der.nt hr' hd1 Der.nil
    rw [hlhs] at this
    simpa using this
  · exact hsufX hpl j s hlt hs

end

/-! ## the state pushed for a candidate -/

section
variable {g : Grammar} {n : Nat} {h : Array MNode} {sts : Array PState} {stack : List Nat}
  {table : Array (List (Nat × Nat × Nat))} {Γ : Gh}

theorem getD_push_lt' {sts : Array PState} {t' : PState} {i : Nat} (hi : i < sts.size) :
    (sts.push t').getD i default = sts.getD i default := getD_push_lt _ _ _ _ hi

/-- the invariant of the state pushed for a candidate `(sr, k)` of the nonterminal at `pos` of
the state `cur`; `an` is its abstract node (new), if the rule has one -/
theorem child_sinv (hcyc : ¬ Cyclic g) (hsr : g.symsInRange = true)
    (hi : HInv g n h sts stack table Γ) (hslt : ∀ x ∈ stack, x < sts.size)
    {cur d A sr k plInd hiX : Nat} {rlX rl' : Rule} (hcur : cur ∈ stack)
    (hrc : g.rules[(sts.getD cur default).rule]? = some rlX)
    (hdc : rlX.order.getD (sts.getD cur default).pos none = some d)
    (hshi : Γ.shi cur = hiX)
    (hr' : g.rules[sr]? = some rl') (hlhs : rl'.lhs = A)
    (hbelow : Below g A k plInd rlX.lhs (sts.getD cur default).orig hiX) (hplN : plInd ≤ n)
    {t' : PState} {an : Option Nat}
    (f1 : t'.rule = sr) (f2 : t'.pos = rl'.rhs.length) (f3 : t'.orig = k) (f4 : t'.plInd = plInd)
    (f5 : t'.parent = match (sts.getD cur default).anode with
      | none => (sts.getD cur default).parent
      | some _ => cur)
    (f6 : t'.parentDisp = match (sts.getD cur default).anode with
      | none => (sts.getD cur default).parentDisp
      | some _ => d)
    (f7 : t'.anode = an)
    (han : ∀ nd, an = some nd → nd < h.size ∧ Γ.rho nd = rhoI g A k plInd + 1) :
    SInv g n (Γ.setHi sts.size plInd) h.size (sts.push t') (sts.size :: stack) sts.size := by
  have hsc := hi.sts cur hcur
  have hclt := hslt cur hcur
  have hsame : (sts.push t').getD sts.size default = t' := getD_push_eq _ _ _
  have hshiN : (Γ.setHi sts.size plInd).shi sts.size = plInd := upd_same _ _ _
  have hrk : rhoI g A k plInd + 1 < Γ.rho (tcell sts (sts.getD cur default)) :=
    hsc.tr rlX hrc A k plInd (by rw [hshi]; exact hbelow) hplN
  have hplt : t'.parent < sts.size := by
    rw [f5]
    split
    · have := hsc.parLt; omega
    · exact hclt
  -- the abstract node of the parent of the child is the cell the current state fills
  have hpc : pcell (sts.push t') t' = tcell sts (sts.getD cur default) := by
    unfold pcell
    rw [getD_push_lt' hplt, f5]
    unfold tcell pcell
    cases han' : (sts.getD cur default).anode with
    | none => rfl
    | some a => simp only; rw [han']; rfl
  have htcl := tcell_lt hsc
  refine ⟨by simp, by rw [hsame]; exact hplt, ?_, by rw [hsame, hshiN, f4]; exact Nat.le_refl _,
    by rw [hshiN]; exact hplN, ?_, ?_, ?_, ?_, by rw [hsame, hpc]; exact htcl⟩
  · -- where the translation goes
    rw [hsame, f5, f6]
    cases han' : (sts.getD cur default).anode with
    | some a =>
      simp only
      right
      refine ⟨List.mem_cons_of_mem _ hcur, rlX, ?_, ?_⟩
      · rw [getD_push_lt' hclt]; exact hrc
      · rw [getD_push_lt' hclt]; exact hdc
    | none =>
      simp only
      rcases hsc.tgt with h1 | ⟨h1, rlP, h2, h3⟩
      · exact Or.inl h1
      · have hpl : (sts.getD cur default).parent < sts.size := by have := hsc.parLt; omega
        exact Or.inr ⟨List.mem_cons_of_mem _ h1, rlP, by rw [getD_push_lt' hpl]; exact h2,
          by rw [getD_push_lt' hpl]; exact h3⟩
  · -- nothing after the dot
    rw [hsame]
    intro _ _ rl hrl j s hj hs
    rw [f1, hr'] at hrl; injection hrl with hrl; subst hrl
    rw [f2] at hj
    have := (List.getElem?_eq_some_iff.mp hs).1
    omega
  · -- ranks below
    rw [hsame, hshiN, f1, f3]
    intro rl hrl A2 lo hi2 hb hle
    rw [hr'] at hrl; injection hrl with hrl; subst hrl
    rw [hlhs] at hb
    show _ < Γ.rho _
    unfold tcell
    rw [f7]
    cases han' : an with
    | some nd =>
      simp only
      rw [(han nd han').2]
      have := hb.rho_lt hcyc hsr
      omega
    | none =>
      simp only
      rw [hpc]
      exact hsc.tr rlX hrc A2 lo hi2 (by rw [hshi]; exact hb.trans hbelow) hle
  · rw [hsame, hpc, f7]
    intro a ha
    show Γ.rho a < Γ.rho _
    rw [(han a ha).2]; exact hrk
  · rw [hsame, f7]
    intro a ha
    exact (han a ha).1

end

/-! ## `candTail` -/

theorem tailPlace_fst {sts : Array PState} {t : PState} {pa pd d : Nat}
    (hpa : (sts.getD t.parent default).anode = some pa) :
    (tailPlace t.anode (pa, pd) d).1 = tcell sts t := by
  unfold tailPlace tcell pcell
  cases t.anode with
  | some a => rfl
  | none => simp only; rw [hpa]; rfl

/-- what the loop needs to know about the effect of a move on the states and the stack -/
structure Keeps (s s' : St) : Prop where
  size : s.states.size ≤ s'.states.size
  sts : ∀ x, x < s.states.size → s'.states.getD x default = s.states.getD x default
  stack : ∀ x ∈ s.stack, x ∈ s'.stack
  heap : s.heap.size ≤ s'.heap.size

theorem Keeps.refl (s : St) : Keeps s s := ⟨Nat.le_refl _, fun _ _ => rfl, fun _ h => h, Nat.le_refl _⟩

theorem Keeps.trans {a b c : St} (h1 : Keeps a b) (h2 : Keeps b c) : Keeps a c :=
  ⟨Nat.le_trans h1.size h2.size,
   fun x hx => by rw [h2.sts x (Nat.lt_of_lt_of_le hx h1.size), h1.sts x hx],
   fun x hx => h2.stack x (h1.stack x hx), Nat.le_trans h1.heap h2.heap⟩

/-- `candTail` in one-parse mode, new abstract node: the table is neither searched nor changed -/
theorem candTail_new_one {c : Ctx} {L : Loc} {sit : Item} {pp : Nat × Nat} {disp : Nat} {s : St}
    {os : List Nat} {cur : Nat} {anode : Option Nat} {name : String} (hone : c.oneParse = true)
    (hn : (c.rule sit.rule).anode = some name) :
    let r := candTail c L sit pp disp (s, os, cur, anode)
    r.1.heap = placeTranslation (s.heap.push (.anode name (c.rule sit.rule).cost
        (Array.replicate ((c.rule sit.rule).transLen + 1) none))) (tailPlace anode pp disp) s.heap.size ∧
    r.1.states = s.states.push (tailChild L sit s cur anode disp (some s.heap.size)) ∧
    r.1.stack = s.states.size :: s.stack ∧
    r.1.table = s.table ∧ r.2 = os := by
  unfold candTail
  simp only [hone, hn]
  refine ⟨?_, ?_, ?_, ?_, rfl⟩
  · simp [apply_ite St.heap, tailPlace]
  · simp [apply_ite St.states, tailChild]
  · simp [apply_ite St.stack, apply_ite St.states]
  · simp [apply_ite St.table]

/-- `candTail`, new abstract node (both modes: in one-parse mode the table is not touched) -/
theorem htail_new {g : Grammar} {toks : List Nat} {c : Ctx}
    (hcyc : ¬ Cyclic g) (hsr : g.symsInRange = true)
    {s1 : St} {Γ1 : Gh} (hi : HSt g toks.length s1 Γ1) (hslt : ∀ x ∈ s1.stack, x < s1.states.size)
    {L : Loc} {cur pa d A sr k hiX : Nat} {rlX rl' : Rule}
    (hcur : cur ∈ s1.stack)
    (c1 : (s1.states.getD cur default).rule = L.rule) (c2 : (s1.states.getD cur default).pos = L.pos)
    (c3 : (s1.states.getD cur default).orig = L.orig)
    (c4 : (s1.states.getD cur default).parentDisp = L.parentDisp)
    (hpa : (s1.states.getD (s1.states.getD cur default).parent default).anode = some pa)
    (hshi : Γ1.shi cur = hiX)
    (hr : g.rules[L.rule]? = some rlX) (hd : rlX.order.getD L.pos none = some d)
    (hr' : g.rules[sr]? = some rl') (hlhs : rl'.lhs = A)
    (hbelow : Below g A k L.plInd rlX.lhs L.orig hiX) (hplN : L.plInd ≤ toks.length)
    {name : String} {r : St}
    (p1 : r.heap = placeTranslation (s1.heap.push (.anode name (c.rule sr).cost
        (Array.replicate ((c.rule sr).transLen + 1) none)))
        (tailPlace (s1.states.getD cur default).anode (pa, L.parentDisp) d) s1.heap.size)
    (p2 : r.states = s1.states.push (tailChild L ⟨sr, rl'.rhs.length, k⟩ s1 cur
        (s1.states.getD cur default).anode d (some s1.heap.size)))
    (p3 : r.stack = s1.states.size :: s1.stack)
    (p4 : r.table = s1.table ∨ r.table = tableInsert s1.table sr k L.plInd s1.heap.size) :
    ∃ Γ2, HSt g toks.length r Γ2 ∧ GhExt Γ1 Γ2 s1.heap.size s1.states.size ∧ Keeps s1 r := by
  have hsc := hi.sts cur hcur
  have hrc : g.rules[(s1.states.getD cur default).rule]? = some rlX := by rw [c1]; exact hr
  have hdc : rlX.order.getD (s1.states.getD cur default).pos none = some d := by rw [c2]; exact hd
  have hfst := tailPlace_fst (sts := s1.states) (t := s1.states.getD cur default) (pd := L.parentDisp)
    (d := d) hpa
  have htcl := tcell_lt hsc
  have hrk : rhoI g A k L.plInd + 1 < Γ1.rho (tcell s1.states (s1.states.getD cur default)) :=
    hsc.tr rlX hrc A k L.plInd (by rw [hshi, c3]; exact hbelow) hplN
  -- the place of `cur` is open
  have hopen : Open g s1.states s1.stack
      (tailPlace (s1.states.getD cur default).anode (pa, L.parentDisp) d).1
      (tailPlace (s1.states.getD cur default).anode (pa, L.parentDisp) d).2 := by
    unfold tailPlace
    cases han : (s1.states.getD cur default).anode with
    | some a => exact Or.inr ⟨cur, hcur, han, rlX, hrc, hdc⟩
    | none =>
      simp only
      rw [← c4]
      exact HInv.tgt_open hi hcur hpa
  have hbelow' : Below g A k L.plInd rlX.lhs (s1.states.getD cur default).orig hiX := by
    rw [c3]; exact hbelow
  generalize hx : MNode.anode name (c.rule sr).cost (Array.replicate ((c.rule sr).transLen + 1) none) = x at p1
  -- the cell
  have hxk : ∀ d' k', getKid (s1.heap.push x) s1.heap.size d' = some k' → False := by
    intro d' k' hk
    rw [getKid_of_cell (by rw [getD_push_eq, ← hx])] at hk
    simp [Array.getD_eq_getD_getElem?, Array.getElem?_replicate] at hk
    split at hk <;> simp at hk
  have hiA := HInv.pushCell hi x (rhoI g A k L.plInd + 1)
    (by rw [← hx]; exact push_anode_hw hi.hw _ _ _ (Nat.succ_pos _))
    (fun d' k' hk => (hxk d' k' hk).elim)
  have hcellx : (s1.heap.push x).getD s1.heap.size .nil = x := getD_push_eq _ _ _
  have hnax : isAlt (s1.heap.push x) s1.heap.size = false := by unfold isAlt; rw [hcellx, ← hx]
  have hrhoN : (Γ1.newCell s1.heap.size (rhoI g A k L.plInd + 1)).rho s1.heap.size =
      rhoI g A k L.plInd + 1 := upd_same _ _ _
  have hrhoO : ∀ i, i < s1.heap.size →
      (Γ1.newCell s1.heap.size (rhoI g A k L.plInd + 1)).rho i = Γ1.rho i :=
    fun i hi' => (Γ1.newCell_old _ hi').1
  -- the state
  have hchild := child_sinv (t' := tailChild L ⟨sr, rl'.rhs.length, k⟩ s1 cur
      (s1.states.getD cur default).anode d (some s1.heap.size)) (an := some s1.heap.size)
    hcyc hsr hiA hslt hcur hrc hdc hshi hr' hlhs hbelow' hplN rfl rfl rfl rfl rfl
    (by simp only [tailChild, c4]; rfl) rfl
    (fun nd hnd => by injection hnd with hnd; subst hnd; exact ⟨by simp, hrhoN⟩)
  have hiB := HInv.pushState hiA _ L.plInd hslt hchild (by
    intro a rl d' ha _ _
    have ha' : some s1.heap.size = some a := ha
    injection ha' with ha'; subst ha'
    intro k' hk'
    exact (hxk d' k' hk').elim)
  -- the table
  have hiC : HInv g toks.length (s1.heap.push x) (s1.states.push (tailChild L ⟨sr, rl'.rhs.length, k⟩ s1 cur
      (s1.states.getD cur default).anode d (some s1.heap.size))) (s1.states.size :: s1.stack) r.table
      ((Γ1.newCell s1.heap.size (rhoI g A k L.plInd + 1)).setHi s1.states.size L.plInd) := by
    rcases p4 with p4 | p4
    · rw [p4]; exact hiB
    · rw [p4]
      exact HInv.tableInsert (r := sr) (o := k) (pl := L.plInd) hiB
        (show s1.heap.size < (s1.heap.push x).size by simp) hnax (by
          intro rl hrl
          rw [hr'] at hrl; injection hrl with hrl; subst hrl
          rw [hlhs]; exact hrhoN)
  -- the node is placed
  obtain ⟨Γ2, hiD, hext, hsz, _⟩ := HInv.place hiC
    (a := (tailPlace (s1.states.getD cur default).anode (pa, L.parentDisp) d).1)
    (d := (tailPlace (s1.states.getD cur default).anode (pa, L.parentDisp) d).2)
    (node := s1.heap.size) (by simp) hnax (by
      intro nm cc ks _
      refine ⟨?_, ?_⟩
      · show (Γ1.newCell _ _).rho _ < (Γ1.newCell _ _).rho _
        rw [hrhoN, hfst, hrhoO _ htcl]; exact hrk
      · exact hopen.mono (fun sid hm => ⟨List.mem_cons_of_mem _ hm, getD_push_lt' (hslt sid hm)⟩))
  refine ⟨Γ2, HSt.of_eq hiD p1 p2 p3 rfl, ?_, ?_⟩
  · refine ⟨fun i hi' => ?_, fun y hy => ?_⟩
    · rw [hext.1 i (by simp; omega)]; exact hrhoO i hi'
    · rw [hext.2 y (by simp; omega)]; exact upd_ne _ _ (by omega)
  · refine ⟨by rw [p2]; simp, fun y hy => by rw [p2]; exact getD_push_lt' hy,
      fun y hy => by rw [p3]; exact List.mem_cons_of_mem _ hy, ?_⟩
    have hsz' : (s1.heap.push x).size ≤ (placeTranslation (s1.heap.push x)
        (tailPlace (s1.states.getD cur default).anode (pa, L.parentDisp) d) s1.heap.size).size := hsz
    rw [p1]; simp only [Array.size_push] at hsz'; omega

/-- **`candTail` keeps the invariant**: `cur` is the state the candidate `(sr, k)` is attached to
(the original state or a copy), the instance of the candidate is below the instance of `cur` -/
theorem htail {g : Grammar} {toks : List Nat} {c : Ctx}
    (hrule : ∀ {r : Nat} {rl : Rule}, g.rules[r]? = some rl → c.rule r = rl) (hcyc : ¬ Cyclic g) (hsr : g.symsInRange = true)
    {s1 : St} {Γ1 : Gh} (hi : HSt g toks.length s1 Γ1) (hslt : ∀ x ∈ s1.stack, x < s1.states.size)
    {L : Loc} {cur pa d A sr k hiX : Nat} {rlX rl' : Rule} (os : List Nat)
    (hcur : cur ∈ s1.stack)
    (c1 : (s1.states.getD cur default).rule = L.rule) (c2 : (s1.states.getD cur default).pos = L.pos)
    (c3 : (s1.states.getD cur default).orig = L.orig)
    (c4 : (s1.states.getD cur default).parentDisp = L.parentDisp)
    (hpa : (s1.states.getD (s1.states.getD cur default).parent default).anode = some pa)
    (hshi : Γ1.shi cur = hiX)
    (hr : g.rules[L.rule]? = some rlX) (hd : rlX.order.getD L.pos none = some d)
    (hr' : g.rules[sr]? = some rl') (hlhs : rl'.lhs = A)
    (hbelow : Below g A k L.plInd rlX.lhs L.orig hiX) (hplN : L.plInd ≤ toks.length) :
    ∃ Γ2, HSt g toks.length (candTail c L ⟨sr, rl'.rhs.length, k⟩ (pa, L.parentDisp) d
        (s1, os, cur, (s1.states.getD cur default).anode)).1 Γ2 ∧
      GhExt Γ1 Γ2 s1.heap.size s1.states.size ∧
      Keeps s1 (candTail c L ⟨sr, rl'.rhs.length, k⟩ (pa, L.parentDisp) d
        (s1, os, cur, (s1.states.getD cur default).anode)).1 ∧
      (candTail c L ⟨sr, rl'.rhs.length, k⟩ (pa, L.parentDisp) d
        (s1, os, cur, (s1.states.getD cur default).anode)).2 = os := by
  have hsc := hi.sts cur hcur
  have hrc : g.rules[(s1.states.getD cur default).rule]? = some rlX := by rw [c1]; exact hr
  have hdc : rlX.order.getD (s1.states.getD cur default).pos none = some d := by rw [c2]; exact hd
  have hrule' : c.rule sr = rl' := hrule hr'
  have hfst := tailPlace_fst (sts := s1.states) (t := s1.states.getD cur default) (pd := L.parentDisp)
    (d := d) hpa
  have htcl := tcell_lt hsc
  have hrk : rhoI g A k L.plInd + 1 < Γ1.rho (tcell s1.states (s1.states.getD cur default)) :=
    hsc.tr rlX hrc A k L.plInd (by rw [hshi, c3]; exact hbelow) hplN
  -- the place of `cur` is open
  have hopen : Open g s1.states s1.stack
      (tailPlace (s1.states.getD cur default).anode (pa, L.parentDisp) d).1
      (tailPlace (s1.states.getD cur default).anode (pa, L.parentDisp) d).2 := by
    unfold tailPlace
    cases han : (s1.states.getD cur default).anode with
    | some a => exact Or.inr ⟨cur, hcur, han, rlX, hrc, hdc⟩
    | none =>
      simp only
      rw [← c4]
      exact HInv.tgt_open hi hcur hpa
  have hbelow' : Below g A k L.plInd rlX.lhs (s1.states.getD cur default).orig hiX := by
    rw [c3]; exact hbelow
  cases hn : (c.rule sr).anode with
  | some name =>
    rw [hrule'] at hn
    cases hone : c.oneParse with
    | true =>
      obtain ⟨p1, p2, p3, p4, p7⟩ := candTail_new_one (c := c) (L := L) (sit := ⟨sr, rl'.rhs.length, k⟩)
        (pp := (pa, L.parentDisp)) (disp := d) (s := s1) (os := os) (cur := cur)
        (anode := (s1.states.getD cur default).anode) hone (by rw [hrule']; exact hn)
      simp only at p1 p2 p3 p4 p7
      obtain ⟨Γ2, q1, q2, q3⟩ := htail_new (c := c) hcyc hsr hi hslt hcur c1 c2 c3 c4 hpa hshi hr hd hr'
        hlhs hbelow hplN p1 p2 p3 (Or.inl p4)
      exact ⟨Γ2, q1, q2, q3, p7⟩
    | false =>
    cases hf : tableFind s1.table sr k L.plInd with
    | none =>
      -- a new abstract node
      obtain ⟨p1, p2, p3, p4, _, _, p7⟩ := candTail_new (c := c) (L := L) (sit := ⟨sr, rl'.rhs.length, k⟩)
        (pp := (pa, L.parentDisp)) (disp := d) (s := s1) (os := os) (cur := cur)
        (anode := (s1.states.getD cur default).anode) hone (by rw [hrule']; exact hn) hf
      simp only at p1 p2 p3 p4 p7
      obtain ⟨Γ2, q1, q2, q3⟩ := htail_new (c := c) hcyc hsr hi hslt hcur c1 c2 c3 c4 hpa hshi hr hd hr'
        hlhs hbelow hplN p1 p2 p3 (Or.inr p4)
      exact ⟨Γ2, q1, q2, q3, p7⟩
    | some node =>
      -- a reused abstract node
      obtain ⟨p1, p2, p3, p4, _, _, p7⟩ := candTail_reuse (c := c) (L := L) (sit := ⟨sr, rl'.rhs.length, k⟩)
        (pp := (pa, L.parentDisp)) (disp := d) (s := s1) (os := os) (cur := cur)
        (anode := (s1.states.getD cur default).anode) hone (by rw [hrule']; exact hn) hf
      obtain ⟨t1, t2, t3⟩ := hi.table L.plInd sr k node (tableFind_mem hf)
      obtain ⟨Γ2, hiD, hext, hsz, _⟩ := HInv.place hi
        (a := (tailPlace (s1.states.getD cur default).anode (pa, L.parentDisp) d).1)
        (d := (tailPlace (s1.states.getD cur default).anode (pa, L.parentDisp) d).2)
        (node := node) t1 t2 (by
          intro nm cc ks _
          refine ⟨?_, hopen⟩
          rw [t3 rl' hr', hlhs, hfst]; exact hrk)
      exact ⟨Γ2, HSt.of_eq hiD p1 p2 p3 p4, hext,
        ⟨by rw [p2]; exact Nat.le_refl _, fun y _ => by rw [p2], fun y hy => by rw [p3]; exact hy,
         by rw [p1]; exact hsz⟩, p7⟩
  | none =>
    rw [hrule'] at hn
    by_cases hdot : rl'.rhs.length = 0
    · -- an empty rule without abstract node: the empty node
      obtain ⟨p1, p2, p3, p4, _, _, p7⟩ := candTail_nil (c := c) (L := L) (sit := ⟨sr, rl'.rhs.length, k⟩)
        (pp := (pa, L.parentDisp)) (disp := d) (s := s1) (os := os) (cur := cur)
        (anode := (s1.states.getD cur default).anode) (by rw [hrule']; exact hn) hdot
      have hr0 : (0 : Nat) < s1.heap.size := by have : 2 < s1.heap.size := hi.rootLt; omega
      have hn0 : isAlt s1.heap nilId = false := by unfold isAlt; rw [hi.nil0]
      obtain ⟨Γ2, hiD, hext, hsz, _⟩ := HInv.place hi
        (a := (tailPlace (s1.states.getD cur default).anode (pa, L.parentDisp) d).1)
        (d := (tailPlace (s1.states.getD cur default).anode (pa, L.parentDisp) d).2)
        (node := nilId) hr0 hn0 (by
          intro nm cc ks hcell
          refine ⟨?_, hopen⟩
          have h0 := hi.hw.rho_leaf (i := nilId) hr0 (fun nm c ks e => by rw [hi.nil0] at e; cases e) hn0
          rw [h0]
          exact hi.hw.rho_anode_pos hcell)
      exact ⟨Γ2, HSt.of_eq hiD p1 p2 p3 p4, hext,
        ⟨by rw [p2]; exact Nat.le_refl _, fun y _ => by rw [p2], fun y hy => by rw [p3]; exact hy,
         by rw [p1]; exact hsz⟩, p7⟩
    · -- a state without abstract node
      obtain ⟨p1, p2, p3, p4, _, _, p7⟩ := candTail_pass (c := c) (L := L) (sit := ⟨sr, rl'.rhs.length, k⟩)
        (pp := (pa, L.parentDisp)) (disp := d) (s := s1) (os := os) (cur := cur)
        (anode := (s1.states.getD cur default).anode) (by rw [hrule']; exact hn) hdot
      have hchild := child_sinv (t' := tailChild L ⟨sr, rl'.rhs.length, k⟩ s1 cur
          (s1.states.getD cur default).anode d none) (an := none)
        hcyc hsr hi hslt hcur hrc hdc hshi hr' hlhs hbelow' hplN rfl rfl rfl rfl rfl
        (by simp only [tailChild, c4]; rfl) rfl (fun nd hnd => by cases hnd)
      have hiB := HInv.pushState hi _ L.plInd hslt hchild (by
        intro a rl d' ha _ _
        cases ha)
      refine ⟨_, HSt.of_eq hiB p1 p2 p3 p4, ⟨fun _ _ => rfl, fun y hy => upd_ne _ _ (by omega)⟩, ?_, p7⟩
      exact ⟨by rw [p2]; simp, fun y hy => by rw [p2]; exact getD_push_lt' hy,
        fun y hy => by rw [p3]; exact List.mem_cons_of_mem _ hy, by rw [p1]; exact Nat.le_refl _⟩

end Yaep.MP
