import Yaep.Lemmas.MakeParseFlagOn
/-!
# The ambiguity flag of `make_parse`, part 5: one step of the main loop along a derivation

`step_on`: if the ghost derivations are the subtrees of the derivation `pt0` and the step leaves
the flag off, the ghost derivations after the step are again the subtrees of `pt0`.
-/
namespace Yaep.MP
open Yaep

/-- the right context of the nonterminal the states below the top wait for: a symbol string
covered by FOLLOW that derives the rest of the input -/
theorem BelowOK.rctx {g : Grammar} (hsr : g.symsInRange = true) {ok : Nat → Nat → Nat → Bool}
    {toks : List Nat} {h : Array MNode} {sts : Array PState} :
    ∀ {rest : List Nat} {frs : List Frame} {hi sb : Nat} {tgt : Nat × Nat} {A cLo cFin : Nat},
      BelowOK g ok toks h sts rest frs hi sb tgt A cLo cFin →
      ∃ γ, FollowCovers g A γ ∧ Der g γ (toks.drop cFin)
  | [], frs, hi, sb, tgt, A, cLo, cFin, hb => by
    simp only [BelowOK] at hb
    obtain ⟨_, _, rfl, rfl, rfl, _⟩ := hb
    exact ⟨[], FollowCovers.nil g _, by rw [List.drop_length]; exact Der.nil⟩
  | sid :: rest, [], hi, sb, tgt, A, cLo, cFin, hb => by simp [BelowOK] at hb
  | sid :: rest, fr :: frs, hi, sb, tgt, A, cLo, cFin, hb => by
    simp only [BelowOK] at hb
    obtain ⟨_, _, rl, d, pa, h3, h4, _, h6, h7, h8, _, hm⟩ := hb
    have hbelow : ∃ hi' tgt', BelowOK g ok toks h sts rest frs hi' sid tgt' rl.lhs
        (sts.getD sid default).orig fr.fin := by
      split at hm
      · obtain ⟨_, _, _, _, _, m6⟩ := hm; exact ⟨_, _, m6⟩
      · obtain ⟨_, _, _, m4⟩ := hm; exact ⟨_, _, m4⟩
    obtain ⟨hi', tgt', hb'⟩ := hbelow
    obtain ⟨γ, hcov, hγ⟩ := BelowOK.rctx hsr hb'
    exact ⟨rl.rhs.drop ((sts.getD sid default).pos + 1) ++ γ,
      FollowCovers.predict hsr h3 h4 hcov, h8.der_drop hγ⟩

/-- the items of the subtree of `pt0` for the nonterminal before the dot of the top state are in
the Earley sets: the item of the top state with the dot before the nonterminal, at the start of
the subtree, and the completed item of the subtree, at the current list index -/
theorem top_items {g : Grammar} (hsr : g.symsInRange = true) {ok : Nat → Nat → Nat → Bool}
    {toks : List Nat} (hok : OkDer g ok toks) {h : Array MNode} {sts : Array PState} {sid : Nat}
    {rest : List Nat} {fr : Frame} {frs : List Frame} {rl : Rule} {A m r'' : Nat}
    {pre kids'' : List PT}
    (htop : TopOK g ok toks h sts (sid :: rest) (fr :: frs))
    (hpos : (sts.getD sid default).pos ≠ 0)
    (hr : g.rules[(sts.getD sid default).rule]? = some rl)
    (hX : rl.rhs[(sts.getD sid default).pos - 1]? = some (.n A))
    (hpre : PT.ValidListAt g toks pre (rl.rhs.take ((sts.getD sid default).pos - 1))
      (sts.getD sid default).orig m)
    (hx : PT.ValidAt g toks (.node r'' kids'') (.n A) m (sts.getD sid default).plInd) :
    EarleyF g ok toks m ⟨(sts.getD sid default).rule, (sts.getD sid default).pos - 1,
      (sts.getD sid default).orig⟩ ∧
    ∃ rl'', g.rules[r'']? = some rl'' ∧ rl''.lhs = A ∧
      PT.ValidListAt g toks kids'' rl''.rhs m (sts.getD sid default).plInd ∧
      EarleyF g ok toks (sts.getD sid default).plInd ⟨r'', rl''.rhs.length, m⟩ := by
  simp only [TopOK] at htop
  obtain ⟨_, _, rl', pa, t3, t4, _, t6, t7, _, tm⟩ := htop
  rw [hr] at t3; injection t3 with t3; subst t3
  rw [if_neg hpos] at t7
  have hbelow : ∃ hi' tgt', BelowOK g ok toks h sts rest frs hi' sid tgt' rl.lhs
      (sts.getD sid default).orig fr.fin := by
    split at tm
    · obtain ⟨_, _, _, m4⟩ := tm; exact ⟨_, _, m4⟩
    · obtain ⟨_, m4⟩ := tm; exact ⟨_, _, m4⟩
  obtain ⟨hi', tgt', hb'⟩ := hbelow
  obtain ⟨γ, hcov, hγ⟩ := BelowOK.rctx hsr hb'
  have hpp : (sts.getD sid default).pos - 1 + 1 = (sts.getD sid default).pos := by omega
  have hdropX : rl.rhs.drop ((sts.getD sid default).pos - 1) =
      Sym.n A :: rl.rhs.drop (sts.getD sid default).pos := by
    have := drop_of_getElem? hX
    rw [hpp] at this
    exact this
  have hE0 := (t6 hpos).origin_item
  simp only at hE0
  -- the rest of the right-hand side from the nonterminal on, followed by the right context
  have hrem : Der g (rl.rhs.drop ((sts.getD sid default).pos - 1) ++ γ) (toks.drop m) := by
    rw [hdropX]
    exact PT.ValidListAt.der_drop (.cons hx t7) hγ
  have hlen : (rl.rhs.take ((sts.getD sid default).pos - 1)).length = (sts.getD sid default).pos - 1 := by
    rw [List.length_take]; omega
  have hE1 := EarleyF.advance_valid hsr hok hE0 hr
    (by rw [List.drop_zero, List.take_append_drop]) hpre hrem hcov
  rw [Nat.zero_add, hlen] at hE1
  refine ⟨hE1, ?_⟩
  cases hx with
  | node hr'' hl'' hk'' =>
    rename_i rl''
    refine ⟨rl'', hr'', hl'', hk'', ?_⟩
    have hns : g.nextSym (sts.getD sid default).rule ((sts.getD sid default).pos - 1) = some (Sym.n A) :=
      nextSym_eq_some.mpr ⟨rl, hr, hX⟩
    have hp := EarleyF.predict hE1 hns hr'' hl''
    have hcov' := FollowCovers.predict hsr hr hX hcov
    rw [hpp] at hcov'
    have hrem' : Der g ([] ++ (rl.rhs.drop (sts.getD sid default).pos ++ γ))
        (toks.drop (sts.getD sid default).plInd) := by
      rw [List.nil_append]
      exact t7.der_drop hγ
    have hE2 := EarleyF.advance_valid hsr hok hp hr'' (by rw [List.drop_zero, List.append_nil])
      hk'' hrem' (by rw [hl'']; exact hcov')
    rw [Nat.zero_add] at hE2
    exact hE2

/-- a completed item for `A` in the current set whose origin holds the item of the top state with
the dot before `A` is a reduce candidate that passes the check loop -/
theorem cand_of_items {g : Grammar} {ok : Nat → Nat → Nat → Bool} {toks : List Nat} {c : Ctx}
    (hcc : CtxOKc g ok toks c) {s : St} {sid A r' k : Nat} {rl rl' : Rule}
    (hr : g.rules[(s.state sid).rule]? = some rl)
    (hX : rl.rhs[(s.state sid).pos - 1]? = some (.n A))
    (hr' : g.rules[r']? = some rl') (hlhs : rl'.lhs = A)
    (hE1 : EarleyF g ok toks (s.state sid).plInd ⟨r', rl'.rhs.length, k⟩)
    (hE2 : EarleyF g ok toks k ⟨(s.state sid).rule, (s.state sid).pos - 1, (s.state sid).orig⟩) :
    ∃ i ∈ reduces c (c.sets.getD (s.state sid).plInd #[]) A,
      (c.sets.getD (s.state sid).plInd #[]).getD i default = ⟨r', rl'.rhs.length, k⟩ ∧
      checkFound c (ntLoc c s sid A)
        ((c.sets.getD (s.state sid).plInd #[]).getD i default).origin = true := by
  obtain ⟨i, hi1, hi2⟩ := hcc.complete _ _ hE1
  obtain ⟨ci, hc1, hc2⟩ := hcc.complete _ _ hE2
  have hrule := hcc.toCtxOK.rule_eq hr
  have hrule' := hcc.toCtxOK.rule_eq hr'
  refine ⟨i, ?_, hi2, ?_⟩
  · unfold reduces
    rw [List.mem_filter, List.mem_range]
    refine ⟨hi1, ?_⟩
    rw [hi2]
    simp [hrule', hlhs]
  · rw [hi2]
    unfold checkFound
    simp only [List.any_eq_true, Bool.and_eq_true, beq_iff_eq]
    refine ⟨ci, ?_, ?_⟩
    · unfold transitions
      rw [List.mem_filter, List.mem_range]
      refine ⟨hc1, ?_⟩
      rw [hc2]
      simp only [Ctx.after, ntLoc, hrule, hX, beq_self_eq_true]
    · rw [hc2]; simp [ntLoc]

/-- a state that has not processed anything yet has no finished children -/
theorem TopOK.done_nil {g : Grammar} {ok : Nat → Nat → Nat → Bool} {toks : List Nat}
    {h : Array MNode} {sts : Array PState} {Y : Nat} {rest : List Nat} {frY : Frame}
    {frs : List Frame} {rl' : Rule}
    (htop : TopOK g ok toks h sts (Y :: rest) (frY :: frs))
    (hr' : g.rules[(sts.getD Y default).rule]? = some rl')
    (hp : (sts.getD Y default).pos = rl'.rhs.length) : frY.done = [] := by
  simp only [TopOK] at htop
  obtain ⟨_, _, rl, pa, t3, _, _, _, t7, _⟩ := htop
  rw [hr'] at t3; injection t3 with t3; subst t3
  rw [hp, List.drop_length] at t7
  exact (ValidListAt.nil_inv t7).1

/-- the invariant along the derivation `pt0`: the ghost derivations are the subtrees of `pt0` -/
def OnGood (g : Grammar) (ok : Nat → Nat → Nat → Bool) (toks : List Nat) (pt0 : PT) (s : St) : Prop :=
  s.heap.getD nilId .nil = .nil ∧ s.heap.getD errId .nil = .err ∧
  ((s.stack = [] ∧ FinalP g toks pt0 s.heap) ∨
   ∃ frs, TopOK g ok toks s.heap s.states s.stack frs ∧ OnTop g toks pt0 s.states s.stack frs)

/-- **one step along `pt0`**: if the flag is still off after the step, the machine has followed
`pt0` -/
theorem step_on {g : Grammar} {ok : Nat → Nat → Nat → Bool} {toks : List Nat} {c : Ctx} {s : St}
    {pt0 : PT} (hcc : CtxOKc g ok toks c) (hg : GrOK g) (hsr : g.symsInRange = true)
    (hok : OkDer g ok toks) (hgood : OnGood g ok toks pt0 s) (hamb : (step c s).amb = false) :
    (step c s).bad = true ∨ OnGood g ok toks pt0 (step c s) := by
  have hc := hcc.toCtxOK
  obtain ⟨h0, h1, hmain⟩ := hgood
  rcases hmain with ⟨hempty, hfin⟩ | ⟨frs, htop, hon⟩
  · have : step c s = s := by unfold step; rw [hempty]
    rw [this]; exact Or.inr ⟨h0, h1, Or.inl ⟨hempty, hfin⟩⟩
  · cases hst : s.stack with
    | nil => rw [hst] at htop; simp [TopOK] at htop
    | cons sid rest =>
      rw [hst] at htop hon
      cases frs with
      | nil => simp [TopOK] at htop
      | cons fr frs =>
      have est : s.states.getD sid default = s.state sid := rfl
      by_cases hpos : (s.state sid).pos = 0
      · obtain ⟨a0, a1, _, a3, a4, a5⟩ := pres_pop_x hc hg h0 h1 hst htop hpos
        right
        refine ⟨a0, a1, ?_⟩
        have hb := hon.pop hpos
        rw [est] at hb
        rcases a5 with ⟨hr, hfin⟩ | ⟨sid', rest', fr', frs', hr, hf, htop'⟩
        · subst hr
          left
          refine ⟨a4, ?_⟩
          simp only [OnBelow] at hb
          rw [← hb]; exact hfin
        · subst hr; subst hf
          right
          exact ⟨_, by rw [a3, a4]; exact htop', by rw [a3, a4]; exact hb.to_top⟩
      · have htop' := htop
        simp only [TopOK] at htop'
        obtain ⟨t1, _, rl, _, t3, t4, _⟩ := htop'
        have t1' : sid < s.states.size := t1
        have t3' : g.rules[(s.state sid).rule]? = some rl := t3
        have t4' : (s.state sid).pos ≤ rl.rhs.length := t4
        have hlt : (s.state sid).pos - 1 < rl.rhs.length := by omega
        cases hX : rl.rhs[(s.state sid).pos - 1] with
        | t a =>
          have hX' : rl.rhs[(s.state sid).pos - 1]? = some (.t a) := by
            rw [List.getElem?_eq_getElem hlt, hX]
          obtain ⟨j0, hj, _, htop2, b0, b1, _, bk, bs⟩ := pres_term_x hc hg h0 h1 hst htop hpos t3' hX'
          right
          refine ⟨b0, b1, Or.inr ⟨_, by rw [bk]; exact htop2, ?_⟩⟩
          rw [bk]
          obtain ⟨pre, x, m, hpre, hx, hbel⟩ := hon.split hpos t3 hX'
          generalize hplg : (s.states.getD sid default).plInd = plg at hx
          cases hx with
          | leaf hw =>
            have hplg' : (s.state sid).plInd = m + 1 := hplg
            have hm : m = j0 := by omega
            subst hm
            have hu : StsUpd s.states (step c s).states sid
                { s.state sid with pos := (s.state sid).pos - 1,
                                   plInd := if (s.state sid).pos - 1 != 0 then (s.state sid).plInd - 1
                                            else (s.state sid).plInd } := by
              rw [bs]; exact StsUpd.set _ t1'
            refine OnTop.advance t3 hpre hbel hu.same hu.other rfl rfl rfl ?_
            intro hp
            have hp' : ((s.state sid).pos - 1 != 0) = true := by simpa using hp
            simp only [hp', if_true]
            omega
        | n A =>
          have hX' : rl.rhs[(s.state sid).pos - 1]? = some (.n A) := by
            rw [List.getElem?_eq_getElem hlt, hX]
          rcases pres_nt_x hc hg h0 h1 hst htop hpos t3' hX' with
            ⟨_, hbad⟩ | ⟨i, hi, hf, sr, so, rl', hsit, hr', hlhs, hall⟩
          · exact Or.inl hbad
          · obtain ⟨pre, x, m, hpre, hx, hbel⟩ := hon.split hpos t3 hX'
            cases x with
            | leaf a p => cases hx
            | node r'' kids'' =>
            obtain ⟨hE1, rl'', hr'', hl'', hk'', hE2⟩ := top_items hsr hok htop hpos t3 hX' hpre hx
            obtain ⟨i', hi', hsit', hf'⟩ := cand_of_items hcc (s := s) (sid := sid) t3' hX' hr'' hl'' hE2 hE1
            have hsym : (c.rule (s.state sid).rule).rhs.getD ((s.state sid).pos - 1) (.t 0) = .n A := by
              rw [hc.rule_eq t3']; exact getD_of_getElem? hX'
            have hii : i' = i := step_nt_unique hc.one hst hpos hsym hamb hi' hi hf' hf
            subst hii
            rw [hsit'] at hsit
            injection hsit with e1 e2 e3
            subst e1; subst e3
            rw [hr''] at hr'; injection hr' with hr'; subst hr'
            obtain ⟨_, c2, c3, c4, c5⟩ := hall kids'' hk''
            right
            refine ⟨c3, c4, Or.inr ?_⟩
            rcases c5 with ⟨ck, ctop⟩ | ⟨frY, ck, ctop, y1, y2, y3, y4⟩
            · exact ⟨_, by rw [ck]; exact ctop, by
                rw [ck]; exact OnTop.advance t3 hpre hbel c2.same c2.other rfl rfl rfl (fun _ => rfl)⟩
            · have hdone : frY.done = [] := TopOK.done_nil ctop (by rw [y1]; exact hr'') y2
              exact ⟨_, by rw [ck]; exact ctop, by
                rw [ck]; exact OnTop.push t3 hpre hbel c2.same c2.other rfl rfl rfl rfl t1' hr'' hk''
                  y1 y2 y3 y4 hdone⟩

/-! ## the whole run -/

/-- the invariant of the run along `pt0`: flagged, or ambiguous, or on `pt0` -/
def CInv (g : Grammar) (ok : Nat → Nat → Nat → Bool) (toks : List Nat) (pt0 : PT) (s : St) : Prop :=
  s.bad = true ∨ s.amb = true ∨ OnGood g ok toks pt0 s

theorem step_cinv {g : Grammar} {ok : Nat → Nat → Nat → Bool} {toks : List Nat} {c : Ctx} {s : St}
    {pt0 : PT} (hcc : CtxOKc g ok toks c) (hg : GrOK g) (hsr : g.symsInRange = true)
    (hok : OkDer g ok toks) (h : CInv g ok toks pt0 s) : CInv g ok toks pt0 (step c s) := by
  rcases h with hb | ha | hgood
  · exact Or.inl (step_bad hcc.toCtxOK.one hb)
  · exact Or.inr (Or.inl (step_amb_mono hcc.toCtxOK.one ha))
  · cases hamb : (step c s).amb with
    | true => exact Or.inr (Or.inl hamb)
    | false =>
      rcases step_on hcc hg hsr hok hgood hamb with hb | hg'
      · exact Or.inl hb
      · exact Or.inr (Or.inr hg')

theorem run_cinv {g : Grammar} {ok : Nat → Nat → Nat → Bool} {toks : List Nat} {c : Ctx}
    {pt0 : PT} (hcc : CtxOKc g ok toks c) (hg : GrOK g) (hsr : g.symsInRange = true)
    (hok : OkDer g ok toks) : ∀ (fuel : Nat) (s s' : St), CInv g ok toks pt0 s →
      run c fuel s = some s' → CInv g ok toks pt0 s'
  | 0, s, s', hinv, hr => by
    unfold run at hr
    split at hr
    · injection hr with hr; rw [← hr]; exact hinv
    · cases hr
  | fuel + 1, s, s', hinv, hr => by
    unfold run at hr
    split at hr
    · injection hr with hr; rw [← hr]; exact hinv
    · exact run_cinv hcc hg hsr hok fuel _ _ (step_cinv hcc hg hsr hok hinv) hr

end Yaep.MP
