import Yaep.Lemmas.BuildSet
/-!
# The ambiguity flag, part 8: the derived non-start situations of a set core are pairwise
distinct as pairs (situation, parent)

`set_add_new_nonstart_sit` scans the pairs already there; `ExpandSpec` records which pairs are in
the list `Core.derived`, here: no pair occurs twice.
-/
namespace Yaep.BS
open Yaep

theorem addNonstartSit_nodup {ss : List Sit} {c : Core} (h : L1Inv ss c) (sit : Sit) (p : Nat)
    (hn : c.derived.Nodup) : (addNonstartSit c sit p).derived.Nodup := by
  unfold addNonstartSit
  by_cases hd : dupNonstart c sit p = true
  · rw [if_pos hd]; exact hn
  · rw [if_neg hd]
    have hlen : (c.sits.drop c.nStart).length = c.parents.length := by
      rw [List.length_drop, h.len, h.nAll]; omega
    have hns : c.nStart ≤ c.sits.length := by rw [h.len, h.nAll]; omega
    have hI := (addNonstartSit_spec h sit p).1
    unfold addNonstartSit at hI
    rw [if_neg hd] at hI
    rw [hI.derived_eq]
    simp only
    rw [List.drop_append_of_le_length hns, List.zip_append hlen]
    rw [← h.derived_eq]
    have hnot : (sit, p) ∉ c.derived := by
      rw [h.derived_eq]
      unfold dupNonstart at hd
      simpa using hd
    rw [List.nodup_append]
    refine ⟨hn, by simp, ?_⟩
    intro a ha b hb
    simp only [List.zip_cons_cons, List.zip_nil_right, List.mem_singleton] at hb
    subst hb
    intro e; subst e; exact hnot ha

theorem addDerivedLoop_nodup {ss : List Sit} (nl : List Nat) (r p : Nat) (rest : List Sym) (i : Nat)
    {c : Core} (h : L1Inv ss c) (hn : c.derived.Nodup) :
    (addDerivedLoop nl r p rest i c).derived.Nodup := by
  induction rest generalizing i c with
  | nil => exact hn
  | cons s rest ih =>
    unfold addDerivedLoop
    by_cases hs : symNullable nl s = true
    · rw [if_pos hs]
      exact ih (i + 1) (addNonstartSit_spec h (r, i + 1) p).1 (addNonstartSit_nodup h _ _ hn)
    · rw [if_neg hs]; exact hn

theorem addDerivedNonstartSits_nodup {ss : List Sit} (g : Grammar) (an : Analysis) {c : Core}
    (h : L1Inv ss c) (sit : Sit) (p : Nat) (hn : c.derived.Nodup) :
    (addDerivedNonstartSits g an c sit p).derived.Nodup := by
  unfold addDerivedNonstartSits
  split
  · exact hn
  · exact addDerivedLoop_nodup _ _ _ _ _ h hn

theorem expandLoop1_nodup {ss : List Sit} (g : Grammar) (an : Analysis) {c : Core} (h : L1Inv ss c)
    (hd : c.derived = []) : (expandLoop1 g an c).derived.Nodup := by
  have : ∀ n, n ≤ ss.length → (loop1N g an c n).derived.Nodup := by
    intro n
    induction n with
    | zero => intro _; show c.derived.Nodup; rw [hd]; exact List.nodup_nil
    | succ n ih =>
      intro hn
      obtain ⟨hI, _, _⟩ := expandLoop1_aux g an h hd n (by omega)
      rw [loop1N_succ]
      exact addDerivedNonstartSits_nodup g an hI _ _ (ih (by omega))
  exact this c.nStart (by rw [h.nStart]; exact Nat.le_refl _)

/-- the derived non-start situations of an expanded core, with their parents, are pairwise
distinct -/
theorem expandNewStartSet_derived_nodup (g : Grammar) (an : Analysis) (num : Nat) (ss : List Sit) :
    (expandNewStartSet g an (Core.fresh num ss)).derived.Nodup := by
  unfold expandNewStartSet expandNewStartSetWith
  have h0 := L1Inv_fresh num ss
  have hd0 : (Core.fresh num ss).derived = [] := by simp [Core.derived, Core.fresh]
  have hnd := expandLoop1_nodup g an h0 hd0
  obtain ⟨h1, _, _⟩ := expandLoop1_spec g an h0 hd0
  generalize expandLoop1 g an (Core.fresh num ss) = c1 at h1 hnd
  obtain ⟨I, T, he, _⟩ := expandLoop2_spec g an h1
  dsimp only
  rw [he]
  obtain ⟨R, hR, _⟩ := loop3N_spec g c1 I T (c1.sits ++ I).length
  have e3 : expandLoop3 g (mk2 c1 I T []) = mk2 c1 I T R := hR
  rw [e3]
  have : (mk2 c1 I T R).derived = c1.derived := by
    show (((c1.sits ++ I).take c1.nAllDists).drop c1.nStart).zip c1.parents = _
    rw [← h1.len, List.take_left]
    unfold Core.derived
    rw [← h1.len, List.take_length]
  rw [this]; exact hnd

end Yaep.BS
