import Yaep.Lemmas.LaIndep2Unroll
import Yaep.Lemmas.LaIndep2Earley
import Yaep.Lemmas.LaIndepMain
/-!
# Lookahead independence at level 2, list part 5: the induction over the parse list

`setPair2`: the start pairs of set `j` at levels 0 and 2 (given that the earlier sets agree on their `prog`
pairs): those of level 2, without their contexts, are those of level 0 that pass the level-2 test with the
context `cx` of their rule and origin.  `prel2_all`: all sets agree on their `prog` pairs.
-/
namespace Yaep.LI2
open Yaep Yaep.BS Yaep.LI

/-- the parse list of the step model at level 2, and the abstract one -/
abbrev plC2 (g : Grammar) (w : List Nat) : List BS2.CSet2 := (BS2.buildPLC2 g w).2.2
abbrev plA2 (g : Grammar) (w : List Nat) : List (List Item2) := (buildPL2 g w).2

/-- what is known about an accepted run at level 2 -/
structure Lvl2Facts (g : Grammar) (w : List Nat) : Prop where
  len : (plC2 g w).length = (w ++ [g.eofT]).length + 1
  lenA : (plA2 g w).length = (w ++ [g.eofT]).length + 1
  plok : BS2.PLOK2 g (plA2 g w) (plC2 g w)
  inv : Inv2 g (w ++ [g.eofT]) (plA2 g w)
  orig : OrigInv (plA2 g w)

theorem lvl2Facts {g : Grammar} (hwf : g.WF) (hsr : g.symsInRange = true) {w : List Nat}
    (hacc : (BS2.buildPLC2 g w).1 = none) : Lvl2Facts g w := by
  obtain ⟨e1, _, h3⟩ := BS2.buildPLC2_spec hwf hsr w
  rw [e1] at hacc
  have hl := length_buildPL2 hacc
  exact ⟨by show (BS2.buildPLC2 g w).2.2.length = _; rw [← h3.len]; exact hl, hl, h3,
    inv2_buildPL2 hwf hsr w, origInv_buildPL2 hwf hsr w⟩

/-! ## the level-2 test on situations -/

theorem ok2_of_prog {g : Grammar} {nxt : Option Nat} {s : Sit} (c : List Nat)
    (h : prog g nxt s = true) : ok2 g g.analysis nxt s.1 s.2 c = true := by
  cases nxt with
  | none => simp [prog] at h
  | some a =>
    obtain ⟨rl, hr, ha⟩ := progA_iff.mp h
    exact ok2_some.mpr (Or.inl (la2_of_first hr c ha))

theorem ok2_of_chain {g : Grammar} {nxt : Option Nat} {s q : Sit} {c : List Nat}
    (hq : q ∈ chainOf g g.nullable s) (h : ok2 g g.analysis nxt q.1 q.2 c = true) :
    ok2 g g.analysis nxt s.1 s.2 c = true := by
  obtain ⟨rl, k, hr, hk, rfl⟩ := mem_chainOf.mp hq
  obtain ⟨hd, hl⟩ := der_nil_of_nullRun hk
  have := la2_sub_nullable_str hr ((rl.rhs.drop s.2).take (k + 1)) s.2 ((rl.rhs.drop s.2).drop (k + 1)) c
    (List.take_append_drop _ _).symm hd
  rw [hl] at this
  refine ok2_mono ?_ h
  intro a ha
  apply this
  rw [← Nat.add_assoc]
  exact ha

/-- a completed-tail item inherits the test of the shifted parent through its context -/
theorem ok2_of_parent {g : Grammar} {nxt : Option Nat} {r d : Nat} {c c' : List Nat} {s : Sit} {rl' : Rule}
    (hr' : g.rules[s.1]? = some rl') (het : emptyTailP g g.analysis s = true)
    (hsub : ∀ a ∈ la2 g g.analysis r (d + 1) c, a ∈ c')
    (h : ok2 g g.analysis nxt r (d + 1) c = true) : ok2 g g.analysis nxt s.1 s.2 c' = true := by
  obtain ⟨rl, hr, hder⟩ := der_of_emptyTail het
  rw [hr'] at hr; cases hr
  exact ok2_mono (fun a ha => ctx_sub_la2 hr' hder c' a (hsub a ha)) h

/-! ## items and pairs of a level-2 set -/

theorem mem_items_of_tg2 {cs : BS2.CSet2} (hs : Shape cs.core.proj) {m : Nat} {q : BS2.Sit2 × Nat}
    (hq : q ∈ tg2 cs) : (⟨q.1.rule, q.1.dot, m - q.2, q.1.ctx⟩ : Item2) ∈ cs.items m := by
  unfold tg2 at hq
  obtain ⟨i, hi, rfl⟩ := List.mem_map.mp hq
  unfold BS2.CSet2.items
  refine List.mem_map.mpr ⟨i, hi, ?_⟩
  simp only
  rw [BS2.originOf_eq, BS2.distOf_eq hs]

/-- the items of the level-2 set at position `m`, without contexts, in terms of the projected set -/
theorem mem_plA_of_tgP {g : Grammar} {plA : List (List Item2)} {pl : List BS2.CSet2}
    (h : BS2.PLOK2 g plA pl) (hdet : CtxDet plA) {m : Nat} (hm : m < pl.length) {y : Sit × Nat}
    (hy : y ∈ tg (projSet (pl.getD m default))) :
    (⟨y.1.1, y.1.2, m - y.2, cx plA y.1.1 (m - y.2)⟩ : Item2) ∈ plA.getD m [] := by
  have hq : attach plA m y ∈ tg2 (pl.getD m default) := by
    rw [tg2_eq_attach h hdet hm]
    exact List.mem_map.mpr ⟨y, hy, rfl⟩
  exact (h.items m hm _).mp (mem_items_of_tg2 (h.ok m hm).shape hq)

theorem items_projSet_eq_tg {g : Grammar} {k : Nat} {cs : BS2.CSet2} (hok : BS2.SetOK2 g k cs) (j : Nat) :
    (cs.items j).map Item2.proj = (tg (projSet cs)).map (toItem j) := by
  rw [items_projSet]
  exact items_eq_tg (cs := projSet cs) hok.shape j

/-! ## the relation between the sets of levels 0 and 2 -/

/-- the `prog` pairs of set `m` are the same at levels 0 and 2 -/
def PRel2 (g : Grammar) (w : List Nat) (m : Nat) : Prop :=
  (tg (projSet ((plC2 g w).getD m default))).filter (fun p => prog g (w ++ [g.eofT])[m]? p.1) =
    (tg ((plC g 0 w).getD m default)).filter (fun p => prog g (w ++ [g.eofT])[m]? p.1)

/-- set `j` at the two levels: made from start pairs `ns0`, `ns1 = ns0.filter (level-2 test)` -/
structure SetPair2 (g : Grammar) (w : List Nat) (j : Nat) (ns0 ns1 : List (Sit × Nat))
    (I0 I1 : List Sit) : Prop where
  e0 : ExpandLists g g.analysis (ns0.map (·.1)) ((plC g 0 w).getD j default).core I0
  d0 : ((plC g 0 w).getD j default).dists = ns0.map (·.2)
  e1 : ExpandLists g g.analysis (ns1.map (·.1)) (projSet ((plC2 g w).getD j default)).core I1
  d1 : (projSet ((plC2 g w).getD j default)).dists = ns1.map (·.2)
  rel : ns1 = ns0.filter (Kj g (plA2 g w) (w ++ [g.eofT])[j]? j)
  pairs : ∀ p ∈ ns0, ValidSit g p.1 ∧ 1 ≤ p.2 ∧ p.2 ≤ j

theorem setPair2 {g : Grammar} (hwf : g.WF) (hsr : g.symsInRange = true) {w : List Nat}
    (f0 : LvlFacts g w 0) (f2 : Lvl2Facts g w) {j : Nat} (hj1 : 1 ≤ j)
    (hj2 : j ≤ (w ++ [g.eofT]).length) (ih : ∀ m, m < j → PRel2 g w m) :
    ∃ ns0 ns1 I0 I1, SetPair2 g w j ns0 ns1 I0 I1 := by
  have hl0 : (buildPLC g 0 w).2.2.length = (w ++ [g.eofT]).length + 1 := f0.len
  have hl2 : (BS2.buildPLC2 g w).2.2.length = (w ++ [g.eofT]).length + 1 := f2.len
  have hitems0 := f0.items
  have hplok0 := f0.plok
  have hplok2 : BS2.PLOK2 g (buildPL2 g w).2 (BS2.buildPLC2 g w).2.2 := f2.plok
  have hinvA : Inv2 g (w ++ [g.eofT]) (buildPL2 g w).2 := f2.inv
  unfold PRel2 at ih
  unfold plC at ih hitems0 hplok0
  unfold plC2 at ih
  show ∃ ns0 ns1 I0 I1, SetPair2 g w j ns0 ns1 I0 I1
  obtain ⟨tab0, plA0, a0, ht0, hp0, hw0, hc0⟩ := buildPLC_unroll g 0 w j hj1 (by omega)
  obtain ⟨tab2, plA', a2, ht2, hp2, hinv2, hlen2, hw2, hc2⟩ := buildPLC2_unroll hwf hsr w j hj1 (by omega)
  rw [hw0] at hw2
  cases hw2
  -- the prefixes
  have hlen0 : ((buildPLC g 0 w).2.2.take j).length = j := by rw [List.length_take]; omega
  have hlenC2 : ((BS2.buildPLC2 g w).2.2.take j).length = j := by rw [List.length_take]; omega
  have hne0 : (buildPLC g 0 w).2.2.take j ≠ [] := by
    intro h; rw [h] at hlen0; simp at hlen0; omega
  obtain ⟨I0, hE0, hd0⟩ := buildNewSet_lists (g := g) (an := g.analysis)
    (ok := okItem g g.analysis 0 (w ++ [g.eofT])[j]?) (pl := (buildPLC g 0 w).2.2.take j) (a := a0) ht0
  obtain ⟨I1, hE1, hd1⟩ := buildNewSet2_lists (g := g) (nxt := (w ++ [g.eofT])[j]?)
    (pl := (BS2.buildPLC2 g w).2.2.take j) (a := a0) ht2
  rw [← hc0] at hE0 hd0
  rw [← hc2] at hE1 hd1
  generalize hns0 : (newStarts g g.analysis (okItem g g.analysis 0 (w ++ [g.eofT])[j]?)
    ((buildPLC g 0 w).2.2.take j) a0).1 = ns0 at hE0 hd0
  -- the pairs of the level-0 set
  have hinv0 := newStarts_inv (ok := okItem g g.analysis 0 (w ++ [g.eofT])[j]?) (a := a0)
    (an := g.analysis) rfl hp0 hne0
  have hpairs : ∀ p ∈ ns0, ValidSit g p.1 ∧ 1 ≤ p.2 ∧ p.2 ≤ j := by
    intro p hp
    rw [← hns0] at hp
    obtain ⟨h1, h2, h3, _⟩ := hinv0.all p hp
    rw [hp0.len, hlen0] at h3
    exact ⟨h1, h2, h3⟩
  -- they are items of the level-0 set
  have hshape0 : Shape ((buildPLC g 0 w).2.2.getD j default).core := (hplok0.ok j (by omega)).shape
  have hitem0 : ∀ p ∈ ns0, F0 g (w ++ [g.eofT]) j ⟨p.1.1, p.1.2, j - p.2⟩ := by
    intro p hp
    apply (hitems0 j hj2 _).mp
    rw [items_eq_tg hshape0, tg_eq hE0 hd0]
    exact List.mem_map.mpr ⟨p, List.mem_append_left _ (List.mem_append_left _ hp), rfl⟩
  -- the sources of the second loop
  have hsrc2 : ∀ p ∈ ns0, emptyTailP g g.analysis p.1 = true →
      src g (((buildPLC g 0 w).2.2.take j).getD (j - p.2) default) (Sym.n (BS.lhsOf g p.1)) =
        src g (projSet (((BS2.buildPLC2 g w).2.2.take j).getD (j - p.2) default))
          (Sym.n (BS.lhsOf g p.1)) := by
    intro p hp het
    obtain ⟨_, hp1', hp2'⟩ := hpairs p hp
    rw [LI.getD_take _ _ (by omega), LI.getD_take _ _ (by omega)]
    obtain ⟨c, hc, hall⟩ := trigger_first hsr (hitem0 p hp) hp1' hp2' het
    apply src_eq_of_filter_eq (ih (j - p.2) (by omega))
    intro y hy
    rw [hc]
    exact hall y hy
  have hrel := newStarts_rel2 (g := g) (w := w ++ [g.eofT])
    (ok0 := okItem g g.analysis 0 (w ++ [g.eofT])[j]?) (plA := (buildPL2 g w).2)
    (nxt := (w ++ [g.eofT])[j]?) (a := a0) (j := j) (k := j - 1)
    hp0 hne0 hp2 hinv2 (by rw [hlen2]; omega) hw0 hlen0 hlenC2 hj1 (fun _ _ => rfl)
    (by
      intro m hm
      rw [LI.getD_take _ _ hm]
      exact tg2_eq_attach hplok2 hinvA.det (by omega))
    (by
      -- sources of the first loop
      rw [getLastD_take _ _ hj1 (by omega), getLastD_take _ _ hj1 (by omega)]
      apply src_eq_of_filter_eq (ih (j - 1) (by omega))
      intro p hp
      rw [hw0]
      exact progA_of_next_t hp)
    (by
      intro p hp
      rw [hns0] at hp
      exact (hpairs p hp).2)
    (by
      intro p hp het
      rw [hns0] at hp
      exact hsrc2 p hp het)
    (by
      -- a trigger that fails the level-2 test
      intro p hp het hfalse y hy
      rw [hns0] at hp
      obtain ⟨⟨rl', hr', hd'⟩, hp1', hp2'⟩ := hpairs p hp
      refine Bool.eq_false_iff.mpr fun htrue => ?_
      have hm : j - p.2 < j := by omega
      rw [hsrc2 p hp het, LI.getD_take _ _ hm] at hy
      obtain ⟨hy1, hy2⟩ := List.mem_filter.mp hy
      have hnx : g.nextSym y.1.1 y.1.2 = some (Sym.n (BS.lhsOf g p.1)) := by
        simpa [nextIs] using hy2
      have hA := mem_plA_of_tgP hplok2 hinvA.det (m := j - p.2) (by omega) hy1
      have hlhs : BS.lhsOf g p.1 = rl'.lhs := by
        unfold BS.lhsOf; rw [List.getD_eq_getElem?_getD, hr']; rfl
      obtain ⟨c', hc', hsub⟩ := hinvA.closed.pred hA hnx hr' hlhs.symm
      have hcx : cx (buildPL2 g w).2 p.1.1 (j - p.2) = c' := cx_eq hinvA.det hc'
      have hsubj : j - (y.2 + p.2) = j - p.2 - y.2 := by omega
      have htrue' : ok2 g g.analysis (w ++ [g.eofT])[j]? y.1.1 (y.1.2 + 1)
          (cx (buildPL2 g w).2 y.1.1 (j - p.2 - y.2)) = true := by
        unfold Kj at htrue
        simp only [hsubj] at htrue
        exact htrue
      have := ok2_of_parent hr' het hsub htrue'
      unfold Kj at hfalse
      rw [hcx, this] at hfalse
      cases hfalse)
  rw [hns0] at hrel
  refine ⟨ns0, _, I0, I1, hE0, hd0, hE1, hd1, ?_, hpairs⟩
  have hid : (projP ∘ attach (buildPL2 g w).2 j) = id := by funext p; rfl
  rw [hrel, List.map_map, hid, List.map_id]

theorem hchP_prog {g : Grammar} (nxt : Option Nat) :
    ∀ s q, q ∈ chainOf g g.analysis.nl s → prog g nxt q = true → prog g nxt s = true :=
  fun _ _ hq hP => prog_of_chain hq hP

/-- the `prog` pairs of set `j` from the relation between the start pairs -/
theorem prel2_of_setPair2 {g : Grammar} (hsr : g.symsInRange = true) {w : List Nat} {j : Nat}
    {ns0 ns1 : List (Sit × Nat)} {I0 I1 : List Sit} (h : SetPair2 g w j ns0 ns1 I0 I1) :
    PRel2 g w j :=
  tg_filter_eqP (K := Kj g (plA2 g w) (w ++ [g.eofT])[j]? j)
    (Ps := prog g (w ++ [g.eofT])[j]?) h.e0 h.d0 h.e1 h.d1 h.rel
    (fun _ hs => ok2_of_prog _ hs) (hchP_prog _) (kclosed_prog hsr _)

/-- set 0, without contexts, is the same list of pairs at both levels -/
theorem head_tg_eq {g : Grammar} (hwf : g.WF) (hsr : g.symsInRange = true) (w : List Nat) :
    tg ((plC g 0 w).getD 0 default) = tg (projSet ((plC2 g w).getD 0 default)) := by
  show tg ((buildPLC g 0 w).2.2.getD 0 default) = tg (projSet ((BS2.buildPLC2 g w).2.2.getD 0 default))
  rw [buildPLC_head, buildPLC2_head hwf hsr]
  obtain ⟨I0, h0, d0⟩ := head0_lists g
  obtain ⟨I2, h2, d2⟩ := head2_lists g
  exact tg_eq_of_same h0 d0 h2 d2

theorem prel2_all {g : Grammar} (hwf : g.WF) (hsr : g.symsInRange = true) {w : List Nat}
    (f0 : LvlFacts g w 0) (f2 : Lvl2Facts g w) :
    ∀ j, j ≤ (w ++ [g.eofT]).length → PRel2 g w j := by
  intro j
  induction j using Nat.strongRecOn with
  | _ j ih =>
    intro hj
    rcases Nat.eq_zero_or_pos j with h0 | hpos
    · subst h0
      unfold PRel2
      rw [head_tg_eq hwf hsr]
    · obtain ⟨ns0, ns1, I0, I1, hsp⟩ := setPair2 hwf hsr f0 f2 hpos hj
        (fun m hm => ih m hm (by omega))
      exact prel2_of_setPair2 hsr hsp

end Yaep.LI2
