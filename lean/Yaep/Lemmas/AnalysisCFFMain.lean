import Yaep.Lemmas.AnalysisCFF
import Yaep.Lemmas.AnalysisCEad
/-!
# `create_first_follow_sets` against the abstract FIRST / FOLLOW tables

Every store of the C loop is justified by `firstTab` / `followTab`; a state in which a pass
changes nothing contains them; the loop terminates.
-/
namespace Yaep.AC

/-! ## `firstOfStr` by decomposition of the string -/

/-- `y` can begin with the terminal `a` according to the table `fs` -/
def SymFirst (fs : List (Nat × Nat)) (y : Sym) (a : Nat) : Prop :=
  y = .t a ∨ ∃ C, y = .n C ∧ (C, a) ∈ fs

theorem mem_firstOfStr_iff (nl : List Nat) (fs : List (Nat × Nat)) (a : Nat) :
    ∀ β : List Sym, a ∈ (firstOfStr nl fs β).1 ↔
      ∃ pre y post, β = pre ++ y :: post ∧ (∀ s ∈ pre, symNullable nl s = true) ∧
        SymFirst fs y a := by
  intro β
  induction β with
  | nil =>
    simp only [firstOfStr_nil, List.not_mem_nil, false_iff]
    rintro ⟨pre, y, post, h, _⟩
    cases pre <;> cases h
  | cons x rest ih =>
    cases x with
    | t b =>
      simp only [firstOfStr_t, List.mem_singleton]
      constructor
      · rintro rfl
        exact ⟨[], .t a, rest, rfl, (fun _ h => by cases h), Or.inl rfl⟩
      · rintro ⟨pre, y, post, h, hpre, hy⟩
        cases pre with
        | nil =>
          simp only [List.nil_append, List.cons.injEq] at h
          rcases hy with hy | ⟨C, hy, _⟩
          · rw [hy] at h
            simpa using h.1.symm
          · rw [hy] at h; cases h.1
        | cons p pre' =>
          simp only [List.cons_append, List.cons.injEq] at h
          have := hpre p List.mem_cons_self
          rw [← h.1] at this
          simp [symNullable] at this
    | n B =>
      rw [mem_firstOfStr_n, ih]
      constructor
      · rintro (h | ⟨hB, pre, y, post, h, hpre, hy⟩)
        · exact ⟨[], .n B, rest, rfl, (fun _ h => by cases h), Or.inr ⟨B, rfl, h⟩⟩
        · refine ⟨.n B :: pre, y, post, by rw [h]; rfl, ?_, hy⟩
          intro s hs
          rcases List.mem_cons.mp hs with rfl | hs
          · simpa [symNullable] using hB
          · exact hpre s hs
      · rintro ⟨pre, y, post, h, hpre, hy⟩
        cases pre with
        | nil =>
          simp only [List.nil_append, List.cons.injEq] at h
          rcases hy with hy | ⟨C, hy, hC⟩
          · rw [hy] at h; cases h.1
          · rw [hy] at h
            simp only [Sym.n.injEq] at h
            rw [h.1]
            exact Or.inl hC
        | cons p pre' =>
          simp only [List.cons_append, List.cons.injEq] at h
          right
          refine ⟨?_, pre', y, post, h.2, fun s hs => hpre s (List.mem_cons_of_mem _ hs), hy⟩
          have := hpre p List.mem_cons_self
          rw [← h.1] at this
          simpa [symNullable] using this

theorem firstOfStr_snd_all (nl : List Nat) (fs : List (Nat × Nat)) :
    ∀ β : List Sym, (firstOfStr nl fs β).2 = true ↔ ∀ s ∈ β, symNullable nl s = true := by
  intro β
  induction β with
  | nil => simp
  | cons x rest ih =>
    cases x with
    | t b => simp [symNullable]
    | n B =>
      rw [firstOfStr_n_snd, ih]
      simp [symNullable]

/-! ## the abstract tables are closed under the stores of the C loop -/

section closure
variable {g : Grammar} (h : g.symsInRange = true)
include h

theorem firstTab_of_decomp {rl : Rule} (hrl : rl ∈ g.rules) {pre post : List Sym} {y : Sym}
    (hrhs : rl.rhs = pre ++ y :: post) (hpre : ∀ s ∈ pre, symNullable g.nullable s = true)
    {a : Nat} (hy : SymFirst g.firstTab y a) : (rl.lhs, a) ∈ g.firstTab := by
  apply firstTab_closed h
  apply mem_firstStep.mpr
  exact ⟨rl, hrl, rfl, (mem_firstOfStr_iff _ _ _ _).mpr ⟨pre, y, post, hrhs, hpre, hy⟩⟩

theorem followTab_of_decomp {rl : Rule} (hrl : rl ∈ g.rules) {pre mid post : List Sym} {B : Nat}
    {y : Sym} (hrhs : rl.rhs = pre ++ Sym.n B :: (mid ++ y :: post))
    (hmid : ∀ s ∈ mid, symNullable g.nullable s = true)
    {a : Nat} (hy : SymFirst g.firstTab y a) : (B, a) ∈ g.followTab := by
  apply followTab_closed h
  apply mem_followStep.mpr
  refine ⟨rl, hrl, mid ++ y :: post, mem_ntSuffixes.mpr ⟨pre, hrhs⟩, Or.inl ?_⟩
  exact (mem_firstOfStr_iff _ _ _ _).mpr ⟨mid, y, post, rfl, hmid, hy⟩

theorem followTab_of_lhs {rl : Rule} (hrl : rl ∈ g.rules) {pre post : List Sym} {B : Nat}
    (hrhs : rl.rhs = pre ++ Sym.n B :: post)
    (hpost : ∀ s ∈ post, symNullable g.nullable s = true)
    {a : Nat} (ha : (rl.lhs, a) ∈ g.followTab) : (B, a) ∈ g.followTab := by
  apply followTab_closed h
  apply mem_followStep.mpr
  exact ⟨rl, hrl, post, mem_ntSuffixes.mpr ⟨pre, hrhs⟩,
    Or.inr ⟨(firstOfStr_snd_all _ _ _).mpr hpost, ha⟩⟩

theorem followTab_subset_univ : g.followTab ⊆ pairUniv g := by
  unfold Grammar.followTab
  apply saturate_subset_univ _ (pairUniv g)
  · exact fun s hs => followStep_subset_univ h _ _ (firstTab_subset_univ h) s hs
  · intro _ hx; cases hx

end closure

/-! ## soundness of every step -/

/-- every terminal in a set is justified by the abstract tables -/
structure FFSound (g : Grammar) (ff : FF) : Prop where
  first : ∀ A t, ff.inFirst A t → (A, t) ∈ g.firstTab
  follow : ∀ A t, ff.inFollow A t → (A, t) ∈ g.followTab

theorem ffInit_sound (g : Grammar) : FFSound g ffInit := by
  constructor <;> intro A t h <;> simp [FF.inFirst, FF.inFollow, ffInit] at h

theorem symMask_sound {g : Grammar} {ff : FF} (hs : FFSound g ff) {y : Sym} {t : Nat}
    (ht : (symMask ff y).testBit t = true) : SymFirst g.firstTab y t := by
  cases y with
  | t b =>
    simp only [symMask] at ht
    rw [testBit_two_pow_iff] at ht
    subst ht
    exact Or.inl rfl
  | n C => exact Or.inr ⟨C, rfl, hs.first C t ht⟩

theorem addFirst_sound {g : Grammar} {st : FF × Bool} (hs : FFSound g st.1) {A m : Nat}
    (hm : ∀ t, m.testBit t = true → (A, t) ∈ g.firstTab) : FFSound g (addFirst st A m).1 := by
  refine ⟨?_, hs.follow⟩
  intro C t hC
  rcases (addFirst_first ..).mp hC with hC | ⟨rfl, ht⟩
  · exact hs.first C t hC
  · exact hm t ht

theorem addFollow_sound {g : Grammar} {st : FF × Bool} (hs : FFSound g st.1) {B m : Nat}
    (hm : ∀ t, m.testBit t = true → (B, t) ∈ g.followTab) : FFSound g (addFollow st B m).1 := by
  refine ⟨hs.first, ?_⟩
  intro C t hC
  rcases (addFollow_follow ..).mp hC with hC | ⟨rfl, ht⟩
  · exact hs.follow C t hC
  · exact hm t ht

section sound
variable {g : Grammar} (h : g.symsInRange = true) {empty : Sym → Bool} (hE : EmptyOK g empty)
include h hE

theorem followScan_sound {rl : Rule} (hrl : rl ∈ g.rules) {pre : List Sym} {B : Nat} :
    ∀ (l mid : List Sym) (k : Nat) (st : FF × Bool), rl.rhs = pre ++ Sym.n B :: (mid ++ l) →
      (∀ s ∈ mid, empty s = true) → FFSound g st.1 →
      FFSound g (followScan empty B l k st).1.1 := by
  intro l
  induction l with
  | nil => intro mid k st _ _ hs; exact hs
  | cons next rest ih =>
    intro mid k st hrhs hmid hs
    rw [followScan_cons]
    have hstep : FFSound g (addFollow st B (symMask st.1 next)).1 := by
      apply addFollow_sound hs
      intro t ht
      exact followTab_of_decomp h hrl hrhs (fun s hs' => by rw [← hE]; exact hmid s hs')
        (symMask_sound hs ht)
    split
    · exact hstep
    · rename_i hne
      have hne' : empty next = true := by simpa using hne
      apply ih (mid ++ [next]) _ _ _ _ hstep
      · rw [hrhs]; simp
      · intro s hs'
        rcases List.mem_append.mp hs' with hs' | hs'
        · exact hmid s hs'
        · rw [List.mem_singleton] at hs'; subst hs'; exact hne'

theorem ffSym_sound {rl : Rule} (hrl : rl ∈ g.rules) {pre rest : List Sym} {x : Sym}
    (hrhs : rl.rhs = pre ++ x :: rest) {fc : Bool} (hfc : fc = true → ∀ s ∈ pre, empty s = true)
    {st : FF × Bool} (hs : FFSound g st.1) :
    FFSound g (ffSym empty rl.lhs rl.rhs.length x rest pre.length st fc).1 := by
  rw [ffSym_eq]
  have h1 : FFSound g (if fc then addFirst st rl.lhs (symMask st.1 x) else st).1 := by
    split
    · rename_i hfc'
      apply addFirst_sound hs
      intro t ht
      exact firstTab_of_decomp h hrl hrhs (fun s hs' => by rw [← hE]; exact hfc hfc' s hs')
        (symMask_sound hs ht)
    · exact hs
  cases x with
  | t b => exact h1
  | n B =>
    simp only
    generalize (if fc then addFirst st rl.lhs (symMask st.1 (.n B)) else st) = st1 at h1 ⊢
    have h2 := followScan_sound h hE hrl rest [] (pre.length + 1) st1 (by simpa using hrhs)
      (fun _ hh => by cases hh) h1
    have hk := followScan_k empty B rest (pre.length + 1) st1
    generalize followScan empty B rest (pre.length + 1) st1 = p2 at h2 hk ⊢
    split
    · rename_i hkk
      have hkk' : p2.2 = rl.rhs.length := by simpa using hkk
      have hall : ∀ s ∈ rest, empty s = true := by
        apply hk.mp
        rw [hkk', hrhs]
        simp only [List.length_append, List.length_cons]
        omega
      apply addFollow_sound h2
      intro t ht
      exact followTab_of_lhs h hrl hrhs (fun s hs' => by rw [← hE]; exact hall s hs')
        (h2.follow _ t ht)
    · exact h2

theorem ffRhs_sound {rl : Rule} (hrl : rl ∈ g.rules) :
    ∀ (l pre : List Sym) (st : FF × Bool) (fc : Bool), rl.rhs = pre ++ l →
      (fc = true → ∀ s ∈ pre, empty s = true) → FFSound g st.1 →
      FFSound g (ffRhs empty rl.lhs rl.rhs.length l pre.length st fc).1 := by
  intro l
  induction l with
  | nil => intro pre st fc _ _ hs; exact hs
  | cons x rest ih =>
    intro pre st fc hrhs hfc hs
    unfold ffRhs
    have hstep := ffSym_sound h hE hrl hrhs hfc hs
    have := ih (pre ++ [x]) (ffSym empty rl.lhs rl.rhs.length x rest pre.length st fc)
      (if !empty x then false else fc) (by rw [hrhs]; simp) ?_ hstep
    · simpa using this
    · intro hfc' s hs'
      by_cases hx : empty x = true
      · simp only [hx, Bool.not_true, Bool.false_eq_true, if_false] at hfc'
        rcases List.mem_append.mp hs' with hs' | hs'
        · exact hfc hfc' s hs'
        · rw [List.mem_singleton] at hs'; subst hs'; exact hx
      · simp [hx] at hfc'

theorem ffRule_sound {A : Nat} {r : Rule} (hr : r ∈ g.rules) (hl : r.lhs = A) {st : FF × Bool}
    (hs : FFSound g st.1) : FFSound g (ffRule empty A st r).1 := by
  subst hl
  exact ffRhs_sound h hE hr r.rhs [] st true rfl (fun _ _ hh => by cases hh) hs

theorem ffNonterm_sound (A : Nat) {st : FF × Bool} (hs : FFSound g st.1) :
    FFSound g (ffNonterm g empty st A).1 := by
  unfold ffNonterm
  apply foldl_inv (ffRule empty A) (fun st => FFSound g st.1) _ _ st hs
  intro s r hr hs'
  obtain ⟨h1, h2⟩ := mem_rulesOf.mp hr
  exact ffRule_sound h hE h1 h2 hs'

theorem ffPass_sound {ff : FF} (hs : FFSound g ff) : FFSound g (ffPass g empty ff).1 := by
  unfold ffPass
  apply foldl_inv (ffNonterm g empty) (fun st => FFSound g st.1) _ _ (ff, false) hs
  intro s A _ hs'
  exact ffNonterm_sound h hE A hs'

end sound

/-! ## termination -/

/-- how many terminals the `2 * nN` sets hold -/
def ffMu (g : Grammar) (ff : FF) : Nat :=
  cnt (pairUniv g) (fun p => (ff.first p.1).testBit p.2) +
  cnt (pairUniv g) (fun p => (ff.follow p.1).testBit p.2)

theorem ffMu_le (g : Grammar) (ff : FF) : ffMu g ff ≤ 2 * (g.nN * g.nT) := by
  have h1 := cnt_le_length (pairUniv g) (fun p => (ff.first p.1).testBit p.2)
  have h2 := cnt_le_length (pairUniv g) (fun p => (ff.follow p.1).testBit p.2)
  rw [pairUniv_length] at h1 h2
  unfold ffMu
  omega

theorem ffMu_lt {g : Grammar} (h : g.symsInRange = true) {p q : FF × Bool} (hg : Grow p q)
    (hq : FFSound g q.1) (hp2 : p.2 = false) (hq2 : q.2 = true) : ffMu g p.1 < ffMu g q.1 := by
  have m1 : cnt (pairUniv g) (fun x => (p.1.first x.1).testBit x.2) ≤
      cnt (pairUniv g) (fun x => (q.1.first x.1).testBit x.2) :=
    cnt_mono fun x _ hx => hg.1.1 x.1 x.2 hx
  have m2 : cnt (pairUniv g) (fun x => (p.1.follow x.1).testBit x.2) ≤
      cnt (pairUniv g) (fun x => (q.1.follow x.1).testBit x.2) :=
    cnt_mono fun x _ hx => hg.1.2 x.1 x.2 hx
  rcases hg.2 hq2 with hh | ⟨A, t, hs⟩
  · rw [hp2] at hh; cases hh
  · rcases hs with ⟨hs1, hs2⟩ | ⟨hs1, hs2⟩
    · have : cnt (pairUniv g) (fun x => (p.1.first x.1).testBit x.2) <
          cnt (pairUniv g) (fun x => (q.1.first x.1).testBit x.2) :=
        cnt_lt (a := (A, t)) (fun x _ hx => hg.1.1 x.1 x.2 hx)
          (firstTab_subset_univ h (hq.first A t hs1)) hs2 hs1
      unfold ffMu; omega
    · have : cnt (pairUniv g) (fun x => (p.1.follow x.1).testBit x.2) <
          cnt (pairUniv g) (fun x => (q.1.follow x.1).testBit x.2) :=
        cnt_lt (a := (A, t)) (fun x _ hx => hg.1.2 x.1 x.2 hx)
          (followTab_subset_univ h (hq.follow A t hs1)) hs2 hs1
      unfold ffMu; omega

theorem ff_isSome {g : Grammar} (h : g.symsInRange = true) {empty : Sym → Bool}
    (hE : EmptyOK g empty) :
    (doWhile (ffPass g empty) (ffFuel g) ffInit).isSome = true := by
  apply doWhile_isSome (ffPass g empty) (FFSound g) (fun s hs => ffPass_sound h hE hs) (ffMu g)
    (2 * (g.nN * g.nT)) (fun s _ => ffMu_le g s)
    (fun s hs hc => ffMu_lt h (ffPass_grow g empty s) (ffPass_sound h hE hs) rfl hc)
    _ _ (ffInit_sound g)
  unfold ffFuel
  omega

/-! ## the result -/

/-- the result of `create_first_follow_sets`: justified, unchanged by a further pass, and all
rules closed -/
theorem firstFollowWith_fix {g : Grammar} (h : g.symsInRange = true) {empty : Sym → Bool}
    (hE : EmptyOK g empty) :
    FFSound g (firstFollowWith g empty) ∧
    (ffPass g empty (firstFollowWith g empty)) = (firstFollowWith g empty, false) ∧
    ∀ r ∈ g.rules, SuffixClosed empty (firstFollowWith g empty) r.lhs true r.rhs := by
  have hs := ff_isSome h hE
  obtain ⟨r, hr⟩ := Option.isSome_iff_exists.mp hs
  have he : firstFollowWith g empty = r := by
    unfold firstFollowWith
    rw [hr]; rfl
  obtain ⟨s0, hs0, h1, h2⟩ := doWhile_spec (ffPass g empty) (FFSound g)
    (fun s hs => ffPass_sound h hE hs) _ _ _ (ffInit_sound g) hr
  obtain ⟨h3, h4⟩ := ffPass_noChange g empty s0 h2
  have hrs : r = s0 := h1.symm.trans h3
  rw [he, hrs]
  refine ⟨hs0, Prod.ext h3 h2, ?_⟩
  intro rl hrl
  exact h4 rl.lhs (LhsInRange.of_symsInRange h rl hrl) rl hrl rfl

/-- completeness for FIRST: the final sets contain the abstract table -/
theorem firstFollowWith_first_complete {g : Grammar} (h : g.symsInRange = true)
    {empty : Sym → Bool} (hE : EmptyOK g empty) :
    ∀ p ∈ g.firstTab, (firstFollowWith g empty).inFirst p.1 p.2 := by
  obtain ⟨_, _, hcl⟩ := firstFollowWith_fix h hE
  unfold Grammar.firstTab
  apply saturate_sound (firstStep g g.nullable)
    (fun p => (firstFollowWith g empty).inFirst p.1 p.2)
  · intro fs hfs p hp
    obtain ⟨A, a⟩ := p
    obtain ⟨rl, hrl, rfl, ha⟩ := mem_firstStep.mp hp
    obtain ⟨pre, y, post, hrhs, hpre, hy⟩ := (mem_firstOfStr_iff _ _ _ _).mp ha
    have := ((hcl rl hrl) pre y post hrhs).1
      ⟨rfl, fun s hs => by rw [hE]; exact hpre s hs⟩
    apply this
    rcases hy with rfl | ⟨C, rfl, hC⟩
    · simp [symMask, Nat.testBit_two_pow_self]
    · exact hfs (C, a) hC
  · intro _ hx; cases hx

/-- completeness for FOLLOW -/
theorem firstFollowWith_follow_complete {g : Grammar} (h : g.symsInRange = true)
    {empty : Sym → Bool} (hE : EmptyOK g empty) :
    ∀ p ∈ g.followTab, (firstFollowWith g empty).inFollow p.1 p.2 := by
  obtain ⟨_, _, hcl⟩ := firstFollowWith_fix h hE
  have hfirst := firstFollowWith_first_complete h hE
  unfold Grammar.followTab
  apply saturate_sound (followStep g g.nullable g.firstTab)
    (fun p => (firstFollowWith g empty).inFollow p.1 p.2)
  · intro fl hfl p hp
    obtain ⟨B, a⟩ := p
    obtain ⟨rl, hrl, rest, hsuf, hor⟩ := mem_followStep.mp hp
    obtain ⟨pre, hrhs⟩ := mem_ntSuffixes.mp hsuf
    obtain ⟨hitems, hlhs⟩ := ((hcl rl hrl) pre (.n B) rest hrhs).2 B rfl
    rcases hor with ha | ⟨hnull, ha⟩
    · obtain ⟨mid, y, post, hrest, hmid, hy⟩ := (mem_firstOfStr_iff _ _ _ _).mp ha
      apply hitems mid y post hrest (fun s hs => by rw [hE]; exact hmid s hs)
      rcases hy with rfl | ⟨C, rfl, hC⟩
      · simp [symMask, Nat.testBit_two_pow_self]
      · exact hfirst (C, a) hC
    · have hall := (firstOfStr_snd_all _ _ _).mp hnull
      exact hlhs (fun s hs => by rw [hE]; exact hall s hs) a (hfl (rl.lhs, a) ha)
  · intro _ hx; cases hx

/-- `create_first_follow_sets` run with the right `empty_p` flags computes the abstract FIRST -/
theorem firstFollowWith_first_iff {g : Grammar} (h : g.symsInRange = true) {empty : Sym → Bool}
    (hE : EmptyOK g empty) (A a : Nat) :
    ((firstFollowWith g empty).first A).testBit a = true ↔ (A, a) ∈ g.firstTab :=
  ⟨(firstFollowWith_fix h hE).1.first A a, fun hm => firstFollowWith_first_complete h hE (A, a) hm⟩

/-- … and the abstract FOLLOW -/
theorem firstFollowWith_follow_iff {g : Grammar} (h : g.symsInRange = true) {empty : Sym → Bool}
    (hE : EmptyOK g empty) (A a : Nat) :
    ((firstFollowWith g empty).follow A).testBit a = true ↔ (A, a) ∈ g.followTab :=
  ⟨(firstFollowWith_fix h hE).1.follow A a, fun hm => firstFollowWith_follow_complete h hE (A, a) hm⟩

end Yaep.AC
