import Yaep.Lemmas.CompleteNT
import Yaep.Lemmas.CompletePop
import Yaep.Lemmas.CompleteExport
/-!
# Completeness of the all-parses forest, part 14: the main loop, the state before the loop, the
exported table
-/
namespace Yaep.CP
open Yaep Yaep.MP

/-! ## the event counters never decrease -/

theorem popFold_counts (an : Nat) : ∀ (l : List Nat) (s : St),
    (l.foldl (fun (s : St) i =>
          if (getKid s.heap an i).isNone then
            { s with heap := setKid s.heap an i (some nilId), nilUsed := true }
          else s) s).reuse = s.reuse ∧
    (l.foldl (fun (s : St) i =>
          if (getKid s.heap an i).isNone then
            { s with heap := setKid s.heap an i (some nilId), nilUsed := true }
          else s) s).origins = s.origins
  | [], _ => ⟨rfl, rfl⟩
  | i :: l, s => by
    simp only [List.foldl_cons]
    have ih := popFold_counts an l (if (getKid s.heap an i).isNone then
            { s with heap := setKid s.heap an i (some nilId), nilUsed := true } else s)
    refine ⟨ih.1.trans ?_, ih.2.trans ?_⟩ <;> split <;> rfl

theorem stepTerm_counts (c : Ctx) (sid : Nat) (st : PState) (pos : Nat) (disp : Option Nat) (a : Nat)
    (pa : Option Nat) (s : St) :
    (stepTerm c sid st pos disp a pa s).reuse = s.reuse ∧
    (stepTerm c sid st pos disp a pa s).origins = s.origins := by
  unfold stepTerm
  cases pa <;> cases disp
  · exact ⟨rfl, rfl⟩
  · exact ⟨rfl, rfl⟩
  · exact ⟨rfl, rfl⟩
  · simp only [St.setState]
    split
    · exact ⟨rfl, rfl⟩
    · split <;> exact ⟨rfl, rfl⟩

theorem step_counts (c : Ctx) (s : St) :
    s.reuse ≤ (step c s).reuse ∧ s.origins ≤ (step c s).origins := by
  unfold step
  split
  · exact ⟨Nat.le_refl _, Nat.le_refl _⟩
  · rename_i sid rest hst
    simp only
    split
    · split
      · split
        · split
          · exact ⟨Nat.le_refl _, Nat.le_refl _⟩
          · exact ⟨Nat.le_refl _, Nat.le_refl _⟩
        · exact ⟨Nat.le_refl _, Nat.le_refl _⟩
      · rename_i an han
        obtain ⟨h1, h2⟩ := popFold_counts an (List.range (c.rule (s.state sid).rule).transLen)
          { s with stack := rest }
        exact ⟨Nat.le_of_eq h1.symm, Nat.le_of_eq h2.symm⟩
    · split
      · obtain ⟨h1, h2⟩ := stepTerm_counts c sid (s.state sid) ((s.state sid).pos - 1)
          ((c.rule (s.state sid).rule).order.getD ((s.state sid).pos - 1) none) _
          (s.state (s.state sid).parent).anode s
        exact ⟨Nat.le_of_eq h1.symm, Nat.le_of_eq h2.symm⟩
      · rename_i A hA
        have h := candLoop_counts c
          { origSid := sid, rule := (s.state sid).rule, pos := (s.state sid).pos - 1,
            disp := (c.rule (s.state sid).rule).order.getD ((s.state sid).pos - 1) none,
            plInd := (s.state sid).plInd, orig := (s.state sid).orig,
            parentAnode := (s.state (s.state sid).parent).anode,
            parentDisp := (s.state sid).parentDisp, A := A }
          (c.sets.getD (s.state sid).plInd #[])
          (reduces c (c.sets.getD (s.state sid).plInd #[]) A) 0 []
          (s.setState sid { s.state sid with pos := (s.state sid).pos - 1 })
        split
        · exact h
        · exact h

theorem run_counts (c : Ctx) : ∀ (fuel : Nat) (s s' : St), run c fuel s = some s' →
    s.reuse ≤ s'.reuse ∧ s.origins ≤ s'.origins
  | 0, s, s', hr => by
    unfold run at hr
    split at hr
    · injection hr with hr; rw [← hr]; exact ⟨Nat.le_refl _, Nat.le_refl _⟩
    · cases hr
  | fuel + 1, s, s', hr => by
    unfold run at hr
    split at hr
    · injection hr with hr; rw [← hr]; exact ⟨Nat.le_refl _, Nat.le_refl _⟩
    · have h1 := step_counts c s
      have h2 := run_counts c fuel _ _ hr
      exact ⟨Nat.le_trans h1.1 h2.1, Nat.le_trans h1.2 h2.2⟩

theorem run_bad_all {c : Ctx} (hall : c.oneParse = false) : ∀ (fuel : Nat) (s s' : St),
    run c fuel s = some s' → s.bad = true → s'.bad = true
  | 0, s, s', hr, hb => by
    unfold run at hr
    split at hr
    · injection hr with hr; rw [← hr]; exact hb
    · cases hr
  | fuel + 1, s, s', hr, hb => by
    unfold run at hr
    split at hr
    · injection hr with hr; rw [← hr]; exact hb
    · exact run_bad_all hall fuel _ _ hr (step_bad_all hall hb)

section
variable {g : Grammar} {ok : Nat → Nat → Nat → Bool} {toks : List Nat} {c : Ctx}

/-! ## one iteration, the whole loop -/

/-- **one iteration of the main loop keeps the invariant** if it counts no event and does not set
`bad` -/
theorem cstep (hcc : CtxAllc g ok toks c) (hg : GrOK g) (hsr : g.symsInRange = true)
    (hokd : OkDer g ok toks) {s : St} (hinv : CInv g ok toks s) (hnb : (step c s).bad = false)
    (hre : (step c s).reuse = s.reuse) (hor : (step c s).origins = s.origins) :
    CInv g ok toks (step c s) := by
  have hc := hcc.toCtxAll
  obtain ⟨G, hgood⟩ := hinv.good
  cases hst : s.stack with
  | nil =>
    have : step c s = s := by unfold step; rw [hst]
    rw [this]; exact hinv
  | cons X rest =>
    have hXmem : X ∈ s.stack := by rw [hst]; simp
    obtain ⟨rl, hX⟩ := hgood.states X hXmem
    have hr : g.rules[(s.state X).rule]? = some rl := hX.hr
    by_cases hpos : (s.state X).pos = 0
    · exact cstep_pop hc hg hinv hst hpos
    · have hle : (s.state X).pos ≤ rl.rhs.length := hX.posLe
      have hlt : (s.state X).pos - 1 < rl.rhs.length := by omega
      cases hY : rl.rhs[(s.state X).pos - 1] with
      | t a =>
        exact cstep_term hc hg hinv hst hr hpos (by rw [List.getElem?_eq_getElem hlt, hY])
      | n A =>
        have hsym : rl.rhs[(s.state X).pos - 1]? = some (.n A) := by
          rw [List.getElem?_eq_getElem hlt, hY]
        cases hd : rl.order.getD ((s.state X).pos - 1) none with
        | none => exact cstep_nt_untr hcc hg hsr hokd hinv hst hr hpos hsym hd hnb hor
        | some d => exact cstep_nt_tr hcc hg hsr hokd hinv hst hr hpos hsym hd hnb hre

/-- the main loop keeps the invariant if the run counts no event and does not end with `bad` -/
theorem crun (hcc : CtxAllc g ok toks c) (hg : GrOK g) (hsr : g.symsInRange = true)
    (hokd : OkDer g ok toks) : ∀ (fuel : Nat) (s s' : St), CInv g ok toks s → run c fuel s = some s' →
      s'.bad = false → s'.reuse = s.reuse → s'.origins = s.origins → CInv g ok toks s'
  | 0, s, s', hinv, hr, _, _, _ => by
    unfold run at hr
    split at hr
    · injection hr with hr; rw [← hr]; exact hinv
    · cases hr
  | fuel + 1, s, s', hinv, hr, hnb, hre, hor => by
    unfold run at hr
    split at hr
    · injection hr with hr; rw [← hr]; exact hinv
    · have h1 := step_counts c s
      have h2 := run_counts c fuel _ _ hr
      have hb1 : (step c s).bad = false := by
        cases hb : (step c s).bad with
        | false => rfl
        | true =>
          have := run_bad_all hcc.toCtxAll.all fuel _ _ hr hb
          rw [this] at hnb; cases hnb
      have e1 : (step c s).reuse = s.reuse := by omega
      have e2 : (step c s).origins = s.origins := by omega
      exact crun hcc hg hsr hokd fuel _ _ (cstep hcc hg hsr hokd hinv hb1 e1 e2) hr hnb
        (by rw [hre, e1]) (by rw [hor, e2])

end

end Yaep.CP
