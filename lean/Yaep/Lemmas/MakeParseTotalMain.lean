import Yaep.Lemmas.MakeParseTotalStep
/-!
# Totality of the model of `make_parse` in all-parses mode, part 5: the main loop ends

* `result_of_last_pop`: when the last state (state `1`, the rule of the axiom) is popped, the
  result slot is not NULL (the C `assert (result != NULL)`) — from the obligation invariant
  `AGood.nn` of the soundness proof;
* `trun`: with fuel at least the potential the main loop ends in an unflagged state with a result;
* `tinit`: the initial state satisfies the termination invariant;
* `mpAllFuel`, `makeParse_all_total_ctx`.
-/
namespace Yaep.MP
open Yaep

section
variable {g : Grammar} {ok : Nat → Nat → Nat → Bool} {toks : List Nat} {c : Ctx}

/-- the C assertion `result != NULL`: the pop of the last state leaves a result -/
theorem result_of_last_pop (hc : CtxAll g ok toks c) (hg : GrOK g) {s : St} {G : Ghost}
    (hgood : AGood g ok toks s G none) {fin : Nat → Nat} (hinv : TInv g ok toks s fin) {X : Nat}
    (hst : s.stack = [X]) (hpos : (s.state X).pos = 0) : (step c s).result ≠ none := by
  have h1 := hinv.one (by rw [hst]; simp)
  rw [hst] at h1
  have hX1 : X = 1 := (List.mem_singleton.mp h1).symm
  subst hX1
  obtain ⟨a1, a2, a3⟩ := hinv.st1
  have hroot0 : (s.state 0).anode = some rootId := hgood.rootSt.1
  have hpa : (s.state (s.state 1).parent).anode = some rootId := by rw [a2]; exact hroot0
  have hmem : 1 ∈ s.stack := by rw [hst]; simp
  obtain ⟨rl, hX⟩ := hgood.states 1 hmem
  have hr : g.rules[(s.state 1).rule]? = some rl := hX.hr
  have hrule := hc.rule_eq hr
  obtain ⟨ks, hcell, hks, hlt, _⟩ := hgood.root
  rw [step_pop_none hst hpos a1 hpa, hrule, a3]
  by_cases htl : rl.transLen = 0
  · have htl' : (rl.transLen == 0) = true := by simpa using htl
    rw [htl']
    simp only [if_true]
    show getKid (placeTranslation s.heap (rootId, 0) nilId) rootId 0 ≠ none
    exact place_nonnull hcell hlt (by rw [hks]; exact Nat.one_pos) (by unfold nilId; unfold rootId at hlt; omega)
  · have htl' : (rl.transLen == 0) = false := by simpa using htl
    rw [htl']
    simp only [Bool.false_eq_true, if_false]
    show getKid s.heap rootId 0 ≠ none
    have hcellX := hX.cell
    have est : s.states.getD 1 default = s.state 1 := rfl
    rw [est, a1] at hcellX
    have hex : ∃ q d, rl.order.getD q none = some d := by
      apply Classical.byContradiction
      intro hno
      apply htl
      apply hg.pass _ _ hr hcellX
      intro q
      cases ho : rl.order.getD q none with
      | none => rfl
      | some d => exact absurd ⟨q, d, ho⟩ hno
    obtain ⟨q, d, hqd⟩ := hex
    have hproc : Proc g s.states 1 (rootId, 0) := by
      refine ⟨rl, q, d, hr, ?_, hqd, ?_⟩
      · rw [est, hpos]; exact Nat.zero_le _
      · unfold placeOfSt
        rw [est, a1]
        simp only
        have e0 : s.states.getD (s.state 1).parent default = s.state 0 := by rw [a2]; rfl
        rw [e0, hroot0, a3]; rfl
    rcases hgood.nn 1 hmem (rootId, 0) hproc (by simp) with h | ⟨z, hz, hz1, _⟩
    · exact h
    · rw [hst] at hz
      have := List.mem_singleton.mp hz
      omega

theorem tpot_pos {K : Nat} (hK : 1 ≤ K) {fin : Nat → Nat} {s : St} (hne : s.stack ≠ []) :
    1 ≤ tpot g K fin s := by
  unfold tpot
  cases hst : s.stack with
  | nil => exact absurd hst hne
  | cons x l =>
    simp only [pot]
    have : 1 ≤ K ^ expOf g (s.state x) (fin x) := Nat.pow_pos (by omega)
    omega

/-- **with fuel at least the potential the main loop ends**, in a state that is not flagged and
has a result -/
theorem trun (hcc : CtxAllc g ok toks c) (hg : GrOK g) (hcyc : ¬ Cyclic g) (hsr : g.symsInRange = true)
    {C : Nat} (hC : ∀ j, (c.sets.getD j #[]).size ≤ C) :
    ∀ (fuel : Nat) (s : St) (fin : Nat → Nat), s.bad = false → (∃ G, AGood g ok toks s G none) →
      TInv g ok toks s fin → (s.stack = [] → s.result ≠ none) → tpot g (2 * C + 2) fin s ≤ fuel →
      ∃ s', run c fuel s = some s' ∧ s'.bad = false ∧ s'.result ≠ none
  | 0, s, fin, hb, _, _, hres, hpot => by
    cases hst : s.stack with
    | nil => exact ⟨s, by unfold run; simp [hst], hb, hres hst⟩
    | cons x l =>
      have := tpot_pos (g := g) (K := 2 * C + 2) (by omega) (fin := fin) (s := s) (by rw [hst]; simp)
      omega
  | fuel + 1, s, fin, hb, ⟨G, hgood⟩, hinv, hres, hpot => by
    cases hst : s.stack with
    | nil => exact ⟨s, by unfold run; simp [hst], hb, hres hst⟩
    | cons x l =>
      have hne : s.stack ≠ [] := by rw [hst]; simp
      obtain ⟨fin', a1, a2, a3, a4⟩ := tstep hcc hcyc hsr hC hinv hb hne
      have hgood' : ∃ G', AGood g ok toks (step c s) G' none := by
        rcases astep_inv hcc.toCtxAll hg (Or.inr ⟨G, hgood⟩) with hbad | h
        · rw [a2] at hbad; cases hbad
        · exact h
      have hres' : (step c s).stack = [] → (step c s).result ≠ none := by
        intro he
        obtain ⟨X, hX, hpos⟩ := a4 he
        exact result_of_last_pop hcc.toCtxAll hg hgood hinv hX hpos
      obtain ⟨s', r1, r2, r3⟩ := trun hcc hg hcyc hsr hC fuel (step c s) fin' a2 hgood' a1 hres' (by omega)
      refine ⟨s', ?_, r2, r3⟩
      unfold run
      simp [hst]
      exact r1

/-! ## the initial state -/

theorem foldl_max_ge (l : List Int) : ∀ (init : Int), init ≤ l.foldl max init ∧ ∀ x ∈ l, x ≤ l.foldl max init := by
  induction l with
  | nil => intro init; exact ⟨Int.le_refl _, fun x hx => by cases hx⟩
  | cons y l ih =>
    intro init
    simp only [List.foldl_cons]
    obtain ⟨i1, i2⟩ := ih (max init y)
    refine ⟨Int.le_trans (Int.le_max_left _ _) i1, ?_⟩
    intro x hx
    rcases List.mem_cons.mp hx with rfl | hx
    · exact Int.le_trans (Int.le_max_right _ _) i1
    · exact i2 x hx

/-- the bound on the exponent of a state -/
def expBound (g : Grammar) (n : Nat) : Nat := (n * (g.nN + 1) + g.nN) * (g.maxRhs + 1) + g.maxRhs

theorem expOf_le {st : PState} {f : Nat} (h : TStOK g ok toks st f) : expOf g st f ≤ expBound g toks.length := by
  obtain ⟨rl, hr, hle, _⟩ := h.rule
  have hm : rl.rhs.length ≤ g.maxRhs := le_maxRhs (List.mem_of_getElem? hr)
  unfold expOf expBound rhoI
  have h1 : f - st.orig ≤ toks.length := by have := h.finLe; omega
  have h2 := Nat.mul_le_mul_right (g.nN + 1) h1
  have h3 := ntRank_le g (ruleLhs g st.rule)
  have h4 : (f - st.orig) * (g.nN + 1) + ntRank g (ruleLhs g st.rule) ≤ toks.length * (g.nN + 1) + g.nN := by
    omega
  have h5 := Nat.mul_le_mul_right (g.maxRhs + 1) h4
  omega

/-- the initial state satisfies the termination invariant; its potential is one power of `K` -/
theorem tinit (hc : CtxAll g ok toks c) {s0 : St} (hi : init c = some s0) :
    TInv g ok toks s0 (fun _ => toks.length) ∧ s0.bad = false ∧ s0.stack = [1] := by
  unfold init at hi
  simp only at hi
  split at hi
  · cases hi
  · rename_i sit hsit
    split at hi
    · cases hi
    · rename_i hcond
      injection hi with hi
      simp only [Bool.or_eq_true, bne_iff_ne, ne_eq, not_or, Decidable.not_not] at hcond
      obtain ⟨⟨ho, hlhs⟩, hdot⟩ := hcond
      have hpl : c.sets.size - 1 = toks.length := by rw [hc.size]; rfl
      rw [hpl] at hsit hi
      have h0lt : 0 < (c.sets.getD toks.length #[]).size := by
        rcases Nat.eq_zero_or_pos (c.sets.getD toks.length #[]).size with h | h
        · rw [Array.getElem?_eq_none (by omega)] at hsit; cases hsit
        · exact h
      have hsit' : (c.sets.getD toks.length #[]).getD 0 default = sit := by
        rw [Array.getD_eq_getD_getElem?, hsit]; rfl
      have hE := hc.sound toks.length 0 h0lt
      rw [hsit'] at hE
      obtain ⟨rl0, hr0, _⟩ := hE.sound
      have hrule := hc.rule_eq hr0
      rw [hrule] at hdot
      subst hi
      refine ⟨⟨by simp, ?_, ?_, ?_, fun _ => by simp, ⟨rfl, rfl, rfl⟩⟩, rfl, rfl⟩
      · intro sid hsid
        simp only [List.mem_singleton] at hsid
        subst hsid
        refine ⟨by simp, ⟨rl0, hr0, ?_, ?_⟩, ?_, Nat.le_refl _, Nat.le_refl _⟩
        · show sit.dot ≤ _
          omega
        · intro _ _ j sy hj hsy
          have hj' : sit.dot ≤ j := hj
          have := (List.getElem?_eq_some_iff.mp hsy).1
          omega
        · intro _
          show EarleyF g ok toks toks.length ⟨sit.rule, sit.dot, 0⟩
          rw [← ho]; exact hE
      · -- `term_node_array` has a cell for every token number of the parse list
        show toks.length ≤ (Array.replicate ((c.plToks.foldl max 0).toNat + 1) (none : Option Nat)).size
        rw [Array.size_replicate]
        rcases Nat.eq_zero_or_pos toks.length with h0 | hpos
        · omega
        · have hp := hc.ptoks toks.length hpos (Nat.le_refl _)
          have hlt : toks.length < c.plToks.size := by
            rcases Nat.lt_or_ge toks.length c.plToks.size with h | h
            · exact h
            · rw [Array.getD_eq_getD_getElem?, Array.getElem?_eq_none h] at hp
              simp only [Option.getD_none] at hp
              omega
          have hmem : c.plToks.getD toks.length (-1) ∈ c.plToks.toList := by
            rw [Array.getD_eq_getD_getElem?, Array.getElem?_eq_getElem hlt]
            simp
          have hfold : c.plToks.foldl max 0 = c.plToks.toList.foldl max 0 := by
            rw [Array.foldl_toList]
          have := (foldl_max_ge c.plToks.toList 0).2 _ hmem
          rw [hp, ← hfold] at this
          omega
      · intro sid hsid
        simp only [List.mem_singleton] at hsid
        omega

end

/-! ## the theorem -/

/-- fuel that suffices in all-parses mode for an input of `n` tokens (end marker included) when no
set of the parse list has more than `C` situations -/
def mpAllFuelC (g : Grammar) (n C : Nat) : Nat := (2 * C + 2) ^ expBound g n

/-- `make_parse` does not return NULL (all-parses context) -/
theorem init_total_all {g : Grammar} (hwf : g.WF) {ok : Nat → Nat → Nat → Bool} {w : List Nat} {c : Ctx}
    (hcc : CtxAllc g ok (w ++ [g.eofT]) c)
    (hne : ∃ it, EarleyF g ok (w ++ [g.eofT]) (w.length + 1) it) : ∃ s0, init c = some s0 := by
  have hc := hcc.toCtxAll
  obtain ⟨it, hit⟩ := hne
  obtain ⟨i, hi, _⟩ := hcc.complete _ _ hit
  have hsz : c.sets.size - 1 = w.length + 1 := by rw [hc.size]; simp
  have h0lt : 0 < (c.sets.getD (w.length + 1) #[]).size := by omega
  have hE := hc.sound (w.length + 1) 0 h0lt
  obtain ⟨rl, hr, hax, hdot, horig⟩ := EarleyF.last_set hwf hE rfl
  have hrule := hc.rule_eq hr
  unfold init
  simp only [hsz]
  have hget : ∀ (S : Array Item), 0 < S.size → S[0]? = some (S.getD 0 default) := by
    intro S h
    rw [Array.getD_eq_getD_getElem?, Array.getElem?_eq_getElem h]; rfl
  rw [hget _ h0lt]
  simp only [hrule, horig, hax, hc.axiomN, hdot]
  simp

/-- **totality of `make_parse` in all-parses mode**, over any parse list whose sets are exactly the
Earley sets of a token list ending in the end marker (the last of them not empty) and have at most
`C` situations each: with the fuel `mpAllFuelC` the run ends in a state that is not flagged and has
a result -/
theorem makeParse_all_total_ctx {g : Grammar} (hwf : g.WF) {ok : Nat → Nat → Nat → Bool}
    {w : List Nat} {c : Ctx} (hcc : CtxAllc g ok (w ++ [g.eofT]) c) (hg : GrOK g)
    (hcyc : ¬ Cyclic g) (hsr : g.symsInRange = true)
    (hne : ∃ it, EarleyF g ok (w ++ [g.eofT]) (w.length + 1) it)
    {C : Nat} (hC : ∀ j, (c.sets.getD j #[]).size ≤ C)
    {fuel : Nat} (hfuel : mpAllFuelC g (w.length + 1) C ≤ fuel) :
    ∃ s r, makeParseSt c fuel = some s ∧ s.bad = false ∧ s.result = some r := by
  have hc := hcc.toCtxAll
  obtain ⟨s0, hi⟩ := init_total_all hwf hcc hne
  obtain ⟨hinv0, hb0, hst0⟩ := tinit hc hi
  have hgood0 := ainit_inv hc hg hi
  have hpot : tpot g (2 * C + 2) (fun _ => (w ++ [g.eofT]).length) s0 ≤ fuel := by
    unfold tpot
    rw [hst0]
    simp only [pot, Nat.add_zero]
    have hok := (hinv0.sts 1 (by rw [hst0]; simp)).2
    have hle := expOf_le hok
    have hlen : (w ++ [g.eofT]).length = w.length + 1 := by simp
    rw [hlen] at hle ⊢
    have := Nat.pow_le_pow_right (show 1 ≤ 2 * C + 2 by omega) hle
    unfold mpAllFuelC at hfuel
    omega
  obtain ⟨s, hr, hb, hres⟩ := trun hcc hg hcyc hsr hC fuel s0 _ hb0 hgood0 hinv0
    (fun he => by rw [hst0] at he; cases he) hpot
  cases hres' : s.result with
  | none => exact absurd hres' hres
  | some r =>
    refine ⟨s, r, ?_, hb, hres'⟩
    unfold makeParseSt
    rw [hi]; exact hr

end Yaep.MP
