import Yaep.Lemmas.AnalysisCBase
import Yaep.Lemmas.Analysis
/-!
# `set_empty_access_derives` step for step: what one scan, one rule, one pass do; the loop
terminates; its result is the abstract `nullable` / `productive` / `reachable`
-/
namespace Yaep.AC

/-! ## the right-hand-side scan of one rule, in closed form -/

theorem eadScan_spec (lhs : Sym) (rhs : List Sym) (s : ScanSt) :
    (rhs.foldl (eadRhsStep lhs) s).fl.empty = s.fl.empty ∧
    (rhs.foldl (eadRhsStep lhs) s).fl.deriv = s.fl.deriv ∧
    (rhs.foldl (eadRhsStep lhs) s).e = (s.e && rhs.all s.fl.empty) ∧
    (rhs.foldl (eadRhsStep lhs) s).d = (s.d && rhs.all s.fl.deriv) ∧
    (∀ x, (rhs.foldl (eadRhsStep lhs) s).fl.access x = true ↔
      (s.fl.access x = true ∨ (s.fl.access lhs = true ∧ x ∈ rhs))) ∧
    ((rhs.foldl (eadRhsStep lhs) s).accCh = true ↔
      (s.accCh = true ∨ (s.fl.access lhs = true ∧ ∃ x ∈ rhs, s.fl.access x = false))) := by
  induction rhs generalizing s with
  | nil => simp
  | cons y ys ih =>
    simp only [List.foldl_cons]
    obtain ⟨h1, h2, h3, h4, h5, h6⟩ := ih (eadRhsStep lhs s y)
    by_cases hl : s.fl.access lhs = true
    · -- accessible left-hand side: `y` becomes accessible
      have he : (eadRhsStep lhs s y).fl.empty = s.fl.empty := by simp [eadRhsStep, hl]
      have hd : (eadRhsStep lhs s y).fl.deriv = s.fl.deriv := by simp [eadRhsStep, hl]
      have ha : (eadRhsStep lhs s y).fl.access = upd s.fl.access y true := by simp [eadRhsStep, hl]
      have hc : (eadRhsStep lhs s y).accCh = (s.accCh || (s.fl.access y ^^ true)) := by
        simp [eadRhsStep, hl]
      have hee : (eadRhsStep lhs s y).e = (s.e && s.fl.empty y) := by simp [eadRhsStep, hl]
      have hdd : (eadRhsStep lhs s y).d = (s.d && s.fl.deriv y) := by simp [eadRhsStep, hl]
      have hl' : upd s.fl.access y true lhs = true := upd_true_ge _ _ _ hl
      refine ⟨h1.trans he, h2.trans hd, ?_, ?_, ?_, ?_⟩
      · rw [h3, he, hee]; simp [Bool.and_assoc]
      · rw [h4, hd, hdd]; simp [Bool.and_assoc]
      · intro x
        rw [h5, ha, upd_true_iff, hl']
        simp only [hl, true_and, List.mem_cons]
        constructor
        · rintro ((h | h) | h)
          · exact Or.inr (Or.inl h)
          · exact Or.inl h
          · exact Or.inr (Or.inr h)
        · rintro (h | h | h)
          · exact Or.inl (Or.inr h)
          · exact Or.inl (Or.inl h)
          · exact Or.inr h
      · rw [h6, ha, hc, hl']
        simp only [hl, true_and]
        constructor
        · rintro (h | ⟨x, hx, hxa⟩)
          · rcases Bool.or_eq_true _ _ |>.mp h with h | h
            · exact Or.inl h
            · right; exact ⟨y, List.mem_cons_self, by cases hy : s.fl.access y <;> simp_all⟩
          · right
            refine ⟨x, List.mem_cons_of_mem _ hx, ?_⟩
            by_cases hxy : x = y
            · subst hxy; simp at hxa
            · rwa [upd_other _ _ hxy] at hxa
        · rintro (h | ⟨x, hx, hxa⟩)
          · left; simp [h]
          · by_cases hxy : x = y
            · subst hxy; left; simp [hxa]
            · rcases List.mem_cons.mp hx with h | h
              · exact absurd h hxy
              · right; exact ⟨x, h, by rwa [upd_other _ _ hxy]⟩
    · -- the flags are not touched
      have hl0 : s.fl.access lhs = false := by simpa using hl
      have hfl : (eadRhsStep lhs s y).fl = s.fl := by simp [eadRhsStep, hl0]
      have hc : (eadRhsStep lhs s y).accCh = s.accCh := by simp [eadRhsStep, hl0]
      have hee : (eadRhsStep lhs s y).e = (s.e && s.fl.empty y) := by simp [eadRhsStep, hl0]
      have hdd : (eadRhsStep lhs s y).d = (s.d && s.fl.deriv y) := by simp [eadRhsStep, hl0]
      rw [hfl] at h1 h2 h3 h4 h5 h6
      refine ⟨h1, h2, ?_, ?_, ?_, ?_⟩
      · rw [h3, hee]; simp [Bool.and_assoc]
      · rw [h4, hdd]; simp [Bool.and_assoc]
      · intro x; rw [h5]; simp [hl0]
      · rw [h6, hc]; simp [hl0]

/-! ## one rule, in closed form -/

/-- the three flags after `eadRule`, and which change flags it raises -/
theorem eadRule_spec (A : Nat) (st : EadSt) (r : Rule) :
    (∀ x, (eadRule A st r).fl.empty x = true ↔
      (st.fl.empty x = true ∨ (x = .n A ∧ r.rhs.all st.fl.empty = true))) ∧
    (∀ x, (eadRule A st r).fl.deriv x = true ↔
      (st.fl.deriv x = true ∨ (x = .n A ∧ r.rhs.all st.fl.deriv = true))) ∧
    (∀ x, (eadRule A st r).fl.access x = true ↔
      (st.fl.access x = true ∨ (st.fl.access (.n A) = true ∧ x ∈ r.rhs))) ∧
    ((eadRule A st r).emptyCh = true ↔
      (st.emptyCh = true ∨ (r.rhs.all st.fl.empty = true ∧ st.fl.empty (.n A) = false))) ∧
    ((eadRule A st r).derivCh = true ↔
      (st.derivCh = true ∨ (r.rhs.all st.fl.deriv = true ∧ st.fl.deriv (.n A) = false))) ∧
    ((eadRule A st r).accCh = true ↔
      (st.accCh = true ∨ (st.fl.access (.n A) = true ∧ ∃ x ∈ r.rhs, st.fl.access x = false))) := by
  obtain ⟨h1, h2, h3, h4, h5, h6⟩ := eadScan_spec (.n A) r.rhs
    { fl := st.fl, accCh := st.accCh, e := true, d := true }
  simp only [Bool.true_and] at h3 h4
  generalize hsc : r.rhs.foldl (eadRhsStep (.n A))
    { fl := st.fl, accCh := st.accCh, e := true, d := true } = sc at h1 h2 h3 h4 h5 h6
  have hr : eadRule A st r =
      (let st1 : EadSt :=
        if sc.e then
          { fl := { sc.fl with empty := upd sc.fl.empty (.n A) sc.e }
            emptyCh := st.emptyCh || (sc.fl.empty (.n A) ^^ sc.e)
            derivCh := st.derivCh, accCh := sc.accCh }
        else { fl := sc.fl, emptyCh := st.emptyCh, derivCh := st.derivCh, accCh := sc.accCh }
      if sc.d then
        { st1 with fl := { st1.fl with deriv := upd st1.fl.deriv (.n A) sc.d }
                   derivCh := st1.derivCh || (st1.fl.deriv (.n A) ^^ sc.d) }
      else st1) := by
    unfold eadRule
    simp only [hsc]
  simp only at h1 h2 h5 h6
  rw [hr]
  cases he : sc.e <;> cases hd : sc.d <;>
    simp only [Bool.false_eq_true, if_false, if_true] <;>
    rw [he] at h3 <;> rw [hd] at h4 <;>
    refine ⟨?_, ?_, h5, ?_, ?_, h6⟩
  all_goals first
    | (simp [h1, h2, ← h3, ← h4, upd_true_iff]; done)
    | (intro x; simp only [h1, h2, ← h3, ← h4, upd_true_iff, and_true]; exact Or.comm)
    | trace_state

/-! ## invariants -/

/-- `s` is `$S` or occurs in a rule of an accessible nonterminal -/
def AccSym (g : Grammar) (s : Sym) : Prop :=
  s = .n g.axiomN ∨ ∃ rl ∈ g.rules, rl.lhs ∈ g.reachable ∧ s ∈ rl.rhs

theorem AccSym.reachable {g : Grammar} {B : Nat} (h : AccSym g (.n B)) : B ∈ g.reachable := by
  rcases h with h | ⟨rl, hrl, hl, hB⟩
  · simp only [Sym.n.injEq] at h
    subst h
    exact axiomN_mem_reachable g
  · exact reachable_closed g (mem_reachStep.mpr ⟨rl, hrl, hl, hB⟩)

/-- every flag that is set is justified by the abstract analysis, and `$S` is accessible -/
structure Sound (g : Grammar) (fl : Flags) : Prop where
  empty : ∀ s, fl.empty s = true → symNullable g.nullable s = true
  deriv : ∀ s, fl.deriv s = true → symProductive g.productive s = true
  access : ∀ s, fl.access s = true → AccSym g s
  axiom_acc : fl.access (.n g.axiomN) = true

theorem eadInit_sound (g : Grammar) : Sound g (eadInit g) := by
  refine ⟨?_, ?_, ?_, ?_⟩
  · intro s h; simp [eadInit] at h
  · intro s h
    cases s with
    | t a => rfl
    | n A => simp [eadInit] at h
  · intro s h
    simp only [eadInit, upd_true_iff, Bool.false_eq_true, or_false] at h
    exact Or.inl h
  · simp [eadInit]

theorem all_mono {α : Type} {l : List α} {p q : α → Bool} (h : ∀ x, p x = true → q x = true)
    (hp : l.all p = true) : l.all q = true :=
  List.all_eq_true.mpr fun x hx => h x (List.all_eq_true.mp hp x hx)

theorem eadRule_sound {g : Grammar} {A : Nat} {r : Rule} (hr : r ∈ g.rules) (hl : r.lhs = A)
    {st : EadSt} (h : Sound g st.fl) : Sound g (eadRule A st r).fl := by
  obtain ⟨h1, h2, h3, _, _, _⟩ := eadRule_spec A st r
  refine ⟨?_, ?_, ?_, ?_⟩
  · intro s hs
    rcases (h1 s).mp hs with hs | ⟨rfl, hall⟩
    · exact h.empty s hs
    · have : r.lhs ∈ g.nullable :=
        nullable_closed g (mem_nullableStep.mpr ⟨r, hr, all_mono h.empty hall, rfl⟩)
      simpa [symNullable, hl] using this
  · intro s hs
    rcases (h2 s).mp hs with hs | ⟨rfl, hall⟩
    · exact h.deriv s hs
    · have : r.lhs ∈ g.productive :=
        productive_closed g (mem_productiveStep.mpr ⟨r, hr, all_mono h.deriv hall, rfl⟩)
      simpa [symProductive, hl] using this
  · intro s hs
    rcases (h3 s).mp hs with hs | ⟨hA, hmem⟩
    · exact h.access s hs
    · exact Or.inr ⟨r, hr, by rw [hl]; exact (h.access _ hA).reachable, hmem⟩
  · exact (h3 _).mpr (Or.inl h.axiom_acc)

/-! ## a rule that raises no change flag -/

/-- any of the three change flags -/
def EadSt.any (st : EadSt) : Bool := st.emptyCh || st.derivCh || st.accCh

/-- the rule `A : rhs` adds nothing to the flags -/
def RuleClosed (A : Nat) (rhs : List Sym) (fl : Flags) : Prop :=
  (rhs.all fl.empty = true → fl.empty (.n A) = true) ∧
  (rhs.all fl.deriv = true → fl.deriv (.n A) = true) ∧
  (fl.access (.n A) = true → ∀ x ∈ rhs, fl.access x = true)

theorem Flags.ext' {a b : Flags} (h1 : a.empty = b.empty) (h2 : a.deriv = b.deriv)
    (h3 : a.access = b.access) : a = b := by
  cases a; cases b; simp_all

theorem bool_fun_ext {α : Type} {f f' : α → Bool} (h : ∀ x, f x = true ↔ f' x = true) : f = f' := by
  funext x
  have := h x
  cases hf : f x <;> cases hf' : f' x <;> simp_all

theorem eadRule_noChange (A : Nat) (st : EadSt) (r : Rule) (h : (eadRule A st r).any = false) :
    st.any = false ∧ (eadRule A st r).fl = st.fl ∧ RuleClosed A r.rhs st.fl := by
  obtain ⟨h1, h2, h3, h4, h5, h6⟩ := eadRule_spec A st r
  unfold EadSt.any at h ⊢
  simp only [Bool.or_eq_false_iff] at h ⊢
  obtain ⟨⟨he, hd⟩, ha⟩ := h
  have he' := fun hh => Bool.eq_false_iff.mp he (h4.mpr hh)
  have hd' := fun hh => Bool.eq_false_iff.mp hd (h5.mpr hh)
  have ha' := fun hh => Bool.eq_false_iff.mp ha (h6.mpr hh)
  have hcl : RuleClosed A r.rhs st.fl := by
    refine ⟨?_, ?_, ?_⟩
    · intro hall
      cases hx : st.fl.empty (.n A)
      · exact absurd (Or.inr ⟨hall, hx⟩) he'
      · rfl
    · intro hall
      cases hx : st.fl.deriv (.n A)
      · exact absurd (Or.inr ⟨hall, hx⟩) hd'
      · rfl
    · intro hA x hx
      cases hxa : st.fl.access x
      · exact absurd (Or.inr ⟨hA, x, hx, hxa⟩) ha'
      · rfl
  refine ⟨⟨⟨?_, ?_⟩, ?_⟩, ?_, hcl⟩
  · cases hx : st.emptyCh
    · rfl
    · exact absurd (Or.inl hx) he'
  · cases hx : st.derivCh
    · rfl
    · exact absurd (Or.inl hx) hd'
  · cases hx : st.accCh
    · rfl
    · exact absurd (Or.inl hx) ha'
  · apply Flags.ext'
    · apply bool_fun_ext
      intro x
      rw [h1]
      constructor
      · rintro (h | ⟨rfl, hall⟩)
        · exact h
        · exact hcl.1 hall
      · exact Or.inl
    · apply bool_fun_ext
      intro x
      rw [h2]
      constructor
      · rintro (h | ⟨rfl, hall⟩)
        · exact h
        · exact hcl.2.1 hall
      · exact Or.inl
    · apply bool_fun_ext
      intro x
      rw [h3]
      constructor
      · rintro (h | ⟨hA, hx⟩)
        · exact h
        · exact hcl.2.2 hA x hx
      · exact Or.inl

/-! ## progress -/

/-- how many flags are set among the symbols of the grammar -/
def eadMu (g : Grammar) (fl : Flags) : Nat :=
  cnt (symUniv g) fl.empty + cnt (symUniv g) fl.deriv + cnt (symUniv g) fl.access

theorem eadMu_le (g : Grammar) (fl : Flags) : eadMu g fl ≤ 3 * (symUniv g).length := by
  have h1 := cnt_le_length (symUniv g) fl.empty
  have h2 := cnt_le_length (symUniv g) fl.deriv
  have h3 := cnt_le_length (symUniv g) fl.access
  unfold eadMu
  omega

theorem lhs_mem_symUniv {g : Grammar} {r : Rule} (hr : r ∈ g.rules) : Sym.n r.lhs ∈ symUniv g :=
  List.mem_flatMap.mpr ⟨r, hr, List.mem_cons_self⟩

theorem rhs_mem_symUniv {g : Grammar} {r : Rule} (hr : r ∈ g.rules) {x : Sym} (hx : x ∈ r.rhs) :
    x ∈ symUniv g :=
  List.mem_flatMap.mpr ⟨r, hr, List.mem_cons_of_mem _ hx⟩

theorem eadRule_progress {g : Grammar} {A : Nat} {r : Rule} (hr : r ∈ g.rules) (hl : r.lhs = A)
    (st : EadSt) :
    eadMu g st.fl ≤ eadMu g (eadRule A st r).fl ∧
    ((eadRule A st r).any = true → st.any = true ∨ eadMu g st.fl < eadMu g (eadRule A st r).fl) := by
  obtain ⟨h1, h2, h3, h4, h5, h6⟩ := eadRule_spec A st r
  have m1 : cnt (symUniv g) st.fl.empty ≤ cnt (symUniv g) (eadRule A st r).fl.empty :=
    cnt_mono fun x _ hx => (h1 x).mpr (Or.inl hx)
  have m2 : cnt (symUniv g) st.fl.deriv ≤ cnt (symUniv g) (eadRule A st r).fl.deriv :=
    cnt_mono fun x _ hx => (h2 x).mpr (Or.inl hx)
  have m3 : cnt (symUniv g) st.fl.access ≤ cnt (symUniv g) (eadRule A st r).fl.access :=
    cnt_mono fun x _ hx => (h3 x).mpr (Or.inl hx)
  have hA : Sym.n A ∈ symUniv g := hl ▸ lhs_mem_symUniv hr
  refine ⟨by unfold eadMu; omega, ?_⟩
  intro hany
  unfold EadSt.any at hany ⊢
  simp only [Bool.or_eq_true] at hany ⊢
  rcases hany with (he | hd) | ha
  · rcases h4.mp he with h | ⟨hall, hf⟩
    · exact Or.inl (Or.inl (Or.inl h))
    · right
      have : cnt (symUniv g) st.fl.empty < cnt (symUniv g) (eadRule A st r).fl.empty :=
        cnt_lt (fun x _ hx => (h1 x).mpr (Or.inl hx)) hA hf ((h1 _).mpr (Or.inr ⟨rfl, hall⟩))
      unfold eadMu; omega
  · rcases h5.mp hd with h | ⟨hall, hf⟩
    · exact Or.inl (Or.inl (Or.inr h))
    · right
      have : cnt (symUniv g) st.fl.deriv < cnt (symUniv g) (eadRule A st r).fl.deriv :=
        cnt_lt (fun x _ hx => (h2 x).mpr (Or.inl hx)) hA hf ((h2 _).mpr (Or.inr ⟨rfl, hall⟩))
      unfold eadMu; omega
  · rcases h6.mp ha with h | ⟨hacc, x, hx, hf⟩
    · exact Or.inl (Or.inr h)
    · right
      have : cnt (symUniv g) st.fl.access < cnt (symUniv g) (eadRule A st r).fl.access :=
        cnt_lt (fun x _ hx => (h3 x).mpr (Or.inl hx)) (rhs_mem_symUniv hr hx) hf
          ((h3 _).mpr (Or.inr ⟨hacc, hx⟩))
      unfold eadMu; omega

/-! ## one pass -/

theorem eadNonterm_sound {g : Grammar} (A : Nat) {st : EadSt} (h : Sound g st.fl) :
    Sound g (eadNonterm g st A).fl := by
  unfold eadNonterm
  apply foldl_inv (eadRule A) (fun st => Sound g st.fl) _ _ st h
  intro s r hr hs
  obtain ⟨h1, h2⟩ := mem_rulesOf.mp hr
  exact eadRule_sound h1 h2 hs

theorem eadPass_sound {g : Grammar} {fl : Flags} (h : Sound g fl) : Sound g (eadPass g fl).1 := by
  unfold eadPass
  apply foldl_inv (eadNonterm g) (fun st => Sound g st.fl) _ _ _ h
  intro s A _ hs
  exact eadNonterm_sound A hs

theorem eadNonterm_progress (g : Grammar) (A : Nat) (st : EadSt) :
    eadMu g st.fl ≤ eadMu g (eadNonterm g st A).fl ∧
    ((eadNonterm g st A).any = true →
      st.any = true ∨ eadMu g st.fl < eadMu g (eadNonterm g st A).fl) := by
  unfold eadNonterm
  apply foldl_progress (eadRule A) EadSt.any (fun st => eadMu g st.fl)
  intro s r hr
  obtain ⟨h1, h2⟩ := mem_rulesOf.mp hr
  exact eadRule_progress h1 h2 s

theorem eadPass_progress (g : Grammar) (fl : Flags) (h : (eadPass g fl).2 = true) :
    eadMu g fl < eadMu g (eadPass g fl).1 := by
  have := foldl_progress (eadNonterm g) EadSt.any (fun st => eadMu g st.fl) (List.range g.nN)
    (fun s A _ => eadNonterm_progress g A s)
    { fl := fl, emptyCh := false, derivCh := false, accCh := false }
  rcases this.2 h with h' | h'
  · simp [EadSt.any] at h'
  · exact h'

/-- all the rules with left-hand side `A` are closed -/
def NontermClosed (g : Grammar) (A : Nat) (fl : Flags) : Prop :=
  ∀ r ∈ g.rules, r.lhs = A → RuleClosed A r.rhs fl

theorem eadNonterm_noChange (g : Grammar) (A : Nat) (st : EadSt)
    (h : (eadNonterm g st A).any = false) :
    st.any = false ∧ (eadNonterm g st A).fl = st.fl ∧ NontermClosed g A st.fl := by
  unfold eadNonterm at h ⊢
  obtain ⟨h1, h2, h3⟩ := foldl_closed (eadRule A) EadSt.any EadSt.fl
    (fun r fl => RuleClosed A r.rhs fl) (rulesOf g A)
    (fun s r _ hc => eadRule_noChange A s r hc) st h
  exact ⟨h1, h2, fun r hr hl => h3 r (mem_rulesOf.mpr ⟨hr, hl⟩)⟩

theorem eadPass_noChange (g : Grammar) (fl : Flags) (h : (eadPass g fl).2 = false) :
    (eadPass g fl).1 = fl ∧ ∀ A < g.nN, NontermClosed g A fl := by
  obtain ⟨_, h2, h3⟩ := foldl_closed (eadNonterm g) EadSt.any EadSt.fl
    (fun A fl => NontermClosed g A fl) (List.range g.nN)
    (fun s A _ hc => eadNonterm_noChange g A s hc)
    { fl := fl, emptyCh := false, derivCh := false, accCh := false } h
  exact ⟨h2, fun A hA => h3 A (List.mem_range.mpr hA)⟩

/-! ## the flags only grow -/

/-- pointwise order on the flags -/
def Flags.Le (a b : Flags) : Prop :=
  (∀ s, a.empty s = true → b.empty s = true) ∧ (∀ s, a.deriv s = true → b.deriv s = true) ∧
  (∀ s, a.access s = true → b.access s = true)

theorem Flags.Le.refl (a : Flags) : Flags.Le a a := ⟨fun _ h => h, fun _ h => h, fun _ h => h⟩

theorem Flags.Le.trans {a b c : Flags} (h1 : Flags.Le a b) (h2 : Flags.Le b c) : Flags.Le a c :=
  ⟨fun s h => h2.1 s (h1.1 s h), fun s h => h2.2.1 s (h1.2.1 s h), fun s h => h2.2.2 s (h1.2.2 s h)⟩

theorem eadRule_le (A : Nat) (st : EadSt) (r : Rule) : Flags.Le st.fl (eadRule A st r).fl := by
  obtain ⟨h1, h2, h3, _, _, _⟩ := eadRule_spec A st r
  exact ⟨fun s h => (h1 s).mpr (Or.inl h), fun s h => (h2 s).mpr (Or.inl h),
    fun s h => (h3 s).mpr (Or.inl h)⟩

/-- a pass never clears a flag -/
theorem eadPass_le (g : Grammar) (fl : Flags) : Flags.Le fl (eadPass g fl).1 := by
  show Flags.Le (EadSt.fl { fl := fl, emptyCh := false, derivCh := false, accCh := false })
    ((List.range g.nN).foldl (eadNonterm g)
      { fl := fl, emptyCh := false, derivCh := false, accCh := false }).fl
  exact foldl_rel (eadNonterm g) (fun a b => Flags.Le a.fl b.fl) (fun _ => Flags.Le.refl _)
    (fun _ _ _ => Flags.Le.trans) _
    (fun s A _ => foldl_rel (eadRule A) (fun a b => Flags.Le a.fl b.fl) (fun _ => Flags.Le.refl _)
      (fun _ _ _ => Flags.Le.trans) _ (fun s r _ => eadRule_le A s r) s) _

/-! ## the loop -/

theorem ead_isSome (g : Grammar) : (doWhile (eadPass g) (eadFuel g) (eadInit g)).isSome = true := by
  apply doWhile_isSome (eadPass g) (fun _ => True) (fun _ _ => trivial) (eadMu g)
    (3 * (symUniv g).length) (fun s _ => eadMu_le g s) (fun s _ h => eadPass_progress g s h)
    _ _ trivial
  unfold eadFuel
  omega

/-- the result of `set_empty_access_derives` is justified, and a further pass would change
nothing: every rule of every nonterminal `< nN` is closed -/
theorem emptyAccessDerives_fix (g : Grammar) :
    Sound g (emptyAccessDerives g) ∧ (eadPass g (emptyAccessDerives g)).1 = emptyAccessDerives g ∧
    (eadPass g (emptyAccessDerives g)).2 = false ∧
    ∀ A < g.nN, NontermClosed g A (emptyAccessDerives g) := by
  have hs := ead_isSome g
  obtain ⟨r, hr⟩ := Option.isSome_iff_exists.mp hs
  have he : emptyAccessDerives g = r := by
    unfold emptyAccessDerives
    rw [hr]; rfl
  obtain ⟨s0, hs0, h1, h2⟩ := doWhile_spec (eadPass g) (Sound g) (fun s => eadPass_sound)
    _ _ _ (eadInit_sound g) hr
  obtain ⟨h3, h4⟩ := eadPass_noChange g s0 h2
  have : r = s0 := h1.symm.trans h3
  rw [he, this]
  exact ⟨hs0, h3, h2, h4⟩

/-! ## the result against the abstract analysis -/

/-- every rule has its left-hand side among the nonterminals `nonterm_get` enumerates (what
`yaep_read_grammar` guarantees: `Grammar.symsInRange`) -/
def LhsInRange (g : Grammar) : Prop := ∀ r ∈ g.rules, r.lhs < g.nN

theorem LhsInRange.of_symsInRange {g : Grammar} (h : g.symsInRange = true) : LhsInRange g := by
  intro r hr
  unfold Grammar.symsInRange at h
  have := List.all_eq_true.mp h r hr
  simp only [Bool.and_eq_true, decide_eq_true_eq] at this
  exact this.1

theorem ead_closed {g : Grammar} (hl : LhsInRange g) {r : Rule} (hr : r ∈ g.rules) :
    RuleClosed r.lhs r.rhs (emptyAccessDerives g) :=
  (emptyAccessDerives_fix g).2.2.2 r.lhs (hl r hr) r hr rfl

theorem ead_empty_iff {g : Grammar} (hl : LhsInRange g) (A : Nat) :
    (emptyAccessDerives g).empty (.n A) = true ↔ A ∈ g.nullable := by
  constructor
  · intro h
    have := (emptyAccessDerives_fix g).1.empty _ h
    simpa [symNullable] using this
  · intro h
    have key : ∀ B ∈ g.nullable, (emptyAccessDerives g).empty (.n B) = true := by
      unfold Grammar.nullable
      apply saturate_sound (nullableStep g.rules)
        (fun B => (emptyAccessDerives g).empty (.n B) = true)
      · intro s hs B hB
        obtain ⟨rl, hrl, hall, rfl⟩ := mem_nullableStep.mp hB
        apply (ead_closed hl hrl).1
        apply List.all_eq_true.mpr
        intro x hx
        have := List.all_eq_true.mp hall x hx
        cases x with
        | t a => simp [symNullable] at this
        | n C => exact hs C (by simpa [symNullable] using this)
      · intro _ h; cases h
    exact key A h

theorem ead_empty_t (g : Grammar) (a : Nat) : (emptyAccessDerives g).empty (.t a) = false := by
  cases h : (emptyAccessDerives g).empty (.t a)
  · rfl
  · have := (emptyAccessDerives_fix g).1.empty _ h
    simp [symNullable] at this

/-- `empty_p` of every symbol is `symNullable` of the abstract set -/
theorem ead_empty_eq {g : Grammar} (hl : LhsInRange g) (s : Sym) :
    (emptyAccessDerives g).empty s = symNullable g.nullable s := by
  cases s with
  | t a => rw [ead_empty_t]; rfl
  | n A =>
    have := ead_empty_iff hl A
    cases h : (emptyAccessDerives g).empty (.n A)
    · simp only [symNullable]
      rw [h] at this
      simp only [Bool.false_eq_true, false_iff] at this
      simp [this]
    · rw [h] at this
      simp [symNullable, this.mp rfl]

theorem ead_deriv_t (g : Grammar) (a : Nat) : (emptyAccessDerives g).deriv (.t a) = true := by
  -- terminals have `derivation_p` from the initialisation on; flags only grow
  have key : ∀ fl : Flags, fl.deriv (.t a) = true → (eadPass g fl).1.deriv (.t a) = true := by
    intro fl h
    unfold eadPass
    apply foldl_inv (eadNonterm g) (fun st => st.fl.deriv (.t a) = true) _ _ _ h
    intro s A _ hs
    unfold eadNonterm
    apply foldl_inv (eadRule A) (fun st => st.fl.deriv (.t a) = true) _ _ _ hs
    intro s r _ hs
    exact ((eadRule_spec A s r).2.1 _).mpr (Or.inl hs)
  have hs := ead_isSome g
  obtain ⟨r, hr⟩ := Option.isSome_iff_exists.mp hs
  have he : emptyAccessDerives g = r := by
    unfold emptyAccessDerives
    rw [hr]; rfl
  obtain ⟨s0, hs0, h1, _⟩ := doWhile_spec (eadPass g) (fun fl => fl.deriv (.t a) = true)
    (fun s h => key s h) _ _ _ (by simp [eadInit]) hr
  rw [he, ← h1]
  exact key s0 hs0

theorem ead_deriv_iff {g : Grammar} (hl : LhsInRange g) (A : Nat) :
    (emptyAccessDerives g).deriv (.n A) = true ↔ A ∈ g.productive := by
  constructor
  · intro h
    have := (emptyAccessDerives_fix g).1.deriv _ h
    simpa [symProductive] using this
  · intro h
    have key : ∀ B ∈ g.productive, (emptyAccessDerives g).deriv (.n B) = true := by
      unfold Grammar.productive
      apply saturate_sound (productiveStep g.rules)
        (fun B => (emptyAccessDerives g).deriv (.n B) = true)
      · intro s hs B hB
        obtain ⟨rl, hrl, hall, rfl⟩ := mem_productiveStep.mp hB
        apply (ead_closed hl hrl).2.1
        apply List.all_eq_true.mpr
        intro x hx
        have := List.all_eq_true.mp hall x hx
        cases x with
        | t a => exact ead_deriv_t g a
        | n C => exact hs C (by simpa [symProductive] using this)
      · intro _ h; cases h
    exact key A h

theorem ead_access_iff {g : Grammar} (hl : LhsInRange g) (A : Nat) :
    (emptyAccessDerives g).access (.n A) = true ↔ A ∈ g.reachable := by
  constructor
  · intro h
    exact ((emptyAccessDerives_fix g).1.access _ h).reachable
  · intro h
    have key : ∀ B ∈ g.reachable, (emptyAccessDerives g).access (.n B) = true := by
      unfold Grammar.reachable
      apply saturate_sound (reachStep g.rules)
        (fun B => (emptyAccessDerives g).access (.n B) = true)
      · intro s hs B hB
        obtain ⟨rl, hrl, hlhs, hmem⟩ := mem_reachStep.mp hB
        exact (ead_closed hl hrl).2.2 (hs _ hlhs) _ hmem
      · intro x hx
        rw [List.mem_singleton] at hx
        subst hx
        exact (emptyAccessDerives_fix g).1.axiom_acc
    exact key A h

/-- `access_p` of a terminal: it occurs in a rule of an accessible nonterminal -/
theorem ead_access_t_iff {g : Grammar} (hl : LhsInRange g) (a : Nat) :
    (emptyAccessDerives g).access (.t a) = true ↔
      ∃ rl ∈ g.rules, rl.lhs ∈ g.reachable ∧ Sym.t a ∈ rl.rhs := by
  constructor
  · intro h
    rcases (emptyAccessDerives_fix g).1.access _ h with h | h
    · cases h
    · exact h
  · rintro ⟨rl, hrl, hlhs, hmem⟩
    exact (ead_closed hl hrl).2.2 ((ead_access_iff hl _).mpr hlhs) _ hmem

end Yaep.AC
