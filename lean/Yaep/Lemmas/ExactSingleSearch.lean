import Yaep.Lemmas.RecoveredParseConsec
/-!
# The own sets of a recovery state start with an `error` set

A new invariant of the recovery search (`CX.HInv`), parallel to `RP.CInv`:

* the own tail of every recovery state on the stack is empty or starts with an `error` set, and the
  tail of the best recovery found starts with an `error` set;
* with `recovery_match ≤ 1` the matching loop stops after the first token, so no secondary state is
  ever pushed: every state on the stack has an empty tail and the tail of the best recovery is
  exactly `error`, one token set.
-/
namespace Yaep.CX
open Yaep Yaep.RP

/-! ## the matching loop -/

theorem matchLoop_head {g : Grammar} {an : Analysis} {la rmatch : Nat} {full : List Nat} {x : PSet}
    (P : List PSet) (last cost : Nat) (hP : P.length = last + 1) :
    ∀ (fuel : Nat) (T : List PSet) (ctok nm : Nat) (ps : List RState),
      (∀ s ∈ ps, ∃ T', s.tail = x :: T') →
      (∃ T', (matchLoop g an la rmatch full last cost fuel (P ++ x :: T) ctok nm ps).cpl = P ++ x :: T') ∧
      ∀ s ∈ (matchLoop g an la rmatch full last cost fuel (P ++ x :: T) ctok nm ps).pushes,
        ∃ T', s.tail = x :: T' := by
  intro fuel
  induction fuel with
  | zero => intro T ctok nm ps hps; unfold matchLoop; exact ⟨⟨T, rfl⟩, hps⟩
  | succ fuel ih =>
    intro T ctok nm ps hps
    unfold matchLoop
    simp only
    split
    · exact ⟨⟨T, rfl⟩, hps⟩
    · split
      · exact ⟨⟨T, rfl⟩, hps⟩
      · have hps' : ∀ s ∈ (if hasTrans g ((P ++ x :: T).getLastD default).items g.errT = true then
              ps ++ [⟨last, (P ++ x :: T).drop (last + 1), ctok + 1, cost⟩] else ps),
            ∃ T', s.tail = x :: T' := by
          intro s hs
          split at hs
          · rcases List.mem_append.mp hs with h | h
            · exact hps s h
            · rw [List.mem_singleton] at h
              subst h
              simp only
              rw [drop_append_of_length hP]
              exact ⟨T, rfl⟩
          · exact hps s hs
        split
        · exact ⟨⟨T, rfl⟩, hps'⟩
        · have e : ∀ n : PSet, P ++ x :: T ++ [n] = P ++ x :: (T ++ [n]) := by
            intro n; rw [List.append_assoc]; rfl
          rw [e]
          exact ih _ _ _ _ hps'

/-- with `recovery_match ≤ 1` the matching loop returns at once -/
theorem matchLoop_le_one {g : Grammar} {an : Analysis} {la rmatch : Nat} {full : List Nat}
    (hr : rmatch ≤ 1) (last cost fuel : Nat) (cpl : List PSet) (ctok nm : Nat) (ps : List RState) :
    (matchLoop g an la rmatch full last cost (fuel + 1) cpl ctok nm ps).cpl = cpl ∧
    (matchLoop g an la rmatch full last cost (fuel + 1) cpl ctok nm ps).pushes = ps := by
  unfold matchLoop
  simp only
  rw [if_pos (by omega)]
  exact ⟨rfl, rfl⟩

/-! ## the search loop -/

/-- the tail is empty or starts with an `error` set -/
def HeadErr (T : List PSet) : Prop := T = [] ∨ ∃ x T', T = x :: T' ∧ x.tok = none

structure HInv (rmatch : Nat) (st : SearchSt) : Prop where
  states : ∀ s ∈ st.stack, HeadErr s.tail ∧ (rmatch ≤ 1 → s.tail = [])
  best : ∀ b, st.best = some b → (∃ x T', b.tail = x :: T' ∧ x.tok = none) ∧
    (rmatch ≤ 1 → ∃ x y, b.tail = [x, y] ∧ x.tok = none ∧ y.tok ≠ none)

section Search
variable {g : Grammar} {an : Analysis} {la rmatch : Nat} {full : List Nat} {orig : List PSet}
  {startTok startPl : Nat}

theorem backStep_head (cpl : List PSet) (st : SearchSt) (rest : List RState)
    (hrest : ∀ s ∈ rest, HeadErr s.tail ∧ (rmatch ≤ 1 → s.tail = [])) :
    ∀ s ∈ (backStep g cpl startTok st rest).1, HeadErr s.tail ∧ (rmatch ≤ 1 → s.tail = []) := by
  intro s hs
  rcases backStep_cases g cpl startTok st rest with h | ⟨_, h⟩
  · rw [h] at hs; exact hrest s hs
  · rw [h] at hs
    rcases List.mem_cons.mp hs with rfl | hs
    · exact ⟨Or.inl rfl, fun _ => rfl⟩
    · exact hrest s hs

theorem frontierSt_head {st : SearchSt} {top : RState} {rest : List RState}
    (hc : HInv rmatch st) (hst : st.stack = top :: rest) :
    HInv rmatch (frontierSt g full orig startTok st top rest) := by
  have htop := hc.states top (by rw [hst]; exact List.mem_cons_self)
  have hrest : ∀ s ∈ rest, HeadErr s.tail ∧ (rmatch ≤ 1 → s.tail = []) :=
    fun s hs => hc.states s (by rw [hst]; exact List.mem_cons_of_mem _ hs)
  have hb := backStep_head (g := g) (rmatch := rmatch) (startTok := startTok)
    (orig.take (top.last + 1) ++ top.tail) st rest hrest
  refine ⟨?_, hc.best⟩
  intro s hs
  unfold frontierSt at hs
  simp only at hs
  split at hs
  · rcases List.mem_cons.mp hs with rfl | hs
    · exact htop
    · exact hb s hs
  · exact hb s hs

theorem pushSt_head {st1 : SearchSt} {mr : MatchRes} (h1 : HInv rmatch st1)
    (hp : ∀ s ∈ mr.pushes, HeadErr s.tail ∧ (rmatch ≤ 1 → s.tail = [])) :
    HInv rmatch (pushSt st1 mr) := by
  refine ⟨?_, h1.best⟩
  intro s hs
  unfold pushSt at hs
  simp only at hs
  rcases List.mem_append.mp hs with h | h
  · exact hp s (List.mem_reverse.mp h)
  · exact h1.states s h

theorem searchStepK_head {α : Type} (k : SearchSt → α) (P : α → Prop)
    (ctx : RCtx g an la full orig startTok startPl) {st : SearchSt} {top : RState}
    {rest : List RState} (hinv : SearchInv g an la full orig startTok startPl st)
    (hc : HInv rmatch st) (hst : st.stack = top :: rest)
    (hk : ∀ st', SearchInv g an la full orig startTok startPl st' → HInv rmatch st' → P (k st')) :
    P (searchStepK k g an la rmatch full orig startTok startPl st top rest) := by
  have htop := (hinv.states top (by rw [hst]; exact List.mem_cons_self)).1
  have hctop := hc.states top (by rw [hst]; exact List.mem_cons_self)
  obtain ⟨hf, hbf⟩ := frontierSt_inv ctx hinv hst
  have hcf := frontierSt_head (g := g) (full := full) (orig := orig) (startTok := startTok) hc hst
  unfold searchStepK
  simp only
  obtain ⟨hs1, hs2⟩ := skipLoop_spec g (errSetOf g (orig.take (top.last + 1) ++ top.tail)).items full
    (frontierSt g full orig startTok st top rest).bestCost (full.length + 1) top.stok top.back
  have hs3 := skipLoop_stop g (errSetOf g (orig.take (top.last + 1) ++ top.tail)).items full
    (frontierSt g full orig startTok st top rest).bestCost (full.length + 1) top.stok top.back
    (by omega)
  generalize skipLoop g (errSetOf g (orig.take (top.last + 1) ++ top.tail)).items full
    (frontierSt g full orig startTok st top rest).bestCost (full.length + 1) top.stok top.back = sk
    at hs1 hs2 hs3 ⊢
  obtain ⟨c, kk⟩ := sk
  simp only at hs1 hs2 hs3 ⊢
  split
  · exact hk _ hf hcf
  split
  · exact hk _ hf hcf
  rename_i h1 h2
  have hTr : hasTrans g (errSetOf g (orig.take (top.last + 1) ++ top.tail)).items
      (full.getD c 0) = true := by
    rcases hs3 with h | h | h
    · exact absurd h h1
    · exact absurd h h2
    · exact h
  have hT := tail_after_skip htop hs1 hs2 (Nat.lt_of_not_le h2) hTr
  have hPlen := ctx.take_length htop.last_le
  have hM := matchLoop_spec (an := an) (la := la) (rmatch := rmatch) (startPl := startPl)
    top.last kk hPlen htop.last_le
    (full.length + 1) _ c 0 [] hT (fun s hs => absurd hs List.not_mem_nil)
  rw [← List.append_assoc, ← List.append_assoc] at hM
  obtain ⟨T', ls, hcpl, hT', hct, hpush⟩ := hM
  -- the list the matching loop starts from, as `P ++ x :: T` with `x` an `error` set
  have hhe : (errSetOf g (orig.take (top.last + 1) ++ top.tail)).tok = none := rfl
  have hgt : (gotoSet g an la (orig.take (top.last + 1) ++ top.tail ++
        [errSetOf g (orig.take (top.last + 1) ++ top.tail)]) (full.getD c 0) (some c) full[c + 1]?).tok ≠
      none := by rw [gotoSet_tok]; exact fun h => by cases h
  generalize errSetOf g (orig.take (top.last + 1) ++ top.tail) = eS at *
  generalize gotoSet g an la (orig.take (top.last + 1) ++ top.tail ++ [eS]) (full.getD c 0) (some c)
    full[c + 1]? = nS at *
  have hshape : ∃ x T0, x.tok = none ∧
      orig.take (top.last + 1) ++ top.tail ++ [eS] ++ [nS] = orig.take (top.last + 1) ++ x :: T0 ∧
      (rmatch ≤ 1 → x = eS ∧ T0 = [nS]) := by
    rcases hctop.1 with h0 | ⟨x, T0, h0, hx⟩
    · exact ⟨eS, [nS], hhe, by rw [h0]; simp, fun _ => ⟨rfl, rfl⟩⟩
    · refine ⟨x, T0 ++ [eS] ++ [nS], hx, by rw [h0]; simp, fun hr => ?_⟩
      rw [hctop.2 hr] at h0; cases h0
  obtain ⟨x, T0, hx, hsh, hsh1⟩ := hshape
  rw [hsh] at hcpl hpush hct ⊢
  have hMh := matchLoop_head (g := g) (an := an) (la := la) (rmatch := rmatch) (full := full) (x := x)
    (orig.take (top.last + 1)) top.last kk hPlen (full.length + 1) T0 c 0 []
    (fun s hs => absurd hs List.not_mem_nil)
  obtain ⟨⟨Tc, hTc⟩, hph⟩ := hMh
  have hM1 := fun hr : rmatch ≤ 1 =>
    matchLoop_le_one (g := g) (an := an) (la := la) (full := full) hr top.last kk full.length
      (orig.take (top.last + 1) ++ x :: T0) c 0 []
  have hpush2 : ∀ s ∈ (matchLoop g an la rmatch full top.last kk (full.length + 1)
      (orig.take (top.last + 1) ++ x :: T0) c 0 []).pushes,
      HeadErr s.tail ∧ (rmatch ≤ 1 → s.tail = []) := by
    intro s hs
    refine ⟨?_, fun hr => ?_⟩
    · obtain ⟨T', hT'⟩ := hph s hs
      exact Or.inr ⟨x, T', hT', hx⟩
    · rw [(hM1 hr).2] at hs; cases hs
  have hcpush := pushSt_head hcf hpush2
  split
  · rename_i h3
    split
    · apply hk
      · refine bestSt_inv ctx hf hbf htop.last_le hpush hcpl hT' ?_
        have := hT'.ls_lt
        split
        · rename_i h4; rcases hct with h | ⟨h, _⟩ <;> omega
        · rename_i h4
          rcases hct with h | ⟨h, h5⟩
          · exact h
          · rcases h5 with h5 | h5
            · exact absurd h5 h4
            · rcases h3 with h3 | h3 <;> omega
      · refine ⟨hcpush.states, ?_⟩
        intro b hb
        unfold bestSt at hb
        simp only [Option.some.injEq] at hb
        subst hb
        simp only
        refine ⟨?_, fun hr => ?_⟩
        · rw [hTc, drop_append_of_length hPlen]
          exact ⟨x, Tc, rfl, hx⟩
        · rw [(hM1 hr).1, drop_append_of_length hPlen]
          obtain ⟨e1, e2⟩ := hsh1 hr
          subst e1; subst e2
          exact ⟨_, _, rfl, hx, hgt⟩
    · exact hk _ (pushSt_inv hf hbf hpush) hcpush
  · exact hk _ (pushSt_inv hf hbf hpush) hcpush

theorem searchLoop_head (ctx : RCtx g an la full orig startTok startPl) :
    ∀ (fuel : Nat) (st : SearchSt), SearchInv g an la full orig startTok startPl st → HInv rmatch st →
      HInv rmatch (searchLoop g an la rmatch full orig startTok startPl fuel st) := by
  intro fuel
  induction fuel with
  | zero => intro st _ h; unfold searchLoop; exact h
  | succ fuel ih =>
    intro st h hc
    cases hst : st.stack with
    | nil => rw [searchLoop_nil _ _ _ _ _ _ _ _ _ _ hst]; exact hc
    | cons top rest =>
      rw [searchLoop_cons _ _ _ _ _ _ _ _ _ _ _ _ hst]
      exact searchStepK_head _ _ ctx h hc hst ih

end Search

theorem recoverAt_head {g : Grammar} {an : Analysis} {la rmatch : Nat} {full : List Nat}
    {pl : List PSet} {tok : Nat} (h : PLOk g full pl tok) (ht : tok < full.length)
    (hrun : RunOk g an la full pl) (fuel : Nat) :
    HInv rmatch (recoverAt g an la rmatch full pl tok fuel) := by
  have ctx := h.rctx ht hrun
  have hinv0 := recoverAt_inv (rmatch := rmatch) h ht hrun 0
  unfold recoverAt at hinv0 ⊢
  simp only at hinv0 ⊢
  unfold searchLoop at hinv0
  apply searchLoop_head ctx _ _ hinv0
  refine ⟨?_, fun b hb => by cases hb⟩
  intro s hs
  simp only [List.mem_singleton] at hs
  subst hs
  exact ⟨Or.inl rfl, fun _ => rfl⟩

end Yaep.CX
