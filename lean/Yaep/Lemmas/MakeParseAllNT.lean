import Yaep.Lemmas.MakeParseAllLoop
/-!
# All-parses mode: the whole loop over the reduces of a nonterminal
-/
namespace Yaep.MP
open Yaep

/-- the invariant only looks at the tree memory, the states, the stack and the two tables -/
theorem AGood.congr {g : Grammar} {ok : Nat → Nat → Nat → Bool} {toks : List Nat} {s s' : St}
    {G : Ghost} {hole : Option (Nat × Nat)} (h : AGood g ok toks s G hole)
    (hh : s'.heap = s.heap) (hs : s'.states = s.states) (hk : s'.stack = s.stack)
    (ht : s'.table = s.table) (hn : s'.termNodes = s.termNodes) : AGood g ok toks s' G hole :=
  ⟨by rw [hh]; exact h.h0, by rw [hh]; exact h.h1, by rw [hh]; exact h.root, by rw [hs]; exact h.rootSt,
   by rw [hk]; exact h.sorted, by rw [hk]; exact h.spos, by rw [hh, hs, hk]; exact h.states,
   by rw [hs, hk]; exact h.noShare, by rw [hh, hs, hk]; exact h.cells, by rw [hh, hs, hk]; exact h.nn,
   by rw [hh, ht]; exact h.table, by rw [hh, hn]; exact h.terms⟩

theorem LoopOK.congr {g : Grammar} {ok : Nat → Nat → Nat → Bool} {toks : List Nat} {L : Loc}
    {rlX : Rule} {A d pa : Nat} {s s' : St} {G : Ghost} {os : List Nat}
    (h : LoopOK g ok toks L rlX A d pa s G os)
    (hh : s'.heap = s.heap) (hs : s'.states = s.states) (hk : s'.stack = s.stack)
    (ht : s'.table = s.table) (hn : s'.termNodes = s.termNodes) :
    LoopOK g ok toks L rlX A d pa s' G os :=
  ⟨h.good.congr hh hs hk ht hn, by rw [hs, hk]; exact h.sib, h.hr, h.hsym, h.hd,
   by rw [hs]; exact h.hpa, by rw [hs, hh]; exact h.full⟩

/-- induction over the candidate loop, all parses -/
theorem candLoop_all {c : Ctx} {L : Loc} {set : Array Item} (hall : c.oneParse = false)
    (M : Nat → List Nat → St → Prop)
    (hamb : ∀ n os s, n ≠ 0 → M n os s → M n os { s with amb := true }) :
    ∀ (l : List Nat), (∀ i ∈ l, ∀ n os s, checkFound c L (set.getD i default).origin = true → M n os s →
        M (n + 1) (candidate c L (set.getD i default) n os s).2 (candidate c L (set.getD i default) n os s).1) →
      ∀ n os s, M n os s → ∃ os', M (candLoop c L set l n os s).2 os' (candLoop c L set l n os s).1
  | [], _, n, os, s, hm => ⟨os, hm⟩
  | i :: l, hstep, n, os, s, hm => by
    unfold candLoop
    by_cases hf : checkFound c L (set.getD i default).origin = true
    · simp only [hf, hall]
      by_cases hn : n = 0
      · subst hn
        simp only [bne_self_eq_false, Bool.false_eq_true, if_false, Bool.false_and, Bool.not_true]
        exact candLoop_all hall M hamb l (fun j hj => hstep j (List.mem_cons_of_mem _ hj)) _ _ _
          (hstep i List.mem_cons_self 0 os s hf hm)
      · have hn' : (n != 0) = true := by simpa using hn
        simp only [hn', if_true, Bool.and_false, Bool.false_eq_true, if_false, Bool.not_true]
        exact candLoop_all hall M hamb l (fun j hj => hstep j (List.mem_cons_of_mem _ hj)) _ _ _
          (hstep i List.mem_cons_self n os _ hf (hamb n os s hn hm))
    · simp only [hf]
      exact candLoop_all hall M hamb l (fun j hj => hstep j (List.mem_cons_of_mem _ hj)) n os s hm

/-- what a candidate that passes the check loop is (all parses) -/
theorem cand_facts_all {g : Grammar} {ok : Nat → Nat → Nat → Bool} {toks : List Nat} {c : Ctx}
    (hc : CtxAll g ok toks c) {L : Loc} {pl i A : Nat}
    (hi : i ∈ reduces c (c.sets.getD pl #[]) A)
    (hf : checkFound c L ((c.sets.getD pl #[]).getD i default).origin = true) :
    ∃ sr so rl' kids, (c.sets.getD pl #[]).getD i default = ⟨sr, rl'.rhs.length, so⟩ ∧
      g.rules[sr]? = some rl' ∧ rl'.lhs = A ∧
      EarleyF g ok toks pl ⟨sr, rl'.rhs.length, so⟩ ∧
      PT.ValidAt g toks (.node sr kids) (.n A) so pl ∧
      EarleyF g ok toks so ⟨L.rule, L.pos, L.orig⟩ := by
  obtain ⟨m1, m2, m3⟩ := mem_reduces hi
  have hE := hc.sound pl i m1
  obtain ⟨ci, c1, c2⟩ := checkFound_spec hf
  have hE2 := hc.sound _ ci c1
  rw [c2] at hE2
  generalize (c.sets.getD pl #[]).getD i default = sit at *
  obtain ⟨sr, sd, so⟩ := sit
  obtain ⟨rl', hr', _⟩ := hE.sound
  simp only at hr' m2 m3 hE2
  have hrule := hc.rule_eq hr'
  rw [hrule] at m2 m3
  subst m2
  obtain ⟨_, kids, hk⟩ := hE.complete_valid hr'
  exact ⟨sr, so, rl', kids, rfl, hr', m3, hE, .node hr' m3 hk, hE2⟩

theorem candidate_untr {c : Ctx} {L : Loc} {sit : Item} {n : Nat} {os : List Nat} {s : St}
    (hd : L.disp = none) : candidate c L sit n os s = (candPre L sit n s, os) := by
  rw [candidate_eq, hd]
  cases L.parentAnode <;> rfl

/-- first candidate of an untranslated nonterminal: only the dot and the list index move -/
theorem cand_untr_zero {g : Grammar} {ok : Nat → Nat → Nat → Bool} {toks : List Nat} {c : Ctx}
    (hwf : g.translWF = true) {s : St} {G : Ghost}
    (hgood : AGood g ok toks s G none) {X : Nat} {rest : List Nat} (hst : s.stack = X :: rest)
    {rlX : Rule} {A : Nat} (hr : g.rules[(s.state X).rule]? = some rlX)
    (hpos : (s.state X).pos ≠ 0) (hsym : rlX.rhs[(s.state X).pos - 1]? = some (.n A))
    (hd : rlX.order.getD ((s.state X).pos - 1) none = none)
    {k : Nat} {pt : PT} (hkid : PT.ValidAt g toks pt (.n A) k (s.state X).plInd)
    (hE2 : EarleyF g ok toks k ⟨(s.state X).rule, (s.state X).pos - 1, (s.state X).orig⟩)
    {sit : Item} (hsit : sit.origin = k) :
    ∃ G', AGood g ok toks (candPre (ntLoc c s X A) sit 0 (ntS0 s X)) G' none := by
  have hXmem : X ∈ s.stack := by rw [hst]; simp
  obtain ⟨rl0, hX0⟩ := hgood.states X hXmem
  have est : s.states.getD X default = s.state X := rfl
  have hrl : rl0 = rlX := by
    have := hX0.hr; rw [est, hr] at this; injection this with this; exact this.symm
  subst hrl
  have hXlt := hX0.lt
  rw [candPre_zero, hsit]
  have hs0 := ntS0_state (s := s) hXlt
  have hsz0 : X < (ntS0 s X).states.size := by simp [ntS0]; exact hXlt
  have hupd : StsUpd s.states ((ntS0 s X).setState (ntLoc c s X A).origSid
      { (ntS0 s X).state (ntLoc c s X A).origSid with plInd := k }).states X
      { s.state X with pos := (s.state X).pos - 1, plInd := k } := by
    have u1 : StsUpd s.states (ntS0 s X).states X _ := StsUpd.set _ hXlt
    have u2 := StsUpd.set (sts := (ntS0 s X).states) { (ntS0 s X).state X with plInd := k } hsz0
    rw [hs0] at u2
    show StsUpd s.states ((ntS0 s X).states.set! X { (ntS0 s X).state X with plInd := k }) X _
    rw [hs0]
    exact u1.trans u2
  have hadv := hgood.advance (s' := (ntS0 s X).setState (ntLoc c s X A).origSid
      { (ntS0 s X).state (ntLoc c s X A).origSid with plInd := k })
    (st' := { s.state X with pos := (s.state X).pos - 1, plInd := k }) hwf hst
    (by rw [est]; exact hr) (by rw [est]; exact hpos)
    (by rw [est]; exact hsym) (k := k) (by rw [est]; exact hE2)
    (fun _ => ⟨pt, by rw [(hX0.item (by rw [est]; exact hpos)).2]; exact hkid⟩)
    hupd rfl rfl rfl rfl rfl rfl (fun _ => rfl) rfl rfl rfl rfl
  rw [est, hd] at hadv
  exact ⟨_, hadv⟩

theorem candPre_untr_pos {L : Loc} {sit : Item} {n : Nat} {s : St} (hn : n ≠ 0) :
    (candPre L sit n s).heap = s.heap ∧ (candPre L sit n s).states = s.states ∧
    (candPre L sit n s).stack = s.stack ∧ (candPre L sit n s).table = s.table ∧
    (candPre L sit n s).termNodes = s.termNodes := by
  unfold candPre
  have h1 : (n == 0) = false := by simpa using hn
  simp only [h1, Bool.false_eq_true, if_false]
  split <;> exact ⟨rfl, rfl, rfl, rfl, rfl⟩

/-- **a nonterminal before the dot, all parses**: either no candidate passes the check (the flag
`bad` is set) or the invariant holds again -/
theorem astep_nt {g : Grammar} {ok : Nat → Nat → Nat → Bool} {toks : List Nat} {c : Ctx}
    (hc : CtxAll g ok toks c) (hwf : g.translWF = true) {s : St} {G : Ghost}
    (hgood : AGood g ok toks s G none) {X : Nat} {rest : List Nat} (hst : s.stack = X :: rest)
    {rlX : Rule} {A : Nat} (hr : g.rules[(s.state X).rule]? = some rlX)
    (hpos : (s.state X).pos ≠ 0) (hsym : rlX.rhs[(s.state X).pos - 1]? = some (.n A)) :
    (step c s).bad = true ∨ ∃ G', AGood g ok toks (step c s) G' none := by
  have hXmem : X ∈ s.stack := by rw [hst]; simp
  obtain ⟨rl0, hX0⟩ := hgood.states X hXmem
  have est : s.states.getD X default = s.state X := rfl
  obtain ⟨pa, hpa⟩ := hX0.pa
  have hpa' : (s.state (s.state X).parent).anode = some pa := hpa
  have hrule := hc.rule_eq hr
  rw [step_nt' hst hpos (by rw [hrule]; exact getD_of_getElem? hsym)]
  have hLdisp : (ntLoc c s X A).disp = rlX.order.getD ((s.state X).pos - 1) none := by
    simp only [ntLoc, hrule]
  cases hd : rlX.order.getD ((s.state X).pos - 1) none with
  | none =>
    have hLd : (ntLoc c s X A).disp = none := by rw [hLdisp]; exact hd
    obtain ⟨os', hM⟩ := candLoop_all (L := ntLoc c s X A) (set := c.sets.getD (s.state X).plInd #[]) hc.all
      (fun n _ s' => (n = 0 ∧ s' = ntS0 s X) ∨ (n ≠ 0 ∧ ∃ G', AGood g ok toks s' G' none))
      (fun n os s' hn hm => by
        rcases hm with ⟨h0, _⟩ | ⟨_, G', hg⟩
        · exact absurd h0 hn
        · exact Or.inr ⟨hn, G', hg.congr rfl rfl rfl rfl rfl⟩)
      (reduces c (c.sets.getD (s.state X).plInd #[]) A)
      (fun i hi n os s' hf hm => by
        obtain ⟨sr, so, rl', kids, hsit, hr', hlhs, hE, hkid, hE2⟩ := cand_facts_all hc hi hf
        rw [candidate_untr hLd]
        right
        refine ⟨Nat.succ_ne_zero _, ?_⟩
        rcases hm with ⟨h0, rfl⟩ | ⟨hn, G', hg⟩
        · subst h0
          exact cand_untr_zero hwf hgood hst hr hpos hsym hd hkid hE2 (by rw [hsit])
        · obtain ⟨p1, p2, p3, p4, p5⟩ := candPre_untr_pos (L := ntLoc c s X A)
            (sit := (c.sets.getD (s.state X).plInd #[]).getD i default) (s := s') hn
          exact ⟨G', hg.congr p1 p2 p3 p4 p5⟩)
      0 [] (ntS0 s X) (Or.inl ⟨rfl, rfl⟩)
    rcases hM with ⟨h0, _⟩ | ⟨hn, G', hg⟩
    · left; rw [h0]; rfl
    · right
      have : ((candLoop c (ntLoc c s X A) (c.sets.getD (s.state X).plInd #[])
          (reduces c (c.sets.getD (s.state X).plInd #[]) A) 0 [] (ntS0 s X)).2 == 0) = false := by
        simpa using hn
      rw [this]
      exact ⟨G', hg⟩
  | some d =>
    have hLd : (ntLoc c s X A).disp = some d := by rw [hLdisp]; exact hd
    have hLpa : (ntLoc c s X A).parentAnode = some pa := hpa'
    obtain ⟨os', hM⟩ := candLoop_all (L := ntLoc c s X A) (set := c.sets.getD (s.state X).plInd #[]) hc.all
      (fun n os s' => (n = 0 ∧ os = [] ∧ s' = ntS0 s X) ∨
        (n ≠ 0 ∧ ∃ G', LoopOK g ok toks (ntLoc c s X A) rlX A d pa s' G' os))
      (fun n os s' hn hm => by
        rcases hm with ⟨h0, _⟩ | ⟨_, G', hg⟩
        · exact absurd h0 hn
        · exact Or.inr ⟨hn, G', hg.congr rfl rfl rfl rfl rfl⟩)
      (reduces c (c.sets.getD (s.state X).plInd #[]) A)
      (fun i hi n os s' hf hm => by
        obtain ⟨sr, so, rl', kids, hsit, hr', hlhs, hE, hkid, hE2⟩ := cand_facts_all hc hi hf
        rw [hsit]
        right
        refine ⟨Nat.succ_ne_zero _, ?_⟩
        rcases hm with ⟨h0, rfl, rfl⟩ | ⟨hn, G', hg⟩
        · subst h0
          exact cand_step_zero hc hwf hgood hst hr hpos hsym hd hpa' hr' hlhs hE hE2
        · exact cand_step_pos hc hwf hn hLpa hLd hg hr' hlhs hE hE2)
      0 [] (ntS0 s X) (Or.inl ⟨rfl, rfl, rfl⟩)
    rcases hM with ⟨h0, _⟩ | ⟨hn, G', hg⟩
    · left; rw [h0]; rfl
    · right
      have : ((candLoop c (ntLoc c s X A) (c.sets.getD (s.state X).plInd #[])
          (reduces c (c.sets.getD (s.state X).plInd #[]) A) 0 [] (ntS0 s X)).2 == 0) = false := by
        simpa using hn
      rw [this]
      exact ⟨G', hg.good⟩

end Yaep.MP
