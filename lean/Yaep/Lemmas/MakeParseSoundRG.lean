import Yaep.Lemmas.MakeParseSoundPL
/-!
# Every grammar `readGrammar` accepts satisfies `Grammar.mpWF`

The three decidable conditions on the translation parts of the rules that the soundness / totality
theorems about `make_parse` assume hold for the internal grammar of every accepted description:
`translWF` (`readGrammar_translWF`); a rule without abstract node and without translated symbol has
translation length 0; the rules for `$S` (the start rule and the implicit `$S : error $eof`) have
no abstract node.
-/
namespace Yaep

/-- the second condition of `Grammar.mpWF`, for one rule -/
def Rule.passOK (rl : Rule) : Prop :=
  (rl.anode.isSome || rl.transLen == 0 || rl.order.any Option.isSome) = true

theorem mkRule_passOK {rr : RawRule} {lhsN : Nat} {rhs : List Sym}
    {q : List (Option Nat) × Nat} (h10 : rr10 rr = false)
    (hq : translPhase rr rhs.length = .ok q) : (mkRule rr lhsN rhs q.1 q.2).passOK := by
  unfold translPhase at hq
  unfold Rule.passOK
  cases ha : rr.anode with
  | some nm => simp [mkRule, ha]
  | none =>
    cases htr : rr.transl with
    | none =>
      rw [htr] at hq
      injection hq with hq; subst hq
      simp [mkRule]
    | some tr =>
      rw [htr, ha] at hq
      simp only [Option.isSome_none] at hq
      have hshort : tr = [] ∨ ∃ x, tr = [x] := by
        unfold rr10 at h10
        rw [ha, htr] at h10
        match tr, h10 with
        | [], _ => exact .inl rfl
        | [x], _ => exact .inr ⟨x, rfl⟩
        | _ :: _ :: _, h => simp at h
      rcases hshort with rfl | ⟨x, rfl⟩
      · unfold readTransl at hq
        injection hq with hq; subst hq
        simp [mkRule]
      · unfold readTransl at hq
        by_cases hge : x ≥ rhs.length
        · rw [if_pos hge] at hq
          by_cases hnil : x ≠ NIL_TRANSL
          · rw [if_pos hnil] at hq; cases hq
          · rw [if_neg hnil] at hq
            unfold readTransl at hq
            injection hq with hq; subst hq
            simp [mkRule]
        · rw [if_neg hge] at hq
          split at hq
          · cases hq
          · unfold readTransl at hq
            injection hq with hq; subst hq
            simp only [mkRule, ha, Option.isSome_none, Bool.false_or, Bool.or_eq_true, beq_iff_eq,
              List.any_eq_true]
            right
            refine ⟨some 0, ?_, rfl⟩
            have hx : x < (List.replicate rhs.length (none : Option Nat)).length := by simp; omega
            have := List.getElem_mem (l := (List.replicate rhs.length (none : Option Nat)).set x (some 0))
              (n := x) (by simpa using hx)
            simpa using this

/-- what the rule loop keeps: every rule is `passOK`, and the first rule has no abstract node -/
structure RG.MPInv (s : RG) : Prop where
  pass : ∀ rl ∈ s.rules, rl.passOK
  head : ∀ r0 rest, s.rules = r0 :: rest → r0.anode = none

theorem ruleStep_mpInv {T : List String} {rr : RawRule} {s s' : RG} (hinv : s.Inv T) (h : s.MPInv)
    (hs : ruleStep rr s = .ok s') : s'.MPInv := by
  unfold ruleStep at hs
  split at hs
  · cases hs
  · cases hl : lhsPhase rr s with
    | error c => rw [hl] at hs; cases hs
    | ok p =>
      rw [hl] at hs
      simp only at hs
      have hp : p.1.rules = s.rules ∧ p.1.startN = s.startN := by
        unfold lhsPhase at hl
        split at hl
        · injection hl with hl; subst hl; exact ⟨rfl, rfl⟩
        · cases hl
        · injection hl with hl; subst hl; exact ⟨rfl, rfl⟩
      by_cases h10 : rr10 rr = true
      · rw [if_pos h10] at hs; cases hs
      · rw [if_neg h10] at hs
        split at hs
        · cases hs
        · cases hst : startPhase p.1 p.2 with
          | error c => rw [hst] at hs; cases hs
          | ok s2 =>
            rw [hst] at hs
            simp only at hs
            have hs2 : (∀ rl ∈ s2.rules, rl.passOK) ∧
                (∀ r0 rest, s2.rules = r0 :: rest → r0.anode = none) ∧ s2.rules ≠ [] := by
              unfold startPhase at hst
              split at hst
              · rename_i st hsome
                injection hst with hst; subst hst
                rw [hp.1]
                obtain ⟨r0, rest, hrules, _⟩ := (hinv.started st (hp.2 ▸ hsome)).rules
                exact ⟨h.pass, h.head, by rw [hrules]; simp⟩
              · rename_i hnone
                split at hst
                · cases hst
                · split at hst
                  · cases hst
                  · injection hst with hst; subst hst
                    have hnil : s.rules = [] := hinv.notStarted (hp.2 ▸ hnone)
                    simp only [RG.addNt, RG.addTerm, hp.1, hnil, List.nil_append]
                    refine ⟨?_, ?_, by simp⟩
                    · intro rl hrl
                      simp only [List.mem_singleton] at hrl
                      subst hrl; rfl
                    · intro r0 rest hr
                      injection hr with hr _
                      subst hr; rfl
            cases htp : translPhase rr (readRhs rr.rhs s2 []).2.length with
            | error c => rw [htp] at hs; cases hs
            | ok q =>
              rw [htp] at hs
              simp only at hs
              injection hs with hs; subst hs
              refine ⟨?_, ?_⟩
              · intro rl hrl
                simp only at hrl
                rcases List.mem_append.mp hrl with hrl | hrl
                · rw [readRhs_rules] at hrl; exact hs2.1 rl hrl
                · simp only [List.mem_singleton] at hrl
                  subst hrl
                  exact mkRule_passOK (by simpa using h10) htp
              · intro r0 rest hr
                simp only [readRhs_rules] at hr
                cases hr2 : s2.rules with
                | nil => exact absurd hr2 hs2.2.2
                | cons x xs =>
                  rw [hr2] at hr
                  injection hr with hr _
                  subst hr
                  exact hs2.2.1 _ _ hr2

theorem readRules_mpInv {T : List String} (rules : List RawRule) : ∀ {s s' : RG}, s.Inv T → s.MPInv →
    readRules rules s = .ok s' → s'.MPInv := by
  induction rules with
  | nil =>
    intro s s' _ h hs
    rw [readRules_nil] at hs
    injection hs with hs; subst hs; exact h
  | cons rr rest ih =>
    intro s s' hinv h hs
    rw [readRules_cons] at hs
    cases hstep : ruleStep rr s with
    | error c => rw [hstep] at hs; cases hs
    | ok s1 =>
      rw [hstep] at hs
      exact ih (ruleStep_ok hinv hstep).1 (ruleStep_mpInv hinv h hstep) hs

theorem buildGrammar_mpWF {raw : RawGrammar} {g : Grammar} (hb : buildGrammar raw = .ok g) :
    g.mpWF = true := by
  have htw := buildGrammar_translWF hb
  unfold buildGrammar at hb
  cases hrg : buildRG raw with
  | error c => rw [hrg] at hb; cases hb
  | ok s =>
    rw [hrg] at hb
    injection hb with hb; subst hb
    obtain ⟨_, hinv, st, hst⟩ := buildRG_ok hrg
    have hmp : s.MPInv := by
      unfold buildRG at hrg
      cases ht : readTerms raw.terms {} with
      | error c => rw [ht] at hrg; cases hrg
      | ok s0 =>
        rw [ht] at hrg
        simp only at hrg
        obtain ⟨hinit, hnames⟩ := readTerms_init ht
        obtain ⟨_, _, _, hnd, _, _⟩ := readTerms_ok raw.terms {} s0 ht
        split at hrg
        · cases hrg
        · rename_i herr
          have herr' : TERM_ERROR_NAME ∉ raw.terms.map (·.1) := by
            rw [← hnames]
            exact fun hm => herr (RG.find_isSome_iff.mpr hm)
          rw [hinit] at hrg
          obtain ⟨hinv0, _, _⟩ := initRG_inv hnd herr'
          cases hr : readRules raw.rules (initRG raw.terms) with
          | error c => rw [hr] at hrg; cases hrg
          | ok s1 =>
            rw [hr] at hrg
            simp only at hrg
            split at hrg
            · cases hrg
            · injection hrg with hrg; subst hrg
              refine readRules_mpInv raw.rules hinv0 ⟨?_, ?_⟩ hr
              · intro rl hrl; simp [initRG] at hrl
              · intro r0 rest hrl; simp [initRG] at hrl
    obtain ⟨r0, rest, hrules, _, _, hrest⟩ := (hinv.started st hst).rules
    unfold Grammar.mpWF
    rw [htw]
    simp only [Bool.true_and, Bool.and_eq_true, List.all_eq_true, Bool.or_eq_true, bne_iff_ne]
    have hax : (finishRG s).axiomN = s.axiomN := rfl
    refine ⟨?_, ?_⟩
    · intro rl hrl
      rw [finishRG_rules] at hrl
      rcases List.mem_append.mp hrl with hrl | hrl
      · have := hmp.pass rl hrl
        unfold Rule.passOK at this
        simpa [Bool.or_eq_true] using this
      · simp only [List.mem_singleton] at hrl
        subst hrl
        simp
    · intro rl hrl
      rw [finishRG_rules, hrules] at hrl
      rw [hax]
      rcases List.mem_append.mp hrl with hrl | hrl
      · rcases List.mem_cons.mp hrl with rfl | hrl
        · right
          rw [hmp.head _ _ hrules]; rfl
        · left
          exact (hrest rl hrl).1
      · simp only [List.mem_singleton] at hrl
        subst hrl
        right; rfl

/-- every grammar `readGrammar` accepts satisfies the hypotheses of the theorems about
`make_parse` -/
theorem readGrammar_mpWF_aux {raw : RawGrammar} {g : Grammar} (h : readGrammar raw = .ok g) :
    g.mpWF = true := by
  rw [readGrammar_eq] at h
  cases hb : buildGrammar raw with
  | error c => rw [hb] at h; cases h
  | ok g' =>
    rw [hb] at h
    simp only at h
    split at h
    · cases h
    · injection h with h; subst h
      exact buildGrammar_mpWF hb

end Yaep
