import Yaep.Lemmas.MakeParseTotalPoly
/-!
# A polynomial bound for the main loop of `make_parse` (all parses), part 2: one candidate

`candidate_parts`: one candidate = an optional copy of the original state (`HeadPart`), then
(`TailPart`) nothing, or a state for a rule without abstract node (only at a translated position),
or a state for a new abstract node together with the insertion of its key into `parse_state_tab`.
-/
namespace Yaep.MP
open Yaep

/-- what `candHead` does to the states and the stack -/
def HeadPart (L : Loc) (sit : Item) (n : Nat) (s1 : St) (sts1 : Array PState) (stack1 : List Nat) : Prop :=
  (sts1 = s1.states ∧ stack1 = s1.stack) ∨
  (n ≠ 0 ∧ ∃ p, IsCopy L sit s1 p ∧ sts1 = s1.states.push p ∧ stack1 = s1.states.size :: s1.stack)

/-- what `candTail` does to the states, the stack and the table -/
def TailPart (c : Ctx) (L : Loc) (sit : Item) (sts1 : Array PState) (stack1 : List Nat)
    (tab1 : Array (List (Nat × Nat × Nat))) (sts' : Array PState) (stack' : List Nat)
    (tab' : Array (List (Nat × Nat × Nat))) : Prop :=
  (sts' = sts1 ∧ stack' = stack1 ∧ tab' = tab1) ∨
  (∃ q, IsChild L sit q ∧ sts' = sts1.push q ∧ stack' = sts1.size :: stack1 ∧
    ((tab' = tab1 ∧ (c.rule sit.rule).anode = none ∧ sit.dot ≠ 0 ∧ L.disp.isSome = true) ∨
     (∃ nd, tableFind tab1 sit.rule sit.origin L.plInd = none ∧
        tab' = tableInsert tab1 sit.rule sit.origin L.plInd nd)))

theorem candHead_parts (L : Loc) (sit : Item) (n : Nat) (os : List Nat) (s : St) (pp : Nat × Nat)
    (disp : Nat) :
    HeadPart L sit n s (candHead L sit n os s pp disp).1.states (candHead L sit n os s pp disp).1.stack ∧
      (candHead L sit n os s pp disp).1.table = s.table := by
  by_cases hn : n = 0
  · subst hn; rw [candHead_zero]; exact ⟨Or.inl ⟨rfl, rfl⟩, rfl⟩
  · cases hf : (headOs L n os).find? (fun sid => (s.state sid).plInd == sit.origin) with
    | some x => rw [candHead_found hn hf]; exact ⟨Or.inl ⟨rfl, rfl⟩, rfl⟩
    | none =>
      cases ha : (s.state L.origSid).anode with
      | some a =>
        obtain ⟨_, h2, h3, h4, _⟩ := candHead_copy_owner (pp := pp) (disp := disp) hn hf ha
        exact ⟨Or.inr ⟨hn, { s.state L.origSid with plInd := sit.origin, anode := some s.heap.size },
          ⟨rfl, rfl, rfl, rfl, rfl, rfl⟩, h2, h3⟩, h4⟩
      | none =>
        obtain ⟨_, h2, h3, h4, _⟩ := candHead_copy_pass (pp := pp) (disp := disp) hn hf ha
        exact ⟨Or.inr ⟨hn, { s.state L.origSid with plInd := sit.origin, anode := none },
          ⟨rfl, rfl, rfl, rfl, rfl, rfl⟩, h2, h3⟩, h4⟩

theorem candTail_parts {c : Ctx} (hall : c.oneParse = false) (L : Loc) (hd : L.disp.isSome = true)
    (sit : Item) (pp : Nat × Nat) (disp : Nat) (s : St) (os : List Nat) (cur : Nat) (anode : Option Nat) :
    TailPart c L sit s.states s.stack s.table (candTail c L sit pp disp (s, os, cur, anode)).1.states
      (candTail c L sit pp disp (s, os, cur, anode)).1.stack
      (candTail c L sit pp disp (s, os, cur, anode)).1.table := by
  cases hn : (c.rule sit.rule).anode with
  | some name =>
    cases hf : tableFind s.table sit.rule sit.origin L.plInd with
    | none =>
      obtain ⟨_, h2, h3, h4, _⟩ := candTail_new (L := L) (pp := pp) (disp := disp) (os := os) (cur := cur)
        (anode := anode) hall hn hf
      exact Or.inr ⟨tailChild L sit s cur anode disp (some s.heap.size), ⟨rfl, rfl, rfl, rfl⟩, h2, h3,
        Or.inr ⟨s.heap.size, hf, h4⟩⟩
    | some node =>
      obtain ⟨_, h2, h3, h4, _⟩ := candTail_reuse (L := L) (pp := pp) (disp := disp) (os := os) (cur := cur)
        (anode := anode) hall hn hf
      exact Or.inl ⟨h2, h3, h4⟩
  | none =>
    by_cases hdot : sit.dot = 0
    · obtain ⟨_, h2, h3, h4, _⟩ := candTail_nil (c := c) (L := L) (pp := pp) (disp := disp) (s := s) (os := os)
        (cur := cur) (anode := anode) hn hdot
      exact Or.inl ⟨h2, h3, h4⟩
    · obtain ⟨_, h2, h3, h4, _⟩ := candTail_pass (c := c) (L := L) (pp := pp) (disp := disp) (s := s) (os := os)
        (cur := cur) (anode := anode) hn hdot
      exact Or.inr ⟨tailChild L sit s cur anode disp none, ⟨rfl, rfl, rfl, rfl⟩, h2, h3,
        Or.inl ⟨h4, hn, hdot, hd⟩⟩

theorem candPre_table (L : Loc) (sit : Item) (n : Nat) (s : St) : (candPre L sit n s).table = s.table := by
  unfold candPre
  simp only
  split <;> split <;> rfl

/-- **one candidate, all parses**, with the table -/
theorem candidate_parts {c : Ctx} (hall : c.oneParse = false) (L : Loc) (sit : Item) (n : Nat)
    (os : List Nat) (s : St) :
    ∃ sts1 stack1, HeadPart L sit n (candPre L sit n s) sts1 stack1 ∧
      TailPart c L sit sts1 stack1 s.table (candidate c L sit n os s).1.states
        (candidate c L sit n os s).1.stack (candidate c L sit n os s).1.table := by
  rw [candidate_eq]
  cases hpa : L.parentAnode with
  | none =>
    exact ⟨_, _, Or.inl ⟨rfl, rfl⟩, Or.inl ⟨rfl, rfl, candPre_table L sit n s⟩⟩
  | some pa =>
    cases hd : L.disp with
    | none => exact ⟨_, _, Or.inl ⟨rfl, rfl⟩, Or.inl ⟨rfl, rfl, candPre_table L sit n s⟩⟩
    | some d =>
      simp only
      obtain ⟨hh, ht⟩ := candHead_parts L sit n os (candPre L sit n s) (pa, L.parentDisp) d
      generalize hr : candHead L sit n os (candPre L sit n s) (pa, L.parentDisp) d = r at hh ht
      obtain ⟨s1, os1, cur1, an1⟩ := r
      have htl := candTail_parts hall L (by rw [hd]; rfl) sit (pa, L.parentDisp) d s1 os1 cur1 an1
      simp only at hh ht
      rw [ht, candPre_table] at htl
      exact ⟨s1.states, s1.stack, hh, htl⟩

end Yaep.MP
