import Yaep.Lemmas.CompleteDef
/-!
# Completeness of the all-parses forest of `make_parse`, part: the exporter loses nothing

Every tree a pointer of the tree memory denotes (relation `DenP`) is in the list of trees the
exported node table denotes (`denoteTab`).  This is the converse of `entries_sound`.
-/
namespace Yaep.CP
open Yaep Yaep.MP

theorem altChain_succ_alt {h : Array MNode} {m node : Nat} {next : Option Nat} (f : Nat)
    (hc : h.getD m .nil = .alt node next) :
    altChain h (f + 1) (some m) = node :: altChain h f next := by
  simp only [altChain, hc]

/-- a chain that obeys `AltShape` is completely listed by `altChain` with enough fuel -/
theorem inChain_mem_altChain {h : Array MNode} (hs : AltShape h) :
    ∀ (m a fuel : Nat), InChain h m a → m + 2 ≤ fuel → a ∈ altChain h fuel (some m) := by
  intro m
  induction m using Nat.strongRecOn with
  | _ m ih =>
    intro a fuel hc hf
    obtain ⟨f, rfl⟩ : ∃ f, fuel = f + 1 := ⟨fuel - 1, by omega⟩
    cases hc with
    | head hc =>
      rw [altChain_succ_alt f hc]
      exact List.mem_cons_self
    | tail hc hn =>
      rw [altChain_succ_alt f hc]
      apply List.mem_cons_of_mem
      rcases hs _ _ _ hc with hlt | ⟨rfl, nd', hnd⟩
      · exact ih _ hlt _ _ hn (by omega)
      · obtain ⟨f', rfl⟩ : ∃ f', f = f' + 1 := ⟨f - 1, by omega⟩
        cases hn with
        | head hc' =>
          rw [altChain_succ_alt f' hc']
          exact List.mem_cons_self
        | tail hc' _ =>
          rw [hnd] at hc'
          cases hc'

/-- a cell that holds something else than `.nil` is inside the memory -/
theorem lt_size_of_getD_ne_nil {h : Array MNode} {m : Nat} (hne : h.getD m .nil ≠ .nil) :
    m < h.size := by
  apply Classical.byContradiction
  intro hge
  apply hne
  simp [Array.getD_eq_getD_getElem?, Array.getElem?_eq_none (Nat.le_of_not_lt hge)]

/-- an ALT chain starts at an ALT cell -/
theorem InChain.isAltCell {h : Array MNode} {m a : Nat} (hc : InChain h m a) :
    ∃ node next, h.getD m .nil = .alt node next := by
  cases hc with
  | head hc => exact ⟨_, _, hc⟩
  | tail hc _ => exact ⟨_, _, hc⟩

/-- what a pointer denotes is in the denotation of every table entry that stands for its cell -/
theorem den_mem_entry {h : Array MNode} {tab : Array NodeRec} {cells : List Nat}
    (htw : tableWF tab = true) (hrep : ∀ id, id < tab.size → RepAt h tab cells id)
    (hshape : AltShape h)
    (hfin : ∀ m nm c ks, rootId < m → h.getD m .nil = .anode nm c ks →
      ks.size ≠ 0 ∧ ks.getD (ks.size - 1) none = none)
    {m : Nat} {t : Tree} (hd : DenP h m t) :
    ∀ id, id < tab.size → cells.getD id 0 = m → t ∈ (denoteTab tab).getD id [] := by
  induction hd with
  | nil _ hc =>
    intro id hid hm
    obtain ⟨ids, r1, _, _⟩ := hrep id hid
    rw [denoteTab_rec htw hid, r1, hm]
    unfold cellRec; rw [hc]
    simp [denoteRec]
  | err _ hc =>
    intro id hid hm
    obtain ⟨ids, r1, _, _⟩ := hrep id hid
    rw [denoteTab_rec htw hid, r1, hm]
    unfold cellRec; rw [hc]
    simp [denoteRec]
  | term hc =>
    intro id hid hm
    obtain ⟨ids, r1, _, _⟩ := hrep id hid
    rw [denoteTab_rec htw hid, r1, hm]
    unfold cellRec; rw [hc]
    simp [denoteRec]
  | @anode m nm c ks ts kf hroot hc hsz hk hden ih =>
    intro id hid hm
    obtain ⟨ids, r1, r2, r3⟩ := hrep id hid
    rw [hm] at r1 r2
    rw [denoteTab_rec htw hid, r1]
    have hlast : ks.getD ts.length none = none := by
      have := (hfin m nm c ks hroot hc).2
      rw [hsz] at this
      simpa using this
    have hkids := cellKids_fin hc hsz (fun d hd => ⟨kf d, hk d hd⟩) hlast
    have hidslen : ids.length = ts.length := by
      have := congrArg List.length r2
      rw [hkids] at this
      simpa using this
    unfold cellRec; rw [hc]
    simp only [denoteRec, List.mem_map]
    refine ⟨ts, ?_, rfl⟩
    apply mem_prodAll.mpr
    refine ⟨by simpa using hidslen.symm, ?_⟩
    intro d h1 h2
    have hdi : d < ids.length := by omega
    have hcell : cells.getD ids[d] 0 = kf d := by
      have := congrArg (fun l => l.getD d 0) r2
      rw [hkids] at this
      have e : (ks.getD d none).getD 0 = kf d := by rw [hk d h1]; rfl
      rw [← e]
      simpa [List.getD_eq_getElem?_getD, hdi, h1] using this
    have hlt' : ids[d] < id := r3 _ (List.getElem_mem hdi)
    have := ih d h1 ids[d] (by omega) hcell
    simpa [List.getD_eq_getElem?_getD, h1] using this
  | @alt m a t hchain hden ih =>
    intro id hid hm
    obtain ⟨ids, r1, r2, r3⟩ := hrep id hid
    rw [hm] at r1 r2
    rw [denoteTab_rec htw hid, r1]
    obtain ⟨node, next, hc⟩ := hchain.isAltCell
    have hmlt : m < h.size := lt_size_of_getD_ne_nil (by rw [hc]; intro hh; cases hh)
    have hck : cellKids h m = altChain h (h.size + 1) (some m) := by
      unfold cellKids; rw [hc]
    have hmem : a ∈ cellKids h m := by
      rw [hck]; exact inChain_mem_altChain hshape m a _ hchain (by omega)
    rw [← r2] at hmem
    obtain ⟨k, hk, hka⟩ := List.mem_map.mp hmem
    have hklt := r3 k hk
    unfold cellRec; rw [hc]
    simp only [denoteRec, List.mem_flatMap]
    exact ⟨k, hk, ih k (by omega) hka⟩

/-- **the exporter loses nothing** -/
theorem export_complete {h : Array MNode} {r : Nat} {tab : Array NodeRec} {root : Nat}
    (hx : exportTable h r = some (tab, root)) (hshape : AltShape h)
    (hfin : ∀ m nm c ks, rootId < m → h.getD m .nil = .anode nm c ks →
      ks.size ≠ 0 ∧ ks.getD (ks.size - 1) none = none)
    {t : Tree} (hd : DenP h r t) : t ∈ (denoteTab tab).getD root [] := by
  obtain ⟨cells, _, hroot, hcr, hrep⟩ := exportTable_rep hx
  exact den_mem_entry (exportTable_wf hx).1 hrep hshape hfin hd root hroot hcr

end Yaep.CP
