import Yaep.Lemmas.LaIndepRel
import Yaep.Lemmas.MakeParseFlagAllStep
/-!
# Lookahead independence of `make_parse`, part 1: the candidate loop as a function of a list of items

`candLoop` only depends on the list of the items of the reduce vector that pass the check loop
(`candLoop_eq_L`), and on the rules and the one-parse flag of the context (`candLoopL_congr`).
-/
namespace Yaep.LI
open Yaep Yaep.MP

/-! ## lists -/

theorem getD_of_lt {α : Type} (d : α) (a : Array α) {i : Nat} (h : i < a.size) : a.getD i d = a[i] := by
  simp [Array.getD_eq_getD_getElem?, h]

theorem map_getD_range {α : Type} (d : α) (a : Array α) :
    (List.range a.size).map (fun i => a.getD i d) = a.toList := by
  apply List.ext_getElem?
  intro i
  by_cases hi : i < a.size
  · simp [hi, Array.getD_eq_getD_getElem?]
  · simp [hi]

theorem map_filter_range {α : Type} (d : α) (a : Array α) (p : α → Bool) :
    ((List.range a.size).filter (fun i => p (a.getD i d))).map (fun i => a.getD i d) =
      a.toList.filter p := by
  have h := map_getD_range d a
  rw [← h, List.filter_map]
  rfl

/-- the abstract form of the `mask` field: `b` is `a` with some occurrences removed; a test `p0` on `a` that
implies that the occurrence is kept, and agrees with `p1` on the kept occurrences, selects the same list -/
theorem filter_eq_of_mask {α : Type} (p0 p1 : α → Bool) :
    ∀ (l : List (α × Bool)), (∀ x ∈ l, p0 x.1 = (x.2 && p1 x.1)) →
      (l.map Prod.fst).filter p0 = ((l.filter Prod.snd).map Prod.fst).filter p1
  | [], _ => rfl
  | (x, m) :: l, h => by
    have ih := filter_eq_of_mask p0 p1 l (fun y hy => h y (List.mem_cons_of_mem _ hy))
    have hx := h (x, m) List.mem_cons_self
    simp only at hx
    cases m with
    | false =>
      simp only [Bool.false_and] at hx
      show List.filter p0 (x :: List.map Prod.fst l) = _
      rw [List.filter_cons_of_neg (by simp [hx])]
      exact ih
    | true =>
      simp only [Bool.true_and] at hx
      show List.filter p0 (x :: List.map Prod.fst l) =
        List.filter p1 (x :: List.map Prod.fst (List.filter Prod.snd l))
      rw [List.filter_cons, List.filter_cons, hx, ih]

/-! ## the candidate loop over a list of items -/

/-- `candLoop` over the list of the candidates that passed the check loop -/
def candLoopL (c : Ctx) (L : Loc) : List Item → Nat → List Nat → St → St × Nat
  | [], nCand, _, s => (s, nCand)
  | sit :: rest, nCand, os, s =>
    let s := if nCand != 0 then { s with amb := true } else s
    if nCand != 0 && c.oneParse then (s, nCand)
    else
      let (s, os) := candidate c L sit nCand os s
      candLoopL c L rest (nCand + 1) os s

theorem candLoop_eq_L (c : Ctx) (L : Loc) (set : Array Item) :
    ∀ (l : List Nat) (n : Nat) (os : List Nat) (s : St),
      candLoop c L set l n os s =
        candLoopL c L ((l.map fun i => set.getD i default).filter fun it => checkFound c L it.origin)
          n os s
  | [], n, os, s => rfl
  | i :: l, n, os, s => by
    have ih := candLoop_eq_L c L set l
    unfold candLoop
    by_cases hf : checkFound c L (set.getD i default).origin = true
    · rw [List.map_cons, List.filter_cons_of_pos (by simpa using hf)]
      unfold candLoopL
      simp only [hf, Bool.not_true, Bool.false_eq_true, if_false, ih]
    · rw [List.map_cons, List.filter_cons_of_neg (by simpa using hf)]
      simp only [hf, Bool.not_false, if_true, ih]

theorem candidate_congr {c c' : Ctx} (hr : c.rules = c'.rules) (ho : c.oneParse = c'.oneParse) :
    candidate c = candidate c' := by
  funext L sit n os s
  unfold candidate
  simp only [Ctx.rule, hr, ho]

theorem candLoopL_congr {c c' : Ctx} (hr : c.rules = c'.rules) (ho : c.oneParse = c'.oneParse) (L : Loc) :
    ∀ (l : List Item) (n : Nat) (os : List Nat) (s : St), candLoopL c L l n os s = candLoopL c' L l n os s
  | [], _, _, _ => rfl
  | sit :: l, n, os, s => by
    have ih := candLoopL_congr hr ho L l
    unfold candLoopL
    simp only [candidate_congr hr ho, ho, ih]

/-! ## the reduce vector and the check loop, as lists of items -/

theorem ctx_rule_eq {g : Grammar} {c : Ctx} (hc : c.rules = g.rules.toArray) (r : Nat) :
    c.rule r = g.rules.getD r default := by
  unfold Ctx.rule
  rw [hc, Array.getD_eq_getD_getElem?, List.getElem?_toArray, List.getD_eq_getElem?_getD]

theorem reduces_items {g : Grammar} {c : Ctx} (hc : c.rules = g.rules.toArray) (set : Array Item) (A : Nat) :
    (reduces c set A).map (fun i => set.getD i default) = set.toList.filter (isRed g A) := by
  rw [← map_filter_range default set (isRed g A)]
  unfold reduces isRed
  simp only [ctx_rule_eq hc]

/-- the check loop finds the item `(rule, pos, orig)` in set `k` -/
theorem checkFound_iff {c : Ctx} {L : Loc} {k : Nat} :
    checkFound c L k = true ↔
      (⟨L.rule, L.pos, L.orig⟩ : Item) ∈ (c.sets.getD k #[]).toList ∧
        (c.rule L.rule).rhs[L.pos]? = some (.n L.A) := by
  unfold checkFound transitions
  simp only [List.any_eq_true, List.mem_filter, List.mem_range, Bool.and_eq_true, beq_iff_eq]
  constructor
  · rintro ⟨ci, ⟨hlt, haft⟩, ⟨h1, h2⟩, h3⟩
    have hget : (c.sets.getD k #[]).getD ci default = (c.sets.getD k #[])[ci] := getD_of_lt _ _ hlt
    have hq : (c.sets.getD k #[]).getD ci default = ⟨L.rule, L.pos, L.orig⟩ := by
      cases hcs : (c.sets.getD k #[]).getD ci default with
      | mk r d o =>
        rw [hcs] at h1 h2 h3
        simp only at h1 h2 h3
        rw [h1, h2, h3]
    constructor
    · rw [← hq, hget]
      exact Array.getElem_mem_toList hlt
    · rw [hq] at haft
      exact haft
  · rintro ⟨hmem, hsym⟩
    obtain ⟨ci, hlt, hci⟩ := List.mem_iff_getElem.mp hmem
    have hlt' : ci < (c.sets.getD k #[]).size := by simpa using hlt
    have hq : (c.sets.getD k #[]).getD ci default = ⟨L.rule, L.pos, L.orig⟩ := by
      rw [← hci, getD_of_lt _ _ hlt']
      rfl
    refine ⟨ci, ⟨hlt', ?_⟩, ?_⟩
    · rw [hq]; exact hsym
    · rw [hq]; exact ⟨⟨rfl, rfl⟩, rfl⟩

end Yaep.LI
