import Yaep.Lemmas.MakeParseSoundTotal
/-!
# Totality of the model of `make_parse`, part 2: the stack is a path of a derivation tree

Every parse state on the stack can be completed to a rule application (the part before the dot
by the soundness of its Earley item, the part after it by the derivations already found), so the
stack is a path from the root in a derivation of the whole input, and in a grammar without
cycles its height is bounded by `nN + (nN + 1) * |toks|` (`depth_le_span`).
-/
namespace Yaep.MP
open Yaep

theorem ValidListAt_append {g : Grammar} {toks : List Nat} :
    ∀ {ks1 ks2 : List PT} {Xs1 Xs2 : List Sym} {i m j : Nat},
      PT.ValidListAt g toks ks1 Xs1 i m → PT.ValidListAt g toks ks2 Xs2 m j →
      PT.ValidListAt g toks (ks1 ++ ks2) (Xs1 ++ Xs2) i j
  | [], _, _, _, _, _, _, h1, h2 => by cases h1; exact h2
  | k :: ks1, _, _, _, _, _, _, h1, h2 => by
    cases h1 with
    | cons ha hb => exact .cons ha (ValidListAt_append hb h2)

theorem depthList_append_ge (ks1 : List PT) (k : PT) (ks2 : List PT) :
    k.depth ≤ PT.depthList (ks1 ++ k :: ks2) := by
  induction ks1 with
  | nil => simp only [List.nil_append, PT.depthList]; omega
  | cons x ks1 ih => simp only [List.cons_append, PT.depthList]; omega

/-- the part of the right-hand side before the dot of an Earley item has a derivation -/
theorem EarleyF.prefix_valid {g : Grammar} {ok : Nat → Nat → Nat → Bool} {toks : List Nat}
    {j r p o : Nat} {rl : Rule} (hr : g.rules[r]? = some rl) (h : EarleyF g ok toks j ⟨r, p, o⟩) :
    ∃ pre, PT.ValidListAt g toks pre (rl.rhs.take p) o j := by
  obtain ⟨rl', hr', _, hle, hd⟩ := h.sound
  simp only at hr' hle hd
  rw [hr] at hr'; injection hr' with hr'; subst hr'
  exact hd.exists_valid hle h.le_length rfl

/-- the states below the top extend every derivation of the awaited nonterminal to a derivation
of the whole input, one level deeper per state -/
theorem BelowOK.chain {g : Grammar} {ok : Nat → Nat → Nat → Bool} {toks : List Nat}
    {h : Array MNode} {sts : Array PState} :
    ∀ {rest : List Nat} {frs : List Frame} {hi sb : Nat} {tgt : Nat × Nat} {A cLo cFin : Nat},
      BelowOK g ok toks h sts rest frs hi sb tgt A cLo cFin →
      ∀ cpt : PT, PT.ValidAt g toks cpt (.n A) cLo cFin →
        ∃ root, PT.IsDerivation g toks root ∧ cpt.depth + rest.length ≤ root.depth
  | [], frs, hi, sb, tgt, A, cLo, cFin, hb, cpt, hv => by
    simp only [BelowOK] at hb
    obtain ⟨_, _, rfl, rfl, rfl, _⟩ := hb
    exact ⟨cpt, hv, Nat.le_refl _⟩
  | sid :: rest, [], hi, sb, tgt, A, cLo, cFin, hb, _, _ => by simp [BelowOK] at hb
  | sid :: rest, fr :: frs, hi, sb, tgt, A, cLo, cFin, hb, cpt, hv => by
    simp only [BelowOK] at hb
    obtain ⟨_, _, rl, d, pa, h3, h4, _, h6, h7, h8, _, hm⟩ := hb
    obtain ⟨pre, hpre⟩ := EarleyF.prefix_valid h3 h7
    have hrhs : rl.rhs = rl.rhs.take (sts.getD sid default).pos ++
        (Sym.n A :: rl.rhs.drop ((sts.getD sid default).pos + 1)) := by
      rw [← drop_of_getElem? h4, List.take_append_drop]
    have hkids : PT.ValidListAt g toks (pre ++ cpt :: fr.done) rl.rhs
        (sts.getD sid default).orig fr.fin := by
      rw [hrhs]
      exact ValidListAt_append hpre (.cons hv h8)
    have hnode : PT.ValidAt g toks (.node (sts.getD sid default).rule (pre ++ cpt :: fr.done))
        (.n rl.lhs) (sts.getD sid default).orig fr.fin := .node h3 rfl hkids
    have hdepth : cpt.depth + 1 ≤
        (PT.node (sts.getD sid default).rule (pre ++ cpt :: fr.done)).depth := by
      simp only [PT.depth]
      have := depthList_append_ge pre cpt fr.done
      omega
    have hbelow : ∃ hi' tgt', BelowOK g ok toks h sts rest frs hi' sid tgt' rl.lhs
        (sts.getD sid default).orig fr.fin := by
      split at hm
      · obtain ⟨_, _, _, _, _, m6⟩ := hm; exact ⟨_, _, m6⟩
      · obtain ⟨_, _, _, m4⟩ := hm; exact ⟨_, _, m4⟩
    obtain ⟨hi', tgt', hb'⟩ := hbelow
    obtain ⟨root, hr1, hr2⟩ := BelowOK.chain hb' _ hnode
    refine ⟨root, hr1, ?_⟩
    simp only [List.length_cons]
    omega

/-- the height of the stack is bounded by the depth of a derivation of the input -/
theorem TopOK.stack_le {g : Grammar} {ok : Nat → Nat → Nat → Bool} {toks : List Nat}
    {h : Array MNode} {sts : Array PState} {stack : List Nat} {frs : List Frame}
    (hcyc : ¬ Cyclic g) (hsr : g.symsInRange = true)
    (htop : TopOK g ok toks h sts stack frs) :
    stack.length ≤ g.nN + (g.nN + 1) * toks.length := by
  match stack, frs, htop with
  | [], _, htop => simp [TopOK] at htop
  | sid :: rest, [], htop => simp [TopOK] at htop
  | sid :: rest, fr :: frs, htop =>
    simp only [TopOK] at htop
    obtain ⟨_, _, rl, pa, t3, t4, _, t6, t7, _, tm⟩ := htop
    have hkids : ∃ kids, PT.ValidListAt g toks kids rl.rhs (sts.getD sid default).orig fr.fin := by
      by_cases hp : (sts.getD sid default).pos = 0
      · rw [hp] at t7
        simp only [List.drop_zero, if_true] at t7
        exact ⟨_, t7⟩
      · rw [if_neg hp] at t7
        obtain ⟨pre, hpre⟩ := EarleyF.prefix_valid t3 (t6 hp)
        refine ⟨pre ++ fr.done, ?_⟩
        have := ValidListAt_append hpre t7
        rwa [List.take_append_drop] at this
    obtain ⟨kids, hk⟩ := hkids
    have hnode : PT.ValidAt g toks (.node (sts.getD sid default).rule kids)
        (.n rl.lhs) (sts.getD sid default).orig fr.fin := .node t3 rfl hk
    have hbelow : ∃ hi' tgt', BelowOK g ok toks h sts rest frs hi' sid tgt' rl.lhs
        (sts.getD sid default).orig fr.fin := by
      split at tm
      · obtain ⟨_, _, _, m4⟩ := tm; exact ⟨_, _, m4⟩
      · obtain ⟨_, m4⟩ := tm; exact ⟨_, _, m4⟩
    obtain ⟨hi', tgt', hb'⟩ := hbelow
    obtain ⟨root, hr1, hr2⟩ := hb'.chain _ hnode
    have hd := depth_le_span hcyc hsr hr1
    have : 1 ≤ (PT.node (sts.getD sid default).rule kids).depth := by simp only [PT.depth]; omega
    simp only [List.length_cons, Nat.sub_zero] at hd ⊢
    omega

end Yaep.MP
