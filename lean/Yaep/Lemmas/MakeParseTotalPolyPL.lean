import Yaep.Lemmas.MakeParseTotalPolyMain
/-!
# A polynomial bound for the main loop of `make_parse` (all parses), part 5: composition

`mpPolyFuel`; a finished main loop is not the outcome `.outOfFuel`; a checkable certificate for
`¬ PassCyclic` (a rank of the rules that decreases along the pass-through steps).
-/
namespace Yaep.MP
open Yaep

/-- fuel that suffices for an input of `n` tokens (end marker included) when the grammar has no
pass-through cycle: a polynomial in `n` of degree `(|rules| + 2) (maxRhs + 1) + 1` -/
def mpPolyFuel (g : Grammar) (n : Nat) : Nat := mpPolyFuelC g n (BS.setBound g n)

theorem makeParse_ne_outOfFuel {g : Grammar} {sets : Array (Array Item)} {plToks : Array Int} {one : Bool}
    {fuel : Nat} {s0 s : St} (hi : init (mkCtx g sets plToks one) = some s0)
    (hr : run (mkCtx g sets plToks one) fuel s0 = some s) :
    makeParse g sets plToks one fuel ≠ .outOfFuel := by
  intro h
  simp only [makeParse, hi, hr] at h
  split at h
  · cases h
  · split at h
    · cases h
    · split at h <;> cases h

theorem passStep_lt_left {g : Grammar} {r r' : Nat} (h : PassStep g r r') : r < g.rules.length := by
  unfold PassStep passStepB at h
  split at h
  · rename_i rl rl' h1 _
    exact (List.getElem?_eq_some_iff.mp h1).1
  · cases h

/-- a rank that decreases along the pass-through steps: there is no cycle -/
theorem not_passCyclic_of_rank {g : Grammar} (rank : Nat → Nat)
    (h : ∀ r r', PassStep g r r' → rank r' < rank r) : ¬ PassCyclic g := by
  have hplus : ∀ r r', Plus (PassStep g) r r' → rank r' < rank r := by
    intro r r' hp
    induction hp with
    | single h1 => exact h _ _ h1
    | cons h1 _ ih => exact Nat.lt_trans ih (h _ _ h1)
  rintro ⟨r, hr⟩
  exact Nat.lt_irrefl _ (hplus r r hr)

/-- the certificate as a decidable check -/
def passRankOK (g : Grammar) (rank : List Nat) : Bool :=
  (List.range g.rules.length).all fun r => (List.range g.rules.length).all fun r' =>
    !passStepB g r r' || decide (rank.getD r' 0 < rank.getD r 0)

theorem not_passCyclic_of_check {g : Grammar} {rank : List Nat} (h : passRankOK g rank = true) :
    ¬ PassCyclic g := by
  apply not_passCyclic_of_rank (fun r => rank.getD r 0)
  intro r r' hs
  unfold passRankOK at h
  simp only [List.all_eq_true, List.mem_range, Bool.or_eq_true, Bool.not_eq_true', decide_eq_true_eq] at h
  rcases h r (passStep_lt_left hs) r' (passStep_lt hs) with h1 | h1
  · have hs' : passStepB g r r' = true := hs
    rw [hs'] at h1; cases h1
  · exact h1

end Yaep.MP
