import Yaep.Lemmas.Recovery
/-!
# Minimality of the recovery found by the search, against all *simple* recoveries

Helper lemmas for `Yaep/Props/C08.lean`: a covering invariant of `searchLoop` — for every
simple recovery `(b, s)` (go back to set `b`, shift `error`, skip to token `s`, match) either
the best cost is already not larger than its cost, or a state on the stack will reach it, or
the back frontier has not reached `b` yet.
-/
namespace Yaep

/-! ## `findError`, `skipLoop`, `canMatch` -/

/-- `findError` stops at the nearest set with `. error` -/
theorem findError_nearest (g : Grammar) (pl : List PSet) :
    ∀ (k c j : Nat), (findError g pl k c).1 < j → j ≤ k →
      ¬ hasTrans g (pl.getD j default).items g.errT = true := by
  intro k
  induction k with
  | zero => intro c j h1 h2; unfold findError at h1; simp only at h1; omega
  | succ k ih =>
    intro c j h1 h2
    unfold findError at h1
    simp only at h1
    split at h1
    · simp only at h1; omega
    · rename_i hT
      rcases Nat.eq_or_lt_of_le h2 with heq | hlt
      · rw [heq]; exact hT
      · exact ih _ j h1 (Nat.le_of_lt_succ hlt)

/-- the in-state skip never passes a token that can be shifted -/
theorem skipLoop_le (g : Grammar) (cur : List Item) (full : List Nat) (best : Nat) {s : Nat}
    (hTr : hasTrans g cur (full.getD s 0) = true) :
    ∀ (fuel ctok cost : Nat), ctok ≤ s →
      (skipLoop g cur full best fuel ctok cost).1 ≤ s := by
  intro fuel
  induction fuel with
  | zero => intro ctok cost h; unfold skipLoop; exact h
  | succ fuel ih =>
    intro ctok cost h
    unfold skipLoop
    split
    · exact h
    · rename_i t ht
      split
      · exact h
      · rename_i hT
        have hne : ctok ≠ s := by
          intro he
          subst he
          rw [List.getD_eq_getElem?_getD, ht] at hTr
          exact hT hTr
        have hlt : ctok + 1 ≤ s := by omega
        split
        · exact hlt
        · exact ih _ _ hlt

variable {g : Grammar} {an : Analysis} {la rmatch : Nat} {full : List Nat}

theorem canMatch_step {F : Nat} {C : List PSet} {s need : Nat}
    (h : canMatch g an la full (F + 1) C s need = true) (hn : need ≠ 0) (hs : s < full.length) :
    hasTrans g (C.getLastD default).items (full.getD s 0) = true ∧
    canMatch g an la full F (C ++ [gotoSet g an la C (full.getD s 0) (some s) full[s + 1]?]) (s + 1)
      (need - 1) = true := by
  unfold canMatch at h
  rw [if_neg hn, getD_eq_some hs] at h
  simp only at h
  split at h
  · rename_i hT; exact ⟨hT, h⟩
  · cases h

/-- if the oracle says the tokens after `ctok` can be matched, the matching loop succeeds -/
theorem matchLoop_of_canMatch (last cost : Nat) :
    ∀ (fuelM F : Nat) (C : List PSet) (ctok nm : Nat) (ps : List RState),
      canMatch g an la full F C (ctok + 1) (max rmatch 1 - (nm + 1)) = true →
      full.length ≤ fuelM + ctok → ctok < full.length →
      (matchLoop g an la rmatch full last cost fuelM C ctok nm ps).nm ≥ rmatch ∨
      (matchLoop g an la rmatch full last cost fuelM C ctok nm ps).ctok ≥ full.length := by
  intro fuelM
  induction fuelM with
  | zero => intro F C ctok nm ps _ h1 h2; omega
  | succ fuelM ih =>
    intro F C ctok nm ps hcan h1 h2
    unfold matchLoop
    simp only
    split
    · rename_i h; exact Or.inl h
    · rename_i hnm
      split
      · rename_i h; exact Or.inr h
      · rename_i hlt
        cases F with
        | zero => unfold canMatch at hcan; cases hcan
        | succ F =>
          have hneed : max rmatch 1 - (nm + 1) ≠ 0 := by
            have : nm + 1 < rmatch := by omega
            have : rmatch ≤ max rmatch 1 := Nat.le_max_left _ _
            omega
          obtain ⟨hT, hcan'⟩ := canMatch_step hcan hneed (by omega)
          split
          · rename_i hnT
            rw [hT] at hnT
            cases hnT
          · rw [Nat.sub_sub] at hcan'
            exact ih F _ (ctok + 1) (nm + 1) _ hcan' (by omega) (by omega)

/-! ## the covering invariant -/

/-- the state goes back to `b`, has shifted nothing yet, looks at a token not after `s`, and
reaching `s` from it costs at most `c` -/
def Covers (σ : RState) (b s c : Nat) : Prop :=
  σ.last = b ∧ σ.tail = [] ∧ σ.stok ≤ s ∧ σ.back + (s - σ.stok) ≤ c

/-- the simple recovery `(b, s)` of cost at most `c` is not lost -/
def Cov (st : SearchSt) (b s c : Nat) : Prop :=
  st.bestCost ≤ c ∨ (∃ σ ∈ st.stack, Covers σ b s c) ∨ (b < st.bf ∧ st.stack ≠ [])

/-- `bestCost` is the cost of the recorded best recovery -/
def BestCostInv (st : SearchSt) : Prop :=
  ∀ bst, st.best = some bst → bst.rstop = bst.rstart + st.bestCost

theorem Cov.mono {st st' : SearchSt} {b s c : Nat} (h : Cov st b s c)
    (h1 : st'.bestCost ≤ st.bestCost) (h2 : st.stack ⊆ st'.stack) (h3 : st'.bf = st.bf) :
    Cov st' b s c := by
  rcases h with h | ⟨σ, hσ, hc⟩ | ⟨hb, hne⟩
  · exact Or.inl (Nat.le_trans h1 h)
  · exact Or.inr (Or.inl ⟨σ, h2 hσ, hc⟩)
  · refine Or.inr (Or.inr ⟨by rw [h3]; exact hb, ?_⟩)
    intro he
    cases hst : st.stack with
    | nil => exact hne hst
    | cons x xs =>
      have : x ∈ st'.stack := h2 (by rw [hst]; exact List.mem_cons_self)
      rw [he] at this; cases this

section Cover
variable {orig : List PSet} {startTok startPl : Nat}

theorem backCost_le_len (ctx : RCtx g an la full orig startTok startPl) (b : Nat) :
    backCost g orig b ≤ startPl - b := by
  unfold backCost nonErr
  have := List.length_filter_le (fun s => !s.isErr g) (orig.drop (b + 1))
  rw [List.length_drop, ctx.len] at this
  omega

theorem backStep_cases3 (g : Grammar) (cpl : List PSet) (startTok : Nat) (st : SearchSt)
    (rest : List RState) :
    (st.bf = 0 ∧ backStep g cpl startTok st rest = (rest, st.bf, st.btf)) ∨
    (0 < st.bf ∧ st.bestCost < st.btf + ((findError g cpl (st.bf - 1) 0).2 +
        (if (cpl.getD st.bf default).isErr g then 0 else 1)) ∧
      backStep g cpl startTok st rest = (rest, st.bf, st.btf)) ∨
    (0 < st.bf ∧ backStep g cpl startTok st rest =
      ((⟨(findError g cpl (st.bf - 1) 0).1, [], startTok,
          st.btf + ((findError g cpl (st.bf - 1) 0).2 +
            (if (cpl.getD st.bf default).isErr g then 0 else 1))⟩ : RState) :: rest,
        (findError g cpl (st.bf - 1) 0).1,
        st.btf + ((findError g cpl (st.bf - 1) 0).2 +
            (if (cpl.getD st.bf default).isErr g then 0 else 1)))) := by
  have e : (if (cpl.getD st.bf default).isErr g then (findError g cpl (st.bf - 1) 0).2
        else (findError g cpl (st.bf - 1) 0).2 + 1) =
      (findError g cpl (st.bf - 1) 0).2 + (if (cpl.getD st.bf default).isErr g then 0 else 1) := by
    split <;> rfl
  unfold backStep
  rw [e]
  by_cases h1 : st.bf > 0
  · by_cases h2 : st.bestCost ≥ st.btf + ((findError g cpl (st.bf - 1) 0).2 +
        (if (cpl.getD st.bf default).isErr g then 0 else 1))
    · rw [if_pos h1, if_pos h2]; exact Or.inr (Or.inr ⟨h1, rfl⟩)
    · rw [if_pos h1, if_neg h2]; exact Or.inr (Or.inl ⟨h1, Nat.lt_of_not_le h2, rfl⟩)
  · rw [if_neg h1]; exact Or.inl ⟨by omega, rfl⟩

/-- the back-frontier step sees the original list, and the cost it charges is `backCost` -/
theorem backStep_cost (ctx : RCtx g an la full orig startTok startPl) {st : SearchSt} {top : RState}
    {rest : List RState} (hinv : SearchInv g an la full orig startTok startPl st)
    (hst : st.stack = top :: rest) (hpos : 0 < st.bf) :
    findError g (orig.take (top.last + 1) ++ top.tail) (st.bf - 1) 0 =
      findError g orig (st.bf - 1) 0 ∧
    (orig.take (top.last + 1) ++ top.tail).getD st.bf default = orig.getD st.bf default ∧
    st.btf + ((findError g orig (st.bf - 1) 0).2 +
        (if (orig.getD st.bf default).isErr g then 0 else 1)) =
      backCost g orig (findError g orig (st.bf - 1) 0).1 ∧
    (findError g orig (st.bf - 1) 0).1 ≤ st.bf - 1 := by
  have htop := hinv.states top (by rw [hst]; exact List.mem_cons_self)
  have hlastlt : top.last < orig.length := by rw [ctx.len]; exact Nat.lt_succ_of_le htop.1.last_le
  have hfe : findError g (orig.take (top.last + 1) ++ top.tail) (st.bf - 1) 0 =
      findError g orig (st.bf - 1) 0 :=
    findError_congr g _ _ _ _ (fun i hi => getD_take_append hlastlt (by have := htop.2; omega))
  have hgd : (orig.take (top.last + 1) ++ top.tail).getD st.bf default = orig.getD st.bf default :=
    getD_take_append hlastlt htop.2
  have hbflt : st.bf < orig.length := by rw [ctx.len]; exact Nat.lt_succ_of_le hinv.bf_le
  obtain ⟨hb, hc⟩ := findError_spec g orig (st.bf - 1) 0 (by omega)
  have e1 : st.bf - 1 + 1 = st.bf := by omega
  rw [e1, drop_eq_getD_cons hbflt, nonErr_cons, Nat.zero_add] at hc
  have hbtf := hinv.btf_eq
  unfold backCost at hbtf ⊢
  exact ⟨hfe, hgd, by omega, hb⟩

theorem mem_frontierSt_of_mem_back {st : SearchSt} {top : RState} {rest : List RState} {x : RState}
    (h : x ∈ (backStep g (orig.take (top.last + 1) ++ top.tail) startTok st rest).1) :
    x ∈ (frontierSt g full orig startTok st top rest).stack := by
  unfold frontierSt
  simp only
  split
  · exact List.mem_cons_of_mem _ h
  · exact h

theorem rest_subset_back (cpl : List PSet) (st : SearchSt) (rest : List RState) :
    rest ⊆ (backStep g cpl startTok st rest).1 := by
  intro x hx
  rcases backStep_cases g cpl startTok st rest with h | ⟨_, h⟩
  · rw [h]; exact hx
  · rw [h]; exact List.mem_cons_of_mem _ hx

/-- after the two frontiers have been advanced the recovery is still covered, by the new
state or by the popped state `top` -/
theorem frontierSt_cov (ctx : RCtx g an la full orig startTok startPl) {st : SearchSt} {top : RState}
    {rest : List RState} (hinv : SearchInv g an la full orig startTok startPl st)
    (hst : st.stack = top :: rest) {b s c : Nat}
    (hb : hasTrans g (orig.getD b default).items g.errT = true) (hs : startTok ≤ s)
    (hc : (startPl - b) + (s - startTok) ≤ c) (hcov : Cov st b s c) :
    Cov (frontierSt g full orig startTok st top rest) b s c ∨ Covers top b s c := by
  rcases hcov with h | ⟨σ, hσ, hcv⟩ | ⟨hlt, _⟩
  · exact Or.inl (Or.inl h)
  · rw [hst] at hσ
    rcases List.mem_cons.mp hσ with rfl | hσ
    · exact Or.inr hcv
    · exact Or.inl (Or.inr (Or.inl ⟨σ, mem_frontierSt_of_mem_back (rest_subset_back _ _ _ hσ), hcv⟩))
  · left
    have hpos : 0 < st.bf := by omega
    obtain ⟨hfe, hgd, hcost, hle⟩ := backStep_cost ctx hinv hst hpos
    have hbl := backCost_le_len ctx (findError g orig (st.bf - 1) 0).1
    have hnear : b ≤ (findError g orig (st.bf - 1) 0).1 := by
      rcases Nat.lt_or_ge (findError g orig (st.bf - 1) 0).1 b with h | h
      · exact absurd hb (findError_nearest g orig _ _ b h (by omega))
      · exact h
    rcases backStep_cases3 g (orig.take (top.last + 1) ++ top.tail) startTok st rest with
      ⟨h0, _⟩ | ⟨_, hlt2, _⟩ | ⟨_, hpush⟩
    · omega
    · rw [hfe, hgd] at hlt2
      left
      show st.bestCost ≤ c
      omega
    · rw [hfe, hgd] at hpush
      rcases Nat.eq_or_lt_of_le hnear with heq | hlt3
      · refine Or.inr (Or.inl ⟨_, mem_frontierSt_of_mem_back (by rw [hpush]; exact List.mem_cons_self),
          heq.symm, rfl, hs, ?_⟩)
        simp only
        omega
      · refine Or.inr (Or.inr ⟨?_, ?_⟩)
        · show b < (backStep g (orig.take (top.last + 1) ++ top.tail) startTok st rest).2.1
          rw [hpush]; exact hlt3
        · intro he
          have : _ ∈ (frontierSt g full orig startTok st top rest).stack :=
            mem_frontierSt_of_mem_back (full := full) (by rw [hpush]; exact List.mem_cons_self)
          rw [he] at this; cases this

end Cover

/-! ## one iteration preserves the covering invariant -/

/-- a simple recovery `(b, s)` of cost at most `c`, in the context of one search -/
structure SimpleRec (g : Grammar) (an : Analysis) (la rmatch : Nat) (full : List Nat)
    (orig : List PSet) (startTok startPl : Nat) (b s c : Nat) : Prop where
  err : hasTrans g (orig.getD b default).items g.errT = true
  s_ge : startTok ≤ s
  s_lt : s < full.length
  can : canMatch g an la full (full.length + 2)
    (orig.take (b + 1) ++ [errSetOf g (orig.take (b + 1))]) s (max rmatch 1) = true
  cost : (startPl - b) + (s - startTok) ≤ c

section Step
variable {orig : List PSet} {startTok startPl : Nat} {b s c : Nat}

theorem max_one_ne_zero (n : Nat) : max n 1 ≠ 0 := by
  have := Nat.le_max_right n 1; omega

theorem top_errSet_trans (hsim : SimpleRec g an la rmatch full orig startTok startPl b s c)
    {top : RState} (hl : top.last = b) (ht : top.tail = []) :
    hasTrans g (errSetOf g (orig.take (top.last + 1) ++ top.tail)).items (full.getD s 0) = true := by
  rw [hl, ht, List.append_nil]
  have := (canMatch_step hsim.can (max_one_ne_zero _) hsim.s_lt).1
  rwa [getLastD_concat] at this

theorem top_match_success (hsim : SimpleRec g an la rmatch full orig startTok startPl b s c)
    {top : RState} (hl : top.last = b) (ht : top.tail = []) (kk : Nat) :
    (matchLoop g an la rmatch full top.last kk (full.length + 1)
      (orig.take (top.last + 1) ++ top.tail ++ [errSetOf g (orig.take (top.last + 1) ++ top.tail)] ++
        [gotoSet g an la
          (orig.take (top.last + 1) ++ top.tail ++ [errSetOf g (orig.take (top.last + 1) ++ top.tail)])
          (full.getD s 0) (some s) full[s + 1]?]) s 0 []).nm ≥ rmatch ∨
    (matchLoop g an la rmatch full top.last kk (full.length + 1)
      (orig.take (top.last + 1) ++ top.tail ++ [errSetOf g (orig.take (top.last + 1) ++ top.tail)] ++
        [gotoSet g an la
          (orig.take (top.last + 1) ++ top.tail ++ [errSetOf g (orig.take (top.last + 1) ++ top.tail)])
          (full.getD s 0) (some s) full[s + 1]?]) s 0 []).ctok ≥ full.length := by
  rw [hl, ht, List.append_nil]
  exact matchLoop_of_canMatch b kk (full.length + 1) (full.length + 1) _ s 0 []
    (canMatch_step hsim.can (max_one_ne_zero _) hsim.s_lt).2 (by omega) hsim.s_lt

theorem searchStepK_cov {α : Type} (k : SearchSt → α) (P : α → Prop)
    (ctx : RCtx g an la full orig startTok startPl) {st : SearchSt} {top : RState} {rest : List RState}
    (hinv : SearchInv g an la full orig startTok startPl st) (hbc : BestCostInv st)
    (hst : st.stack = top :: rest)
    (hsim : SimpleRec g an la rmatch full orig startTok startPl b s c) (hcov : Cov st b s c)
    (hk : ∀ st', SearchInv g an la full orig startTok startPl st' → BestCostInv st' →
      Cov st' b s c → P (k st')) :
    P (searchStepK k g an la rmatch full orig startTok startPl st top rest) := by
  have htop := (hinv.states top (by rw [hst]; exact List.mem_cons_self)).1
  obtain ⟨hf, hbf⟩ := frontierSt_inv ctx hinv hst
  have hfc := frontierSt_cov ctx hinv hst hsim.err hsim.s_ge hsim.cost hcov
  have hbc1 : BestCostInv (frontierSt g full orig startTok st top rest) := hbc
  unfold searchStepK
  simp only
  obtain ⟨hs1, hs2⟩ := skipLoop_spec g (errSetOf g (orig.take (top.last + 1) ++ top.tail)).items full
    (frontierSt g full orig startTok st top rest).bestCost (full.length + 1) top.stok top.back
  have hs3 := skipLoop_stop g (errSetOf g (orig.take (top.last + 1) ++ top.tail)).items full
    (frontierSt g full orig startTok st top rest).bestCost (full.length + 1) top.stok top.back
    (by omega)
  have hsle : Covers top b s c →
      (skipLoop g (errSetOf g (orig.take (top.last + 1) ++ top.tail)).items full
        (frontierSt g full orig startTok st top rest).bestCost (full.length + 1) top.stok
        top.back).1 ≤ s :=
    fun hcv => skipLoop_le g _ full _ (top_errSet_trans hsim hcv.1 hcv.2.1) _ _ _ hcv.2.2.1
  generalize skipLoop g (errSetOf g (orig.take (top.last + 1) ++ top.tail)).items full
    (frontierSt g full orig startTok st top rest).bestCost (full.length + 1) top.stok top.back = sk
    at hs1 hs2 hs3 hsle ⊢
  obtain ⟨c', kk⟩ := sk
  simp only at hs1 hs2 hs3 hsle ⊢
  have hkk : Covers top b s c → kk ≤ c := by
    intro hcv
    have := hsle hcv; have := hcv.2.2.2; have := hcv.2.2.1
    omega
  split
  · rename_i h1
    refine hk _ hf hbc1 ?_
    rcases hfc with h | hcv
    · exact h
    · exact Or.inl (Nat.le_trans h1 (hkk hcv))
  split
  · rename_i h1 h2
    refine hk _ hf hbc1 ?_
    rcases hfc with h | hcv
    · exact h
    · have := hsle hcv; have := hsim.s_lt; omega
  rename_i h1 h2
  have hTr : hasTrans g (errSetOf g (orig.take (top.last + 1) ++ top.tail)).items
      (full.getD c' 0) = true := by
    rcases hs3 with h | h | h
    · exact absurd h h1
    · exact absurd h h2
    · exact h
  have hT := tail_after_skip htop hs1 hs2 (Nat.lt_of_not_le h2) hTr
  have hM := matchLoop_spec (an := an) (la := la) (rmatch := rmatch) (startPl := startPl)
    top.last kk (ctx.take_length htop.last_le) htop.last_le
    (full.length + 1) _ c' 0 [] hT (fun s hs => absurd hs List.not_mem_nil)
  rw [← List.append_assoc, ← List.append_assoc] at hM
  obtain ⟨T', ls, hcpl, hT', hct, hpush⟩ := hM
  have hsub : ∀ mr : MatchRes, (frontierSt g full orig startTok st top rest).stack ⊆
      (pushSt (frontierSt g full orig startTok st top rest) mr).stack :=
    fun mr x hx => List.mem_append_right _ hx
  split
  · rename_i h3
    split
    · rename_i h4
      refine hk _ ?_ ?_ ?_
      · refine bestSt_inv ctx hf hbf htop.last_le hpush hcpl hT' ?_
        have := hT'.ls_lt
        split
        · rename_i h5; rcases hct with h | ⟨h, _⟩ <;> omega
        · rename_i h5
          rcases hct with h | ⟨h, h6⟩
          · exact h
          · rcases h6 with h6 | h6
            · exact absurd h6 h5
            · rcases h3 with h3 | h3 <;> omega
      · intro bst hb
        unfold bestSt at hb ⊢
        simp only [Option.some.injEq] at hb
        subst hb
        rfl
      · rcases hfc with h | hcv
        · exact h.mono (Nat.le_of_lt h4) (hsub _) rfl
        · exact Or.inl (hkk hcv)
    · rename_i h4
      refine hk _ (pushSt_inv hf hbf hpush) hbc1 ?_
      rcases hfc with h | hcv
      · exact h.mono (Nat.le_refl _) (hsub _) rfl
      · exact Or.inl (Nat.le_trans (Nat.le_of_not_lt h4) (hkk hcv))
  · rename_i h3
    refine hk _ (pushSt_inv hf hbf hpush) hbc1 ?_
    rcases hfc with h | hcv
    · exact h.mono (Nat.le_refl _) (hsub _) rfl
    · have hle := hsle hcv
      rcases Nat.eq_or_lt_of_le hle with heq | hlt
      · subst heq
        exact absurd (top_match_success hsim hcv.1 hcv.2.1 kk) h3
      · by_cases hp : st.bestCost ≥ top.back + 1 ∧ top.stok + 1 < full.length
        · refine Or.inr (Or.inl ⟨⟨top.last, top.tail, top.stok + 1, top.back + 1⟩, ?_, hcv.1, hcv.2.1, ?_, ?_⟩)
          · apply hsub
            unfold frontierSt
            simp only
            rw [if_pos hp]
            exact List.mem_cons_self
          · simp only; omega
          · have := hcv.2.2.2; simp only; omega
        · refine Or.inl ?_
          show st.bestCost ≤ c
          have := hcv.2.2.2; have := hsim.s_lt
          omega

theorem searchLoop_cov (ctx : RCtx g an la full orig startTok startPl)
    (hsim : SimpleRec g an la rmatch full orig startTok startPl b s c) :
    ∀ (fuel : Nat) (st : SearchSt), SearchInv g an la full orig startTok startPl st →
      BestCostInv st → Cov st b s c →
      BestCostInv (searchLoop g an la rmatch full orig startTok startPl fuel st) ∧
      Cov (searchLoop g an la rmatch full orig startTok startPl fuel st) b s c := by
  intro fuel
  induction fuel with
  | zero => intro st _ h2 h3; unfold searchLoop; exact ⟨h2, h3⟩
  | succ fuel ih =>
    intro st h1 h2 h3
    cases hst : st.stack with
    | nil => rw [searchLoop_nil _ _ _ _ _ _ _ _ _ _ hst]; exact ⟨h2, h3⟩
    | cons top rest =>
      rw [searchLoop_cons _ _ _ _ _ _ _ _ _ _ _ _ hst]
      exact searchStepK_cov (searchLoop g an la rmatch full orig startTok startPl fuel)
        (fun x => BestCostInv x ∧ Cov x b s c) ctx h1 h2 hst hsim h3 ih

end Step

/-! ## `recoverAt` -/

theorem mem_simpleRecoveryCosts {pl : List PSet} {k c : Nat}
    (h : c ∈ simpleRecoveryCosts g an la rmatch full pl k) :
    ∃ b d, b ≤ k ∧ hasTrans g (pl.getD b default).items g.errT = true ∧ k + d < full.length ∧
      canMatch g an la full (full.length + 2) (pl.take (b + 1) ++ [errSetOf g (pl.take (b + 1))])
        (k + d) (max rmatch 1) = true ∧ c = (k - b) + d := by
  unfold simpleRecoveryCosts at h
  rw [List.mem_flatMap] at h
  obtain ⟨b, hb, h⟩ := h
  rw [List.mem_range] at hb
  split at h
  · cases h
  · rename_i hT
    simp only at h
    rw [List.mem_filterMap] at h
    obtain ⟨d, hd, h⟩ := h
    rw [List.mem_range] at hd
    split at h
    · rename_i hcan
      simp only [Option.some.injEq] at h
      refine ⟨b, d, Nat.le_of_lt_succ hb, by simpa using hT, by omega, hcan, h.symm⟩
    · cases h

/-- the initial state of the search -/
def recoverInit (g : Grammar) (full : List Nat) (pl : List PSet) (tok : Nat) : SearchSt :=
  { stack := [⟨(findError g pl (pl.length - 1) 0).1, [], tok, (findError g pl (pl.length - 1) 0).2⟩],
    bf := (findError g pl (pl.length - 1) 0).1, btf := (findError g pl (pl.length - 1) 0).2,
    bestCost := 2 * full.length, best := none }

theorem recoverAt_eq (g : Grammar) (an : Analysis) (la rmatch : Nat) (full : List Nat)
    (pl : List PSet) (tok fuel : Nat) :
    recoverAt g an la rmatch full pl tok fuel =
      searchLoop g an la rmatch full pl tok (pl.length - 1) fuel (recoverInit g full pl tok) := rfl

theorem recoverInit_inv {pl : List PSet} {tok : Nat} (h : PLOk g full pl tok)
    (ht : tok < full.length) (hrun : RunOk g an la full pl) :
    SearchInv g an la full pl tok (pl.length - 1) (recoverInit g full pl tok) ∧
    (recoverInit g full pl tok).btf = backCost g pl (recoverInit g full pl tok).bf := by
  have ctx := h.rctx ht hrun
  have hlt : pl.length - 1 < pl.length := by rw [ctx.len]; omega
  obtain ⟨hb, hc⟩ := findError_spec g pl (pl.length - 1) 0 hlt
  have hnil : pl.drop (pl.length - 1 + 1) = [] := List.drop_eq_nil_iff.mpr (by omega)
  rw [hnil, nonErr_nil, Nat.add_zero, Nat.zero_add] at hc
  refine ⟨⟨?_, hb, hc, fun b hb => by cases hb⟩, hc⟩
  intro s hs
  unfold recoverInit at hs
  simp only [List.mem_singleton] at hs
  subst hs
  exact ⟨⟨hb, SegOk.nil _ _ _ _, Nat.le_refl _, ht, by simpa [backCost] using hc, Nat.le_refl _,
    by simp only [List.append_nil]; exact hrun.take _⟩, Nat.le_refl _⟩

/-- The recovery found by a finished search costs no more than any simple recovery. -/
theorem recoverAt_minimal {pl : List PSet} {tok : Nat} (hpl : PLOk g full pl tok)
    (hrun : RunOk g an la full pl) (ht : tok < full.length) (hlen : pl.length = tok + 1)
    (sfuel : Nat) (hstack : (recoverAt g an la rmatch full pl tok sfuel).stack = []) (bst : Best)
    (hbest : (recoverAt g an la rmatch full pl tok sfuel).best = some bst) :
    ∀ c ∈ simpleRecoveryCosts g an la rmatch full pl tok, bst.rstop - bst.rstart ≤ c := by
  intro c hc
  obtain ⟨b, d, hb, hT, hd, hcan, rfl⟩ := mem_simpleRecoveryCosts hc
  have ctx := hpl.rctx ht hrun
  have hsp : pl.length - 1 = tok := by omega
  have hsim : SimpleRec g an la rmatch full pl tok (pl.length - 1) b (tok + d) ((tok - b) + d) :=
    ⟨hT, Nat.le_add_right _ _, hd, hcan, by omega⟩
  obtain ⟨hinit, hbtf⟩ := recoverInit_inv hpl ht hrun
  have hcov0 : Cov (recoverInit g full pl tok) b (tok + d) ((tok - b) + d) := by
    have hnear : b ≤ (findError g pl (pl.length - 1) 0).1 := by
      rcases Nat.lt_or_ge (findError g pl (pl.length - 1) 0).1 b with h | h
      · exact absurd hT (findError_nearest g pl _ _ b h (by omega))
      · exact h
    rcases Nat.eq_or_lt_of_le hnear with heq | hlt
    · refine Or.inr (Or.inl ⟨_, List.mem_singleton.mpr rfl, heq.symm, rfl, Nat.le_add_right _ _, ?_⟩)
      have h1 := backCost_le_len ctx (findError g pl (pl.length - 1) 0).1
      have h2 : (findError g pl (pl.length - 1) 0).2 =
          backCost g pl (findError g pl (pl.length - 1) 0).1 := hbtf
      simp only
      omega
    · exact Or.inr (Or.inr ⟨hlt, by unfold recoverInit; simp⟩)
  have hfin := searchLoop_cov ctx hsim sfuel _ hinit (fun bst h => by cases h) hcov0
  rw [← recoverAt_eq] at hfin
  obtain ⟨hbc, hcov⟩ := hfin
  have hcost : (recoverAt g an la rmatch full pl tok sfuel).bestCost ≤ (tok - b) + d := by
    rcases hcov with h | ⟨σ, hσ, _⟩ | ⟨_, hne⟩
    · exact h
    · rw [hstack] at hσ; cases hσ
    · exact absurd hstack hne
  have := hbc bst hbest
  omega

/-! ## the parse list at the first error -/

/-- the shifting part of `parseRecLoop`: shift tokens until one has no transition (or the
input is exhausted); returns the index of that token and the parse list built so far -/
def shiftLoop (g : Grammar) (an : Analysis) (la : Nat) (full : List Nat) :
    Nat → Nat → List PSet → Nat × List PSet
  | 0, tok, pl => (tok, pl)
  | fuel + 1, tok, pl =>
    match full[tok]? with
    | none => (tok, pl)
    | some t =>
      if hasTrans g (pl.getLastD default).items t then
        shiftLoop g an la full fuel (tok + 1) (pl ++ [gotoSet g an la pl t (some tok) full[tok + 1]?])
      else (tok, pl)

/-- the parse list `parseWithRecovery` has built when it meets the first error (the list the
first call of `recoverAt` gets) -/
def firstErrorPl (g : Grammar) (la : Nat) (w : List Nat) : List PSet :=
  (shiftLoop g g.analysis la (w ++ [g.eofT]) ((w ++ [g.eofT]).length + 2) 0
    [{ term := none, tok := none, items := set0 g }]).2

/-- it is the list of `parseLoop`/`buildPL` -/
theorem shiftLoop_vs_parseLoop :
    ∀ (fuel tok : Nat) (pl : List PSet), full.length ≤ fuel + tok →
      (parseLoop g an la (full.drop tok) (psItems pl) tok).2 =
        psItems (shiftLoop g an la full fuel tok pl).2 ∧
      ∀ e, (parseLoop g an la (full.drop tok) (psItems pl) tok).1 = some e →
        (shiftLoop g an la full fuel tok pl).1 = e := by
  intro fuel
  induction fuel with
  | zero =>
    intro tok pl h
    rw [List.drop_eq_nil_iff.mpr (by omega)]
    unfold parseLoop shiftLoop
    exact ⟨rfl, fun e he => by cases he⟩
  | succ fuel ih =>
    intro tok pl h
    unfold shiftLoop
    split
    · rename_i hnone
      rw [List.drop_eq_nil_iff.mpr (List.getElem?_eq_none_iff.mp hnone)]
      unfold parseLoop
      exact ⟨rfl, fun e he => by cases he⟩
    · rename_i t ht
      have hlt := (List.getElem?_eq_some_iff.mp ht).1
      have hdrop : full.drop tok = t :: full.drop (tok + 1) := by
        rw [List.drop_eq_getElem_cons hlt, (List.getElem?_eq_some_iff.mp ht).2]
      rw [hdrop]
      unfold parseLoop
      rw [← psItems_getLastD]
      split
      · have := ih (tok + 1) (pl ++ [gotoSet g an la pl t (some tok) full[tok + 1]?]) (by omega)
        rw [psItems_append] at this
        have hhead : (full.drop (tok + 1)).head? = full[tok + 1]? := by rw [List.head?_drop]
        rw [hhead]
        exact this
      · refine ⟨rfl, fun e he => ?_⟩
        simp only [Option.some.injEq] at he
        exact he

theorem firstErrorPl_items (g : Grammar) (la : Nat) (w : List Nat) :
    psItems (firstErrorPl g la w) = (buildPL g la w).2 := by
  unfold firstErrorPl buildPL
  exact ((shiftLoop_vs_parseLoop (g := g) (an := g.analysis) (la := la) (full := w ++ [g.eofT])
    ((w ++ [g.eofT]).length + 2) 0 [{ term := none, tok := none, items := set0 g }]
    (by omega)).1).symm

theorem firstErrorPl_tok (g : Grammar) (la : Nat) (w : List Nat) {e : Nat}
    (h : (buildPL g la w).1 = some e) :
    (shiftLoop g g.analysis la (w ++ [g.eofT]) ((w ++ [g.eofT]).length + 2) 0
      [{ term := none, tok := none, items := set0 g }]).1 = e :=
  (shiftLoop_vs_parseLoop (g := g) (an := g.analysis) (la := la) (full := w ++ [g.eofT])
    ((w ++ [g.eofT]).length + 2) 0 [{ term := none, tok := none, items := set0 g }]
    (by omega)).2 e h

/-- the first recovery call of `parseRecLoop` is made on the list of `shiftLoop`, and its
cost is minimal among the simple recoveries -/
theorem parseRecLoop_first_call {sfuel : Nat} :
    ∀ (fuel tok : Nat) (pl : List PSet) (calls : List (Nat × Nat × Nat)) (steps : Nat),
      OuterInv g an la full tok pl calls → pl.length = tok + 1 →
      (parseRecLoop g an la rmatch full sfuel fuel tok pl calls steps).ok = true →
      ∀ e a b more,
        (parseRecLoop g an la rmatch full sfuel fuel tok pl calls steps).calls =
          calls ++ (e, a, b) :: more →
        e = (shiftLoop g an la full fuel tok pl).1 ∧
        ∀ c ∈ simpleRecoveryCosts g an la rmatch full (shiftLoop g an la full fuel tok pl).2 e,
          b - a ≤ c := by
  intro fuel
  induction fuel with
  | zero => intro tok pl calls steps _ _ hok; unfold parseRecLoop at hok; cases hok
  | succ fuel ih =>
    intro tok pl calls steps h hlen hok e a b more hcalls
    unfold parseRecLoop at hok hcalls
    unfold shiftLoop
    split
    · rename_i hnone
      rw [hnone] at hcalls
      simp only at hcalls
      have := congrArg List.length hcalls
      simp only [List.length_append, List.length_cons] at this
      omega
    · rename_i t ht
      rw [ht] at hok hcalls
      have hlt := (List.getElem?_eq_some_iff.mp ht).1
      simp only at hok hcalls ⊢
      split
      · rename_i hT
        rw [if_pos hT] at hok hcalls
        exact ih _ _ _ _ (h.shift ht hT) (by rw [List.length_append, hlen]; rfl) hok e a b more hcalls
      · rename_i hT
        rw [if_neg hT] at hok hcalls
        cases hbest : (recoverAt g an la rmatch full pl tok sfuel).best with
        | none => rw [hbest] at hok; cases hok
        | some bst =>
          rw [hbest] at hok hcalls
          simp only at hok hcalls
          by_cases hne : (!(recoverAt g an la rmatch full pl tok sfuel).stack.isEmpty) = true
          · rw [if_pos hne] at hok; cases hok
          · rw [if_neg hne] at hok hcalls
            have hstack : (recoverAt g an la rmatch full pl tok sfuel).stack = [] := by
              simpa using hne
            obtain ⟨more', hm⟩ := parseRecLoop_calls_prefix (g := g) (an := an) (la := la)
              (rmatch := rmatch) (full := full) (sfuel := sfuel) fuel (bst.tok + 1)
              (List.take (bst.last + 1) pl ++ bst.tail) (calls ++ [(tok, bst.rstart, bst.rstop)])
              (steps + (recoverAt g an la rmatch full pl tok sfuel).steps)
            rw [hm, List.append_assoc] at hcalls
            have := List.append_cancel_left hcalls
            simp only [List.cons_append, List.nil_append, List.cons.injEq, Prod.mk.injEq] at this
            obtain ⟨⟨rfl, rfl, rfl⟩, _⟩ := this
            exact ⟨rfl, recoverAt_minimal h.pl_ok h.run hlt hlen sfuel hstack bst hbest⟩

/-- the sets `shiftLoop` appends carry the input tokens and their indices -/
theorem shiftLoop_shape :
    ∀ (fuel tok : Nat) (pl : List PSet),
      tok ≤ (shiftLoop g an la full fuel tok pl).1 ∧
      (shiftLoop g an la full fuel tok pl).2.map (fun s => (s.term, s.tok)) =
        pl.map (fun s => (s.term, s.tok)) ++
          (List.range' tok ((shiftLoop g an la full fuel tok pl).1 - tok)).map
            fun k => (full[k]?, some k) := by
  intro fuel
  induction fuel with
  | zero => intro tok pl; unfold shiftLoop; simp
  | succ fuel ih =>
    intro tok pl
    unfold shiftLoop
    split
    · simp
    · rename_i t ht
      split
      · obtain ⟨h1, h2⟩ := ih (tok + 1) (pl ++ [gotoSet g an la pl t (some tok) full[tok + 1]?])
        refine ⟨by omega, ?_⟩
        rw [h2]
        have e : (shiftLoop g an la full fuel (tok + 1)
            (pl ++ [gotoSet g an la pl t (some tok) full[tok + 1]?])).1 - tok =
            ((shiftLoop g an la full fuel (tok + 1)
              (pl ++ [gotoSet g an la pl t (some tok) full[tok + 1]?])).1 - (tok + 1)) + 1 := by
          omega
        rw [e, List.range'_succ, List.map_append, List.map_cons, List.map_cons, List.map_nil,
          List.append_assoc, ht]
        rfl
      · simp

theorem firstErrorPl_shape (g : Grammar) (la : Nat) (w : List Nat) {e : Nat}
    (h : (buildPL g la w).1 = some e) :
    (firstErrorPl g la w).map (fun s => (s.term, s.tok)) =
      (none, none) :: (List.range' 0 e).map fun k => ((w ++ [g.eofT])[k]?, some k) := by
  have h2 := (shiftLoop_shape (g := g) (an := g.analysis) (la := la) (full := w ++ [g.eofT])
    ((w ++ [g.eofT]).length + 2) 0 [{ term := none, tok := none, items := set0 g }]).2
  rw [firstErrorPl_tok g la w h] at h2
  unfold firstErrorPl
  rw [h2]
  rfl

end Yaep
