import Yaep.Model.ObjStack
import Yaep.Lemmas.ContainersMem
/-!
# Object stack: top object = appended bytes, finished objects are immutable, bounds (C19)
-/
namespace Yaep.Model.ObjStack

/-! ## abstract semantics -/

structure Spec where
  top : List (Option Nat) := []
  finished : List (List (Option Nat)) := []

def specStep (a : Spec) : Op → Spec
  | .addBytes bs => { a with top := a.top ++ bs.map some }
  | .addByte b => { a with top := a.top ++ [some b] }
  | .expand n => { a with top := a.top ++ List.replicate n none }
  | .shorten n => { a with top := a.top.take (a.top.length - n) }
  | .nullify => { a with top := [] }
  | .finish => { top := [], finished := a.finished ++ [a.top] }
  | .empty => { top := [], finished := [] }
  | .top => a
  | .check => a

def specRun (ops : List Op) : Spec := ops.foldl specStep {}

/-- the abstraction of a model state -/
def Stack.abs (s : Stack) : Spec := ⟨s.top, s.finished.map (·.bytes)⟩

/-! ## invariant -/

structure Inv (s : Stack) : Prop where
  le : s.start ≤ s.free
  bcap : s.boundary ≤ s.cur.cap
  /-- `os_top_object_free` may exceed `os_boundary` only right after `OS_TOP_FINISH`, by less
  than the alignment, and then the top object is empty -/
  fb : s.free ≤ s.boundary ∨
        (s.start = s.free ∧ s.free < s.boundary + alignment ∧ s.free % alignment = 0)
  first : s.initLen ≤ s.firstSeg.cap
  single : s.prev = [] → s.initLen ≤ s.boundary
  curId : s.cur.id < s.nextId
  prevId : ∀ g ∈ s.prev, g.id < s.nextId
  finId : ∀ o ∈ s.finished, o.seg < s.nextId
  fin : ∀ o ∈ s.finished, o.bytes ≠ [] →
        ∃ g, s.findSeg o.seg = some g ∧ (o.seg = s.cur.id → o.off + o.bytes.length ≤ s.start) ∧
          readMem g.mem o.off o.bytes.length = o.bytes

theorem findSeg_eq (s : Stack) (id : Nat) :
    s.findSeg id = if s.cur.id = id then some s.cur else s.prev.find? (·.id == id) := by
  unfold Stack.findSeg Stack.segs
  rw [List.find?_cons]
  by_cases h : s.cur.id = id
  · simp [h]
  · have : (s.cur.id == id) = false := by simp [h]
    simp [this, h]

theorem getLastD_cons (p : Seg) (ps : List Seg) (x y : Seg) :
    (p :: ps).getLast?.getD x = (p :: ps).getLast?.getD y := by
  simp [List.getLast?_cons]

theorem firstSeg_mem (s : Stack) : s.firstSeg ∈ s.cur :: s.prev := by
  unfold Stack.firstSeg
  cases hp : s.prev with
  | nil => simp
  | cons p ps =>
    have : (p :: ps).getLast?.getD s.cur = (p :: ps).getLast (by simp) := by
      rw [List.getLast?_eq_some_getLast (by simp)]; rfl
    rw [this]
    exact List.mem_cons_of_mem _ (List.getLast_mem _)

theorem inv_create (n : Nat) : Inv (create n) := by
  constructor <;> simp [create, Stack.firstSeg]

theorem abs_create (n : Nat) : (create n).abs = {} := by
  simp [Stack.abs, create, Stack.top, Stack.topLength, readMem]

/-! ## `_OS_expand_memory` -/

theorem expandMemory_spec (s : Stack) (add : Nat) (h : Inv s) (hneed : s.boundary < s.free + add) :
    Inv (expandMemory s add) ∧ (expandMemory s add).abs = s.abs ∧
    (expandMemory s add).free + add ≤ (expandMemory s add).boundary ∧
    (expandMemory s add).finished = s.finished := by
  have hle := h.le
  refine ⟨?_, ?_, ?_, rfl⟩
  · constructor
    · show 0 ≤ s.topLength
      omega
    · exact Nat.le_refl _
    · left
      show s.topLength ≤ _
      simp only [expandMemory]
      split <;> simp only [defaultSegmentLength, Stack.topLength] at * <;> omega
    · -- first segment
      show s.initLen ≤ (Stack.firstSeg (expandMemory s add)).cap
      by_cases hs : s.start = 0
      · cases hp : s.prev with
        | nil =>
          have hb := h.single hp
          simp only [expandMemory, Stack.firstSeg, hs, hp, if_true, List.getLast?_nil, Option.getD_none]
          simp only [Stack.topLength, hs, defaultSegmentLength]
          split <;> omega
        | cons p ps =>
          have hf := h.first
          simp only [Stack.firstSeg, hp] at hf
          simp only [expandMemory, Stack.firstSeg, hs, hp, if_true]
          rw [getLastD_cons p ps _ s.cur]
          exact hf
      · have hf := h.first
        simp only [expandMemory, Stack.firstSeg, hs, if_false]
        cases hp : s.prev with
        | nil => simpa [Stack.firstSeg, hp] using hf
        | cons p ps =>
          simp only [Stack.firstSeg, hp] at hf
          rw [List.getLast?_cons_cons, getLastD_cons p ps _ s.cur]
          exact hf
    · -- single
      intro hp
      by_cases hs : s.start = 0
      · simp only [expandMemory, hs, if_true] at hp
        have hb := h.single hp
        simp only [expandMemory, Stack.topLength, hs, defaultSegmentLength]
        split <;> omega
      · simp [expandMemory, hs] at hp
    · show s.nextId < s.nextId + 1
      omega
    · intro g hg
      show g.id < s.nextId + 1
      have hg' : g ∈ s.cur :: s.prev := by
        simp only [expandMemory] at hg
        split at hg
        · exact List.mem_cons_of_mem _ hg
        · exact hg
      rcases List.mem_cons.mp hg' with e | e
      · have := h.curId; rw [e]; omega
      · have := h.prevId g e; omega
    · intro o ho
      have := h.finId o ho
      show o.seg < s.nextId + 1
      omega
    · intro o ho hne
      obtain ⟨g, hg, hb, hr⟩ := h.fin o ho hne
      have hid := h.finId o ho
      have hlen : 0 < o.bytes.length := List.length_pos_iff.mpr hne
      refine ⟨g, ?_, ?_, hr⟩
      · rw [findSeg_eq] at hg ⊢
        have hne1 : ¬ ((expandMemory s add).cur.id = o.seg) := by
          show ¬ (s.nextId = o.seg); omega
        rw [if_neg hne1]
        by_cases hs : s.start = 0
        · have hne2 : ¬ (s.cur.id = o.seg) := by
            intro hc
            have := hb hc.symm
            omega
          rw [if_neg hne2] at hg
          simpa [expandMemory, hs] using hg
        · simp only [expandMemory, hs, if_false, List.find?_cons]
          by_cases hc : s.cur.id = o.seg
          · rw [if_pos hc] at hg
            have : (s.cur.id == o.seg) = true := by simp [hc]
            simp [this, ← hg]
          · rw [if_neg hc] at hg
            have : (s.cur.id == o.seg) = false := by simp [hc]
            simp [this, hg]
      · intro hc
        exfalso
        have : o.seg = s.nextId := hc
        omega
  · -- abstraction
    show Spec.mk _ _ = Spec.mk _ _
    congr 1
    show readMem (tabulate s.topLength fun i => s.cur.mem.get (s.start + i)) 0 (s.topLength - 0) = _
    unfold Stack.top
    rw [Nat.sub_zero]
    apply readMem_congr
    intro i hi
    rw [get_tabulate]
    simp [hi]
  · show s.topLength + add ≤ _
    simp only [expandMemory]
    split <;> simp only [defaultSegmentLength, Stack.topLength] at * <;> omega

/-- the state after the capacity check of `OS_TOP_ADD_MEMORY`/`OS_TOP_EXPAND`/`OS_TOP_ADD_BYTE` -/
theorem ensure_spec (s : Stack) (k : Nat) (h : Inv s) :
    let s1 := if s.free + k > s.boundary then expandMemory s k else s
    Inv s1 ∧ s1.abs = s.abs ∧ s1.free + k ≤ s1.boundary ∧ s1.finished = s.finished := by
  intro s1
  by_cases hc : s.free + k > s.boundary
  · have e : s1 = expandMemory s k := by simp [s1, hc]
    rw [e]; exact expandMemory_spec s k h hc
  · have e : s1 = s := by simp [s1, hc]
    rw [e]; exact ⟨h, rfl, by omega, rfl⟩

/-! ## updating the memory of the current segment above `start` -/

/-- changing the memory of the current segment without touching anything below `start`, and
moving `free`, preserves the invariant -/
theorem inv_update (s : Stack) (m' : Mem) (f' : Nat) (h : Inv s)
    (hm : ∀ o len, o + len ≤ s.start → readMem m' o len = readMem s.cur.mem o len)
    (hf : s.start ≤ f') (hfb : f' ≤ s.boundary) :
    Inv { s with cur := { s.cur with mem := m' }, free := f' } := by
  constructor
  · exact hf
  · exact h.bcap
  · exact Or.inl hfb
  · have := h.first
    show s.initLen ≤ (s.prev.getLast?.getD { s.cur with mem := m' }).cap
    unfold Stack.firstSeg at this
    cases hp : s.prev with
    | nil => simpa [hp] using this
    | cons p ps =>
      rw [hp] at this
      rw [getLastD_cons p ps _ s.cur]; exact this
  · exact h.single
  · exact h.curId
  · exact h.prevId
  · exact h.finId
  · intro o ho hne
    obtain ⟨g, hg, hb, hr⟩ := h.fin o ho hne
    rw [findSeg_eq] at hg
    by_cases hc : s.cur.id = o.seg
    · rw [if_pos hc] at hg
      refine ⟨{ s.cur with mem := m' }, ?_, hb, ?_⟩
      · rw [findSeg_eq]; simp [hc]
      · have hg' : g = s.cur := (Option.some.inj hg).symm
        rw [hg'] at hr
        show readMem m' o.off o.bytes.length = o.bytes
        rw [hm _ _ (hb hc.symm)]
        exact hr
    · rw [if_neg hc] at hg
      refine ⟨g, ?_, hb, hr⟩
      rw [findSeg_eq]; simp [hc, hg]

theorem addBytes_spec (s : Stack) (bs : List Nat) (h : Inv s) :
    Inv (addBytes s bs) ∧ (addBytes s bs).abs = specStep s.abs (.addBytes bs) := by
  have hs := ensure_spec s bs.length h
  simp only at hs
  generalize hs1 : (if s.free + bs.length > s.boundary then expandMemory s bs.length else s) = s1 at hs
  obtain ⟨hi, ha, hroom, hfin⟩ := hs
  have e : addBytes s bs =
      { s1 with cur := { s1.cur with mem := writeAt s1.cur.mem s1.free bs }, free := s1.free + bs.length } := by
    simp [addBytes, hs1]
  have hle := hi.le
  rw [e]
  constructor
  · apply inv_update s1 _ _ hi
    · intro o len hol
      exact readMem_writeAt_disjoint _ _ _ _ _ (Or.inl (by omega))
    · omega
    · exact hroom
  · rw [← ha]
    show Spec.mk _ _ = Spec.mk _ _
    congr 1
    show readMem (writeAt s1.cur.mem s1.free bs) s1.start (s1.free + bs.length - s1.start) = _
    have : s1.free + bs.length - s1.start = (s1.free - s1.start) + bs.length := by omega
    rw [this, readMem_add, readMem_writeAt_disjoint _ _ _ _ _ (Or.inl (by omega))]
    have : s1.start + (s1.free - s1.start) = s1.free := by omega
    rw [this, readMem_writeAt_same]
    rfl

theorem addByte_eq (s : Stack) (b : Nat) : addByte s b = addBytes s [b] := by
  unfold addByte addBytes
  have : (s.free ≥ s.boundary) ↔ (s.free + [b].length > s.boundary) := by
    simp only [List.length_singleton]; omega
  simp only [this, List.length_singleton]

theorem expand_spec (s : Stack) (n : Nat) (h : Inv s) :
    Inv (expand s n) ∧ (expand s n).abs = specStep s.abs (.expand n) := by
  have hs := ensure_spec s n h
  simp only at hs
  generalize hs1 : (if s.free + n > s.boundary then expandMemory s n else s) = s1 at hs
  obtain ⟨hi, ha, hroom, hfin⟩ := hs
  have e : expand s n =
      { s1 with cur := { s1.cur with mem := havoc s1.cur.mem s1.free n }, free := s1.free + n } := by
    simp [expand, hs1]
  have hle := hi.le
  rw [e]
  constructor
  · apply inv_update s1 _ _ hi
    · intro o len hol
      exact readMem_havoc_disjoint _ _ _ _ _ (Or.inl (by omega))
    · omega
    · exact hroom
  · rw [← ha]
    show Spec.mk _ _ = Spec.mk _ _
    congr 1
    show readMem (havoc s1.cur.mem s1.free n) s1.start (s1.free + n - s1.start) = _
    have : s1.free + n - s1.start = (s1.free - s1.start) + n := by omega
    rw [this, readMem_add, readMem_havoc_disjoint _ _ _ _ _ (Or.inl (by omega))]
    have : s1.start + (s1.free - s1.start) = s1.free := by omega
    rw [this, readMem_havoc_same]
    rfl

/-- moving `free` down (not below `start`) -/
theorem inv_setFree (s : Stack) (f' : Nat) (h : Inv s) (hf : s.start ≤ f') (hf2 : f' ≤ s.free) :
    Inv { s with free := f' } := by
  constructor
  · exact hf
  · exact h.bcap
  · rcases h.fb with hb | ⟨h1, h2, h3⟩
    · left; show f' ≤ s.boundary; omega
    · right
      have : f' = s.free := by omega
      subst this
      exact ⟨h1, h2, h3⟩
  · exact h.first
  · exact h.single
  · exact h.curId
  · exact h.prevId
  · exact h.finId
  · exact h.fin

theorem shorten_spec (s : Stack) (n : Nat) (h : Inv s) :
    Inv (shorten s n) ∧ (shorten s n).abs = specStep s.abs (.shorten n) := by
  have hle := h.le
  unfold shorten
  by_cases hn : s.topLength < n
  · rw [if_pos hn]
    refine ⟨inv_setFree s s.start h (Nat.le_refl _) hle, ?_⟩
    show Spec.mk _ _ = Spec.mk _ _
    congr 1
    simp only [Stack.top, Stack.topLength, Stack.abs, length_readMem] at *
    have : s.free - s.start - n = 0 := by omega
    simp [this, readMem_zero]
  · rw [if_neg hn]
    simp only [Stack.topLength] at hn
    refine ⟨inv_setFree s (s.free - n) h (by omega) (by omega), ?_⟩
    show Spec.mk _ _ = Spec.mk _ _
    congr 1
    simp only [Stack.top, Stack.topLength, Stack.abs, length_readMem]
    rw [take_readMem _ _ _ _ (by omega)]
    have : s.free - n - s.start = s.free - s.start - n := by omega
    rw [this]

theorem nullify_spec (s : Stack) (h : Inv s) :
    Inv (nullify s) ∧ (nullify s).abs = specStep s.abs .nullify := by
  refine ⟨inv_setFree s s.start h (Nat.le_refl _) h.le, ?_⟩
  show Spec.mk _ _ = Spec.mk _ _
  congr 1
  simp [Stack.top, Stack.topLength, nullify, readMem_zero]

theorem alignUp_ge (a : Nat) : a ≤ alignUp a := by
  unfold alignUp alignment; omega

theorem alignUp_lt (a : Nat) : alignUp a < a + alignment := by
  unfold alignUp alignment; omega

theorem alignUp_mod (a : Nat) : alignUp a % alignment = 0 := by
  unfold alignUp alignment; omega

theorem alignUp_of_aligned (a : Nat) (h : a % alignment = 0) : alignUp a = a := by
  unfold alignUp alignment at *; omega

theorem finish_spec (s : Stack) (h : Inv s) :
    Inv (finish s) ∧ (finish s).abs = specStep s.abs .finish := by
  have hle := h.le
  have hge := alignUp_ge s.free
  constructor
  · constructor
    · exact Nat.le_refl _
    · exact h.bcap
    · show alignUp s.free ≤ s.boundary ∨ (alignUp s.free = alignUp s.free ∧
        alignUp s.free < s.boundary + alignment ∧ alignUp s.free % alignment = 0)
      rcases h.fb with hb | ⟨h1, h2, h3⟩
      · right
        have := alignUp_lt s.free
        exact ⟨rfl, by omega, alignUp_mod _⟩
      · right
        rw [alignUp_of_aligned _ h3]
        exact ⟨rfl, h2, h3⟩
    · exact h.first
    · exact h.single
    · exact h.curId
    · exact h.prevId
    · intro o ho
      simp only [finish, List.mem_append, List.mem_singleton] at ho
      rcases ho with ho | ho
      · exact h.finId o ho
      · subst ho; exact h.curId
    · intro o ho hne
      simp only [finish, List.mem_append, List.mem_singleton] at ho
      rcases ho with ho | ho
      · obtain ⟨g, hg, hb, hr⟩ := h.fin o ho hne
        refine ⟨g, hg, ?_, hr⟩
        intro hc
        have := hb hc
        show _ ≤ alignUp s.free
        omega
      · subst ho
        refine ⟨s.cur, ?_, ?_, ?_⟩
        · show Stack.findSeg (finish s) s.cur.id = _
          rw [findSeg_eq]; simp [finish]
        · intro _
          show s.start + s.top.length ≤ alignUp s.free
          simp only [Stack.top, length_readMem, Stack.topLength]
          omega
        · show readMem s.cur.mem s.start s.top.length = s.top
          simp [Stack.top]
  · show Spec.mk _ _ = Spec.mk _ _
    congr 1
    · simp [finish, Stack.top, Stack.topLength, readMem_zero]
    · simp [finish, Stack.abs]

theorem empty_spec (s : Stack) (h : Inv s) :
    Inv (empty s) ∧ (empty s).abs = specStep s.abs .empty := by
  constructor
  · constructor
    · exact Nat.le_refl _
    · exact h.first
    · left; exact Nat.zero_le _
    · show s.initLen ≤ (Stack.firstSeg (empty s)).cap
      have := h.first
      simpa [empty, Stack.firstSeg] using this
    · intro _; exact Nat.le_refl _
    · show s.firstSeg.id < s.nextId
      rcases List.mem_cons.mp (firstSeg_mem s) with e | e
      · rw [e]; exact h.curId
      · exact h.prevId _ e
    · intro g hg; simp [empty] at hg
    · intro o ho; simp [empty] at ho
    · intro o ho; simp [empty] at ho
  · simp [empty, Stack.abs, Stack.top, Stack.topLength, readMem_zero, specStep]

/-! ## all operations, all sequences -/

theorem step_spec (s : Stack) (op : Op) (h : Inv s) :
    Inv (stepOp s op) ∧ (stepOp s op).abs = specStep s.abs op := by
  cases op with
  | addBytes bs => exact addBytes_spec s bs h
  | addByte b =>
    have := addBytes_spec s [b] h
    simp only [stepOp, addByte_eq]
    exact this
  | expand n => exact expand_spec s n h
  | shorten n => exact shorten_spec s n h
  | nullify => exact nullify_spec s h
  | finish => exact finish_spec s h
  | empty => exact empty_spec s h
  | top => exact ⟨h, rfl⟩
  | check => exact ⟨h, rfl⟩

theorem run_spec (s : Stack) (ops : List Op) (h : Inv s) :
    Inv (run s ops) ∧ (run s ops).abs = ops.foldl specStep s.abs := by
  induction ops generalizing s with
  | nil => exact ⟨h, rfl⟩
  | cons op ops ih =>
    have hs := step_spec s op h
    have := ih (stepOp s op) hs.1
    simp only [run, List.foldl_cons] at this ⊢
    rw [← hs.2]
    exact this

/-- under the invariant, what is stored at the address of a finished object is the object -/
theorem readObj_of_inv (s : Stack) (h : Inv s) (o : Obj) (ho : o ∈ s.finished) :
    s.readObj o = some o.bytes := by
  unfold Stack.readObj
  by_cases hne : o.bytes = []
  · cases hf : s.findSeg o.seg with
    | some g => simp [hne, readMem_zero]
    | none => simp [hne]
  · obtain ⟨g, hg, _, hr⟩ := h.fin o ho hne
    simp [hg, hr]

/-- no operation but `OS_EMPTY` changes the record (address, bytes) of a finished object -/
theorem finished_step (s : Stack) (op : Op) (hop : op ≠ .empty) :
    ∃ l, (stepOp s op).finished = s.finished ++ l := by
  cases op with
  | addBytes bs => exact ⟨[], by simp only [stepOp, addBytes]; split <;> simp [expandMemory]⟩
  | addByte b => exact ⟨[], by simp only [stepOp, addByte]; split <;> simp [expandMemory]⟩
  | expand n => exact ⟨[], by simp only [stepOp, expand]; split <;> simp [expandMemory]⟩
  | shorten n => exact ⟨[], by simp only [stepOp, shorten]; split <;> simp⟩
  | nullify => exact ⟨[], by simp [stepOp, nullify]⟩
  | finish => exact ⟨_, rfl⟩
  | empty => exact absurd rfl hop
  | top => exact ⟨[], by simp [stepOp]⟩
  | check => exact ⟨[], by simp [stepOp]⟩

theorem finished_run (s : Stack) (ops : List Op) (hops : Op.empty ∉ ops) :
    ∃ l, (run s ops).finished = s.finished ++ l := by
  induction ops generalizing s with
  | nil => exact ⟨[], by simp [run]⟩
  | cons op ops ih =>
    have h1 : op ≠ .empty := fun e => hops (by simp [e])
    have h2 : Op.empty ∉ ops := fun e => hops (List.mem_cons_of_mem _ e)
    obtain ⟨l1, e1⟩ := finished_step s op h1
    obtain ⟨l2, e2⟩ := ih (stepOp s op) h2
    refine ⟨l1 ++ l2, ?_⟩
    simp only [run, List.foldl_cons] at e2 ⊢
    rw [e2, e1, List.append_assoc]

theorem run_append (s : Stack) (a b : List Op) : run s (a ++ b) = run (run s a) b := by
  simp [run, List.foldl_append]

end Yaep.Model.ObjStack
