import Yaep.Lemmas.MakeParseSoundFrame
import Yaep.Lemmas.MakeParseSoundStep
/-!
# Soundness of the model of `make_parse`, part 5: the main loop preserves the invariant

One lemma per case of `step` (pop of a state with / without abstract node, terminal, nonterminal
with its sub-cases), then `step_inv`, `init_inv`, `run_inv`.
-/
namespace Yaep.MP
open Yaep

theorem drop_of_getElem? {α : Type} {l : List α} {p : Nat} {x : α} (h : l[p]? = some x) :
    l.drop p = x :: l.drop (p + 1) := by
  obtain ⟨hl, he⟩ := List.getElem?_eq_some_iff.mp h
  rw [List.drop_eq_getElem_cons hl, he]

/-- the child delivers: the state below becomes the top of the stack -/
theorem BelowOK.deliver {g : Grammar} {ok : Nat → Nat → Nat → Bool} {toks : List Nat}
    {h h' : Array MNode} {sts : Array PState} (hwf : g.translWF = true)
    {sid : Nat} {rest : List Nat} {fr : Frame} {frs : List Frame} {hi sb : Nat} {tgt : Nat × Nat}
    {A cLo cFin cl : Nat} {node : PT}
    (hb : BelowOK g ok toks h sts (sid :: rest) (fr :: frs) hi sb tgt A cLo cFin)
    (hf : SlotFrame h h' hi tgt) (hhi : hi ≤ h'.size) (hsb : sb ≤ sts.size)
    (hk : getKid h' tgt.1 tgt.2 = some cl) (hd : Den h' h'.size (translate g node) hi cl)
    (hv : PT.ValidAt g toks node (.n A) cLo cFin) :
    TopOK g ok toks h' sts (sid :: rest) ({ fr with done := node :: fr.done } :: frs) := by
  simp only [BelowOK] at hb
  simp only [TopOK]
  obtain ⟨h1, h2, rl, d, pa, h3, h4, h5, h6, h7, h8, h9, hm⟩ := hb
  have hok := Grammar.translWF_rule hwf h3
  have hposlt : (sts.getD sid default).pos < rl.rhs.length := (List.getElem?_eq_some_iff.mp h4).1
  refine ⟨by omega, h2, rl, pa, h3, Nat.le_of_lt hposlt, h9, fun _ => h6 ▸ h7, ?_, ?_, ?_⟩
  · rw [drop_of_getElem? h4]
    have hcur : (if (sts.getD sid default).pos = 0 then (sts.getD sid default).orig
        else (sts.getD sid default).plInd) = cLo := by
      split
      · rename_i hp0
        rw [hp0] at h7
        exact h7.dot_zero
      · exact h6
    rw [hcur]
    exact .cons hv h8
  · split at hm
    · obtain ⟨_, _, m3, _⟩ := hm; omega
    · obtain ⟨_, _, m3, _⟩ := hm; omega
  · split at hm
    · rename_i an han
      obtain ⟨rfl, m2, m3, m4, m5, m6⟩ := hm
      simp only at hk hf
      have hpa := BelowOK.tgt_lt m6
      simp only at hpa
      refine ⟨m2, ?_, ?_, ?_⟩
      · obtain ⟨nm, ks, s1, s2, s3, s4⟩ := m4
        obtain ⟨ks', k1, k2, k3⟩ := hf.2 nm rl.cost ks s2
        simp only at k1 k3
        refine ⟨nm, ks', s1, k1, by rw [k2, s3], ?_⟩
        intro d' _
        by_cases hdd : d' = d
        · subst hdd
          refine ⟨?_, ?_⟩
          · intro q hq1 hq2
            have hqp : q = (sts.getD sid default).pos :=
              hok.inj _ _ _ (order_getD_eq_some.mp hq2) (order_getD_eq_some.mp h5)
            subst hqp
            refine ⟨cl, ?_, ?_⟩
            · rw [← getKid_of_cell k1]; exact hk
            · simp only [Nat.sub_self, List.getD_cons_zero]
              exact Den.frame (Nat.le_refl _) _ _ _ _ m3 (AgreeOn.refl _ _ _) hd
          · intro hno
            exact absurd h5 (hno _ (Nat.le_refl _))
        · have hskip : some d' ≠ some d := by intro e; injection e with e; exact hdd e
          obtain ⟨c1, c2⟩ := s4 d' hskip
          refine ⟨?_, ?_⟩
          · intro q hq1 hq2
            have hqne : q ≠ (sts.getD sid default).pos := by
              intro e; rw [e, h5] at hq2; injection hq2 with hq2; exact hdd hq2.symm
            obtain ⟨cl', c3, c4⟩ := c1 q (by omega) hq2
            refine ⟨cl', by rw [k3 d' hdd]; exact c3, ?_⟩
            have e : (node :: fr.done).getD (q - (sts.getD sid default).pos) default =
                fr.done.getD (q - ((sts.getD sid default).pos + 1)) default := by
              have : q - (sts.getD sid default).pos = (q - ((sts.getD sid default).pos + 1)) + 1 := by omega
              rw [this]; rfl
            simp only [e]
            exact Den.frame hhi _ _ _ _ (Nat.le_refl _) (hf.agreeOn (by simpa using m2) (Nat.le_refl _)) c4
          · intro hno
            rw [k3 d' hdd]
            exact c2 (fun q hq => hno q (by omega))
      · have hne : pa ≠ an := by omega
        have : h'.getD pa .nil = h.getD pa .nil := hf.1 pa (by omega) hne
        unfold getKid at m5 ⊢
        rw [this]; exact m5
      · refine BelowOK.frame m6 ?_ (fun _ _ => rfl)
        exact SlotFrame.of_agree _ (fun n hn => hf.1 n (by omega) (by simp; omega)) hpa
    · rename_i han
      obtain ⟨m1, m2, m3, m4⟩ := hm
      subst m2
      refine ⟨⟨m1, ?_, ?_⟩, BelowOK.frame m4 (hf.mono m3) (fun _ _ => rfl)⟩
      · intro q d' hq1 hq2
        have hqp : q = (sts.getD sid default).pos :=
          hok.single m1 _ _ _ _ (order_getD_eq_some.mp hq2) (order_getD_eq_some.mp h5)
        subst hqp
        refine ⟨cl, hk, ?_⟩
        simp only [Nat.sub_self, List.getD_cons_zero]
        exact Den.frame (Nat.le_refl _) _ _ _ _ m3 (AgreeOn.refl _ _ _) hd
      · intro hno
        rw [hno _ (Nat.le_refl _)] at h5
        cases h5

theorem BelowOK.tgt_ge {g : Grammar} {ok : Nat → Nat → Nat → Bool} {toks : List Nat} {h : Array MNode}
    {sts : Array PState} : ∀ {rest : List Nat} {frs : List Frame} {hi sb : Nat} {tgt : Nat × Nat}
    {A cLo cFin : Nat}, BelowOK g ok toks h sts rest frs hi sb tgt A cLo cFin → rootId ≤ tgt.1
  | [], frs, hi, sb, tgt, A, cLo, cFin, hb => by
    simp only [BelowOK] at hb
    obtain ⟨_, rfl, _⟩ := hb
    exact Nat.le_refl _
  | sid :: rest, [], hi, sb, tgt, A, cLo, cFin, hb => by simp [BelowOK] at hb
  | sid :: rest, fr :: frs, hi, sb, tgt, A, cLo, cFin, hb => by
    simp only [BelowOK] at hb
    obtain ⟨_, _, rl, d, pa, _, _, _, _, _, _, _, hm⟩ := hb
    split at hm
    · obtain ⟨rfl, _, _, _, _, m6⟩ := hm
      have h1 := BelowOK.tgt_ge m6
      have h2 := BelowOK.tgt_lt m6
      simp only at h1 h2 ⊢
      omega
    · obtain ⟨_, _, _, h4⟩ := hm
      exact BelowOK.tgt_ge h4

/-- the last state delivers: the result slot holds the translation of a derivation -/
theorem BelowOK.deliver_final {g : Grammar} {ok : Nat → Nat → Nat → Bool} {toks : List Nat}
    {h h' : Array MNode} {sts : Array PState} {frs : List Frame} {hi sb : Nat} {tgt : Nat × Nat}
    {A cLo cFin cl : Nat} {node : PT}
    (hb : BelowOK g ok toks h sts [] frs hi sb tgt A cLo cFin)
    (hk : getKid h' tgt.1 tgt.2 = some cl) (hd : Den h' h'.size (translate g node) hi cl)
    (hv : PT.ValidAt g toks node (.n A) cLo cFin) : Final g toks h' := by
  simp only [BelowOK] at hb
  obtain ⟨_, rfl, rfl, rfl, rfl, _, _⟩ := hb
  exact ⟨node, cl, hv, hk, Den.frame (Nat.le_refl _) _ _ _ _ (Nat.zero_le _) (AgreeOn.refl _ _ _) hd⟩

/-- what happens when the top state is popped and its translation sits in the open place -/
theorem BelowOK.pop_finish {g : Grammar} {ok : Nat → Nat → Nat → Bool} {toks : List Nat}
    {h h' : Array MNode} {sts : Array PState} (hwf : g.translWF = true)
    {rest : List Nat} {frs : List Frame} {hi sb : Nat} {tgt : Nat × Nat}
    {A cLo cFin cl : Nat} {node : PT}
    (hb : BelowOK g ok toks h sts rest frs hi sb tgt A cLo cFin)
    (hf : SlotFrame h h' hi tgt) (hhi : hi ≤ h'.size) (hsb : sb ≤ sts.size)
    (hk : getKid h' tgt.1 tgt.2 = some cl) (hd : Den h' h'.size (translate g node) hi cl)
    (hv : PT.ValidAt g toks node (.n A) cLo cFin) :
    (rest = [] ∧ Final g toks h') ∨ ∃ frs', TopOK g ok toks h' sts rest frs' := by
  cases rest with
  | nil => exact Or.inl ⟨rfl, hb.deliver_final hk hd hv⟩
  | cons sid rest =>
    cases frs with
    | nil => simp [BelowOK] at hb
    | cons fr frs => exact Or.inr ⟨_, hb.deliver hwf hf hhi hsb hk hd hv⟩

/-- a finished abstract node denotes the translation of its rule application -/
theorem owner_complete {g : Grammar} (hwf : g.translWF = true) {h : Array MNode} {rl : Rule}
    {r an lo : Nat} {done : List PT} (hr : g.rules[r]? = some rl)
    (hs : SlotsOK g h h.size rl an lo 0 done none) (han : an < lo) (hlo : lo ≤ h.size)
    (hlen : done.length = rl.rhs.length) :
    Den (fillNil h an rl.transLen) (fillNil h an rl.transLen).size (translate g (.node r done)) an an := by
  have hok := Grammar.translWF_rule hwf hr
  obtain ⟨nm, ks, s1, s2, s3, s4⟩ := hs
  obtain ⟨f1, f2, ks', f3, f4, f5⟩ := fillNil_spec s2 (by omega) rl.transLen
  rw [translate_node hr, translateRule_abstract s1]
  simp only [Den]
  refine ⟨Nat.le_refl _, by rw [f1]; omega, ks',
    (List.range rl.transLen).map (fun i => (ks'.getD i none).getD 0), f3, ?_, ?_⟩
  · -- the slots are all filled, the terminator is NULL
    apply List.ext_getElem
    · simp [f4, s3]
    · intro i hi1 hi2
      have hi3 : i < ks'.size := by simpa using hi1
      have e1 : ks'.toList[i] = ks'.getD i none := by
        simp [Array.getD_eq_getD_getElem?, hi3]
      rw [e1, f5 i]
      by_cases hlt : i < rl.transLen
      · rw [List.getElem_append_left (by simpa using hlt)]
        simp only [List.getElem_map, List.getElem_range]
        rw [f5 i]
        by_cases hn : ks.getD i none = none
        · rw [if_pos ⟨hlt, by omega, hn⟩]; rfl
        · rw [if_neg (fun hh => hn hh.2.2)]
          cases hk : ks.getD i none with
          | none => exact absurd hk hn
          | some v => rfl
      · have hie : i = rl.transLen := by
          rw [f4, s3] at hi3; omega
        subst hie
        rw [List.getElem_append_right (by simp)]
        simp only [List.length_map, List.length_range, Nat.sub_self, List.getElem_cons_zero]
        rw [if_neg (fun hh => hlt hh.1)]
        refine (s4 rl.transLen (by simp)).2 ?_
        intro q _ hq
        exact absurd (hok.slot_lt _ _ (order_getD_eq_some.mp hq)) (Nat.lt_irrefl _)
  · rw [denList_iff]
    refine ⟨by simp [fillSlots_length], ?_⟩
    intro i hi
    rw [fillSlots_length] at hi
    have hgk : ((List.range rl.transLen).map (fun i => (ks'.getD i none).getD 0)).getD i 0 =
        (ks'.getD i none).getD 0 := by
      simp [List.getD_eq_getElem?_getD, hi]
    rw [hgk, f5 i]
    obtain ⟨c1, c2⟩ := s4 i (by simp)
    by_cases hq : ∃ q, rl.order.getD q none = some i
    · obtain ⟨q, hq⟩ := hq
      obtain ⟨cl, c3, c4⟩ := c1 q (Nat.zero_le _) hq
      rw [if_neg (fun hh => by rw [c3] at hh; cases hh.2.2), c3]
      have hq' := order_getD_eq_some.mp hq
      have hql : q < done.length := by
        rw [hlen, ← hok.len]; exact (List.getElem?_eq_some_iff.mp hq').1
      have hdq : done[q]? = some (done.getD q default) := by
        rw [List.getD_eq_getElem?_getD, List.getElem?_eq_getElem hql]; rfl
      have hfs := fillSlots_slot_unique (kids := done.map (translate g)) hi hq'
        (fun q' hq'' => hok.inj _ _ _ hq'' hq')
      have : (fillSlots rl.order (done.map (translate g)) rl.transLen).getD i .nil =
          translate g (done.getD q default) := by
        rw [List.getD_eq_getElem?_getD, hfs, getD_map_translate hdq]; rfl
      rw [this]
      simp only [Nat.sub_zero] at c4
      refine Den.frame (by rw [f1]; exact Nat.le_refl _) _ _ _ _ (by omega) ?_ c4
      intro m hm1 _
      exact f2 m (by omega)
    · have hq' : ∀ q, rl.order.getD q none ≠ some i := fun q hh => hq ⟨q, hh⟩
      have hnone := c2 (fun q _ => hq' q)
      rw [if_pos ⟨hi, by omega, hnone⟩]
      have hfs := fillSlots_slot_nil (kids := done.map (translate g)) hi
        (fun p hp => hq' p (order_getD_eq_some.mpr hp))
      have : (fillSlots rl.order (done.map (translate g)) rl.transLen).getD i .nil = .nil := by
        rw [List.getD_eq_getElem?_getD, hfs]; rfl
      rw [this]
      simp [Den]

/-- what the proofs need to know about the translation parts of the rules: `Grammar.translWF`,
and a rule without abstract node and without translated symbol has translation length 0 (both
hold for every grammar `yaep_read_grammar` builds); the rules for the axiom `$S` have no abstract
node (`make_parse` starts with a state without one) -/
structure GrOK (g : Grammar) : Prop where
  twf : g.translWF = true
  pass : ∀ (r : Nat) (rl : Rule), g.rules[r]? = some rl → rl.anode = none →
    (∀ q, rl.order.getD q none = none) → rl.transLen = 0
  axiomPass : ∀ (r : Nat) (rl : Rule), g.rules[r]? = some rl → rl.lhs = g.axiomN → rl.anode = none

theorem CtxOK.rule_eq {g : Grammar} {ok : Nat → Nat → Nat → Bool} {toks : List Nat} {c : Ctx}
    (hc : CtxOK g ok toks c) {r : Nat} {rl : Rule} (hr : g.rules[r]? = some rl) : c.rule r = rl := by
  unfold Ctx.rule
  rw [hc.rules, Array.getD_eq_getD_getElem?, List.getElem?_toArray, hr]; rfl

/-- the parse states after a step that only touches the top state `sid` -/
structure StsUpd (sts sts' : Array PState) (sid : Nat) (st' : PState) : Prop where
  size : sts.size ≤ sts'.size
  other : ∀ i, i < sid → sts'.getD i default = sts.getD i default
  same : sts'.getD sid default = st'

theorem StsUpd.set {sts : Array PState} {sid : Nat} (st' : PState) (h : sid < sts.size) :
    StsUpd sts (sts.set! sid st') sid st' :=
  ⟨by simp, fun i hi => by rw [getD_set!]; simp; omega, by rw [getD_set!]; simp [h]⟩

theorem StsUpd.push {sts sts' : Array PState} {sid : Nat} {st' : PState} (h : StsUpd sts sts' sid st')
    (hs : sid < sts.size) (y : PState) : StsUpd sts (sts'.push y) sid st' :=
  ⟨by simp; have := h.size; omega,
   fun i hi => by rw [getD_push_lt _ _ _ _ (by have := h.size; omega)]; exact h.other i hi,
   by rw [getD_push_lt _ _ _ _ (by have := h.size; omega)]; exact h.same⟩

/-- what a step does to the stack: pop, move the dot of the top state, or move the dot and push a
state for a rule of the grammar -/
def StepShape (g : Grammar) (s s' : St) (sid : Nat) (rest : List Nat) : Prop :=
  (s'.stack = rest ∧ s'.states = s.states ∧ (s.state sid).pos = 0) ∨
  (∃ st', s'.stack = sid :: rest ∧ StsUpd s.states s'.states sid st' ∧
    st'.pos + 1 = (s.state sid).pos) ∨
  (∃ st' y, s'.stack = y :: sid :: rest ∧ sid < y ∧ StsUpd s.states s'.states sid st' ∧
    st'.pos + 1 = (s.state sid).pos ∧ (s'.states.getD y default).pos ≤ g.maxRhs)

theorem pres_pop {g : Grammar} {ok : Nat → Nat → Nat → Bool} {toks : List Nat} {c : Ctx} {s : St}
    (hc : CtxOK g ok toks c) (hg : GrOK g) {sid : Nat} {rest : List Nat} {frs : List Frame}
    (h0 : s.heap.getD nilId .nil = .nil) (h1 : s.heap.getD errId .nil = .err)
    (hst : s.stack = sid :: rest) (htop : TopOK g ok toks s.heap s.states (sid :: rest) frs)
    (hpos : (s.state sid).pos = 0) :
    Good g ok toks (step c s) ∧ (step c s).bad = s.bad ∧ StepShape g s (step c s) sid rest := by
  cases frs with
  | nil => simp [TopOK] at htop
  | cons fr frs =>
  simp only [TopOK] at htop
  have est : s.states.getD sid default = s.state sid := rfl
  rw [est] at htop
  obtain ⟨t1, t2, rl, pa, t3, t4, t5, _, t7, t8, tm⟩ := htop
  rw [hpos] at t7
  simp only [List.drop_zero, if_true] at t7
  have hnode : PT.ValidAt g toks (.node (s.state sid).rule fr.done) (.n rl.lhs) (s.state sid).orig fr.fin :=
    .node t3 rfl t7
  have hrule := hc.rule_eq t3
  split at tm
  · -- the state has an abstract node
    rename_i an han
    obtain ⟨m1, m2, m3, m4⟩ := tm
    rw [hpos] at m2
    have hstep := step_pop_some (c := c) hst hpos han
    obtain ⟨p1, p2, p3, p4⟩ := popFold_proj an (List.range (c.rule (s.state sid).rule).transLen)
      { s with stack := rest }
    simp only at p1 p2 p3 p4
    rw [← hstep] at p1 p2 p3 p4
    rw [hrule] at p1
    have p1' : (step c s).heap = fillNil s.heap an rl.transLen := p1
    have hden := owner_complete hg.twf t3 m2 m1 t8 (by rw [t7.length_eq])
    rw [← p1'] at hden
    obtain ⟨nm, ks, s1, s2, _⟩ := m2
    obtain ⟨f1, f2, _⟩ := fillNil_spec s2 (by omega) rl.transLen
    rw [← p1'] at f1 f2
    have hpalt := BelowOK.tgt_lt m4
    have hpage := BelowOK.tgt_ge m4
    simp only at hpalt hpage
    have hk : getKid (step c s).heap pa (s.state sid).parentDisp = some an := by
      unfold getKid at m3 ⊢
      rw [f2 pa (by omega)]; exact m3
    have hfin := BelowOK.pop_finish (h' := (step c s).heap) (cl := an) hg.twf m4
      (SlotFrame.of_agree _ (fun n hn => f2 n (by omega)) hpalt) (by omega) (Nat.le_of_lt t1) hk hden hnode
    refine ⟨⟨by rw [f2 _ (by simp [nilId, rootId] at *; omega)]; exact h0,
      by rw [f2 _ (by simp [errId, rootId] at *; omega)]; exact h1, ?_⟩, p4, Or.inl ⟨p3, p2, hpos⟩⟩
    rw [p2, p3]
    exact hfin
  · -- no abstract node: the translation is passed through
    rename_i han
    obtain ⟨⟨m1, m2, m3⟩, m4⟩ := tm
    rw [hpos] at m2 m3
    have hstep := step_pop_none (c := c) hst hpos han t5
    rw [hrule] at hstep
    have hpalt := BelowOK.tgt_lt m4
    have hpage := BelowOK.tgt_ge m4
    simp only at hpalt hpage
    by_cases hq : ∃ q d, rl.order.getD q none = some d
    · obtain ⟨q, d, hq⟩ := hq
      obtain ⟨cl, c1, c2⟩ := m2 q d (Nat.zero_le _) hq
      have hq' := order_getD_eq_some.mp hq
      have hok := Grammar.translWF_rule hg.twf t3
      have hd := hok.slot_lt _ _ hq'
      have htl : (rl.transLen == 0) = false := by simp; omega
      rw [htl] at hstep
      simp only [Bool.false_eq_true, if_false] at hstep
      have hql : q < fr.done.length := by
        rw [t7.length_eq, ← hok.len]; exact (List.getElem?_eq_some_iff.mp hq').1
      have hdq : fr.done[q]? = some (fr.done.getD q default) := by
        rw [List.getD_eq_getElem?_getD, List.getElem?_eq_getElem hql]; rfl
      have htr := (translate_passthrough hg.twf t3 m1 fr.done).1 q d _ hq' hdq
      simp only [Nat.sub_zero] at c2
      rw [← htr] at c2
      have hfin := BelowOK.pop_finish (h' := s.heap) (cl := cl) hg.twf m4
        (SlotFrame.of_agree _ (fun _ _ => rfl) hpalt) t8 (Nat.le_of_lt t1) c1 c2 hnode
      rw [hstep]
      exact ⟨⟨h0, h1, hfin⟩, rfl, Or.inl ⟨rfl, rfl, hpos⟩⟩
    · have hq' : ∀ q, rl.order.getD q none = none := by
        intro q
        cases hh : rl.order.getD q none with
        | none => rfl
        | some d => exact absurd ⟨q, d, hh⟩ hq
      have htl := hg.pass _ _ t3 m1 hq'
      rw [htl] at hstep
      simp only [beq_self_eq_true, if_true] at hstep
      have hnone := m3 (fun q _ => hq' q)
      obtain ⟨nm, cst, ks, v1, v2⟩ := BelowOK.tgt_valid hg.twf m4
      simp only at v1 v2 hnone
      obtain ⟨q1, q2, q3, q4⟩ := place_spec (node := nilId) v1 v2 (by omega) hnone
      have htr := (translate_passthrough hg.twf t3 m1 fr.done).2
        (fun p s' hp => by
          have := order_getD_eq_some.mpr hp
          rw [hq' p] at this; cases this)
      have hden : Den (placeTranslation s.heap (pa, (s.state sid).parentDisp) nilId)
          (placeTranslation s.heap (pa, (s.state sid).parentDisp) nilId).size
          (translate g (.node (s.state sid).rule fr.done)) fr.lo nilId := by
        rw [htr]; simp [Den]
      have hfin := BelowOK.pop_finish (cl := nilId) hg.twf m4
        (place_slotFrame (node := nilId) (hi := fr.lo) v1 v2 (by omega) hnone)
        (by rw [q1]; exact t8) (Nat.le_of_lt t1) q4 hden hnode
      rw [hstep]
      refine ⟨⟨?_, ?_, hfin⟩, rfl, Or.inl ⟨rfl, rfl, hpos⟩⟩
      · show (placeTranslation s.heap _ nilId).getD nilId .nil = .nil
        rw [q2 _ (by simp [nilId, rootId] at *; omega)]; exact h0
      · show (placeTranslation s.heap _ nilId).getD errId .nil = .err
        rw [q2 _ (by simp [errId, rootId] at *; omega)]; exact h1

/-- the top state moves its dot over one symbol whose derivation `kid` is known; if the symbol
is translated, the translation `node` has been put into the place of the state -/
theorem top_advance {g : Grammar} {ok : Nat → Nat → Nat → Bool} {toks : List Nat}
    {h h1 h' : Array MNode} {sts sts' : Array PState} (hwf : g.translWF = true)
    {sid : Nat} {rest : List Nat} {fr : Frame} {frs : List Frame} {st' : PState} {rl : Rule}
    {X : Sym} {kid : PT} {mid node pa : Nat}
    (htop : TopOK g ok toks h sts (sid :: rest) (fr :: frs))
    (hpos : (sts.getD sid default).pos ≠ 0)
    (hr : g.rules[(sts.getD sid default).rule]? = some rl)
    (hpa : (sts.getD (sts.getD sid default).parent default).anode = some pa)
    (hX : rl.rhs[(sts.getD sid default).pos - 1]? = some X)
    (hu : StsUpd sts sts' sid st')
    (e1 : st'.rule = (sts.getD sid default).rule) (e2 : st'.pos = (sts.getD sid default).pos - 1)
    (e3 : st'.orig = (sts.getD sid default).orig) (e4 : st'.parent = (sts.getD sid default).parent)
    (e5 : st'.parentDisp = (sts.getD sid default).parentDisp)
    (e6 : st'.anode = (sts.getD sid default).anode)
    (hkid : PT.ValidAt g toks kid X mid (sts.getD sid default).plInd)
    (hmid : EarleyF g ok toks mid ⟨st'.rule, st'.pos, st'.orig⟩)
    (hpl : st'.pos ≠ 0 → st'.plInd = mid)
    (hh1 : h.size ≤ h1.size ∧ ∀ m, m < h.size → h1.getD m .nil = h.getD m .nil)
    (hheap : (rl.order.getD ((sts.getD sid default).pos - 1) none = none ∧ h' = h) ∨
      ∃ d0, rl.order.getD ((sts.getD sid default).pos - 1) none = some d0 ∧
        h' = placeTranslation h1 (placeOf (sts.getD sid default) pa d0) node ∧
        ∀ h'' : Array MNode, h''.size = h1.size → (placeOf (sts.getD sid default) pa d0).1 < h.size →
          fr.lo ≤ h.size →
          (∀ m, m ≠ (placeOf (sts.getD sid default) pa d0).1 → h''.getD m .nil = h1.getD m .nil) →
          Den h'' h''.size (translate g kid) fr.lo node) :
    TopOK g ok toks h' sts' (sid :: rest) ({ fr with done := kid :: fr.done } :: frs) ∧
    h'.getD nilId .nil = h.getD nilId .nil ∧ h'.getD errId .nil = h.getD errId .nil := by
  simp only [TopOK] at htop
  obtain ⟨t1, t2, rl', pa', t3, t4, t5, t6, t7, t8, tm⟩ := htop
  rw [hr] at t3; injection t3 with t3; subst t3
  rw [hpa] at t5; injection t5 with t5; subst t5
  have hok := Grammar.translWF_rule hwf hr
  have hposlt : (sts.getD sid default).pos - 1 < rl.rhs.length := (List.getElem?_eq_some_iff.mp hX).1
  have hpp : (sts.getD sid default).pos - 1 + 1 = (sts.getD sid default).pos := by omega
  rw [if_neg hpos] at t7
  -- the index arithmetic for the processed positions
  have hshift : ∀ q, (sts.getD sid default).pos ≤ q →
      (kid :: fr.done).getD (q - ((sts.getD sid default).pos - 1)) default =
        fr.done.getD (q - (sts.getD sid default).pos) default := by
    intro q hq
    have : q - ((sts.getD sid default).pos - 1) = (q - (sts.getD sid default).pos) + 1 := by omega
    rw [this]; rfl
  have hcur : (if st'.pos = 0 then st'.orig else st'.plInd) = mid := by
    by_cases hp0 : st'.pos = 0
    · rw [if_pos hp0]
      rw [hp0] at hmid
      exact hmid.dot_zero
    · rw [if_neg hp0]; exact hpl hp0
  have hvalid : PT.ValidListAt g toks (kid :: fr.done) (rl.rhs.drop st'.pos)
      (if st'.pos = 0 then st'.orig else st'.plInd) fr.fin := by
    rw [hcur, e2, drop_of_getElem? hX, hpp]
    exact .cons hkid t7
  have hsame := hu.same
  have hpar : sts'.getD st'.parent default = sts.getD (sts.getD sid default).parent default := by
    rw [e4]; exact hu.other _ t2
  have hr' : g.rules[st'.rule]? = some rl := by rw [e1]; exact hr
  have hsz : sid < sts'.size := by have := hu.size; omega
  have hear : st'.pos ≠ 0 → EarleyF g ok toks st'.plInd ⟨st'.rule, st'.pos, st'.orig⟩ := by
    intro hp; rw [hpl hp]; exact hmid
  have hbelow : ∀ {h2 : Array MNode} {hi : Nat} {tgt : Nat × Nat},
      BelowOK g ok toks h sts rest frs hi sid tgt rl.lhs (sts.getD sid default).orig fr.fin →
      SlotFrame h h2 hi tgt →
      BelowOK g ok toks h2 sts' rest frs hi sid tgt rl.lhs st'.orig fr.fin := by
    intro h2 hi tgt hb hf
    rw [e3]
    exact hb.frame hf hu.other
  rcases hheap with ⟨hnone, rfl⟩ | ⟨d0, hd0, rfl, hden⟩
  · -- the symbol is not translated
    refine ⟨?_, rfl, rfl⟩
    simp only [TopOK]
    rw [hsame, hpar]
    refine ⟨hsz, by rw [e4]; exact t2, rl, pa, hr', by rw [e2]; omega, hpa, hear, hvalid, t8, ?_⟩
    rw [e6, e5]
    split at tm
    · rename_i an han
      obtain ⟨m1, m2, m3, m4⟩ := tm
      refine ⟨m1, ?_, m3, hbelow m4 (SlotFrame.of_agree _ (fun _ _ => rfl) (BelowOK.tgt_lt m4))⟩
      obtain ⟨nm, ks, s1, s2, s3, s4⟩ := m2
      refine ⟨nm, ks, s1, s2, s3, ?_⟩
      intro d hd
      obtain ⟨c1, c2⟩ := s4 d hd
      rw [e2]
      refine ⟨?_, ?_⟩
      · intro q hq1 hq2
        have hqne : q ≠ (sts.getD sid default).pos - 1 := by
          intro e; rw [e, hnone] at hq2; cases hq2
        obtain ⟨cl, c3, c4⟩ := c1 q (by omega) hq2
        exact ⟨cl, c3, by rw [hshift q (by omega)]; exact c4⟩
      · intro hno
        exact c2 (fun q hq => hno q (by omega))
    · rename_i han
      obtain ⟨⟨m1, m2, m3⟩, m4⟩ := tm
      refine ⟨⟨m1, ?_, ?_⟩, hbelow m4 (SlotFrame.of_agree _ (fun _ _ => rfl) (BelowOK.tgt_lt m4))⟩
      · intro q d hq1 hq2
        rw [e2] at hq1 ⊢
        have hqne : q ≠ (sts.getD sid default).pos - 1 := by
          intro e; rw [e, hnone] at hq2; cases hq2
        obtain ⟨cl, c3, c4⟩ := m2 q d (by omega) hq2
        exact ⟨cl, c3, by rw [hshift q (by omega)]; exact c4⟩
      · intro hno
        rw [e2] at hno
        exact m3 (fun q hq => hno q (by omega))
  · -- the symbol is translated into the place of the state
    have hd0' := order_getD_eq_some.mp hd0
    have hslot := hok.slot_lt _ _ hd0'
    split at tm
    · rename_i an han
      obtain ⟨m1, m2, m3, m4⟩ := tm
      have hpalt := BelowOK.tgt_lt m4
      have hpage := BelowOK.tgt_ge m4
      simp only at hpalt hpage
      have hpage2 : 2 ≤ pa := hpage
      have hplace : placeOf (sts.getD sid default) pa d0 = (an, d0) := by
        unfold placeOf; rw [han]
      rw [hplace] at hden ⊢
      obtain ⟨nm, ks, s1, s2, s3, s4⟩ := m2
      have hcell1 : h1.getD an .nil = .anode nm rl.cost ks := by rw [hh1.2 an (by omega)]; exact s2
      have hnone : ks.getD d0 none = none := by
        refine (s4 d0 (by simp)).2 ?_
        intro q hq1 hq2
        have := hok.inj _ _ _ (order_getD_eq_some.mp hq2) hd0'
        omega
      have hk1 : getKid h1 an d0 = none := by rw [getKid_of_cell hcell1]; exact hnone
      obtain ⟨q1, q2, q3, q4⟩ := place_spec (node := node) hcell1 (by omega) (by omega) hk1
      have hden' := hden _ q1 (by omega) t8 q2
      have hag : AgreeOn h (placeTranslation h1 (an, d0) node) fr.lo h.size := by
        intro m hm1 hm2
        rw [q2 m (by omega), hh1.2 m hm2]
      have hsize : h.size ≤ (placeTranslation h1 (an, d0) node).size := by rw [q1]; exact hh1.1
      refine ⟨?_, ?_, ?_⟩
      · simp only [TopOK]
        rw [hsame, hpar]
        refine ⟨hsz, by rw [e4]; exact t2, rl, pa, hr', by rw [e2]; omega, hpa, hear, hvalid,
          by rw [q1]; omega, ?_⟩
        rw [e6, e5, han]
        simp only
        refine ⟨m1, ?_, ?_, ?_⟩
        · refine ⟨nm, ks.set! d0 (some node), s1, q3, by simp [s3], ?_⟩
          intro d _
          rw [e2, getD_set!]
          by_cases hdd : d = d0
          · subst hdd
            rw [if_pos ⟨rfl, by omega⟩]
            refine ⟨?_, ?_⟩
            · intro q hq1 hq2
              have hqp := hok.inj _ _ _ (order_getD_eq_some.mp hq2) hd0'
              subst hqp
              refine ⟨node, rfl, ?_⟩
              simp only [Nat.sub_self, List.getD_cons_zero]
              exact hden'
            · intro hno
              exact absurd hd0 (hno _ (Nat.le_refl _))
          · rw [if_neg (fun hh => hdd hh.1.symm)]
            obtain ⟨c1, c2⟩ := s4 d (by simp)
            refine ⟨?_, ?_⟩
            · intro q hq1 hq2
              have hqne : q ≠ (sts.getD sid default).pos - 1 := by
                intro e; rw [e, hd0] at hq2; injection hq2 with hq2; exact hdd hq2.symm
              obtain ⟨cl, c3, c4⟩ := c1 q (by omega) hq2
              refine ⟨cl, c3, ?_⟩
              rw [hshift q (by omega)]
              exact Den.frame hsize _ _ _ _ (Nat.le_refl _) hag c4
            · intro hno
              exact c2 (fun q hq => hno q (by omega))
        · unfold getKid at m3 ⊢
          rw [q2 pa (by omega), hh1.2 pa (by omega)]; exact m3
        · refine hbelow m4 (SlotFrame.of_agree _ (fun n hn => ?_) hpalt)
          rw [q2 n (by omega), hh1.2 n (by omega)]
      · rw [q2 _ (by show 0 ≠ _; omega), hh1.2 _ (by show 0 < _; omega)]
      · rw [q2 _ (by show 1 ≠ _; omega), hh1.2 _ (by show 1 < _; omega)]
    · rename_i han
      obtain ⟨⟨m1, m2, m3⟩, m4⟩ := tm
      have hpalt := BelowOK.tgt_lt m4
      have hpage := BelowOK.tgt_ge m4
      simp only at hpalt hpage
      have hpage2 : 2 ≤ pa := hpage
      have hplace : placeOf (sts.getD sid default) pa d0 = (pa, (sts.getD sid default).parentDisp) := by
        unfold placeOf; rw [han]
      rw [hplace] at hden ⊢
      obtain ⟨nm, cst, ks, v1, v2⟩ := BelowOK.tgt_valid hwf m4
      simp only at v1 v2
      have hcell1 : h1.getD pa .nil = .anode nm cst ks := by rw [hh1.2 pa (by omega)]; exact v1
      have hnone : getKid h pa (sts.getD sid default).parentDisp = none := by
        refine m3 ?_
        intro q hq1
        cases hh : rl.order.getD q none with
        | none => rfl
        | some d =>
          have := hok.single m1 _ _ _ _ (order_getD_eq_some.mp hh) hd0'
          omega
      have hk1 : getKid h1 pa (sts.getD sid default).parentDisp = none := by
        rw [getKid_of_cell hcell1, ← getKid_of_cell v1]; exact hnone
      obtain ⟨q1, q2, q3, q4⟩ := place_spec (node := node) hcell1 v2 (by omega) hk1
      have hden' := hden _ q1 (by omega) t8 q2
      refine ⟨?_, ?_, ?_⟩
      · simp only [TopOK]
        rw [hsame, hpar]
        refine ⟨hsz, by rw [e4]; exact t2, rl, pa, hr', by rw [e2]; omega, hpa, hear, hvalid,
          by rw [q1]; omega, ?_⟩
        rw [e6, e5, han]
        simp only
        refine ⟨⟨m1, ?_, ?_⟩, ?_⟩
        · intro q d hq1 hq2
          have hqp := hok.single m1 _ _ _ _ (order_getD_eq_some.mp hq2) hd0'
          rw [e2] at hq1 ⊢
          subst hqp
          refine ⟨node, q4, ?_⟩
          simp only [Nat.sub_self, List.getD_cons_zero]
          exact hden'
        · intro hno
          rw [e2] at hno
          rw [hno _ (Nat.le_refl _)] at hd0; cases hd0
        · refine hbelow m4 (SlotFrame.trans (h' := h1) ?_ ?_)
          · exact SlotFrame.of_agree _ (fun n hn => hh1.2 n (by omega)) hpalt
          · exact place_slotFrame hcell1 v2 (by omega) hk1
      · rw [q2 _ (by show 0 ≠ _; omega), hh1.2 _ (by show 0 < _; omega)]
      · rw [q2 _ (by show 1 ≠ _; omega), hh1.2 _ (by show 1 < _; omega)]

theorem getD_of_getElem? {α : Type} {l : List α} {p : Nat} {x d : α} (h : l[p]? = some x) :
    l.getD p d = x := by
  rw [List.getD_eq_getElem?_getD, h]; rfl

theorem pres_term {g : Grammar} {ok : Nat → Nat → Nat → Bool} {toks : List Nat} {c : Ctx} {s : St}
    (hc : CtxOK g ok toks c) (hg : GrOK g) {sid : Nat} {rest : List Nat} {frs : List Frame}
    (h0 : s.heap.getD nilId .nil = .nil) (h1 : s.heap.getD errId .nil = .err)
    (hst : s.stack = sid :: rest) (htop : TopOK g ok toks s.heap s.states (sid :: rest) frs)
    (hpos : (s.state sid).pos ≠ 0) {rl : Rule} {a : Nat}
    (hr : g.rules[(s.state sid).rule]? = some rl)
    (hX : rl.rhs[(s.state sid).pos - 1]? = some (.t a)) :
    Good g ok toks (step c s) ∧ (s.bad = false → (step c s).bad = false) ∧
      StepShape g s (step c s) sid rest := by
  cases frs with
  | nil => simp [TopOK] at htop
  | cons fr frs =>
  have htop' := htop
  simp only [TopOK] at htop'
  have est : s.states.getD sid default = s.state sid := rfl
  rw [est] at htop'
  obtain ⟨t1, t2, rl', pa, t3, t4, t5, t6, _, t8, _⟩ := htop'
  rw [hr] at t3; injection t3 with t3; subst t3
  have hrule := hc.rule_eq hr
  have hstep := step_term (c := c) (a := a) hst hpos (by rw [hrule]; exact getD_of_getElem? hX)
  have t5' : (s.state (s.state sid).parent).anode = some pa := t5
  rw [t5', hrule] at hstep
  obtain ⟨p1, p2, _, p4⟩ := stepTerm_proj (c := c) (sid := sid) (st := s.state sid)
    (pos := (s.state sid).pos - 1) (disp := rl.order.getD ((s.state sid).pos - 1) none) (a := a)
    (pa := pa) (s := s) hc.one
  rw [← hstep] at p1 p2 p4
  have hpp : (s.state sid).pos - 1 + 1 = (s.state sid).pos := by omega
  have hear := t6 hpos
  rw [← hpp] at hear
  obtain ⟨j0, hj0, hw, hear0⟩ := hear.term_inv hr hX
  have hjle := (t6 hpos).le_length
  have hadv := top_advance (h := s.heap) (sts := s.states) (sts' := (step c s).states)
    (h' := (step c s).heap)
    (h1 := if a == c.errT then s.heap else s.heap.push (.term (c.termCodes.getD a 0)
      (c.plToks.getD ((s.state sid).plInd - 1 + 1) (-1))))
    (node := if a == c.errT then errId else s.heap.size)
    (st' := { s.state sid with pos := (s.state sid).pos - 1,
                               plInd := if (s.state sid).pos - 1 != 0 then (s.state sid).plInd - 1
                                        else (s.state sid).plInd })
    (kid := .leaf a j0) (mid := j0) (X := .t a) hg.twf htop hpos hr t5 hX
    (by rw [p1]; exact StsUpd.set _ t1) rfl rfl rfl rfl rfl rfl
    (by rw [est, hj0]; exact .leaf hw) hear0
    (by intro hp
        have hp' : ((s.state sid).pos - 1 != 0) = true := by simpa using hp
        simp only [hp', if_true]; omega)
    (by split
        · exact ⟨Nat.le_refl _, fun _ _ => rfl⟩
        · exact ⟨by simp, fun m hm => getD_push_lt _ _ _ _ hm⟩)
    (by
      rw [est, p4]
      cases hd : rl.order.getD ((s.state sid).pos - 1) none with
      | none => exact Or.inl ⟨rfl, rfl⟩
      | some d =>
        right
        refine ⟨d, rfl, ?_, ?_⟩
        · simp only
          split <;> rfl
        · intro h'' hs1 hs2 hs3 hs4
          by_cases he : (a == c.errT) = true
          · have hae : a = g.errT := by rw [← hc.errT]; simpa using he
            simp only [he, if_true]
            rw [hae, translate_leaf_error]
            simp [Den]
          · have hae : a ≠ g.errT := by rw [← hc.errT]; simpa using he
            have he' : (a == c.errT) = false := by simpa using he
            simp only [he', Bool.false_eq_true, if_false] at hs1 hs4 ⊢
            rw [translate_leaf hae]
            simp only [Den]
            refine ⟨hs3, by rw [hs1]; simp, ?_⟩
            rw [hs4 _ (by omega), getD_push_eq]
            have e1 : c.termCodes.getD a 0 = g.termCodes.getD a 0 := by
              rw [hc.codes, Array.getD_eq_getD_getElem?, List.getElem?_toArray,
                List.getD_eq_getElem?_getD]
            have e2 : c.plToks.getD ((s.state sid).plInd - 1 + 1) (-1) = (j0 : Int) := by
              rw [hj0]
              simp only [Nat.add_sub_cancel]
              rw [hc.ptoks (j0 + 1) (by omega) (by omega)]
              omega
            rw [e1, e2])
  obtain ⟨a1, a2, a3⟩ := hadv
  refine ⟨⟨by rw [a2]; exact h0, by rw [a3]; exact h1,
    Or.inr ⟨{ fr with done := .leaf a j0 :: fr.done } :: frs, by rw [p2, hst]; exact a1⟩⟩, ?_,
    Or.inr (Or.inl ⟨_, by rw [p2, hst], by rw [p1]; exact StsUpd.set _ t1, by simp only; omega⟩)⟩
  intro hb
  rw [hstep]
  refine stepTerm_bad_false hc.one hb (by omega) ?_
  rw [hj0]
  simp only [Nat.add_sub_cancel]
  rw [hc.ptoks (j0 + 1) (by omega) (by omega)]
  omega

/-- the top state starts waiting for a child that derives the nonterminal before its dot: it
satisfies `BelowOK` for the new heap (which may differ in the slot the child delivers to and above
the old heap size); that slot is empty in the old heap -/
theorem top_to_below {g : Grammar} {ok : Nat → Nat → Nat → Bool} {toks : List Nat}
    {h h' : Array MNode} {sts sts' : Array PState} (hwf : g.translWF = true)
    {sid : Nat} {rest : List Nat} {fr : Frame} {frs : List Frame} {st' : PState} {rl : Rule}
    {A d mid pa sb : Nat}
    (htop : TopOK g ok toks h sts (sid :: rest) (fr :: frs))
    (hpos : (sts.getD sid default).pos ≠ 0)
    (hr : g.rules[(sts.getD sid default).rule]? = some rl)
    (hpa : (sts.getD (sts.getD sid default).parent default).anode = some pa)
    (hX : rl.rhs[(sts.getD sid default).pos - 1]? = some (.n A))
    (hd : rl.order.getD ((sts.getD sid default).pos - 1) none = some d)
    (hu : StsUpd sts sts' sid st')
    (e1 : st'.rule = (sts.getD sid default).rule) (e2 : st'.pos = (sts.getD sid default).pos - 1)
    (e3 : st'.orig = (sts.getD sid default).orig) (e4 : st'.parent = (sts.getD sid default).parent)
    (e5 : st'.parentDisp = (sts.getD sid default).parentDisp)
    (e6 : st'.anode = (sts.getD sid default).anode)
    (hpl : st'.plInd = mid)
    (hmid : EarleyF g ok toks mid ⟨st'.rule, st'.pos, st'.orig⟩)
    (hsb : sid < sb) :
    (SlotFrame h h' h.size (placeOf (sts.getD sid default) pa d) →
      BelowOK g ok toks h' sts' (sid :: rest) (fr :: frs) h.size sb
        (placeOf (sts.getD sid default) pa d) A mid (sts.getD sid default).plInd) ∧
    getKid h (placeOf (sts.getD sid default) pa d).1 (placeOf (sts.getD sid default) pa d).2 = none ∧
    (placeOf (sts.getD sid default) pa d).1 < h.size ∧
    rootId ≤ (placeOf (sts.getD sid default) pa d).1 ∧
    (∃ nm c ks, h.getD (placeOf (sts.getD sid default) pa d).1 .nil = .anode nm c ks ∧
      (placeOf (sts.getD sid default) pa d).2 < ks.size) ∧
    (sts'.getD st'.parent default).anode = some pa := by
  simp only [TopOK] at htop
  obtain ⟨t1, t2, rl', pa', t3, t4, t5, t6, t7, t8, tm⟩ := htop
  rw [hr] at t3; injection t3 with t3; subst t3
  rw [hpa] at t5; injection t5 with t5; subst t5
  have hok := Grammar.translWF_rule hwf hr
  have hd' := order_getD_eq_some.mp hd
  have hslot := hok.slot_lt _ _ hd'
  have hpp : (sts.getD sid default).pos - 1 + 1 = (sts.getD sid default).pos := by omega
  rw [if_neg hpos] at t7
  have hpar : sts'.getD st'.parent default = sts.getD (sts.getD sid default).parent default := by
    rw [e4]; exact hu.other _ t2
  split at tm
  · rename_i an han
    obtain ⟨m1, m2, m3, m4⟩ := tm
    have hpalt := BelowOK.tgt_lt m4
    have hpage := BelowOK.tgt_ge m4
    simp only at hpalt hpage
    have hpage2 : 2 ≤ pa := hpage
    have hplace : placeOf (sts.getD sid default) pa d = (an, d) := by unfold placeOf; rw [han]
    rw [hplace]
    obtain ⟨nm, ks, s1, s2, s3, s4⟩ := m2
    have hnone : ks.getD d none = none := by
      refine (s4 d (by simp)).2 ?_
      intro q hq1 hq2
      have := hok.inj _ _ _ (order_getD_eq_some.mp hq2) hd'
      omega
    refine ⟨?_, by rw [getKid_of_cell s2]; exact hnone, by simp only; omega,
      by show 2 ≤ an; omega, ⟨nm, _, ks, s2, by simp only; omega⟩, by rw [hpar]; exact hpa⟩
    intro hf
    simp only [BelowOK]
    rw [hu.same, e6, han]
    refine ⟨hsb, by rw [e4]; exact t2, rl, d, pa, by rw [e1]; exact hr, by rw [e2]; exact hX,
      by rw [e2]; exact hd, hpl, hmid, by rw [e2, hpp]; exact t7, by rw [hpar]; exact hpa, ?_⟩
    simp only
    refine ⟨trivial, m1, t8, ?_, ?_, ?_⟩
    · rw [e2, hpp]
      refine SlotsOK.frame ⟨nm, ks, s1, s2, s3, s4⟩ (fun _ _ => by simp) (Nat.le_refl _)
        (hf.agreeOn (by simpa using m1) (Nat.le_refl _)) ?_
      intro nm' c' ks' hc'
      obtain ⟨ks'', k1, k2, k3⟩ := hf.2 nm' c' ks' hc'
      exact ⟨ks'', k1, k2, fun d' hd'' => k3 d' (by intro e; exact hd'' (by simp [e]))⟩
    · rw [e5]
      unfold getKid at m3 ⊢
      rw [hf.1 pa (by omega) (by simp only; omega)]; exact m3
    · rw [e5, e3]
      refine m4.frame (SlotFrame.of_agree _ (fun n hn => hf.1 n (by omega) (by simp only; omega)) hpalt)
        hu.other
  · rename_i han
    obtain ⟨⟨m1, m2, m3⟩, m4⟩ := tm
    have hpalt := BelowOK.tgt_lt m4
    have hpage := BelowOK.tgt_ge m4
    simp only at hpalt hpage
    have hplace : placeOf (sts.getD sid default) pa d = (pa, (sts.getD sid default).parentDisp) := by
      unfold placeOf; rw [han]
    rw [hplace]
    have hnone : getKid h pa (sts.getD sid default).parentDisp = none := by
      refine m3 ?_
      intro q hq1
      cases hh : rl.order.getD q none with
      | none => rfl
      | some d1 =>
        have := hok.single m1 _ _ _ _ (order_getD_eq_some.mp hh) hd'
        omega
    refine ⟨?_, hnone, by simp only; omega, hpage, BelowOK.tgt_valid hwf m4, by rw [hpar]; exact hpa⟩
    intro hf
    simp only [BelowOK]
    rw [hu.same, e6, han]
    refine ⟨hsb, by rw [e4]; exact t2, rl, d, pa, by rw [e1]; exact hr, by rw [e2]; exact hX,
      by rw [e2]; exact hd, hpl, hmid, by rw [e2, hpp]; exact t7, by rw [hpar]; exact hpa, ?_⟩
    simp only
    rw [e5, e3]
    exact ⟨m1, rfl, t8, m4.frame (hf.mono t8) hu.other⟩

/-! ## nonterminal before the dot -/

/-- the state after `pos = --state->pos` -/
def ntS0 (s : St) (sid : Nat) : St :=
  s.setState sid { s.state sid with pos := (s.state sid).pos - 1 }

/-- the local variables of `make_parse` while the reduces of `A` are tried -/
def ntLoc (c : Ctx) (s : St) (sid A : Nat) : Loc :=
  { origSid := sid, rule := (s.state sid).rule, pos := (s.state sid).pos - 1,
    disp := (c.rule (s.state sid).rule).order.getD ((s.state sid).pos - 1) none,
    plInd := (s.state sid).plInd, orig := (s.state sid).orig,
    parentAnode := (s.state (s.state sid).parent).anode,
    parentDisp := (s.state sid).parentDisp, A := A }

theorem step_nt' {c : Ctx} {s : St} {sid : Nat} {rest : List Nat} {A : Nat}
    (hst : s.stack = sid :: rest) (hpos : (s.state sid).pos ≠ 0)
    (hsym : (c.rule (s.state sid).rule).rhs.getD ((s.state sid).pos - 1) (.t 0) = .n A) :
    step c s =
      if (candLoop c (ntLoc c s sid A) (c.sets.getD (s.state sid).plInd #[])
          (reduces c (c.sets.getD (s.state sid).plInd #[]) A) 0 [] (ntS0 s sid)).2 == 0
      then { (candLoop c (ntLoc c s sid A) (c.sets.getD (s.state sid).plInd #[])
          (reduces c (c.sets.getD (s.state sid).plInd #[]) A) 0 [] (ntS0 s sid)).1 with bad := true }
      else (candLoop c (ntLoc c s sid A) (c.sets.getD (s.state sid).plInd #[])
          (reduces c (c.sets.getD (s.state sid).plInd #[]) A) 0 [] (ntS0 s sid)).1 :=
  step_nt hst hpos hsym

theorem mem_reduces {c : Ctx} {set : Array Item} {A i : Nat} (h : i ∈ reduces c set A) :
    i < set.size ∧ (set.getD i default).dot = (c.rule (set.getD i default).rule).rhs.length ∧
      (c.rule (set.getD i default).rule).lhs = A := by
  unfold reduces at h
  rw [List.mem_filter, List.mem_range] at h
  obtain ⟨h1, h2⟩ := h
  simp only [Bool.and_eq_true, beq_iff_eq] at h2
  exact ⟨h1, h2.1, h2.2⟩

theorem checkFound_spec {c : Ctx} {L : Loc} {o : Nat} (h : checkFound c L o = true) :
    ∃ ci, ci < (c.sets.getD o #[]).size ∧
      (c.sets.getD o #[]).getD ci default = ⟨L.rule, L.pos, L.orig⟩ := by
  unfold checkFound at h
  simp only [List.any_eq_true, Bool.and_eq_true, beq_iff_eq] at h
  obtain ⟨ci, h1, ⟨h2, h3⟩, h4⟩ := h
  unfold transitions at h1
  rw [List.mem_filter, List.mem_range] at h1
  refine ⟨ci, h1.1, ?_⟩
  rw [← h2, ← h3, ← h4]

theorem StsUpd.trans {sts sts1 sts2 : Array PState} {sid : Nat} {x y : PState}
    (h1 : StsUpd sts sts1 sid x) (h2 : StsUpd sts1 sts2 sid y) : StsUpd sts sts2 sid y :=
  ⟨Nat.le_trans h1.size h2.size, fun i hi => by rw [h2.other i hi, h1.other i hi], h2.same⟩

end Yaep.MP
