import Yaep.Lemmas.MakeParseFlagMain
import Yaep.Lemmas.MakeParseSoundPL
/-!
# The ambiguity flag of `make_parse`, part 7: the parse list of `build_pl`

The hypotheses of `makeParse_one_unamb_ctx` hold for the parse list of `BS.buildPLC`: the sets are
exactly the Earley sets (`ctxOKc_plSets`), the lookahead filter keeps the items of derivations
(`okDer_laFilter`), and in a well-formed grammar every derivation of an input without `error`
token starts with rule 0.
-/
namespace Yaep
open Yaep

/-- the rule `$S : error $eof` derives only the input `error` -/
theorem error_rule_valid {g : Grammar} {w : List Nat} {ks : List PT}
    (h : PT.ValidListAt g (w ++ [g.eofT]) ks [Sym.t g.errT, Sym.t g.eofT] 0 (w ++ [g.eofT]).length) :
    g.errT ∈ w := by
  cases h with
  | cons h1 h2 =>
    cases h1 with
    | leaf hw0 =>
      cases h2 with
      | cons h3 h4 =>
        cases h3 with
        | leaf hw1 =>
          have hj := (MP.ValidListAt.nil_inv h4).2
          have hlen : w.length = 1 := by
            simp only [List.length_append, List.length_cons, List.length_nil] at hj
            omega
          cases w with
          | nil => simp at hlen
          | cons a w' =>
            simp only [List.cons_append, List.getElem?_cons_zero, Option.some.injEq] at hw0
            rw [hw0]; exact List.mem_cons_self

/-- in a well-formed grammar all derivations of an input without `error` token start with rule 0 -/
theorem rootUniq_of_wf {g : Grammar} (hwf : g.WF) {w : List Nat} (htok : g.errT ∉ w) :
    MP.RootUniq g (w ++ [g.eofT]) := by
  have key : ∀ (r : Nat) (rl : Rule) (k : List PT), g.rules[r]? = some rl → rl.lhs = g.axiomN →
      PT.ValidListAt g (w ++ [g.eofT]) k rl.rhs 0 (w ++ [g.eofT]).length → r = 0 := by
    intro r rl k hr hl hk
    obtain ⟨hlt, he⟩ := List.getElem?_eq_some_iff.mp hr
    rcases hwf.2.1 r hlt (by rw [he]; exact hl) with h0 | herr
    · exact h0
    · rw [he] at herr
      rw [herr] at hk
      exact absurd (error_rule_valid hk) htok
  intro r1 r2 rl1 rl2 k1 k2 h1 h2 l1 l2 v1 v2
  rw [key r1 rl1 k1 h1 l1 v1, key r2 rl2 k2 h2 l2 v2]

end Yaep
