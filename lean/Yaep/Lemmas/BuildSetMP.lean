import Yaep.Lemmas.BuildSet
import Yaep.Model.MakeParse
/-!
# The vectors of a core are the `transitions` / `reduces` that `Model/MakeParse.lean` assumes
-/
namespace Yaep.BS
open Yaep

theorem mkCtx_after (g : Grammar) (sets : Array (Array Item)) (plToks : Array Int) (one : Bool)
    (it : Item) : (MP.mkCtx g sets plToks one).after it = g.nextSym it.rule it.dot := by
  unfold MP.Ctx.after MP.Ctx.rule MP.mkCtx Grammar.nextSym
  simp only [Array.getD_eq_getD_getElem?, List.getElem?_toArray]
  cases g.rules[it.rule]? with
  | none => rfl
  | some rl => rfl

theorem items_length (cs : CSet) (j : Nat) : (cs.items j).length = cs.core.sits.length := by
  unfold CSet.items; simp

theorem items_getD (cs : CSet) (j i : Nat) (hi : i < cs.core.sits.length) :
    (cs.items j).getD i default =
      ⟨(cs.core.sits.getD i default).1, (cs.core.sits.getD i default).2, cs.originOf j i⟩ := by
  unfold CSet.items
  rw [List.getD_eq_getElem?_getD, List.getElem?_map, List.getElem?_range hi]; rfl

/-- `MP.transitions` of the set as `make_parse` sees it is the `filt` of the core -/
theorem mp_transitions_eq_filt (g : Grammar) (sets : Array (Array Item)) (plToks : Array Int)
    (one : Bool) (cs : CSet) (j : Nat) (X : Sym) :
    MP.transitions (MP.mkCtx g sets plToks one) (cs.items j).toArray X =
      filt g cs.core.sits cs.core.sits.length X := by
  unfold MP.transitions filt
  simp only [List.size_toArray, items_length]
  apply List.filter_congr
  intro i hi
  have hi' := List.mem_range.mp hi
  simp only [Array.getD_eq_getD_getElem?, List.getElem?_toArray]
  rw [← List.getD_eq_getElem?_getD, items_getD cs j i hi', mkCtx_after]
  rfl

/-- the same for the reduce vectors; here every situation must belong to an existing rule
(`MP.Ctx.rule` reads a default rule for a rule number out of range) -/
theorem mp_reduces_eq_rfilt (g : Grammar) (sets : Array (Array Item)) (plToks : Array Int)
    (one : Bool) (cs : CSet) (j : Nat) (A : Nat) (hv : ∀ sit ∈ cs.core.sits, ValidSit g sit) :
    MP.reduces (MP.mkCtx g sets plToks one) (cs.items j).toArray A =
      rfilt g cs.core.sits cs.core.sits.length A := by
  unfold MP.reduces rfilt
  simp only [List.size_toArray, items_length]
  apply List.filter_congr
  intro i hi
  have hi' := List.mem_range.mp hi
  simp only [Array.getD_eq_getD_getElem?, List.getElem?_toArray]
  rw [← List.getD_eq_getElem?_getD, items_getD cs j i hi']
  have hmem : cs.core.sits.getD i default ∈ cs.core.sits := by
    rw [List.getD_eq_getElem?_getD, List.getElem?_eq_getElem hi']
    exact List.getElem_mem hi'
  obtain ⟨rl, hrl, _⟩ := hv _ hmem
  unfold redOf MP.Ctx.rule MP.mkCtx
  generalize cs.core.sits.getD i default = sit at hrl
  simp only [Array.getD_eq_getD_getElem?, List.getElem?_toArray, hrl, Option.getD_some]
  by_cases h : sit.2 = rl.rhs.length <;> simp [h]

end Yaep.BS
