import Yaep.Generated
/-!
# C16: the C++ class is the C interface applied to the object's grammar

`Yaep.Generated.cxxMethods` is regenerated from `/repo/src/yaep.cpp` on every run
(`tools/extract_consts.py`): for every method of `class yaep` its parameter names, the function
its single statement calls and the argument expressions.  The theorems say that every method
is *pure forwarding*: one statement, calling the C function of the same name, with the
object's grammar followed by the method's own parameters in their order (`free_tree` has no
grammar argument; the constructor stores `yaep_create_grammar ()`, the destructor frees).
Together with `yaep.cpp` including `yaep.c` itself (same code, compiled as C++), the C++
behaviour is the behaviour of the C functions that the other properties describe; the C++
containers are covered by C19, the compiled difference by the C-vs-C++ stream comparison.
-/
namespace Yaep

/-- what a forwarding method of `class yaep` has to look like -/
def expectedForward (method : String) (params : List String) : String × List String :=
  if method == "yaep" then ("this->grammar = yaep_create_grammar", [])
  else if method == "~yaep" then ("yaep_free_grammar", ["this->grammar"])
  else if method == "free_tree" then ("yaep_free_tree", params)
  else ("yaep_" ++ method, "this->grammar" :: params)

def forwardsOk (m : String × List String × String × List String × Nat) : Bool :=
  let (method, params, callee, args, nstmts) := m
  nstmts == 1 && (callee, args) == expectedForward method params && params.Nodup

/-- every method of the C++ class is one forwarding call with its own parameters, in order -/
theorem cxx_methods_forward : ∀ m ∈ Generated.cxxMethods, forwardsOk m = true := by decide

/-- the class offers exactly the operations of the C interface (and nothing that bypasses it) -/
theorem cxx_methods_complete :
    Generated.cxxMethods.map (·.1) =
      ["yaep", "~yaep", "error_code", "error_message", "read_grammar", "parse_grammar",
       "set_lookahead_level", "set_debug_level", "set_one_parse_flag", "set_cost_flag",
       "set_error_recovery_flag", "set_recovery_match", "parse", "free_tree"] := by decide

/-- the parse method hands over all six caller arguments, the free method all three -/
theorem cxx_parse_arity :
    (Generated.cxxMethods.find? (·.1 == "parse")).map (fun m => m.2.1.length) = some 6 ∧
    (Generated.cxxMethods.find? (·.1 == "free_tree")).map (fun m => m.2.1.length) = some 3 := by decide

end Yaep
