import Yaep.Lemmas.Containers
/-!
# Property C19 — the containers keep their abstract contents

Only the property theorems and one concrete instance after each.  All theorems quantify over
ALL operation sequences (`ops : List Op`), all initial sizes and, for the hash table, all hash
functions.  They are statements about the models `Yaep.Model.{HashTab,ObjStack,Vlo}`
(`cxx = false`, i.e. `hashtab.c`); the correspondence of the models with the C and C++ code is
established by the judge (`Yaep/Driver/Containers.lean`).
-/
namespace Yaep.Props.C19
open Yaep.Model

/-! ## hash table -/
section HashTab
open Yaep.Model.HashTab

/-- Refinement to a finite set: after any operation sequence from `create`, the stored elements
are exactly those of the abstract set (`insert` adds, `remove` removes, `empty` clears,
`find`/`size` — which may expand the table — change nothing). -/
theorem hashtab_refines (hash : Nat → Nat) (sz : Nat) (ops : List Op) (y : Nat) :
    y ∈ elems (run false hash (create sz) ops) ↔ y ∈ specRun ops :=
  (run_refines_aux hash ops (create sz) [] (create_spec hash sz).1 List.Pairwise.nil
    (by rw [(create_spec hash sz).2]; exact fun _ => Iff.rfl)).2.2 y

example : ∀ y, y ∈ elems (run false (· % 7) (create 0)
      [.insert 7, .insert 14, .insert 21, .remove 7, .insert 28, .find 14, .remove 14, .insert 7])
    ↔ y ∈ [7, 28, 21] := by
  intro y; rw [hashtab_refines]; rfl

/-- `find t x ≠ none ↔ x ∈ abs t`, after any operation sequence (across expansions, deletions
and reuse of deleted slots). -/
theorem hashtab_find_spec (hash : Nat → Nat) (sz : Nat) (ops : List Op) (x : Nat) :
    (lookup false hash (run false hash (create sz) ops) x).2 = true ↔ x ∈ specRun ops := by
  have h := run_refines_aux hash ops (create sz) [] (create_spec hash sz).1 List.Pairwise.nil
    (by rw [(create_spec hash sz).2]; exact fun _ => Iff.rfl)
  rw [(lookup_spec h.1 x).2.2, h.2.2]
  exact Iff.rfl

example : (lookup false (· % 3) (run false (· % 3) (create 5)
    [.insert 3, .insert 6, .insert 9, .remove 6, .insert 12, .insert 15, .insert 18]) 12).2 = true := by
  rw [hashtab_find_spec]; decide

example : (lookup false (· % 3) (run false (· % 3) (create 5)
    [.insert 3, .insert 6, .insert 9, .remove 6, .insert 12, .insert 15, .insert 18]) 6).2 = false := by
  rw [Bool.eq_false_iff, Ne, hashtab_find_spec]; decide

/-- Every observation of every operation is the one the finite set predicts: `find` ↦ membership,
`insert` ↦ "new" iff not a member, `remove` ↦ "present" iff a member, `size` ↦ the element
counter `number_of_elements - number_of_deleted_elements` is the cardinality of the set. -/
theorem hashtab_observations (hash : Nat → Nat) (sz : Nat) (ops : List Op) (op : Op) :
    obsOk (specRun ops) op (stepOp false hash (run false hash (create sz) ops) op).2 := by
  have h := run_refines_aux hash ops (create sz) [] (create_spec hash sz).1 List.Pairwise.nil
    (by rw [(create_spec hash sz).2]; exact fun _ => Iff.rfl)
  exact (step_refines h.1 _ h.2.1 h.2.2 op).2.2

example : ∃ sz, (stepOp false (· % 2) (run false (· % 2) (create 0)
    [.insert 2, .insert 4, .insert 6, .remove 4, .insert 8, .insert 4, .remove 2]) .size).2
      = .size sz 3 := by
  have := hashtab_observations (· % 2) 0
    [.insert 2, .insert 4, .insert 6, .remove 4, .insert 8, .insert 4, .remove 2] .size
  revert this
  generalize (stepOp false (· % 2) _ Op.size).2 = o
  intro h
  cases o with
  | size s e => exact ⟨s, by simp only [obsOk] at h; rw [h]; rfl⟩
  | none => exact absurd h (by simp [obsOk])
  | found b => exact absurd h (by simp [obsOk])
  | inserted b => exact absurd h (by simp [obsOk])
  | removed b => exact absurd h (by simp [obsOk])

/-- The invariant holds after any operation sequence: the slot array has `size` entries, `size`
is a prime `≥ 3`, no element is stored twice, every stored element is reachable by its probe
sequence with no `EMPTY` slot before it, `number_of_elements` bounds the number of non-`EMPTY`
slots and `number_of_elements - number_of_deleted_elements` counts the stored elements. -/
theorem hashtab_invariant (hash : Nat → Nat) (sz : Nat) (ops : List Op) :
    Inv hash (run false hash (create sz) ops) :=
  (run_refines_aux hash ops (create sz) [] (create_spec hash sz).1 List.Pairwise.nil
    (by rw [(create_spec hash sz).2]; exact fun _ => Iff.rfl)).1

example : ∀ i j v : Nat,
    (run false (· % 5) (create 3) [.insert 5, .insert 10, .remove 5, .insert 15]).slots[i]? = some (.elem v) →
    (run false (· % 5) (create 3) [.insert 5, .insert 10, .remove 5, .insert 15]).slots[j]? = some (.elem v) →
    i = j :=
  (hashtab_invariant (· % 5) 3 [.insert 5, .insert 10, .remove 5, .insert 15]).wf.uniq

/-- The load bound leaves an `EMPTY` slot: after the expansion check at the beginning of
`find_hash_table_entry` fewer than `size` slots are non-`EMPTY`. -/
theorem hashtab_load_bound (hash : Nat → Nat) (sz : Nat) (ops : List Op) :
    nonEmpty (prepare false hash (run false hash (create sz) ops)) <
      (prepare false hash (run false hash (create sz) ops)).size :=
  (prepare_spec (hashtab_invariant hash sz ops)).2.1

example : nonEmpty (prepare false (· % 2) (run false (· % 2) (create 0) [.insert 2, .insert 4, .remove 2])) <
    (prepare false (· % 2) (run false (· % 2) (create 0) [.insert 2, .insert 4, .remove 2])).size :=
  hashtab_load_bound _ _ _

/-- `higher_prime_number` returns a prime (so every table size is prime). -/
theorem higherPrime_is_prime (n : Nat) : IsPrime (higherPrime n) ∧ n < higherPrime n :=
  ⟨higherPrime_prime n, by have := higherPrime_gt n; omega⟩

example : IsPrime (higherPrime 20) ∧ 20 < higherPrime 20 := higherPrime_is_prime 20

/-- Because `size` is prime and the step lies in `[1, size-1]`, the probe sequence
`(hash % size + k·step) % size`, `k < size`, visits every slot. -/
theorem probe_visits_every_slot (hash : Nat → Nat) (sz : Nat) (ops : List Op) (x e : Nat)
    (he : e < (run false hash (create sz) ops).size) :
    ∃ k, k < (run false hash (create sz) ops).size ∧ P hash (run false hash (create sz) ops) x k = e := by
  have hw := (hashtab_invariant hash sz ops).wf
  exact pidx_surj hw.prime (stepOf_pos hash _ x) (stepOf_lt hash _ x hw.three) e he

example : ∃ k, k < (create 4).size ∧ P (· % 3) (create 4) 5 k = 0 := by
  have := probe_visits_every_slot (· % 3) 4 [] 5 0
    (by show 0 < higherPrime 4; have := higherPrime_gt 4; omega)
  simpa [run] using this

/-- `probe_terminates`: in every reachable table, for every element, the `for (;;)` loop of
`find_hash_table_entry` (entered after the expansion check) leaves through a `break` within
`size` iterations, at a slot of the probe sequence that is `EMPTY` or holds the element. -/
theorem probe_terminates (hash : Nat → Nat) (sz : Nat) (ops : List Op) (x : Nat) :
    let t := prepare false hash (run false hash (create sz) ops)
    ∃ k, k < t.size ∧ (probe hash t x).1 = P hash t x k ∧
      (t.slots[(probe hash t x).1]? = some .empty ∨ t.slots[(probe hash t x).1]? = some (.elem x)) := by
  intro t
  have hp := prepare_spec (hashtab_invariant hash sz ops)
  exact probe_terminates_wf hp.1.wf hp.2.1 x

example : let t := prepare false (· % 1) (run false (· % 1) (create 0) [.insert 2, .insert 3, .remove 2])
    ∃ k, k < t.size ∧ (probe (· % 1) t 4).1 = P (· % 1) t 4 k ∧
      (t.slots[(probe (· % 1) t 4).1]? = some .empty ∨ t.slots[(probe (· % 1) t 4).1]? = some (.elem 4)) :=
  probe_terminates _ _ _ _

/-- The model's `rehash` is the C `expand_hash_table`: the expansion test that the C code
re-evaluates for the new table on every transferred element is false. -/
theorem expand_no_nested_expand (hash : Nat → Nat) (sz : Nat) (ops : List Op)
    (l1 l2 : List Nat) (v : Nat)
    (h : elems (run false hash (create sz) ops) = l1 ++ v :: l2) :
    needExpand (l1.foldl (fun acc v => (insertCore false hash acc v).1)
      (fresh (higherPrime ((run false hash (create sz) ops).n * 2)))) = false :=
  rehash_no_nested_expand (hashtab_invariant hash sz ops) l1 l2 v h

end HashTab

/-! ## object stack -/
section ObjStack
open Yaep.Model.ObjStack

/-- The top object holds exactly the bytes appended so far (`none` = byte added by
`OS_TOP_EXPAND`, value unspecified), wherever the object was moved. -/
theorem os_top_is_appended (initLen : Nat) (ops : List Op) :
    (run (create initLen) ops).top = (specRun ops).top := by
  have h := (run_spec (create initLen) ops (inv_create initLen)).2
  rw [abs_create] at h
  exact congrArg Spec.top h

example : (run (create 4) [.addBytes [1, 2, 3], .finish, .addBytes [4, 5, 6, 7, 8], .addByte 9,
    .shorten 2, .expand 1]).top = [some 4, some 5, some 6, some 7, none] := by
  rw [os_top_is_appended]; rfl

/-- The finished objects are, in order, the top objects at the times of `OS_TOP_FINISH`. -/
theorem os_finished_contents (initLen : Nat) (ops : List Op) :
    (run (create initLen) ops).finished.map (·.bytes) = (specRun ops).finished := by
  have h := (run_spec (create initLen) ops (inv_create initLen)).2
  rw [abs_create] at h
  exact congrArg Spec.finished h

example : (run (create 4) [.addBytes [1, 2, 3], .finish, .addBytes [4, 5, 6, 7, 8], .finish,
    .addByte 9]).finished.map (·.bytes) = [[some 1, some 2, some 3], [some 4, some 5, some 6, some 7, some 8]] := by
  rw [os_finished_contents]; rfl

/-- Finished objects are immutable: an object finished after `ops1` keeps its address record
through any further operations `ops2` (without `OS_EMPTY`, which destroys all objects), its
segment is not freed, and the bytes at its address are still the bytes it was finished with. -/
theorem os_finished_immutable (initLen : Nat) (ops1 ops2 : List Op) (hne : Op.empty ∉ ops2)
    (o : Obj) (ho : o ∈ (run (create initLen) ops1).finished) :
    o ∈ (run (create initLen) (ops1 ++ ops2)).finished ∧
    (run (create initLen) (ops1 ++ ops2)).readObj o = some o.bytes := by
  have hinv := (run_spec (create initLen) (ops1 ++ ops2) (inv_create initLen)).1
  have hmem : o ∈ (run (create initLen) (ops1 ++ ops2)).finished := by
    rw [run_append]
    obtain ⟨l, hl⟩ := finished_run (run (create initLen) ops1) ops2 hne
    rw [hl]; exact List.mem_append_left _ ho
  exact ⟨hmem, readObj_of_inv _ hinv o hmem⟩

example : ∀ o ∈ (run (create 4) [.addBytes [1, 2, 3], .finish]).finished,
    (run (create 4) ([.addBytes [1, 2, 3], .finish] ++
      [.addBytes [4, 5, 6, 7, 8], .finish, .expand 600, .nullify, .addByte 1])).readObj o = some o.bytes :=
  fun o ho => (os_finished_immutable 4 _ _ (by simp) o ho).2

/-- Bounds: `start ≤ free`, `boundary` never exceeds the length the current segment was
allocated with, and `free ≤ boundary` except right after `OS_TOP_FINISH`, where the aligned
`free` may exceed `boundary` by less than the alignment while the top object is empty (this is
inside the allocation, which is `_OS_ALIGNMENT` bytes longer than the segment length; nothing
is written there because every addition first moves the top object to a new segment). -/
theorem os_bounds (initLen : Nat) (ops : List Op) :
    let s := run (create initLen) ops
    s.start ≤ s.free ∧ s.boundary ≤ s.cur.cap ∧
    (s.free ≤ s.boundary ∨ (s.topLength = 0 ∧ s.free < s.boundary + alignment)) := by
  intro s
  have h := (run_spec (create initLen) ops (inv_create initLen)).1
  refine ⟨h.le, h.bcap, ?_⟩
  rcases h.fb with hb | ⟨h1, h2, _⟩
  · exact Or.inl hb
  · exact Or.inr ⟨by show (run (create initLen) ops).free - (run (create initLen) ops).start = 0; omega, h2⟩

/-- the second disjunct of `os_bounds` does occur: `free = 8 > boundary = 3` -/
example : (run (create 3) [.addBytes [1, 2, 3], .finish]).free = 8 ∧
    (run (create 3) [.addBytes [1, 2, 3], .finish]).boundary = 3 := by
  constructor <;> rfl

end ObjStack

/-! ## variable length object -/
section Vlo
open Yaep.Model.Vlo

/-- The object holds exactly the bytes appended minus those shortened (`none` = byte added by
`VLO_EXPAND`, value unspecified), wherever it is reallocated (`VLO_TAILOR`, growth). -/
theorem vlo_contents (initLen : Nat) (ops : List Op) :
    (run (create initLen) ops).contents = specRun ops := by
  have h := (run_spec (create initLen) ops (inv_create initLen)).1
  rw [contents_create] at h
  exact h

example : (run (create 2) [.add [1, 2, 3], .add [4], .shorten 2, .tailor, .expand 2, .add [9],
    .shorten 1]).contents = [some 1, some 2, none, none] := by
  rw [vlo_contents]; rfl

/-- `VLO_LENGTH` is the length of the abstract byte list and never exceeds the allocation. -/
theorem vlo_bounds (initLen : Nat) (ops : List Op) :
    (run (create initLen) ops).len = (specRun ops).length ∧
    (run (create initLen) ops).len ≤ (run (create initLen) ops).cap := by
  have h := run_spec (create initLen) ops (inv_create initLen)
  refine ⟨?_, h.2⟩
  have := congrArg List.length (vlo_contents initLen ops)
  simpa [Vlo.contents] using this

example : (run (create 1) [.add [1, 2, 3], .nullify, .add [7], .expand 40, .shorten 1]).len = 40 := by
  rw [(vlo_bounds _ _).1]; rfl

end Vlo

end Yaep.Props.C19
