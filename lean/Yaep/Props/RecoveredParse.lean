import Yaep.Lemmas.RecoveredParseFinal
import Yaep.Lemmas.RecoveredParseRepair
import Yaep.Props.MakeParseSound
import Yaep.Props.MakeParseTotal
/-!
# C07 for the models: after error recovery the tree is a translation of a derivation of the
repaired input

`parseWithRecovery` (`Yaep/Model/Recovery.lean`, the model of `build_pl` with `error_recovery`)
ends with a parse list `pl`.  `MP.makeParse` (`Yaep/Model/MakeParse.lean`, the model of
`make_parse`) is run on the sets of that list and on the token numbers `pl_toks` of its elements.

Vocabulary (`Yaep/Lemmas/RecoveredParse*.lean`, namespace `Yaep.RP`):
* `RP.word pl` — the **repaired input**: the terminal of every list element after the first,
  `g.errT` (`error`) for the elements shifted on `error`; it ends with `g.eofT`.
* **derivation of the repaired input**: `PT.IsDerivation g (RP.word pl) pt` — a parse tree of the
  token list `RP.word pl` from `$S` in the grammar `g` itself, in which `error` is an ordinary
  terminal (number `g.errT`): a leaf `error` is derived by an occurrence of `error` in a rule of the
  user, or — total loss, `RP.word pl = [error, $eof]` — by the implicit rule `$S : error $eof`
  that `yaep_read_grammar` appends (`readGrammar_hasTotalLoss`).  `translate g` maps a leaf
  `error` to the ERROR node and any other leaf at position `j` of the token list to
  `TERM (code, j)`.
* `RP.sets pl`, `RP.tokNums pl` — `pl[j]` as arrays of situations and `pl_toks[j]` (the token
  number `PSet.tok`, `-1` for set 0 and for `error` shifts); `RP.SameSets pl S`: `S` holds the same
  sets with the situations of every set in any order and multiplicity (the C set cores).
* `RP.fix pl` — from the position `j` in the repaired input to the token number in the original
  input, `pl_toks[j + 1]`: `(translate g pt).mapAttr (RP.fix pl)` is the translation of `pt` with
  every TERM node carrying the *token number* of its token (what the judge calls `fixAttr`).
* `RP.okF` — the lookahead filter the recovering loop applied to each list element.

* `RP.RepairAt e p n v l` / `RP.Repair e n v v'` — "`v'` is `v` with disjoint (possibly empty,
  possibly adjacent) segments replaced by `e`, `n` tokens replaced in total"; `RP.pairs pl`: the
  `(terminal, token number)` pairs of the list elements after set 0.

Main theorems: `recovered_repair`, `recovered_list_is_earley` (the final list is exactly the filtered Earley parse
list of the repaired input), `recovered_word_derivable`, `recovered_parse_one_sound` /
`recovered_parse_all_sound`, `recovered_parse_one_total` / `recovered_parse_all_total`,
`recovered_parse_terms`, and for the grammars `readGrammar` accepts `recovered_parse_one`,
`recovered_parse_all`.
-/
namespace Yaep

/-! ## the final list is an Earley parse list of the repaired input -/

/-- **The final list of a recovering parse is, set by set, the filtered Earley parse list of the
repaired input** (`error` an ordinary terminal): list element `j` holds exactly the items of the
declarative relation `EarleyF` for the token list `RP.word pl`, with the lookahead filter
`RP.okF` (none for `error` shifts, the token after the shifted one in the original input
otherwise).  Every lookahead level, every `recovery_match`, every grammar. -/
theorem recovered_list_is_earley {g : Grammar} {la rmatch : Nat} {w : List Nat} {sfuel : Nat}
    (hok : (parseWithRecovery g la rmatch w sfuel).ok = true) :
    ∀ j, j < (parseWithRecovery g la rmatch w sfuel).pl.length → ∀ it,
      it ∈ ((parseWithRecovery g la rmatch w sfuel).pl.getD j default).items ↔
        EarleyF g (RP.okF g g.analysis la (w ++ [g.eofT]) (parseWithRecovery g la rmatch w sfuel).pl)
          (RP.word (parseWithRecovery g la rmatch w sfuel).pl) j it := by
  intro j hj it
  have h := (RP.final_of_ok hok).plInv j (by rw [RP.psItems_length]; exact hj) it
  have e : (psItems (parseWithRecovery g la rmatch w sfuel).pl).getD j [] =
      ((parseWithRecovery g la rmatch w sfuel).pl.getD j default).items := by
    unfold psItems
    rw [List.getD_eq_getElem?_getD, List.getD_eq_getElem?_getD, List.getElem?_map,
      List.getElem?_eq_getElem hj]
    rfl
  rw [e] at h
  exact h

/-- the repaired input ends with the end marker and has one terminal per list element after
set 0 -/
theorem recovered_word_shape {g : Grammar} (hwf : g.WF) {la rmatch : Nat} {w : List Nat} {sfuel : Nat}
    (hok : (parseWithRecovery g la rmatch w sfuel).ok = true) :
    (∃ u, RP.word (parseWithRecovery g la rmatch w sfuel).pl = u ++ [g.eofT]) ∧
    (parseWithRecovery g la rmatch w sfuel).pl.length =
      (RP.word (parseWithRecovery g la rmatch w sfuel).pl).length + 1 :=
  ⟨RP.word_ends hwf hok, (RP.final_of_ok hok).length⟩

/-- **The repaired input is a sentence of the grammar with `error` as an ordinary terminal**: it
has a derivation from `$S`. -/
theorem recovered_word_derivable {g : Grammar} (hwf : g.WF) {la rmatch : Nat} {w : List Nat}
    {sfuel : Nat} (hok : (parseWithRecovery g la rmatch w sfuel).ok = true) :
    ∃ pt, PT.IsDerivation g (RP.word (parseWithRecovery g la rmatch w sfuel).pl) pt := by
  obtain ⟨u, hu⟩ := RP.word_ends hwf hok
  obtain ⟨it, hE⟩ := RP.last_nonempty hwf hok hu
  have hE' := hE
  rw [hu] at hE'
  obtain ⟨rl, hr, hax, hdot, horig⟩ := MP.EarleyF.last_set hwf hE' rfl
  obtain ⟨r, d, o⟩ := it
  simp only at hr hdot horig
  subst hdot; subst horig
  obtain ⟨_, kids, hk⟩ := EarleyF.complete_valid hr hE
  refine ⟨.node r kids, ?_⟩
  unfold PT.IsDerivation
  have hlen : (RP.word (parseWithRecovery g la rmatch w sfuel).pl).length = u.length + 1 := by
    rw [hu]; simp
  rw [hlen]
  exact PT.ValidAt.node hr hax hk

/-! ## soundness -/

/-- **`recovered_parse_one_sound`** (grammar hypotheses explicit).  The `make_parse` model, one
parse, run on the sets `S` of the final list (any order of the situations) and its token numbers:
if it ends with `.ok res`, the table has no ALT node and denotes exactly one tree, the translation
of a derivation `pt` of the repaired input, every TERM node relabelled with the token number of its
list element (`recovered_parse_terms` says what that is). -/
theorem recovered_parse_one_sound_of {g : Grammar} (hg : g.mpWF = true) {la rmatch : Nat} {w : List Nat}
    {sfuel : Nat} (hok : (parseWithRecovery g la rmatch w sfuel).ok = true)
    {S : Array (Array Item)} (hS : RP.SameSets (parseWithRecovery g la rmatch w sfuel).pl S)
    {fuel : Nat} {res : MP.Result}
    (hm : MP.makeParse g S (RP.tokNums (parseWithRecovery g la rmatch w sfuel).pl) true fuel = .ok res) :
    ∃ pt, PT.IsDerivation g (RP.word (parseWithRecovery g la rmatch w sfuel).pl) pt ∧
      (denoteTab res.tab).getD res.root [] =
        [(translate g pt).mapAttr (RP.fix (parseWithRecovery g la rmatch w sfuel).pl)] ∧
      denote (unfoldAt res.tab res.root) =
        [(translate g pt).mapAttr (RP.fix (parseWithRecovery g la rmatch w sfuel).pl)] ∧
      hasAlt res.tab = false :=
  (RP.final_of_ok hok).one_sound hS (MP.grOK_of_mpWF hg) hm

/-- **`recovered_parse_all_sound`** (grammar hypotheses explicit).  All parses: every tree the
returned table denotes is the (relabelled) translation of a derivation of the repaired input. -/
theorem recovered_parse_all_sound_of {g : Grammar} (hg : g.mpWF = true) (hcyc : ¬ Cyclic g)
    (hsr : g.symsInRange = true) {la rmatch : Nat} {w : List Nat} {sfuel : Nat}
    (hok : (parseWithRecovery g la rmatch w sfuel).ok = true)
    {S : Array (Array Item)} (hS : RP.SameSets (parseWithRecovery g la rmatch w sfuel).pl S)
    {fuel : Nat} {res : MP.Result}
    (hm : MP.makeParse g S (RP.tokNums (parseWithRecovery g la rmatch w sfuel).pl) false fuel = .ok res) :
    (∀ t ∈ (denoteTab res.tab).getD res.root [],
      ∃ pt, PT.IsDerivation g (RP.word (parseWithRecovery g la rmatch w sfuel).pl) pt ∧
        t = (translate g pt).mapAttr (RP.fix (parseWithRecovery g la rmatch w sfuel).pl)) ∧
    (∀ t ∈ denote (unfoldAt res.tab res.root),
      ∃ pt, PT.IsDerivation g (RP.word (parseWithRecovery g la rmatch w sfuel).pl) pt ∧
        t = (translate g pt).mapAttr (RP.fix (parseWithRecovery g la rmatch w sfuel).pl)) :=
  (RP.final_of_ok hok).all_sound hS (MP.grOK_of_mpWF hg) hcyc hsr hm

/-- **TERM nodes carry the code and the token number of their token**, not the index of the list
element: a TERM node `(cd, a)` of a relabelled translation of the repaired input belongs to a list
element `j + 1` shifted on input token number `a = k`, whose terminal `tk = w'[k]` (the original
input with the end marker) is not `error` and has the code `cd`. -/
theorem recovered_parse_terms {g : Grammar} {la rmatch : Nat} {w : List Nat} {sfuel : Nat}
    (hok : (parseWithRecovery g la rmatch w sfuel).ok = true) {pt : PT}
    (hpt : PT.IsDerivation g (RP.word (parseWithRecovery g la rmatch w sfuel).pl) pt) {cd a : Int}
    (hx : (cd, a) ∈ ((translate g pt).mapAttr
      (RP.fix (parseWithRecovery g la rmatch w sfuel).pl)).terms) :
    ∃ (j : Nat) (s : PSet) (k tk : Nat),
      (parseWithRecovery g la rmatch w sfuel).pl[j + 1]? = some s ∧
      (RP.word (parseWithRecovery g la rmatch w sfuel).pl)[j]? = some tk ∧
      s.term = some tk ∧ s.tok = some k ∧ a = (k : Int) ∧ (w ++ [g.eofT])[k]? = some tk ∧
      tk ≠ g.errT ∧ g.termCodes.getD tk 0 = cd :=
  RP.fixed_terms (RP.final_of_ok hok) hpt hx

/-! ## the run of `make_parse` on the final list, compared with a run without token renumbering -/

/-- **Transfer principle.**  The outcome of the `make_parse` model on the final list with its token
numbers `pl_toks` is the outcome on the same sets with the token numbers `j - 1` of a parse list
without recovery (`RP.idToks` — the setting of all `_ctx` theorems of the `make_parse` model, whose
hypotheses `CtxOKc` / `CtxAllc` hold by `RP.ctxOKc` / `RP.ctxAllc` and `recovered_list_is_earley`),
with the attribute of every TERM record renamed by `RP.fix`: same outcome constructor, same
ambiguity flag, same counters, same allocation sequence, same table up to the attributes. -/
theorem recovered_outcome {g : Grammar} (hg : g.mpWF = true) (hcyc : ¬ Cyclic g)
    (hsr : g.symsInRange = true) {la rmatch : Nat} {w : List Nat} {sfuel : Nat}
    (hok : (parseWithRecovery g la rmatch w sfuel).ok = true)
    {S : Array (Array Item)} (hS : RP.SameSets (parseWithRecovery g la rmatch w sfuel).pl S)
    (one : Bool) (fuel : Nat) :
    MP.makeParse g S (RP.tokNums (parseWithRecovery g la rmatch w sfuel).pl) one fuel =
      RP.outRl (RP.fix (parseWithRecovery g la rmatch w sfuel).pl)
        (MP.makeParse g S (RP.idToks (parseWithRecovery g la rmatch w sfuel).pl.length) one fuel) := by
  cases one with
  | true => exact (RP.final_of_ok hok).reTok_one hS (MP.grOK_of_mpWF hg) fuel
  | false => exact (RP.final_of_ok hok).reTok_all hS hcyc hsr fuel

/-- the sets of the model's final list themselves are an admissible `S` -/
theorem recovered_sameSets (pl : List PSet) : RP.SameSets pl (RP.sets pl) := RP.sameSets_sets pl

/-- the repaired input has at most `2 (|w| + 1)` terminals -/
theorem recovered_word_length_le {g : Grammar} {la rmatch : Nat} {w : List Nat} {sfuel : Nat}
    (hok : (parseWithRecovery g la rmatch w sfuel).ok = true) :
    (RP.word (parseWithRecovery g la rmatch w sfuel).pl).length ≤ 2 * (w.length + 1) := by
  have := pl_capacity hok
  rw [RP.word_length]; omega

/-! ## totality -/

/-- **one parse, total**: with the fuel `MP.mpFuel` for the length of the repaired input the
outcome is `.ok` (never `.noParse`, `.outOfFuel`, `.undefinedBehaviour`, `.cyclic`) -/
theorem recovered_parse_one_total_of {g : Grammar} (hwf : g.WF) (hg : g.mpWF = true)
    (hcyc : ¬ Cyclic g) (hsr : g.symsInRange = true) {la rmatch : Nat} {w : List Nat} {sfuel : Nat}
    (hok : (parseWithRecovery g la rmatch w sfuel).ok = true)
    {S : Array (Array Item)} (hS : RP.SameSets (parseWithRecovery g la rmatch w sfuel).pl S)
    {fuel : Nat}
    (hfuel : MP.mpFuel g (RP.word (parseWithRecovery g la rmatch w sfuel).pl).length ≤ fuel) :
    ∃ res, MP.makeParse g S (RP.tokNums (parseWithRecovery g la rmatch w sfuel).pl) true fuel =
      .ok res := by
  obtain ⟨u, hu⟩ := RP.word_ends hwf hok
  have hlen : (RP.word (parseWithRecovery g la rmatch w sfuel).pl).length = u.length + 1 := by
    rw [hu]; simp
  rw [hlen] at hfuel
  exact (RP.final_of_ok hok).one_total hS hwf (MP.grOK_of_mpWF hg) hcyc hsr hu
    (RP.last_nonempty hwf hok hu) hfuel

/-- **all parses, total**: with the fuel `MP.mpAllFuelC` for the length of the repaired input and
the size of the largest set -/
theorem recovered_parse_all_total_of {g : Grammar} (hwf : g.WF) (hg : g.mpWF = true)
    (hcyc : ¬ Cyclic g) (hsr : g.symsInRange = true) {la rmatch : Nat} {w : List Nat} {sfuel : Nat}
    (hok : (parseWithRecovery g la rmatch w sfuel).ok = true)
    {S : Array (Array Item)} (hS : RP.SameSets (parseWithRecovery g la rmatch w sfuel).pl S)
    {fuel : Nat}
    (hfuel : MP.mpAllFuelC g (RP.word (parseWithRecovery g la rmatch w sfuel).pl).length
      (MP.plMaxSize S) ≤ fuel) :
    ∃ res, MP.makeParse g S (RP.tokNums (parseWithRecovery g la rmatch w sfuel).pl) false fuel =
      .ok res := by
  obtain ⟨u, hu⟩ := RP.word_ends hwf hok
  have hlen : (RP.word (parseWithRecovery g la rmatch w sfuel).pl).length = u.length + 1 := by
    rw [hu]; simp
  rw [hlen] at hfuel
  exact (RP.final_of_ok hok).all_total hS hwf (MP.grOK_of_mpWF hg) hcyc hsr hu
    (RP.last_nonempty hwf hok hu) hfuel


/-! ## the repaired input is the input with segments replaced by `error` -/

/-- **The repaired input is `w $eof` with disjoint (possibly empty, possibly adjacent) segments
replaced by `error`**; a kept token keeps its token number (its position in `w $eof`); the
replaced segments contain `n` tokens, `n` plus the number of kept tokens is the number of tokens;
and if no input token is `error` itself, `n` is the sum over the callbacks of
`first recovered − first ignored`. -/
theorem recovered_repair {g : Grammar} {la rmatch : Nat} {w : List Nat} {sfuel : Nat}
    (hok : (parseWithRecovery g la rmatch w sfuel).ok = true) :
    ∃ n, RP.RepairAt g.errT 0 n (w ++ [g.eofT]) (RP.pairs (parseWithRecovery g la rmatch w sfuel).pl) ∧
      RP.Repair g.errT n (w ++ [g.eofT]) (RP.word (parseWithRecovery g la rmatch w sfuel).pl) ∧
      n + ((parseWithRecovery g la rmatch w sfuel).pl.filterMap (·.tok)).length = w.length + 1 ∧
      (g.errT ∉ w → g.errT ≠ g.eofT →
        n = ((parseWithRecovery g la rmatch w sfuel).calls.map fun c => c.2.2 - c.2.1).sum) := by
  obtain ⟨n, h1, h2, h3⟩ := RP.repairAt_final hok
  refine ⟨n, h1, ?_, h2, h3⟩
  have := h1.forget
  rw [RP.pairs_fst] at this
  exact this

/-- the token number recorded in a kept list element is the position of its terminal in
`w $eof` -/
theorem recovered_repair_kept {g : Grammar} {la rmatch : Nat} {w : List Nat} {sfuel : Nat}
    (hok : (parseWithRecovery g la rmatch w sfuel).ok = true) {a k : Nat}
    (hm : (a, some k) ∈ RP.pairs (parseWithRecovery g la rmatch w sfuel).pl) :
    (w ++ [g.eofT])[k]? = some a := by
  obtain ⟨n, h1, _⟩ := RP.repairAt_final hok
  simpa using (h1.kept a k hm).2

/-! ## for every grammar the definition functions accept -/

/-- **C07 for the models, one parse.**  For every grammar `readGrammar` accepts, every token
sequence `w`, every lookahead level and `recovery_match`, with enough search fuel:
`parseWithRecovery` succeeds; its final list read as `(terminal, token number)` pairs is `w $eof`
with disjoint segments replaced by `error` (for user tokens: as many tokens as the callbacks
reported ignored); and the `make_parse` model in one-parse mode, run on the sets of the final list
(situations in any order) and its token numbers with fuel `MP.mpFuel`, ends with `.ok res`, `res`
has no ALT node and denotes exactly one tree: the translation of a derivation of the repaired
input, every TERM node carrying the token number of its token (`recovered_parse_terms`). -/
theorem recovered_parse_one {raw : RawGrammar} {g : Grammar} (h : readGrammar raw = .ok g)
    (la rmatch : Nat) (w : List Nat) :
    ∃ F, ∀ sfuel, F ≤ sfuel →
      (parseWithRecovery g la rmatch w sfuel).ok = true ∧
      (∃ n, RP.RepairAt g.errT 0 n (w ++ [g.eofT])
          (RP.pairs (parseWithRecovery g la rmatch w sfuel).pl) ∧
        (UserTokens g w →
          n = ((parseWithRecovery g la rmatch w sfuel).calls.map fun c => c.2.2 - c.2.1).sum)) ∧
      ∀ S, RP.SameSets (parseWithRecovery g la rmatch w sfuel).pl S → ∀ fuel,
        MP.mpFuel g (RP.word (parseWithRecovery g la rmatch w sfuel).pl).length ≤ fuel →
        ∃ res pt,
          MP.makeParse g S (RP.tokNums (parseWithRecovery g la rmatch w sfuel).pl) true fuel = .ok res ∧
          PT.IsDerivation g (RP.word (parseWithRecovery g la rmatch w sfuel).pl) pt ∧
          (denoteTab res.tab).getD res.root [] =
            [(translate g pt).mapAttr (RP.fix (parseWithRecovery g la rmatch w sfuel).pl)] ∧
          denote (unfoldAt res.tab res.root) =
            [(translate g pt).mapAttr (RP.fix (parseWithRecovery g la rmatch w sfuel).pl)] ∧
          hasAlt res.tab = false := by
  have hwf := readGrammar_wf h
  refine ⟨recoveryFuel (w.length + 1) rmatch, fun sfuel hf => ?_⟩
  have hok := parseWithRecovery_ok (readGrammar_hasTotalLoss h) la rmatch w hf
  refine ⟨hok, ?_, ?_⟩
  · obtain ⟨n, h1, _, h3⟩ := RP.repairAt_final hok
    refine ⟨n, h1, fun hu => h3 (fun hm => (hu _ hm).2 rfl) hwf.2.2.2.2.1⟩
  · intro S hS fuel hfuel
    obtain ⟨res, hm⟩ := recovered_parse_one_total_of hwf (readGrammar_mpWF h) (readGrammar_semOK h).1
      (readGrammar_symsInRange h) hok hS hfuel
    obtain ⟨pt, h1, h2, h3, h4⟩ := recovered_parse_one_sound_of (readGrammar_mpWF h) hok hS hm
    exact ⟨res, pt, hm, h1, h2, h3, h4⟩

/-- **C07 for the models, all parses**: the same with `MP.makeParse … false`; every tree the
returned table denotes is the translation of a derivation of the repaired input.  (As without
recovery the forest may be incomplete — finding D9 — and the number of iterations may be
exponential — D31; the fuel is `MP.mpAllFuelC`.) -/
theorem recovered_parse_all {raw : RawGrammar} {g : Grammar} (h : readGrammar raw = .ok g)
    (la rmatch : Nat) (w : List Nat) :
    ∃ F, ∀ sfuel, F ≤ sfuel →
      (parseWithRecovery g la rmatch w sfuel).ok = true ∧
      ∀ S, RP.SameSets (parseWithRecovery g la rmatch w sfuel).pl S → ∀ fuel,
        MP.mpAllFuelC g (RP.word (parseWithRecovery g la rmatch w sfuel).pl).length
          (MP.plMaxSize S) ≤ fuel →
        ∃ res,
          MP.makeParse g S (RP.tokNums (parseWithRecovery g la rmatch w sfuel).pl) false fuel = .ok res ∧
          (∀ t ∈ (denoteTab res.tab).getD res.root [],
            ∃ pt, PT.IsDerivation g (RP.word (parseWithRecovery g la rmatch w sfuel).pl) pt ∧
              t = (translate g pt).mapAttr (RP.fix (parseWithRecovery g la rmatch w sfuel).pl)) ∧
          (∀ t ∈ denote (unfoldAt res.tab res.root),
            ∃ pt, PT.IsDerivation g (RP.word (parseWithRecovery g la rmatch w sfuel).pl) pt ∧
              t = (translate g pt).mapAttr (RP.fix (parseWithRecovery g la rmatch w sfuel).pl)) := by
  have hwf := readGrammar_wf h
  refine ⟨recoveryFuel (w.length + 1) rmatch, fun sfuel hf => ?_⟩
  have hok := parseWithRecovery_ok (readGrammar_hasTotalLoss h) la rmatch w hf
  refine ⟨hok, ?_⟩
  intro S hS fuel hfuel
  obtain ⟨res, hm⟩ := recovered_parse_all_total_of hwf (readGrammar_mpWF h) (readGrammar_semOK h).1
    (readGrammar_symsInRange h) hok hS hfuel
  obtain ⟨h1, h2⟩ := recovered_parse_all_sound_of (readGrammar_mpWF h) (readGrammar_semOK h).1
    (readGrammar_symsInRange h) hok hS hm
  exact ⟨res, hm, h1, h2⟩

/-- soundness alone needs no fuel hypothesis on `make_parse`: whatever fuel ends with `.ok` -/
theorem recovered_parse_one_sound {raw : RawGrammar} {g : Grammar} (h : readGrammar raw = .ok g)
    {la rmatch : Nat} {w : List Nat} {sfuel : Nat}
    (hok : (parseWithRecovery g la rmatch w sfuel).ok = true)
    {S : Array (Array Item)} (hS : RP.SameSets (parseWithRecovery g la rmatch w sfuel).pl S)
    {fuel : Nat} {res : MP.Result}
    (hm : MP.makeParse g S (RP.tokNums (parseWithRecovery g la rmatch w sfuel).pl) true fuel = .ok res) :
    ∃ pt, PT.IsDerivation g (RP.word (parseWithRecovery g la rmatch w sfuel).pl) pt ∧
      (denoteTab res.tab).getD res.root [] =
        [(translate g pt).mapAttr (RP.fix (parseWithRecovery g la rmatch w sfuel).pl)] ∧
      denote (unfoldAt res.tab res.root) =
        [(translate g pt).mapAttr (RP.fix (parseWithRecovery g la rmatch w sfuel).pl)] ∧
      hasAlt res.tab = false :=
  recovered_parse_one_sound_of (readGrammar_mpWF h) hok hS hm

theorem recovered_parse_all_sound {raw : RawGrammar} {g : Grammar} (h : readGrammar raw = .ok g)
    {la rmatch : Nat} {w : List Nat} {sfuel : Nat}
    (hok : (parseWithRecovery g la rmatch w sfuel).ok = true)
    {S : Array (Array Item)} (hS : RP.SameSets (parseWithRecovery g la rmatch w sfuel).pl S)
    {fuel : Nat} {res : MP.Result}
    (hm : MP.makeParse g S (RP.tokNums (parseWithRecovery g la rmatch w sfuel).pl) false fuel = .ok res) :
    ∀ t ∈ (denoteTab res.tab).getD res.root [],
      ∃ pt, PT.IsDerivation g (RP.word (parseWithRecovery g la rmatch w sfuel).pl) pt ∧
        t = (translate g pt).mapAttr (RP.fix (parseWithRecovery g la rmatch w sfuel).pl) :=
  (recovered_parse_all_sound_of (readGrammar_mpWF h) (readGrammar_semOK h).1
    (readGrammar_symsInRange h) hok hS hm).1

/-! ## non-vacuity: `S : 'a' 'b' # p(0 1) | error 'b' # e(0 - 1)` on `b b a b`

`Rec.g`, `Rec.sets`, `Rec.plToks`, `Rec.run_all` (`Props/MakeParse.lean`) are the grammar, the dump
of the C parse list after the recovery (situations in the order of the C set cores), `pl_toks`
and the run of the `make_parse` model on them. -/
namespace RecEx

/-- the description of `Rec.g` as the callbacks deliver it -/
def raw : RawGrammar :=
  ⟨[("a", 97), ("b", 98)],
   [⟨"S", ["a", "b"], some "p", 0, some [0, 1]⟩,
    ⟨"S", ["error", "b"], some "e", 2, some [0, NIL_TRANSL, 1]⟩], false⟩

theorem raw_ok : readGrammar raw = .ok Rec.g := by rfl

/-- the input `b b a b` -/
def w : List Nat := [1, 1, 0, 1]

/-- the recovering parse: three calls, 0 + 1 + 2 = 3 tokens ignored; the final list is
`set 0, error, b (token 3), $eof (token 4)`: the repaired input is `error b $eof` -/
theorem run : (parseWithRecovery Rec.g 1 1 w 100).ok = true ∧
    (parseWithRecovery Rec.g 1 1 w 100).calls = [(0, 0, 0), (1, 0, 1), (2, 1, 3)] ∧
    RP.pairs (parseWithRecovery Rec.g 1 1 w 100).pl = [(2, none), (1, some 3), (3, some 4)] ∧
    RP.word (parseWithRecovery Rec.g 1 1 w 100).pl = [2, 1, 3] ∧
    RP.tokNums (parseWithRecovery Rec.g 1 1 w 100).pl = Rec.plToks := by decide

/-- the model's final list holds the sets of the C dump, in another order -/
theorem same : RP.SameSets (parseWithRecovery Rec.g 1 1 w 100).pl Rec.sets ∧
    RP.sets (parseWithRecovery Rec.g 1 1 w 100).pl ≠ Rec.sets :=
  ⟨RP.sameSets_of_check (by decide), by decide⟩

/-- `recovered_parse_all_sound` applied to `Rec.run_all`: the tree `e(err nil b@3)` is the
relabelled translation of a derivation of `error b $eof` -/
example : ∀ t ∈ (denoteTab #[NodeRec.err, .nil, .term 98 3, .anode "e" 2 [0, 1, 2]]).getD 3 [],
    ∃ pt, PT.IsDerivation Rec.g (RP.word (parseWithRecovery Rec.g 1 1 w 100).pl) pt ∧
      t = (translate Rec.g pt).mapAttr (RP.fix (parseWithRecovery Rec.g 1 1 w 100).pl) :=
  recovered_parse_all_sound raw_ok run.1 same.1 (fuel := 100) (by rw [run.2.2.2.2]; exact Rec.run_all)

/-- the derivation, its translation with list positions (what the defect D8 returned), and with
token numbers -/
example :
    translate Rec.g (.node 0 [.node 2 [.leaf 2 0, .leaf 1 1], .leaf 3 2]) =
      .anode "e" 2 [.error, .nil, .term 98 1] ∧
    (translate Rec.g (.node 0 [.node 2 [.leaf 2 0, .leaf 1 1], .leaf 3 2])).mapAttr
        (RP.fix (parseWithRecovery Rec.g 1 1 w 100).pl) =
      .anode "e" 2 [.error, .nil, .term 98 3] ∧
    (denoteTab #[NodeRec.err, .nil, .term 98 3, .anode "e" 2 [0, 1, 2]]).getD 3 [] =
      [.anode "e" 2 [.error, .nil, .term 98 3]] := ⟨by rfl, by rfl, by rfl⟩

/-- `recovered_repair` instantiated: `b b a` is replaced by `error` (3 tokens, as reported) -/
example : RP.RepairAt Rec.g.errT 0 3 (w ++ [Rec.g.eofT]) [(2, none), (1, some 3), (3, some 4)] :=
  RP.RepairAt.replace (e := 2) (p := 0) [1, 1, 0] (RP.RepairAt.keep 1 (RP.RepairAt.keep 3 (RP.RepairAt.nil 5)))

/-- the capstone applies: with search fuel `recoveryFuel 5 1 = 2673` and `MP.mpFuel` … -/
example := recovered_parse_one raw_ok 1 1 w
example := recovered_parse_all raw_ok 1 1 w

end RecEx

/-- `c07Grammar` (no translations) on `a a a`: the final list is the Earley parse list of the
repaired input `error a error $eof`, which is derivable (`$S : S $eof`, `S : A error`,
`A : error a`) -/
example : (parseWithRecovery c07Grammar 0 1 [2, 2, 2] 100).ok = true ∧
    RP.word (parseWithRecovery c07Grammar 0 1 [2, 2, 2] 100).pl = [0, 2, 0, 1] ∧
    RP.pairs (parseWithRecovery c07Grammar 0 1 [2, 2, 2] 100).pl =
      [(0, none), (2, some 1), (0, none), (1, some 3)] := by decide

example : ∃ pt, PT.IsDerivation c07Grammar
    (RP.word (parseWithRecovery c07Grammar 0 1 [2, 2, 2] 100).pl) pt :=
  recovered_word_derivable (by decide) (by decide)

/-- total loss: every token is ignored, the repaired input is `error $eof`, derived by the
implicit rule `$S : error $eof` -/
example : (parseWithRecovery c06Grammar 0 1 [2, 2, 3, 3, 2] 200).ok = true ∧
    RP.word (parseWithRecovery c06Grammar 0 1 [2, 2, 3, 3, 2] 200).pl = [0, 1] ∧
    PT.IsDerivation c06Grammar [0, 1] (.node 5 [.leaf 0 0, .leaf 1 1]) :=
  ⟨by decide, by decide, .node (r := 5) rfl rfl (.cons (.leaf rfl) (.cons (.leaf rfl) .nil))⟩

end Yaep
