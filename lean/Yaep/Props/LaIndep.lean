import Yaep.Lemmas.LaIndepFinal
import Yaep.Lemmas.LaIndepL2
import Yaep.Props.MakeParseSound
/-!
# C09 for trees: the result of `make_parse` does not depend on the lookahead level (0 / 1)

`MP.makeParse` (`Yaep/Model/MakeParse.lean`) is the step-for-step model of the C routine `make_parse`;
`plSets g la w` is the parse list the step-for-step model of `build_pl` (`BS.buildPLC`) hands to it at
lookahead level `la` (situations in the order of the C set cores).

**Main result** (`makeParse_indep_of_la`): for every grammar `yaep_read_grammar` accepts, every
sentence `w` of user tokens, both modes (one parse / all parses) and EVERY fuel, the outcomes of
`make_parse` on the level-0 list and on the level-1 list are EQUAL — not only the ambiguity flag and the
denoted trees, but the whole `MP.Outcome`: the exported node table with its numbering, the counters
`reuse` / `origins`, the `nilUsed` / `errUsed` flags, the heap size and the sequence of allocation
requests.  (The two runs go through literally the same machine states, `LI.step_eq`.)

The route proposed first — "the level-1 set is the level-0 set with some items removed, relative order
preserved" — is FALSE (`plSets_la1_not_sublist` below: the order of the initial situations depends on
the situations that predict them).  What is true, and proved (`Yaep/Lemmas/LaIndep*.lean`):

* the start situations of a level-1 set are those of the level-0 set that pass the level-1 test, in the
  same order (`LI.SetPair.rel`);
* the situations of the two sets in whose tail the next token can begin coincide as lists (`LI.prel_all`)
  — these are the only ones `build_new_set` ever shifts;
* the initial situations of the rules of ONE nonterminal always appear in the same order (`LI.bfs_sorted`);
* hence the completed items of one nonterminal at level 1 are those of level 0 with some occurrences
  removed, in the same order, and no removed occurrence can pass the check loop of `make_parse` when
  the state on top of the stack is a level-1 item that passes the level-1 test (`LI.SetsRel`,
  `LI.cand_level1`) — an invariant of the run (`LI.LInv`).
-/
namespace Yaep

/-- **`make_parse` does not see the difference between lookahead levels 0 and 1** (input accepted at
both levels, symbols of the grammar in range) -/
theorem makeParse_indep_of_la_accepted {g : Grammar} (hsr : g.symsInRange = true) {w : List Nat}
    (hacc0 : (BS.buildPLC g 0 w).1 = none) (hacc1 : (BS.buildPLC g 1 w).1 = none)
    (one : Bool) (fuel : Nat) :
    MP.makeParse g (plSets g 0 w) (plTokNums w) one fuel =
      MP.makeParse g (plSets g 1 w) (plTokNums w) one fuel :=
  LI.makeParse_eq_of_setsRel hsr (LI.setsRel_plSets hsr hacc0 hacc1) _ _ _

/-- **C09 for the model of `make_parse`, for every accepted grammar**: for a grammar the definition
functions accept, tokens that are terminals of the user and a sentence `w`, the outcome of `make_parse`
(one parse or all parses, any fuel) is the same for the parse lists of lookahead levels 0 and 1. -/
theorem makeParse_indep_of_la {raw : RawGrammar} {g : Grammar} {w : List Nat}
    (h : readGrammar raw = .ok g) (htok : UserTokens g w) (hs : Sentence g w)
    (one : Bool) (fuel : Nat) :
    MP.makeParse g (plSets g 0 w) (plTokNums w) one fuel =
      MP.makeParse g (plSets g 1 w) (plTokNums w) one fuel := by
  have hacc : ∀ la, la ≤ 1 → (BS.buildPLC g la w).1 = none := by
    intro la hla
    have := (BS.acceptsC_iff_sentence (readGrammar_wf h) (readGrammar_symsInRange h) htok hla).mpr hs
    unfold BS.acceptsC at this
    exact Option.isNone_iff_eq_none.mp this
  exact makeParse_indep_of_la_accepted (readGrammar_symsInRange h) (hacc 0 (Nat.zero_le _))
    (hacc 1 (Nat.le_refl _)) one fuel

/-- … spelled out for the observable parts of C09: the two results are the same record, so the
ambiguity flag, the node table (hence the denoted trees, as a list and as a set, with their costs) and
the event counters agree. -/
theorem makeParse_indep_of_la_result {raw : RawGrammar} {g : Grammar} {w : List Nat}
    (h : readGrammar raw = .ok g) (htok : UserTokens g w) (hs : Sentence g w)
    {one : Bool} {fuel : Nat} {r0 r1 : MP.Result}
    (h0 : MP.makeParse g (plSets g 0 w) (plTokNums w) one fuel = .ok r0)
    (h1 : MP.makeParse g (plSets g 1 w) (plTokNums w) one fuel = .ok r1) :
    r0 = r1 ∧ r0.amb = r1.amb ∧ r0.reuse = r1.reuse ∧ r0.origins = r1.origins ∧
      (denoteTab r0.tab).getD r0.root [] = (denoteTab r1.tab).getD r1.root [] ∧
      denote (unfoldAt r0.tab r0.root) = denote (unfoldAt r1.tab r1.root) := by
  have := makeParse_indep_of_la h htok hs one fuel
  rw [h0, h1] at this
  injection this with this
  subst this
  exact ⟨rfl, rfl, rfl, rfl, rfl, rfl⟩

/-- with the fuel of the totality theorem both runs succeed (one-parse mode) with the same result -/
theorem makeParse_one_indep_of_la {raw : RawGrammar} {g : Grammar} {w : List Nat} {fuel : Nat}
    (h : readGrammar raw = .ok g) (htok : UserTokens g w) (hs : Sentence g w)
    (hfuel : MP.mpFuel g (w.length + 1) ≤ fuel) :
    ∃ res pt, MP.makeParse g (plSets g 0 w) (plTokNums w) true fuel = .ok res ∧
      MP.makeParse g (plSets g 1 w) (plTokNums w) true fuel = .ok res ∧
      PT.IsDerivation g (w ++ [g.eofT]) pt ∧
      (denoteTab res.tab).getD res.root [] = [translate g pt] := by
  obtain ⟨res, pt, h1, h2, h3, _⟩ := accepted_makeParse_one (la := 0) h htok (Nat.zero_le _) hs hfuel
  exact ⟨res, pt, h1, by rw [← makeParse_indep_of_la h htok hs]; exact h1, h2, h3⟩

/-! ## levels above 1 in the model of `build_pl`

`BS.buildPLC` models `lookahead_level ≤ 1`; like `buildPL` it treats every `la ≥ 1` as level 1 (the
dynamic lookahead of level 2 is the separate model `BS2.buildPLC2`, see `REPORT-L23.md`). -/

theorem okItem_succ (g : Grammar) (an : Analysis) (la : Nat) :
    okItem g an (la + 1) = okItem g an 1 := by
  funext nxt r d
  unfold okItem
  cases nxt <;> rfl

theorem parseLoopC_succ (g : Grammar) (an : Analysis) (la : Nat) :
    ∀ (toks : List Nat) (tab : BS.Tab) (pl : List BS.CSet) (k : Nat),
      BS.parseLoopC g an (la + 1) toks tab pl k = BS.parseLoopC g an 1 toks tab pl k := by
  intro toks
  induction toks with
  | nil => intro tab pl k; rfl
  | cons a rest ih =>
    intro tab pl k
    rw [BS.parseLoopC_cons, BS.parseLoopC_cons, okItem_succ, ih]

theorem plSets_succ (g : Grammar) (la : Nat) (w : List Nat) : plSets g (la + 1) w = plSets g 1 w := by
  unfold plSets
  rw [BS.buildPLC_eq, BS.buildPLC_eq, parseLoopC_succ]

/-- every level of the model of `build_pl` gives the outcome of level 0 -/
theorem makeParse_indep_of_la_all {raw : RawGrammar} {g : Grammar} {w : List Nat}
    (h : readGrammar raw = .ok g) (htok : UserTokens g w) (hs : Sentence g w)
    (la : Nat) (one : Bool) (fuel : Nat) :
    MP.makeParse g (plSets g la w) (plTokNums w) one fuel =
      MP.makeParse g (plSets g 0 w) (plTokNums w) one fuel := by
  cases la with
  | zero => rfl
  | succ la => rw [plSets_succ]; exact (makeParse_indep_of_la h htok hs one fuel).symm

/-! ## non-vacuity, and the counterexample to "the level-1 list is a sublist of the level-0 list"

`N0 : ε # r0 | N0 N1 # r2(0 1) | 'a' N0 # r3(0 1)`, `N1 : 'a' 'a' # r1(0 1)`; input `a a` (ambiguous:
`r2(r0, r1(a a))` and `r3(a, r3(a, r0))`).  Terminals `0 = a`, `1 = b`, `2 = error`, `3 = $eof`;
nonterminals `0 = N0`, `1 = $S`, `2 = N1`. -/

namespace LIEx

def raw : RawGrammar :=
  ⟨[("a", 97), ("b", 98)],
   [⟨"N0", [], some "r0", 0, some []⟩,
    ⟨"N1", ["a", "a"], some "r1", 0, some [0, 1]⟩,
    ⟨"N0", ["N0", "N1"], some "r2", 0, some [0, 1]⟩,
    ⟨"N0", ["a", "N0"], some "r3", 0, some [0, 1]⟩], false⟩

/-- the grammar `readGrammar raw` returns -/
def g : Grammar :=
  { rules := [ { lhs := 1, rhs := [.n 0, .t 3], transLen := 1, order := [some 0, none] },
               { lhs := 0, rhs := [], anode := some "r0", order := [] },
               { lhs := 2, rhs := [.t 0, .t 0], anode := some "r1", transLen := 2, order := [some 0, some 1] },
               { lhs := 0, rhs := [.n 0, .n 2], anode := some "r2", transLen := 2, order := [some 0, some 1] },
               { lhs := 0, rhs := [.t 0, .n 0], anode := some "r3", transLen := 2, order := [some 0, some 1] },
               { lhs := 1, rhs := [.t 2, .t 3], order := [none, none] } ],
    termNames := ["a", "b", "error", "$eof"], termCodes := [97, 98, -2, -1],
    ntNames := ["N0", "$S", "N1"], errT := 2, eofT := 3, axiomN := 1, startN := 0 }

def w : List Nat := [0, 0]

example : (match readGrammar raw with | .ok g' => g'.rules == g.rules && g'.eofT == g.eofT | _ => false) = true := by
  decide

example : g.symsInRange = true ∧ (BS.buildPLC g 0 w).1 = none ∧ (BS.buildPLC g 1 w).1 = none := by decide

/-- the parse list at level 0 … -/
def sets0 : Array (Array Item) :=
  #[#[⟨5, 0, 0⟩, ⟨0, 0, 0⟩, ⟨0, 1, 0⟩, ⟨4, 0, 0⟩, ⟨3, 0, 0⟩, ⟨1, 0, 0⟩, ⟨3, 1, 0⟩, ⟨2, 0, 0⟩],
    #[⟨4, 1, 0⟩, ⟨2, 1, 0⟩, ⟨0, 1, 0⟩, ⟨3, 1, 0⟩, ⟨4, 2, 0⟩, ⟨4, 0, 1⟩, ⟨3, 0, 1⟩, ⟨1, 0, 1⟩, ⟨2, 0, 1⟩,
      ⟨3, 1, 1⟩],
    #[⟨2, 2, 0⟩, ⟨4, 1, 1⟩, ⟨2, 1, 1⟩, ⟨3, 2, 0⟩, ⟨4, 2, 0⟩, ⟨3, 1, 1⟩, ⟨0, 1, 0⟩, ⟨3, 1, 0⟩, ⟨4, 2, 1⟩,
      ⟨4, 0, 2⟩, ⟨3, 0, 2⟩, ⟨1, 0, 2⟩, ⟨2, 0, 2⟩, ⟨3, 1, 2⟩],
    #[⟨0, 2, 0⟩]]

/-- … and at level 1: sets 1 and 2 lose situations, and in set 2 the last two change places -/
def sets1 : Array (Array Item) :=
  #[#[⟨5, 0, 0⟩, ⟨0, 0, 0⟩, ⟨0, 1, 0⟩, ⟨4, 0, 0⟩, ⟨3, 0, 0⟩, ⟨1, 0, 0⟩, ⟨3, 1, 0⟩, ⟨2, 0, 0⟩],
    #[⟨4, 1, 0⟩, ⟨2, 1, 0⟩, ⟨3, 1, 0⟩, ⟨4, 2, 0⟩, ⟨4, 0, 1⟩, ⟨3, 0, 1⟩, ⟨1, 0, 1⟩, ⟨2, 0, 1⟩, ⟨3, 1, 1⟩],
    #[⟨2, 2, 0⟩, ⟨4, 1, 1⟩, ⟨3, 2, 0⟩, ⟨4, 2, 0⟩, ⟨0, 1, 0⟩, ⟨4, 2, 1⟩,
      ⟨4, 0, 2⟩, ⟨3, 0, 2⟩, ⟨1, 0, 2⟩, ⟨3, 1, 2⟩, ⟨2, 0, 2⟩],
    #[⟨0, 2, 0⟩]]

theorem plSets_eq : plSets g 0 w = sets0 ∧ plSets g 1 w = sets1 := by decide

/-- **the level-1 set is NOT a sublist of the level-0 set** (`N1 : . 'a' 'a'` and `N0 : N0 . N1` with
origin 2 are in the opposite order) -/
theorem plSets_la1_not_sublist :
    ¬ ((plSets g 1 w).getD 2 #[]).toList.Sublist ((plSets g 0 w).getD 2 #[]).toList := by
  rw [plSets_eq.1, plSets_eq.2]
  decide

/-- the theorem applied: both modes, the outcomes of the two levels are equal … -/
example (one : Bool) (fuel : Nat) :
    MP.makeParse g (plSets g 0 w) (plTokNums w) one fuel =
      MP.makeParse g (plSets g 1 w) (plTokNums w) one fuel :=
  makeParse_indep_of_la_accepted (by decide) (by decide) (by decide) one fuel

/-- … and they are not trivial: one-parse mode returns `r2(r0, r1(a a))` with the ambiguity flag set … -/
theorem run_one :
    MP.makeParse g sets0 (plTokNums w) true 1000 =
      .ok { amb := true,
            tab := #[.anode "r0" 0 [], .term 97 0, .term 97 1, .anode "r1" 0 [1, 2], .anode "r2" 0 [0, 3]],
            root := 4, reuse := 0, origins := 0, nilUsed := false, errUsed := false, heapSize := 8,
            allocs := [.node, .node, .anode 3, .name 2, .anode 3, .name 2, .node, .node, .anode 1,
              .name 2] } := by
  rfl

/-- … all-parses mode the ALT node over `r3(a, r3(a, r0))` and `r2(r0, r1(a a))` -/
theorem run_all :
    MP.makeParse g sets0 (plTokNums w) false 1000 =
      .ok { amb := true,
            tab := #[.term 97 0, .term 97 1, .anode "r0" 0 [], .anode "r3" 0 [1, 2], .anode "r3" 0 [0, 3],
              .anode "r0" 0 [], .anode "r1" 0 [0, 1], .anode "r2" 0 [5, 6], .alt [4, 7]],
            root := 8, reuse := 0, origins := 0, nilUsed := false, errUsed := false, heapSize := 13,
            allocs := [.node, .node, .anode 3, .name 2, .anode 3, .name 2, .node, .node, .anode 3,
              .anode 1, .name 2, .node, .node, .anode 3, .name 2, .anode 1] } := by
  rfl

/-- the same results at level 1, by the theorem (not by evaluation) -/
example : ∃ r, MP.makeParse g sets1 (plTokNums w) true 1000 = .ok r ∧ r.amb = true ∧ r.root = 4 := by
  have h := makeParse_indep_of_la_accepted (g := g) (w := w) (by decide) (by decide) (by decide) true 1000
  rw [plSets_eq.1, plSets_eq.2, run_one] at h
  exact ⟨_, h.symm, rfl, rfl⟩

example : ∃ r, MP.makeParse g sets1 (plTokNums w) false 1000 = .ok r ∧ r.amb = true ∧ r.root = 8 := by
  have h := makeParse_indep_of_la_accepted (g := g) (w := w) (by decide) (by decide) (by decide) false 1000
  rw [plSets_eq.1, plSets_eq.2, run_all] at h
  exact ⟨_, h.symm, rfl, rfl⟩

end LIEx

/-! ## level 2 (dynamic lookahead): TESTED, NOT PROVED

At level 2 (`BS2.buildPLC2`, situations with contexts) the same holds on every input tried (16 000 sentences
of random grammars, both modes, see `REPORT-L23.md`), but it is not proved.  One evaluation is kept here:
`N0 : N2 N2 # r0(0 1)`, `N1 : 'b' # r1(0)`, `N2 : ε # r2 | N1 N0 # r3(0 1)` on `b b` (ambiguous).  Set 1 has
13 / 12 / 11 situations at levels 0 / 1 / 2; the outcomes of `make_parse` are equal. -/

namespace LIEx2

def g : Grammar :=
  { rules := [ { lhs := 1, rhs := [.n 0, .t 3], transLen := 1, order := [some 0, none] },
               { lhs := 0, rhs := [.n 2, .n 2], anode := some "r0", transLen := 2, order := [some 0, some 1] },
               { lhs := 3, rhs := [.t 1], anode := some "r1", transLen := 1, order := [some 0] },
               { lhs := 2, rhs := [], anode := some "r2", order := [] },
               { lhs := 2, rhs := [.n 3, .n 0], anode := some "r3", transLen := 2, order := [some 0, some 1] },
               { lhs := 1, rhs := [.t 2, .t 3], order := [none, none] } ],
    termNames := ["a", "b", "error", "$eof"], termCodes := [97, 98, -2, -1],
    ntNames := ["N0", "$S", "N2", "N1"], errT := 2, eofT := 3, axiomN := 1, startN := 0 }

def w : List Nat := [1, 1]

def sets0 : Array (Array Item) :=
  #[#[⟨5, 0, 0⟩, ⟨0, 0, 0⟩, ⟨0, 1, 0⟩, ⟨1, 0, 0⟩, ⟨4, 0, 0⟩, ⟨3, 0, 0⟩, ⟨1, 1, 0⟩, ⟨2, 0, 0⟩, ⟨1, 2, 0⟩],
    #[⟨2, 1, 0⟩, ⟨4, 1, 0⟩, ⟨1, 1, 0⟩, ⟨1, 2, 0⟩, ⟨0, 1, 0⟩, ⟨4, 2, 0⟩, ⟨1, 2, 0⟩, ⟨1, 0, 1⟩, ⟨4, 0, 1⟩,
      ⟨3, 0, 1⟩, ⟨1, 1, 1⟩, ⟨2, 0, 1⟩, ⟨1, 2, 1⟩],
    #[⟨2, 1, 1⟩, ⟨4, 1, 1⟩, ⟨1, 2, 0⟩, ⟨1, 1, 1⟩, ⟨1, 2, 1⟩, ⟨0, 1, 0⟩, ⟨4, 2, 0⟩, ⟨1, 1, 0⟩, ⟨4, 2, 1⟩,
      ⟨1, 2, 1⟩, ⟨1, 2, 0⟩, ⟨1, 0, 2⟩, ⟨4, 0, 2⟩, ⟨3, 0, 2⟩, ⟨1, 1, 2⟩, ⟨2, 0, 2⟩, ⟨1, 2, 2⟩],
    #[⟨0, 2, 0⟩]]

/-- level 2: set 1 without `$S : N0 . $eof` (removed at level 1 too) and without the first `N0 : N2 N2 .` -/
def sets2 : Array (Array Item) :=
  #[#[⟨5, 0, 0⟩, ⟨0, 0, 0⟩, ⟨0, 1, 0⟩, ⟨1, 0, 0⟩, ⟨4, 0, 0⟩, ⟨3, 0, 0⟩, ⟨1, 1, 0⟩, ⟨2, 0, 0⟩, ⟨1, 2, 0⟩],
    #[⟨2, 1, 0⟩, ⟨4, 1, 0⟩, ⟨1, 1, 0⟩, ⟨4, 2, 0⟩, ⟨1, 2, 0⟩, ⟨1, 0, 1⟩, ⟨4, 0, 1⟩,
      ⟨3, 0, 1⟩, ⟨1, 1, 1⟩, ⟨2, 0, 1⟩, ⟨1, 2, 1⟩],
    #[⟨2, 1, 1⟩, ⟨4, 1, 1⟩, ⟨1, 2, 0⟩, ⟨1, 1, 1⟩, ⟨1, 2, 1⟩, ⟨0, 1, 0⟩, ⟨4, 2, 0⟩, ⟨1, 1, 0⟩, ⟨4, 2, 1⟩,
      ⟨1, 2, 1⟩, ⟨1, 2, 0⟩, ⟨1, 0, 2⟩, ⟨4, 0, 2⟩, ⟨3, 0, 2⟩, ⟨1, 1, 2⟩, ⟨2, 0, 2⟩, ⟨1, 2, 2⟩],
    #[⟨0, 2, 0⟩]]

example : plSets g 0 w = sets0 := by decide
example : LI.plSets2 g w = sets2 := by decide +kernel
example : ((plSets g 1 w).getD 1 #[]).size = 12 := by decide

def resOne : MP.Result :=
  { amb := true,
    tab := #[.anode "r2" 0 [], .term 98 0, .anode "r1" 0 [1], .anode "r2" 0 [], .term 98 1, .anode "r1" 0 [4],
      .anode "r2" 0 [], .anode "r2" 0 [], .anode "r0" 0 [6, 7], .anode "r3" 0 [5, 8], .anode "r0" 0 [3, 9],
      .anode "r3" 0 [2, 10], .anode "r0" 0 [0, 11]],
    root := 12, reuse := 0, origins := 0, nilUsed := false, errUsed := false, heapSize := 16,
    allocs := [.node, .node, .anode 3, .name 2, .anode 3, .name 2, .anode 3, .anode 3, .anode 3, .anode 1,
      .name 2, .anode 1, .anode 2, .name 2, .node, .anode 1, .anode 2, .node, .anode 1] }

def resAll : MP.Result :=
  { amb := true,
    tab := #[.term 98 0, .anode "r1" 0 [0], .term 98 1, .anode "r1" 0 [2], .anode "r2" 0 [], .anode "r0" 0 [4, 4],
      .anode "r3" 0 [3, 5], .anode "r0" 0 [6, 4], .anode "r2" 0 [], .anode "r0" 0 [8, 6], .alt [7, 9, 9],
      .anode "r3" 0 [1, 10], .anode "r0" 0 [11, 4], .anode "r0" 0 [8, 8], .anode "r3" 0 [1, 13],
      .anode "r0" 0 [14, 6], .anode "r2" 0 [], .anode "r0" 0 [16, 11], .alt [12, 15, 17, 17]],
    root := 18, reuse := 11, origins := 0, nilUsed := false, errUsed := false, heapSize := 27,
    allocs := [.node, .node, .anode 3, .name 2, .node, .node, .anode 3, .name 2, .anode 3, .node, .anode 3,
      .anode 3, .node, .anode 1, .name 2, .anode 3, .anode 2, .name 2, .node, .anode 3, .anode 3, .anode 1,
      .anode 2, .node, .anode 3, .node, .node, .anode 3, .node, .anode 1] }

/-- TEST (evaluation): one-parse mode, the same result at levels 0 and 2 -/
example : MP.makeParse g sets0 (plTokNums w) true 1000 = .ok resOne ∧
    MP.makeParse g sets2 (plTokNums w) true 1000 = .ok resOne := ⟨rfl, rfl⟩

/-- TEST (evaluation): all-parses mode, the same result at levels 0 and 2 -/
example : MP.makeParse g sets0 (plTokNums w) false 1000 = .ok resAll ∧
    MP.makeParse g sets2 (plTokNums w) false 1000 = .ok resAll := ⟨rfl, rfl⟩

end LIEx2

end Yaep
