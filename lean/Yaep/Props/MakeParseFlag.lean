import Yaep.Lemmas.MakeParseFlagPL
import Yaep.Lemmas.MakeParseFlagSoundPL
import Yaep.Lemmas.MakeParseFlagAllSound
import Yaep.Lemmas.MakeParseFlagAllComplete
import Yaep.Props.MakeParseSound
import Yaep.Props.C05
/-!
# C05 for the step-for-step model of `make_parse`: the ambiguity flag

`MP.makeParse` (`Yaep/Model/MakeParse.lean`) is the transcription of the C function `make_parse`,
`Result.amb` is `*ambiguous_p`.  The runs are on the parse list the step-for-step model of
`build_pl` (`BS.buildPLC`) builds for an accepted input.

* **Soundness, one parse** (`makeParse_one_amb_sound`): if the flag is set the input has two
  different derivations.  The hypothesis "no set repeats a situation" of
  `makeParse_one_amb_sound_partial` is gone: the sets of `build_pl` do repeat completed situations
  (example `dup2Grammar`), but two occurrences of an item stand for two derivations
  (`BS.dup_two_kids`, proved about the step model `BS.buildPLC` of the set construction).
* **Completeness, one parse** (`makeParse_one_amb_complete`): if the input has two derivations with
  different translations, the flag is set.  In fact (`makeParse_one_unambiguous`) a run that ends
  with the flag off returns the translation of *every* derivation of the input.
-/
namespace Yaep

/-! ## soundness, one parse -/

/-- **The ambiguity flag is sound (one parse)**: when `make_parse` sets `*ambiguous_p`, the input
has two different derivations.  No hypothesis on the multiplicities in the parse list: it is the
parse list of the step model of `build_pl`. -/
theorem makeParse_one_amb_sound {g : Grammar} {la : Nat} {w : List Nat} {fuel : Nat}
    {res : MP.Result} (hwf : g.WF) (hg : g.mpWF = true) (hacc : (BS.buildPLC g la w).1 = none)
    (hm : MP.makeParse g (plSets g la w) (plTokNums w) true fuel = .ok res)
    (hamb : res.amb = true) :
    ∃ pt1 pt2, PT.IsDerivation g (w ++ [g.eofT]) pt1 ∧ PT.IsDerivation g (w ++ [g.eofT]) pt2 ∧
      pt1 ≠ pt2 :=
  MP.makeParse_one_amb_dup_ctx (MP.ctxOK_plSets hacc) (MP.grOK_of_mpWF hg) (dupOK_plSets hwf hacc)
    hm hamb

/-- … in the form the judge checks it: the enumeration of the derivations has at least two
entries -/
theorem makeParse_one_amb_sound_count {g : Grammar} {la : Nat} {w : List Nat} {fuel : Nat}
    {res : MP.Result} (hwf : g.WF) (hg : g.mpWF = true) (hcyc : ¬ Cyclic g)
    (hsr : g.symsInRange = true) (hacc : (BS.buildPLC g la w).1 = none)
    (hm : MP.makeParse g (plSets g la w) (plTokNums w) true fuel = .ok res)
    (hamb : res.amb = true) : 2 ≤ (derivations g (w ++ [g.eofT])).length := by
  obtain ⟨p, q, h1, h2, hne⟩ := makeParse_one_amb_sound hwf hg hacc hm hamb
  exact (two_le_length_derivations_acyclic hcyc hsr).mpr ⟨p, q, hne, h1, h2⟩

/-! ## soundness, all parses -/

/-- **The ambiguity flag is sound (all parses)**: when `make_parse` sets `*ambiguous_p` in
all-parses mode, the input has two different derivations. -/
theorem makeParse_all_amb_sound {g : Grammar} {la : Nat} {w : List Nat} {fuel : Nat}
    {res : MP.Result} (hwf : g.WF) (hacc : (BS.buildPLC g la w).1 = none)
    (hm : MP.makeParse g (plSets g la w) (plTokNums w) false fuel = .ok res)
    (hamb : res.amb = true) :
    ∃ pt1 pt2, PT.IsDerivation g (w ++ [g.eofT]) pt1 ∧ PT.IsDerivation g (w ++ [g.eofT]) pt2 ∧
      pt1 ≠ pt2 :=
  MP.makeParse_amb_sound_ctx (MP.ctxAll_plSets hacc).toS (dupOK_plSets hwf hacc) hm hamb

/-- the same for either mode, and without `mpWF` (the heap-free proof does not look at the tree) -/
theorem makeParse_amb_sound {g : Grammar} {la : Nat} {w : List Nat} {one : Bool} {fuel : Nat}
    {res : MP.Result} (hwf : g.WF) (hacc : (BS.buildPLC g la w).1 = none)
    (hm : MP.makeParse g (plSets g la w) (plTokNums w) one fuel = .ok res)
    (hamb : res.amb = true) :
    ∃ pt1 pt2, PT.IsDerivation g (w ++ [g.eofT]) pt1 ∧ PT.IsDerivation g (w ++ [g.eofT]) pt2 ∧
      pt1 ≠ pt2 := by
  cases one with
  | true =>
    exact MP.makeParse_amb_sound_ctx (MP.ctxOK_plSets hacc).toS (dupOK_plSets hwf hacc) hm hamb
  | false =>
    exact MP.makeParse_amb_sound_ctx (MP.ctxAll_plSets hacc).toS (dupOK_plSets hwf hacc) hm hamb

/-- … in the form the judge checks it -/
theorem makeParse_all_amb_sound_count {g : Grammar} {la : Nat} {w : List Nat} {fuel : Nat}
    {res : MP.Result} (hwf : g.WF) (hcyc : ¬ Cyclic g)
    (hsr : g.symsInRange = true) (hacc : (BS.buildPLC g la w).1 = none)
    (hm : MP.makeParse g (plSets g la w) (plTokNums w) false fuel = .ok res)
    (hamb : res.amb = true) : 2 ≤ (derivations g (w ++ [g.eofT])).length := by
  obtain ⟨p, q, h1, h2, hne⟩ := makeParse_all_amb_sound hwf hacc hm hamb
  exact (two_le_length_derivations_acyclic hcyc hsr).mpr ⟨p, q, hne, h1, h2⟩

/-! ## completeness, one parse -/

/-- **A run of `make_parse` (one parse) that leaves `*ambiguous_p` off returns the translation of
every derivation of the input.**  Hypotheses: the grammar is well formed (`WF`, `mpWF`,
`symsInRange`: all hold for every grammar `yaep_read_grammar` accepts), the input has no `error`
token, the parse succeeded. -/
theorem makeParse_one_unambiguous {g : Grammar} {la : Nat} {w : List Nat} {fuel : Nat}
    {res : MP.Result} (hwf : g.WF) (hg : g.mpWF = true) (hsr : g.symsInRange = true)
    (htok : g.errT ∉ w) (hacc : (BS.buildPLC g la w).1 = none)
    (hm : MP.makeParse g (plSets g la w) (plTokNums w) true fuel = .ok res)
    (hamb : res.amb = false) {pt : PT} (hpt : PT.IsDerivation g (w ++ [g.eofT]) pt) :
    denote (unfoldAt res.tab res.root) = [translate g pt] ∧
    (denoteTab res.tab).getD res.root [] = [translate g pt] :=
  MP.makeParse_one_unamb_ctx (MP.ctxOKc_plSets hacc) (MP.grOK_of_mpWF hg) hsr
    (okDer_laFilter hsr la _) (rootUniq_of_wf hwf htok) hm hamb hpt

/-- **The ambiguity flag is complete (one parse)**: if the input has two derivations with
different translations, `make_parse` sets `*ambiguous_p`. -/
theorem makeParse_one_amb_complete {g : Grammar} {la : Nat} {w : List Nat} {fuel : Nat}
    {res : MP.Result} (hwf : g.WF) (hg : g.mpWF = true) (hsr : g.symsInRange = true)
    (htok : g.errT ∉ w) (hacc : (BS.buildPLC g la w).1 = none)
    (hm : MP.makeParse g (plSets g la w) (plTokNums w) true fuel = .ok res)
    {pt1 pt2 : PT} (h1 : PT.IsDerivation g (w ++ [g.eofT]) pt1)
    (h2 : PT.IsDerivation g (w ++ [g.eofT]) pt2) (hne : translate g pt1 ≠ translate g pt2) :
    res.amb = true := by
  cases hamb : res.amb with
  | true => rfl
  | false =>
    have e1 := (makeParse_one_unambiguous hwf hg hsr htok hacc hm hamb h1).2
    have e2 := (makeParse_one_unambiguous hwf hg hsr htok hacc hm hamb h2).2
    rw [e1] at e2
    exact absurd (List.cons.inj e2).1 hne

/-- … in the form the judge checks it: all translations of the input are equal when the flag
is off -/
theorem makeParse_one_amb_complete_translations {g : Grammar} {la : Nat} {w : List Nat}
    {fuel : Nat} {res : MP.Result} (hwf : g.WF) (hg : g.mpWF = true) (hcyc : ¬ Cyclic g)
    (hsr : g.symsInRange = true) (htok : g.errT ∉ w) (hacc : (BS.buildPLC g la w).1 = none)
    (hm : MP.makeParse g (plSets g la w) (plTokNums w) true fuel = .ok res)
    (hamb : res.amb = false) :
    ∀ t ∈ (derivationsP g (w ++ [g.eofT])).map (translate g),
      (denoteTab res.tab).getD res.root [] = [t] := by
  intro t ht
  obtain ⟨pt, hpt, rfl⟩ := (mem_translations_iff_acyclic hcyc hsr t).mp ht
  exact (makeParse_one_unambiguous hwf hg hsr htok hacc hm hamb hpt).2

/-- **C05, completeness half, one parse, for every accepted grammar**: no hypothesis on the grammar
is left.  For a grammar `yaep_read_grammar` (model `readGrammar`) accepts and tokens that are
terminals of the user, if the parse succeeds and the input has two derivations with different
translations, the one-parse run of `make_parse` sets `*ambiguous_p`. -/
theorem accepted_amb_complete_one {raw : RawGrammar} {g : Grammar} {la : Nat} {w : List Nat}
    {fuel : Nat} {res : MP.Result} (h : readGrammar raw = .ok g) (htok : UserTokens g w)
    (hacc : (BS.buildPLC g la w).1 = none)
    (hm : MP.makeParse g (plSets g la w) (plTokNums w) true fuel = .ok res)
    {pt1 pt2 : PT} (h1 : PT.IsDerivation g (w ++ [g.eofT]) pt1)
    (h2 : PT.IsDerivation g (w ++ [g.eofT]) pt2) (hne : translate g pt1 ≠ translate g pt2) :
    res.amb = true :=
  makeParse_one_amb_complete (readGrammar_wf h) (readGrammar_mpWF h) (readGrammar_symsInRange h)
    (fun hm' => (htok _ hm').2 rfl) hacc hm h1 h2 hne

/-! ## completeness, all parses -/

/-- if the all-parses run leaves the flag off, so does the one-parse run on the same parse list
(the converse of "one parse sees a prefix of what all parses see"): the contexts the all-parses
walk visits form a set that is closed under the walk and in which every nonterminal has exactly
one candidate (`MP.Det`), and the one-parse walk never leaves such a set -/
theorem makeParse_all_unamb_one {g : Grammar} {la : Nat} {w : List Nat} {fuel fuel1 : Nat}
    {res res1 : MP.Result} (hg : g.mpWF = true) (hacc : (BS.buildPLC g la w).1 = none)
    (hm : MP.makeParse g (plSets g la w) (plTokNums w) false fuel = .ok res)
    (hamb : res.amb = false)
    (hm1 : MP.makeParse g (plSets g la w) (plTokNums w) true fuel1 = .ok res1) :
    res1.amb = false :=
  MP.all_unamb_one_unamb (MP.ctxAll_plSets hacc) (MP.grOK_of_mpWF hg) hm hamb hm1

/-- **The ambiguity flag is complete (all parses)**: if the input has two derivations with
different translations, `make_parse` in all-parses mode sets `*ambiguous_p`.  (Grammar without
cycles: the one-parse run, to which the statement is reduced, terminates.) -/
theorem makeParse_all_amb_complete {g : Grammar} {la : Nat} {w : List Nat} {fuel : Nat}
    {res : MP.Result} (hwf : g.WF) (hg : g.mpWF = true) (hcyc : ¬ Cyclic g)
    (hsr : g.symsInRange = true) (htok : g.errT ∉ w) (hacc : (BS.buildPLC g la w).1 = none)
    (hm : MP.makeParse g (plSets g la w) (plTokNums w) false fuel = .ok res)
    {pt1 pt2 : PT} (h1 : PT.IsDerivation g (w ++ [g.eofT]) pt1)
    (h2 : PT.IsDerivation g (w ++ [g.eofT]) pt2) (hne : translate g pt1 ≠ translate g pt2) :
    res.amb = true := by
  cases hamb : res.amb with
  | true => rfl
  | false =>
    obtain ⟨res1, hm1⟩ := makeParse_one_total (la := la) (w := w) hwf hg hcyc hsr hacc (Nat.le_refl _)
    have hamb1 := makeParse_all_unamb_one hg hacc hm hamb hm1
    have := makeParse_one_amb_complete hwf hg hsr htok hacc hm1 h1 h2 hne
    rw [hamb1] at this
    cases this

/-- a run in all-parses mode that leaves the flag off returns a forest whose trees all are the
translation of every derivation of the input -/
theorem makeParse_all_unambiguous {g : Grammar} {la : Nat} {w : List Nat} {fuel : Nat}
    {res : MP.Result} (hwf : g.WF) (hg : g.mpWF = true) (hcyc : ¬ Cyclic g)
    (hsr : g.symsInRange = true) (htok : g.errT ∉ w) (hacc : (BS.buildPLC g la w).1 = none)
    (hm : MP.makeParse g (plSets g la w) (plTokNums w) false fuel = .ok res)
    (hamb : res.amb = false) {pt : PT} (hpt : PT.IsDerivation g (w ++ [g.eofT]) pt) :
    ∀ t ∈ (denoteTab res.tab).getD res.root [], t = translate g pt := by
  intro t ht
  obtain ⟨pt', hpt', rfl⟩ := (makeParse_all_sound hg hacc hm).1 t ht
  obtain ⟨res1, hm1⟩ := makeParse_one_total (la := la) (w := w) hwf hg hcyc hsr hacc (Nat.le_refl _)
  have hamb1 := makeParse_all_unamb_one hg hacc hm hamb hm1
  have e1 := (makeParse_one_unambiguous hwf hg hsr htok hacc hm1 hamb1 hpt').2
  have e2 := (makeParse_one_unambiguous hwf hg hsr htok hacc hm1 hamb1 hpt).2
  rw [e1] at e2
  exact (List.cons.inj e2).1

/-! ## C05 for the one-parse mode -/

/-- **C05 for the model of `make_parse`, one parse.**  After a successful parse:
`*ambiguous_p` is set only if the input has two different derivations, and it is set whenever the
input has two derivations with different translations. -/
theorem makeParse_one_amb_flag {g : Grammar} {la : Nat} {w : List Nat} {fuel : Nat}
    {res : MP.Result} (hwf : g.WF) (hg : g.mpWF = true) (hsr : g.symsInRange = true)
    (htok : g.errT ∉ w) (hacc : (BS.buildPLC g la w).1 = none)
    (hm : MP.makeParse g (plSets g la w) (plTokNums w) true fuel = .ok res) :
    (res.amb = true → ∃ pt1 pt2, PT.IsDerivation g (w ++ [g.eofT]) pt1 ∧
      PT.IsDerivation g (w ++ [g.eofT]) pt2 ∧ pt1 ≠ pt2) ∧
    (∀ pt1 pt2, PT.IsDerivation g (w ++ [g.eofT]) pt1 → PT.IsDerivation g (w ++ [g.eofT]) pt2 →
      translate g pt1 ≠ translate g pt2 → res.amb = true) :=
  ⟨makeParse_one_amb_sound hwf hg hacc hm,
   fun _ _ h1 h2 hne => makeParse_one_amb_complete hwf hg hsr htok hacc hm h1 h2 hne⟩

/-- **C05, one parse, for every accepted grammar and sentence**: no hypothesis on the grammar is
left.  For a grammar `yaep_read_grammar` (model `readGrammar`) accepts, tokens that are terminals of
the user, a lookahead level 0 or 1 and a sentence `w`: with enough fuel the one-parse run of the
model of `make_parse` on the parse list of the model of `build_pl` succeeds, its flag is set only
if `w $eof` has two different derivations, and it is set whenever `w $eof` has two derivations
with different translations. -/
theorem accepted_amb_flag_one {raw : RawGrammar} {g : Grammar} {la : Nat} {w : List Nat} {fuel : Nat}
    (h : readGrammar raw = .ok g) (htok : UserTokens g w) (hla : la ≤ 1) (hs : Sentence g w)
    (hfuel : MP.mpFuel g (w.length + 1) ≤ fuel) :
    ∃ res, MP.makeParse g (plSets g la w) (plTokNums w) true fuel = .ok res ∧
      (res.amb = true → ∃ pt1 pt2, PT.IsDerivation g (w ++ [g.eofT]) pt1 ∧
        PT.IsDerivation g (w ++ [g.eofT]) pt2 ∧ pt1 ≠ pt2) ∧
      (∀ pt1 pt2, PT.IsDerivation g (w ++ [g.eofT]) pt1 → PT.IsDerivation g (w ++ [g.eofT]) pt2 →
        translate g pt1 ≠ translate g pt2 → res.amb = true) := by
  have hwf := readGrammar_wf h
  have hsr := readGrammar_symsInRange h
  have hacc : (BS.buildPLC g la w).1 = none := by
    have := (BS.acceptsC_iff_sentence hwf hsr htok hla).mpr hs
    unfold BS.acceptsC at this
    exact Option.isNone_iff_eq_none.mp this
  obtain ⟨res, hm⟩ := makeParse_one_total hwf (readGrammar_mpWF h) (readGrammar_semOK h).1 hsr hacc hfuel
  exact ⟨res, hm, makeParse_one_amb_flag hwf (readGrammar_mpWF h) hsr
    (fun hm' => (htok _ hm').2 rfl) hacc hm⟩

/-! ## C05 for the all-parses mode -/

/-- **C05 for the model of `make_parse`, all parses.** -/
theorem makeParse_all_amb_flag {g : Grammar} {la : Nat} {w : List Nat} {fuel : Nat}
    {res : MP.Result} (hwf : g.WF) (hg : g.mpWF = true) (hcyc : ¬ Cyclic g)
    (hsr : g.symsInRange = true) (htok : g.errT ∉ w) (hacc : (BS.buildPLC g la w).1 = none)
    (hm : MP.makeParse g (plSets g la w) (plTokNums w) false fuel = .ok res) :
    (res.amb = true → ∃ pt1 pt2, PT.IsDerivation g (w ++ [g.eofT]) pt1 ∧
      PT.IsDerivation g (w ++ [g.eofT]) pt2 ∧ pt1 ≠ pt2) ∧
    (∀ pt1 pt2, PT.IsDerivation g (w ++ [g.eofT]) pt1 → PT.IsDerivation g (w ++ [g.eofT]) pt2 →
      translate g pt1 ≠ translate g pt2 → res.amb = true) :=
  ⟨makeParse_all_amb_sound hwf hacc hm,
   fun _ _ h1 h2 hne => makeParse_all_amb_complete hwf hg hcyc hsr htok hacc hm h1 h2 hne⟩

/-- **C05 for every accepted grammar, "whether one parse or all parses were requested"**: for a
grammar `yaep_read_grammar` (model `readGrammar`) accepts, tokens that are terminals of the user,
an accepted input and a successful run of the model of `make_parse` in either mode, the flag is
set only if the input has two different derivations, and it is set whenever the input has two
derivations with different translations. -/
theorem accepted_amb_flag {raw : RawGrammar} {g : Grammar} {la : Nat} {w : List Nat} {one : Bool}
    {fuel : Nat} {res : MP.Result} (h : readGrammar raw = .ok g) (htok : UserTokens g w)
    (hacc : (BS.buildPLC g la w).1 = none)
    (hm : MP.makeParse g (plSets g la w) (plTokNums w) one fuel = .ok res) :
    (res.amb = true → ∃ pt1 pt2, PT.IsDerivation g (w ++ [g.eofT]) pt1 ∧
      PT.IsDerivation g (w ++ [g.eofT]) pt2 ∧ pt1 ≠ pt2) ∧
    (∀ pt1 pt2, PT.IsDerivation g (w ++ [g.eofT]) pt1 → PT.IsDerivation g (w ++ [g.eofT]) pt2 →
      translate g pt1 ≠ translate g pt2 → res.amb = true) := by
  have hwf := readGrammar_wf h
  have hsr := readGrammar_symsInRange h
  have hg := readGrammar_mpWF h
  have hte : g.errT ∉ w := fun hm' => (htok _ hm').2 rfl
  cases one with
  | true => exact makeParse_one_amb_flag hwf hg hsr hte hacc hm
  | false => exact makeParse_all_amb_flag hwf hg (readGrammar_semOK h).1 hsr hte hacc hm

/-! ## non-vacuity -/

/-- D9a (`S : A B # s(0)`, `A : 'a' # x | 'a' 'a' # y`, `B : 'a' 'a' | 'a'` on `a a a`): two
derivations with the translations `s(x)` and `s(y)`; the theorem says the flag of the run
`D9a.run_one` must be set (it is) -/
example : ∀ res, MP.makeParse D9a.g D9a.sets D9a.plToks true 100 = .ok res → res.amb = true := by
  intro res hm
  have hl : derivationsP D9a.g (D9a.w ++ [D9a.g.eofT]) =
      [.node 0 [.node 1 [.node 2 [.leaf 0 0], .node 4 [.leaf 0 1, .leaf 0 2]], .leaf 2 3],
       .node 0 [.node 1 [.node 3 [.leaf 0 0, .leaf 0 1], .node 5 [.leaf 0 2]], .leaf 2 3]] := by rfl
  refine makeParse_one_amb_complete (g := D9a.g) (la := 1) (w := D9a.w) (fuel := 100)
    (pt1 := .node 0 [.node 1 [.node 2 [.leaf 0 0], .node 4 [.leaf 0 1, .leaf 0 2]], .leaf 2 3])
    (pt2 := .node 0 [.node 1 [.node 3 [.leaf 0 0, .leaf 0 1], .node 5 [.leaf 0 2]], .leaf 2 3])
    (by decide) (by decide) (by decide) (by decide) (by decide)
    (by
      have h : plSets D9a.g 1 D9a.w = D9a.sets ∧ plTokNums D9a.w = D9a.plToks := by decide
      rw [h.1, h.2]; exact hm)
    ((derivationsP_complete_of_loopSet (by decide) (by decide) _).mp
      (by rw [hl]; exact List.mem_cons_self))
    ((derivationsP_complete_of_loopSet (by decide) (by decide) _).mp
      (by rw [hl]; exact List.mem_cons_of_mem _ List.mem_cons_self)) ?_
  intro h
  have h' : Tree.anode "s" 0 [.anode "x" 0 []] = Tree.anode "s" 0 [.anode "y" 0 []] := h
  injection h' with _ _ h3
  injection h3 with h4 _
  injection h4 with h5
  exact absurd h5 (by decide)

/-- … and the hypothesis is the run `D9a.run_one` -/
example : ∃ res, MP.makeParse D9a.g D9a.sets D9a.plToks true 100 = .ok res := ⟨_, D9a.run_one⟩

/-- `dupGrammar` on `y x x` (`Yaep/Props/MakeParseSound.lean`): two derivations, the run leaves the
flag off — so both have the translation the run returns -/
example : ∀ pt, PT.IsDerivation dupGrammar ([3, 2, 2] ++ [dupGrammar.eofT]) pt →
    ∃ res, MP.makeParse dupGrammar (plSets dupGrammar 0 [3, 2, 2]) (plTokNums [3, 2, 2]) true 1000 =
        .ok res ∧ (denoteTab res.tab).getD res.root [] = [translate dupGrammar pt] := by
  intro pt hpt
  have hrun : ∃ res, MP.makeParse dupGrammar (plSets dupGrammar 0 [3, 2, 2]) (plTokNums [3, 2, 2])
      true 1000 = .ok res ∧ res.amb = false := by
    cases hm : MP.makeParse dupGrammar (plSets dupGrammar 0 [3, 2, 2]) (plTokNums [3, 2, 2]) true 1000 with
    | ok res =>
      refine ⟨res, rfl, ?_⟩
      have : (match MP.makeParse dupGrammar (plSets dupGrammar 0 [3, 2, 2]) (plTokNums [3, 2, 2]) true 1000 with
        | .ok r => r.amb == false | _ => false) = true := by decide
      rw [hm] at this
      simpa using this
    | _ =>
      have : (match MP.makeParse dupGrammar (plSets dupGrammar 0 [3, 2, 2]) (plTokNums [3, 2, 2]) true 1000 with
        | .ok r => r.amb == false | _ => false) = true := by decide
      rw [hm] at this
      cases this
  obtain ⟨res, hm, hamb⟩ := hrun
  exact ⟨res, hm, (makeParse_one_unambiguous (g := dupGrammar) (la := 0) (by decide) (by decide)
    (by decide) (by decide) (by decide) hm hamb hpt).2⟩

/-- `S : 'b' A A; A : ε | 'a'` -/
def dup2Grammar : Grammar :=
  { rules := [ { lhs := 0, rhs := [.n 1, .t 1], transLen := 1, order := [some 0, none] },
               { lhs := 1, rhs := [.t 2, .n 2, .n 2], order := [none, none, none] },
               { lhs := 2, rhs := [], order := [] },
               { lhs := 2, rhs := [.t 3], order := [none] },
               { lhs := 0, rhs := [.t 0, .t 1], order := [none, none] } ],
    termNames := ["error", "$eof", "b", "a"], termCodes := [-1, -2, 98, 97],
    ntNames := ["$S", "S", "A"], errT := 0, eofT := 1, axiomN := 0, startN := 1 }

/-- the hypothesis `hnd` of `makeParse_one_amb_sound_partial` fails where it matters: on `b a` the
set after `a` holds the *completed* situation `S : 'b' A A ., 0` twice (once as a start situation,
once derived from `S : 'b' A . A`), both are reduce candidates of `$S : S . $eof`, and this is what
sets the flag -/
example : dup2Grammar.WF ∧ dup2Grammar.mpWF = true ∧ (BS.buildPLC dup2Grammar 0 [2, 3]).1 = none ∧
    ((plSets dup2Grammar 0 [2, 3]).getD 2 #[]).toList.count ⟨1, 3, 0⟩ = 2 ∧
    (match MP.makeParse dup2Grammar (plSets dup2Grammar 0 [2, 3]) (plTokNums [2, 3]) true 1000 with
      | .ok r => r.amb | _ => false) = true := by decide

/-- `makeParse_one_amb_sound` applies to it: `b a` has two derivations -/
example : ∃ pt1 pt2, PT.IsDerivation dup2Grammar ([2, 3] ++ [dup2Grammar.eofT]) pt1 ∧
    PT.IsDerivation dup2Grammar ([2, 3] ++ [dup2Grammar.eofT]) pt2 ∧ pt1 ≠ pt2 := by
  cases hm : MP.makeParse dup2Grammar (plSets dup2Grammar 0 [2, 3]) (plTokNums [2, 3]) true 1000 with
  | ok res =>
    have : (match MP.makeParse dup2Grammar (plSets dup2Grammar 0 [2, 3]) (plTokNums [2, 3]) true 1000 with
      | .ok r => r.amb | _ => false) = true := by decide
    rw [hm] at this
    exact makeParse_one_amb_sound (g := dup2Grammar) (la := 0) (by decide) (by decide) (by decide)
      hm this
  | _ =>
    have : (match MP.makeParse dup2Grammar (plSets dup2Grammar 0 [2, 3]) (plTokNums [2, 3]) true 1000 with
      | .ok r => r.amb | _ => false) = true := by decide
    rw [hm] at this
    cases this

/-! ## all parses: non-vacuity -/

/-- D9a, all parses: the theorem says the flag of `D9a.run_all` must be set (it is) -/
example : ∀ res, MP.makeParse D9a.g D9a.sets D9a.plToks false 100 = .ok res → res.amb = true := by
  intro res hm
  have hl : derivationsP D9a.g (D9a.w ++ [D9a.g.eofT]) =
      [.node 0 [.node 1 [.node 2 [.leaf 0 0], .node 4 [.leaf 0 1, .leaf 0 2]], .leaf 2 3],
       .node 0 [.node 1 [.node 3 [.leaf 0 0, .leaf 0 1], .node 5 [.leaf 0 2]], .leaf 2 3]] := by rfl
  refine makeParse_all_amb_complete (g := D9a.g) (la := 1) (w := D9a.w) (fuel := 100)
    (pt1 := .node 0 [.node 1 [.node 2 [.leaf 0 0], .node 4 [.leaf 0 1, .leaf 0 2]], .leaf 2 3])
    (pt2 := .node 0 [.node 1 [.node 3 [.leaf 0 0, .leaf 0 1], .node 5 [.leaf 0 2]], .leaf 2 3])
    (by decide) (by decide) (fun h => loopSet_ne_nil_of_cyclic D9a.g h (by decide)) (by decide)
    (by decide) (by decide)
    (by
      have h : plSets D9a.g 1 D9a.w = D9a.sets ∧ plTokNums D9a.w = D9a.plToks := by decide
      rw [h.1, h.2]; exact hm)
    ((derivationsP_complete_of_loopSet (by decide) (by decide) _).mp
      (by rw [hl]; exact List.mem_cons_self))
    ((derivationsP_complete_of_loopSet (by decide) (by decide) _).mp
      (by rw [hl]; exact List.mem_cons_of_mem _ List.mem_cons_self)) ?_
  intro h
  have h' : Tree.anode "s" 0 [.anode "x" 0 []] = Tree.anode "s" 0 [.anode "y" 0 []] := h
  injection h' with _ _ h3
  injection h3 with h4 _
  injection h4 with h5
  exact absurd h5 (by decide)

example : ∃ res, MP.makeParse D9a.g D9a.sets D9a.plToks false 100 = .ok res := ⟨_, D9a.run_all⟩

/-- `dup2Grammar` on `b a`, all parses: the flag is set (by the repeated completed situation), so
`b a` has two derivations -/
example : ∃ pt1 pt2, PT.IsDerivation dup2Grammar ([2, 3] ++ [dup2Grammar.eofT]) pt1 ∧
    PT.IsDerivation dup2Grammar ([2, 3] ++ [dup2Grammar.eofT]) pt2 ∧ pt1 ≠ pt2 := by
  cases hm : MP.makeParse dup2Grammar (plSets dup2Grammar 0 [2, 3]) (plTokNums [2, 3]) false 1000 with
  | ok res =>
    have : (match MP.makeParse dup2Grammar (plSets dup2Grammar 0 [2, 3]) (plTokNums [2, 3]) false 1000 with
      | .ok r => r.amb | _ => false) = true := by decide
    rw [hm] at this
    exact makeParse_all_amb_sound (g := dup2Grammar) (la := 0) (by decide) (by decide) hm this
  | _ =>
    have : (match MP.makeParse dup2Grammar (plSets dup2Grammar 0 [2, 3]) (plTokNums [2, 3]) false 1000 with
      | .ok r => r.amb | _ => false) = true := by decide
    rw [hm] at this
    cases this

/-- `dupGrammar` on `y x x`, all parses: two derivations, flag off; `makeParse_all_unamb_one`
applies (its hypothesis `res.amb = false` is satisfiable) -/
example : dupGrammar.mpWF = true ∧ (BS.buildPLC dupGrammar 0 [3, 2, 2]).1 = none ∧
    (match MP.makeParse dupGrammar (plSets dupGrammar 0 [3, 2, 2]) (plTokNums [3, 2, 2]) false 1000 with
      | .ok r => r.amb == false | _ => false) = true := by decide

/-! ## the hypothesis "no `error` token in the input" is needed

`S : error # x` and the input consisting of the single token `error` (not a token of the user:
`UserTokens` excludes it): the derivations `$S : S $eof` (translation `x()`) and
`$S : error $eof` (translation `nil`) are both in the last set, `make_parse` starts from the first
situation of that set without looking at the other, and the flag stays off in both modes. -/

def errTokGrammar : Grammar :=
  { rules := [ { lhs := 0, rhs := [.n 1, .t 1], transLen := 1, order := [some 0, none] },
               { lhs := 1, rhs := [.t 0], anode := some "x", order := [none] },
               { lhs := 0, rhs := [.t 0, .t 1], order := [none, none] } ],
    termNames := ["error", "$eof"], termCodes := [-1, -2],
    ntNames := ["$S", "S"], errT := 0, eofT := 1, axiomN := 0, startN := 1 }

example : errTokGrammar.WF ∧ errTokGrammar.mpWF = true ∧ errTokGrammar.symsInRange = true ∧
    (BS.buildPLC errTokGrammar 0 [0]).1 = none ∧
    (match MP.makeParse errTokGrammar (plSets errTokGrammar 0 [0]) (plTokNums [0]) true 1000 with
      | .ok r => r.amb == false | _ => false) = true ∧
    (match MP.makeParse errTokGrammar (plSets errTokGrammar 0 [0]) (plTokNums [0]) false 1000 with
      | .ok r => r.amb == false | _ => false) = true ∧
    ((derivationsP errTokGrammar [0, 1]).map fun d => (translate errTokGrammar d).str) =
      ["x:0()", "nil"] := by decide

end Yaep
