import Yaep.Props.MakeParseComplete
import Yaep.Props.LaIndep2
/-!
# C03 at lookahead level 2: the all-parses forest built from the dynamic-lookahead list

`makeParse_indep_of_la2` says that `make_parse` on the level-2 list (contexts dropped) has literally
the outcome it has on the level-0 list — the event counters `reuse`, `origins` included.  So the
equality "denoted set = set of translations of all derivations" for event-free runs
(`accepted_makeParse_all_eventfree`) holds at level 2 as well: together with C09 this is C03 for all
three lookahead levels of the library.
-/
namespace Yaep
open Yaep.LI

/-- an event-free all-parses run on the level-2 list denotes exactly the translations of all
derivations of the input -/
theorem accepted_makeParse_all_eventfree_la2 {raw : RawGrammar} {g : Grammar} {w : List Nat}
    {fuel : Nat} {res : MP.Result} (h : readGrammar raw = .ok g) (htok : UserTokens g w)
    (hs : Sentence g w)
    (hm : MP.makeParse g (plSets2 g w) (plTokNums w) false fuel = .ok res)
    (hev : res.reuse = 0 ∧ res.origins = 0) (t : Tree) :
    (t ∈ (denoteTab res.tab).getD res.root [] ↔
      ∃ pt, PT.IsDerivation g (w ++ [g.eofT]) pt ∧ translate g pt = t) ∧
    (t ∈ (denoteTab res.tab).getD res.root [] ↔
      t ∈ (derivationsP g (w ++ [g.eofT])).map (translate g)) := by
  rw [makeParse_indep_of_la2 h htok hs false fuel] at hm
  exact accepted_makeParse_all_eventfree h htok (li2_accepted_buildPLC_none h htok (Nat.zero_le _) hs) hm hev t

/-- the run exists (explicit fuel) and, if it counted no event, is exact -/
theorem accepted_makeParse_all_complete_la2 {raw : RawGrammar} {g : Grammar} {w : List Nat} {fuel : Nat}
    (h : readGrammar raw = .ok g) (htok : UserTokens g w) (hs : Sentence g w)
    (hfuel : MP.mpAllFuel g (w.length + 1) ≤ fuel) :
    ∃ res, MP.makeParse g (plSets2 g w) (plTokNums w) false fuel = .ok res ∧
      (res.reuse = 0 ∧ res.origins = 0 → ∀ t,
        (t ∈ (denoteTab res.tab).getD res.root [] ↔
          ∃ pt, PT.IsDerivation g (w ++ [g.eofT]) pt ∧ translate g pt = t)) := by
  obtain ⟨res, hm, _⟩ := accepted_makeParse_all (la := 0) h htok (Nat.zero_le _) hs hfuel
  refine ⟨res, by rw [makeParse_indep_of_la2 h htok hs false fuel]; exact hm, fun hev t => ?_⟩
  exact (accepted_makeParse_all_eventfree h htok (li2_accepted_buildPLC_none h htok (Nat.zero_le _) hs) hm hev t).1

end Yaep
