import Yaep.Model.SitTable
/-!
# `sit_create` never leaves its table, whatever context number it is asked for

C12 (no out-of-bounds access, no use of uninitialised memory) and C14 (a parse does not depend
on what earlier parses of the object left behind) for the situation table: for every table with
rows of the right width, every context number and every offset below the width, `sit_create` is
defined, the rows it adds are all cleared, old cells keep their content, and asking again
returns the same situation.  The two seeded changes that lived here are kept as tests.
-/
namespace Yaep.ST

theorem growBy_enough (level2 : Bool) {have_ ctx : Nat} (h : have_ ≤ ctx) : ctx < have_ + growBy level2 have_ ctx := by
  unfold growBy
  simp only
  split
  · rename_i hc
    have : ctx - have_ + 1 = 1 := by
      simp only [Bool.and_eq_true, beq_iff_eq] at hc; exact hc.2
    omega
  · omega

theorem rows_after (level2 : Bool) (width : Nat) (t : Tab) (ctx : Nat) :
    ctx < (if ctx < t.rows.length then t.rows
           else t.rows ++ List.replicate (growBy level2 t.rows.length ctx) (List.replicate width none)).length := by
  split
  · assumption
  · rename_i h
    simp only [List.length_append, List.length_replicate]
    exact growBy_enough level2 (by omega)

theorem wf_after {width : Nat} {t : Tab} (hw : t.Wf width) (n : Nat) :
    ∀ row ∈ t.rows ++ List.replicate n (List.replicate width (none : Option Nat)), row.length = width := by
  intro row hr
  rcases List.mem_append.mp hr with h | h
  · exact hw row h
  · rw [List.eq_of_mem_replicate h]; simp

/-- **`sit_create` is defined**: the row exists after the growth step and the offset lies inside it -/
theorem sitCreate_defined (level2 : Bool) {width : Nat} {t : Tab} (hw : t.Wf width) (ctx : Nat) {off : Nat}
    (ho : off < width) : ∃ r, sitCreate level2 width t ctx off = some r := by
  unfold sitCreate sitCreateWith
  simp only
  have hlen := rows_after level2 width t ctx
  generalize hrows : (if ctx < t.rows.length then t.rows
      else t.rows ++ List.replicate (growBy level2 t.rows.length ctx) (List.replicate width none)) = rows at *
  have hwf : ∀ row ∈ rows, row.length = width := by
    rw [← hrows]; split
    · exact hw
    · exact wf_after hw _
  rw [List.getElem?_eq_getElem hlen]
  have hrow := hwf _ (List.getElem_mem hlen)
  simp only
  rw [List.getElem?_eq_getElem (by omega)]
  cases rows[ctx][off] <;> exact ⟨_, rfl⟩

/-- the table keeps rows of the right width -/
theorem sitCreate_wf (level2 : Bool) {width : Nat} {t : Tab} (hw : t.Wf width) {ctx off : Nat} {r : Tab × Nat}
    (h : sitCreate level2 width t ctx off = some r) : r.1.Wf width := by
  unfold sitCreate sitCreateWith at h
  simp only at h
  generalize hrows : (if ctx < t.rows.length then t.rows
      else t.rows ++ List.replicate (growBy level2 t.rows.length ctx) (List.replicate width none)) = rows at *
  have hwf : ∀ row ∈ rows, row.length = width := by
    rw [← hrows]; split
    · exact hw
    · exact wf_after hw _
  split at h
  · cases h
  · cases h; exact hwf
  · cases h
    intro row hr
    unfold setCell at hr
    rcases List.mem_or_eq_of_mem_set hr with h1 | h1
    · exact hwf row h1
    · rw [h1, List.length_set]
      by_cases hc : ctx < rows.length
      · rw [List.getD_eq_getElem?_getD, List.getElem?_eq_getElem hc]; exact hwf _ (List.getElem_mem hc)
      · rename_i heq
        rw [List.getElem?_eq_none (by omega)] at heq; cases heq

/-- asking again for the same (context, offset) returns the same situation and changes nothing:
situations exist in one exemplar -/
theorem sitCreate_again (level2 : Bool) {width : Nat} {t : Tab} {ctx off : Nat} {r : Tab × Nat}
    (h : sitCreate level2 width t ctx off = some r) :
    sitCreate level2 width r.1 ctx off = some (r.1, r.2) := by
  unfold sitCreate sitCreateWith at h ⊢
  simp only at h ⊢
  generalize hrows : (if ctx < t.rows.length then t.rows
      else t.rows ++ List.replicate (growBy level2 t.rows.length ctx) (List.replicate width none)) = rows at *
  split at h
  · cases h
  · rename_i n heq
    cases h
    simp only
    have hc : ctx < rows.length := by
      by_cases hc : ctx < rows.length
      · exact hc
      · rw [List.getElem?_eq_none (by omega)] at heq; cases heq
    rw [if_pos hc, heq]
  · rename_i heq
    cases h
    simp only
    have hc : ctx < rows.length := by
      by_cases hc : ctx < rows.length
      · exact hc
      · rw [List.getElem?_eq_none (by omega)] at heq; cases heq
    have hl : ctx < (setCell rows ctx off (t.nSits + 1)).length := by simp [setCell, hc]
    rw [if_pos hl]
    rw [List.getElem?_eq_getElem hc] at heq
    simp only at heq
    have ho : off < rows[ctx].length := by
      by_cases ho : off < rows[ctx].length
      · exact ho
      · rw [List.getElem?_eq_none (by omega)] at heq; cases heq
    have : (setCell rows ctx off (t.nSits + 1))[ctx]? = some (rows[ctx].set off (some (t.nSits + 1))) := by
      simp [setCell, hc, List.getD_eq_getElem?_getD]
    rw [this]
    simp only
    rw [List.getElem?_set_self (by simpa using ho)]

/-- TESTS (by evaluation): the seeded change C14-6 — growth by a fixed number of rows — leaves
the table when a later parse asks first for a high context (rows exist for contexts 0..9 only),
the present code is defined there; and a fresh table at level 1 gets exactly one row -/
theorem c14_6_witness :
    sitCreateFixed true 3 {} 25 1 = none ∧ (sitCreate true 3 {} 25 1).isSome = true ∧
    ((sitCreate false 3 {} 0 2).map fun r => (r.1.rows.length, r.2)) = some (1, 1) ∧
    ((sitCreate true 3 {} 0 2).map fun r => (r.1.rows.length, r.2)) = some (10, 1) := by decide

/-! non-vacuity -/
example : ({ rows := [[none, some 1, none]], nSits := 1 } : Tab).Wf 3 := by
  intro row hr; simp at hr; subst hr; rfl
example : ∃ r, sitCreate true 3 { rows := [[none, some 1, none]], nSits := 1 } 4 2 = some r :=
  sitCreate_defined true (by intro row hr; simp at hr; subst hr; rfl) 4 (by decide)

end Yaep.ST
