import Yaep.Model.MakeParse
import Yaep.Model.Earley
import Yaep.Model.Chart
import Yaep.Model.ReadGrammar
import Yaep.Lemmas.MakeParse
import Yaep.Props.C03
/-!
# The step-for-step model of `make_parse` (`Model/MakeParse.lean`)

* concrete runs of the model (kernel evaluation, labelled as tests);
* **`makeParse_forest_incomplete`** — the recorded finding D9 stated for the model: there is
  a grammar, an input and its Earley parse list for which the all-parses forest built by the
  algorithm of `make_parse` denotes a *strict* subset of the translations of the input
  (D9a: an untranslated symbol with candidates of several origins; D9b: a reused abstract
  node loses the split that `copy_anode` attached to the first parent only);
* general facts: the result of the main loop does not depend on the fuel once it suffices
  (`run_fuel_mono`, `makeParse_fuel_mono`), the exported table is a topological order with
  the root in range (`exportTable_wf`, `makeParse_tableWF`), so that `denoteTab_spec` (C03)
  applies to it.

The correspondence of the model with the C function is the deep tie of the judge
(`judgeMakeParse`): ambiguity flag and exported node table equal, line by line.
-/
namespace Yaep

/-! ## D9a: `S : A B # s(0)`, `A : 'a' # x | 'a' 'a' # y`, `B : 'a' 'a' | 'a'` on `a a a` -/
namespace D9a

/-- the grammar as the callbacks deliver it -/
def raw : RawGrammar :=
  ⟨[("a", 97)],
   [⟨"S", ["A", "B"], some "s", 0, some [0]⟩,
    ⟨"A", ["a"], some "x", 0, some []⟩,
    ⟨"A", ["a", "a"], some "y", 0, some []⟩,
    ⟨"B", ["a", "a"], none, 0, none⟩,
    ⟨"B", ["a"], none, 0, none⟩], false⟩

/-- terminals: `a` 0, `error` 1, `$eof` 2; nonterminals: `S` 0, `$S` 1, `A` 2, `B` 3 -/
def g : Grammar :=
  { rules := [
      { lhs := 1, rhs := [.n 0, .t 2], transLen := 1, order := [some 0, none] },
      { lhs := 0, rhs := [.n 2, .n 3], anode := some "s", transLen := 1, order := [some 0, none] },
      { lhs := 2, rhs := [.t 0], anode := some "x", order := [none] },
      { lhs := 2, rhs := [.t 0, .t 0], anode := some "y", order := [none, none] },
      { lhs := 3, rhs := [.t 0, .t 0], order := [none, none] },
      { lhs := 3, rhs := [.t 0], order := [none] },
      { lhs := 1, rhs := [.t 1, .t 2], order := [none, none] } ],
    termNames := ["a", "error", "$eof"], termCodes := [97, -2, -1],
    ntNames := ["S", "$S", "A", "B"], errT := 1, eofT := 2, axiomN := 1, startN := 0 }

/-- `yaep_read_grammar` (model) accepts the description and builds `g` -/
example : (match readGrammar raw with | .ok g' => g'.rules == g.rules && g'.termCodes == g.termCodes
            && g'.errT == g.errT && g'.eofT == g.eofT && g'.axiomN == g.axiomN | .error _ => false) = true := by
  decide

/-- the input `a a a` -/
def w : List Nat := [0, 0, 0]

/-- the parse list as the hook dumps it (situations in the order of the C set cores) -/
def sets : Array (Array Item) := #[
  #[⟨6, 0, 0⟩, ⟨0, 0, 0⟩, ⟨1, 0, 0⟩, ⟨3, 0, 0⟩, ⟨2, 0, 0⟩],
  #[⟨3, 1, 0⟩, ⟨2, 1, 0⟩, ⟨1, 1, 0⟩, ⟨5, 0, 1⟩, ⟨4, 0, 1⟩],
  #[⟨3, 2, 0⟩, ⟨4, 1, 1⟩, ⟨1, 1, 0⟩, ⟨5, 0, 2⟩, ⟨4, 0, 2⟩],
  #[⟨4, 2, 1⟩, ⟨5, 1, 2⟩, ⟨1, 2, 0⟩, ⟨0, 1, 0⟩],
  #[⟨0, 2, 0⟩]]

def plToks : Array Int := #[-1, 0, 1, 2, 3]

/-- `l₁` and `l₂` have the same elements -/
def sameItems (l₁ l₂ : List Item) : Bool := l₁.all (l₂.contains ·) && l₂.all (l₁.contains ·)

/-- the dump is, set by set, the parse list of the Earley model (which is proved to be the
Earley relation, `buildPL_computes_EarleyF`) at lookahead level 1 -/
theorem sets_are_the_parse_list :
    (buildPL g 1 w).1 = none ∧ (buildPL g 1 w).2.length = sets.size ∧
    ∀ j, j < sets.size → sameItems (sets.getD j #[]).toList ((buildPL g 1 w).2.getD j []) = true := by
  decide

/-- all parses: the forest is the single tree `s(x)` (what the library returns, corpus of the
judge: `node 0 anode x 0`, `node 1 anode s 0 0`, `root 1`, ambiguity flag set, hook event
"origins" once) -/
theorem run_all :
    MP.makeParse g sets plToks false 100 =
      .ok { amb := true, tab := #[.anode "x" 0 [], .anode "s" 0 [0]], root := 1, reuse := 0, origins := 1,
            nilUsed := false, errUsed := false, heapSize := 5,
            allocs := [.node, .node, .anode 2, .name 1, .anode 1, .name 1] } := by
  rfl

/-- one parse: the same tree, the flag is set when the second candidate is seen -/
theorem run_one :
    MP.makeParse g sets plToks true 100 =
      .ok { amb := true, tab := #[.anode "x" 0 [], .anode "s" 0 [0]], root := 1, reuse := 0, origins := 0,
            nilUsed := false, errUsed := false, heapSize := 5,
            allocs := [.node, .node, .anode 2, .name 1, .anode 1, .name 1] } := by
  rfl



/-- 8 iterations of the main loop suffice, 7 do not -/
example : (MP.makeParse g sets plToks false 7 matches .outOfFuel) = true := by decide
example : (MP.makeParse g sets plToks false 8 matches .ok _) = true := by decide

/-- the two translations of `a a a` -/
theorem translations :
    (derivationsP g (w ++ [g.eofT])).map (translate g) =
      [.anode "s" 0 [.anode "x" 0 []], .anode "s" 0 [.anode "y" 0 []]] := by
  rfl

end D9a

/-! ## D9b: `S : 'c' T # u(1) | 'c' T # v(1)`, `T : A B # t(0 1)`, `A : 'a' # x | 'a' 'a' # y`,
`B : 'a' 'a' # w | 'a' # z` on `c a a a` -/
namespace D9b

/-- terminals: `a` 0, `c` 1, `error` 2, `$eof` 3; nonterminals: `S` 0, `$S` 1, `T` 2, `A` 3, `B` 4 -/
def g : Grammar :=
  { rules := [
      { lhs := 1, rhs := [.n 0, .t 3], transLen := 1, order := [some 0, none] },
      { lhs := 0, rhs := [.t 1, .n 2], anode := some "u", transLen := 1, order := [none, some 0] },
      { lhs := 0, rhs := [.t 1, .n 2], anode := some "v", transLen := 1, order := [none, some 0] },
      { lhs := 2, rhs := [.n 3, .n 4], anode := some "t", transLen := 2, order := [some 0, some 1] },
      { lhs := 3, rhs := [.t 0], anode := some "x", order := [none] },
      { lhs := 3, rhs := [.t 0, .t 0], anode := some "y", order := [none, none] },
      { lhs := 4, rhs := [.t 0, .t 0], anode := some "w", order := [none, none] },
      { lhs := 4, rhs := [.t 0], anode := some "z", order := [none] },
      { lhs := 1, rhs := [.t 2, .t 3], order := [none, none] } ],
    termNames := ["a", "c", "error", "$eof"], termCodes := [97, 99, -2, -1],
    ntNames := ["S", "$S", "T", "A", "B"], errT := 2, eofT := 3, axiomN := 1, startN := 0 }

def w : List Nat := [1, 0, 0, 0]

def sets : Array (Array Item) := #[
  #[⟨8, 0, 0⟩, ⟨0, 0, 0⟩, ⟨2, 0, 0⟩, ⟨1, 0, 0⟩],
  #[⟨2, 1, 0⟩, ⟨1, 1, 0⟩, ⟨3, 0, 1⟩, ⟨5, 0, 1⟩, ⟨4, 0, 1⟩],
  #[⟨5, 1, 1⟩, ⟨4, 1, 1⟩, ⟨3, 1, 1⟩, ⟨7, 0, 2⟩, ⟨6, 0, 2⟩],
  #[⟨5, 2, 1⟩, ⟨6, 1, 2⟩, ⟨3, 1, 1⟩, ⟨7, 0, 3⟩, ⟨6, 0, 3⟩],
  #[⟨6, 2, 2⟩, ⟨7, 1, 3⟩, ⟨3, 2, 1⟩, ⟨2, 2, 0⟩, ⟨1, 2, 0⟩, ⟨0, 1, 0⟩],
  #[⟨0, 2, 0⟩]]

def plToks : Array Int := #[-1, 0, 1, 2, 3, 4]

theorem sets_are_the_parse_list :
    (buildPL g 1 w).1 = none ∧ (buildPL g 1 w).2.length = sets.size ∧
    ∀ j, j < sets.size → D9a.sameItems (sets.getD j #[]).toList ((buildPL g 1 w).2.getD j []) = true := by
  decide

/-- the forest the library returns for this input (10 exported nodes, hook event "reuse"
once): `u` gets both splits of `t`, `v` only the one that was built first -/
theorem run_all :
    MP.makeParse g sets plToks false 100 =
      .ok { amb := true,
            tab := #[.anode "y" 0 [], .anode "z" 0 [], .anode "t" 0 [0, 1], .anode "x" 0 [], .anode "w" 0 [],
                     .anode "t" 0 [3, 4], .alt [2, 5], .anode "u" 0 [6], .anode "v" 0 [5], .alt [7, 8]],
            root := 9, reuse := 1, origins := 0, nilUsed := false, errUsed := false, heapSize := 15,
            allocs := [.node, .node, .anode 2, .name 1, .anode 2, .name 1, .node, .node, .anode 3, .name 1,
                       .anode 1, .name 1, .anode 3, .node, .node, .anode 1, .name 1, .anode 1, .name 1,
                       .anode 1, .name 1] } := by
  rfl

end D9b

/-! ## a parse list after error recovery: `S : 'a' 'b' # p(0 1) | error 'b' # e(0 - 1)` (cost 2)
on `b b a b`: the first three tokens are ignored, list element 2 is token 3 -/
namespace Rec

/-- terminals: `a` 0, `b` 1, `error` 2, `$eof` 3; nonterminals: `S` 0, `$S` 1 -/
def g : Grammar :=
  { rules := [
      { lhs := 1, rhs := [.n 0, .t 3], transLen := 1, order := [some 0, none] },
      { lhs := 0, rhs := [.t 0, .t 1], anode := some "p", transLen := 2, order := [some 0, some 1] },
      { lhs := 0, rhs := [.t 2, .t 1], anode := some "e", cost := 2, transLen := 3, order := [some 0, some 2] },
      { lhs := 1, rhs := [.t 2, .t 3], order := [none, none] } ],
    termNames := ["a", "b", "error", "$eof"], termCodes := [97, 98, -2, -1],
    ntNames := ["S", "$S"], errT := 2, eofT := 3, axiomN := 1, startN := 0 }

/-- the final parse list: `error` shift, `b` (token 3), `$eof` (token 4) -/
def sets : Array (Array Item) := #[
  #[⟨3, 0, 0⟩, ⟨0, 0, 0⟩, ⟨2, 0, 0⟩, ⟨1, 0, 0⟩],
  #[⟨3, 1, 0⟩, ⟨2, 1, 0⟩],
  #[⟨2, 2, 0⟩, ⟨0, 1, 0⟩],
  #[⟨0, 2, 0⟩]]

def plToks : Array Int := #[-1, -1, 3, 4]

/-- the tree `e(err nil b@3)`: one ERROR node, the NIL node for the unfilled slot, the attribute
of the terminal is the token number, not the list index; exported children first -/
theorem run_all :
    MP.makeParse g sets plToks false 100 =
      .ok { amb := false, tab := #[.err, .nil, .term 98 3, .anode "e" 2 [0, 1, 2]], root := 3,
            reuse := 0, origins := 0, nilUsed := true, errUsed := true, heapSize := 5,
            allocs := [.node, .node, .anode 4, .name 1, .node] } := by
  rfl

example : MP.renderTable #[.err, .nil, .term 98 3, .anode "e" 2 [0, 1, 2]] 3 =
    ["node 0 err", "node 1 nil", "node 2 term 98 3", "node 3 anode e 2 0 1 2", "root 3"] := by decide

end Rec

/-! ## the finding -/

/-- `denoted ⊂ translations`, strictly -/
def StrictSubset (denoted translations : List Tree) : Prop :=
  (∀ t, t ∈ denoted → t ∈ translations) ∧ ∃ t, t ∈ translations ∧ t ∉ denoted

/-- The forest built by the algorithm of `make_parse` can miss translations.  The statement
quantifies over what the judge of C03 looks at: a grammar, an input, the parse list of the
input (the sets of the proved Earley model, in some order), the result of the model of
`make_parse` in all-parses mode, the trees its node table denotes (`denoteTab`) and the
translations of all derivations of the input (`derivationsP`, `translate`). -/
def ForestIncomplete (g : Grammar) (w : List Nat) (sets : Array (Array Item)) (plToks : Array Int) : Prop :=
  ((buildPL g 1 w).1 = none ∧ (buildPL g 1 w).2.length = sets.size ∧
    ∀ j, j < sets.size → D9a.sameItems (sets.getD j #[]).toList ((buildPL g 1 w).2.getD j []) = true) ∧
  ∃ fuel r, MP.makeParse g sets plToks false fuel = .ok r ∧
    StrictSubset ((denoteTab r.tab).getD r.root []) ((derivationsP g (w ++ [g.eofT])).map (translate g))

/-- D9a: the translation `s(y)` of `a a a` is not in the forest -/
theorem makeParse_forest_incomplete_D9a : ForestIncomplete D9a.g D9a.w D9a.sets D9a.plToks := by
  refine ⟨D9a.sets_are_the_parse_list, 100, _, D9a.run_all, ?_⟩
  rw [D9a.translations]
  have hd : (denoteTab #[NodeRec.anode "x" 0 [], NodeRec.anode "s" 0 [0]]).getD 1 [] =
      [Tree.anode "s" 0 [.anode "x" 0 []]] := by rfl
  show StrictSubset ((denoteTab #[NodeRec.anode "x" 0 [], NodeRec.anode "s" 0 [0]]).getD 1 []) _
  rw [hd]
  refine ⟨?_, .anode "s" 0 [.anode "y" 0 []], ?_, ?_⟩
  · intro t ht; simp at ht; simp [ht]
  · simp
  · simp

/-- D9b: the translation `v(t(y z))` of `c a a a` is not in the forest -/
theorem makeParse_forest_incomplete_D9b : ForestIncomplete D9b.g D9b.w D9b.sets D9b.plToks := by
  refine ⟨D9b.sets_are_the_parse_list, 100, _, D9b.run_all, ?_⟩
  have htr : (derivationsP D9b.g (D9b.w ++ [D9b.g.eofT])).map (translate D9b.g) =
      [.anode "u" 0 [.anode "t" 0 [.anode "x" 0 [], .anode "w" 0 []]],
       .anode "u" 0 [.anode "t" 0 [.anode "y" 0 [], .anode "z" 0 []]],
       .anode "v" 0 [.anode "t" 0 [.anode "x" 0 [], .anode "w" 0 []]],
       .anode "v" 0 [.anode "t" 0 [.anode "y" 0 [], .anode "z" 0 []]]] := by rfl
  rw [htr]
  have hd : (denoteTab #[NodeRec.anode "y" 0 [], .anode "z" 0 [], .anode "t" 0 [0, 1], .anode "x" 0 [], .anode "w" 0 [],
                     .anode "t" 0 [3, 4], .alt [2, 5], .anode "u" 0 [6], .anode "v" 0 [5], .alt [7, 8]]).getD 9 [] =
      [.anode "u" 0 [.anode "t" 0 [.anode "y" 0 [], .anode "z" 0 []]],
       .anode "u" 0 [.anode "t" 0 [.anode "x" 0 [], .anode "w" 0 []]],
       .anode "v" 0 [.anode "t" 0 [.anode "x" 0 [], .anode "w" 0 []]]] := by rfl
  show StrictSubset ((denoteTab #[NodeRec.anode "y" 0 [], .anode "z" 0 [], .anode "t" 0 [0, 1], .anode "x" 0 [], .anode "w" 0 [],
                     .anode "t" 0 [3, 4], .alt [2, 5], .anode "u" 0 [6], .anode "v" 0 [5], .alt [7, 8]]).getD 9 []) _
  rw [hd]
  refine ⟨?_, .anode "v" 0 [.anode "t" 0 [.anode "y" 0 [], .anode "z" 0 []]], ?_, ?_⟩
  · intro t ht; simp at ht; rcases ht with h | h | h <;> simp [h]
  · simp
  · simp

/-- **Known finding D9, for the model of `make_parse`**: there are a grammar, an input and its
parse list for which the all-parses forest denotes a strict subset of the translations. -/
theorem makeParse_forest_incomplete :
    ∃ (g : Grammar) (w : List Nat) (sets : Array (Array Item)) (plToks : Array Int),
      ForestIncomplete g w sets plToks :=
  ⟨_, _, _, _, makeParse_forest_incomplete_D9a⟩

/-! ## general facts about the model -/

/-- the result does not depend on the fuel once the main loop has finished within it -/
theorem makeParse_fuel_independent (g : Grammar) (sets : Array (Array Item)) (plToks : Array Int)
    (one : Bool) (f k : Nat) (h : MP.makeParse g sets plToks one f ≠ .outOfFuel) :
    MP.makeParse g sets plToks one (f + k) = MP.makeParse g sets plToks one f :=
  MP.makeParse_fuel_mono g sets plToks one f k h

/-- the main loop ends with an empty stack -/
theorem run_ends_with_empty_stack (c : MP.Ctx) (f : Nat) (s s' : MP.St) (h : MP.run c f s = some s') :
    s'.stack = [] :=
  MP.run_stack_empty c f s s' h

/-- whatever the parse list: the node table the model exports is a topological order
(children before parents, hence acyclic) and contains the root -/
theorem makeParse_table_wellformed {g : Grammar} {sets : Array (Array Item)} {plToks : Array Int}
    {one : Bool} {fuel : Nat} {res : MP.Result} (hm : MP.makeParse g sets plToks one fuel = .ok res) :
    tableWF res.tab = true ∧ res.root < res.tab.size :=
  MP.makeParse_tableWF hm

/-- … so the fold the judge uses computes the denotation of the unfolded forest (C03) -/
theorem makeParse_denote {g : Grammar} {sets : Array (Array Item)} {plToks : Array Int}
    {one : Bool} {fuel : Nat} {res : MP.Result} (hm : MP.makeParse g sets plToks one fuel = .ok res) :
    (denoteTab res.tab)[res.root]! = denote (unfoldAt res.tab res.root) :=
  denoteTab_spec_at (makeParse_table_wellformed hm).1 (makeParse_table_wellformed hm).2

/-! non-vacuity -/
example : MP.makeParse D9a.g D9a.sets D9a.plToks false (8 + 92) = MP.makeParse D9a.g D9a.sets D9a.plToks false 8 :=
  makeParse_fuel_independent _ _ _ _ 8 92 (by
    intro h
    have : (MP.makeParse D9a.g D9a.sets D9a.plToks false 8 matches .outOfFuel) = false := by decide
    rw [h] at this; cases this)
example : tableWF #[NodeRec.anode "x" 0 [], NodeRec.anode "s" 0 [0]] = true ∧ 1 < 2 :=
  makeParse_table_wellformed D9a.run_all
example : (denoteTab #[NodeRec.anode "x" 0 [], NodeRec.anode "s" 0 [0]])[1]! =
    denote (unfoldAt #[NodeRec.anode "x" 0 [], NodeRec.anode "s" 0 [0]] 1) :=
  makeParse_denote D9a.run_all

end Yaep
