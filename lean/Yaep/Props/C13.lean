import Yaep.Lemmas.FreeTree
import Yaep.Lemmas.Examples
/-!
# C13 — `yaep_free_tree` releases every block of the parse DAG exactly once and calls the
terminal callback exactly once per TERM node

`freeTree` (`Yaep/Model/FreeTree.lean`) models the two passes of `yaep_free_tree` over the
exported node table: `reduce` (= `free_tree_reduce`: mark, unlink references to marked nodes,
decide which abstract node keeps its name) and `sweep` (= `free_tree_sweep`: free the
remaining tree).  `freeTree_exactly_once` is the contract; it holds for all blocks: the
"name seen" flag is a byte of its own after the terminating NUL of the name, so the block of
an *empty* abstract-node name is kept by the first node that reaches it and released exactly
once, like every other name (`freeTree_frees_empty_name`).
-/
namespace Yaep

/-- no event (free of a block, terminal callback) happens twice -/
theorem freeTree_events_nodup {tab : Array NodeRec} (hwf : tableWF tab = true) {root : Nat}
    (hr : root < tab.size) : (freeTree tab root).Nodup := by
  obtain ⟨_, hlog, _⟩ := freeTree_log hwf hr
  exact hlog.nodup

/-- a `NULL` root: nothing happens -/
theorem freeTree_null {tab : Array NodeRec} {root : Nat} (hr : tab.size ≤ root) :
    freeTree tab root = [] := by
  simp [freeTree, Nat.not_lt.2 hr]

/-- every block reachable from the root is freed exactly once, nothing else is freed, and
the terminal callback is called exactly once for every reachable TERM node and for nothing
else -/
theorem freeTree_exactly_once {tab : Array NodeRec} (hwf : tableWF tab = true) {root : Nat}
    (hr : root < tab.size) :
    (freedBlocks (freeTree tab root)).Nodup ∧
    (∀ b, b ∈ freedBlocks (freeTree tab root) ↔ BlockLive tab root b) ∧
    (termCalls (freeTree tab root)).Nodup ∧
    (∀ k, k ∈ termCalls (freeTree tab root) ↔
      (Reach tab root k ∧ ∃ c a, tab.getD k .bad = .term c a)) := by
  obtain ⟨st', hlog, hvis⟩ := freeTree_log hwf hr
  have hnew : ∀ k, (k ∈ st'.visited ∧ k ∉ ({} : FState).visited) ↔ Reach tab root k := by
    intro k; rw [hvis]; simp
  refine ⟨freedBlocks_nodup hlog.nodup, ?_, termCalls_nodup hlog.nodup, ?_⟩
  · intro b
    rw [mem_freedBlocks]
    cases b with
    | node k =>
      simp only [BlockLive]
      constructor
      · intro h
        obtain ⟨h1, _, h3⟩ := hlog.ownV _ h k rfl
        refine ⟨(hvis k).1 h1, ?_⟩
        intro as has
        simp [nodeEvents, has] at h3
      · rintro ⟨h1, h2⟩
        apply hlog.allV k ((hvis k).2 h1) (by simp)
        unfold nodeEvents
        split
        · simp
        · rename_i as has; exact absurd has (h2 as)
        · simp
    | cell k p =>
      simp only [BlockLive]
      constructor
      · intro h
        obtain ⟨h1, _, h3⟩ := hlog.ownV _ h k rfl
        refine ⟨(hvis k).1 h1, ?_⟩
        unfold nodeEvents at h3
        split at h3
        · simp at h3
        · rename_i as has
          simp at h3
          exact ⟨as, has, h3⟩
        · simp at h3
      · rintro ⟨h1, as, has, hp⟩
        apply hlog.allV k ((hvis k).2 h1) (by simp)
        simp [nodeEvents, has, hp]
    | name s =>
      simp only [BlockLive]
      constructor
      · intro h
        obtain ⟨h1, _⟩ := hlog.ownS _ h s rfl
        rcases (hlog.seenIff s).1 h1 with h0 | ⟨k, hk, _, c, ks, hc⟩
        · simp at h0
        · exact ⟨k, c, ks, (hvis k).1 hk, hc⟩
      · rintro ⟨k, c, ks, hk, hc⟩
        apply hlog.allS s _ (by simp)
        exact (hlog.seenIff s).2 (.inr ⟨k, (hvis k).2 hk, by simp, c, ks, hc⟩)
  · intro k
    rw [mem_termCalls]
    constructor
    · intro h
      obtain ⟨h1, _, h3⟩ := hlog.ownV _ h k rfl
      refine ⟨(hvis k).1 h1, ?_⟩
      unfold nodeEvents at h3
      split at h3
      · rename_i c a hc; exact ⟨c, a, hc⟩
      · simp at h3
      · simp at h3
    · rintro ⟨h1, c, a, hc⟩
      apply hlog.allV k ((hvis k).2 h1) (by simp)
      simp [nodeEvents, hc]

/-- "exactly once" as a count: a block of the DAG occurs once in the list of freed blocks,
every other block does not occur -/
theorem freeTree_freed_count {tab : Array NodeRec} (hwf : tableWF tab = true) {root : Nat}
    (hr : root < tab.size) (b : Block) :
    (BlockLive tab root b → (freedBlocks (freeTree tab root)).count b = 1) ∧
    (¬ BlockLive tab root b → (freedBlocks (freeTree tab root)).count b = 0) := by
  obtain ⟨hnd, hmem, _, _⟩ := freeTree_exactly_once hwf hr
  constructor
  · intro h
    rw [hnd.count, if_pos ((hmem b).2 h)]
  · intro h
    exact List.count_eq_zero.2 fun hb => h ((hmem b).1 hb)

/-- exactly the blocks of the DAG are freed, whether or not an abstract node has the empty
name -/
theorem freeTree_exactly_once_blockOf {tab : Array NodeRec} (hwf : tableWF tab = true)
    {root : Nat} (hr : root < tab.size) (b : Block) :
    b ∈ freedBlocks (freeTree tab root) ↔ BlockOf tab root b := by
  rw [(freeTree_exactly_once hwf hr).2.1 b]
  cases b with
  | node k => rfl
  | cell k p => rfl
  | name s => rfl

/-- the former form of `freeTree_exactly_once_blockOf`; the hypothesis `noEmptyName` is no
longer needed -/
theorem freeTree_exactly_once_noEmptyName {tab : Array NodeRec} (hwf : tableWF tab = true)
    (_hne : noEmptyName tab = true) {root : Nat} (hr : root < tab.size) (b : Block) :
    b ∈ freedBlocks (freeTree tab root) ↔ BlockOf tab root b :=
  freeTree_exactly_once_blockOf hwf hr b

/-- the block of an empty abstract-node name is released (exactly once) iff a reachable
abstract node has the empty name; it used to leak (the statement of the former
`freeTree_leaks_empty_name`, `Block.name "" ∉ freedBlocks (freeTree tab root)`, is false
now) -/
theorem freeTree_frees_empty_name {tab : Array NodeRec} (hwf : tableWF tab = true) {root : Nat}
    (hr : root < tab.size) :
    (Block.name "" ∈ freedBlocks (freeTree tab root) ↔
      ∃ k c ks, Reach tab root k ∧ tab.getD k .bad = .anode "" c ks) ∧
    ((∃ k c ks, Reach tab root k ∧ tab.getD k .bad = .anode "" c ks) →
      (freedBlocks (freeTree tab root)).count (.name "") = 1) := by
  refine ⟨(freeTree_exactly_once hwf hr).2.1 _, fun h => ?_⟩
  exact (freeTree_freed_count hwf hr _).1 h

/-- the callback of a TERM node comes before the node is freed -/
theorem freeTree_termcb_then_free {tab : Array NodeRec} (hwf : tableWF tab = true) {root : Nat}
    (hr : root < tab.size) {k : Nat} (hk : k ∈ termCalls (freeTree tab root)) :
    Block.node k ∈ freedBlocks (freeTree tab root) := by
  obtain ⟨h1, c, a, hc⟩ := ((freeTree_exactly_once hwf hr).2.2.2 k).1 hk
  rw [(freeTree_exactly_once hwf hr).2.1]
  exact ⟨h1, fun as has => by rw [hc] at has; cases has⟩

/-! ## allocation traces -/

/-- `traceOK` decides the allocation discipline: in every prefix, every block has been
freed at most as often as allocated and is allocated at most once more than freed -/
theorem traceOK_spec (evs : List Ev) : traceOK evs = true ↔ Disciplined evs :=
  traceOK_iff evs

/-- in particular no block is freed twice in a row or before it is allocated -/
theorem traceOK_no_double_free {evs : List Ev} (h : traceOK evs = true) (n id : Nat) :
    Ev.frees id (evs.take n) ≤ Ev.allocs id (evs.take n) :=
  ((traceOK_spec evs).1 h n id).1

/-- allocate all blocks of the DAG (numbered injectively) in any order, then run `yaep_free_tree`: the
trace obeys the discipline and leaves nothing allocated -/
theorem freeTree_trace_noLeak {tab : Array NodeRec} (hwf : tableWF tab = true) {root : Nat}
    (hr : root < tab.size) (num : Block → Nat) (blocks : List Block) (hnd : blocks.Nodup)
    (hinj : ∀ a ∈ blocks, ∀ b ∈ blocks, num a = num b → a = b)
    (hall : ∀ b, b ∈ blocks ↔ BlockLive tab root b) :
    traceNoLeak ((blocks.map fun b => Ev.alloc (num b)) ++
      (freedBlocks (freeTree tab root)).map fun b => Ev.free (num b)) = true := by
  obtain ⟨hfn, hfm, _, _⟩ := freeTree_exactly_once hwf hr
  have hA : (blocks.map num).Nodup := nodup_map_inj_on hnd hinj
  have hB : ((freedBlocks (freeTree tab root)).map num).Nodup :=
    nodup_map_inj_on hfn fun a ha b hb =>
      hinj a ((hall a).2 ((hfm a).1 ha)) b ((hall b).2 ((hfm b).1 hb))
  have e1 : (blocks.map fun b => Ev.alloc (num b)) = (blocks.map num).map Ev.alloc := by simp
  have e2 : ((freedBlocks (freeTree tab root)).map fun b => Ev.free (num b)) =
      ((freedBlocks (freeTree tab root)).map num).map Ev.free := by simp
  simp only [traceNoLeak, beq_iff_eq]
  rw [e1, e2, traceRun_append, traceRun_allocs _ [] hA (by simp)]
  simp only [Option.bind_some, List.append_nil]
  apply traceRun_frees _ _ hB (nodup_reverse_of hA)
  intro x
  simp only [List.mem_map, List.mem_reverse]
  constructor
  · rintro ⟨b, hb, rfl⟩; exact ⟨b, (hall b).2 ((hfm b).1 hb), rfl⟩
  · rintro ⟨b, hb, rfl⟩; exact ⟨b, (hfm b).2 ((hall b).1 hb), rfl⟩

/-! ## non-vacuity -/

namespace C13Ex

example : tableWF tab = true := by decide
example : freeTree tab 5 =
    [.free (.name "top"), .free (.name "x"), .termcb 0, .free (.node 0), .free (.node 2),
     .free (.cell 4 0), .termcb 1, .free (.node 1), .free (.node 3), .free (.cell 4 1),
     .free (.node 5)] := by decide
/-- the first pass: the second reference to the ALT node, the second and third reference to
the leaf `a` are unlinked; the second `x` does not keep the name -/
example : (reduce tab 6 {} 5).2 =
    .anode 5 (some "top") [.alt 4 [.anode 2 (some "x") [.leaf 0 true],
      .anode 3 none [.leaf 1 true]]] := by rfl
example : (freeTree tab 5).Nodup := freeTree_events_nodup (by decide) (by decide)
example : (freedBlocks (freeTree tab 5)).Nodup :=
  (freeTree_exactly_once (tab := tab) (by decide) (by decide)).1
example : termCalls (freeTree tab 5) = [0, 1] := by decide
example : Block.cell 4 1 ∈ freedBlocks (freeTree tab 5) :=
  ((freeTree_exactly_once (tab := tab) (by decide) (by decide)).2.1 _).2
    ⟨.step (c := 4) (by decide) (.refl 4), [2, 3], rfl, by decide⟩
/-- the shared leaf is reachable along three paths and freed once -/
example : BlockLive tab 5 (.node 0) :=
  ((freeTree_exactly_once (tab := tab) (by decide) (by decide)).2.1 _).1 (by decide)
example : (freedBlocks (freeTree tab 5)).count (.node 0) = 1 := by decide
/-- entry 1 is not reachable from entry 2, so its block is not freed by `freeTree tab 2` -/
example : ¬ Reach tab 2 1 := fun h =>
  absurd (((freeTree_exactly_once (tab := tab) (root := 2) (by decide) (by decide)).2.2.2 1).2
    ⟨h, 98, 1, rfl⟩) (by decide)
example : Block.name "x" ∈ freedBlocks (freeTree tab 5) :=
  (freeTree_exactly_once_noEmptyName (tab := tab) (by decide) (by decide) (by decide) _).2
    ⟨2, 1, [0], .step (c := 4) (by decide) (.step (c := 2) (by decide) (.refl 2)), rfl⟩
example : Block.node 1 ∈ freedBlocks (freeTree tab 5) :=
  freeTree_termcb_then_free (tab := tab) (by decide) (by decide) (by decide)
example : freeTree tab 6 = [] := freeTree_null (by decide)

example : Block.name "x" ∈ freedBlocks (freeTree tab 5) :=
  (freeTree_exactly_once_blockOf (tab := tab) (by decide) (by decide) _).2
    ⟨2, 1, [0], .step (c := 4) (by decide) (.step (c := 2) (by decide) (.refl 2)), rfl⟩
example : (freedBlocks (freeTree tab 5)).count (.name "x") = 1 :=
  (freeTree_freed_count (tab := tab) (by decide) (by decide) _).1
    ⟨2, 1, [0], .step (c := 4) (by decide) (.step (c := 2) (by decide) (.refl 2)), rfl⟩
example : (freedBlocks (freeTree tab 5)).count (.name "y") = 0 := by decide

/-- the empty name is released like every other name -/
example : noEmptyName tabE = false := by decide
example : freeTree tabE 1 =
    [.free (.name ""), .termcb 0, .free (.node 0), .free (.node 1)] := by decide
example : Block.name "" ∈ freedBlocks (freeTree tabE 1) :=
  ((freeTree_frees_empty_name (tab := tabE) (by decide) (by decide)).1).2
    ⟨1, 0, [0], .refl 1, rfl⟩
example : (freedBlocks (freeTree tabE 1)).count (.name "") = 1 :=
  (freeTree_frees_empty_name (tab := tabE) (by decide) (by decide)).2
    ⟨1, 0, [0], .refl 1, rfl⟩
/-- two abstract nodes with the empty name share one name block: it is freed exactly once
(by the first of them that the walk reaches), the second node does not keep it -/
example : tableWF tabE2 = true := by decide
example : (freeTree tabE2 4).count (.free (.name "")) = 1 := by decide
example : (freedBlocks (freeTree tabE2 4)).count (.name "") = 1 := by decide
example : freeTree tabE2 4 =
    [.free (.name "top"), .free (.name ""), .termcb 0, .free (.node 0), .free (.node 2),
     .termcb 1, .free (.node 1), .free (.node 3), .free (.node 4)] := by decide
example : (reduce tabE2 5 {} 4).2 =
    .anode 4 (some "top") [.anode 2 (some "") [.leaf 0 true],
      .anode 3 none [.leaf 1 true]] := by rfl

example : traceOK [.alloc 1, .alloc 2, .free 1, .alloc 1, .free 2, .free 1] = true := by decide
example : traceOK [.alloc 1, .free 1, .free 1] = false := by decide
example : traceOK [.free 1] = false := by decide
example : traceOK [.alloc 1, .alloc 1] = false := by decide
example : traceNoLeak [.alloc 1, .alloc 2, .free 1] = false := by decide
example : Disciplined [.alloc 1, .alloc 2, .free 1] := (traceOK_spec _).1 (by decide)
example : ¬ Disciplined [.alloc 1, .free 1, .free 1] := fun h =>
  absurd ((traceOK_spec _).2 h) (by decide)
example : Ev.frees 1 ([Ev.alloc 1, .free 1, .alloc 1].take 2) ≤
    Ev.allocs 1 ([Ev.alloc 1, .free 1, .alloc 1].take 2) :=
  traceOK_no_double_free (by decide) 2 1

/-- allocate the blocks in the reverse order of their release, then free the tree -/
example : traceNoLeak (((freedBlocks (freeTree tab 5)).reverse.map fun b => Ev.alloc (num b)) ++
    (freedBlocks (freeTree tab 5)).map fun b => Ev.free (num b)) = true :=
  freeTree_trace_noLeak (tab := tab) (by decide) (by decide) num _
    (nodup_reverse_of (freeTree_exactly_once (tab := tab) (by decide) (by decide)).1)
    (by decide)
    (fun b => by
      rw [List.mem_reverse]
      exact (freeTree_exactly_once (tab := tab) (by decide) (by decide)).2.1 b)

end C13Ex

end Yaep
