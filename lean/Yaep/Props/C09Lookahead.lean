import Yaep.Lemmas.Earley2
import Yaep.Lemmas.Earley2C
import Yaep.Props.C01
/-!
# C09 (lookahead part) — the verdict does not depend on the lookahead level (0, 1, 2)

`buildPL2` (`Yaep/Model/Earley2.lean`) is the parse list at lookahead level 2 (dynamic
lookahead: items carry a context).  Stripped of their contexts, its items are items of the
unfiltered declarative Earley sets (`buildPL2_sound`) — so level 2 accepts only sentences
(`accepts2_sound`).  Conversely the dynamic contexts never remove an item that lies on a
derivation of the whole input (`accepts2_complete`; the invariant is that the context of an
item covers the terminals that can follow it in *this* derivation), so level 2 accepts
exactly the sentences, as levels 0 and 1 do (`verdict_indep_of_la012`), and — if every
nonterminal is productive — reports the same first error (`firstError_indep_of_la012`).

The proof of completeness (`Yaep/Lemmas/Earley2C.lean`) also shows that the fuels of the model
suffice for well-formed grammars: `ctxFix` stops at a fixpoint, `startLoop` processes its
whole list (the contexts of a parse list are determined by rule and origin, which bounds the
number of items), `derived2` and the saturation of `initStep` are complete.
-/
namespace Yaep

/-! ## soundness -/

/-- every item of every set of the level-2 parse list, without its context, belongs to the
unfiltered declarative Earley set of the same index -/
theorem buildPL2_sound (g : Grammar) (w : List Nat) (j : Nat) (hj : j < (buildPL2 g w).2.length)
    (it : Item2) (hit : it ∈ (buildPL2 g w).2[j]) :
    EarleyF g (fun _ _ _ => true) (w ++ [g.eofT]) j ⟨it.rule, it.dot, it.origin⟩ := by
  have h := (buildPL2_sound_aux g w).1 j hj it
  rw [List.getD_eq_getElem?_getD, List.getElem?_eq_getElem hj] at h
  exact h hit

/-- hence: the part of the rule before the dot derives the input between origin and `j` -/
theorem buildPL2_item_der (g : Grammar) (w : List Nat) (j : Nat)
    (hj : j < (buildPL2 g w).2.length) (it : Item2) (hit : it ∈ (buildPL2 g w).2[j]) :
    ∃ rl, g.rules[it.rule]? = some rl ∧ it.dot ≤ rl.rhs.length ∧ it.origin ≤ j ∧
      Der g (rl.rhs.take it.dot) (slice (w ++ [g.eofT]) it.origin j) :=
  (buildPL2_sound g w j hj it hit).sound

/-- level 2 accepts only sentences -/
theorem accepts2_sound {g : Grammar} {w : List Nat} (hwf : g.WF)
    (htok : ∀ a ∈ w, a ≠ g.eofT ∧ a ≠ g.errT) (h : accepts2 g w = true) : Sentence g w := by
  unfold accepts2 at h
  rw [Option.isNone_iff_eq_none] at h
  have hall := (buildPL2_sound_aux g w).2 h
  exact sentence_of_trans_eof hwf (fun hmem => (htok _ hmem).2 rfl)
    (hall w.length (by rw [List.length_append, List.length_singleton]; exact Nat.lt_succ_self _))


example : c01Grammar.WF ∧ (∀ a ∈ [2, 2, 3, 3], a ≠ c01Grammar.eofT ∧ a ≠ c01Grammar.errT) ∧
    accepts2 c01Grammar [2, 2, 3, 3] = true := by decide +kernel

/-! ## completeness -/

/-- level 2 accepts every sentence: the contexts never filter an item that is needed -/
theorem accepts2_complete {g : Grammar} {w : List Nat} (hwf : g.WF)
    (hsr : g.symsInRange = true) (hs : Sentence g w) : accepts2 g w = true := by
  unfold accepts2
  rw [Option.isNone_iff_eq_none]
  exact buildPL2_complete hwf hsr hs

/-- level 2 accepts exactly the sentences -/
theorem accepts2_iff_sentence {g : Grammar} {w : List Nat} (hwf : g.WF)
    (hsr : g.symsInRange = true) (htok : ∀ a ∈ w, a ≠ g.eofT ∧ a ≠ g.errT) :
    accepts2 g w = true ↔ Sentence g w :=
  ⟨accepts2_sound hwf htok, accepts2_complete hwf hsr⟩

/-- The verdict does not depend on the lookahead level (0, 1 or 2). -/
theorem verdict_indep_of_la012 {g : Grammar} {w : List Nat} (hwf : g.WF)
    (hsr : g.symsInRange = true) (htok : ∀ a ∈ w, a ≠ g.eofT ∧ a ≠ g.errT) :
    accepts g 0 w = accepts2 g w ∧ accepts g 1 w = accepts2 g w :=
  ⟨Bool.eq_iff_iff.mpr
      ((accepts_iff_sentence_la0 hwf htok).trans (accepts2_iff_sentence hwf hsr htok).symm),
    Bool.eq_iff_iff.mpr
      ((accepts_iff_sentence_la1 hwf hsr htok).trans (accepts2_iff_sentence hwf hsr htok).symm)⟩

/-! ## the first error -/

/-- If every nonterminal is productive, the token reported at level 2 is the first token `k`
such that `w'[0..k]` cannot be continued to a sentence followed by the end marker — the same
characterisation as at levels 0 and 1 (`firstError_iff_viable`). -/
theorem firstError2_iff_viable {g : Grammar} {w : List Nat} (hwf : g.WF)
    (hsr : g.symsInRange = true) (hprod : ∀ A, A < g.nN → A ∈ g.productive)
    (htok : ∀ a ∈ w, a ≠ g.eofT ∧ a ≠ g.errT) (k : Nat) :
    (buildPL2 g w).1 = some k ↔
      k < (w ++ [g.eofT]).length ∧
      (¬ ∃ v, Der g [Sym.n g.startN, Sym.t g.eofT] ((w ++ [g.eofT]).take (k + 1) ++ v)) ∧
      ∀ m, m < k →
        ∃ v, Der g [Sym.n g.startN, Sym.t g.eofT] ((w ++ [g.eofT]).take (m + 1) ++ v) :=
  buildPL2_error_iff hwf hsr hprod htok k

/-- Levels 0, 1 and 2 report the same first error (or none). -/
theorem firstError_indep_of_la012 {g : Grammar} {w : List Nat} (hwf : g.WF)
    (hsr : g.symsInRange = true) (hprod : ∀ A, A < g.nN → A ∈ g.productive)
    (htok : ∀ a ∈ w, a ≠ g.eofT ∧ a ≠ g.errT) {la : Nat} (hla : la ≤ 1) :
    (buildPL2 g w).1 = (buildPL g la w).1 := by
  apply Option.ext
  intro k
  rw [firstError2_iff_viable hwf hsr hprod htok k, firstError_iff_viable hwf hsr hprod htok hla k]

/-! ## non-vacuity: a grammar on which the three levels build different sets

Terminals `0 = error`, `1 = $eof`, `2 = a`, `3 = b`, `4 = c`, `5 = d`; nonterminals
`0 = $S`, `1 = S`, `2 = A`; rules `$S : S $eof`, `S : A a`, `S : b A c`, `A : d`,
`$S : error $eof`.  `FOLLOW(A) = {a, c}`, but the `A` predicted at the beginning of the input
can only be followed by `a`.  On the input `d c`, after the shift of `d`: level 0 keeps
`A : d .` and `S : A . a`, level 1 keeps `A : d .` only (`c ∈ FOLLOW(A)`), level 2 keeps
nothing (the context of `A : . d` is `{a}`).  All three report token 1. -/

def c09Grammar : Grammar :=
  { rules := [ { lhs := 0, rhs := [.n 1, .t 1] },
               { lhs := 1, rhs := [.n 2, .t 2] },
               { lhs := 1, rhs := [.t 3, .n 2, .t 4] },
               { lhs := 2, rhs := [.t 5] },
               { lhs := 0, rhs := [.t 0, .t 1] } ],
    termNames := ["error", "$eof", "a", "b", "c", "d"], termCodes := [-1, -2, 97, 98, 99, 100],
    ntNames := ["$S", "S", "A"], errT := 0, eofT := 1, axiomN := 0, startN := 1 }

example : c09Grammar.WF ∧ c09Grammar.symsInRange = true ∧
    (∀ A, A < c09Grammar.nN → A ∈ c09Grammar.productive) := by decide
/-- the contexts of the predicted items of set 0 -/
example : (buildPL2 c09Grammar [5, 4]).2[0]! =
    [⟨0, 0, 0, []⟩, ⟨4, 0, 0, []⟩, ⟨1, 0, 0, [1]⟩, ⟨2, 0, 0, [1]⟩, ⟨3, 0, 0, [2]⟩] := by
  decide +kernel
/-- set 1 at the three levels -/
example : (buildPL c09Grammar 0 [5, 4]).2[1]! = [⟨3, 1, 0⟩, ⟨1, 1, 0⟩] ∧
    (buildPL c09Grammar 1 [5, 4]).2[1]! = [⟨3, 1, 0⟩] ∧
    (buildPL2 c09Grammar [5, 4]).2[1]! = [] := by decide +kernel
example : (buildPL c09Grammar 0 [5, 4]).1 = some 1 ∧ (buildPL c09Grammar 1 [5, 4]).1 = some 1 ∧
    (buildPL2 c09Grammar [5, 4]).1 = some 1 := by decide +kernel
example : (buildPL2 c09Grammar [5, 4]).1 = (buildPL c09Grammar 1 [5, 4]).1 :=
  firstError_indep_of_la012 (g := c09Grammar) (by decide) (by decide) (by decide) (by decide)
    (Nat.le_refl 1)
/-- in the other context the same item passes: `b d c` is accepted -/
example : accepts2 c09Grammar [3, 5, 4] = true := by decide +kernel
example : (buildPL2 c09Grammar [3, 5, 4]).2[2]! = [⟨3, 1, 1, [4]⟩, ⟨2, 2, 0, [1]⟩] := by
  decide +kernel
example : Sentence c09Grammar [3, 5, 4] :=
  accepts2_sound (g := c09Grammar) (by decide) (by decide) (by decide +kernel)
example : accepts2 c09Grammar [5, 2] = true :=
  accepts2_complete (g := c09Grammar) (by decide) (by decide)
    ((accepts_iff_sentence_la0 (g := c09Grammar) (by decide) (by decide)).mp (by decide +kernel))
example : ¬ Sentence c09Grammar [5, 4] := fun h =>
  absurd ((accepts2_iff_sentence (g := c09Grammar) (by decide) (by decide) (by decide)).mpr h)
    (by decide +kernel)
example : accepts c09Grammar 0 [3, 5, 4] = accepts2 c09Grammar [3, 5, 4] ∧
    accepts c09Grammar 1 [3, 5, 4] = accepts2 c09Grammar [3, 5, 4] :=
  verdict_indep_of_la012 (g := c09Grammar) (by decide) (by decide) (by decide)
example : (buildPL2 c09Grammar [3, 5, 2]).1 = some 2 := by decide +kernel
example : ¬ ∃ v, Der c09Grammar [Sym.n 1, Sym.t 1] (([3, 5, 2] ++ [1]).take (2 + 1) ++ v) :=
  ((firstError2_iff_viable (g := c09Grammar) (w := [3, 5, 2]) (by decide) (by decide)
    (by decide) (by decide) 2).mp (by decide +kernel)).2.1
/-- every item of the level-2 sets is a declarative Earley item -/
example : EarleyF c09Grammar (fun _ _ _ => true) ([3, 5, 4] ++ [1]) 2 ⟨3, 1, 1⟩ :=
  buildPL2_sound c09Grammar [3, 5, 4] 2 (by decide +kernel) ⟨3, 1, 1, [4]⟩ (by decide +kernel)
example : ∃ rl, c09Grammar.rules[2]? = some rl ∧ 2 ≤ rl.rhs.length ∧ 0 ≤ 2 ∧
    Der c09Grammar (rl.rhs.take 2) (slice ([3, 5, 4] ++ [1]) 0 2) :=
  buildPL2_item_der c09Grammar [3, 5, 4] 2 (by decide +kernel) ⟨2, 2, 0, [1]⟩ (by decide +kernel)

end Yaep
