import Yaep.Lemmas.Descr
import Yaep.Props.C10
/-!
# C11: `yaep_parse_grammar` on a text in the documented syntax behaves like
`yaep_read_grammar` on the denoted grammar

`DescrAST`, `denoteDescr`, `WfAST`, `render`, `Layout`, `GoodLayout` are in
`Yaep/Spec/DescrAST.lean`.  A well-formed description `d` has many texts `render d ℓ`: the
layout `ℓ` chooses the white space / comments between the tokens and the optional semicolons.
For every one of them the model of `yaep_parse_grammar` (`descrToRaw`, `parseDescr`) yields
exactly `denoteDescr d` resp. `readGrammar (denoteDescr d)`.  Every other outcome is an error code
from the documented set; the functions are total (no crash).  (Line numbers of error messages
are not part of the model.)
-/
namespace Yaep

/-! ## an example description -/

/-- ```
TERM NUM = 300 ID PLUS
expr : expr '+' term # plus 2 (0 - 2) | term # 0
TERM NUM = 300 STAR = 256
term : NUM # | ID | '(' expr ')' # paren | # -
``` -/
def dEx : DescrAST :=
  [.terms [("NUM", some 300), ("ID", none), ("PLUS", none)],
   .rule "expr" [⟨[.ident "expr", .chr 43, .ident "term"],
                  .anode "plus" (some 2) (some [some 0, none, some 2])⟩,
                 ⟨[.ident "term"], .num 0⟩],
   .terms [("NUM", some 300), ("STAR", some 256)],
   .rule "term" [⟨[.ident "NUM"], .hash⟩, ⟨[.ident "ID"], .none⟩,
                 ⟨[.chr 40, .ident "expr", .chr 41], .anode "paren" none none⟩, ⟨[], .dash⟩]]

/-- separators: a blank, ␤`/* c* */`⇥, `/**/` in turn; white space before every other `:`;
a semicolon after every other item -/
def lEx : Layout :=
  { sep := fun i => if i % 3 = 0 then [32] else
      if i % 3 = 1 then [10, 47, 42, 32, 99, 42, 32, 42, 47, 9] else [47, 42, 42, 47],
    colonGap := fun i => if i % 2 = 0 then [] else [32, 10],
    semi := fun i => i % 2 == 0 }

/-- single blanks, all semicolons -/
def lCanon : Layout := { sep := fun _ => [32], colonGap := fun _ => [], semi := fun _ => true }

theorem dEx_wf : WfAST dEx := by decide

theorem lCanon_good : GoodLayout lCanon :=
  ⟨fun _ => ⟨Blank.ws rfl Blank.nil, by simp [lCanon]⟩, fun _ => rfl⟩

theorem lEx_good : GoodLayout lEx := by
  constructor
  · intro i
    show GoodSep (if i % 3 = 0 then [32] else
      if i % 3 = 1 then [10, 47, 42, 32, 99, 42, 32, 42, 47, 9] else [47, 42, 42, 47])
    split
    · exact ⟨Blank.ws rfl Blank.nil, by simp⟩
    · split
      · refine ⟨Blank.ws rfl ?_, by simp⟩
        exact Blank.comment (body := [32, 99, 42, 32]) (b := [9]) rfl (Blank.ws rfl Blank.nil)
      · exact ⟨Blank.comment (body := []) (b := []) rfl Blank.nil, by simp⟩
  · intro i
    show (if i % 2 = 0 then [] else [32, 10]).all isWs = true
    split <;> rfl

/-! ## lexing and parsing a rendered description -/

/-- the lexer recovers the tokens from every text of the description (any fuel exceeding the
length of the text, in particular the one `descrToRaw` uses) -/
theorem lex_render {d : DescrAST} {ℓ : Layout} (hd : WfAST d) (hℓ : GoodLayout ℓ) {fuel : Nat}
    (hf : (render d ℓ).length < fuel) :
    lexDescr fuel (render d ℓ) [] = some (tokensOf d ℓ ++ [.eof]) :=
  lex_tokens hℓ (tokensOf_ok hd ℓ) hf

theorem length_le_itemsToks (semi : Nat → Bool) (items : DescrAST) (i : Nat) :
    items.length ≤ (itemsToks semi i items).length := by
  induction items generalizing i with
  | nil => exact Nat.le_refl _
  | cons it rest ih =>
    have := ih (i + 1)
    cases it <;> simp only [itemsToks, itemToks, List.length_append, List.length_cons] <;> omega

/-- the parser reads the token list as the description -/
theorem parse_tokens {d : DescrAST} (hd : WfAST d) (ℓ : Layout) {fuel : Nat}
    (hf : d.length < fuel) :
    parseFile fuel true (tokensOf d ℓ ++ [.eof]) {} = some (accOf d) := by
  have := parseFile_items ℓ.semi d 0 fuel true {} hf (fun _ => hd.parts.1) (wf_alts_ne hd)
  rw [tokensOf, this]
  simp [accItems, accOf]

/-- the terminal table `set_sgrammar` builds is the one of the manual -/
theorem terminals_of_description {d : DescrAST} (hd : WfAST d) :
    ∃ ts, dedupTerms (accOf d).sterms [] = .ok ts ∧
      assignCodes ts ts 256 = termTable (d.flatMap DItem.occs) := by
  obtain ⟨h1, h2⟩ := dedup_assign hd.parts.2.2
  refine ⟨_, ?_, h2⟩
  show dedupTerms (d.flatMap DItem.sterms) [] = _
  rw [sterms_eq_occs hd.parts.2.1]
  exact h1

/-- **round trip**: every text of a well-formed description is read as the denoted grammar -/
theorem render_parse_roundtrip {d : DescrAST} {ℓ : Layout} (hd : WfAST d) (hℓ : GoodLayout ℓ)
    (strict : Bool) : descrToRaw (render d ℓ) strict = .ok (denoteDescr d strict) := by
  unfold descrToRaw
  rw [lex_render hd hℓ (by omega)]
  simp only []
  rw [parse_tokens hd ℓ (by
    have := length_le_itemsToks ℓ.semi d 0
    simp only [tokensOf, List.length_append, List.length_cons, List.length_nil]
    omega)]
  simp only []
  obtain ⟨ts, h1, h2⟩ := terminals_of_description hd
  rw [h1]
  simp only [h2]
  rfl

/-- `yaep_parse_grammar` on the text behaves exactly like `yaep_read_grammar` on the denoted
grammar -/
theorem parseDescr_render {d : DescrAST} {ℓ : Layout} (hd : WfAST d) (hℓ : GoodLayout ℓ)
    (strict : Bool) : parseDescr (render d ℓ) strict = readGrammar (denoteDescr d strict) := by
  unfold parseDescr
  rw [render_parse_roundtrip hd hℓ]

/-- the special case of single blanks and all semicolons -/
theorem render_parse_roundtrip_canonical {d : DescrAST} (hd : WfAST d) (strict : Bool) :
    descrToRaw (render d lCanon) strict = .ok (denoteDescr d strict) :=
  render_parse_roundtrip hd lCanon_good strict

example : descrToRaw (render dEx lEx) true = .ok (denoteDescr dEx true) :=
  render_parse_roundtrip dEx_wf lEx_good true
set_option maxRecDepth 1000000 in
/-- the canonical text of the example (`identBytes s`: the bytes of the ASCII string `s`) -/
example : render dEx lCanon = identBytes
    (" TERM NUM = 300 ID PLUS ; expr: expr '+' term # plus 2 ( 0 - 2 ) | term # 0 ; " ++
     "TERM NUM = 300 STAR = 256 ; term: NUM # | ID | '(' expr ')' # paren | # - ; ") := by
  decide
set_option maxRecDepth 1000000 in
/-- ... and what the model of `yaep_parse_grammar` computes from the text with comments -/
example : (match descrToRaw (render dEx lEx) true with | .ok r => r.terms | .error _ => []) =
    [("NUM", 300), ("ID", 257), ("PLUS", 258), ("'+'", 43), ("STAR", 256), ("'('", 40),
     ("')'", 41)] := by decide
set_option maxRecDepth 1000000 in
example : (match descrToRaw (render dEx lEx) true with
      | .ok r => r.rules.map fun r => (r.lhs, r.rhs, r.anode, r.cost, r.transl)
      | .error _ => []) =
    [("expr", ["expr", "'+'", "term"], some "plus", 2, some [0, NIL_TRANSL, 2]),
     ("expr", ["term"], none, 0, some [0]),
     ("term", ["NUM"], none, 0, some []),
     ("term", ["ID"], none, 0, some []),
     ("term", ["'('", "expr", "')'"], some "paren", 1, some []),
     ("term", [], none, 0, some [NIL_TRANSL])] := rfl
example : parseDescr (render dEx lEx) false = readGrammar (denoteDescr dEx false) :=
  parseDescr_render dEx_wf lEx_good false

/-! ## error codes (`identBytes s`: the bytes of the ASCII string `s`) -/

/-- any text: the denoted raw grammar, or description syntax error (3), or a terminal
declared with two different codes (7) -/
theorem descrToRaw_error_codes {text : List UInt8} {strict : Bool} {e : Nat}
    (h : descrToRaw text strict = .error e) : e = 3 ∨ e = 7 := by
  unfold descrToRaw at h
  split at h
  · simp only [Except.error.injEq] at h; exact Or.inl h.symm
  · split at h
    · simp only [Except.error.injEq] at h; exact Or.inl h.symm
    · split at h
      · rename_i e' hde
        simp only [Except.error.injEq] at h
        subst h
        exact Or.inr (dedupTerms_error _ _ _ hde)
      · cases h

/-- `yaep_parse_grammar` returns 3 or one of the codes of `yaep_read_grammar` -/
theorem parseDescr_error_codes {text : List UInt8} {strict : Bool} {e : Nat}
    (h : parseDescr text strict = .error e) : e = 3 ∨ (4 ≤ e ∧ e ≤ 16) := by
  unfold parseDescr at h
  split at h
  · rename_i e' hd
    simp only [Except.error.injEq] at h
    subst h
    rcases descrToRaw_error_codes hd with rfl | rfl
    · exact Or.inl rfl
    · exact Or.inr ⟨by decide, by decide⟩
  · exact Or.inr (readGrammar_codes h)

example : descrToRaw (identBytes "a : b ) ;") false = .error 3 := rfl
example : descrToRaw (identBytes "TERM a = 1 a = 2 ; s : a ;") false = .error 7 := rfl
example : parseDescr (identBytes "a : /* unfinished") false = .error 3 := rfl

/-! ## implicit codes -/

/-- `assignCodes`: names and explicit codes are kept; the implicit codes are increasing in
order of appearance (hence pairwise distinct), at least `next` (256), and different from every
code in `all` (hence from all explicit codes) -/
theorem assignCodes_spec (all l : List STerm) (next : Nat) :
    (assignCodes all l next).length = l.length ∧
    (∀ p ∈ l.zip (assignCodes all l next),
      p.2.1 = p.1.name ∧ (0 ≤ p.1.code → p.2.2 = p.1.code)) ∧
    (implicitCodes l (assignCodes all l next)).Pairwise (· < ·) ∧
    ∀ c ∈ implicitCodes l (assignCodes all l next), (next : Int) ≤ c ∧ c ∉ all.map (·.code) :=
  assignCodes_props all l next

example : (denoteDescr dEx true).terms =
    [("NUM", 300), ("ID", 257), ("PLUS", 258), ("'+'", 43), ("STAR", 256), ("'('", 40),
     ("')'", 41)] := by decide
example : ((denoteDescr dEx true).rules.map fun r => (r.lhs, r.rhs, r.anode, r.cost, r.transl)) =
    [("expr", ["expr", "'+'", "term"], some "plus", 2, some [0, NIL_TRANSL, 2]),
     ("expr", ["term"], none, 0, some [0]),
     ("term", ["NUM"], none, 0, some []),
     ("term", ["ID"], none, 0, some []),
     ("term", ["'('", "expr", "')'"], some "paren", 1, some []),
     ("term", [], none, 0, some [NIL_TRANSL])] := rfl

/-! ## terminals declared both with and without a code -/

/-- **success**: `set_sgrammar` accepts the declarations iff no name has two different
explicit codes (code `-1`: no explicit code); otherwise the error is 7 -/
theorem dedupTerms_ok_iff (l : List STerm) :
    (∃ ts, dedupTerms l [] = .ok ts) ↔
      ∀ p ∈ l, ∀ q ∈ l, p.name = q.name → p.code ≠ -1 → q.code ≠ -1 → p.code = q.code :=
  ⟨fun ⟨ts, h⟩ => ((dedupTerms_spec l).2 ts h).1, (dedupTerms_spec l).1⟩

theorem dedupTerms_error_iff (l : List STerm) :
    dedupTerms l [] = .error 7 ↔
      ¬ ∀ p ∈ l, ∀ q ∈ l, p.name = q.name → p.code ≠ -1 → q.code ≠ -1 → p.code = q.code := by
  rw [← dedupTerms_ok_iff]
  cases h : dedupTerms l [] with
  | error e =>
    have := dedupTerms_error _ _ _ h
    subst this
    simp
  | ok ts => simp

/-- **names**: one entry per name, in order of first occurrence -/
theorem dedupTerms_names {l ts : List STerm} (h : dedupTerms l [] = .ok ts) :
    ts.map (·.name) = distinctNames (l.map (·.name)) ∧ (ts.map (·.name)).Nodup ∧
      ∀ n, n ∈ ts.map (·.name) ↔ n ∈ l.map (·.name) := by
  have := ((dedupTerms_spec l).2 ts h).2.1
  rw [this]
  exact ⟨rfl, nodup_distinctNames _, fun n => mem_distinctNames⟩

/-- **codes**: the entry of a name carries THE explicit code of the name if some occurrence
(before or after the first one) has one, and no code otherwise -/
theorem dedupTerms_code {l ts : List STerm} (h : dedupTerms l [] = .ok ts) {t : STerm}
    (ht : t ∈ ts) :
    ((∃ p ∈ l, p.name = t.name ∧ p.code ≠ -1) →
      ∃ p ∈ l, p.name = t.name ∧ p.code = t.code ∧ t.code ≠ -1) ∧
    ((∀ p ∈ l, p.name = t.name → p.code = -1) → t.code = -1) := by
  obtain ⟨h1, h2⟩ := ((dedupTerms_spec l).2 ts h).2.2 t ht
  constructor
  · rintro ⟨p, hp, hpn, hpc⟩
    have := h2 p.code ⟨p, hp, hpn, rfl, hpc⟩
    exact ⟨p, hp, hpn, this.symm, this ▸ hpc⟩
  · intro hall
    apply Classical.byContradiction
    intro hne
    obtain ⟨p, hp, hpn, hpc, _⟩ := h1 hne
    exact hne (hpc ▸ hall p hp hpn)

/-- every explicit code of an occurrence is the code of the entry of its name -/
theorem dedupTerms_code_of_occ {l ts : List STerm} (h : dedupTerms l [] = .ok ts) {t p : STerm}
    (ht : t ∈ ts) (hp : p ∈ l) (hn : p.name = t.name) (hc : p.code ≠ -1) : t.code = p.code :=
  (((dedupTerms_spec l).2 ts h).2.2 t ht).2 p.code ⟨p, hp, hn, rfl, hc⟩

/-- **position independence**: success, the set of names and the code of every name depend
only on the set of occurrences, not on their order or multiplicity -/
theorem dedupTerms_mem_invariant_codes {l l' : List STerm} (hmem : ∀ p, p ∈ l ↔ p ∈ l') :
    ((∃ ts, dedupTerms l [] = .ok ts) ↔ (∃ ts', dedupTerms l' [] = .ok ts')) ∧
    ∀ ts ts', dedupTerms l [] = .ok ts → dedupTerms l' [] = .ok ts' →
      (∀ n, n ∈ ts.map (·.name) ↔ n ∈ ts'.map (·.name)) ∧
      ∀ t ∈ ts, ∀ t' ∈ ts', t.name = t'.name → t.code = t'.code := by
  have hE : ∀ n c, ExplCode l n c ↔ ExplCode l' n c := by
    intro n c
    constructor
    · rintro ⟨p, hp, h⟩; exact ⟨p, (hmem p).mp hp, h⟩
    · rintro ⟨p, hp, h⟩; exact ⟨p, (hmem p).mpr hp, h⟩
  constructor
  · rw [dedupTerms_ok_iff, dedupTerms_ok_iff]
    constructor
    · intro h p hp q hq; exact h p ((hmem p).mpr hp) q ((hmem q).mpr hq)
    · intro h p hp q hq; exact h p ((hmem p).mp hp) q ((hmem q).mp hq)
  · intro ts ts' h h'
    constructor
    · intro n
      rw [(dedupTerms_names h).2.2, (dedupTerms_names h').2.2]
      simp only [List.mem_map]
      constructor
      · rintro ⟨p, hp, hn⟩; exact ⟨p, (hmem p).mp hp, hn⟩
      · rintro ⟨p, hp, hn⟩; exact ⟨p, (hmem p).mpr hp, hn⟩
    · intro t ht t' ht' hn
      obtain ⟨h1, h2⟩ := ((dedupTerms_spec l).2 ts h).2.2 t ht
      obtain ⟨h1', h2'⟩ := ((dedupTerms_spec l').2 ts' h').2.2 t' ht'
      by_cases hc : t.code = -1
      · by_cases hc' : t'.code = -1
        · rw [hc, hc']
        · exact h2 _ ((hE _ _).mpr (hn ▸ h1' hc'))
      · exact (h2' _ ((hE _ _).mp (hn ▸ h1 hc))).symm

theorem dedupTerms_perm_invariant_codes {l l' : List STerm} (hperm : l.Perm l') :
    ((∃ ts, dedupTerms l [] = .ok ts) ↔ (∃ ts', dedupTerms l' [] = .ok ts')) ∧
    ∀ ts ts', dedupTerms l [] = .ok ts → dedupTerms l' [] = .ok ts' →
      (∀ n, n ∈ ts.map (·.name) ↔ n ∈ ts'.map (·.name)) ∧
      ∀ t ∈ ts, ∀ t' ∈ ts', t.name = t'.name → t.code = t'.code :=
  dedupTerms_mem_invariant_codes (fun _ => hperm.mem_iff)

example : dedupTerms [⟨"b", 5⟩, ⟨"b", -1⟩] [] = .ok [⟨"b", 5⟩] := rfl
example : dedupTerms [⟨"b", -1⟩, ⟨"b", 5⟩] [] = .ok [⟨"b", 5⟩] := rfl
example : dedupTerms [⟨"a", 5⟩, ⟨"a", -1⟩, ⟨"a", 6⟩] [] = .error 7 := rfl
example : dedupTerms [⟨"a", -1⟩, ⟨"a", -1⟩, ⟨"b", 5⟩, ⟨"b", -1⟩] [] = .ok [⟨"a", -1⟩, ⟨"b", 5⟩] := rfl

/-! ## round trip for descriptions that declare a terminal with and without its code -/

theorem WfASTMixed.parts {d : DescrAST} (h : WfASTMixed d) :
    d ≠ [] ∧ (∀ it ∈ d, wfItem it = true) ∧
      explicitConsistentOccs (d.flatMap DItem.occs) = true := by
  unfold WfASTMixed wfASTMixed at h
  simp only [Bool.and_eq_true, Bool.not_eq_true', List.all_eq_true] at h
  obtain ⟨⟨h1, h2⟩, h3⟩ := h
  refine ⟨?_, h2, h3⟩
  intro hd
  subst hd
  cases h1

/-- the old well-formedness is a special case -/
theorem WfAST.mixed {d : DescrAST} (h : WfAST d) : WfASTMixed d := by
  obtain ⟨h1, h2, h3⟩ := h.parts
  unfold WfASTMixed wfASTMixed
  simp only [Bool.and_eq_true, Bool.not_eq_true', List.all_eq_true]
  refine ⟨⟨?_, h2⟩, consistentOccs_explicit h3⟩
  cases d with
  | nil => exact absurd rfl h1
  | cons _ _ => rfl

/-- ... with the same denotation -/
theorem denoteDescrMixed_eq {d : DescrAST} (h : WfAST d) (strict : Bool) :
    denoteDescrMixed d strict = denoteDescr d strict := by
  unfold denoteDescrMixed denoteDescr
  rw [termTableMixed_consistent h.parts.2.2]

/-- **meaning of the general table**: one entry per name in order of first occurrence; the
code of a name is the explicit code of any of its occurrences -/
theorem resolvedOccs_spec {O : List (String × Option Nat)}
    (h : explicitConsistentOccs O = true) :
    (resolvedOccs O).map (·.1) = distinctNames (O.map (·.1)) ∧
    ∀ e ∈ resolvedOccs O,
      (∀ q ∈ O, q.1 = e.1 → ∀ k, q.2 = some k → e.2 = some k) ∧
      ((∀ q ∈ O, q.1 = e.1 → q.2 = none) → e.2 = none) := by
  constructor
  · have := firstOccs_names O []
    simp only [List.contains_nil, Bool.not_false] at this
    rw [List.filter_eq_self.mpr (fun _ _ => rfl)] at this
    rw [← this, resolvedOccs, List.map_map]
    rfl
  · intro e he
    obtain ⟨p, _, rfl⟩ := List.mem_map.mp he
    constructor
    · intro q hq hn k hk
      have := explicitCode_of_occ h hq hk
      rw [hn] at this
      exact this
    · intro hall
      cases hc : explicitCode O p.1 with
      | none => rfl
      | some k =>
        obtain ⟨q, hq, hqn, hqk⟩ := explicitCode_some hc
        have := hall q hq hqn
        rw [hqk] at this; cases this

theorem terminals_of_description_mixed {d : DescrAST} (hd : WfASTMixed d) :
    ∃ ts, dedupTerms (accOf d).sterms [] = .ok ts ∧
      assignCodes ts ts 256 = termTableMixed (d.flatMap DItem.occs) := by
  obtain ⟨h1, h2⟩ := dedup_assign_mixed hd.parts.2.2
  refine ⟨_, ?_, h2⟩
  show dedupTerms (d.flatMap DItem.sterms) [] = _
  rw [sterms_eq_occs hd.parts.2.1]
  exact h1

theorem lex_parse_render {d : DescrAST} {ℓ : Layout} (hne : d ≠ [])
    (hit : ∀ it ∈ d, wfItem it = true) (hℓ : GoodLayout ℓ) :
    ∃ toks, lexDescr ((render d ℓ).length + 2) (render d ℓ) [] = some toks ∧
      parseFile (toks.length + 1) true toks {} = some (accOf d) := by
  refine ⟨tokensOf d ℓ ++ [DTok.eof], lex_tokens hℓ (itemsToks_ok ℓ.semi hit 0) (by
    show (render d ℓ).length < _
    omega), ?_⟩
  have halts : ∀ lhs alts, DItem.rule lhs alts ∈ d → alts ≠ [] := by
    intro lhs alts hm hnil
    have := hit _ hm
    subst hnil
    simp [wfItem] at this
  have := parseFile_items ℓ.semi d 0 ((tokensOf d ℓ ++ [DTok.eof]).length + 1) true {} (by
    have := length_le_itemsToks ℓ.semi d 0
    simp only [tokensOf, List.length_append, List.length_cons, List.length_nil]
    omega) (fun _ => hne) halts
  rw [tokensOf] at this ⊢
  rw [this]
  simp [accItems, accOf]

/-- **round trip, general form**: every text of a description in the documented syntax whose
explicit codes are consistent is read as the denoted grammar; a terminal declared somewhere
with a code has this code, wherever its first occurrence is -/
theorem render_parse_roundtrip_mixed {d : DescrAST} {ℓ : Layout} (hd : WfASTMixed d)
    (hℓ : GoodLayout ℓ) (strict : Bool) :
    descrToRaw (render d ℓ) strict = .ok (denoteDescrMixed d strict) := by
  obtain ⟨toks, h1, h2⟩ := lex_parse_render hd.parts.1 hd.parts.2.1 hℓ
  unfold descrToRaw
  rw [h1]
  simp only []
  rw [h2]
  simp only []
  obtain ⟨ts, h3, h4⟩ := terminals_of_description_mixed hd
  rw [h3]
  simp only [h4]
  rfl

theorem parseDescr_render_mixed {d : DescrAST} {ℓ : Layout} (hd : WfASTMixed d)
    (hℓ : GoodLayout ℓ) (strict : Bool) :
    parseDescr (render d ℓ) strict = readGrammar (denoteDescrMixed d strict) := by
  unfold parseDescr
  rw [render_parse_roundtrip_mixed hd hℓ]

/-- ... and the only other outcome for a description in the documented syntax: two different
explicit codes of one name are error 7 -/
theorem render_parse_conflict {d : DescrAST} {ℓ : Layout} (hne : d ≠ [])
    (hit : ∀ it ∈ d, wfItem it = true)
    (hbad : explicitConsistentOccs (d.flatMap DItem.occs) = false)
    (hℓ : GoodLayout ℓ) (strict : Bool) :
    descrToRaw (render d ℓ) strict = .error 7 := by
  obtain ⟨toks, h1, h2⟩ := lex_parse_render hne hit hℓ
  unfold descrToRaw
  rw [h1]
  simp only []
  rw [h2]
  simp only []
  have : dedupTerms (accOf d).sterms [] = .error 7 := by
    show dedupTerms (d.flatMap DItem.sterms) [] = _
    rw [sterms_eq_occs hit, dedupTerms_error_iff]
    intro hc
    have := explicitConsistent_declSTerm.mp hc
    rw [hbad] at this
    cases this
  rw [this]

/-- `NUM` is declared without code first and with its code later; `ID` the other way round -/
def dMixed : DescrAST :=
  [.terms [("NUM", none), ("ID", some 300), ("PLUS", none)],
   .rule "e" [⟨[.ident "e", .ident "PLUS", .ident "NUM"], .none⟩, ⟨[.ident "ID"], .none⟩],
   .terms [("ID", none), ("NUM", some 256)]]

theorem dMixed_wf : WfASTMixed dMixed := by decide
example : ¬ WfAST dMixed := by decide
example : (denoteDescrMixed dMixed true).terms = [("NUM", 256), ("ID", 300), ("PLUS", 257)] := by
  decide
example : descrToRaw (render dMixed lEx) true = .ok (denoteDescrMixed dMixed true) :=
  render_parse_roundtrip_mixed dMixed_wf lEx_good true
example : (match descrToRaw (identBytes "TERM a b = 5 ; s : a b ; TERM a = 7 b ;") false with
      | .ok r => r.terms | .error _ => []) = [("a", 7), ("b", 5)] := rfl
example : descrToRaw (identBytes "TERM a = 5 a a = 6 ; s : a ;") false = .error 7 := rfl

end Yaep
