import Yaep.Lemmas.Descr
import Yaep.Props.C10
/-!
# C11: `yaep_parse_grammar` on a text in the documented syntax behaves like
`yaep_read_grammar` on the denoted grammar

`DescrAST`, `denoteDescr`, `WfAST`, `render`, `Layout`, `GoodLayout` are in
`Yaep/Spec/DescrAST.lean`.  A well-formed description `d` has many texts `render d ℓ`: the
layout `ℓ` chooses the white space / comments between the tokens and the optional semicolons.
For every one of them the model of `yaep_parse_grammar` (`descrToRaw`, `parseDescr`) yields
exactly `denoteDescr d` resp. `readGrammar (denoteDescr d)`.  Every other outcome is an error code
from the documented set; the functions are total (no crash).  (Line numbers of error messages
are not part of the model.)
-/
namespace Yaep

/-! ## an example description -/

/-- ```
TERM NUM = 300 ID PLUS
expr : expr '+' term # plus 2 (0 - 2) | term # 0
TERM NUM = 300 STAR = 256
term : NUM # | ID | '(' expr ')' # paren | # -
``` -/
def dEx : DescrAST :=
  [.terms [("NUM", some 300), ("ID", none), ("PLUS", none)],
   .rule "expr" [⟨[.ident "expr", .chr 43, .ident "term"],
                  .anode "plus" (some 2) (some [some 0, none, some 2])⟩,
                 ⟨[.ident "term"], .num 0⟩],
   .terms [("NUM", some 300), ("STAR", some 256)],
   .rule "term" [⟨[.ident "NUM"], .hash⟩, ⟨[.ident "ID"], .none⟩,
                 ⟨[.chr 40, .ident "expr", .chr 41], .anode "paren" none none⟩, ⟨[], .dash⟩]]

/-- separators: a blank, ␤`/* c* */`⇥, `/**/` in turn; white space before every other `:`;
a semicolon after every other item -/
def lEx : Layout :=
  { sep := fun i => if i % 3 = 0 then [32] else
      if i % 3 = 1 then [10, 47, 42, 32, 99, 42, 32, 42, 47, 9] else [47, 42, 42, 47],
    colonGap := fun i => if i % 2 = 0 then [] else [32, 10],
    semi := fun i => i % 2 == 0 }

/-- single blanks, all semicolons -/
def lCanon : Layout := { sep := fun _ => [32], colonGap := fun _ => [], semi := fun _ => true }

theorem dEx_wf : WfAST dEx := by decide

theorem lCanon_good : GoodLayout lCanon :=
  ⟨fun _ => ⟨Blank.ws rfl Blank.nil, by simp [lCanon]⟩, fun _ => rfl⟩

theorem lEx_good : GoodLayout lEx := by
  constructor
  · intro i
    show GoodSep (if i % 3 = 0 then [32] else
      if i % 3 = 1 then [10, 47, 42, 32, 99, 42, 32, 42, 47, 9] else [47, 42, 42, 47])
    split
    · exact ⟨Blank.ws rfl Blank.nil, by simp⟩
    · split
      · refine ⟨Blank.ws rfl ?_, by simp⟩
        exact Blank.comment (body := [32, 99, 42, 32]) (b := [9]) rfl (Blank.ws rfl Blank.nil)
      · exact ⟨Blank.comment (body := []) (b := []) rfl Blank.nil, by simp⟩
  · intro i
    show (if i % 2 = 0 then [] else [32, 10]).all isWs = true
    split <;> rfl

/-! ## lexing and parsing a rendered description -/

/-- the lexer recovers the tokens from every text of the description (any fuel exceeding the
length of the text, in particular the one `descrToRaw` uses) -/
theorem lex_render {d : DescrAST} {ℓ : Layout} (hd : WfAST d) (hℓ : GoodLayout ℓ) {fuel : Nat}
    (hf : (render d ℓ).length < fuel) :
    lexDescr fuel (render d ℓ) [] = some (tokensOf d ℓ ++ [.eof]) :=
  lex_tokens hℓ (tokensOf_ok hd ℓ) hf

theorem length_le_itemsToks (semi : Nat → Bool) (items : DescrAST) (i : Nat) :
    items.length ≤ (itemsToks semi i items).length := by
  induction items generalizing i with
  | nil => exact Nat.le_refl _
  | cons it rest ih =>
    have := ih (i + 1)
    cases it <;> simp only [itemsToks, itemToks, List.length_append, List.length_cons] <;> omega

/-- the parser reads the token list as the description -/
theorem parse_tokens {d : DescrAST} (hd : WfAST d) (ℓ : Layout) {fuel : Nat}
    (hf : d.length < fuel) :
    parseFile fuel true (tokensOf d ℓ ++ [.eof]) {} = some (accOf d) := by
  have := parseFile_items ℓ.semi d 0 fuel true {} hf (fun _ => hd.parts.1) (wf_alts_ne hd)
  rw [tokensOf, this]
  simp [accItems, accOf]

/-- the terminal table `set_sgrammar` builds is the one of the manual -/
theorem terminals_of_description {d : DescrAST} (hd : WfAST d) :
    ∃ ts, dedupTerms (accOf d).sterms [] = .ok ts ∧
      assignCodes ts ts 256 = termTable (d.flatMap DItem.occs) := by
  obtain ⟨h1, h2⟩ := dedup_assign hd.parts.2.2
  refine ⟨_, ?_, h2⟩
  show dedupTerms (d.flatMap DItem.sterms) [] = _
  rw [sterms_eq_occs hd.parts.2.1]
  exact h1

/-- **round trip**: every text of a well-formed description is read as the denoted grammar -/
theorem render_parse_roundtrip {d : DescrAST} {ℓ : Layout} (hd : WfAST d) (hℓ : GoodLayout ℓ)
    (strict : Bool) : descrToRaw (render d ℓ) strict = .ok (denoteDescr d strict) := by
  unfold descrToRaw
  rw [lex_render hd hℓ (by omega)]
  simp only []
  rw [parse_tokens hd ℓ (by
    have := length_le_itemsToks ℓ.semi d 0
    simp only [tokensOf, List.length_append, List.length_cons, List.length_nil]
    omega)]
  simp only []
  obtain ⟨ts, h1, h2⟩ := terminals_of_description hd
  rw [h1]
  simp only [h2]
  rfl

/-- `yaep_parse_grammar` on the text behaves exactly like `yaep_read_grammar` on the denoted
grammar -/
theorem parseDescr_render {d : DescrAST} {ℓ : Layout} (hd : WfAST d) (hℓ : GoodLayout ℓ)
    (strict : Bool) : parseDescr (render d ℓ) strict = readGrammar (denoteDescr d strict) := by
  unfold parseDescr
  rw [render_parse_roundtrip hd hℓ]

/-- the special case of single blanks and all semicolons -/
theorem render_parse_roundtrip_canonical {d : DescrAST} (hd : WfAST d) (strict : Bool) :
    descrToRaw (render d lCanon) strict = .ok (denoteDescr d strict) :=
  render_parse_roundtrip hd lCanon_good strict

example : descrToRaw (render dEx lEx) true = .ok (denoteDescr dEx true) :=
  render_parse_roundtrip dEx_wf lEx_good true
set_option maxRecDepth 1000000 in
/-- the canonical text of the example (`identBytes s`: the bytes of the ASCII string `s`) -/
example : render dEx lCanon = identBytes
    (" TERM NUM = 300 ID PLUS ; expr: expr '+' term # plus 2 ( 0 - 2 ) | term # 0 ; " ++
     "TERM NUM = 300 STAR = 256 ; term: NUM # | ID | '(' expr ')' # paren | # - ; ") := by
  decide
set_option maxRecDepth 1000000 in
/-- ... and what the model of `yaep_parse_grammar` computes from the text with comments -/
example : (match descrToRaw (render dEx lEx) true with | .ok r => r.terms | .error _ => []) =
    [("NUM", 300), ("ID", 257), ("PLUS", 258), ("'+'", 43), ("STAR", 256), ("'('", 40),
     ("')'", 41)] := by decide
set_option maxRecDepth 1000000 in
example : (match descrToRaw (render dEx lEx) true with
      | .ok r => r.rules.map fun r => (r.lhs, r.rhs, r.anode, r.cost, r.transl)
      | .error _ => []) =
    [("expr", ["expr", "'+'", "term"], some "plus", 2, some [0, NIL_TRANSL, 2]),
     ("expr", ["term"], none, 0, some [0]),
     ("term", ["NUM"], none, 0, some []),
     ("term", ["ID"], none, 0, some []),
     ("term", ["'('", "expr", "')'"], some "paren", 1, some []),
     ("term", [], none, 0, some [NIL_TRANSL])] := rfl
example : parseDescr (render dEx lEx) false = readGrammar (denoteDescr dEx false) :=
  parseDescr_render dEx_wf lEx_good false

/-! ## error codes (`identBytes s`: the bytes of the ASCII string `s`) -/

/-- any text: the denoted raw grammar, or description syntax error (3), or a terminal
declared with two different codes (7) -/
theorem descrToRaw_error_codes {text : List UInt8} {strict : Bool} {e : Nat}
    (h : descrToRaw text strict = .error e) : e = 3 ∨ e = 7 := by
  unfold descrToRaw at h
  split at h
  · simp only [Except.error.injEq] at h; exact Or.inl h.symm
  · split at h
    · simp only [Except.error.injEq] at h; exact Or.inl h.symm
    · split at h
      · rename_i e' hde
        simp only [Except.error.injEq] at h
        subst h
        exact Or.inr (dedupTerms_error _ _ _ hde)
      · cases h

/-- `yaep_parse_grammar` returns 3 or one of the codes of `yaep_read_grammar` -/
theorem parseDescr_error_codes {text : List UInt8} {strict : Bool} {e : Nat}
    (h : parseDescr text strict = .error e) : e = 3 ∨ (4 ≤ e ∧ e ≤ 16) := by
  unfold parseDescr at h
  split at h
  · rename_i e' hd
    simp only [Except.error.injEq] at h
    subst h
    rcases descrToRaw_error_codes hd with rfl | rfl
    · exact Or.inl rfl
    · exact Or.inr ⟨by decide, by decide⟩
  · exact Or.inr (readGrammar_codes h)

example : descrToRaw (identBytes "a : b ) ;") false = .error 3 := rfl
example : descrToRaw (identBytes "TERM a = 1 a = 2 ; s : a ;") false = .error 7 := rfl
example : parseDescr (identBytes "a : /* unfinished") false = .error 3 := rfl

/-! ## implicit codes -/

/-- `assignCodes`: names and explicit codes are kept; the implicit codes are increasing in
order of appearance (hence pairwise distinct), at least `next` (256), and different from every
code in `all` (hence from all explicit codes) -/
theorem assignCodes_spec (all l : List STerm) (next : Nat) :
    (assignCodes all l next).length = l.length ∧
    (∀ p ∈ l.zip (assignCodes all l next),
      p.2.1 = p.1.name ∧ (0 ≤ p.1.code → p.2.2 = p.1.code)) ∧
    (implicitCodes l (assignCodes all l next)).Pairwise (· < ·) ∧
    ∀ c ∈ implicitCodes l (assignCodes all l next), (next : Int) ≤ c ∧ c ∉ all.map (·.code) :=
  assignCodes_props all l next

example : (denoteDescr dEx true).terms =
    [("NUM", 300), ("ID", 257), ("PLUS", 258), ("'+'", 43), ("STAR", 256), ("'('", 40),
     ("')'", 41)] := by decide
example : ((denoteDescr dEx true).rules.map fun r => (r.lhs, r.rhs, r.anode, r.cost, r.transl)) =
    [("expr", ["expr", "'+'", "term"], some "plus", 2, some [0, NIL_TRANSL, 2]),
     ("expr", ["term"], none, 0, some [0]),
     ("term", ["NUM"], none, 0, some []),
     ("term", ["ID"], none, 0, some []),
     ("term", ["'('", "expr", "')'"], some "paren", 1, some []),
     ("term", [], none, 0, some [NIL_TRANSL])] := rfl

end Yaep
