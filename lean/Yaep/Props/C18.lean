import Yaep.Lemmas.ListSets
import Yaep.Lemmas.ListSets2
import Yaep.Props.C09Lookahead
import Yaep.Model.GotoCache
/-!
# C18 — bounded Earley sets for a left-recursive list grammar

Per-token work is constant on deterministic (here: left-recursive list) grammars because
every Earley set has bounded size.  For `listGrammar` (`$S : L $eof`, `L : L sep x`, `L : x`,
`$S : error $eof`) the cores (rule, dot) of the sets are the states of a six-state automaton
over the tokens and every item has origin 0.  Hence: at most 4 items per set (every input,
every lookahead level of the model); at level 0 the exact sets; the sets repeat with period 2
as sets of items — but in yaep's stored (distance) representation no two of them are equal,
only their cores are.  Helper lemmas: `Yaep/Lemmas/ListSets.lean`, `Yaep/Lemmas/ListSets2.lean`.
-/
namespace Yaep

theorem listGrammar_wf : listGrammar.WF ∧ listGrammar.symsInRange = true := by decide

/-! ## the bound -/

/-- Every set of the executable parse list of `listGrammar` has at most 4 items — for every
input and every lookahead level of the model. -/
theorem listSets_bounded_any (la : Nat) (w : List Nat) (j : Nat)
    (h : j < (buildPL listGrammar la w).2.length) :
    ((buildPL listGrammar la w).2[j]).length ≤ 4 :=
  Nat.le_trans
    (nodup_subset_length (buildPL_nodup _ _ _ _ (List.getElem_mem h)) (listSets_subset la w j h))
    (LState.items_length_le _)

theorem listSets_bounded (la : Nat) (n : Nat) (j : Nat)
    (h : j < (buildPL listGrammar la (listInput n)).2.length) :
    ((buildPL listGrammar la (listInput n)).2[j]).length ≤ 4 :=
  listSets_bounded_any la (listInput n) j h

/-- at levels 0 and 1 the inputs `x (sep x)^n` are accepted and all `2 n + 3` sets exist -/
theorem listSets_count {la : Nat} (hla : la ≤ 1) (n : Nat) :
    (buildPL listGrammar la (listInput n)).1 = none ∧
    (buildPL listGrammar la (listInput n)).2.length = 2 * n + 3 :=
  listInput_accepted hla n

example : (buildPL listGrammar 0 (listInput 3)).2.map List.length = [4, 3, 1, 3, 1, 3, 1, 3, 1] := by
  decide
example : (buildPL listGrammar 1 (listInput 3)).2.map List.length = [4, 2, 1, 2, 1, 2, 1, 2, 1] := by
  decide

/-! ## the cores are automaton states; all origins are 0 -/

/-- every item of every set has origin 0 and its (rule, dot) is in the core of the automaton
state reached on the tokens read so far (any input, any level) -/
theorem listSets_core (la : Nat) (w : List Nat) (j : Nat)
    (h : j < (buildPL listGrammar la w).2.length) :
    ∀ it ∈ (buildPL listGrammar la w).2[j],
      it.origin = 0 ∧ (it.rule, it.dot) ∈ (lrun (w ++ [3]) j).core :=
  fun _ hit => mem_items_iff.mp (listSets_subset la w j h hit)

/-- the executable sets have no duplicates -/
theorem listSets_nodup (la : Nat) (w : List Nat) (j : Nat)
    (h : j < (buildPL listGrammar la w).2.length) : ((buildPL listGrammar la w).2[j]).Nodup :=
  buildPL_nodup _ _ _ _ (List.getElem_mem h)

/-! ## the exact sets at level 0 -/

/-- at level 0 (any input) the set at `j` is, up to the order of its items, the core of the
automaton state with origin 0 -/
theorem listSets_la0_exact (w : List Nat) (j : Nat) (h : j < (buildPL listGrammar 0 w).2.length) :
    ((buildPL listGrammar 0 w).2[j]).Perm (lrun (w ++ [3]) j).items :=
  listSets_la0_perm w j h

theorem getD_eq_getElem' {α : Type} (l : List α) (d : α) {i : Nat} (h : i < l.length) :
    l.getD i d = l[i] := by
  rw [List.getD_eq_getElem?_getD, List.getElem?_eq_getElem h, Option.getD_some]

/-- The closed form for `x (sep x)^n $eof`: set 0; the set after the first `x`; the sets
after a later `x`; the sets after a `sep`; the set after `$eof`. -/
theorem listSets_closed_form (n : Nat) :
    ((buildPL listGrammar 0 (listInput n)).2.getD 0 []).Perm
      [⟨0, 0, 0⟩, ⟨3, 0, 0⟩, ⟨1, 0, 0⟩, ⟨2, 0, 0⟩] ∧
    ((buildPL listGrammar 0 (listInput n)).2.getD 1 []).Perm [⟨2, 1, 0⟩, ⟨0, 1, 0⟩, ⟨1, 1, 0⟩] ∧
    (∀ k, 1 ≤ k → k ≤ n → ((buildPL listGrammar 0 (listInput n)).2.getD (2 * k + 1) []).Perm
      [⟨1, 3, 0⟩, ⟨0, 1, 0⟩, ⟨1, 1, 0⟩]) ∧
    (∀ k, k < n → ((buildPL listGrammar 0 (listInput n)).2.getD (2 * k + 2) []).Perm [⟨1, 2, 0⟩]) ∧
    ((buildPL listGrammar 0 (listInput n)).2.getD (2 * n + 2) []).Perm [⟨0, 2, 0⟩] := by
  have hlen := (listInput_accepted (Nat.zero_le 1) n).2
  have key : ∀ j, j < 2 * n + 3 → ((buildPL listGrammar 0 (listInput n)).2.getD j []).Perm
      (lrun (listInput n ++ [3]) j).items := by
    intro j hj
    have h : j < (buildPL listGrammar 0 (listInput n)).2.length := by rw [hlen]; exact hj
    rw [getD_eq_getElem' _ _ h]
    exact listSets_la0_perm _ j h
  refine ⟨?_, ?_, ?_, ?_, ?_⟩
  · have := key 0 (by omega); rwa [lrun_zero] at this
  · have := key 1 (by omega); rwa [lrun_after_x (k := 0) (Nat.zero_le n)] at this
  · intro k hk1 hk2
    have := key (2 * k + 1) (by omega)
    rw [lrun_after_x hk2] at this
    obtain ⟨k', rfl⟩ : ∃ k', k = k' + 1 := ⟨k - 1, by omega⟩
    exact this
  · intro k hk
    have := key (2 * k + 2) (by omega)
    rwa [lrun_after_sep hk] at this
  · have := key (2 * n + 2) (by omega)
    rwa [lrun_final] at this

/-! ## "identical sets are found again": as sets of items, not as stored sets -/

/-- From the second `x` on, the sets repeat with period 2 (as sets of items: all origins are
0, so also as sets of cores (rule, dot)). -/
theorem listSets_periodic (n j : Nat) (h2 : 2 ≤ j) (hj : j + 2 ≤ 2 * n + 1) :
    ((buildPL listGrammar 0 (listInput n)).2.getD (j + 2) []).Perm
      ((buildPL listGrammar 0 (listInput n)).2.getD j []) := by
  obtain ⟨_, _, hx, hs, _⟩ := listSets_closed_form n
  rcases Nat.mod_two_eq_zero_or_one j with hm | hm
  · obtain ⟨k, rfl⟩ : ∃ k, j = 2 * k + 2 := ⟨j / 2 - 1, by omega⟩
    have e : 2 * k + 2 + 2 = 2 * (k + 1) + 2 := by omega
    rw [e]
    exact (hs (k + 1) (by omega)).trans (hs k (by omega)).symm
  · obtain ⟨k, rfl⟩ : ∃ k, j = 2 * k + 1 := ⟨j / 2, by omega⟩
    have e : 2 * k + 1 + 2 = 2 * (k + 1) + 1 := by omega
    rw [e]
    exact (hx (k + 1) (by omega) (by omega)).trans (hx k (by omega) (by omega)).symm

theorem listSets_cores_periodic (n j : Nat) (h2 : 2 ≤ j) (hj : j + 2 ≤ 2 * n + 1) :
    (((buildPL listGrammar 0 (listInput n)).2.getD (j + 2) []).map fun it => (it.rule, it.dot)).Perm
      (((buildPL listGrammar 0 (listInput n)).2.getD j []).map fun it => (it.rule, it.dot)) :=
  (listSets_periodic n j h2 hj).map _

/-- In the stored (relative) representation of the goto cache every item of the set at index
`j` has distance `j`: the distance vectors of the periodic sets all differ … -/
theorem listSets_toRel (la : Nat) (w : List Nat) (j : Nat)
    (h : j < (buildPL listGrammar la w).2.length) :
    toRel j (buildPL listGrammar la w).2[j] =
      ((buildPL listGrammar la w).2[j]).map fun it => (it.rule, it.dot, j) := by
  unfold toRel
  apply List.map_congr_left
  intro it hit
  rw [(listSets_core la w j h it hit).1]
  rfl

/-- … so no two sets of the list are the same stored set: yaep finds the *cores* again, not
the sets. -/
theorem listSets_stored_distinct (n j j' : Nat) (hj : j ≤ 2 * n + 2) (hj' : j' ≤ 2 * n + 2)
    (hne : j ≠ j') :
    storedAt (buildPL listGrammar 0 (listInput n)).2 j ≠
      storedAt (buildPL listGrammar 0 (listInput n)).2 j' := by
  have hlen := (listInput_accepted (Nat.zero_le 1) n).2
  have hl : j < (buildPL listGrammar 0 (listInput n)).2.length := by omega
  have hl' : j' < (buildPL listGrammar 0 (listInput n)).2.length := by omega
  unfold storedAt
  rw [getD_eq_getElem' _ _ hl, getD_eq_getElem' _ _ hl', listSets_toRel 0 _ j hl,
    listSets_toRel 0 _ j' hl']
  intro heq
  have hne0 : (buildPL listGrammar 0 (listInput n)).2[j] ≠ [] := by
    intro h0
    have hp := listSets_la0_perm (listInput n) j hl
    rw [h0] at hp
    -- the state at a position of an accepted input is not dead
    obtain ⟨h0', h1', hx, hs, hf⟩ := listSets_closed_form n
    have : ∀ l : List Item, ((buildPL listGrammar 0 (listInput n)).2.getD j []).Perm l → l = [] := by
      intro l hl2
      rw [getD_eq_getElem' _ _ hl, h0] at hl2
      exact hl2.symm.eq_nil
    rcases Nat.lt_or_ge j 2 with hlt | hge
    · rcases Nat.eq_zero_or_pos j with rfl | hpos
      · exact absurd (this _ h0') (by simp)
      · have : j = 1 := by omega
        subst this
        exact absurd (this _ h1') (by simp)
    · rcases Nat.mod_two_eq_zero_or_one j with hm | hm
      · obtain ⟨k, rfl⟩ : ∃ k, j = 2 * k + 2 := ⟨j / 2 - 1, by omega⟩
        rcases Nat.lt_or_ge k n with hk | hk
        · exact absurd (this _ (hs k hk)) (by simp)
        · have : k = n := by omega
          subst this
          exact absurd (this _ hf) (by simp)
      · obtain ⟨k, rfl⟩ : ∃ k, j = 2 * k + 1 := ⟨j / 2, by omega⟩
        exact absurd (this _ (hx k (by omega) (by omega))) (by simp)
  cases hs : (buildPL listGrammar 0 (listInput n)).2[j] with
  | nil => exact hne0 hs
  | cons a l =>
    rw [hs] at heq
    cases hs' : (buildPL listGrammar 0 (listInput n)).2[j'] with
    | nil => rw [hs'] at heq; simp at heq
    | cons a' l' =>
      rw [hs'] at heq
      simp only [List.map_cons, List.cons.injEq, Prod.mk.injEq] at heq
      exact hne heq.1.2.2

/-! ## level 2 -/

/-- At lookahead level 2 the same holds for the items without their contexts: origin 0 and
(rule, dot) in the core of the automaton state. -/
theorem listSets2_core (w : List Nat) (j : Nat) (h : j < (buildPL2 listGrammar w).2.length) :
    ∀ it ∈ (buildPL2 listGrammar w).2[j],
      it.origin = 0 ∧ (it.rule, it.dot) ∈ (lrun (w ++ [3]) j).core := by
  intro it hit
  have := list_core_sound (buildPL2_sound listGrammar w j h it hit)
  exact ⟨this.2.1, this.2.2⟩

/-- the level-2 sets of `listGrammar` have no duplicates … -/
theorem listSets2_nodup (w : List Nat) (j : Nat) (h : j < (buildPL2 listGrammar w).2.length) :
    ((buildPL2 listGrammar w).2[j]).Nodup :=
  buildPL2_list_nodup w _ (List.getElem_mem h)

/-- … and at most 4 items (every input). -/
theorem listSets2_bounded (w : List Nat) (j : Nat) (h : j < (buildPL2 listGrammar w).2.length) :
    ((buildPL2 listGrammar w).2[j]).length ≤ 4 := by
  have hnd : (((buildPL2 listGrammar w).2[j]).map Item2.proj).Nodup :=
    nodup_map_of_inj_on (listSets2_nodup w j h) (buildPL2_list_proj_inj w j h)
  have hsub : ((buildPL2 listGrammar w).2[j]).map Item2.proj ⊆ (lrun (w ++ [3]) j).items := by
    intro x hx
    obtain ⟨it, hit, rfl⟩ := List.mem_map.mp hx
    exact mem_items_iff.mpr (listSets2_core w j h it hit)
  have := nodup_subset_length hnd hsub
  rw [List.length_map] at this
  exact Nat.le_trans this (LState.items_length_le _)

example : (buildPL2 listGrammar (listInput 3)).2.map List.length = [4, 2, 1, 2, 1, 2, 1, 2, 1] := by
  decide

end Yaep
