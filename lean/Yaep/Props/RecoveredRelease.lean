import Yaep.Lemmas.RecoveredRelease
import Yaep.Lemmas.RecoveredReleaseEx
import Yaep.Props.NoGarbage
import Yaep.Props.RecoveredCost
/-!
# C13 for the models after an error recovery: the tree of a recovering parse is released exactly once

Setting of `Props/RecoveredParse.lean`: `parseWithRecovery g la rmatch w sfuel` (model of `build_pl`
with error recovery) ends with a parse list `pl`; `RP.tokNums pl` are its token numbers `pl_toks`,
`RP.SameSets pl S` says that `S` holds the sets of `pl` (situations in any order and multiplicity,
e.g. a dump of the C set cores).  `make_parse` builds the tree from that list; the tree may contain
the ERROR node.  The statements of `Props/NoGarbage.lean` (C13 for sentences) hold on that list:

* **`recovered_no_garbage`** (`recovered_no_garbage_of`) — either mode: a cell of the tree memory
  of the finished run is reachable from the result cell **iff** it is not the C-stack cell
  `rootId`, not the NIL node when `nilUsed = false` and not the ERROR node when `errUsed = false`.
* **`recovered_tree_released`** (`recovered_tree_released_of`) — either mode: `yaep_free_tree`
  (model) on the exported table releases exactly the live cells, each once, one name block per
  named rule, `termcb` once per TERM cell, and blocks released + blocks handed back = blocks
  requested (`NG.Released`); the ERROR node is released exactly once (`RNG.ErrOnce`): it is in the
  table, and released by `yaep_free_tree`, iff `errUsed`, and handed back by `make_parse` iff not.
* **`recovered_cost_tree_released`** (`recovered_cost_tree_released_of`, `recovered_cost_cells`,
  `recovered_cost_cells_of`) — the cost flag: every cell is exactly one of reachable from the new
  root / freed by `find_minimal_translation` / handed back at the end of `make_parse`
  (`NG.CostCellsSpec`), `yaep_free_tree` on the exported table of the pruned tree releases the rest
  (`NG.CostReleased`), and the ERROR node is released exactly once (`RNG.CostErrOnce`): never by
  `find_minimal_translation`; by `yaep_free_tree` iff the pruned tree still contains it
  (`R.errUsed`), at the end of `make_parse` otherwise — in particular when the pruning discards
  every alternative that contains it.
* `rng_recovered_heap_wf_of` — the tree memory is a `PC.WfHeap` in either mode (new for one parse);
  `rng_error_node_reachable_iff` — the ERROR (NIL) node is reachable from the result iff `errUsed`
  (`nilUsed`); `rng_recovered_parse_total_of` — the run exists, either mode (fuel `RNG.fuelFor`).

How: the NoGarbage invariant `NG.NGInv` holds for any parse list (`NG.makeParseSt_inv`); the
composition theorems `NG.released_of_inv`, `NG.cost_partition`, `NG.cost_released` need in addition
a `PC.WfHeap`, which comes from the reference run with the token numbers `j - 1` through the
state-level renaming theorem `RC.makeParseSt_reTok` (`PC.WfHeap` ignores the TERM attributes:
`RC.wfHeap_rcH`); for one parse this transfer is new (`RNG.final_state_one`).  The statements about
the ERROR node are new (`RNG.err_table`, `RNG.cost_err_nil`, `RNG.cost_err_table`).

Non-vacuity: `RecEx` (C dump of the final list; the ERROR node is used, both modes), `CostEx`
(ambiguous, with costs; the ERROR node is not used by any translation), `RNG.PruneEx` and
`RNG.PruneEx2` (the pruning discards the only alternative that contains the ERROR node),
`RNG.PruneEx2.total` (total loss: the tree is the NIL node).
-/
namespace Yaep
open MP

/-! ## the tree memory is well formed, either mode -/

/-- **the tree memory of `make_parse` on the final list of a recovering parse is a `PC.WfHeap`**,
one parse or all parses (all parses: `recovered_cost_parse_of`) -/
theorem rng_recovered_heap_wf_of {g : Grammar} (hg : g.mpWF = true) (hcyc : ¬ Cyclic g)
    (hsr : g.symsInRange = true) {la rmatch : Nat} {w : List Nat} {sfuel : Nat}
    (hok : (parseWithRecovery g la rmatch w sfuel).ok = true)
    {S : Array (Array Item)} (hS : RP.SameSets (parseWithRecovery g la rmatch w sfuel).pl S)
    {one : Bool} {fuel : Nat} {s : MP.St} {r : Nat}
    (hm : MP.makeParseSt (MP.mkCtx g S (RP.tokNums (parseWithRecovery g la rmatch w sfuel).pl) one)
      fuel = some s) (hb : s.bad = false) (hres : s.result = some r) :
    ∃ rk hd, PC.WfHeap (PC.ofHeap s.heap) rk hd ∧ r < (PC.ofHeap s.heap).size ∧ hd r = r :=
  RNG.final_wf (RP.final_of_ok hok) hS (MP.grOK_of_mpWF hg) hcyc hsr hm hb hres

/-! ## 1. no garbage -/

/-- **no garbage after a recovery** (grammar hypotheses explicit; either mode): at the end of a
finished run of the model of `make_parse` on the final list of a recovering parse that did not flag
undefined behaviour, the cells reachable from the result cell are exactly the cells of the tree
memory other than the C-stack cell `rootId`, the unused NIL node and the unused ERROR node -/
theorem recovered_no_garbage_of {g : Grammar} (hg : g.mpWF = true) (hcyc : ¬ Cyclic g)
    (hsr : g.symsInRange = true) {la rmatch : Nat} {w : List Nat} {sfuel : Nat}
    (hok : (parseWithRecovery g la rmatch w sfuel).ok = true)
    {S : Array (Array Item)} (hS : RP.SameSets (parseWithRecovery g la rmatch w sfuel).pl S)
    {one : Bool} {fuel : Nat} {s : MP.St} {r : Nat}
    (hm : MP.makeParseSt (MP.mkCtx g S (RP.tokNums (parseWithRecovery g la rmatch w sfuel).pl) one)
      fuel = some s) (hb : s.bad = false) (hres : s.result = some r) (i : Nat) :
    PC.Reach (PC.ofHeap s.heap) r i ↔
      i < s.heap.size ∧ i ≠ MP.rootId ∧ (i = MP.nilId → s.nilUsed = true) ∧
        (i = MP.errId → s.errUsed = true) :=
  RNG.final_no_garbage (RP.final_of_ok hok) hS (MP.grOK_of_mpWF hg) hcyc hsr hm hb hres i

/-- **the ERROR node is used iff it is reachable** (and the NIL node): in the finished run on the
final list of a recovering parse the ERROR cell is reachable from the result cell iff `errUsed`
— the flag `make_parse` tests to hand the node back -/
theorem rng_error_node_reachable_iff {g : Grammar} (hg : g.mpWF = true) (hcyc : ¬ Cyclic g)
    (hsr : g.symsInRange = true) {la rmatch : Nat} {w : List Nat} {sfuel : Nat}
    (hok : (parseWithRecovery g la rmatch w sfuel).ok = true)
    {S : Array (Array Item)} (hS : RP.SameSets (parseWithRecovery g la rmatch w sfuel).pl S)
    {one : Bool} {fuel : Nat} {s : MP.St} {r : Nat}
    (hm : MP.makeParseSt (MP.mkCtx g S (RP.tokNums (parseWithRecovery g la rmatch w sfuel).pl) one)
      fuel = some s) (hb : s.bad = false) (hres : s.result = some r) :
    (PC.Reach (PC.ofHeap s.heap) r MP.errId ↔ s.errUsed = true) ∧
    (PC.Reach (PC.ofHeap s.heap) r MP.nilId ↔ s.nilUsed = true) :=
  RNG.final_err_nil_reach (RP.final_of_ok hok) hS (MP.grOK_of_mpWF hg) hcyc hsr hm hb hres

/-- the fuel of the capstones: `MP.mpFuel` for one parse, `MP.mpAllFuelC` for all parses, for the
length of the repaired input (and the size of the largest set) -/
def RNG.fuelFor (g : Grammar) (pl : List PSet) (S : Array (Array Item)) (one : Bool) : Nat :=
  if one then MP.mpFuel g (RP.word pl).length
  else MP.mpAllFuelC g (RP.word pl).length (MP.plMaxSize S)

/-- the run exists: with the fuel `RNG.fuelFor` the model of `make_parse` ends with `.ok` on the
final list of a recovering parse, either mode -/
theorem rng_recovered_parse_total_of {g : Grammar} (hwf : g.WF) (hg : g.mpWF = true) (hcyc : ¬ Cyclic g)
    (hsr : g.symsInRange = true) {la rmatch : Nat} {w : List Nat} {sfuel : Nat}
    (hok : (parseWithRecovery g la rmatch w sfuel).ok = true)
    {S : Array (Array Item)} (hS : RP.SameSets (parseWithRecovery g la rmatch w sfuel).pl S)
    {one : Bool} {fuel : Nat}
    (hfuel : RNG.fuelFor g (parseWithRecovery g la rmatch w sfuel).pl S one ≤ fuel) :
    ∃ res, MP.makeParse g S (RP.tokNums (parseWithRecovery g la rmatch w sfuel).pl) one fuel =
      .ok res := by
  cases one with
  | true => exact recovered_parse_one_total_of hwf hg hcyc hsr hok hS (by simpa [RNG.fuelFor] using hfuel)
  | false => exact recovered_parse_all_total_of hwf hg hcyc hsr hok hS (by simpa [RNG.fuelFor] using hfuel)

/-- **no garbage after a recovery, end to end**: for every grammar `readGrammar` accepts, every
token sequence `w`, lookahead level and `recovery_match`, with enough search fuel the recovering
parse succeeds, and for every `S` holding the sets of its final list, either mode and enough fuel,
the model of `make_parse` ends with `.ok res`; in its final machine state `s` (result cell `r`,
exported as `res.tab`, `res.root`) a cell is reachable from `r` iff it is not the root record, an
unused NIL or an unused ERROR node — no `parse_alloc` block of the parse is lost -/
theorem recovered_no_garbage {raw : RawGrammar} {g : Grammar} (h : readGrammar raw = .ok g)
    (la rmatch : Nat) (w : List Nat) :
    ∃ F, ∀ sfuel, F ≤ sfuel →
      (parseWithRecovery g la rmatch w sfuel).ok = true ∧
      ∀ S, RP.SameSets (parseWithRecovery g la rmatch w sfuel).pl S → ∀ (one : Bool) (fuel : Nat),
        RNG.fuelFor g (parseWithRecovery g la rmatch w sfuel).pl S one ≤ fuel →
        ∃ res s r,
          MP.makeParse g S (RP.tokNums (parseWithRecovery g la rmatch w sfuel).pl) one fuel = .ok res ∧
          MP.makeParseSt (MP.mkCtx g S (RP.tokNums (parseWithRecovery g la rmatch w sfuel).pl) one)
            fuel = some s ∧
          s.bad = false ∧ s.result = some r ∧
          MP.exportTable s.heap r = some (res.tab, res.root) ∧
          res.heapSize = s.heap.size ∧ res.nilUsed = s.nilUsed ∧ res.errUsed = s.errUsed ∧
          ∀ i, PC.Reach (PC.ofHeap s.heap) r i ↔
            i < s.heap.size ∧ i ≠ MP.rootId ∧ (i = MP.nilId → s.nilUsed = true) ∧
              (i = MP.errId → s.errUsed = true) := by
  have hwf := readGrammar_wf h
  refine ⟨recoveryFuel (w.length + 1) rmatch, fun sfuel hf => ?_⟩
  have hok := parseWithRecovery_ok (readGrammar_hasTotalLoss h) la rmatch w hf
  refine ⟨hok, ?_⟩
  intro S hS one fuel hfuel
  obtain ⟨res, hm⟩ := rng_recovered_parse_total_of hwf (readGrammar_mpWF h) (readGrammar_semOK h).1
    (readGrammar_symsInRange h) hok hS hfuel
  obtain ⟨s, r, h1, h2, h3, hx⟩ := makeParse_ok_state hm
  obtain ⟨_, f2, f3, f4⟩ := ng_makeParse_ok_fields hm h1
  exact ⟨res, s, r, hm, h1, h2, h3, hx, f4, f2, f3, fun i =>
    recovered_no_garbage_of (readGrammar_mpWF h) (readGrammar_semOK h).1 (readGrammar_symsInRange h)
      hok hS h1 h2 h3 i⟩

/-! ## 2. `yaep_free_tree` releases the tree of a recovering parse exactly once -/

/-- **C13 for the models after a recovery, from a finished parse** (grammar hypotheses explicit,
either mode): let the model of `make_parse` end with `.ok res` on the final list of a recovering
parse, final machine state `s`, result cell `r`.  Then there is a map `cells` from the entries of
`res.tab` to the cells of the tree memory (`MP.RepAt`: entry `k` is the record of cell `cells[k]`)
such that

* `NG.Released` holds (see `makeParse_tree_released`): the node and ALT blocks the model of
  `yaep_free_tree` releases are, through `NG.cellOf`, a permutation of the live cells
  (`NG.liveCells s`: all cells other than `rootId` and the unused NIL / ERROR node), no block is
  released twice, one name block per named rule, `termcb` once per TERM cell, and the number of
  requests `res.allocs` is the number of blocks released plus the number handed back by
  `make_parse` (when the names tell the rules apart);
* `RNG.ErrOnce` holds: the table has an `err` record iff `errUsed`; `yaep_free_tree` releases the
  ERROR cell iff `errUsed`, and then once; `make_parse` hands it back iff `errUsed = false`. -/
theorem recovered_tree_released_of {g : Grammar} (hg : g.mpWF = true) (hcyc : ¬ Cyclic g)
    (hsr : g.symsInRange = true) {la rmatch : Nat} {w : List Nat} {sfuel : Nat}
    (hok : (parseWithRecovery g la rmatch w sfuel).ok = true)
    {S : Array (Array Item)} (hS : RP.SameSets (parseWithRecovery g la rmatch w sfuel).pl S)
    {one : Bool} {fuel : Nat} {res : MP.Result}
    (hm : MP.makeParse g S (RP.tokNums (parseWithRecovery g la rmatch w sfuel).pl) one fuel = .ok res) :
    ∃ s r cells,
      MP.makeParseSt (MP.mkCtx g S (RP.tokNums (parseWithRecovery g la rmatch w sfuel).pl) one)
        fuel = some s ∧
      s.bad = false ∧ s.result = some r ∧
      MP.exportTable s.heap r = some (res.tab, res.root) ∧
      res.allocs = MP.allocSeq s ∧ res.nilUsed = s.nilUsed ∧ res.errUsed = s.errUsed ∧
      cells.length = res.tab.size ∧ cells.getD res.root 0 = r ∧
      (∀ id, id < res.tab.size → MP.RepAt s.heap res.tab cells id) ∧
      NG.Released (MP.mkCtx g S (RP.tokNums (parseWithRecovery g la rmatch w sfuel).pl) one) s cells
        res.tab res.root ∧
      RNG.ErrOnce s cells res.tab res.root := by
  obtain ⟨s, r, h1, h2, h3, hx⟩ := makeParse_ok_state hm
  obtain ⟨cells, c1, c2, c3, c4, c5⟩ := RNG.final_released (RP.final_of_ok hok) hS
    (MP.grOK_of_mpWF hg) hcyc hsr h1 h2 h3 hx
  obtain ⟨f1, f2, f3, _⟩ := ng_makeParse_ok_fields hm h1
  exact ⟨s, r, cells, h1, h2, h3, hx, f1, f2, f3, c1, c2, c3, c4, c5⟩

/-- **C13 for the models after a recovery, end to end** (either mode): for every grammar
`readGrammar` accepts, every token sequence, lookahead level and `recovery_match`, with enough
search fuel the recovering parse succeeds, and for every `S` holding the sets of its final list and
enough fuel the model of `make_parse` ends with `.ok res`, and the model of `yaep_free_tree` on the
exported table releases exactly the blocks of the parse that were not handed back, each exactly
once — the ERROR node included (`NG.Released`, `RNG.ErrOnce`; see `recovered_tree_released_of`) -/
theorem recovered_tree_released {raw : RawGrammar} {g : Grammar} (h : readGrammar raw = .ok g)
    (la rmatch : Nat) (w : List Nat) :
    ∃ F, ∀ sfuel, F ≤ sfuel →
      (parseWithRecovery g la rmatch w sfuel).ok = true ∧
      ∀ S, RP.SameSets (parseWithRecovery g la rmatch w sfuel).pl S → ∀ (one : Bool) (fuel : Nat),
        RNG.fuelFor g (parseWithRecovery g la rmatch w sfuel).pl S one ≤ fuel →
        ∃ res s r cells,
          MP.makeParse g S (RP.tokNums (parseWithRecovery g la rmatch w sfuel).pl) one fuel = .ok res ∧
          MP.makeParseSt (MP.mkCtx g S (RP.tokNums (parseWithRecovery g la rmatch w sfuel).pl) one)
            fuel = some s ∧
          s.bad = false ∧ s.result = some r ∧
          MP.exportTable s.heap r = some (res.tab, res.root) ∧
          res.allocs = MP.allocSeq s ∧ res.nilUsed = s.nilUsed ∧ res.errUsed = s.errUsed ∧
          cells.length = res.tab.size ∧ cells.getD res.root 0 = r ∧
          (∀ id, id < res.tab.size → MP.RepAt s.heap res.tab cells id) ∧
          NG.Released (MP.mkCtx g S (RP.tokNums (parseWithRecovery g la rmatch w sfuel).pl) one) s
            cells res.tab res.root ∧
          RNG.ErrOnce s cells res.tab res.root := by
  have hwf := readGrammar_wf h
  refine ⟨recoveryFuel (w.length + 1) rmatch, fun sfuel hf => ?_⟩
  have hok := parseWithRecovery_ok (readGrammar_hasTotalLoss h) la rmatch w hf
  refine ⟨hok, ?_⟩
  intro S hS one fuel hfuel
  obtain ⟨res, hm⟩ := rng_recovered_parse_total_of hwf (readGrammar_mpWF h) (readGrammar_semOK h).1
    (readGrammar_symsInRange h) hok hS hfuel
  obtain ⟨s, r, cells, a⟩ := recovered_tree_released_of (readGrammar_mpWF h) (readGrammar_semOK h).1
    (readGrammar_symsInRange h) hok hS hm
  exact ⟨res, s, r, cells, hm, a⟩

/-! ## 3. the cost flag -/

/-- **the cost flag after a recovery, cells** (grammar hypotheses explicit; the all-parses run the
cost flag makes `make_parse` do): `find_minimal_translation` (model, with `parse_free`) and the end
of `make_parse` neither lose a cell of the tree memory nor release one twice (`NG.CostCellsSpec`):
every cell other than `rootId` is exactly one of reachable from the new root / in `R.frees` /
handed back at the end of `make_parse` -/
theorem recovered_cost_cells_of {g : Grammar} (hg : g.mpWF = true) (hcyc : ¬ Cyclic g)
    (hsr : g.symsInRange = true) {la rmatch : Nat} {w : List Nat} {sfuel : Nat}
    (hok : (parseWithRecovery g la rmatch w sfuel).ok = true)
    {S : Array (Array Item)} (hS : RP.SameSets (parseWithRecovery g la rmatch w sfuel).pl S)
    {fuel : Nat} {s : MP.St} {r : Nat}
    (hm : MP.makeParseSt (MP.mkCtx g S (RP.tokNums (parseWithRecovery g la rmatch w sfuel).pl) false)
      fuel = some s) (hb : s.bad = false) (hres : s.result = some r)
    {fuel' : Nat} (hf : s.heap.size ≤ fuel') (onep : Bool) (nameBlk : Nat → Nat) :
    NG.CostCellsSpec s r
      (PC.findMinimalTranslation fuel' (PC.ofHeap s.heap) r onep true nameBlk s.nilUsed s.errUsed) :=
  RNG.final_cost_cells (RP.final_of_ok hok) hS (MP.grOK_of_mpWF hg) hcyc hsr hm hb hres hf onep nameBlk

/-- **C13 for the models after a recovery with the cost flag** (grammar hypotheses explicit): let
`R` be what the model of `find_minimal_translation` (with `parse_free`, any one-parse flag, any
assignment `nameBlk` of name blocks, fuel `≥` the number of cells) leaves of the tree memory of the
all-parses run on the final list.  The exporter succeeds on the pruned tree, and for its table

* `NG.CostReleased` holds (see `makeParse_cost_tree_released`): every cell `make_parse` allocated
  is released exactly once — by `yaep_free_tree` on the exported table, by
  `find_minimal_translation`, or as the unused NIL / ERROR node at the end of `make_parse`; every
  name block exactly once; `termcb` once per TERM cell of the pruned tree;
* `RNG.CostErrOnce` holds: `find_minimal_translation` never frees the ERROR node itself; the pruned
  tree contains an `err` record, and `yaep_free_tree` releases the ERROR cell (once), iff
  `R.errUsed`; otherwise — no translation used it, or the pruning discarded every alternative
  that contains it and cleared the flag — `make_parse` hands it back at its end. -/
theorem recovered_cost_tree_released_of {g : Grammar} (hg : g.mpWF = true) (hcyc : ¬ Cyclic g)
    (hsr : g.symsInRange = true) {la rmatch : Nat} {w : List Nat} {sfuel : Nat}
    (hok : (parseWithRecovery g la rmatch w sfuel).ok = true)
    {S : Array (Array Item)} (hS : RP.SameSets (parseWithRecovery g la rmatch w sfuel).pl S)
    {fuel : Nat} {s : MP.St} {r : Nat}
    (hm : MP.makeParseSt (MP.mkCtx g S (RP.tokNums (parseWithRecovery g la rmatch w sfuel).pl) false)
      fuel = some s) (hb : s.bad = false) (hres : s.result = some r)
    {fuel' : Nat} (hf : s.heap.size ≤ fuel') (onep : Bool) (nameBlk : Nat → Nat) :
    ∃ tab root cells,
      MP.exportTable (PC.toHeap (PC.findMinimalTranslation fuel' (PC.ofHeap s.heap) r onep true nameBlk
        s.nilUsed s.errUsed).heap) (PC.findMinimalTranslation fuel' (PC.ofHeap s.heap) r onep true
        nameBlk s.nilUsed s.errUsed).root = some (tab, root) ∧
      cells.length = tab.size ∧
      cells.getD root 0 = (PC.findMinimalTranslation fuel' (PC.ofHeap s.heap) r onep true nameBlk
        s.nilUsed s.errUsed).root ∧
      (∀ id, id < tab.size → MP.RepAt (PC.toHeap (PC.findMinimalTranslation fuel' (PC.ofHeap s.heap) r
        onep true nameBlk s.nilUsed s.errUsed).heap) tab cells id) ∧
      NG.CostReleased (MP.mkCtx g S (RP.tokNums (parseWithRecovery g la rmatch w sfuel).pl) false) s
        nameBlk
        (PC.findMinimalTranslation fuel' (PC.ofHeap s.heap) r onep true nameBlk s.nilUsed s.errUsed)
        cells tab root ∧
      RNG.CostErrOnce s
        (PC.findMinimalTranslation fuel' (PC.ofHeap s.heap) r onep true nameBlk s.nilUsed s.errUsed)
        cells tab root :=
  RNG.final_cost_released (RP.final_of_ok hok) hS (MP.grOK_of_mpWF hg) hcyc hsr hm hb hres hf onep
    nameBlk

/-- **the cost flag after a recovery, cells, end to end** -/
theorem recovered_cost_cells {raw : RawGrammar} {g : Grammar} (h : readGrammar raw = .ok g)
    (la rmatch : Nat) (w : List Nat) :
    ∃ F, ∀ sfuel, F ≤ sfuel →
      (parseWithRecovery g la rmatch w sfuel).ok = true ∧
      ∀ S, RP.SameSets (parseWithRecovery g la rmatch w sfuel).pl S → ∀ fuel,
        MP.mpAllFuelC g (RP.word (parseWithRecovery g la rmatch w sfuel).pl).length
          (MP.plMaxSize S) ≤ fuel →
        ∃ s r,
          MP.makeParseSt (MP.mkCtx g S (RP.tokNums (parseWithRecovery g la rmatch w sfuel).pl) false)
            fuel = some s ∧
          s.bad = false ∧ s.result = some r ∧
          ∀ (fuel' : Nat), s.heap.size ≤ fuel' → ∀ (onep : Bool) (nameBlk : Nat → Nat),
            NG.CostCellsSpec s r
              (PC.findMinimalTranslation fuel' (PC.ofHeap s.heap) r onep true nameBlk s.nilUsed
                s.errUsed) := by
  obtain ⟨F, hF⟩ := recovered_cost_parse h la rmatch w
  refine ⟨F, fun sfuel hf => ?_⟩
  obtain ⟨hok, hrest⟩ := hF sfuel hf
  refine ⟨hok, fun S hS fuel hfuel => ?_⟩
  obtain ⟨res, s, r, _, h1, h2, h3, _, _, _⟩ := hrest S hS fuel hfuel
  exact ⟨s, r, h1, h2, h3, fun fuel' hf' onep nameBlk =>
    recovered_cost_cells_of (readGrammar_mpWF h) (readGrammar_semOK h).1 (readGrammar_symsInRange h)
      hok hS h1 h2 h3 hf' onep nameBlk⟩

/-- **C13 for the models after a recovery with the cost flag, end to end**: for every grammar
`readGrammar` accepts, every token sequence, lookahead level and `recovery_match`, with enough
search fuel the recovering parse succeeds, and for every `S` holding the sets of its final list and
fuel `MP.mpAllFuelC` the all-parses run of the model of `make_parse` ends in a state `s` with result
cell `r`; for every one-parse flag, `nameBlk` and fuel `≥` the number of cells,
`find_minimal_translation` followed by the exporter and `yaep_free_tree` releases every cell and
every name block exactly once (`NG.CostCellsSpec`, `NG.CostReleased`), the ERROR node included
(`RNG.CostErrOnce`) -/
theorem recovered_cost_tree_released {raw : RawGrammar} {g : Grammar} (h : readGrammar raw = .ok g)
    (la rmatch : Nat) (w : List Nat) :
    ∃ F, ∀ sfuel, F ≤ sfuel →
      (parseWithRecovery g la rmatch w sfuel).ok = true ∧
      ∀ S, RP.SameSets (parseWithRecovery g la rmatch w sfuel).pl S → ∀ fuel,
        MP.mpAllFuelC g (RP.word (parseWithRecovery g la rmatch w sfuel).pl).length
          (MP.plMaxSize S) ≤ fuel →
        ∃ s r,
          MP.makeParseSt (MP.mkCtx g S (RP.tokNums (parseWithRecovery g la rmatch w sfuel).pl) false)
            fuel = some s ∧
          s.bad = false ∧ s.result = some r ∧
          ∀ (fuel' : Nat), s.heap.size ≤ fuel' → ∀ (onep : Bool) (nameBlk : Nat → Nat),
            NG.CostCellsSpec s r
              (PC.findMinimalTranslation fuel' (PC.ofHeap s.heap) r onep true nameBlk s.nilUsed
                s.errUsed) ∧
            ∃ tab root cells,
              MP.exportTable (PC.toHeap (PC.findMinimalTranslation fuel' (PC.ofHeap s.heap) r onep true
                nameBlk s.nilUsed s.errUsed).heap) (PC.findMinimalTranslation fuel' (PC.ofHeap s.heap)
                r onep true nameBlk s.nilUsed s.errUsed).root = some (tab, root) ∧
              cells.length = tab.size ∧
              NG.CostReleased
                (MP.mkCtx g S (RP.tokNums (parseWithRecovery g la rmatch w sfuel).pl) false) s nameBlk
                (PC.findMinimalTranslation fuel' (PC.ofHeap s.heap) r onep true nameBlk s.nilUsed
                  s.errUsed) cells tab root ∧
              RNG.CostErrOnce s
                (PC.findMinimalTranslation fuel' (PC.ofHeap s.heap) r onep true nameBlk s.nilUsed
                  s.errUsed) cells tab root := by
  obtain ⟨F, hF⟩ := recovered_cost_parse h la rmatch w
  refine ⟨F, fun sfuel hf => ?_⟩
  obtain ⟨hok, hrest⟩ := hF sfuel hf
  refine ⟨hok, fun S hS fuel hfuel => ?_⟩
  obtain ⟨res, s, r, _, h1, h2, h3, _, _, _⟩ := hrest S hS fuel hfuel
  refine ⟨s, r, h1, h2, h3, fun fuel' hf' onep nameBlk => ⟨?_, ?_⟩⟩
  · exact recovered_cost_cells_of (readGrammar_mpWF h) (readGrammar_semOK h).1
      (readGrammar_symsInRange h) hok hS h1 h2 h3 hf' onep nameBlk
  · obtain ⟨tab, root, cells, a1, a2, _, _, a5, a6⟩ := recovered_cost_tree_released_of
      (readGrammar_mpWF h) (readGrammar_semOK h).1 (readGrammar_symsInRange h) hok hS h1 h2 h3 hf'
      onep nameBlk
    exact ⟨tab, root, cells, a1, a2, a5, a6⟩

/-! ## non-vacuity -/

/-! ### `RecEx`: `S : 'a' 'b' # p(0 1) | error 'b' # e(0 - 1)` on `b b a b`, the C dump `Rec.sets`
of the final list — the tree `e(err nil b@3)` uses the ERROR node and the NIL node -/
namespace RNG.RecEx

theorem acyclic : ¬ Cyclic Rec.g := fun hc => loopSet_ne_nil_of_cyclic Rec.g hc (by decide)

/-- the one-parse run on the C dump -/
theorem run_one :
    MP.makeParse Rec.g Rec.sets Rec.plToks true 100 =
      .ok { amb := false, tab := #[.err, .nil, .term 98 3, .anode "e" 2 [0, 1, 2]], root := 3,
            reuse := 0, origins := 0, nilUsed := true, errUsed := true, heapSize := 5,
            allocs := [.node, .node, .anode 4, .name 1, .node] } := by
  rfl

/-- what the theorems give for a run on the C dump, either mode -/
theorem released {one : Bool} {res : MP.Result}
    (hm : MP.makeParse Rec.g Rec.sets Rec.plToks one 100 = .ok res) :
    ∃ s r cells, MP.makeParseSt (MP.mkCtx Rec.g Rec.sets Rec.plToks one) 100 = some s ∧
      s.result = some r ∧ res.heapSize = s.heap.size ∧ res.nilUsed = s.nilUsed ∧
      res.errUsed = s.errUsed ∧ res.allocs = MP.allocSeq s ∧
      (∀ i, PC.Reach (PC.ofHeap s.heap) r i ↔
        i < s.heap.size ∧ i ≠ MP.rootId ∧ (i = MP.nilId → s.nilUsed = true) ∧
          (i = MP.errId → s.errUsed = true)) ∧
      NG.Released (MP.mkCtx Rec.g Rec.sets Rec.plToks one) s cells res.tab res.root ∧
      RNG.ErrOnce s cells res.tab res.root ∧
      (freedBlocks (freeTree res.tab res.root)).length + (NG.handedBack s).length =
        (MP.allocSeq s).length := by
  rw [← Yaep.RecEx.run.2.2.2.2] at hm
  obtain ⟨s, r, cells, a1, a2, a3, _, a5, a6, a7, _, _, _, a11, a12⟩ :=
    recovered_tree_released_of (by decide) acyclic (by decide) Yaep.RecEx.run.1 Yaep.RecEx.same.1 hm
  obtain ⟨_, _, _, f4⟩ := ng_makeParse_ok_fields hm a1
  have hng := fun i => recovered_no_garbage_of (by decide) acyclic (by decide) Yaep.RecEx.run.1
    Yaep.RecEx.same.1 a1 a2 a3 i
  rw [Yaep.RecEx.run.2.2.2.2] at a1 a11
  exact ⟨s, r, cells, a1, a3, f4, a6, a7, a5, hng, a11, a12,
    a11.count (NG.distinctNames_of_nodup (by decide) _ _ _)⟩

/-- all parses: 5 cells; all but the root record are reachable from the result (NIL and ERROR are
used); `yaep_free_tree` releases the 4 node blocks and the name block, `make_parse` hands nothing
back: 5 requests = 5 blocks released; the ERROR node is in the table and released once -/
example : ∃ s r cells, MP.makeParseSt (MP.mkCtx Rec.g Rec.sets Rec.plToks false) 100 = some s ∧
    s.result = some r ∧ s.heap.size = 5 ∧ s.nilUsed = true ∧ s.errUsed = true ∧
    (∀ i, PC.Reach (PC.ofHeap s.heap) r i ↔ i < 5 ∧ i ≠ 2) ∧
    NG.Released (MP.mkCtx Rec.g Rec.sets Rec.plToks false) s cells
      #[.err, .nil, .term 98 3, .anode "e" 2 [0, 1, 2]] 3 ∧
    RNG.ErrOnce s cells #[.err, .nil, .term 98 3, .anode "e" 2 [0, 1, 2]] 3 ∧
    (MP.allocSeq s).length = 5 ∧ NG.handedBack s = [] ∧
    freedBlocks (freeTree #[.err, .nil, .term 98 3, .anode "e" 2 [0, 1, 2]] 3) =
      [.name "e", .node 0, .node 1, .node 2, .node 3] ∧
    termCalls (freeTree #[.err, .nil, .term 98 3, .anode "e" 2 [0, 1, 2]] 3) = [2] := by
  obtain ⟨s, r, cells, a1, a2, a3, a4, a5, a6, a7, a8, a9, _⟩ := released Rec.run_all
  have hsz : s.heap.size = 5 := a3.symm
  have hn : s.nilUsed = true := a4.symm
  have he : s.errUsed = true := a5.symm
  refine ⟨s, r, cells, a1, a2, hsz, hn, he, ?_, a8, a9, by rw [← a6]; rfl, ?_, by decide, by decide⟩
  · intro i
    rw [a7 i, hsz, hn, he]
    simp only [MP.rootId, implies_true, and_true]
  · unfold NG.handedBack; rw [hn, he]; rfl

/-- one parse: the same tree -/
example : ∃ s r cells, MP.makeParseSt (MP.mkCtx Rec.g Rec.sets Rec.plToks true) 100 = some s ∧
    s.result = some r ∧ s.errUsed = true ∧
    (∀ i, PC.Reach (PC.ofHeap s.heap) r i ↔ i < 5 ∧ i ≠ 2) ∧
    NG.Released (MP.mkCtx Rec.g Rec.sets Rec.plToks true) s cells
      #[.err, .nil, .term 98 3, .anode "e" 2 [0, 1, 2]] 3 ∧
    RNG.ErrOnce s cells #[.err, .nil, .term 98 3, .anode "e" 2 [0, 1, 2]] 3 := by
  obtain ⟨s, r, cells, a1, a2, a3, a4, a5, a6, a7, a8, a9, _⟩ := released run_one
  have hsz : s.heap.size = 5 := a3.symm
  have hn : s.nilUsed = true := a4.symm
  have he : s.errUsed = true := a5.symm
  refine ⟨s, r, cells, a1, a2, he, ?_, a8, a9⟩
  intro i
  rw [a7 i, hsz, hn, he]
  simp only [MP.rootId, implies_true, and_true]

/-- the capstones apply -/
example := recovered_no_garbage Yaep.RecEx.raw_ok 1 1 Yaep.RecEx.w
example := recovered_tree_released Yaep.RecEx.raw_ok 1 1 Yaep.RecEx.w
example := recovered_cost_tree_released Yaep.RecEx.raw_ok 1 1 Yaep.RecEx.w

end RNG.RecEx

/-! ### `RNG.PruneEx`: `S : A # 0 | B # 0 ; A : error 'x' # a 3 (0 1) ; B : error 'x' # b 1 (1)` on
`y x` — the pruning discards the only alternative that contains the ERROR node -/
namespace RNG.PruneEx

/-- without the cost flag (all parses): the tree `a(err x@1) | b(x@1)` contains the ERROR node;
`yaep_free_tree` releases it (once) and `make_parse` hands back only the NIL node:
9 requests = 8 blocks released by `yaep_free_tree` + 1 handed back -/
theorem released : ∃ s r cells,
    MP.makeParseSt (MP.mkCtx g (RP.sets (parseWithRecovery g 1 1 [1, 0] 100).pl)
      (RP.tokNums (parseWithRecovery g 1 1 [1, 0] 100).pl) false) 100 = some s ∧
    s.result = some r ∧ s.errUsed = true ∧ s.nilUsed = false ∧
    (∀ i, PC.Reach (PC.ofHeap s.heap) r i ↔ i < 8 ∧ i ≠ 2 ∧ i ≠ 0) ∧
    NG.Released (MP.mkCtx g (RP.sets (parseWithRecovery g 1 1 [1, 0] 100).pl)
      (RP.tokNums (parseWithRecovery g 1 1 [1, 0] 100).pl) false) s cells
      #[.err, .term 120 1, .anode "a" 3 [0, 1], .anode "b" 1 [1], .alt [2, 3]] 4 ∧
    RNG.ErrOnce s cells #[.err, .term 120 1, .anode "a" 3 [0, 1], .anode "b" 1 [1], .alt [2, 3]] 4 ∧
    NG.handedBack s = [0] ∧ (MP.allocSeq s).length = 9 ∧
    freedBlocks (freeTree #[.err, .term 120 1, .anode "a" 3 [0, 1], .anode "b" 1 [1], .alt [2, 3]] 4) =
      [.name "a", .node 0, .node 1, .node 2, .cell 4 0, .name "b", .node 3, .cell 4 1] := by
  obtain ⟨s, r, cells, a1, a2, a3, _, a5, a6, a7, _, _, _, a11, a12⟩ :=
    recovered_tree_released_of (by decide) acyclic (by decide) run.1 (RP.sameSets_sets _) mp_all
  obtain ⟨_, _, _, hsz, _⟩ := RNG.ex_state mp_all a1
  have hsz : s.heap.size = 8 := hsz
  have hn : s.nilUsed = false := a6.symm
  have he : s.errUsed = true := a7.symm
  refine ⟨s, r, cells, a1, a3, he, hn, ?_, a11, a12, ?_, by rw [← a5]; rfl, by decide⟩
  · intro i
    rw [recovered_no_garbage_of (by decide) acyclic (by decide) run.1 (RP.sameSets_sets _) a1 a2 a3 i,
      hsz, hn, he]
    simp only [MP.rootId, MP.nilId, implies_true, and_true]
    constructor
    · rintro ⟨b1, b2, b3⟩
      exact ⟨b1, b2, fun e => by have := b3 e; cases this⟩
    · rintro ⟨b1, b2, b3⟩
      exact ⟨b1, b2, fun e => absurd e b3⟩
  · unfold NG.handedBack; rw [hn, he]; rfl

/-- **the cost flag**: the heap of the all-parses run is `H` (result cell 6, the ERROR node is
used: cell 1 is reachable); `R = find_minimal_translation` keeps `b(x@1)` and clears the flag of the
ERROR node; every cell is exactly one of reachable / freed / handed back (`NG.CostCellsSpec`),
`yaep_free_tree` on the table `b(x@1)` releases the rest (`NG.CostReleased`), and the ERROR node,
which the pruning discarded, is released exactly once (`RNG.CostErrOnce`): it is not in the pruned
tree, `find_minimal_translation` does not free it, `make_parse` hands it back (with the NIL node) -/
theorem cost_released : ∃ s cells,
    MP.makeParseSt (MP.mkCtx g (RP.sets (parseWithRecovery g 1 1 [1, 0] 100).pl)
      (RP.tokNums (parseWithRecovery g 1 1 [1, 0] 100).pl) false) 100 = some s ∧
    PC.ofHeap s.heap = H ∧ s.result = some 6 ∧ s.errUsed = true ∧ PC.Reach H 6 MP.errId ∧
    NG.CostCellsSpec s 6 (PC.findMinimalTranslation 8 H 6 false true id false true) ∧
    NG.CostReleased (MP.mkCtx g (RP.sets (parseWithRecovery g 1 1 [1, 0] 100).pl)
      (RP.tokNums (parseWithRecovery g 1 1 [1, 0] 100).pl) false) s id
      (PC.findMinimalTranslation 8 H 6 false true id false true) cells
      #[.term 120 1, .anode "b" 1 [0]] 1 ∧
    RNG.CostErrOnce s (PC.findMinimalTranslation 8 H 6 false true id false true) cells
      #[.term 120 1, .anode "b" 1 [0]] 1 ∧
    ¬ PC.Reach (PC.findMinimalTranslation 8 H 6 false true id false true).heap
      (PC.findMinimalTranslation 8 H 6 false true id false true).root MP.errId ∧
    PC.Mem.cell MP.errId ∉ (PC.findMinimalTranslation 8 H 6 false true id false true).frees ∧
    NG.handedBackAfter (PC.findMinimalTranslation 8 H 6 false true id false true) = [0, 1] ∧
    freedBlocks (freeTree #[.term 120 1, .anode "b" 1 [0]] 1) = [.name "b", .node 0, .node 1] := by
  obtain ⟨s, e1, e2, e3, e4⟩ := H_is_make_parse
  obtain ⟨hb, hn, he, _, _⟩ := RNG.ex_state mp_all e1
  have hn : s.nilUsed = false := hn
  have he : s.errUsed = true := he
  have hsz : s.heap.size ≤ 8 := by rw [e4]; exact Nat.le_refl _
  have hc := recovered_cost_cells_of (by decide) acyclic (by decide) run.1 (RP.sameSets_sets _) e1 hb
    e3 hsz false id
  obtain ⟨tab, root, cells, a1, _, _, _, a5, a6⟩ := recovered_cost_tree_released_of (by decide) acyclic
    (by decide) run.1 (RP.sameSets_sets _) e1 hb e3 hsz false id
  have hre := (recovered_no_garbage_of (by decide) acyclic (by decide) run.1 (RP.sameSets_sets _) e1 hb
    e3 MP.errId).2 ⟨by rw [e4]; decide, by decide, (fun e => by cases e), fun _ => he⟩
  rw [e2, hn, he] at hc a1 a5 a6
  rw [e2] at hre
  rw [fmt.2.2.2.2.2] at a1
  injection a1 with a1
  injection a1 with a1 a1'
  subst a1; subst a1'
  refine ⟨s, cells, e1, e2, e3, he, hre, hc, a5, a6, ?_, a6.notFreed, ?_, by decide⟩
  · intro hr
    have := a6.reach.1 hr
    rw [fmt.2.2.2.1] at this
    cases this
  · unfold NG.handedBackAfter
    rw [fmt.2.2.2.1, fmt.2.2.2.2.1]
    rfl

/-- one parse (no cost flag): `make_parse` returns the first alternative `a(err x@1)` -/
example : ∃ s r cells,
    MP.makeParseSt (MP.mkCtx g (RP.sets (parseWithRecovery g 1 1 [1, 0] 100).pl)
      (RP.tokNums (parseWithRecovery g 1 1 [1, 0] 100).pl) true) 100 = some s ∧
    s.result = some r ∧ s.errUsed = true ∧
    NG.Released (MP.mkCtx g (RP.sets (parseWithRecovery g 1 1 [1, 0] 100).pl)
      (RP.tokNums (parseWithRecovery g 1 1 [1, 0] 100).pl) true) s cells
      #[.err, .term 120 1, .anode "a" 3 [0, 1]] 2 ∧
    RNG.ErrOnce s cells #[.err, .term 120 1, .anode "a" 3 [0, 1]] 2 := by
  obtain ⟨s, r, cells, a1, _, a3, _, _, _, a7, _, _, _, a11, a12⟩ :=
    recovered_tree_released_of (by decide) acyclic (by decide) run.1 (RP.sameSets_sets _) mp_one
  exact ⟨s, r, cells, a1, a3, a7.symm, a11, a12⟩

example := recovered_cost_tree_released raw_ok 1 1 [1, 0]
example := recovered_tree_released raw_ok 1 1 [1, 0]

end RNG.PruneEx

/-! ### `RNG.PruneEx2`: `S : 'a' ';' # stmt 1 (0) | error ';' # bad 5 (0 1) | error ';' # skip 1 (1)` -/
namespace RNG.PruneEx2

/-- `e ;` with the cost flag: `find_minimal_translation` keeps `skip(;@1)` and discards
`bad(err ;@1)`, the only alternative with the ERROR node; the ERROR node is not in the pruned tree,
not freed by `find_minimal_translation`, and handed back by `make_parse` -/
theorem cost_released : ∃ s cells,
    MP.makeParseSt (MP.mkCtx g (RP.sets (parseWithRecovery g 1 1 [2, 1] 100).pl)
      (RP.tokNums (parseWithRecovery g 1 1 [2, 1] 100).pl) false) 100 = some s ∧
    PC.ofHeap s.heap = H ∧ s.result = some 5 ∧ s.errUsed = true ∧ PC.Reach H 5 MP.errId ∧
    NG.CostCellsSpec s 5 (PC.findMinimalTranslation 8 H 5 false true id false true) ∧
    NG.CostReleased (MP.mkCtx g (RP.sets (parseWithRecovery g 1 1 [2, 1] 100).pl)
      (RP.tokNums (parseWithRecovery g 1 1 [2, 1] 100).pl) false) s id
      (PC.findMinimalTranslation 8 H 5 false true id false true) cells
      #[.term 59 1, .anode "skip" 1 [0]] 1 ∧
    RNG.CostErrOnce s (PC.findMinimalTranslation 8 H 5 false true id false true) cells
      #[.term 59 1, .anode "skip" 1 [0]] 1 ∧
    ¬ PC.Reach (PC.findMinimalTranslation 8 H 5 false true id false true).heap
      (PC.findMinimalTranslation 8 H 5 false true id false true).root MP.errId ∧
    PC.Mem.cell MP.errId ∉ (PC.findMinimalTranslation 8 H 5 false true id false true).frees ∧
    NG.handedBackAfter (PC.findMinimalTranslation 8 H 5 false true id false true) = [0, 1] := by
  obtain ⟨s, e1, e2, e3, e4⟩ := H_is_make_parse
  obtain ⟨hb, hn, he, _, _⟩ := RNG.ex_state mp_all e1
  have hn : s.nilUsed = false := hn
  have he : s.errUsed = true := he
  have hsz : s.heap.size ≤ 8 := by rw [e4]; exact Nat.le_refl _
  have hc := recovered_cost_cells_of (by decide) acyclic (by decide) run.1 (RP.sameSets_sets _) e1 hb
    e3 hsz false id
  obtain ⟨tab, root, cells, a1, _, _, _, a5, a6⟩ := recovered_cost_tree_released_of (by decide) acyclic
    (by decide) run.1 (RP.sameSets_sets _) e1 hb e3 hsz false id
  have hre := (recovered_no_garbage_of (by decide) acyclic (by decide) run.1 (RP.sameSets_sets _) e1 hb
    e3 MP.errId).2 ⟨by rw [e4]; decide, by decide, (fun e => by cases e), fun _ => he⟩
  rw [e2, hn, he] at hc a1 a5 a6
  rw [e2] at hre
  rw [fmt.2.2.2.2.2] at a1
  injection a1 with a1
  injection a1 with a1 a1'
  subst a1; subst a1'
  refine ⟨s, cells, e1, e2, e3, he, hre, hc, a5, a6, ?_, a6.notFreed, ?_⟩
  · intro hr
    have := a6.reach.1 hr
    rw [fmt.2.2.2.1] at this
    cases this
  · unfold NG.handedBackAfter
    rw [fmt.2.2.2.1, fmt.2.2.2.2.1]
    rfl

/-- `e ; e`: total loss, the repaired input is `error $eof`, the tree is the NIL node; the ERROR
node is not used: it is not in the table, `yaep_free_tree` releases the one node block, `make_parse`
hands the ERROR node back: 2 requests = 1 block released + 1 handed back -/
theorem total : ∃ s r cells,
    MP.makeParseSt (MP.mkCtx g (RP.sets (parseWithRecovery g 1 1 [2, 1, 2] 100).pl)
      (RP.tokNums (parseWithRecovery g 1 1 [2, 1, 2] 100).pl) false) 100 = some s ∧
    s.result = some r ∧ s.errUsed = false ∧ s.nilUsed = true ∧
    ¬ PC.Reach (PC.ofHeap s.heap) r MP.errId ∧
    NG.Released (MP.mkCtx g (RP.sets (parseWithRecovery g 1 1 [2, 1, 2] 100).pl)
      (RP.tokNums (parseWithRecovery g 1 1 [2, 1, 2] 100).pl) false) s cells #[.nil] 0 ∧
    RNG.ErrOnce s cells #[.nil] 0 ∧
    NG.handedBack s = [1] ∧ (MP.allocSeq s).length = 2 ∧
    freedBlocks (freeTree #[.nil] 0) = [.node 0] := by
  obtain ⟨s, r, cells, a1, a2, a3, _, a5, a6, a7, _, _, _, a11, a12⟩ :=
    recovered_tree_released_of (by decide) acyclic (by decide) run_total.1 (RP.sameSets_sets _) mp_total
  have hn : s.nilUsed = true := a6.symm
  have he : s.errUsed = false := a7.symm
  refine ⟨s, r, cells, a1, a3, he, hn, ?_, a11, a12, ?_, by rw [← a5]; rfl, by decide⟩
  · intro hr
    have := ((recovered_no_garbage_of (by decide) acyclic (by decide) run_total.1 (RP.sameSets_sets _)
      a1 a2 a3 MP.errId).1 hr).2.2.2 rfl
    rw [he] at this; cases this
  · unfold NG.handedBack; rw [hn, he]; rfl

example := recovered_cost_tree_released raw_ok 1 1 [2, 1, 2]

end RNG.PruneEx2

/-! ### `CostEx` (`Props/RecoveredCost.lean`): `S : S S # c 1 (0 1) | S S # d 2 (0 1) | 'a' # 0 |
error 'b' # e 3 (1)` on `b a a` — ambiguous, with costs; no translation uses the ERROR node -/
namespace RNG.CostEx

/-- the all-parses run on the model's final list (tree memory `CostEx.H`, 27 cells, result cell 22;
NIL and ERROR unused), then `find_minimal_translation` (all minimal parses): 18 blocks freed, the
pruned forest of the two trees of cost 5 exported with 9 entries, `yaep_free_tree` releases the
rest; the ERROR node was never used and is handed back by `make_parse` -/
theorem cost_released : ∃ s cells,
    MP.makeParseSt (MP.mkCtx CostEx.g (RP.sets (parseWithRecovery CostEx.g 1 1 [1, 0, 0] 100).pl)
      (RP.tokNums (parseWithRecovery CostEx.g 1 1 [1, 0, 0] 100).pl) false) 200 = some s ∧
    PC.ofHeap s.heap = CostEx.H ∧ s.result = some 22 ∧ s.errUsed = false ∧
    NG.CostCellsSpec s 22 (PC.findMinimalTranslation 27 CostEx.H 22 false true id false false) ∧
    (∃ tab root,
      MP.exportTable (PC.toHeap (PC.findMinimalTranslation 27 CostEx.H 22 false true id false false).heap)
        (PC.findMinimalTranslation 27 CostEx.H 22 false true id false false).root = some (tab, root) ∧
      NG.CostReleased (MP.mkCtx CostEx.g (RP.sets (parseWithRecovery CostEx.g 1 1 [1, 0, 0] 100).pl)
        (RP.tokNums (parseWithRecovery CostEx.g 1 1 [1, 0, 0] 100).pl) false) s id
        (PC.findMinimalTranslation 27 CostEx.H 22 false true id false false) cells tab root ∧
      RNG.CostErrOnce s (PC.findMinimalTranslation 27 CostEx.H 22 false true id false false) cells
        tab root) ∧
    MP.errId ∈ NG.handedBackAfter (PC.findMinimalTranslation 27 CostEx.H 22 false true id false false) := by
  obtain ⟨s, e1, e2, e3⟩ := CostEx.H_is_make_parse
  have hm : ∃ res, MP.makeParse CostEx.g (RP.sets (parseWithRecovery CostEx.g 1 1 [1, 0, 0] 100).pl)
      (RP.tokNums (parseWithRecovery CostEx.g 1 1 [1, 0, 0] 100).pl) false 200 = .ok res ∧
      res.nilUsed = false ∧ res.errUsed = false := ⟨_, rfl, rfl, rfl⟩
  obtain ⟨res, hm, r1, r2⟩ := hm
  obtain ⟨hb, hn, he, _, _⟩ := RNG.ex_state hm e1
  rw [r1] at hn
  rw [r2] at he
  have hsz : s.heap.size ≤ 27 := by
    have := congrArg Array.size e2
    rw [MP.size_ofHeap] at this
    rw [this]; exact Nat.le_refl _
  have hc := recovered_cost_cells_of (by decide) CostEx.acyclic (by decide) CostEx.run.1
    (RP.sameSets_sets _) e1 hb e3 hsz false id
  obtain ⟨tab, root, cells, a1, _, _, _, a5, a6⟩ := recovered_cost_tree_released_of (by decide)
    CostEx.acyclic (by decide) CostEx.run.1 (RP.sameSets_sets _) e1 hb e3 hsz false id
  rw [e2, hn, he] at hc a1 a5 a6
  refine ⟨s, cells, e1, e2, e3, he, hc, ⟨tab, root, a1, a5, a6⟩, ?_⟩
  apply a6.back.2
  cases hq : (PC.findMinimalTranslation 27 CostEx.H 22 false true id false false).errUsed with
  | false => rfl
  | true => have := a6.mono hq; rw [he] at this; cases this

end RNG.CostEx

end Yaep
