import Yaep.Model.ApiFault
import Yaep.Props.C14
/-!
# C17: allocation failure is reported as YAEP_NO_MEMORY, other objects are unaffected

Theorems about `apiStepFault` (the API state machine under a single failing allocation,
`Model/ApiFault.lean`).  The runtime half of the property — "without touching invalid memory" —
is what the fault enumeration observes under the sanitizers; this file carries the logic the
judge applies to every injected failure:

* `fault_result`: NULL for `yaep_create_grammar`, `YAEP_NO_MEMORY` for a definition or a parse;
* `fault_local`: no other object changes;
* `fault_errcode`: `yaep_error_code` then returns `YAEP_NO_MEMORY`;
* `fault_define_undefined` / `fault_parse_keeps`: a failed definition leaves the object undefined
  (a later parse returns `YAEP_UNDEFINED_OR_BAD_GRAMMAR`), a failed parse leaves definition and every
  setting as they were (so the same parse without a failure returns what it would have returned);
* `fault_then_free`: the object can still be freed, and the slot is then as good as new;
* `fault_then_redefine`: a later successful definition behaves as on a fresh object;
* `fault_bystander_run`: whatever is done to the failing object, the calls on another object return
  what they return when run alone.
-/
namespace Yaep

theorem fault_result {s s' : List ObjState} {op : ApiOp} {r : ApiRes}
    (h : apiStepFault s op = some (s', r)) :
    (∃ hd, op = .create hd ∧ r = .unit) ∨ r = .rc noMemory := by
  unfold apiStepFault at h
  cases op <;> simp [objStepFault] at h <;> first | (left; exact ⟨_, rfl, h.2.symm⟩) | (right; exact h.2.symm)

/-- the calls that request no memory cannot fail that way -/
theorem fault_none_iff (s : List ObjState) (op : ApiOp) :
    apiStepFault s op = none ↔ (∃ h k v, op = .set h k v) ∨ (∃ h, op = .errcode h) ∨ (∃ h, op = .free h) := by
  unfold apiStepFault
  cases op <;> simp [objStepFault]

theorem fault_length {s s' : List ObjState} {op : ApiOp} {r : ApiRes}
    (h : apiStepFault s op = some (s', r)) : s'.length = s.length := by
  unfold apiStepFault at h
  split at h
  · cases h; exact length_setAt _ _ _
  · cases h

/-- a failing call does not touch the other objects -/
theorem fault_local {s s' : List ObjState} {op : ApiOp} {r : ApiRes} {h' : Nat}
    (h : apiStepFault s op = some (s', r)) (hne : h' ≠ op.handle) : objAt s' h' = objAt s h' := by
  unfold apiStepFault at h
  split at h
  · cases h; exact objAt_setAt_ne _ hne _
  · cases h

/-- `yaep_create_grammar` returning NULL leaves the slot dead -/
theorem fault_create {s s' : List ObjState} {hd : Nat} {r : ApiRes} (hh : hd < s.length)
    (h : apiStepFault s (.create hd) = some (s', r)) : objAt s' hd = {} := by
  simp [apiStepFault, objStepFault] at h
  rw [← h.1]; exact objAt_setAt_same hh _

/-- after a failed definition or parse `yaep_error_code` returns `YAEP_NO_MEMORY` -/
theorem fault_errcode {s s' : List ObjState} {op : ApiOp} (hh : op.handle < s.length)
    (h : apiStepFault s op = some (s', .rc noMemory)) (hc : ∀ hd, op ≠ .create hd) :
    (apiStep s' (.errcode op.handle)).2 = .code noMemory := by
  cases op with
  | create hd => exact absurd rfl (hc hd)
  | define hd res =>
    have hh' : hd < s.length := hh
    simp only [apiStepFault, objStepFault, ApiOp.handle, Option.some.injEq, Prod.mk.injEq, and_true] at h
    show ApiRes.code (objAt s' hd).lastErr = _
    rw [← h, objAt_setAt_same hh']; rfl
  | parse hd an fg codes =>
    have hh' : hd < s.length := hh
    simp only [apiStepFault, objStepFault, ApiOp.handle, Option.some.injEq, Prod.mk.injEq, and_true] at h
    show ApiRes.code (objAt s' hd).lastErr = _
    rw [← h, objAt_setAt_same hh']; rfl
  | set _ _ _ => simp [apiStepFault, objStepFault] at h
  | errcode _ => simp [apiStepFault, objStepFault] at h
  | free _ => simp [apiStepFault, objStepFault] at h

/-- a definition that ran out of memory leaves the object undefined: the next parse returns
`YAEP_UNDEFINED_OR_BAD_GRAMMAR` (unless it is refused for its NULL allocator first), settings kept -/
theorem fault_define_undefined {s s' : List ObjState} {hd : Nat} {res : Except ErrCode Grammar} {r : ApiRes}
    (hh : hd < s.length) (h : apiStepFault s (.define hd res) = some (s', r)) :
    (objAt s' hd).defn = none ∧ (objAt s' hd).st = (objAt s hd).st ∧
      ∀ codes, (apiStep s' (.parse hd false false codes)).2 = .rc 2 := by
  simp [apiStepFault, objStepFault] at h
  have ho : objAt s' hd = ((objAt s hd).define (.error 1)).1 := by rw [← h.1]; exact objAt_setAt_same hh _
  refine ⟨by rw [ho]; rfl, by rw [ho]; rfl, fun codes => ?_⟩
  show ApiRes.rc (parseRc (objAt s' hd) false false codes) = _
  rw [ho]; rfl

/-- a parse that ran out of memory changes nothing but the error code: definition and every
setting are what they were -/
theorem fault_parse_keeps {s s' : List ObjState} {hd : Nat} {an fg : Bool} {codes : List Int} {r : ApiRes}
    (hh : hd < s.length) (h : apiStepFault s (.parse hd an fg codes) = some (s', r)) :
    (objAt s' hd).defn = (objAt s hd).defn ∧ (objAt s' hd).st = (objAt s hd).st ∧
      (objAt s' hd).alive = (objAt s hd).alive ∧
      ∀ an' fg' codes', (apiStep s' (.parse hd an' fg' codes')).2 = (apiStep s (.parse hd an' fg' codes')).2 := by
  simp [apiStepFault, objStepFault] at h
  have ho : objAt s' hd = (objAt s hd).record noMemory := by rw [← h.1]; exact objAt_setAt_same hh _
  refine ⟨by rw [ho]; exact record_defn _ _, by rw [ho]; exact record_st _ _, ?_, fun an' fg' codes' => ?_⟩
  · rw [ho]; rfl
  · show ApiRes.rc (parseRc (objAt s' hd) an' fg' codes') = ApiRes.rc (parseRc (objAt s hd) an' fg' codes')
    rw [ho, parseRc_defn (record_defn _ _)]

/-- every setter still returns the value it would have returned: a failed call changes no setting -/
theorem fault_settings_kept {s s' : List ObjState} {op : ApiOp} {r : ApiRes} (hh : op.handle < s.length)
    (h : apiStepFault s op = some (s', r)) (hc : ∀ hd, op ≠ .create hd) (k : SetKind) (v : Int) :
    (apiStep s' (.set op.handle k v)).2 = (apiStep s (.set op.handle k v)).2 := by
  have hst : (objAt s' op.handle).st = (objAt s op.handle).st := by
    cases op with
    | create hd => exact absurd rfl (hc hd)
    | define hd res => exact (fault_define_undefined hh h).2.1
    | parse hd an fg codes => exact (fault_parse_keeps hh h).2.1
    | set _ _ _ => simp [apiStepFault, objStepFault] at h
    | errcode _ => simp [apiStepFault, objStepFault] at h
    | free _ => simp [apiStepFault, objStepFault] at h
  show ApiRes.prev ((objAt s' op.handle).st.set k v).1 = ApiRes.prev ((objAt s op.handle).st.set k v).1
  rw [hst]

/-- the object can still be freed; the slot is then as good as new -/
theorem fault_then_free {s s' : List ObjState} {op : ApiOp} {r : ApiRes} (hh : op.handle < s.length)
    (h : apiStepFault s op = some (s', r)) :
    (apiStep s' (.free op.handle)).2 = .unit ∧ objAt (apiStep s' (.free op.handle)).1 op.handle = {} := by
  refine ⟨rfl, ?_⟩
  show objAt (setAt s' op.handle {}) op.handle = {}
  exact objAt_setAt_same (by rw [fault_length h]; exact hh) _

/-- a later successful definition installs the grammar: the object parses as a fresh one would -/
theorem fault_then_redefine {s s' : List ObjState} {op : ApiOp} {r : ApiRes} (hh : op.handle < s.length)
    (h : apiStepFault s op = some (s', r)) (g : Grammar) :
    (apiStep s' (.define op.handle (.ok g))).2 = .rc 0 ∧
      (objAt (apiStep s' (.define op.handle (.ok g))).1 op.handle).defn = some g := by
  refine ⟨rfl, ?_⟩
  show (objAt (setAt s' op.handle _) op.handle).defn = some g
  rw [objAt_setAt_same (by rw [fault_length h]; exact hh)]

/-- whatever happens to the failing object, the calls on another object return what they return
when run alone (`run_projection` started from the state after the failure) -/
theorem fault_bystander_run {s s' : List ObjState} {op : ApiOp} {r : ApiRes} {b : Nat}
    (h : apiStepFault s op = some (s', r)) (hb : b < s.length) (hne : b ≠ op.handle) (ops : List ApiOp) :
    resultsFor b ops (run s' ops).2 = (run s (ops.filter (·.handle = b))).2 ∧
      objAt (run s' ops).1 b = objAt (run s (ops.filter (·.handle = b))).1 b :=
  run_projection (by rw [fault_length h]; exact hb) hb (fault_local h hne) ops

/-! ## non-vacuity: the scenario of the fault enumeration -/

/-- object 0 defined, object 1 (the bystander) defined; then a parse of object 0 fails -/
def faultScenario : List ObjState := (run tab3 [.create 0, .create 1, .define 0 (.ok gApi), .define 1 (.ok gApi),
  .set 0 .one 0, .set 0 .cost 1]).1

example : ∃ s', apiStepFault faultScenario (.parse 0 false false [97, -1]) = some (s', .rc noMemory) ∧
    (objAt s' 0).st.one = 0 ∧ (objAt s' 0).st.cost = 1 ∧ (objAt s' 0).lastErr = 1 ∧
    (apiStep s' (.parse 0 false false [97, -1])).2 = .rc 0 ∧
    (apiStep s' (.parse 1 false false [97, -1])).2 = .rc 0 := ⟨_, rfl, rfl, rfl, rfl, rfl, rfl⟩

example : ∃ s', apiStepFault faultScenario (.define 0 (.ok gApi)) = some (s', .rc noMemory) ∧
    (apiStep s' (.parse 0 false false [97, -1])).2 = .rc 2 ∧
    (apiStep s' (.errcode 0)).2 = .code 1 := ⟨_, rfl, rfl, rfl⟩

example : apiStepFault faultScenario (.free 0) = none := rfl

end Yaep
