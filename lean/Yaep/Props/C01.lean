import Yaep.Lemmas.Earley
import Yaep.Lemmas.EarleyLA
/-!
# C01 — the parse list: recognition

Properties of the executable model `Yaep/Model/Earley.lean` (`set0`, `nextSet`, `parseLoop`,
`buildPL`, `accepts`) against the declarative specification `Der` / `Sentence`
(`Yaep/Spec/Der.lean`), `EarleyF` (`Yaep/Spec/EarleyF.lean`) and `Grammar.WF`
(`Yaep/Spec/WF.lean`).  Helper lemmas are in `Yaep/Lemmas/Earley.lean`.
-/
namespace Yaep

/-- example grammar: terminals `0 = error`, `1 = $eof`, `2 = a`, `3 = b`; nonterminals
`0 = $S`, `1 = S`; rules `$S : S $eof`, `S : a S b`, `S :`, `$S : error $eof`. -/
def c01Grammar : Grammar :=
  { rules := [ { lhs := 0, rhs := [.n 1, .t 1] },
               { lhs := 1, rhs := [.t 2, .n 1, .t 3] },
               { lhs := 1, rhs := [] },
               { lhs := 0, rhs := [.t 0, .t 1] } ],
    termNames := ["error", "$eof", "a", "b"], termCodes := [-1, -2, 97, 98],
    ntNames := ["$S", "S"], errT := 0, eofT := 1, axiomN := 0, startN := 1 }

/-! ## (a) the executable sets are the declarative filtered Earley sets -/

/-- Every set of the parse list computed by `parseLoop` (any lookahead level, any analysis
tables) is exactly the declarative set `EarleyF` with the filter `laFilter`. -/
theorem parseLoop_computes_EarleyF (g : Grammar) (an : Analysis) (la : Nat) (w' : List Nat)
    (j : Nat) (h : j < (parseLoop g an la w' [set0 g] 0).2.length) (it : Item) :
    it ∈ (parseLoop g an la w' [set0 g] 0).2[j] ↔ EarleyF g (laFilter g an la w') w' j it := by
  have hinv := (parseLoop_spec g an la w' w' [set0 g] 0 rfl (Nat.zero_le _) rfl
    (PLInv_set0 _ _ _) (fun m hm => absurd hm (Nat.not_lt_zero _))).1
  have := hinv j h it
  rwa [List.getD_eq_getElem?_getD, List.getElem?_eq_getElem h, Option.getD_some] at this

theorem buildPL_computes_EarleyF (g : Grammar) (la : Nat) (w : List Nat)
    (j : Nat) (h : j < (buildPL g la w).2.length) (it : Item) :
    it ∈ (buildPL g la w).2[j] ↔
      EarleyF g (laFilter g g.analysis la (w ++ [g.eofT])) (w ++ [g.eofT]) j it :=
  parseLoop_computes_EarleyF g g.analysis la (w ++ [g.eofT]) j h it

/-- The result of `buildPL`: the index of the first token without a transition. -/
theorem buildPL_error_iff (g : Grammar) (la : Nat) (w : List Nat) (e : Nat) :
    (buildPL g la w).1 = some e ↔ e < (w ++ [g.eofT]).length ∧
      ¬ HasTransF g (laFilter g g.analysis la (w ++ [g.eofT])) (w ++ [g.eofT]) e ∧
      ∀ m, m < e → HasTransF g (laFilter g g.analysis la (w ++ [g.eofT])) (w ++ [g.eofT]) m :=
  buildPL_some_iff g la w e

theorem accepts_iff_all_trans (g : Grammar) (la : Nat) (w : List Nat) :
    accepts g la w = true ↔ ∀ m, m < (w ++ [g.eofT]).length →
      HasTransF g (laFilter g g.analysis la (w ++ [g.eofT])) (w ++ [g.eofT]) m :=
  accepts_iff g la w

/-- non-vacuity: the parse list of `a b $eof` has 4 sets and set 1 contains `S : a . S b, 0` -/
example : (buildPL c01Grammar 1 [2, 3]).2.length = 4 ∧
    (⟨1, 1, 0⟩ : Item) ∈ (buildPL c01Grammar 1 [2, 3]).2.getD 1 [] := by decide

/-! ## (b) soundness of every computed item, for every lookahead level and analysis -/

theorem parseLoop_sound (g : Grammar) (an : Analysis) (la : Nat) (w' : List Nat)
    (j : Nat) (h : j < (parseLoop g an la w' [set0 g] 0).2.length) (it : Item)
    (hit : it ∈ (parseLoop g an la w' [set0 g] 0).2[j]) :
    ∃ rl, g.rules[it.rule]? = some rl ∧ it.dot ≤ rl.rhs.length ∧ it.origin ≤ j ∧
      Der g (rl.rhs.take it.dot) (slice w' it.origin j) :=
  ((parseLoop_computes_EarleyF g an la w' j h it).mp hit).sound

theorem buildPL_sound (g : Grammar) (la : Nat) (w : List Nat)
    (j : Nat) (h : j < (buildPL g la w).2.length) (it : Item)
    (hit : it ∈ (buildPL g la w).2[j]) :
    ∃ rl, g.rules[it.rule]? = some rl ∧ it.dot ≤ rl.rhs.length ∧ it.origin ≤ j ∧
      Der g (rl.rhs.take it.dot) (slice (w ++ [g.eofT]) it.origin j) :=
  parseLoop_sound g g.analysis la (w ++ [g.eofT]) j h it hit

/-- non-vacuity: set 2 of `a b $eof` at lookahead 1 is not empty -/
example : ∃ it, it ∈ (buildPL c01Grammar 1 [2, 3]).2.getD 2 [] := ⟨⟨1, 3, 0⟩, by decide⟩

/-! ## (c) completeness at lookahead level 0 -/

/-- If a segment `β` of a right-hand side derives `w'[k, k+|u|)` and the item with the dot
before `β` is in set `k`, then the item with the dot after `β` is in set `k+|u|`, and every
set `m` inside the segment has an item with the terminal `w'[m]` after the dot. -/
theorem completeness_la0 {g : Grammar} {an : Analysis} {w' : List Nat} {β : List Sym}
    {u : List Nat} (hd : Der g β u) (r d i k : Nat) (rest : List Sym) (rl : Rule)
    (hit : EarleyF g (laFilter g an 0 w') w' k ⟨r, d, i⟩) (hr : g.rules[r]? = some rl)
    (hrest : rl.rhs.drop d = β ++ rest) (hs : slice w' k (k + u.length) = u) :
    EarleyF g (laFilter g an 0 w') w' (k + u.length) ⟨r, d + β.length, i⟩ ∧
    ∀ m, k ≤ m → m < k + u.length → HasTransF g (laFilter g an 0 w') w' m :=
  completeness_aux (laFilter_zero g an w') hd r d i k rest rl hit hr hrest hs

/-- Executable form: for a sentence, `buildPL` at level 0 reports no error, builds all
`|w| + 2` sets, and the last set contains the completed item `$S : start $eof .` -/
theorem buildPL_complete_la0 {g : Grammar} {w : List Nat} (hwf : g.WF) (hs : Sentence g w) :
    (buildPL g 0 w).1 = none ∧
    ∃ h : w.length + 1 < (buildPL g 0 w).2.length,
      (⟨0, 2, 0⟩ : Item) ∈ (buildPL g 0 w).2[w.length + 1] := by
  have hd := der_axiom_of_sentence hs
  have hnone : (buildPL g 0 w).1 = none :=
    (buildPL_none_iff g 0 w).mpr (trans_of_der_axiom hwf (laFilter_zero _ _ _) hd)
  have hlen := ((buildPL_spec g 0 w).2.1 hnone).1
  rw [List.length_append, List.length_singleton] at hlen
  refine ⟨hnone, by omega, ?_⟩
  rw [buildPL_computes_EarleyF]
  obtain ⟨r0, hr0, hl0, hrhs⟩ := hwf.rule0
  have h0 : EarleyF g (laFilter g g.analysis 0 (w ++ [g.eofT])) (w ++ [g.eofT]) 0 ⟨0, 0, 0⟩ :=
    EarleyF.init hr0 hl0
  have := (completeness_aux (laFilter_zero g g.analysis (w ++ [g.eofT])) hd 0 0 0 0 [] r0 h0 hr0
    (by rw [hrhs]; rfl) (by rw [Nat.zero_add]; exact slice_zero_length _)).1
  simpa using this

example : c01Grammar.WF := by decide
example : Sentence c01Grammar [2, 3] := by
  have h2 : Der c01Grammar [Sym.n 1, Sym.t 3] ([] ++ [3]) :=
    Der.nt (g := c01Grammar) (r := 2) (rl := { lhs := 1, rhs := [] }) rfl Der.nil
      (Der.term Der.nil)
  have h1 : Der c01Grammar [Sym.n 1] ([2, 3] ++ []) :=
    Der.nt (g := c01Grammar) (r := 1) (rl := { lhs := 1, rhs := [.t 2, .n 1, .t 3] }) rfl
      (Der.term h2) Der.nil
  exact h1

/-! ## (d) recognition -/

/-- At lookahead level 0 the model accepts exactly the sentences. -/
theorem accepts_iff_sentence_la0 {g : Grammar} {w : List Nat} (hwf : g.WF)
    (htok : ∀ a ∈ w, a ≠ g.eofT ∧ a ≠ g.errT) : accepts g 0 w = true ↔ Sentence g w := by
  constructor
  · intro h
    have hall := (accepts_iff g 0 w).mp h
    exact sentence_of_trans_eof hwf (fun hmem => (htok _ hmem).2 rfl)
      (hall w.length (by rw [List.length_append, List.length_singleton]; exact Nat.lt_succ_self _))
  · intro h
    exact (accepts_iff g 0 w).mpr
      (trans_of_der_axiom hwf (laFilter_zero _ _ _) (der_axiom_of_sentence h))

example : c01Grammar.WF ∧ (∀ a ∈ [2, 2, 3, 3], a ≠ c01Grammar.eofT ∧ a ≠ c01Grammar.errT) ∧
    accepts c01Grammar 0 [2, 2, 3, 3] = true ∧ accepts c01Grammar 0 [2, 3, 3] = false := by
  decide

/-- At every lookahead level (and whatever the analysis tables contain) everything the
model accepts is a sentence. -/
theorem accepts_sound {g : Grammar} {la : Nat} {w : List Nat} (hwf : g.WF)
    (htok : ∀ a ∈ w, a ≠ g.eofT ∧ a ≠ g.errT) (h : accepts g la w = true) : Sentence g w := by
  have hall := (accepts_iff g la w).mp h
  exact sentence_of_trans_eof hwf (fun hmem => (htok _ hmem).2 rfl)
    (hall w.length (by rw [List.length_append, List.length_singleton]; exact Nat.lt_succ_self _))

example : c01Grammar.WF ∧ (∀ a ∈ [2, 2, 3, 3], a ≠ c01Grammar.eofT ∧ a ≠ c01Grammar.errT) ∧
    accepts c01Grammar 1 [2, 2, 3, 3] = true := by decide

/- Full statement (NOT proved, and false for `WF` alone):

  theorem firstError_la0 (hwf : g.WF) (htok : ∀ a ∈ w, a ≠ g.eofT ∧ a ≠ g.errT) :
      (buildPL g 0 w).1 = some k ↔
        k < (w ++ [g.eofT]).length ∧
        (¬ ∃ v, Der g [Sym.n g.startN, Sym.t g.eofT] ((w ++ [g.eofT]).take (k + 1) ++ v)) ∧
        ∀ m, m < k → ∃ v, Der g [Sym.n g.startN, Sym.t g.eofT] ((w ++ [g.eofT]).take (m + 1) ++ v)

The direction "every position before the reported one is viable" needs every nonterminal to
be productive, which `WF` does not say (`yaep_read_grammar` checks it only in strict mode):
with `S : A | 'a'`, `A : 'b' A` and input `b`, level 0 shifts `b` and reports token 1, although
no sentence starts with `b`.  What holds for `WF` alone is the direction below, together with
`buildPL_error_iff` (the reported token is the first one without a transition).  With the
productivity hypothesis the full statement is `firstError_iff_viable` at the end of this file. -/

/-- At level 0, if token `k` is reported as the first error, then the prefix `w'[0..k]`
(offending token included) cannot be continued to a sentence followed by the end marker. -/
theorem firstError_la0_partial {g : Grammar} {w : List Nat} {k : Nat} (hwf : g.WF)
    (h : (buildPL g 0 w).1 = some k) :
    ¬ ∃ v, Der g [Sym.n g.startN, Sym.t g.eofT] ((w ++ [g.eofT]).take (k + 1) ++ v) := by
  rintro ⟨v, hd⟩
  obtain ⟨hk, hn, _⟩ := (buildPL_some_iff g 0 w k).mp h
  have hlen : k < ((w ++ [g.eofT]).take (k + 1) ++ v).length := by
    rw [List.length_append, List.length_take]; omega
  have hT := trans_of_der_axiom hwf (laFilter_zero g g.analysis (w ++ [g.eofT])) hd k hlen
  apply hn
  apply hT.congr_prefix
  intro m hm
  rw [List.getElem?_append_left (by rw [List.length_take]; omega),
    List.getElem?_take_of_lt (by omega)]

example : c01Grammar.WF ∧ (buildPL c01Grammar 0 [2, 3, 3]).1 = some 2 := by decide

/-! ## lookahead level 1 (static lookahead)

yaep's level-1 test (`okItem` with the sets `laSet` built from FIRST and FOLLOW) never removes
an item that lies on a derivation of the whole input, so levels 0 and 1 give the same verdict.
`g.symsInRange` (symbol numbers below the table sizes) is what makes the fuel of the
FIRST/FOLLOW fixpoints sufficient. -/

/-- Completeness at level 1 (no hypothesis on the tokens is needed for this direction). -/
theorem accepts_complete_la1 {g : Grammar} {w : List Nat} (hwf : g.WF)
    (hsr : g.symsInRange = true) (hs : Sentence g w) : accepts g 1 w = true :=
  (accepts_iff g 1 w).mpr (la1_of_der_axiom hwf hsr (der_axiom_of_sentence hs)).2

/-- Executable form: for a sentence, `buildPL` at level 1 reports no error and the last set
contains the completed item `$S : start $eof .` -/
theorem buildPL_complete_la1 {g : Grammar} {w : List Nat} (hwf : g.WF)
    (hsr : g.symsInRange = true) (hs : Sentence g w) :
    (buildPL g 1 w).1 = none ∧
    ∃ h : w.length + 1 < (buildPL g 1 w).2.length,
      (⟨0, 2, 0⟩ : Item) ∈ (buildPL g 1 w).2[w.length + 1] := by
  have hla := la1_of_der_axiom hwf hsr (der_axiom_of_sentence hs)
  have hnone : (buildPL g 1 w).1 = none := (buildPL_none_iff g 1 w).mpr hla.2
  have hlen := ((buildPL_spec g 1 w).2.1 hnone).1
  rw [List.length_append, List.length_singleton] at hlen
  refine ⟨hnone, by omega, ?_⟩
  rw [buildPL_computes_EarleyF]
  simpa using hla.1

example : c01Grammar.WF ∧ c01Grammar.symsInRange = true ∧ accepts c01Grammar 1 [2, 3] = true :=
  by decide

/-- At lookahead level 1 the model accepts exactly the sentences. -/
theorem accepts_iff_sentence_la1 {g : Grammar} {w : List Nat} (hwf : g.WF)
    (hsr : g.symsInRange = true) (htok : ∀ a ∈ w, a ≠ g.eofT ∧ a ≠ g.errT) :
    accepts g 1 w = true ↔ Sentence g w :=
  ⟨accepts_sound hwf htok, accepts_complete_la1 hwf hsr⟩

example : Sentence c01Grammar [2, 2, 3, 3] :=
  (accepts_iff_sentence_la1 (g := c01Grammar) (by decide) (by decide) (by decide)).mp (by decide)
example : ¬ Sentence c01Grammar [2, 3, 3] := fun h =>
  absurd ((accepts_iff_sentence_la1 (g := c01Grammar) (by decide) (by decide) (by decide)).mpr h)
    (by decide)

/-- Levels 0 and 1 accept exactly the sentences. -/
theorem accepts_iff_sentence {g : Grammar} {la : Nat} {w : List Nat} (hwf : g.WF)
    (hsr : g.symsInRange = true) (htok : ∀ a ∈ w, a ≠ g.eofT ∧ a ≠ g.errT) (hla : la ≤ 1) :
    accepts g la w = true ↔ Sentence g w := by
  rcases Nat.le_one_iff_eq_zero_or_eq_one.mp hla with h | h
  · subst h; exact accepts_iff_sentence_la0 hwf htok
  · subst h; exact accepts_iff_sentence_la1 hwf hsr htok

/-- The verdict does not depend on the lookahead level (0 or 1). -/
theorem verdict_indep_of_la01 {g : Grammar} {w : List Nat} (hwf : g.WF)
    (hsr : g.symsInRange = true) (htok : ∀ a ∈ w, a ≠ g.eofT ∧ a ≠ g.errT) :
    accepts g 0 w = accepts g 1 w :=
  Bool.eq_iff_iff.mpr
    ((accepts_iff_sentence_la0 hwf htok).trans (accepts_iff_sentence_la1 hwf hsr htok).symm)

example : c01Grammar.WF ∧ c01Grammar.symsInRange = true ∧
    (∀ a ∈ [2, 3, 3], a ≠ c01Grammar.eofT ∧ a ≠ c01Grammar.errT) ∧
    accepts c01Grammar 0 [2, 3, 3] = false ∧ accepts c01Grammar 1 [2, 3, 3] = false := by decide

/-! ## the first error (valid-prefix property)

If every nonterminal is productive (a decidable condition; `check_grammar` enforces it in
strict mode), the token reported by `buildPL` at level 0 or 1 is the first token `k` such
that `w'[0..k]` cannot be continued to a sentence followed by the end marker. -/

theorem firstError_iff_viable {g : Grammar} {la : Nat} {w : List Nat} (hwf : g.WF)
    (hsr : g.symsInRange = true) (hprod : ∀ A, A < g.nN → A ∈ g.productive)
    (htok : ∀ a ∈ w, a ≠ g.eofT ∧ a ≠ g.errT) (hla : la ≤ 1) (k : Nat) :
    (buildPL g la w).1 = some k ↔
      k < (w ++ [g.eofT]).length ∧
      (¬ ∃ v, Der g [Sym.n g.startN, Sym.t g.eofT] ((w ++ [g.eofT]).take (k + 1) ++ v)) ∧
      ∀ m, m < k →
        ∃ v, Der g [Sym.n g.startN, Sym.t g.eofT] ((w ++ [g.eofT]).take (m + 1) ++ v) := by
  have hiff := hasTransF_iff_viable hwf hsr hprod la hla (getElem?_zero_ne_err hwf htok)
  rw [buildPL_some_iff]
  constructor
  · rintro ⟨hk, hn, hall⟩
    exact ⟨hk, fun hv => hn ((hiff k).mpr ⟨hk, hv⟩), fun m hm => ((hiff m).mp (hall m hm)).2⟩
  · rintro ⟨hk, hn, hall⟩
    exact ⟨hk, fun hT => hn ((hiff k).mp hT).2,
      fun m hm => (hiff m).mpr ⟨Nat.lt_trans hm hk, hall m hm⟩⟩

/-- Levels 0 and 1 report the same first error (or none). -/
theorem firstError_indep_of_la01 {g : Grammar} {w : List Nat} (hwf : g.WF)
    (hsr : g.symsInRange = true) (hprod : ∀ A, A < g.nN → A ∈ g.productive)
    (htok : ∀ a ∈ w, a ≠ g.eofT ∧ a ≠ g.errT) :
    (buildPL g 1 w).1 = (buildPL g 0 w).1 := by
  apply Option.ext
  intro k
  rw [firstError_iff_viable hwf hsr hprod htok (Nat.le_refl 1) k,
    firstError_iff_viable hwf hsr hprod htok (Nat.zero_le 1) k]

example : c01Grammar.WF ∧ c01Grammar.symsInRange = true ∧
    (∀ A, A < c01Grammar.nN → A ∈ c01Grammar.productive) ∧
    (∀ a ∈ [2, 3, 3], a ≠ c01Grammar.eofT ∧ a ≠ c01Grammar.errT) ∧
    (buildPL c01Grammar 1 [2, 3, 3]).1 = some 2 ∧ (buildPL c01Grammar 0 [2, 3, 3]).1 = some 2 := by
  decide

end Yaep
