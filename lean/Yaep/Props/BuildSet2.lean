import Yaep.Lemmas.BuildSet2Inv
import Yaep.Lemmas.BuildSet2Safe
import Yaep.Lemmas.BuildSet2Main
import Yaep.Props.BuildSet
import Yaep.Props.C09Lookahead
/-!
# The Earley-set construction of `src/yaep.c` at lookahead level 2, step for step, computes the
sets of the level-2 set model

`Yaep/Model/BuildSet2.lean` (namespace `Yaep.BS2`) transcribes `build_start_set`,
`build_new_set`, `expand_new_start_set` (with its `lookahead_level > 1` block), `set_insert`
and the main loop of `build_pl` for `grammar->lookahead_level > 1`: a situation is
`(rule, dot, context)`.  This file states what is proved about that model; the proofs are in
`Yaep/Lemmas/BuildSet2Ctx.lean` (the context loop), `BuildSet2Expand.lean`, `BuildSet2New.lean`,
`BuildSet2Items.lean`, `BuildSet2.lean`, `BuildSet2PL.lean`, `BuildSet2Inv.lean`,
`BuildSet2Safe.lean`, `BuildSet2Main.lean`.

Vocabulary used in the statements (defined in the lemma files):

* `c.sitAt k`, `c.ctxAt k`: situation `k` of the core `c` and its context; `c.proj`: the core of
  levels 0/1 (`BS.Core`) obtained by forgetting the contexts;
* `newCtx g an c i` (model file): the context the body of the inner `for` computes for situation
  `i` from the present contents of `new_sits`;
* `TransExact g c`: `k` is in the transition vector of `X` iff situation `k` exists and has `X`
  after the dot; `InitNil c`: every situation from `n_all_dists` on has the empty context (the
  state at the entry of the `lookahead_level > 1` block);
* `expand3 g an c`: the core after the three `for` loops of `expand_new_start_set`, i.e. at the
  entry of that block;
* `PreFix g an c0 Y`: the family `Y` (a context for every nonterminal) is closed under the
  inequalities that define the contexts: for every situation `k` of `c0` with a nonterminal `A`
  after the dot, `LA (k shifted) ⊆ Y A`, where the shifted situation carries the context of `k` if
  `k < n_all_dists` and `Y (lhs k)` if `k` is an initial situation;
* `CLInv g an c0 c`: the state `c` of the loop started from `c0`: only the contexts of the initial
  situations differ, each is strictly increasing, made of terminal numbers, below what the loop
  body would compute next, and below every `PreFix` family;
* `ctxSize c0 c`: the total number of terminals in the contexts of the initial situations;
* `items2 g start`, `pairs2 g start`, `inits2 g start` (`Yaep/Lemmas/Earley2C.lean`): the three
  intermediate values of `expand2 g an start j` of `Model/Earley2.lean` (start items with their
  nullable-advanced copies, the `(rule, dot)` of the predicted items, the result of `ctxFix`);
* `itemOf j (sit, dist)` = `⟨sit.rule, sit.dot, j - dist, sit.ctx⟩`;
* `TabInv2 g an tab`: every core `c` stored at index `i` of the table of cores is
  `expandNewStartSet g an (Core2.fresh i (its start situations))`.
-/
namespace Yaep.BS2
open Yaep

/-! ## the `do … while (changed_p)` loop: termination -/

/-- The hypotheses of the theorems about the loop hold for every core that reaches the loop:
exact transition vectors, empty contexts in the initial situations, contexts made of terminal
numbers below `n_all_dists` (if the start situations have such contexts). -/
theorem ctxLoop_entry_state (g : Grammar) (num : Nat) (ss : List Sit2)
    (hb : ∀ s ∈ ss, ∀ a ∈ s.ctx, a < g.nT) :
    TransExact g (expand3 g g.analysis (Core2.fresh num ss)) ∧
    InitNil (expand3 g g.analysis (Core2.fresh num ss)) ∧
    ∀ k, k < (expand3 g g.analysis (Core2.fresh num ss)).nAllDists →
      ∀ a ∈ (expand3 g g.analysis (Core2.fresh num ss)).ctxAt k, a < g.nT :=
  ctxLoop_entry_state_aux g num ss hb

/-- **The lookup inside the block never fails.**  `core_symb_vect_find (new_core,
new_sit->rule->lhs)` is dereferenced without a test; for every initial situation of every core
that reaches the block (any grammar, any start situations) the triple exists and its transition
vector is not empty: the rule of an initial situation was predicted from a situation of the same
core. -/
theorem ctxLoop_lookup_safe (g : Grammar) (an : Analysis) (num : Nat) (ss : List Sit2) {i : Nat}
    (hi1 : (expand3 g an (Core2.fresh num ss)).nAllDists ≤ i)
    (hi2 : i < (expand3 g an (Core2.fresh num ss)).sits.length) :
    ∃ l, (expand3 g an (Core2.fresh num ss)).transOf
        (.n (lhsOf g ((expand3 g an (Core2.fresh num ss)).sitAt i))) = some l ∧ l ≠ [] :=
  ctxLoop_vect_nonempty g an num ss hi1 hi2

/-- **One pass only makes the contexts grow.**  From a state `c` of the loop (`CLInv`), a pass
over any list `order` of indices of initial situations leads to a state of the loop in which
every context contains the old one; if it ends with `changed_p == TRUE` the total size of the
contexts is strictly bigger, if it ends with `changed_p == FALSE` nothing was changed and `c`
is a fixpoint at every index of `order`; the total size never exceeds
`(n_sits - n_all_dists) * (number of terminals)`. -/
theorem ctxPass_grows {g : Grammar} (hsr : g.symsInRange = true) {c0 : Core2}
    (htr : TransExact g c0)
    (hbase : ∀ k, k < c0.nAllDists → ∀ a ∈ c0.ctxAt k, a < g.nT)
    (order : List Nat) (hval : ∀ i ∈ order, c0.nAllDists ≤ i ∧ i < c0.sits.length)
    {c : Core2} (h : CLInv g g.analysis c0 c) :
    CLInv g g.analysis c0 (ctxPassOn flagOr g g.analysis order c).1 ∧
    (∀ k, ∀ a ∈ c.ctxAt k, a ∈ (ctxPassOn flagOr g g.analysis order c).1.ctxAt k) ∧
    ((ctxPassOn flagOr g g.analysis order c).2 = true →
      ctxSize c0 c < ctxSize c0 (ctxPassOn flagOr g g.analysis order c).1) ∧
    ((ctxPassOn flagOr g g.analysis order c).2 = false →
      (ctxPassOn flagOr g g.analysis order c).1 = c ∧
      ∀ i ∈ order, newCtx g g.analysis c i = c.ctxAt i) ∧
    ctxSize c0 (ctxPassOn flagOr g g.analysis order c).1 ≤
      (c0.sits.length - c0.nAllDists) * g.nT := by
  obtain ⟨h1, h2, h3, h4⟩ := ctxPass_spec hsr hbase htr order hval c false h
  refine ⟨h1, h2, ?_, ?_, ctxSize_le h1⟩
  · intro hr
    rcases h4 hr with hb | hlt
    · cases hb
    · exact hlt
  · intro hr
    exact (h3 hr).2

/-- **`ctxLoop_fuel_suffices`: the `do … while (changed_p)` loop ends.**  Started at the entry
state of the `lookahead_level > 1` block, with the fuel `ctxFuel g c0 =
(n_sits - n_all_dists) * (number of terminals) + 1`, the loop leaves through its test
`changed_p == FALSE` — more fuel does not change the result — whatever the list `order` of the
indices of the initial situations visited by a pass (every initial situation at least once). -/
theorem ctxLoop_fuel_suffices {g : Grammar} (hsr : g.symsInRange = true) {c0 : Core2}
    (htr : TransExact g c0) (hnil : InitNil c0)
    (hbase : ∀ k, k < c0.nAllDists → ∀ a ∈ c0.ctxAt k, a < g.nT)
    (order : List Nat) (hval : ∀ i ∈ order, c0.nAllDists ≤ i ∧ i < c0.sits.length)
    (hcov : ∀ i, c0.nAllDists ≤ i → i < c0.sits.length → i ∈ order) (extra : Nat) :
    ctxLoopOn flagOr g g.analysis order (ctxFuel g c0 + extra) c0 =
      ctxLoopOn flagOr g g.analysis order (ctxFuel g c0) c0 :=
  (ctxLoopOn_spec hsr hbase htr order hval hcov (ctxFuel g c0) c0 (CLInv_init hnil)
    (by unfold ctxFuel; omega)).2.2 extra

/-- the same for the loop as `expand_new_start_set` runs it (`ctxLoopWith`: the indices
`n_all_dists … n_sits - 1` in increasing order), for any start situations whose contexts are
sets of terminal numbers -/
theorem expand_ctxLoop_fuel_suffices {g : Grammar} (hsr : g.symsInRange = true) (num : Nat)
    (ss : List Sit2) (hb : ∀ s ∈ ss, ∀ a ∈ s.ctx, a < g.nT) (extra : Nat) :
    ctxLoopWith flagOr g g.analysis
        (ctxFuel g (expand3 g g.analysis (Core2.fresh num ss)) + extra)
        (expand3 g g.analysis (Core2.fresh num ss)) =
      expandNewStartSet g g.analysis (Core2.fresh num ss) :=
  (expandNewStartSet_spec2 hsr num ss hb).2 extra

/-! ## the `do … while (changed_p)` loop: what it computes -/

/-- **`ctxLoop_least_fixpoint`.**  The result `c` of the loop differs from the entry state `c0`
only in the contexts of the initial situations; it is a fixpoint of the loop body (for every
initial situation `i` the body would compute the context `i` already has); and it is the least
one: the context of `i` is contained in `Y (lhs of the rule of i)` for every family `Y` closed
under the defining inequalities (`PreFix`).  This holds for every list `order` of indices
visited by a pass. -/
theorem ctxLoop_least_fixpoint {g : Grammar} (hsr : g.symsInRange = true) {c0 : Core2}
    (htr : TransExact g c0) (hnil : InitNil c0)
    (hbase : ∀ k, k < c0.nAllDists → ∀ a ∈ c0.ctxAt k, a < g.nT)
    (order : List Nat) (hval : ∀ i ∈ order, c0.nAllDists ≤ i ∧ i < c0.sits.length)
    (hcov : ∀ i, c0.nAllDists ≤ i → i < c0.sits.length → i ∈ order) :
    (ctxLoopOn flagOr g g.analysis order (ctxFuel g c0) c0).proj = c0.proj ∧
    (∀ k, k < c0.nAllDists →
      (ctxLoopOn flagOr g g.analysis order (ctxFuel g c0) c0).sitAt k = c0.sitAt k) ∧
    (∀ i, c0.nAllDists ≤ i → i < c0.sits.length →
      newCtx g g.analysis (ctxLoopOn flagOr g g.analysis order (ctxFuel g c0) c0) i =
        (ctxLoopOn flagOr g g.analysis order (ctxFuel g c0) c0).ctxAt i) ∧
    (∀ Y, PreFix g g.analysis c0 Y → ∀ i, c0.nAllDists ≤ i → i < c0.sits.length →
      ∀ a ∈ (ctxLoopOn flagOr g g.analysis order (ctxFuel g c0) c0).ctxAt i,
        a ∈ Y (lhsOf g (c0.sitAt i))) ∧
    PreFix g g.analysis c0
      (fun A => ctxOfNt g g.analysis (ctxLoopOn flagOr g g.analysis order (ctxFuel g c0) c0) A) := by
  obtain ⟨hinv, hfix, _⟩ := ctxLoopOn_spec hsr hbase htr order hval hcov (ctxFuel g c0) c0
    (CLInv_init hnil) (by unfold ctxFuel; omega)
  exact ⟨hinv.proj, hinv.low, hfix, hinv.least, prefix_of_fix htr hinv hfix⟩

/-- **The order of the in-place updates does not matter**: two lists of indices (each visiting
every initial situation) give the same core. -/
theorem ctxLoop_order_irrelevant {g : Grammar} (hsr : g.symsInRange = true) {c0 : Core2}
    (htr : TransExact g c0) (hnil : InitNil c0)
    (hbase : ∀ k, k < c0.nAllDists → ∀ a ∈ c0.ctxAt k, a < g.nT)
    (order order' : List Nat)
    (hval : ∀ i ∈ order, c0.nAllDists ≤ i ∧ i < c0.sits.length)
    (hcov : ∀ i, c0.nAllDists ≤ i → i < c0.sits.length → i ∈ order)
    (hval' : ∀ i ∈ order', c0.nAllDists ≤ i ∧ i < c0.sits.length)
    (hcov' : ∀ i, c0.nAllDists ≤ i → i < c0.sits.length → i ∈ order') :
    ctxLoopOn flagOr g g.analysis order (ctxFuel g c0) c0 =
      ctxLoopOn flagOr g g.analysis order' (ctxFuel g c0) c0 := by
  obtain ⟨h1, f1, _⟩ := ctxLoopOn_spec hsr hbase htr order hval hcov (ctxFuel g c0) c0
    (CLInv_init hnil) (by unfold ctxFuel; omega)
  obtain ⟨h2, f2, _⟩ := ctxLoopOn_spec hsr hbase htr order' hval' hcov' (ctxFuel g c0) c0
    (CLInv_init hnil) (by unfold ctxFuel; omega)
  exact fix_unique htr h1 h2 f1 f2

/-- **The contexts are the ones `ctxFix` computes.**  Let `ns` be start situations with their
distances, `c` the core `expand_new_start_set` makes of them, `start` the same start situations
as items of a set at position `j`.  Every initial situation of `c`, with the context the loop
gave it, is an entry of the list `ctxFix` returns inside `expand2 g an start j` (`inits2`: the
contexts of the predicted items, keyed by `(rule, dot)`). -/
theorem ctxLoop_eq_ctxFix {g : Grammar} (hsr : g.symsInRange = true) (num : Nat) (ns : NewStart2)
    (j : Nat) (hb : ∀ p ∈ ns, ∀ a ∈ p.1.ctx, a < g.nT) :
    ∀ i, (expandNewStartSet g g.analysis (Core2.fresh num (ns.map (·.1)))).nAllDists ≤ i →
      i < (expandNewStartSet g g.analysis (Core2.fresh num (ns.map (·.1)))).sits.length →
      (((expandNewStartSet g g.analysis (Core2.fresh num (ns.map (·.1)))).sitAt i).proj,
        (expandNewStartSet g g.analysis (Core2.fresh num (ns.map (·.1)))).ctxAt i) ∈
      ctxFix g g.analysis (items2 g (ns.map (itemOf j)))
        ((pairs2 g (ns.map (itemOf j))).length * (g.nT + 1) + 2)
        ((pairs2 g (ns.map (itemOf j))).map fun p => (p, [])) :=
  ctxLoop_eq_ctxFix_aux hsr num ns j hb

/-! ## the cores -/

/-- the invariants of a level-2 core -/
structure CoreInv2 (g : Grammar) (c : Core2) : Prop where
  /-- without the contexts: the invariants of a core of levels 0/1 (counters, parents, no
  repeated initial `(rule, dot)`, exact transition and reduce vectors) -/
  base : BS.CoreInv g c.proj
  /-- a derived situation has the context of its parent -/
  dctx : ∀ i p, c.nStart ≤ i → i < c.nAllDists → c.parents[i - c.nStart]? = some p →
    c.ctxAt i = c.ctxAt p
  /-- the context of an initial situation is the union of the lookaheads of the shifted
  situations of the transition vector of its left-hand side -/
  fix : ∀ i, c.nAllDists ≤ i → i < c.sits.length → c.ctxAt i = newCtx g g.analysis c i
  /-- contexts of initial situations are canonical (strictly increasing) sets of terminal
  numbers -/
  canon : ∀ i, c.nAllDists ≤ i → i < c.sits.length → SortedLt (c.ctxAt i)
  bnd : ∀ i, c.nAllDists ≤ i → i < c.sits.length → ∀ a ∈ c.ctxAt i, a < g.nT

theorem coreInv2_of_spec {g : Grammar} {num : Nat} {ss : List Sit2} {c : Core2}
    (h : ExpandSpec2 g num ss c) : CoreInv2 g c := by
  have hsp := h.spec
  refine ⟨⟨hsp.le, hsp.le', hsp.plen, hsp.parents_lt, hsp.nodup, hsp.trans, hsp.reduces⟩, ?_,
    fun i h1 h2 => (h.fix i h1 h2).symm, h.canon, h.bnd⟩
  intro i p h1 h2 h3
  rw [h.dctx i p h1 h2 h3]
  have hp : p < c.nStart := hsp.parents_lt p (List.mem_of_getElem? h3)
  have := h.start p (by rw [← h.nStart]; exact hp)
  unfold Core2.ctxAt
  unfold Core2.sitAt at this
  rw [this]

/-- whatever the start situations are (with contexts made of terminal numbers),
`expand_new_start_set` produces a core with these invariants, with the given start situations
and number -/
theorem expand_core_invariants2 {g : Grammar} (hsr : g.symsInRange = true) (num : Nat)
    (ss : List Sit2) (hb : ∀ s ∈ ss, ∀ a ∈ s.ctx, a < g.nT) :
    CoreInv2 g (expandNewStartSet g g.analysis (Core2.fresh num ss)) ∧
    (expandNewStartSet g g.analysis (Core2.fresh num ss)).sits.take ss.length = ss ∧
    (expandNewStartSet g g.analysis (Core2.fresh num ss)).nStart = ss.length ∧
    (expandNewStartSet g g.analysis (Core2.fresh num ss)).num = num := by
  obtain ⟨h1, h2, h3⟩ := expandNewStartSetWith_start flagOr g g.analysis num ss
  exact ⟨coreInv2_of_spec (expandNewStartSet_spec2 hsr num ss hb).1, h3, h2, h1⟩

/-- **`core_invariants2`**: every core of the parse list `build_pl` builds at level 2 has the
invariants, one distance is stored per start situation, and every context in it is a set of
terminal numbers. -/
theorem core_invariants2 {g : Grammar} (hsr : g.symsInRange = true) (w : List Nat) :
    ∀ cs ∈ (buildPLC2 g w).2.2, CoreInv2 g cs.core ∧ cs.dists.length = cs.core.nStart ∧
      ∀ k, ∀ a ∈ cs.core.ctxAt k, a < g.nT := by
  intro cs hcs
  have hexp := buildPLC2_exp2B hsr w cs hcs
  obtain ⟨num, ns, hc, hd, _⟩ := hexp.spec hsr
  refine ⟨coreInv2_of_spec hc, ?_, hexp.allBnd hsr⟩
  rw [hd, hc.nStart, List.length_map, List.length_map]

/-! ## hash-consing of cores on the start situations (contexts included) -/

/-- **`setInsert2_reuse_sound`.**  If `set_insert` finds the core in the table (returns `FALSE`),
the stored core — with its non-start situations, their contexts and the vectors — is what
`expand_new_start_set` would compute from the start situations of the set being formed. -/
theorem setInsert2_reuse_sound {g : Grammar} {an : Analysis} {tab : Tab2}
    (hinv : TabInv2 g an tab) (ns : NewStart2) (hfound : (setInsert tab ns).2.2 = false) :
    (setInsert tab ns).2.1.core =
      expandNewStartSet g an (Core2.fresh (setInsert tab ns).2.1.core.num (ns.map (·.1))) ∧
    (setInsert tab ns).2.1.dists = ns.map (·.2) := by
  have h := insert_expand_spec hinv ns
  dsimp only at h
  rw [hfound] at h
  obtain ⟨_, hd, num, hc⟩ := h
  simp only [Bool.false_eq_true, if_false] at hd hc
  refine ⟨?_, hd⟩
  have hn : (setInsert tab ns).2.1.core.num = num := by
    rw [hc]; exact (expandNewStartSetWith_start flagOr g an num _).1
  rw [hn]; exact hc

/-- the table invariant holds initially and at the end of `build_pl`, whatever the grammar -/
theorem tabInv2_empty (g : Grammar) (an : Analysis) : TabInv2 g an {} := TabInv2_empty g an

theorem tabInv2_buildPLC2 (g : Grammar) (w : List Nat) :
    TabInv2 g g.analysis (buildPLC2 g w).2.1 := buildPLC2_tabInv g w

/-- and it is kept by every `build_new_set` -/
theorem tabInv2_buildNewSet {g : Grammar} {an : Analysis} {tab : Tab2} (htab : TabInv2 g an tab)
    (ok : Nat → Nat → List Nat → Bool) (pl : List CSet2) (set : CSet2) (X : Sym) :
    TabInv2 g an (buildNewSet g an ok tab pl set X).1 := (buildNewSet_tabInv htab ok pl set X).1

/-! ## one set -/

/-- **A stored set whose core is `expand_new_start_set` of the start situations `ns` has, at
position `j`, exactly the items of `expand2 g an start j`**, where `start` are the start
situations as items. -/
theorem expandedSet_items {g : Grammar} (hsr : g.symsInRange = true) (num : Nat) (ns : NewStart2)
    (j : Nat) (hb : ∀ p ∈ ns, ∀ a ∈ p.1.ctx, a < g.nT) :
    ∀ it, it ∈ (⟨expandNewStartSet g g.analysis (Core2.fresh num (ns.map (·.1))),
        ns.map (·.2)⟩ : CSet2).items j ↔
      it ∈ expand2 g g.analysis (ns.map (itemOf j)) j :=
  expandedSet_items_aux hsr num ns j hb

/-- `build_start_set` computes set 0 of `buildPL2`. -/
theorem buildStartSet2_items {g : Grammar} (hsr : g.symsInRange = true) :
    ∀ it, it ∈ (buildStartSet g g.analysis).2.items 0 ↔
      it ∈ expand2 g g.analysis ((g.rulesFor g.axiomN).map fun r => ⟨r, 0, 0, []⟩) 0 :=
  (buildStartSet_main hsr).2.2

/-- **`build_new_set` computes `nextSet2`.**  `pl` is the C parse list built so far for the
token string `w`, `plA` an abstract level-2 parse list with the same items position by position
(`PLOK2`) and the invariant `Yaep.Inv2` of `Lemmas/Earley2C.lean`, `tab` a table satisfying the
table invariant, `a = w[k]` the token shifted from the last set.  Then the set built has exactly
the items of `nextSet2 g an nxt plA a`, for every lookahead `nxt`, and the invariants hold again
for the longer lists. -/
theorem buildNewSet2_items {g : Grammar} (hsr : g.symsInRange = true) {w : List Nat}
    {plA : List (List Item2)} {pl : List CSet2} {k a : Nat} {nxt : Option Nat} {tab : Tab2}
    (htab : TabInv2 g g.analysis tab) (h : PLOK2 g plA pl) (hinv : Yaep.Inv2 g w plA)
    (hlen : plA.length = k + 1) (hw : w[k]? = some a) :
    (∀ it, it ∈ (buildNewSet g g.analysis (ok2 g g.analysis nxt) tab pl (pl.getLastD default)
        (Sym.t a)).2.items pl.length ↔ it ∈ nextSet2 g g.analysis nxt plA a) ∧
    TabInv2 g g.analysis
      (buildNewSet g g.analysis (ok2 g g.analysis nxt) tab pl (pl.getLastD default) (Sym.t a)).1 ∧
    PLOK2 g (plA ++ [nextSet2 g g.analysis nxt plA a])
      (pl ++ [(buildNewSet g g.analysis (ok2 g g.analysis nxt) tab pl (pl.getLastD default)
        (Sym.t a)).2]) := by
  obtain ⟨h1, h2, h3⟩ := buildNewSet_main (nxt := nxt) hsr htab h hinv hlen hw
  exact ⟨h3, h1, PLOK2_snoc h h2 h3⟩

/-- the fuel of the second loop of `build_new_set` suffices: more fuel does not change the
result (under the same hypotheses) -/
theorem newSet2_fuel_suffices {g : Grammar} {w : List Nat} {plA : List (List Item2)}
    {pl : List CSet2} {k a : Nat} {nxt : Option Nat} (h : PLOK2 g plA pl)
    (hinv : Yaep.Inv2 g w plA) (hlen : plA.length = k + 1) (hw : w[k]? = some a) (extra : Nat) :
    newSetLoop2 g g.analysis (ok2 g g.analysis nxt) pl (pl.length - 1) (newSetFuel pl + extra)
        (newSetLoop1 (ok2 g g.analysis nxt) (pl.getLastD default)
          (((pl.getLastD default).core.transOf (Sym.t a)).getD []), false) =
      newSetLoop2 g g.analysis (ok2 g g.analysis nxt) pl (pl.length - 1) (newSetFuel pl)
        (newSetLoop1 (ok2 g g.analysis nxt) (pl.getLastD default)
          (((pl.getLastD default).core.transOf (Sym.t a)).getD []), false) :=
  (newStarts_inv (nxt := nxt) h hinv hlen hw).2 extra

/-! ## the parse list -/

/-- **`buildPLC2_eq_buildPL2`: `build_pl` at level 2 (step-for-step model) and `buildPL2` (set
model) agree**: same error index, same number of sets, and position by position the same set of
items `(rule, dot, origin, context)`.  The hypotheses are the ones under which the fuels of
`buildPL2` are known to suffice (`Lemmas/Earley2C.lean`); `yaep_read_grammar` establishes
them. -/
theorem buildPLC2_eq_buildPL2 {g : Grammar} (hwf : g.WF) (hsr : g.symsInRange = true)
    (w : List Nat) :
    (buildPLC2 g w).1 = (buildPL2 g w).1 ∧
    (buildPLC2 g w).2.2.length = (buildPL2 g w).2.length ∧
    ∀ j, j < (buildPL2 g w).2.length → ∀ it,
      it ∈ ((buildPLC2 g w).2.2.getD j default).items j ↔ it ∈ (buildPL2 g w).2.getD j [] := by
  obtain ⟨h1, _, h3⟩ := buildPLC2_spec hwf hsr w
  exact ⟨h1, h3.len.symm, fun j hj it => h3.items j (by rw [← h3.len]; exact hj) it⟩

theorem acceptsC2_eq_accepts2 {g : Grammar} (hwf : g.WF) (hsr : g.symsInRange = true)
    (w : List Nat) : acceptsC2 g w = accepts2 g w := by
  unfold acceptsC2 accepts2
  rw [(buildPLC2_eq_buildPL2 hwf hsr w).1]

/-- **At lookahead level 2 the step-for-step model accepts exactly the sentences.** -/
theorem acceptsC2_iff_sentence {g : Grammar} {w : List Nat} (hwf : g.WF)
    (hsr : g.symsInRange = true) (htok : ∀ a ∈ w, a ≠ g.eofT ∧ a ≠ g.errT) :
    acceptsC2 g w = true ↔ Sentence g w := by
  rw [acceptsC2_eq_accepts2 hwf hsr]
  exact accepts2_iff_sentence hwf hsr htok

/-- the verdict of the step-for-step models does not depend on the lookahead level -/
theorem acceptsC_indep_of_la012 {g : Grammar} {w : List Nat} (hwf : g.WF)
    (hsr : g.symsInRange = true) (htok : ∀ a ∈ w, a ≠ g.eofT ∧ a ≠ g.errT) :
    BS.acceptsC g 0 w = acceptsC2 g w ∧ BS.acceptsC g 1 w = acceptsC2 g w := by
  rw [acceptsC2_eq_accepts2 hwf hsr, BS.acceptsC_eq_accepts, BS.acceptsC_eq_accepts]
  exact verdict_indep_of_la012 hwf hsr htok

/-! ## the `do … while` of `build_new_set` -/

/-- As at levels 0/1 (`BS.doWhile_safe`): in its second loop `build_new_set` runs
`do { sit_ind = *curr_el++; … } while (curr_el < bound)` over the transition vector of
`core_symb_vect_find (prev_set_core, lhs)` after `assert (curr_el != NULL)`; the model records an
entry with an empty vector in `Tab2.bad`.  For the grammars `yaep_read_grammar` builds it never
happens, whatever the input. -/
theorem doWhile_safe2 {g : Grammar} (hwf : g.WF) (hsr : g.symsInRange = true) (w : List Nat) :
    (buildPLC2 g w).2.1.bad = false := buildPLC2_not_bad hwf hsr w

/-- a grammar `yaep_read_grammar` cannot build: `$S : $eof`, `$S : ` -/
def emptyAxiomGrammar2 : Grammar :=
  { rules := [ { lhs := 0, rhs := [.t 1] }, { lhs := 0, rhs := [] } ],
    termNames := ["error", "$eof"], termCodes := [-1, -2],
    ntNames := ["$S"], errT := 0, eofT := 1, axiomN := 0, startN := 0 }

/-- TEST: the hypothesis `WF` is needed — set 0 has a reduce vector for `$S` and no transition
vector, and after `$eof` (the last token: the lookahead is ignored) the start situation
`$S : $eof .` looks it up.  (At level 2 the example of levels 0/1 does not work: before the last
token a situation of `$S` with the dot at the end has an empty lookahead set and is filtered.) -/
example : ¬ emptyAxiomGrammar2.WF ∧ emptyAxiomGrammar2.symsInRange = true ∧
    (buildPLC2 emptyAxiomGrammar2 []).2.1.bad = true := by decide +kernel

/-! ## a past mutation of the loop (test)

`changed_p = (sit != new_sit)` instead of `changed_p = TRUE` inside the `if`: the flag then tells
only whether the *last* initial situation was replaced, and the loop can stop before the
fixpoint.  `ctxBugGrammar`: `S : K 'c' | I 'b' | J 'a'`, `K : I`, `I : J`, `J : 'j'` — the unit
chain `J ← I ← K` is used in three right contexts.  In set 0 the initial situations are, in this
order, `J : . j`, `I : . J`, `K : . I`; the context of `J` needs the one of `I`, which needs the
one of `K`, so three passes are needed; in the second pass the last situation (`K : . I`) does not
change.  Terminals `0 = error`, `1 = $eof`, `2 = a`, `3 = b`, `4 = c`, `5 = j`; nonterminals
`0 = $S`, `1 = S`, `2 = K`, `3 = I`, `4 = J`. -/

def ctxBugGrammar : Grammar :=
  { rules := [ { lhs := 0, rhs := [.n 1, .t 1] },
               { lhs := 1, rhs := [.n 2, .t 4] },
               { lhs := 1, rhs := [.n 3, .t 3] },
               { lhs := 1, rhs := [.n 4, .t 2] },
               { lhs := 2, rhs := [.n 3] },
               { lhs := 3, rhs := [.n 4] },
               { lhs := 4, rhs := [.t 5] },
               { lhs := 0, rhs := [.t 0, .t 1] } ],
    termNames := ["error", "$eof", "a", "b", "c", "j"], termCodes := [-1, -2, 97, 98, 99, 106],
    ntNames := ["$S", "S", "K", "I", "J"], errT := 0, eofT := 1, axiomN := 0, startN := 1 }

/-- TEST (evaluation by `decide`): on the input `j c` the mutated loop leaves the context
`{a, b}` in `J : . j` of set 0 (the present code: `{a, b, c}`), the reduction of `J` is then
filtered by the lookahead `c` and a syntax error is reported at token 1; the present code
accepts, as the set model does; the grammar is well formed. -/
theorem ctxFlag_witness :
    ctxBugGrammar.WF ∧ ctxBugGrammar.symsInRange = true ∧
    (buildPLC2Last ctxBugGrammar [5, 4]).1 = some 1 ∧
    (buildPLC2 ctxBugGrammar [5, 4]).1 = none ∧ accepts2 ctxBugGrammar [5, 4] = true ∧
    (((buildPLC2Last ctxBugGrammar [5, 4]).2.2.getD 0 default).core.sitAt 5 = ⟨6, 0, [2, 3]⟩) ∧
    (((buildPLC2 ctxBugGrammar [5, 4]).2.2.getD 0 default).core.sitAt 5 = ⟨6, 0, [2, 3, 4]⟩) := by
  decide +kernel

/-- TEST: the sentence is a sentence (through `acceptsC2_iff_sentence`) -/
example : Sentence ctxBugGrammar [5, 4] :=
  (acceptsC2_iff_sentence (g := ctxBugGrammar) (by decide) (by decide) (by decide)).mp
    (by decide +kernel)

/-- TEST: the hypothesis `symsInRange` is needed: it makes the number of terminals `g.nT` a
bound for the contexts, hence for the fuel `ctxFuel` of the model's context loop.  With an empty
table of terminal names (`nT = 0`, not a grammar `yaep_read_grammar` builds) that fuel is one
pass, and the model stops before the fixpoint. -/
def noNamesGrammar : Grammar := { ctxBugGrammar with termNames := [] }

example : noNamesGrammar.WF ∧ noNamesGrammar.symsInRange = false ∧
    (buildPLC2 noNamesGrammar [5, 4]).1 = some 1 ∧ (buildPL2 noNamesGrammar [5, 4]).1 = none := by
  decide +kernel

/-! ## non-vacuity and evaluation examples -/

/-- `c09Grammar` (`Props/C09Lookahead.lean`: `S : A a | b A c`, `A : d`) on `b d c`: no error,
5 sets, the `do … while` of `build_new_set` never entered with an empty vector -/
example : (buildPLC2 c09Grammar [3, 5, 4]).1 = none ∧
    (buildPLC2 c09Grammar [3, 5, 4]).2.2.length = 5 ∧
    (buildPLC2 c09Grammar [3, 5, 4]).2.1.bad = false := by decide +kernel

/-- set 0 in C order with the contexts: the start situations `$S : . error $eof`,
`$S : . S $eof` (empty context), then `S : . b A c`, `S : . A a` (context `{$eof}`),
`A : . d` (context `{a}`) -/
example : ((buildPLC2 c09Grammar [3, 5, 4]).2.2.getD 0 default).items 0 =
    [⟨4, 0, 0, []⟩, ⟨0, 0, 0, []⟩, ⟨2, 0, 0, [1]⟩, ⟨1, 0, 0, [1]⟩, ⟨3, 0, 0, [2]⟩] := by
  decide +kernel

/-- the set after `b`: `A : . d` now has the context `{c}` — cores are keyed with the contexts -/
example : ((buildPLC2 c09Grammar [3, 5, 4]).2.2.getD 1 default).items 1 =
    [⟨2, 1, 0, [1]⟩, ⟨3, 0, 1, [4]⟩] := by decide +kernel

/-- hypotheses of the loop theorems: the entry state of the loop for set 0 of `c09Grammar`
(`ctxLoop_entry_state`) has three initial situations -/
example : ∃ c0 : Core2, TransExact c09Grammar c0 ∧ InitNil c0 ∧
    (∀ k, k < c0.nAllDists → ∀ a ∈ c0.ctxAt k, a < c09Grammar.nT) ∧
    c0.nAllDists = 2 ∧ c0.sits.length = 5 :=
  ⟨expand3 c09Grammar c09Grammar.analysis (Core2.fresh 0 [⟨4, 0, []⟩, ⟨0, 0, []⟩]),
    (ctxLoop_entry_state c09Grammar 0 _ (by decide)).1,
    (ctxLoop_entry_state c09Grammar 0 _ (by decide)).2.1,
    (ctxLoop_entry_state c09Grammar 0 _ (by decide)).2.2, by decide +kernel, by decide +kernel⟩

/-- `ctxPass_grows`: the entry state is a state of the loop (`CLInv_init`), and its first pass
ends with `changed_p == TRUE` -/
example : CLInv c09Grammar c09Grammar.analysis
      (expand3 c09Grammar c09Grammar.analysis (Core2.fresh 0 [⟨4, 0, []⟩, ⟨0, 0, []⟩]))
      (expand3 c09Grammar c09Grammar.analysis (Core2.fresh 0 [⟨4, 0, []⟩, ⟨0, 0, []⟩])) ∧
    (ctxPassOn flagOr c09Grammar c09Grammar.analysis [2, 3, 4]
      (expand3 c09Grammar c09Grammar.analysis (Core2.fresh 0 [⟨4, 0, []⟩, ⟨0, 0, []⟩]))).2 = true :=
  ⟨CLInv_init (ctxLoop_entry_state c09Grammar 0 _ (by decide)).2.1, by decide +kernel⟩

/-- `ctxLoop_order_irrelevant`: the decreasing order `[4, 3, 2]` is valid and covers the initial
situations; evaluation: it gives the same core as the increasing one -/
example : ctxLoopOn flagOr c09Grammar c09Grammar.analysis [4, 3, 2] 19
      (expand3 c09Grammar c09Grammar.analysis (Core2.fresh 0 [⟨4, 0, []⟩, ⟨0, 0, []⟩])) =
    ctxLoopOn flagOr c09Grammar c09Grammar.analysis [2, 3, 4] 19
      (expand3 c09Grammar c09Grammar.analysis (Core2.fresh 0 [⟨4, 0, []⟩, ⟨0, 0, []⟩])) ∧
    ctxFuel c09Grammar
      (expand3 c09Grammar c09Grammar.analysis (Core2.fresh 0 [⟨4, 0, []⟩, ⟨0, 0, []⟩])) = 19 := by
  decide +kernel

/-- `ctxLoop_eq_ctxFix`, `expandedSet_items`, `expand_core_invariants2`: start situations with
contexts made of terminal numbers -/
example : ∀ p ∈ ([(⟨4, 0, []⟩, 0), (⟨0, 0, []⟩, 0)] : NewStart2), ∀ a ∈ p.1.ctx,
    a < c09Grammar.nT := by decide

/-- `core_invariants2`, `buildPLC2_eq_buildPL2`, `acceptsC2_iff_sentence`: the hypotheses hold
for `c09Grammar`, and both verdicts occur -/
example : c09Grammar.WF ∧ c09Grammar.symsInRange = true ∧
    (∀ a ∈ [3, 5, 4], a ≠ c09Grammar.eofT ∧ a ≠ c09Grammar.errT) ∧
    acceptsC2 c09Grammar [3, 5, 4] = true ∧ acceptsC2 c09Grammar [5, 4] = false := by
  decide +kernel

example : Sentence c09Grammar [3, 5, 4] :=
  (acceptsC2_iff_sentence (g := c09Grammar) (by decide) (by decide) (by decide)).mp
    (by decide +kernel)

/-- `setInsert2_reuse_sound`: with `S : 'a' S 'b' | ε` (`c01Grammar`) the start situation of the
set after a third `a` (`S : 'a' . S 'b'` with the context `{b}`, distance 1) is found in the
table built while parsing `a a b b`; the start situation of the set after the first `a` has the
context `{$eof}` and another core -/
example : ∃ (tab : Tab2) (ns : NewStart2), TabInv2 c01Grammar c01Grammar.analysis tab ∧
    (setInsert tab ns).2.2 = false :=
  ⟨(buildPLC2 c01Grammar [2, 2, 3, 3]).2.1, [(⟨1, 1, [3]⟩, 1)],
    tabInv2_buildPLC2 c01Grammar [2, 2, 3, 3], by decide +kernel⟩

example : (setInsert (buildPLC2 c01Grammar [2, 2, 3, 3]).2.1 [(⟨1, 1, [1]⟩, 1)]).2.1.core.num = 1 ∧
    (setInsert (buildPLC2 c01Grammar [2, 2, 3, 3]).2.1 [(⟨1, 1, [3]⟩, 1)]).2.1.core.num = 2 := by
  decide +kernel

/-- `buildNewSet2_items`, `newSet2_fuel_suffices`: the hypotheses hold for the lists after
`build_start_set` (`k = 0`, the token `b` of `c09Grammar`) -/
example : ∃ (w : List Nat) (tab : Tab2) (pl : List CSet2) (plA : List (List Item2)),
    TabInv2 c09Grammar c09Grammar.analysis tab ∧ PLOK2 c09Grammar plA pl ∧
    Yaep.Inv2 c09Grammar w plA ∧ plA.length = 0 + 1 ∧ w[0]? = some 3 :=
  ⟨[3, 5, 4, 1], (buildStartSet c09Grammar c09Grammar.analysis).1,
    [(buildStartSet c09Grammar c09Grammar.analysis).2],
    [expand2 c09Grammar c09Grammar.analysis (start0 c09Grammar) 0],
    (buildStartSet_main (g := c09Grammar) (by decide)).1,
    ⟨rfl, by
      intro k hk
      have : k = 0 := by simpa using hk
      subst this; simpa using (buildStartSet_main (g := c09Grammar) (by decide)).2.1, by
      intro k hk it
      have : k = 0 := by simpa using hk
      subst this; simpa using (buildStartSet_main (g := c09Grammar) (by decide)).2.2 it⟩,
    (Inv2.init (g := c09Grammar) (by decide) (by decide) _).1, rfl, rfl⟩

end Yaep.BS2
