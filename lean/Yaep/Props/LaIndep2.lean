import Yaep.Lemmas.LaIndep2Final
import Yaep.Props.LaIndep
import Yaep.Props.BuildSet2
import Yaep.Props.MakeParseFlag
import Yaep.Props.MakeParseTotal
/-!
# C09 for trees, level 2: the result of `make_parse` on the dynamic-lookahead parse list

`LI.plSets2 g w` is the parse list the step-for-step model of `build_pl` at lookahead level 2
(`BS2.buildPLC2`: situations carry a context, `Yaep/Model/BuildSet2.lean`) hands to `make_parse`, which does not
look at the contexts.

**Main result** (`makeParse_indep_of_la2`): for every grammar `yaep_read_grammar` accepts, every sentence `w` of
user tokens, both modes (one parse / all parses) and EVERY fuel, the outcome of the model of `make_parse`
(`MP.makeParse`) on the level-2 list is EQUAL to its outcome on the level-0 list — the whole `MP.Outcome`: exported
node table with its numbering, `amb`, `reuse`, `origins`, `nilUsed`, `errUsed`, heap size, the sequence of
allocation requests, and the failure outcomes for the same fuels.  With `makeParse_indep_of_la` (levels 0 / 1):
all three lists give one outcome (`makeParse_indep_of_la012`).  Corollaries: C02, the sound half of C03, and C05
for the level-2 list.

How (files `Yaep/Lemmas/LaIndep2*.lean`):

* `LI2.Lvl`, `LI2.SetsRelA`, `LI2.makeParse_eq_of_setsRelA`: the simulation of `Lemmas/LaIndepMP.lean` with the pair
  (`F1`, `ok1`) replaced by an abstract level: `F j it` (membership), `G j it` (member that passes the test of the
  level), with the two closure properties the simulation uses (`cand`, `term`).
* `LI2.hered2` (the level-2 declarative sets are closed along any derivation whose last item passes the level-2
  test, against `Closed2`), `LI2.origInv_buildPL2` (with every item the list contains its predicted item with the
  same context), `LI2.lvl2`: the instance of `Lvl` for a level-2 list.
* the list-level part: the context of a situation is a function `cx` of its rule and origin (`CtxDet`), so a
  stored level-2 set is the set without contexts with `cx` attached (`tg2_eq_attach`); the start pairs of set `j`
  at level 2 are those of level 0 that pass the level-2 test with the context `cx`, in the same order
  (`newStarts_rel2`, by `iterI_restrict_map`: restriction of an iteration composed with an injective map into
  another element type; a trigger that fails the level-2 test only shifts parents that fail it, because the context
  of the trigger contains the lookahead sets of its shifted parents: `ok2_of_parent`); hence the `prog` pairs of
  all sets coincide (`prel2_all`) and the completed items of one nonterminal at level 2 are those of level 0 with
  occurrences removed, order preserved (`mask_of_setPair2`, reusing `expand3_sim`, `ExpandLists`, `bfs_restrict`,
  `bfs_sorted`).
-/
namespace Yaep
open Yaep.LI

/-- **`make_parse` does not see the difference between lookahead levels 0 and 2** (well-formed grammar with its
symbols in range, input accepted at both levels) -/
theorem makeParse_indep_of_la2_accepted {g : Grammar} (hwf : g.WF) (hsr : g.symsInRange = true)
    {w : List Nat} (hacc0 : (BS.buildPLC g 0 w).1 = none) (hacc2 : (BS2.buildPLC2 g w).1 = none)
    (one : Bool) (fuel : Nat) :
    MP.makeParse g (plSets2 g w) (plTokNums w) one fuel =
      MP.makeParse g (plSets g 0 w) (plTokNums w) one fuel :=
  (LI2.makeParse_eq_of_setsRelA (LI2.setsRelA_plSets2 hwf hsr hacc0 hacc2) _ _ _).symm

/-- an accepted grammar and a sentence of user tokens: the level-2 step model reports no error -/
theorem li2_accepted_buildPLC2_none {raw : RawGrammar} {g : Grammar} {w : List Nat}
    (h : readGrammar raw = .ok g) (htok : UserTokens g w) (hs : Sentence g w) :
    (BS2.buildPLC2 g w).1 = none := by
  have := (BS2.acceptsC2_iff_sentence (readGrammar_wf h) (readGrammar_symsInRange h) htok).mpr hs
  unfold BS2.acceptsC2 at this
  exact Option.isNone_iff_eq_none.mp this

theorem li2_accepted_buildPLC_none {raw : RawGrammar} {g : Grammar} {w : List Nat} {la : Nat}
    (h : readGrammar raw = .ok g) (htok : UserTokens g w) (hla : la ≤ 1) (hs : Sentence g w) :
    (BS.buildPLC g la w).1 = none := by
  have := (BS.acceptsC_iff_sentence (readGrammar_wf h) (readGrammar_symsInRange h) htok hla).mpr hs
  unfold BS.acceptsC at this
  exact Option.isNone_iff_eq_none.mp this

/-- **C09 for the model of `make_parse` at level 2, for every accepted grammar**: for a grammar the definition
functions accept, tokens that are terminals of the user and a sentence `w`, the outcome of `make_parse` (one
parse or all parses, any fuel) on the parse list of lookahead level 2 is the outcome on the list of level 0. -/
theorem makeParse_indep_of_la2 {raw : RawGrammar} {g : Grammar} {w : List Nat}
    (h : readGrammar raw = .ok g) (htok : UserTokens g w) (hs : Sentence g w)
    (one : Bool) (fuel : Nat) :
    MP.makeParse g (plSets2 g w) (plTokNums w) one fuel =
      MP.makeParse g (plSets g 0 w) (plTokNums w) one fuel :=
  makeParse_indep_of_la2_accepted (readGrammar_wf h) (readGrammar_symsInRange h)
    (li2_accepted_buildPLC_none h htok (Nat.zero_le _) hs) (li2_accepted_buildPLC2_none h htok hs) one fuel

/-- **all three parse lists give one outcome** -/
theorem makeParse_indep_of_la012 {raw : RawGrammar} {g : Grammar} {w : List Nat}
    (h : readGrammar raw = .ok g) (htok : UserTokens g w) (hs : Sentence g w)
    (one : Bool) (fuel : Nat) :
    MP.makeParse g (plSets g 1 w) (plTokNums w) one fuel =
        MP.makeParse g (plSets g 0 w) (plTokNums w) one fuel ∧
      MP.makeParse g (plSets2 g w) (plTokNums w) one fuel =
        MP.makeParse g (plSets g 0 w) (plTokNums w) one fuel ∧
      MP.makeParse g (plSets2 g w) (plTokNums w) one fuel =
        MP.makeParse g (plSets g 1 w) (plTokNums w) one fuel :=
  ⟨(makeParse_indep_of_la h htok hs one fuel).symm, makeParse_indep_of_la2 h htok hs one fuel,
    (makeParse_indep_of_la2 h htok hs one fuel).trans (makeParse_indep_of_la h htok hs one fuel)⟩

/-- … for every level of the model of `build_pl` (which treats every `la ≥ 1` as level 1) -/
theorem makeParse_indep_of_la2_all {raw : RawGrammar} {g : Grammar} {w : List Nat}
    (h : readGrammar raw = .ok g) (htok : UserTokens g w) (hs : Sentence g w)
    (la : Nat) (one : Bool) (fuel : Nat) :
    MP.makeParse g (plSets2 g w) (plTokNums w) one fuel =
      MP.makeParse g (plSets g la w) (plTokNums w) one fuel :=
  (makeParse_indep_of_la2 h htok hs one fuel).trans (makeParse_indep_of_la_all h htok hs la one fuel).symm

/-- … spelled out for the observable parts: the two results are the same record, so the ambiguity flag, the node
table (hence the denoted trees, as a list and as a set, with their costs) and the event counters agree -/
theorem makeParse_indep_of_la2_result {raw : RawGrammar} {g : Grammar} {w : List Nat}
    (h : readGrammar raw = .ok g) (htok : UserTokens g w) (hs : Sentence g w)
    {one : Bool} {fuel : Nat} {r0 r2 : MP.Result}
    (h0 : MP.makeParse g (plSets g 0 w) (plTokNums w) one fuel = .ok r0)
    (h2 : MP.makeParse g (plSets2 g w) (plTokNums w) one fuel = .ok r2) :
    r0 = r2 ∧ r0.amb = r2.amb ∧ r0.reuse = r2.reuse ∧ r0.origins = r2.origins ∧
      (denoteTab r0.tab).getD r0.root [] = (denoteTab r2.tab).getD r2.root [] ∧
      denote (unfoldAt r0.tab r0.root) = denote (unfoldAt r2.tab r2.root) := by
  have := makeParse_indep_of_la2 h htok hs one fuel
  rw [h0, h2] at this
  injection this with this
  subst this
  exact ⟨rfl, rfl, rfl, rfl, rfl, rfl⟩

/-! ## the properties of the result, for the level-2 list -/

/-- **C02 at level 2**: for a grammar the definition functions accept, user tokens and a sentence, the one-parse
run of `make_parse` on the level-2 list returns (with enough fuel) a table without ALT node that denotes
exactly one tree, the translation of a derivation of `w $eof` — the same result as at level 0 -/
theorem accepted_makeParse_one_la2 {raw : RawGrammar} {g : Grammar} {w : List Nat} {fuel : Nat}
    (h : readGrammar raw = .ok g) (htok : UserTokens g w) (hs : Sentence g w)
    (hfuel : MP.mpFuel g (w.length + 1) ≤ fuel) :
    ∃ res pt, MP.makeParse g (plSets2 g w) (plTokNums w) true fuel = .ok res ∧
      MP.makeParse g (plSets g 0 w) (plTokNums w) true fuel = .ok res ∧
      PT.IsDerivation g (w ++ [g.eofT]) pt ∧
      (denoteTab res.tab).getD res.root [] = [translate g pt] ∧
      denote (unfoldAt res.tab res.root) = [translate g pt] ∧
      translate g pt ∈ (derivationsP g (w ++ [g.eofT])).map (translate g) ∧
      hasAlt res.tab = false := by
  obtain ⟨res, pt, h1, h2, h3, h4, h5, h6⟩ :=
    accepted_makeParse_one (la := 0) h htok (Nat.zero_le _) hs hfuel
  exact ⟨res, pt, by rw [makeParse_indep_of_la2 h htok hs]; exact h1, h1, h2, h3, h4, h5, h6⟩

/-- **the sound half of C03 at level 2**: every tree of the table an all-parses run on the level-2 list returns is
the translation of a derivation of the whole input -/
theorem makeParse_all_sound_la2 {raw : RawGrammar} {g : Grammar} {w : List Nat} {fuel : Nat}
    {res : MP.Result} (h : readGrammar raw = .ok g) (htok : UserTokens g w) (hs : Sentence g w)
    (hm : MP.makeParse g (plSets2 g w) (plTokNums w) false fuel = .ok res) :
    (∀ t ∈ (denoteTab res.tab).getD res.root [],
      ∃ pt, PT.IsDerivation g (w ++ [g.eofT]) pt ∧ translate g pt = t) ∧
    (∀ t ∈ denote (unfoldAt res.tab res.root),
      ∃ pt, PT.IsDerivation g (w ++ [g.eofT]) pt ∧ translate g pt = t) := by
  rw [makeParse_indep_of_la2 h htok hs] at hm
  exact makeParse_all_sound (la := 0) (readGrammar_mpWF h)
    (li2_accepted_buildPLC_none h htok (Nat.zero_le _) hs) hm

/-- … and the all-parses run on the level-2 list ends with `.ok` (fuel of the totality theorem) -/
theorem accepted_makeParse_all_la2 {raw : RawGrammar} {g : Grammar} {w : List Nat} {fuel : Nat}
    (h : readGrammar raw = .ok g) (htok : UserTokens g w) (hs : Sentence g w)
    (hfuel : MP.mpAllFuel g (w.length + 1) ≤ fuel) :
    ∃ res, MP.makeParse g (plSets2 g w) (plTokNums w) false fuel = .ok res ∧
      MP.makeParse g (plSets g 0 w) (plTokNums w) false fuel = .ok res ∧
      (∀ t ∈ (denoteTab res.tab).getD res.root [],
        ∃ pt, PT.IsDerivation g (w ++ [g.eofT]) pt ∧ translate g pt = t) ∧
      (∀ t ∈ (denoteTab res.tab).getD res.root [],
        t ∈ (derivationsP g (w ++ [g.eofT])).map (translate g)) := by
  obtain ⟨res, h1, h2, h3⟩ := accepted_makeParse_all (la := 0) h htok (Nat.zero_le _) hs hfuel
  exact ⟨res, by rw [makeParse_indep_of_la2 h htok hs]; exact h1, h1, h2, h3⟩

/-- **C05 at level 2**, either mode: after a successful run on the level-2 list the flag is set only if the
input has two different derivations, and it is set whenever the input has two derivations with different
translations -/
theorem accepted_amb_flag_la2 {raw : RawGrammar} {g : Grammar} {w : List Nat} {one : Bool}
    {fuel : Nat} {res : MP.Result} (h : readGrammar raw = .ok g) (htok : UserTokens g w)
    (hs : Sentence g w)
    (hm : MP.makeParse g (plSets2 g w) (plTokNums w) one fuel = .ok res) :
    (res.amb = true → ∃ pt1 pt2, PT.IsDerivation g (w ++ [g.eofT]) pt1 ∧
      PT.IsDerivation g (w ++ [g.eofT]) pt2 ∧ pt1 ≠ pt2) ∧
    (∀ pt1 pt2, PT.IsDerivation g (w ++ [g.eofT]) pt1 → PT.IsDerivation g (w ++ [g.eofT]) pt2 →
      translate g pt1 ≠ translate g pt2 → res.amb = true) := by
  rw [makeParse_indep_of_la2 h htok hs] at hm
  exact accepted_amb_flag (la := 0) h htok (li2_accepted_buildPLC_none h htok (Nat.zero_le _) hs) hm

/-- C05 at level 2, one parse, with the fuel of the totality theorem: the run succeeds -/
theorem accepted_amb_flag_one_la2 {raw : RawGrammar} {g : Grammar} {w : List Nat} {fuel : Nat}
    (h : readGrammar raw = .ok g) (htok : UserTokens g w) (hs : Sentence g w)
    (hfuel : MP.mpFuel g (w.length + 1) ≤ fuel) :
    ∃ res, MP.makeParse g (plSets2 g w) (plTokNums w) true fuel = .ok res ∧
      (res.amb = true → ∃ pt1 pt2, PT.IsDerivation g (w ++ [g.eofT]) pt1 ∧
        PT.IsDerivation g (w ++ [g.eofT]) pt2 ∧ pt1 ≠ pt2) ∧
      (∀ pt1 pt2, PT.IsDerivation g (w ++ [g.eofT]) pt1 → PT.IsDerivation g (w ++ [g.eofT]) pt2 →
        translate g pt1 ≠ translate g pt2 → res.amb = true) := by
  obtain ⟨res, h1, h2⟩ := accepted_amb_flag_one (la := 0) h htok (Nat.zero_le _) hs hfuel
  exact ⟨res, by rw [makeParse_indep_of_la2 h htok hs]; exact h1, h2⟩

/-! ## non-vacuity

The grammar of `LIEx2` (`Props/LaIndep.lean`): `N0 : N2 N2 # r0(0 1)`, `N1 : 'b' # r1(0)`,
`N2 : ε # r2 | N1 N0 # r3(0 1)` on `b b` (ambiguous).  It is what `readGrammar` returns for `LI2Ex.raw`; set 1 has
13 / 12 / 11 situations at levels 0 / 1 / 2.  The results of `make_parse` on the level-2 list are obtained from the
evaluation at level 0 through the theorem. -/

namespace LI2Ex
open LIEx2

def raw : RawGrammar :=
  ⟨[("a", 97), ("b", 98)],
   [⟨"N0", ["N2", "N2"], some "r0", 0, some [0, 1]⟩,
    ⟨"N1", ["b"], some "r1", 0, some [0]⟩,
    ⟨"N2", [], some "r2", 0, some []⟩,
    ⟨"N2", ["N1", "N0"], some "r3", 0, some [0, 1]⟩], false⟩

theorem raw_ok : readGrammar raw = .ok g := rfl

theorem utok : UserTokens g w := by unfold UserTokens; decide

theorem sent : Sentence g w :=
  (BS.acceptsC_iff_sentence (la := 0) (readGrammar_wf raw_ok) (readGrammar_symsInRange raw_ok) utok
    (Nat.zero_le _)).mp (by decide)

theorem plSets0_eq : plSets g 0 w = sets0 := by decide
theorem plSets2_eq : plSets2 g w = sets2 := by decide +kernel

/-- the lists of levels 0 and 2 differ (set 1: 13 and 11 situations) … -/
theorem sets_differ : ((plSets g 0 w).getD 1 #[]).size = 13 ∧ ((plSets2 g w).getD 1 #[]).size = 11 := by
  rw [plSets0_eq, plSets2_eq]
  decide

/-- … the hypotheses of the weaker form hold too … -/
example : g.WF ∧ g.symsInRange = true ∧ (BS.buildPLC g 0 w).1 = none ∧ (BS2.buildPLC2 g w).1 = none :=
  ⟨readGrammar_wf raw_ok, readGrammar_symsInRange raw_ok,
    li2_accepted_buildPLC_none raw_ok utok (Nat.zero_le _) sent, li2_accepted_buildPLC2_none raw_ok utok sent⟩

/-- … the theorem applied: both modes, every fuel, the outcomes on the two lists are equal … -/
example (one : Bool) (fuel : Nat) :
    MP.makeParse g sets2 (plTokNums w) one fuel = MP.makeParse g sets0 (plTokNums w) one fuel := by
  have h := makeParse_indep_of_la2 raw_ok utok sent one fuel
  rw [plSets0_eq, plSets2_eq] at h
  exact h

/-- … the one-parse result at level 2 (ambiguity flag set), by the theorem from the evaluation at level 0 … -/
example : MP.makeParse g sets2 (plTokNums w) true 1000 = .ok resOne ∧ resOne.amb = true := by
  have h := makeParse_indep_of_la2 raw_ok utok sent true 1000
  rw [plSets0_eq, plSets2_eq] at h
  rw [h]
  exact ⟨rfl, rfl⟩

/-- … and the all-parses result (an ALT node at the root) -/
example : MP.makeParse g sets2 (plTokNums w) false 1000 = .ok resAll ∧ resAll.root = 18 := by
  have h := makeParse_indep_of_la2 raw_ok utok sent false 1000
  rw [plSets0_eq, plSets2_eq] at h
  rw [h]
  exact ⟨rfl, rfl⟩

/-- all three lists -/
example (one : Bool) (fuel : Nat) :
    MP.makeParse g (plSets2 g w) (plTokNums w) one fuel = MP.makeParse g (plSets g 1 w) (plTokNums w) one fuel :=
  (makeParse_indep_of_la012 raw_ok utok sent one fuel).2.2

/-- C02, C03-sound, C05 at level 2 for this input -/
example : ∃ res pt, MP.makeParse g (plSets2 g w) (plTokNums w) true (MP.mpFuel g (w.length + 1)) = .ok res ∧
    PT.IsDerivation g (w ++ [g.eofT]) pt ∧ (denoteTab res.tab).getD res.root [] = [translate g pt] := by
  obtain ⟨res, pt, h1, _, h2, h3, _⟩ := accepted_makeParse_one_la2 raw_ok utok sent (Nat.le_refl _)
  exact ⟨res, pt, h1, h2, h3⟩

example : ∃ res, MP.makeParse g (plSets2 g w) (plTokNums w) false (MP.mpAllFuel g (w.length + 1)) = .ok res ∧
    ∀ t ∈ (denoteTab res.tab).getD res.root [],
      ∃ pt, PT.IsDerivation g (w ++ [g.eofT]) pt ∧ translate g pt = t := by
  obtain ⟨res, h1, _, h2, _⟩ := accepted_makeParse_all_la2 raw_ok utok sent (Nat.le_refl _)
  exact ⟨res, h1, h2⟩

example : ∃ pt1 pt2, PT.IsDerivation g (w ++ [g.eofT]) pt1 ∧ PT.IsDerivation g (w ++ [g.eofT]) pt2 ∧
    pt1 ≠ pt2 := by
  have hm : MP.makeParse g (plSets2 g w) (plTokNums w) true 1000 = .ok resOne := by
    rw [makeParse_indep_of_la2 raw_ok utok sent, plSets0_eq]; rfl
  exact (accepted_amb_flag_la2 raw_ok utok sent hm).1 rfl

end LI2Ex

/-- the weaker form on the grammar of `Props/C09Lookahead.lean` (`S : A a | b A c`, `A : d`; the context of
`A : . d` after `b` is `{c}`): input `b d c` -/
example (one : Bool) (fuel : Nat) :
    MP.makeParse c09Grammar (plSets2 c09Grammar [3, 5, 4]) (plTokNums [3, 5, 4]) one fuel =
      MP.makeParse c09Grammar (plSets c09Grammar 0 [3, 5, 4]) (plTokNums [3, 5, 4]) one fuel :=
  makeParse_indep_of_la2_accepted (by decide) (by decide) (by decide) (by decide +kernel) one fuel

end Yaep
