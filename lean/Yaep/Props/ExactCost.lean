import Yaep.Lemmas.ExactRec
import Yaep.Lemmas.ExactSingle
/-!
# Three corollaries: exact minimal-cost forests for event-free runs, completeness after a recovery,
the single-callback clause of C07

Vocabulary (`Yaep/Lemmas/ExactBase.lean`, `Yaep/Lemmas/ExactSingle.lean`, namespace `Yaep.CX`):

* `CX.MinDer g toks pt` — `pt` is a derivation of `toks` and the total cost of its translation is
  minimal among the translations of ALL derivations of `toks`.
* `CX.ExactCostSpec g w s r` — for the final machine state `s` / result cell `r` of an all-parses
  run of the model of `make_parse`: the forest denotes exactly the translations of the derivations
  of `w $eof`; `find_minimal_translation` (model), all parses, leaves exactly the translations (cost
  fields accumulated) of the `MinDer` derivations; one parse: exactly one tree, one of those.
  `CX.ExactCostSpecR g wd fx s r` — the same after a recovery (`wd` the repaired input, `fx` the
  renaming of the TERM attributes to token numbers).
* `CX.kept v p` — the tokens `v`, the first with number `p`, as `(terminal, some number)` pairs.

## 1. C04 exactly, for event-free runs
`makeParse_cost_exact_eventfree`, `accepted_cost_exact_eventfree`, `accepted_cost_exact_total`:
if the all-parses run underlying the cost-flag pipeline counted neither a *reuse* nor an *origins*
event, `CostParseSpec` holds with "minimal in the forest" upgraded to "minimal over all translations
of the input" (`CX.ExactCostSpec`).  In general this is false (finding D9).

## 2. Completeness after a recovery
`recovered_all_complete_eventfree`, `recovered_all_eventfree_eq`, `recovered_cost_exact_eventfree`,
`recovered_cost_exact`: the same two statements on the final list of a recovering parse, unless the
repaired input is the total loss `error $eof` (`TotalLossEx` of `Props/RecoveredCost.lean` shows
that this exception is needed).

## 3. The single-callback clause of C07
`recovered_single_call_prefix`: after exactly one callback `(e, a, b)` the final list is the tokens
`0 … a-1` kept with their numbers, one `(error, none)`, and a repair of the rest that replaces
`b - a` tokens in total.  `recovered_single_call_segment`: if the repaired input contains exactly
one `error` — always the case for `recovery_match ≤ 1` — the rest is the tokens `b … |w|` kept with
their numbers, i.e. the single replaced segment is exactly `(w $eof)[a, b)`, the reported range;
`recovered_single_call_range`: any single-segment description of the final list has that range.
**Finding (about the models, `SecondaryEx`)**: with `recovery_match ≥ 2` one callback can come with
two `error` elements (a *secondary* recovery state shifts `error` a second time), and the reported
range need not be one of the replaced segments — `c06Grammar` on `; a a ;`, `recovery_match = 3`:
one callback `(0, 0, 2)`, replaced segments `[0, 0)` and `[1, 3)`.  The clause of C07 speaks about
trees that a *single-segment* repair explains, so this is outside it.
-/
namespace Yaep

/-! ## 1. C04 exactly, for event-free runs -/

/-- **C04 exactly for an event-free run** (decidable hypotheses on the grammar explicit): if the
all-parses run of the model of `make_parse` ends with `.ok res` and counted no event, its final
machine state satisfies `CostParseSpec` and `CX.ExactCostSpec`: the forest denotes exactly the
translations of all derivations of `w $eof`, and `find_minimal_translation` (model) leaves exactly
those of minimal total cost *over all translations of the input* (one of them for one parse). -/
theorem makeParse_cost_exact_eventfree {g : Grammar} {la : Nat} {w : List Nat} {fuel : Nat}
    {res : MP.Result} (hwf : g.WF) (hg : g.mpWF = true) (hcyc : ¬ Cyclic g)
    (hsr : g.symsInRange = true) (htok : g.errT ∉ w) (hacc : (BS.buildPLC g la w).1 = none)
    (hm : MP.makeParse g (plSets g la w) (plTokNums w) false fuel = .ok res)
    (hev : res.reuse = 0 ∧ res.origins = 0) :
    ∃ s r, MP.makeParseSt (MP.mkCtx g (plSets g la w) (plTokNums w) false) fuel = some s ∧
      s.bad = false ∧ s.result = some r ∧
      MP.exportTable s.heap r = some (res.tab, res.root) ∧
      CostParseSpec g w s r ∧ CX.ExactCostSpec g w s r := by
  obtain ⟨s, r, h1, h2, h3, hx, hwfh, hspec⟩ := makeParse_cost_parse hg hcyc hsr hacc hm
  refine ⟨s, r, h1, h2, h3, hx, hspec, ?_⟩
  intro free nameBlk fuel' f hf hfu
  obtain ⟨_, _, c3, c4, _⟩ := hspec free nameBlk fuel' f hf hfu
  have hF : ∀ t, t ∈ denote (PC.unfoldC (PC.ofHeap s.heap) f r) ↔
      ∃ pt, PT.IsDerivation g (w ++ [g.eofT]) pt ∧ t = translate g pt := by
    intro t
    rw [← CX.unfold_export hx hwfh hfu, CX.denote_unfoldAt hm,
      makeParse_all_eventfree_eq hwf hg hsr htok hacc hm hev t]
    exact ⟨fun ⟨pt, a, b⟩ => ⟨pt, a, b.symm⟩, fun ⟨pt, a, b⟩ => ⟨pt, a, b.symm⟩⟩
  obtain ⟨e3, e4⟩ := CX.exact_core (g := g) (tr := translate g) (fun _ => rfl) hF c3 c4
  exact ⟨hF, e3, e4⟩

/-- **C04 exactly, for every accepted grammar, any run**: grammar accepted by the definition
functions, user tokens, a sentence, lookahead level 0 or 1; a run (any fuel) that ended with
`.ok` and counted no event -/
theorem accepted_cost_exact_eventfree {raw : RawGrammar} {g : Grammar} {la : Nat} {w : List Nat}
    {fuel : Nat} {res : MP.Result} (h : readGrammar raw = .ok g) (htok : UserTokens g w)
    (hla : la ≤ 1) (hs : Sentence g w)
    (hm : MP.makeParse g (plSets g la w) (plTokNums w) false fuel = .ok res)
    (hev : res.reuse = 0 ∧ res.origins = 0) :
    ∃ s r, MP.makeParseSt (MP.mkCtx g (plSets g la w) (plTokNums w) false) fuel = some s ∧
      s.bad = false ∧ s.result = some r ∧
      MP.exportTable s.heap r = some (res.tab, res.root) ∧
      CostParseSpec g w s r ∧ CX.ExactCostSpec g w s r := by
  have hwf := readGrammar_wf h
  have hsr := readGrammar_symsInRange h
  have hacc : (BS.buildPLC g la w).1 = none := by
    have := (BS.acceptsC_iff_sentence hwf hsr htok hla).mpr hs
    unfold BS.acceptsC at this
    exact Option.isNone_iff_eq_none.mp this
  exact makeParse_cost_exact_eventfree hwf (readGrammar_mpWF h) (readGrammar_semOK h).1 hsr
    (fun hmem => (htok _ hmem).2 rfl) hacc hm hev

/-- **… with the run**: with the explicit fuel `MP.mpAllFuel` the all-parses run exists, the
cost-flag pipeline satisfies `CostParseSpec`, and if the run counted no event, `CX.ExactCostSpec` -/
theorem accepted_cost_exact_total {raw : RawGrammar} {g : Grammar} {la : Nat} {w : List Nat}
    {fuel : Nat} (h : readGrammar raw = .ok g) (htok : UserTokens g w) (hla : la ≤ 1)
    (hs : Sentence g w) (hfuel : MP.mpAllFuel g (w.length + 1) ≤ fuel) :
    ∃ res s r, MP.makeParse g (plSets g la w) (plTokNums w) false fuel = .ok res ∧
      MP.makeParseSt (MP.mkCtx g (plSets g la w) (plTokNums w) false) fuel = some s ∧
      s.bad = false ∧ s.result = some r ∧
      MP.exportTable s.heap r = some (res.tab, res.root) ∧
      CostParseSpec g w s r ∧
      (res.reuse = 0 ∧ res.origins = 0 → CX.ExactCostSpec g w s r) := by
  obtain ⟨res, s, r, hm, h1, h2, h3, hx, _, hspec⟩ := accepted_cost_parse_total h htok hla hs hfuel
  refine ⟨res, s, r, hm, h1, h2, h3, hx, hspec, fun hev => ?_⟩
  obtain ⟨s', r', h1', _, h3', _, _, he⟩ := accepted_cost_exact_eventfree h htok hla hs hm hev
  rw [h1] at h1'; injection h1' with h1'; subst h1'
  rw [h3] at h3'; injection h3' with h3'; subst h3'
  exact he

/-- what `CX.ExactCostSpec` says about the trees returned in all-parses mode, in one line: `t'` is
returned iff it is the translation, cost fields accumulated, of a derivation whose translation has
minimal total cost over all derivations of `w $eof` -/
theorem exact_cost_trees {g : Grammar} {w : List Nat} {s : MP.St} {r : Nat}
    (hspec : CX.ExactCostSpec g w s r) (free : Bool) (nameBlk : Nat → Nat) {fuel' f : Nat}
    (hf : s.heap.size ≤ fuel') (hfu : s.heap.size ≤ f) (t' : Tree) :
    t' ∈ denote (PC.unfoldC
        (PC.findMinimalTranslation fuel' (PC.ofHeap s.heap) r false free nameBlk s.nilUsed s.errUsed).heap f
        (PC.findMinimalTranslation fuel' (PC.ofHeap s.heap) r false free nameBlk s.nilUsed s.errUsed).root) ↔
      ∃ pt, PT.IsDerivation g (w ++ [g.eofT]) pt ∧ t' = (translate g pt).accum ∧
        ∀ pt', PT.IsDerivation g (w ++ [g.eofT]) pt' →
          (translate g pt).totalCost ≤ (translate g pt').totalCost := by
  rw [(hspec free nameBlk fuel' f hf hfu).2.1 t']
  exact ⟨fun ⟨pt, ⟨a, b⟩, c⟩ => ⟨pt, a, c, b⟩, fun ⟨pt, a, c, b⟩ => ⟨pt, ⟨a, b⟩, c⟩⟩

/-! ## 2. completeness after a recovery -/

/-- **Completeness of the all-parses forest after a recovery, for an event-free run**: the forest
denotes the translation (TERM attributes renamed to token numbers) of EVERY derivation of the
repaired input — unless the repair is the total loss `error $eof`. -/
theorem recovered_all_complete_eventfree {g : Grammar} (hwf : g.WF) (hg : g.mpWF = true)
    (hcyc : ¬ Cyclic g) (hsr : g.symsInRange = true) {la rmatch : Nat} {w : List Nat} {sfuel : Nat}
    (hok : (parseWithRecovery g la rmatch w sfuel).ok = true)
    {S : Array (Array Item)} (hS : RP.SameSets (parseWithRecovery g la rmatch w sfuel).pl S)
    (hne : RP.word (parseWithRecovery g la rmatch w sfuel).pl ≠ [g.errT, g.eofT])
    {fuel : Nat} {res : MP.Result}
    (hm : MP.makeParse g S (RP.tokNums (parseWithRecovery g la rmatch w sfuel).pl) false fuel = .ok res)
    (hev : res.reuse = 0 ∧ res.origins = 0) {pt : PT}
    (hpt : PT.IsDerivation g (RP.word (parseWithRecovery g la rmatch w sfuel).pl) pt) :
    (translate g pt).mapAttr (RP.fix (parseWithRecovery g la rmatch w sfuel).pl) ∈
      (denoteTab res.tab).getD res.root [] :=
  CX.final_all_complete (RP.final_of_ok hok) hS (MP.grOK_of_mpWF hg) hcyc hsr
    (RC.okDer_of_ok hwf hsr hok) (recovered_rootUniq hwf hne) hm hev hpt

/-- **C03 after a recovery for an event-free run**: the denoted trees are exactly the renamed
translations of the derivations of the repaired input -/
theorem recovered_all_eventfree_eq {g : Grammar} (hwf : g.WF) (hg : g.mpWF = true)
    (hcyc : ¬ Cyclic g) (hsr : g.symsInRange = true) {la rmatch : Nat} {w : List Nat} {sfuel : Nat}
    (hok : (parseWithRecovery g la rmatch w sfuel).ok = true)
    {S : Array (Array Item)} (hS : RP.SameSets (parseWithRecovery g la rmatch w sfuel).pl S)
    (hne : RP.word (parseWithRecovery g la rmatch w sfuel).pl ≠ [g.errT, g.eofT])
    {fuel : Nat} {res : MP.Result}
    (hm : MP.makeParse g S (RP.tokNums (parseWithRecovery g la rmatch w sfuel).pl) false fuel = .ok res)
    (hev : res.reuse = 0 ∧ res.origins = 0) (t : Tree) :
    t ∈ (denoteTab res.tab).getD res.root [] ↔
      ∃ pt, PT.IsDerivation g (RP.word (parseWithRecovery g la rmatch w sfuel).pl) pt ∧
        t = (translate g pt).mapAttr (RP.fix (parseWithRecovery g la rmatch w sfuel).pl) :=
  CX.final_all_eq (RP.final_of_ok hok) hS (MP.grOK_of_mpWF hg) hcyc hsr
    (RC.okDer_of_ok hwf hsr hok) (recovered_rootUniq hwf hne) hm hev t

/-- **C04 exactly after a recovery, for an event-free run**: `RC.CostSpec` with "minimal in the
forest" upgraded to "minimal over all translations of the repaired input" -/
theorem recovered_cost_exact_eventfree {g : Grammar} (hwf : g.WF) (hg : g.mpWF = true)
    (hcyc : ¬ Cyclic g) (hsr : g.symsInRange = true) {la rmatch : Nat} {w : List Nat} {sfuel : Nat}
    (hok : (parseWithRecovery g la rmatch w sfuel).ok = true)
    {S : Array (Array Item)} (hS : RP.SameSets (parseWithRecovery g la rmatch w sfuel).pl S)
    (hne : RP.word (parseWithRecovery g la rmatch w sfuel).pl ≠ [g.errT, g.eofT])
    {fuel : Nat} {res : MP.Result}
    (hm : MP.makeParse g S (RP.tokNums (parseWithRecovery g la rmatch w sfuel).pl) false fuel = .ok res)
    (hev : res.reuse = 0 ∧ res.origins = 0) :
    ∃ s r, MP.makeParseSt (MP.mkCtx g S (RP.tokNums (parseWithRecovery g la rmatch w sfuel).pl) false)
        fuel = some s ∧
      s.bad = false ∧ s.result = some r ∧
      MP.exportTable s.heap r = some (res.tab, res.root) ∧
      RC.CostSpec g (RP.word (parseWithRecovery g la rmatch w sfuel).pl)
        (RP.fix (parseWithRecovery g la rmatch w sfuel).pl) s r ∧
      CX.ExactCostSpecR g (RP.word (parseWithRecovery g la rmatch w sfuel).pl)
        (RP.fix (parseWithRecovery g la rmatch w sfuel).pl) s r := by
  obtain ⟨s, r, h1, h2, h3, hx, _, hspec⟩ := recovered_cost_parse_of hg hcyc hsr hok hS hm
  exact ⟨s, r, h1, h2, h3, hx, hspec,
    CX.final_cost_exact (RP.final_of_ok hok) hS (MP.grOK_of_mpWF hg) hcyc hsr
      (RC.okDer_of_ok hwf hsr hok) (recovered_rootUniq hwf hne) hm hev h1 h2 h3 hx⟩

/-- **C04 exactly after a recovery, end to end**: for every grammar `readGrammar` accepts, every
token sequence, lookahead level and `recovery_match`, with enough search fuel the recovering parse
succeeds, the all-parses run on its final list (sets `S` in any order, fuel `MP.mpAllFuelC`) ends
with `.ok res`, `RC.CostSpec` holds, and — unless the repair is `error $eof` — if the run counted no
event, the forest denotes exactly the translations of the derivations of the repaired input and the
cost-flag pipeline returns exactly the minimal-cost ones over all of them. -/
theorem recovered_cost_exact {raw : RawGrammar} {g : Grammar} (h : readGrammar raw = .ok g)
    (la rmatch : Nat) (w : List Nat) :
    ∃ F, ∀ sfuel, F ≤ sfuel →
      (parseWithRecovery g la rmatch w sfuel).ok = true ∧
      ∀ S, RP.SameSets (parseWithRecovery g la rmatch w sfuel).pl S → ∀ fuel,
        MP.mpAllFuelC g (RP.word (parseWithRecovery g la rmatch w sfuel).pl).length
          (MP.plMaxSize S) ≤ fuel →
        ∃ res s r,
          MP.makeParse g S (RP.tokNums (parseWithRecovery g la rmatch w sfuel).pl) false fuel = .ok res ∧
          MP.makeParseSt (MP.mkCtx g S (RP.tokNums (parseWithRecovery g la rmatch w sfuel).pl) false)
            fuel = some s ∧
          s.bad = false ∧ s.result = some r ∧
          MP.exportTable s.heap r = some (res.tab, res.root) ∧
          RC.CostSpec g (RP.word (parseWithRecovery g la rmatch w sfuel).pl)
            (RP.fix (parseWithRecovery g la rmatch w sfuel).pl) s r ∧
          (RP.word (parseWithRecovery g la rmatch w sfuel).pl ≠ [g.errT, g.eofT] →
            res.reuse = 0 ∧ res.origins = 0 →
            (∀ t, t ∈ (denoteTab res.tab).getD res.root [] ↔
              ∃ pt, PT.IsDerivation g (RP.word (parseWithRecovery g la rmatch w sfuel).pl) pt ∧
                t = (translate g pt).mapAttr (RP.fix (parseWithRecovery g la rmatch w sfuel).pl)) ∧
            CX.ExactCostSpecR g (RP.word (parseWithRecovery g la rmatch w sfuel).pl)
              (RP.fix (parseWithRecovery g la rmatch w sfuel).pl) s r) := by
  have hwf := readGrammar_wf h
  have hg := readGrammar_mpWF h
  have hcyc := (readGrammar_semOK h).1
  have hsr := readGrammar_symsInRange h
  refine ⟨recoveryFuel (w.length + 1) rmatch, fun sfuel hf => ?_⟩
  have hok := parseWithRecovery_ok (readGrammar_hasTotalLoss h) la rmatch w hf
  refine ⟨hok, ?_⟩
  intro S hS fuel hfuel
  obtain ⟨res, hm⟩ := recovered_parse_all_total_of hwf hg hcyc hsr hok hS hfuel
  obtain ⟨s, r, h1, h2, h3, hx, _, hspec⟩ := recovered_cost_parse_of hg hcyc hsr hok hS hm
  refine ⟨res, s, r, hm, h1, h2, h3, hx, hspec, fun hne hev => ?_⟩
  exact ⟨recovered_all_eventfree_eq hwf hg hcyc hsr hok hS hne hm hev,
    CX.final_cost_exact (RP.final_of_ok hok) hS (MP.grOK_of_mpWF hg) hcyc hsr
      (RC.okDer_of_ok hwf hsr hok) (recovered_rootUniq hwf hne) hm hev h1 h2 h3 hx⟩

/-! ## 3. the single-callback clause of C07 -/

/-- **One callback `(e, a, b)`** (error token `e`, first ignored `a`, first recovered `b`; input
without the token `error`): `a ≤ b ≤ |w|`, `a ≤ e ≤ |w|`, and the final list is the tokens
`0 … a-1` kept with their numbers, then one `(error, none)`, then `l`, where
`(error, none) :: l` is a repair of the tokens from `a` on that replaces `b - a` tokens in total;
the first replaced segment starts at `a`.  With `recovery_match ≤ 1` nothing else is replaced. -/
theorem recovered_single_call_prefix {g : Grammar} {la rmatch : Nat} {w : List Nat} {sfuel : Nat}
    (hno : g.errT ∉ w) (hne : g.errT ≠ g.eofT)
    (hok : (parseWithRecovery g la rmatch w sfuel).ok = true) {e a b : Nat}
    (hc : (parseWithRecovery g la rmatch w sfuel).calls = [(e, a, b)]) :
    a ≤ b ∧ b ≤ w.length ∧ a ≤ e ∧ e ≤ w.length ∧
    ∃ l, RP.pairs (parseWithRecovery g la rmatch w sfuel).pl =
        CX.kept ((w ++ [g.eofT]).take a) 0 ++ (g.errT, none) :: l ∧
      RP.RepairAt g.errT a (b - a) ((w ++ [g.eofT]).drop a) ((g.errT, none) :: l) ∧
      (rmatch ≤ 1 → ∀ q ∈ l, q.2 ≠ none) :=
  CX.single_call_prefix hno hne hok hc

/-- **The single-callback clause of C07.**  If the recovering parse made exactly one callback
`(e, a, b)` and the repaired input contains exactly one `error` (always so when
`recovery_match ≤ 1`), the final list is: the tokens `0 … a-1` kept with their numbers, one
`(error, none)`, the tokens `b … |w|` (the end marker is token `|w|`) kept with their numbers.
As a repair (`RP.RepairAt`): `a` keep steps, ONE replace step whose segment is `(w $eof)[a, b)` —
the reported range —, then keep steps only. -/
theorem recovered_single_call_segment {g : Grammar} {la rmatch : Nat} {w : List Nat} {sfuel : Nat}
    (hno : g.errT ∉ w) (hne : g.errT ≠ g.eofT)
    (hok : (parseWithRecovery g la rmatch w sfuel).ok = true) {e a b : Nat}
    (hc : (parseWithRecovery g la rmatch w sfuel).calls = [(e, a, b)])
    (hone : rmatch ≤ 1 ∨ (RP.word (parseWithRecovery g la rmatch w sfuel).pl).count g.errT = 1) :
    RP.pairs (parseWithRecovery g la rmatch w sfuel).pl =
      CX.kept ((w ++ [g.eofT]).take a) 0 ++ (g.errT, none) :: CX.kept ((w ++ [g.eofT]).drop b) b ∧
    RP.RepairAt g.errT b 0 ((w ++ [g.eofT]).drop b) (CX.kept ((w ++ [g.eofT]).drop b) b) ∧
    RP.RepairAt g.errT a (b - a) ((w ++ [g.eofT]).drop a)
      ((g.errT, none) :: CX.kept ((w ++ [g.eofT]).drop b) b) ∧
    (w ++ [g.eofT]).drop a = ((w ++ [g.eofT]).drop a).take (b - a) ++ (w ++ [g.eofT]).drop b ∧
    RP.RepairAt g.errT 0 (b - a) (w ++ [g.eofT]) (RP.pairs (parseWithRecovery g la rmatch w sfuel).pl) := by
  have hp := CX.single_call_segment hno hne hok hc hone
  obtain ⟨w1, w2, _, _, _⟩ := CX.single_call_prefix hno hne hok hc
  have hk := CX.repairAt_kept g.errT ((w ++ [g.eofT]).drop b) b
  have hsplit : (w ++ [g.eofT]).drop a = ((w ++ [g.eofT]).drop a).take (b - a) ++ (w ++ [g.eofT]).drop b := by
    have h1 := (List.take_append_drop (b - a) ((w ++ [g.eofT]).drop a)).symm
    rw [List.drop_drop] at h1
    have : a + (b - a) = b := by omega
    rw [this] at h1
    exact h1
  have hlen : (((w ++ [g.eofT]).drop a).take (b - a)).length = b - a := by
    rw [List.length_take, List.length_drop, List.length_append, List.length_singleton]; omega
  have hrep : RP.RepairAt g.errT a (b - a) ((w ++ [g.eofT]).drop a)
      ((g.errT, none) :: CX.kept ((w ++ [g.eofT]).drop b) b) := by
    have hk' : RP.RepairAt g.errT (a + (((w ++ [g.eofT]).drop a).take (b - a)).length) 0
        ((w ++ [g.eofT]).drop b) (CX.kept ((w ++ [g.eofT]).drop b) b) := by
      rw [hlen]
      have : a + (b - a) = b := by omega
      rw [this]; exact hk
    have := RP.RepairAt.replace (e := g.errT) (p := a) (((w ++ [g.eofT]).drop a).take (b - a)) hk'
    rw [← hsplit, hlen, Nat.add_zero] at this
    exact this
  refine ⟨hp, hk, hrep, hsplit, ?_⟩
  rw [hp]
  have hta : ((w ++ [g.eofT]).take a).length = a := by
    rw [List.length_take, List.length_append, List.length_singleton]; omega
  have := CX.repairAt_kept_append g.errT (n := b - a) (v := (w ++ [g.eofT]).drop a)
    (l := (g.errT, none) :: CX.kept ((w ++ [g.eofT]).drop b) b) ((w ++ [g.eofT]).take a) 0
    (by rw [hta, Nat.zero_add]; exact hrep)
  rw [List.take_append_drop] at this
  exact this

/-- **"the reported range is that segment", for any tree**: under the hypotheses of
`recovered_single_call_segment`, whenever the final list is described as "the tokens before `p`
kept, one `error`, the tokens from `q` on kept" (a single-segment repair replacing `[p, q)`), then
`p = a` and `q = b`: the only single-segment repair that yields the list (hence any tree built from
it) is the reported one. -/
theorem recovered_single_call_range {g : Grammar} {la rmatch : Nat} {w : List Nat} {sfuel : Nat}
    (hno : g.errT ∉ w) (hne : g.errT ≠ g.eofT)
    (hok : (parseWithRecovery g la rmatch w sfuel).ok = true) {e a b : Nat}
    (hc : (parseWithRecovery g la rmatch w sfuel).calls = [(e, a, b)])
    (hone : rmatch ≤ 1 ∨ (RP.word (parseWithRecovery g la rmatch w sfuel).pl).count g.errT = 1)
    {p q : Nat} (hp : p ≤ w.length + 1) (hq : q ≤ w.length + 1)
    (hpq : RP.pairs (parseWithRecovery g la rmatch w sfuel).pl =
      CX.kept ((w ++ [g.eofT]).take p) 0 ++ (g.errT, none) :: CX.kept ((w ++ [g.eofT]).drop q) q) :
    p = a ∧ q = b := by
  obtain ⟨w1, w2, _, _, _⟩ := CX.single_call_prefix hno hne hok hc
  have h := CX.single_call_segment hno hne hok hc hone
  rw [hpq] at h
  have hl : (w ++ [g.eofT]).length = w.length + 1 := by simp
  exact CX.single_unique (by omega) (by omega) (by omega) (by omega) h

/-- **the single-callback clause for every accepted grammar, with the recovering parse**: for
every grammar `readGrammar` accepts, user tokens, every lookahead level and `recovery_match`, with
enough search fuel the recovering parse succeeds, and if it made exactly one callback `(e, a, b)`
and the repaired input contains exactly one `error` (automatic for `recovery_match ≤ 1`), the final
list is the tokens before `a`, `error`, the tokens from `b` on -/
theorem recovered_single_call {raw : RawGrammar} {g : Grammar} (h : readGrammar raw = .ok g)
    (la rmatch : Nat) {w : List Nat} (htok : UserTokens g w) :
    ∃ F, ∀ sfuel, F ≤ sfuel →
      (parseWithRecovery g la rmatch w sfuel).ok = true ∧
      ∀ e a b, (parseWithRecovery g la rmatch w sfuel).calls = [(e, a, b)] →
        (rmatch ≤ 1 ∨ (RP.word (parseWithRecovery g la rmatch w sfuel).pl).count g.errT = 1) →
        a ≤ b ∧ b ≤ w.length ∧
        RP.pairs (parseWithRecovery g la rmatch w sfuel).pl =
          CX.kept ((w ++ [g.eofT]).take a) 0 ++ (g.errT, none) :: CX.kept ((w ++ [g.eofT]).drop b) b := by
  have hwf := readGrammar_wf h
  refine ⟨recoveryFuel (w.length + 1) rmatch, fun sfuel hf => ?_⟩
  have hok := parseWithRecovery_ok (readGrammar_hasTotalLoss h) la rmatch w hf
  refine ⟨hok, fun e a b hc hone => ?_⟩
  have hno : g.errT ∉ w := fun hm => (htok _ hm).2 rfl
  obtain ⟨w1, w2, _⟩ := recovered_single_call_prefix hno hwf.2.2.2.2.1 hok hc
  exact ⟨w1, w2, (recovered_single_call_segment hno hwf.2.2.2.2.1 hok hc hone).1⟩

/-! ## non-vacuity -/

/-! ### 1. an ambiguous grammar with costs, an event-free run

`S : A B # s 1 (0 1)`, `A : 'a' # x 1 | 'a' 'a' # y 2`, `B : 'a' 'a' # w 3 | 'a' # z 0` on `a a a`
(`CPEx` of `Props/MakeParseComplete.lean` with costs): two derivations, translations `s(x w)` of
total cost 5 and `s(y z)` of total cost 3. -/
namespace CXEx1

def raw : RawGrammar :=
  ⟨[("a", 97)],
   [⟨"S", ["A", "B"], some "s", 1, some [0, 1]⟩,
    ⟨"A", ["a"], some "x", 1, some []⟩,
    ⟨"A", ["a", "a"], some "y", 2, some []⟩,
    ⟨"B", ["a", "a"], some "w", 3, some []⟩,
    ⟨"B", ["a"], some "z", 0, some []⟩], false⟩

/-- terminals: `a` 0, `error` 1, `$eof` 2; nonterminals: `S` 0, `$S` 1, `A` 2, `B` 3 -/
def g : Grammar :=
  { rules := [
      { lhs := 1, rhs := [.n 0, .t 2], transLen := 1, order := [some 0, none] },
      { lhs := 0, rhs := [.n 2, .n 3], anode := some "s", cost := 1, transLen := 2, order := [some 0, some 1] },
      { lhs := 2, rhs := [.t 0], anode := some "x", cost := 1, order := [none] },
      { lhs := 2, rhs := [.t 0, .t 0], anode := some "y", cost := 2, order := [none, none] },
      { lhs := 3, rhs := [.t 0, .t 0], anode := some "w", cost := 3, order := [none, none] },
      { lhs := 3, rhs := [.t 0], anode := some "z", order := [none] },
      { lhs := 1, rhs := [.t 1, .t 2], order := [none, none] } ],
    termNames := ["a", "error", "$eof"], termCodes := [97, -2, -1],
    ntNames := ["S", "$S", "A", "B"], errT := 1, eofT := 2, axiomN := 1, startN := 0 }

def w : List Nat := [0, 0, 0]

theorem raw_ok : readGrammar raw = .ok g := by rfl

theorem hyps : UserTokens g w ∧ BS.acceptsC g 1 w = true := by unfold UserTokens; decide

theorem sentence : Sentence g w :=
  (BS.acceptsC_iff_sentence (readGrammar_wf raw_ok) (readGrammar_symsInRange raw_ok) hyps.1
    (Nat.le_refl 1)).mp hyps.2

/-- the all-parses run counts no event (and sets the ambiguity flag) -/
theorem run_all : ∃ res, MP.makeParse g (plSets g 1 w) (plTokNums w) false 100 = .ok res ∧
    res.reuse = 0 ∧ res.origins = 0 ∧ res.amb = true := ⟨_, rfl, rfl, rfl, rfl⟩

/-- **the theorem applied**: `CostParseSpec` and `CX.ExactCostSpec` for this run -/
theorem exact : ∃ s r, MP.makeParseSt (MP.mkCtx g (plSets g 1 w) (plTokNums w) false) 100 = some s ∧
    s.result = some r ∧ CostParseSpec g w s r ∧ CX.ExactCostSpec g w s r := by
  obtain ⟨res, hm, h1, h2, _⟩ := run_all
  obtain ⟨s, r, a1, _, a3, _, a5, a6⟩ :=
    accepted_cost_exact_eventfree raw_ok hyps.1 (Nat.le_refl 1) sentence hm ⟨h1, h2⟩
  exact ⟨s, r, a1, a3, a5, a6⟩

/-- the derivations of `a a a $eof`, their translations and total costs -/
example : ((derivationsP g (w ++ [g.eofT])).map fun d => ((translate g d).str, (translate g d).totalCost)) =
    [("s:1(x:1() w:3())", 5), ("s:1(y:2() z:0())", 3)] := by decide

/-- the tree memory the all-parses run leaves behind (result cell 6) -/
def H : Array PC.Cell := #[
  .nil, .err, .anode "$result" 0 #[some 6],
  .anode "s" 1 #[some 10, some 4, none], .anode "w" 3 #[none],
  .anode "s" 1 #[some 9, some 8, none], .alt 5 (some 7), .alt 3 none,
  .anode "z" 0 #[none], .anode "y" 2 #[none], .anode "x" 1 #[none]]

theorem H_is_make_parse :
    (MP.makeParseSt (MP.mkCtx g (plSets g 1 w) (plTokNums w) false) 100).map
      (fun s => (s.heap.toList.map PC.ofMNode, s.result, s.nilUsed, s.errUsed)) =
    some (H.toList, some 6, false, false) := by rfl

/-- what the cost-flag pipeline computes on it: the forest has the two trees of total cost 3 and 5;
`find_minimal_translation` keeps the tree of total cost 3, cost fields accumulated (all parses and
one parse) -/
example : (denote (PC.unfoldC H 11 6)).map Tree.totalCost = [3, 5] := by rfl
example : ∀ one, denote (PC.unfoldC (PC.findMinimalTranslation 11 H 6 one true id).heap 11
      (PC.findMinimalTranslation 11 H 6 one true id).root) =
    [.anode "s" 3 [.anode "y" 2 [], .anode "z" 0 []]] := by
  intro one; cases one <;> rfl

/-- the capstone with the run (fuel `MP.mpAllFuel`) applies -/
example := accepted_cost_exact_total (la := 1) (fuel := MP.mpAllFuel g (w.length + 1)) raw_ok hyps.1
  (Nat.le_refl 1) sentence (Nat.le_refl _)

end CXEx1

/-! the hypothesis is needed: D9b with costs (`PC.ExMP.g` of `Props/PruneC.lean`, one *reuse* event):
the forest misses the translation `v(t(y z))`, so "minimal in the forest" and "minimal over all
translations" are different statements (`makeParse_forest_incomplete`, `Props/MakeParseComplete.lean`). -/

/-! ### 2. the same after a recovery

`S : A B # s 1 (0 1) | error A B # e 5 (1 2)`, `A : 'a' # x 1 | 'a' 'a' # y 2`,
`B : 'a' 'a' # w 3 | 'a' # z 0 (0)` on `b a a a` (`b` a terminal no rule uses): one callback
`(0, 0, 1)`, repaired input `error a a a $eof`, two derivations. -/
namespace CXEx2

def raw : RawGrammar :=
  ⟨[("a", 97), ("b", 98)],
   [⟨"S", ["A", "B"], some "s", 1, some [0, 1]⟩,
    ⟨"S", ["error", "A", "B"], some "e", 5, some [1, 2]⟩,
    ⟨"A", ["a"], some "x", 1, some []⟩,
    ⟨"A", ["a", "a"], some "y", 2, some []⟩,
    ⟨"B", ["a", "a"], some "w", 3, some []⟩,
    ⟨"B", ["a"], some "z", 0, some [0]⟩], false⟩

/-- terminals: `a` 0, `b` 1, `error` 2, `$eof` 3; nonterminals: `S` 0, `$S` 1, `A` 2, `B` 3 -/
def g : Grammar :=
  { rules := [
      { lhs := 1, rhs := [.n 0, .t 3], transLen := 1, order := [some 0, none] },
      { lhs := 0, rhs := [.n 2, .n 3], anode := some "s", cost := 1, transLen := 2, order := [some 0, some 1] },
      { lhs := 0, rhs := [.t 2, .n 2, .n 3], anode := some "e", cost := 5, transLen := 2, order := [none, some 0, some 1] },
      { lhs := 2, rhs := [.t 0], anode := some "x", cost := 1, order := [none] },
      { lhs := 2, rhs := [.t 0, .t 0], anode := some "y", cost := 2, order := [none, none] },
      { lhs := 3, rhs := [.t 0, .t 0], anode := some "w", cost := 3, order := [none, none] },
      { lhs := 3, rhs := [.t 0], anode := some "z", transLen := 1, order := [some 0] },
      { lhs := 1, rhs := [.t 2, .t 3], order := [none, none] } ],
    termNames := ["a", "b", "error", "$eof"], termCodes := [97, 98, -2, -1],
    ntNames := ["S", "$S", "A", "B"], errT := 2, eofT := 3, axiomN := 1, startN := 0 }

def w : List Nat := [1, 0, 0, 0]

theorem raw_ok : readGrammar raw = .ok g := by rfl

/-- the recovering parse: one callback, `b` (token 0) ignored; the TERM of the last `a` will carry
the token number 3 (list position 4) -/
theorem run : (parseWithRecovery g 1 1 w 100).ok = true ∧
    (parseWithRecovery g 1 1 w 100).calls = [(0, 0, 1)] ∧
    RP.word (parseWithRecovery g 1 1 w 100).pl = [2, 0, 0, 0, 3] ∧
    RP.tokNums (parseWithRecovery g 1 1 w 100).pl = #[-1, -1, 1, 2, 3, 4] := by decide

theorem acyclic : ¬ Cyclic g := fun hc => loopSet_ne_nil_of_cyclic g hc (by decide)

/-- the all-parses run on the final list counts no event -/
theorem run_all : ∃ res, MP.makeParse g (RP.sets (parseWithRecovery g 1 1 w 100).pl)
    (RP.tokNums (parseWithRecovery g 1 1 w 100).pl) false 200 = .ok res ∧
    res.reuse = 0 ∧ res.origins = 0 ∧ res.amb = true := ⟨_, rfl, rfl, rfl, rfl⟩

theorem not_total_loss : RP.word (parseWithRecovery g 1 1 w 100).pl ≠ [g.errT, g.eofT] := by
  rw [run.2.2.1]; decide

/-- **the theorems applied**: the forest denotes exactly the renamed translations of the
derivations of `error a a a $eof`, and the cost-flag pipeline satisfies `CX.ExactCostSpecR` -/
theorem exact : ∃ res s r, MP.makeParse g (RP.sets (parseWithRecovery g 1 1 w 100).pl)
      (RP.tokNums (parseWithRecovery g 1 1 w 100).pl) false 200 = .ok res ∧
    MP.makeParseSt (MP.mkCtx g (RP.sets (parseWithRecovery g 1 1 w 100).pl)
      (RP.tokNums (parseWithRecovery g 1 1 w 100).pl) false) 200 = some s ∧ s.result = some r ∧
    (∀ t, t ∈ (denoteTab res.tab).getD res.root [] ↔
      ∃ pt, PT.IsDerivation g [2, 0, 0, 0, 3] pt ∧
        t = (translate g pt).mapAttr (RP.fix (parseWithRecovery g 1 1 w 100).pl)) ∧
    CX.ExactCostSpecR g [2, 0, 0, 0, 3] (RP.fix (parseWithRecovery g 1 1 w 100).pl) s r := by
  obtain ⟨res, hm, h1, h2, _⟩ := run_all
  have hwf : g.WF := by decide
  have hg : g.mpWF = true := by decide
  have hsr : g.symsInRange = true := by decide
  have heq := recovered_all_eventfree_eq hwf hg acyclic hsr run.1 (RP.sameSets_sets _) not_total_loss hm
    ⟨h1, h2⟩
  obtain ⟨s, r, a1, _, a3, _, _, a6⟩ := recovered_cost_exact_eventfree hwf hg acyclic hsr run.1
    (RP.sameSets_sets _) not_total_loss hm ⟨h1, h2⟩
  rw [run.2.2.1] at heq a6
  exact ⟨res, s, r, hm, a1, a3, heq, a6⟩

/-- the derivations of the repaired input, their translations (list positions) and total costs -/
example : ((derivationsP g [2, 0, 0, 0, 3]).map fun d => ((translate g d).str, (translate g d).totalCost)) =
    [("e:5(x:1() w:3())", 9), ("e:5(y:2() z:0(t97@3))", 7)] := by decide

/-- the tree memory the all-parses run leaves behind (result cell 6); the TERM cell 9 carries the
token number 3 (list position 4) -/
def H : Array PC.Cell := #[
  .nil, .err, .anode "$result" 0 #[some 6],
  .anode "e" 5 #[some 11, some 4, none], .anode "w" 3 #[none],
  .anode "e" 5 #[some 10, some 8, none], .alt 5 (some 7), .alt 3 none,
  .anode "z" 0 #[some 9, none], .term 97 3, .anode "y" 2 #[none], .anode "x" 1 #[none]]

theorem H_is_make_parse :
    (MP.makeParseSt (MP.mkCtx g (RP.sets (parseWithRecovery g 1 1 w 100).pl)
      (RP.tokNums (parseWithRecovery g 1 1 w 100).pl) false) 200).map
      (fun s => (s.heap.toList.map PC.ofMNode, s.result, s.nilUsed, s.errUsed)) =
    some (H.toList, some 6, false, false) := by rfl

/-- what the cost-flag pipeline computes on it: the tree of total cost 7 -/
example : (denote (PC.unfoldC H 12 6)).map Tree.totalCost = [7, 9] := by rfl
example : denote (PC.unfoldC (PC.findMinimalTranslation 12 H 6 false true id).heap 12
      (PC.findMinimalTranslation 12 H 6 false true id).root) =
    [.anode "e" 7 [.anode "y" 2 [], .anode "z" 0 [.term 97 3]]] := by rfl

/-- the end-to-end capstone applies -/
example := recovered_cost_exact raw_ok 1 1 w

/-- the single-callback clause applied (`recovery_match = 1`): the list is `error`, then the tokens
from 1 on: the replaced segment is `[0, 1)` = the token `b` -/
example : RP.pairs (parseWithRecovery g 1 1 w 100).pl =
    [(2, none), (0, some 1), (0, some 2), (0, some 3), (3, some 4)] :=
  (recovered_single_call_segment (g := g) (by decide) (by decide) run.1 run.2.1 (Or.inl (Nat.le_refl 1))).1

end CXEx2

/-! ### 3. one callback, two `error` elements (`recovery_match ≥ 2`)

`c06Grammar` (`S : S stmt | stmt`, `stmt : 'a' ';' | error ';'`; terminals `error` 0, `$eof` 1,
`a` 2, `;` 3). -/
namespace SecondaryEx

/-- `; ;` with `recovery_match = 2`: ONE callback `(0, 0, 0)` (nothing ignored), but the final list
is `error ; error ; $eof`: after the first `;` has been matched the search continues from a
*secondary* recovery state that shifts `error` again.  Two (empty) segments are replaced. -/
theorem two_errors : (parseWithRecovery c06Grammar 1 2 [3, 3] 200).ok = true ∧
    (parseWithRecovery c06Grammar 1 2 [3, 3] 200).calls = [(0, 0, 0)] ∧
    RP.pairs (parseWithRecovery c06Grammar 1 2 [3, 3] 200).pl =
      [(0, none), (3, some 0), (0, none), (3, some 1), (1, some 2)] ∧
    (RP.word (parseWithRecovery c06Grammar 1 2 [3, 3] 200).pl).count c06Grammar.errT = 2 := by decide

/-- `; a a ;` with `recovery_match = 3`: ONE callback `(0, 0, 2)` — "tokens 0 and 1 ignored" — but
the final list is `error ;@0 error ;@3 $eof@4`: the replaced segments are `[0, 0)` and `[1, 3)`;
token 0 is kept and token 2 is not.  The reported range has the right size (2) and the right start
of the first segment (`recovered_single_call_prefix`), but is not a replaced segment. -/
theorem range_not_a_segment : (parseWithRecovery c06Grammar 1 3 [3, 2, 2, 3] 200).ok = true ∧
    (parseWithRecovery c06Grammar 1 3 [3, 2, 2, 3] 200).calls = [(0, 0, 2)] ∧
    RP.pairs (parseWithRecovery c06Grammar 1 3 [3, 2, 2, 3] 200).pl =
      [(0, none), (3, some 0), (0, none), (3, some 3), (1, some 4)] := by decide

/-- the strongest general statement still applies to it: the first `error` stands at position
`a = 0` and what follows is a repair that replaces `b - a = 2` tokens in total -/
example : ∃ l, RP.pairs (parseWithRecovery c06Grammar 1 3 [3, 2, 2, 3] 200).pl =
      CX.kept (([3, 2, 2, 3] ++ [c06Grammar.eofT]).take 0) 0 ++ (c06Grammar.errT, none) :: l ∧
    RP.RepairAt c06Grammar.errT 0 (2 - 0) (([3, 2, 2, 3] ++ [c06Grammar.eofT]).drop 0)
      ((c06Grammar.errT, none) :: l) := by
  obtain ⟨_, _, _, _, l, h1, h2, _⟩ := recovered_single_call_prefix (g := c06Grammar) (by decide)
    (by decide) range_not_a_segment.1 range_not_a_segment.2.1
  exact ⟨l, h1, h2⟩

/-- with `recovery_match = 1` the same grammar on `a a a ;`: one callback `(1, 0, 3)`, one `error`,
and the clause gives the list: `error`, then the tokens from 3 on -/
example : (parseWithRecovery c06Grammar 1 1 [2, 2, 2, 3] 200).calls = [(1, 0, 3)] ∧
    RP.pairs (parseWithRecovery c06Grammar 1 1 [2, 2, 2, 3] 200).pl = [(0, none), (3, some 3), (1, some 4)] := by
  have hc : (parseWithRecovery c06Grammar 1 1 [2, 2, 2, 3] 200).calls = [(1, 0, 3)] := by decide
  exact ⟨hc, (recovered_single_call_segment (g := c06Grammar) (by decide) (by decide) (by decide) hc
    (Or.inl (Nat.le_refl 1))).1⟩

end SecondaryEx

end Yaep
