import Yaep.Lemmas.Trees
import Yaep.Lemmas.Chart
import Yaep.Lemmas.DepthBound
import Yaep.Lemmas.Translate
import Yaep.Lemmas.Analysis
import Yaep.Lemmas.Examples
/-!
# C02 — the parse result is the documented translation of a derivation of the input

* `derivSym_spec`, `derivSeq_spec`, `derivations_spec`: the enumerator `derivSym` /
  `derivSeq` / `derivations` the judge uses lists exactly the derivations (`PT.ValidAt`) of
  nesting depth `≤ fuel` — soundness and completeness against the declarative definition.
* `fillSlots_*`, `translateRule_*`, `translate_*`: what `translate` does, stated as the
  documentation states it.
* `chart_spec`, `derivSymP_eq`, `derivationsP_eq`, `countDerivationsP_eq`: the recogniser
  chart is exactly the set of derivable triples inside the input, so the chart-pruned
  enumerator / counter the judge actually runs returns the same list / number.
-/
namespace Yaep

/-! ## the enumerator is sound and complete -/

/-- `derivSeq` over a sound and complete symbol enumerator is sound and complete. -/
theorem derivSeq_spec (g : Grammar) (toks : List Nat) (fuel : Nat) (Xs : List Sym)
    (kids : List PT) (i j : Nat) :
    kids ∈ derivSeq (derivSym g toks fuel) Xs i j ↔
      (PT.ValidListAt g toks kids Xs i j ∧ PT.depthList kids ≤ fuel) :=
  mem_derivSeq (derivSym_mem g toks fuel) Xs kids i j

/-- `derivSym g toks fuel X i j` lists exactly the derivations of `toks[i, j)` from `X` of
nesting depth `≤ fuel` (a leaf has depth 0, so for a terminal the bound is void). -/
theorem derivSym_spec (g : Grammar) (toks : List Nat) (fuel : Nat) (pt : PT) (X : Sym)
    (i j : Nat) :
    pt ∈ derivSym g toks fuel X i j ↔ (PT.ValidAt g toks pt X i j ∧ pt.depth ≤ fuel) :=
  derivSym_mem g toks fuel pt X i j

/-- soundness alone: everything enumerated is a derivation, whatever the fuel -/
theorem derivSym_sound {g : Grammar} {toks : List Nat} {fuel : Nat} {pt : PT} {X : Sym}
    {i j : Nat} (h : pt ∈ derivSym g toks fuel X i j) : PT.ValidAt g toks pt X i j :=
  ((derivSym_spec g toks fuel pt X i j).1 h).1

/-- completeness alone: every derivation is enumerated once the fuel reaches its depth -/
theorem derivSym_complete {g : Grammar} {toks : List Nat} {pt : PT} {X : Sym} {i j : Nat}
    (h : PT.ValidAt g toks pt X i j) : pt ∈ derivSym g toks pt.depth X i j :=
  (derivSym_spec g toks pt.depth pt X i j).2 ⟨h, Nat.le_refl _⟩

/-- more fuel only adds derivations -/
theorem derivSym_mono {g : Grammar} {toks : List Nat} {f₁ f₂ : Nat} (hf : f₁ ≤ f₂) {pt : PT}
    {X : Sym} {i j : Nat} (h : pt ∈ derivSym g toks f₁ X i j) :
    pt ∈ derivSym g toks f₂ X i j := by
  rw [derivSym_spec] at h ⊢
  exact ⟨h.1, Nat.le_trans h.2 hf⟩

/-- `derivations g toks` lists exactly the derivations of the whole input from `$S` of
nesting depth `≤ derivFuel`. -/
theorem derivations_spec (g : Grammar) (toks : List Nat) (pt : PT) :
    pt ∈ derivations g toks ↔
      (PT.IsDerivation g toks pt ∧ pt.depth ≤ g.derivFuel toks.length) :=
  derivSym_spec g toks _ pt _ _ _

/-- a derivation spans exactly its yield: positions are consecutive and the leaves carry
the tokens of the input -/
theorem ValidAt_span {g : Grammar} {toks : List Nat} {pt : PT} {X : Sym} {i j : Nat}
    (h : PT.ValidAt g toks pt X i j) : j = i + pt.yield.length :=
  h.span

/-- the yield of a derivation of `toks[i, j)` is that slice of the input -/
theorem ValidAt_yield {g : Grammar} {toks : List Nat} {pt : PT} {X : Sym} {i j : Nat}
    (h : PT.ValidAt g toks pt X i j) : pt.yield = (toks.drop i).take (j - i) :=
  h.yield_eq

/-- the yield of a derivation of the whole input is the input -/
theorem IsDerivation_yield {g : Grammar} {toks : List Nat} {pt : PT}
    (h : PT.IsDerivation g toks pt) : pt.yield = toks := by
  have := ValidAt_yield h
  simpa using this

/-! ## the translation -/

/-- an abstract node has exactly `transLen` children -/
theorem fillSlots_length (order : List (Option Nat)) (kids : List Tree) (len : Nat) :
    (fillSlots order kids len).length = len :=
  fillSlots_length' order kids len

/-- slot `s` holds the translation of the first position mapped to `s` … -/
theorem fillSlots_slot {order : List (Option Nat)} {kids : List Tree} {len s p : Nat}
    (hs : s < len) (hp : FirstAt order s p) :
    (fillSlots order kids len)[s]? = some (kids.getD p .nil) :=
  fillSlots_getElem?_first hs hp

/-- … in particular of *the* position mapped to `s` when it is unique … -/
theorem fillSlots_slot_unique {order : List (Option Nat)} {kids : List Tree} {len s p : Nat}
    (hs : s < len) (h : order[p]? = some (some s))
    (hu : ∀ q : Nat, order[q]? = some (some s) → q = p) :
    (fillSlots order kids len)[s]? = some (kids.getD p .nil) :=
  fillSlots_getElem?_first hs (firstAt_of_unique h hu)

/-- … and NIL when no position is mapped to `s`. -/
theorem fillSlots_slot_nil {order : List (Option Nat)} {kids : List Tree} {len s : Nat}
    (hs : s < len) (hn : ∀ p : Nat, order[p]? ≠ some (some s)) :
    (fillSlots order kids len)[s]? = some .nil :=
  fillSlots_getElem?_none hs hn

/-- a rule with an abstract node yields that node with the rule's cost -/
theorem translateRule_abstract {rl : Rule} {kids : List Tree} {name : String}
    (ha : rl.anode = some name) :
    translateRule rl kids = .anode name rl.cost (fillSlots rl.order kids rl.transLen) :=
  translateRule_anode ha

/-- a rule without abstract node passes the translation of the first translated
right-hand-side symbol through … -/
theorem translateRule_pass {rl : Rule} {kids : List Tree} {p : Nat}
    (ha : rl.anode = none) (hp : FirstSome rl.order p) :
    translateRule rl kids = kids.getD p .nil :=
  translateRule_passthrough ha hp

/-- … and yields NIL when no right-hand-side symbol is translated. -/
theorem translateRule_empty {rl : Rule} {kids : List Tree}
    (ha : rl.anode = none) (hn : ∀ (p s : Nat), rl.order[p]? ≠ some (some s)) :
    translateRule rl kids = .nil :=
  translateRule_nil ha hn

/-- a terminal translates to its code and attribute (here: the token position) -/
theorem translate_leaf {g : Grammar} {a pos : Nat} (h : a ≠ g.errT) :
    translate g (.leaf a pos) = .term (g.termCodes.getD a 0) pos := by
  simp [translate, h]

/-- the error terminal translates to the error node -/
theorem translate_leaf_error (g : Grammar) (pos : Nat) :
    translate g (.leaf g.errT pos) = .error := by
  simp [translate]

/-- a rule application translates by `translateRule` applied to the translations of the
children -/
theorem translate_node {g : Grammar} {r : Nat} {rl : Rule} {kids : List PT}
    (h : g.rules[r]? = some rl) :
    translate g (.node r kids) = translateRule rl (kids.map (translate g)) := by
  simp [translate, h, translateList_eq_map]

/-! ## non-vacuity: `E : E '+' E # plus(0 2) | 'a'` on `a + a` and `a + a + a` -/

namespace C02Ex

example : pt.depth = 3 := by decide
example : pt.yield = toks := by decide

/-- completeness, used: the valid tree is enumerated … -/
example : pt ∈ derivSym g toks 3 (.n 0) 0 4 :=
  (derivSym_spec g toks 3 pt (.n 0) 0 4).2 ⟨valid, by decide⟩
example : pt ∈ derivations g toks :=
  (derivations_spec g toks pt).2 ⟨valid, by decide⟩
/-- … and not with too little fuel (the depth bound is sharp) -/
example : pt ∉ derivSym g toks 2 (.n 0) 0 4 :=
  fun h => absurd ((derivSym_spec g toks 2 pt (.n 0) 0 4).1 h).2 (by decide)
/-- the enumeration itself: exactly this tree -/
example : derivSym g toks 3 (.n 0) 0 4 = [pt] := by rfl
/-- soundness, used: whatever is enumerated is valid -/
example : ∀ t ∈ derivSym g toks 7 (.n 0) 0 4, PT.ValidAt g toks t (.n 0) 0 4 :=
  fun _ h => derivSym_sound h
example : [a 0, .leaf 3 1, a 2] ∈ derivSeq (derivSym g toks 1) [.n 1, .t 3, .n 1] 0 3 :=
  (derivSeq_spec g toks 1 _ _ 0 3).2 ⟨validKids, by decide⟩

example : pt ∈ derivSym g toks pt.depth (.n 0) 0 4 := derivSym_complete valid
example : pt ∈ derivSym g toks 10 (.n 0) 0 4 :=
  derivSym_mono (f₁ := 3) (by decide) ((derivSym_spec g toks 3 pt (.n 0) 0 4).2 ⟨valid, by decide⟩)
example : 4 = 0 + pt.yield.length := ValidAt_span (g := g) (toks := toks) (X := .n 0) valid
example : pt.yield = (toks.drop 0).take (4 - 0) :=
  ValidAt_yield (g := g) (X := .n 0) (i := 0) (j := 4) valid
example : pt.yield = toks := IsDerivation_yield (g := g) valid

/-- the translation of the derivation: `plus` with the two operands in slots 0 and 2 and
NIL in the unused slot 1, cost 1 -/
example : translate g pt =
    .anode "plus" 1 [.term 97 0, .nil, .term 97 2] := by rfl
example : (fillSlots [some 0, none, some 2] [.term 97 0, .term 43 1, .term 97 2] 3).length = 3 :=
  fillSlots_length _ _ _
example : (fillSlots [some 0, none, some 2] [.term 97 0, .term 43 1, .term 97 2] 3)[2]? =
    some (.term 97 2) :=
  fillSlots_slot_unique (p := 2) (by decide) rfl (by
    intro q hq
    match q, hq with
    | 2, _ => rfl)
example : (fillSlots [some 0, none, some 2] [.term 97 0, .term 43 1, .term 97 2] 3)[1]? =
    some .nil :=
  fillSlots_slot_nil (by decide) (by
    intro p hp
    match p, hp with
    | 0, h => cases h
    | 1, h => cases h
    | 2, h => cases h
    | n + 3, h => cases h)
example : (fillSlots [some 0, none, some 0] [.term 97 0, .term 43 1, .term 97 2] 1)[0]? =
    some (.term 97 0) :=
  fillSlots_slot (p := 0) (by decide) ⟨rfl, fun q hq => absurd hq (Nat.not_lt_zero q)⟩
example : translateRule g.rules[1] [.term 97 0, .term 43 1, .term 97 2] =
    .anode "plus" 1 (fillSlots [some 0, none, some 2] [.term 97 0, .term 43 1, .term 97 2] 3) :=
  translateRule_abstract rfl
example : translateRule g.rules[0] [.term 97 0, .term (-2) 1] = .term 97 0 :=
  translateRule_pass (p := 0) rfl ⟨⟨0, rfl⟩, fun q hq => absurd hq (Nat.not_lt_zero q)⟩
example : translateRule { lhs := 1, rhs := [.t 2], order := [none] } [.term 97 0] = .nil :=
  translateRule_empty rfl (by
    intro p s hp
    match p, hp with
    | 0, h => cases h
    | n + 1, h => cases h)
example : translate g (.leaf 2 5) = .term 97 5 := translate_leaf (by decide)
example : translate g (.leaf 0 5) = .error := translate_leaf_error g 5
example : translate g (a 4) = translateRule g.rules[2] [translate g (.leaf 2 4)] :=
  translate_node rfl

end C02Ex

/-! ## the recogniser chart and the pruned enumerators (`Yaep/Model/Chart.lean`)

All statements are about spans inside the input, `j ≤ toks.length`: a derivation of the empty
string is valid on any span `(i, i)`, also for `i > toks.length`, but the chart only starts
at positions `≤ toks.length` (see the last example of this section).  The top-level calls
`derivationsP` / `countDerivationsP` query `(0, toks.length)`, and every recursive call stays
inside the queried span. -/

/-- `seqEnds` computes the ends of the chains of splits: terminals match the input, every
nonterminal piece is a triple of the chart -/
theorem seqEnds_spec {toks : List Nat} {ch : List Triple} (Xs : List Sym) (starts : List Nat)
    (j : Nat) :
    j ∈ seqEnds toks ch Xs starts ↔ ∃ i ∈ starts, SeqChain toks ch Xs i j :=
  mem_seqEnds Xs starts j

theorem seqEnds_single_spec {toks : List Nat} {ch : List Triple} (Xs : List Sym) (i j : Nat) :
    j ∈ seqEnds toks ch Xs [i] ↔ SeqChain toks ch Xs i j := by
  rw [seqEnds_spec]; simp

theorem seqOk_spec {toks : List Nat} {ch : List Triple} {Xs : List Sym} {i j : Nat} :
    seqOk toks ch Xs i j = true ↔ SeqChain toks ch Xs i j :=
  seqOk_iff

/-- the saturation reaches a fixpoint within its fuel -/
theorem chart_closed' (g : Grammar) (toks : List Nat) :
    chartStep g toks (chart g toks) ⊆ chart g toks :=
  chart_closed g toks

/-- completeness of the chart: every derivable triple inside the input is in it -/
theorem chart_complete {g : Grammar} {toks : List Nat} {pt : PT} {A i j : Nat}
    (h : PT.ValidAt g toks pt (.n A) i j) (hj : j ≤ toks.length) : (A, i, j) ∈ chart g toks :=
  chart_complete_aux pt h hj

/-- soundness of the chart: every triple in it is derivable -/
theorem chart_sound {g : Grammar} {toks : List Nat} {A i j : Nat}
    (h : (A, i, j) ∈ chart g toks) : ∃ pt, PT.ValidAt g toks pt (.n A) i j :=
  chart_sound_aux g toks (A, i, j) h

/-- the chart is exactly the set of derivable triples inside the input -/
theorem chart_spec {g : Grammar} {toks : List Nat} {A i j : Nat} :
    (A, i, j) ∈ chart g toks ↔ (j ≤ toks.length ∧ ∃ pt, PT.ValidAt g toks pt (.n A) i j) :=
  ⟨fun h => ⟨(mem_chartUniv.1 (chart_subset_univ g toks h)).2.2, chart_sound h⟩,
   fun ⟨hj, _, h⟩ => chart_complete h hj⟩

theorem symOk_complete {g : Grammar} {toks : List Nat} {pt : PT} {X : Sym} {i j : Nat}
    (h : PT.ValidAt g toks pt X i j) (hj : j ≤ toks.length) :
    symOk toks (chart g toks) X i j = true :=
  symOk_complete_aux h hj

theorem seqOk_complete {g : Grammar} {toks : List Nat} {kids : List PT} {Xs : List Sym}
    {i j : Nat} (h : PT.ValidListAt g toks kids Xs i j) (hj : j ≤ toks.length) :
    seqOk toks (chart g toks) Xs i j = true :=
  seqOk_iff.2 (chain_complete_aux kids h hj)

theorem seqOk_sound {g : Grammar} {toks : List Nat} {Xs : List Sym} {i j : Nat}
    (h : seqOk toks (chart g toks) Xs i j = true) : ∃ kids, PT.ValidListAt g toks kids Xs i j :=
  (seqOk_iff.1 h).exists_valid (chart_sound_aux g toks)

/-- the pruned sequence enumerator returns the same list (same order) -/
theorem derivSeqP_eq (g : Grammar) (toks : List Nat) (fuel : Nat) (Xs : List Sym) (i j : Nat)
    (hj : j ≤ toks.length) :
    derivSeqP toks (chart g toks) (derivSymP g toks (chart g toks) fuel) Xs i j =
      derivSeq (derivSym g toks fuel) Xs i j :=
  derivSeqP_eq_aux (derivSymP_eq_aux g toks fuel) Xs i j hj

/-- the pruned enumerator returns the same list (same order): pruning only removes splits
and rules that contribute nothing -/
theorem derivSymP_eq (g : Grammar) (toks : List Nat) (fuel : Nat) (X : Sym) (i j : Nat)
    (hj : j ≤ toks.length) :
    derivSymP g toks (chart g toks) fuel X i j = derivSym g toks fuel X i j :=
  derivSymP_eq_aux g toks fuel X i j hj

theorem derivationsP_eq (g : Grammar) (toks : List Nat) :
    derivationsP g toks = derivations g toks :=
  derivSymP_eq g toks _ _ _ _ (Nat.le_refl _)

/-- so the pruned enumerator is sound and complete as well -/
theorem derivationsP_spec (g : Grammar) (toks : List Nat) (pt : PT) :
    pt ∈ derivationsP g toks ↔
      (PT.IsDerivation g toks pt ∧ pt.depth ≤ g.derivFuel toks.length) := by
  rw [derivationsP_eq]; exact derivations_spec g toks pt

theorem countSymP_eq (g : Grammar) (toks : List Nat) (cap fuel : Nat) (X : Sym) (i j : Nat)
    (hj : j ≤ toks.length) :
    countSymP g toks (chart g toks) cap fuel X i j = countSym g toks cap fuel X i j :=
  countSymP_eq_aux g toks cap fuel X i j hj

theorem countSeqP_eq (g : Grammar) (toks : List Nat) (cap fuel : Nat) (Xs : List Sym) (i j : Nat)
    (hj : j ≤ toks.length) :
    countSeqP toks (chart g toks) cap (countSymP g toks (chart g toks) cap fuel) Xs i j =
      countSeq cap (countSym g toks cap fuel) Xs i j :=
  countSeqP_eq_aux (countSymP_eq_aux g toks cap fuel) Xs i j hj

theorem countDerivationsP_eq (g : Grammar) (toks : List Nat) (cap : Nat) :
    countDerivationsP g toks cap = countDerivations g toks cap :=
  countSymP_eq g toks cap _ _ _ _ (Nat.le_refl _)

/-- the pruned counter is the number of derivations, saturating at `cap + 1` -/
theorem countDerivationsP_spec (g : Grammar) (toks : List Nat) (cap : Nat) :
    countDerivationsP g toks cap = min (cap + 1) (derivations g toks).length := by
  rw [countDerivationsP_eq]; exact countSym_spec_aux g toks cap _ _ _ _

namespace C02Ex

example : chart g toks = [(1, 0, 1), (1, 2, 3), (0, 2, 4), (1, 0, 3), (0, 0, 4)] := by decide +kernel
example : (0, 0, 4) ∈ chart g toks := chart_complete valid (by decide)
example : ∃ t, PT.ValidAt g toks t (.n 1) 0 3 := chart_sound (by decide +kernel)
example : (1, 1, 3) ∉ chart g toks := by decide +kernel
/-- hence nothing derives `+ a` from `E` -/
example : ¬ ∃ t, PT.ValidAt g toks t (.n 1) 1 3 :=
  fun h => absurd (chart_spec.2 ⟨by decide, h⟩) (by decide +kernel)
example : chartStep g toks (chart g toks) ⊆ chart g toks := chart_closed' g toks
example : seqEnds toks (chart g toks) [.n 1, .t 3, .n 1] [0, 2] = [3] := by decide +kernel
example : SeqChain toks (chart g toks) [.n 1, .t 3, .n 1] 0 3 :=
  (seqEnds_single_spec _ 0 3).1 (by decide +kernel)
example : ∃ i ∈ [0, 2], SeqChain toks (chart g toks) [.n 1, .t 3, .n 1] i 3 :=
  (seqEnds_spec _ _ 3).1 (by decide +kernel)
example : SeqChain toks (chart g toks) [.n 1, .t 1] 0 4 :=
  seqOk_spec.1 (by decide +kernel)
example : symOk toks (chart g toks) (.n 0) 0 4 = true := symOk_complete valid (by decide)
example : seqOk toks (chart g toks) [.n 1, .t 3, .n 1] 0 3 = true :=
  seqOk_complete validKids (by decide)
example : ∃ kids, PT.ValidListAt g toks kids [.n 1, .t 3, .n 1] 0 3 :=
  seqOk_sound (by decide +kernel)
example : derivSymP g toks (chart g toks) 3 (.n 0) 0 4 = [pt] := by
  rw [derivSymP_eq g toks 3 (.n 0) 0 4 (by decide)]; rfl
example : derivSeqP toks (chart g toks) (derivSymP g toks (chart g toks) 1) [.n 1, .t 3, .n 1] 0 3 =
    derivSeq (derivSym g toks 1) [.n 1, .t 3, .n 1] 0 3 := derivSeqP_eq g toks 1 _ 0 3 (by decide)
example : derivationsP g toks = derivations g toks := derivationsP_eq g toks
example : (derivationsP g toks).length = 1 := by decide +kernel
example : pt ∈ derivationsP g toks := (derivationsP_spec g toks pt).2 ⟨valid, by decide⟩
example : countSymP g toks (chart g toks) 5 3 (.n 0) 0 4 = countSym g toks 5 3 (.n 0) 0 4 :=
  countSymP_eq g toks 5 3 _ 0 4 (by decide)
example : countSeqP toks (chart g toks) 5 (countSymP g toks (chart g toks) 5 1)
    [.n 1, .t 3, .n 1] 0 3 = countSeq 5 (countSym g toks 5 1) [.n 1, .t 3, .n 1] 0 3 :=
  countSeqP_eq g toks 5 1 _ 0 3 (by decide)
example : countDerivationsP g toks 5 = countDerivations g toks 5 := countDerivationsP_eq g toks 5
example : countDerivationsP g toks 5 = 1 := by decide +kernel
example : countDerivationsP g toks 5 = min (5 + 1) (derivations g toks).length :=
  countDerivationsP_spec g toks 5

/-- the hypothesis `j ≤ toks.length` is needed: with `A : ` (empty rule) and empty input,
`A` derives the empty span `(1, 1)` outside the input, which the chart does not cover -/
example : derivSym { rules := [{ lhs := 0, rhs := [] }] } [] 1 (.n 0) 1 1 = [.node 0 []] := by rfl
example : derivSymP { rules := [{ lhs := 0, rhs := [] }] } []
    (chart { rules := [{ lhs := 0, rhs := [] }] } []) 1 (.n 0) 1 1 = [] := by decide +kernel
example : chart { rules := [{ lhs := 0, rhs := [] }] } [] = [(0, 0, 0)] := by decide +kernel

end C02Ex

/-! ## the fuel of `derivations` suffices for grammars without cycles

Without the depth side condition of `derivations_spec`: in a grammar without cycles
(`¬ Cyclic g`, decidable as `g.loopSet = []`, see `loop_exists_iff` in C10) whose symbol
numbers are in range, every derivation of an input of length `n` has nesting depth at most
`nN + (nN + 1) * n ≤ derivFuel n`, so `derivations` / `derivationsP` list *all* derivations.
With a cycle there are derivations of every depth and no fuel suffices (last examples). -/

/-- a derivation is a derivation in the sense of `Der` (the notion `Cyclic`, `Nullable`, …
are stated with) -/
theorem validAt_der {g : Grammar} {toks : List Nat} {pt : PT} {X : Sym} {i j : Nat}
    (h : PT.ValidAt g toks pt X i j) : Der g [X] pt.yield :=
  h.der

theorem isDerivation_der {g : Grammar} {toks : List Nat} {pt : PT}
    (h : PT.IsDerivation g toks pt) : Der g [.n g.axiomN] toks := by
  have := validAt_der h
  rwa [IsDerivation_yield h] at this

/-- the depth of a derivation of `toks[i, j)` in a grammar without cycles -/
theorem depth_bound_span {g : Grammar} {toks : List Nat} (hc : ¬ Cyclic g)
    (hr : g.symsInRange = true) {pt : PT} {A i j : Nat}
    (h : PT.ValidAt g toks pt (.n A) i j) : pt.depth ≤ g.nN + (g.nN + 1) * (j - i) :=
  depth_le_span hc hr h

/-- every derivation of the input fits into the fuel of the enumerator -/
theorem depth_bound {g : Grammar} {toks : List Nat} (hc : ¬ Cyclic g)
    (hr : g.symsInRange = true) {pt : PT} (h : PT.IsDerivation g toks pt) :
    pt.depth ≤ g.derivFuel toks.length :=
  Nat.le_trans (depth_bound_span hc hr h) (span_bound_le_derivFuel g toks.length)

/-- `derivations` lists exactly the derivations of the input -/
theorem derivations_complete {g : Grammar} {toks : List Nat} (hc : ¬ Cyclic g)
    (hr : g.symsInRange = true) (pt : PT) :
    pt ∈ derivations g toks ↔ PT.IsDerivation g toks pt := by
  rw [derivations_spec]
  exact ⟨fun h => h.1, fun h => ⟨h, depth_bound hc hr h⟩⟩

/-- and so does the pruned enumerator the judge runs -/
theorem derivationsP_complete {g : Grammar} {toks : List Nat} (hc : ¬ Cyclic g)
    (hr : g.symsInRange = true) (pt : PT) :
    pt ∈ derivationsP g toks ↔ PT.IsDerivation g toks pt := by
  rw [derivationsP_eq]; exact derivations_complete hc hr pt

/-- the same with the decidable side conditions the judge can evaluate -/
theorem derivationsP_complete_of_loopSet {g : Grammar} {toks : List Nat} (hl : g.loopSet = [])
    (hr : g.symsInRange = true) (pt : PT) :
    pt ∈ derivationsP g toks ↔ PT.IsDerivation g toks pt :=
  derivationsP_complete (fun h => loopSet_ne_nil_of_cyclic g h hl) hr pt

namespace C02Ex

example : g.symsInRange = true := by decide
example : pt.depth ≤ g.derivFuel toks.length := depth_bound g_acyclic (by decide) valid
example : (a 0).depth ≤ g.nN + (g.nN + 1) * (1 - 0) :=
  depth_bound_span (toks := toks) (A := 1) g_acyclic (by decide)
    (.node (rl := g.rules[2]) rfl rfl (.cons (.leaf rfl) .nil))
example : pt ∈ derivations g toks := (derivations_complete g_acyclic (by decide) pt).2 valid
example : pt ∈ derivationsP g toks := (derivationsP_complete g_acyclic (by decide) pt).2 valid
example : pt ∈ derivationsP g toks :=
  (derivationsP_complete_of_loopSet (by decide) (by decide) pt).2 valid
/-- every derivation of `a + a` is the one enumerated -/
example : ∀ t, PT.IsDerivation g toks t → t ∈ derivations g toks :=
  fun t h => (derivations_complete g_acyclic (by decide) t).2 h
example : Der g [.n 0] toks := isDerivation_der valid
example : Der g [.n 1] [2, 3, 2] :=
  validAt_der (toks := toks) (pt := .node 1 [a 0, .leaf 3 1, a 2]) (i := 0) (j := 3)
    (.node (rl := g.rules[1]) rfl rfl validKids)

/-- with a cycle the statement fails: `A : A | 'a'` has derivations of `a` of every depth,
`ptL 11` has depth 13 > `derivFuel 2 = 12` -/
example : Cyclic gLoop := (⟨1, .single ⟨1, gLoop.rules[1], 0, rfl, rfl, rfl, by
  intro j s hj hs
  match j, hj, hs with
  | j + 1, _, hs => simp [gLoop] at hs⟩⟩ : Cyclic gLoop)
example : gLoop.loopSet ≠ [] := by decide
example : PT.IsDerivation gLoop toksL (ptL 11) := ptL_valid 11
example : ptL 11 ∉ derivations gLoop toksL := fun h => by
  have := ((derivations_spec gLoop toksL (ptL 11)).1 h).2
  rw [ptL_depth] at this
  exact absurd this (by decide)

end C02Ex

/-! ## what "the tree is the translation of a derivation" says

The judge checks `tree ∈ (derivationsP g toks).map (translate g)`.  By `derivationsP_spec`
(`derivationsP_complete` without cycles) this is: the tree is `translate g pt` for a
derivation `pt` of the whole input.  The theorems of this section spell out what
`translate g pt` looks like, under the decidable well-formedness `Grammar.translWF` of the
translation parts of the rules — which every grammar accepted by `readGrammar` has
(`readGrammar_translWF`). -/

/-- membership in the list the judge computes -/
theorem mem_translations_iff (g : Grammar) (toks : List Nat) (tree : Tree) :
    tree ∈ (derivationsP g toks).map (translate g) ↔
      ∃ pt, (PT.IsDerivation g toks pt ∧ pt.depth ≤ g.derivFuel toks.length) ∧
        translate g pt = tree := by
  simp only [List.mem_map, derivationsP_spec]

/-- … for a grammar without cycles: the tree is the translation of some derivation -/
theorem mem_translations_iff_acyclic {g : Grammar} {toks : List Nat} (hc : ¬ Cyclic g)
    (hr : g.symsInRange = true) (tree : Tree) :
    tree ∈ (derivationsP g toks).map (translate g) ↔
      ∃ pt, PT.IsDerivation g toks pt ∧ translate g pt = tree := by
  simp only [List.mem_map, derivationsP_complete hc hr]

/-- every grammar `readGrammar` accepts has well-formed translations: one `order` entry per
right-hand-side symbol, slots below `transLen`, no slot used twice, at most one translated
position in a rule without abstract node -/
theorem readGrammar_translWF {raw : RawGrammar} {g : Grammar} (h : readGrammar raw = .ok g) :
    g.translWF = true :=
  readGrammar_translWF_aux h

/-- `Grammar.translWF`, spelled out for one rule -/
theorem translWF_rule {g : Grammar} (h : g.translWF = true) {r : Nat} {rl : Rule}
    (hr : g.rules[r]? = some rl) :
    rl.order.length = rl.rhs.length ∧
    (∀ (p s : Nat), rl.order[p]? = some (some s) → s < rl.transLen) ∧
    (∀ (p q s : Nat), rl.order[p]? = some (some s) → rl.order[q]? = some (some s) → p = q) ∧
    (rl.anode = none → ∀ (p q s s' : Nat), rl.order[p]? = some (some s) →
      rl.order[q]? = some (some s') → p = q) :=
  let h' := Grammar.translWF_rule h hr
  ⟨h'.len, h'.slot_lt, h'.inj, h'.single⟩

/-- Every TERM node of the translation carries the code of an input token and, as its
attribute, the position of that token (the harness passes the position as the attribute
pointer); `error` tokens are never TERM nodes. -/
theorem translate_term_attr {g : Grammar} {toks : List Nat} {pt : PT}
    (h : PT.IsDerivation g toks pt) {c a : Int} (hx : (c, a) ∈ (translate g pt).terms) :
    ∃ k t : Nat, a = (k : Int) ∧ toks[k]? = some t ∧ t ≠ g.errT ∧ g.termCodes.getD t 0 = c := by
  obtain ⟨k, t, h1, _, _, h2, h3, h4⟩ := terms_of_valid pt h c a hx
  exact ⟨k, t, h1, h2, h3, h4⟩

/-- No input token is translated twice: the positions of the TERM nodes of one translation
tree are pairwise different.  (This needs no hypothesis on the grammar: a slot takes one
child, and different slots take different children.) -/
theorem translate_terms_nodup_positions {g : Grammar} {toks : List Nat} {pt : PT}
    (h : PT.IsDerivation g toks pt) : ((translate g pt).terms.map (·.2)).Nodup :=
  terms_positions_nodup pt h

/-- the children of a rule application: as many as the rule has right-hand-side symbols -/
theorem validNode_kids_length {g : Grammar} {toks : List Nat} {r A i j : Nat} {kids : List PT}
    (h : PT.ValidAt g toks (.node r kids) (.n A) i j) :
    ∃ rl, g.rules[r]? = some rl ∧ rl.lhs = A ∧ kids.length = rl.rhs.length := by
  cases h with
  | node e hl v => exact ⟨_, e, hl, v.length_eq⟩

/-- A rule with an abstract node translates to that node: the rule's name and cost, exactly
`transLen` children; child `s` is the translation of the right-hand-side position mapped to
slot `s` (there is at most one) and NIL if no position is mapped to it. -/
theorem translate_anode_shape {g : Grammar} (hwf : g.translWF = true) {r : Nat} {rl : Rule}
    {name : String} (hr : g.rules[r]? = some rl) (ha : rl.anode = some name) (kids : List PT) :
    ∃ slots, translate g (.node r kids) = .anode name rl.cost slots ∧
      slots.length = rl.transLen ∧
      (∀ (p s : Nat) (k : PT), rl.order[p]? = some (some s) → kids[p]? = some k →
        slots[s]? = some (translate g k)) ∧
      (∀ s : Nat, s < rl.transLen → (∀ p : Nat, rl.order[p]? ≠ some (some s)) →
        slots[s]? = some .nil) := by
  have hok := Grammar.translWF_rule hwf hr
  refine ⟨fillSlots rl.order (kids.map (translate g)) rl.transLen, ?_, fillSlots_length _ _ _,
    ?_, ?_⟩
  · rw [translate_node hr, translateRule_abstract ha]
  · intro p s k hp hk
    rw [fillSlots_slot_unique (hok.slot_lt p s hp) hp (fun q hq => hok.inj q p s hq hp),
      getD_map_translate hk]
  · intro s hs hn
    exact fillSlots_slot_nil hs hn

/-- A rule without abstract node passes the translation of its single translated
right-hand-side position through, and translates to NIL if it has none. -/
theorem translate_passthrough {g : Grammar} (hwf : g.translWF = true) {r : Nat} {rl : Rule}
    (hr : g.rules[r]? = some rl) (ha : rl.anode = none) (kids : List PT) :
    (∀ (p s : Nat) (k : PT), rl.order[p]? = some (some s) → kids[p]? = some k →
      translate g (.node r kids) = translate g k) ∧
    ((∀ (p s : Nat), rl.order[p]? ≠ some (some s)) → translate g (.node r kids) = .nil) := by
  have hok := Grammar.translWF_rule hwf hr
  constructor
  · intro p s k hp hk
    rw [translate_node hr, translateRule_pass (p := p) ha, getD_map_translate hk]
    refine ⟨⟨s, hp⟩, ?_⟩
    intro q hq s' hq'
    have := hok.single ha q p s' s hq' hp
    omega
  · intro hn
    rw [translate_node hr, translateRule_empty ha hn]

namespace C02Ex

example : g.translWF = true := by decide
/-- the description `rawPlus` is accepted, hence its internal grammar has well-formed
translations -/
example : ∃ g', readGrammar rawPlus = .ok g' ∧ g'.translWF = true :=
  ⟨_, rfl, readGrammar_translWF (raw := rawPlus) rfl⟩
example : g.rules[1].order.length = g.rules[1].rhs.length :=
  (translWF_rule (g := g) (by decide) (r := 1) rfl).1
example : Tree.anode "plus" 1 [.term 97 0, .nil, .term 97 2] ∈
    (derivationsP g toks).map (translate g) :=
  (mem_translations_iff g toks _).mpr ⟨pt, ⟨valid, by decide⟩, rfl⟩
example : ∃ t, PT.IsDerivation g toks t ∧
    translate g t = .anode "plus" 1 [.term 97 0, .nil, .term 97 2] :=
  (mem_translations_iff_acyclic g_acyclic (by decide) _).mp
    ((mem_translations_iff g toks _).mpr ⟨pt, ⟨valid, by decide⟩, rfl⟩)
example : (translate g pt).terms = [(97, 0), (97, 2)] := by decide
/-- the TERM node `(97, 2)` is the token `a` at position 2 -/
example : ∃ k t : Nat, (2 : Int) = (k : Int) ∧ toks[k]? = some t ∧ t ≠ g.errT ∧
    g.termCodes.getD t 0 = 97 :=
  translate_term_attr (g := g) (pt := pt) valid (c := 97) (a := 2) (by decide)
example : ((translate g pt).terms.map (·.2)).Nodup := translate_terms_nodup_positions valid
example : ∃ rl, g.rules[1]? = some rl ∧ rl.lhs = 1 ∧ [a 0, PT.leaf 3 1, a 2].length = rl.rhs.length :=
  validNode_kids_length (toks := toks) (i := 0) (j := 3)
    (.node (rl := g.rules[1]) rfl rfl validKids)
/-- the shape of the `plus` node: three children, operands in slots 0 and 2, NIL in slot 1 -/
example : ∃ slots, translate g (.node 1 [a 0, .leaf 3 1, a 2]) = .anode "plus" 1 slots ∧
    slots.length = 3 ∧ slots[0]? = some (translate g (a 0)) ∧ slots[1]? = some .nil ∧
    slots[2]? = some (translate g (a 2)) := by
  obtain ⟨slots, h1, h2, h3, h4⟩ := translate_anode_shape (g := g) (by decide) (r := 1)
    (name := "plus") rfl rfl [a 0, .leaf 3 1, a 2]
  refine ⟨slots, h1, h2, h3 0 0 (a 0) rfl rfl, h4 1 (by decide) ?_, h3 2 2 (a 2) rfl rfl⟩
  intro p hp
  match p, hp with
  | 0, h => cases h
  | 1, h => cases h
  | 2, h => cases h
  | n + 3, h => cases h
/-- `E : 'a'` passes the TERM node through; `$S : E $eof` passes `E` through -/
example : translate g (a 2) = translate g (.leaf 2 2) :=
  (translate_passthrough (g := g) (by decide) (r := 2) rfl rfl [.leaf 2 2]).1 0 0 _ rfl rfl
example : translate g pt = translate g (.node 1 [a 0, .leaf 3 1, a 2]) :=
  (translate_passthrough (g := g) (by decide) (r := 0) rfl rfl _).1 0 0 _ rfl rfl
/-- a rule whose translation is empty gives NIL -/
example : translate gNil (.node 0 [.leaf 2 0]) = .nil :=
  (translate_passthrough (g := gNil) (by decide) (r := 0) rfl rfl [.leaf 2 0]).2 (by
    intro p s hp
    match p, hp with
    | 0, h => cases h
    | n + 1, h => cases h)
/-- a hand-made rule that uses a slot twice is not `translWF` (`readGrammar` rejects such a
description with code 13) -/
example : (Rule.mk 1 [.t 2, .t 2] (some "n") 0 1 [some 0, some 0]).translWF = false := by decide

end C02Ex

end Yaep
