import Yaep.Lemmas.HeapWfMain
import Yaep.Lemmas.HeapWfOne
import Yaep.Lemmas.HeapWfExport
import Yaep.Props.PruneC
import Yaep.Props.MakeParseSound
/-!
# Every heap the model of `make_parse` builds is a `WfHeap`; the cost-flag parse end to end

* **`makeParse_heap_wf`** — the tree memory the step model of `make_parse` leaves behind, in
  all-parses mode (the mode the cost flag uses) and in one-parse mode, on the parse list of the step
  model of `build_pl` for an accepted input, satisfies `PC.WfHeap` (the hypothesis of all theorems
  about the model of `find_minimal_translation`, `Props/PruneC.lean`) for explicit rank / head
  functions; the result cell is in range and is not inside an ALT chain.  Hypotheses on the grammar:
  `mpWF`, no cycle, `symsInRange` (all hold for every grammar `readGrammar` accepts:
  `makeParse_heap_wf_accepted`).  `accepted_makeParse_one_heap_wf`: one-parse mode, nothing assumed
  about the run (totality is proved there).
* `makeParse_all_ok_of_state`, **`makeParse_all_not_cyclic`** — a finished all-parses run that is not
  flagged has the outcome `.ok`: the harness's exporter never meets a cycle in the tree memory
  (`PC.exportTable_some`: on a `WfHeap` the exporter succeeds).
* **`accepted_cost_parse`** (`makeParse_cost_parse`, `makeParse_cost_parse_state`, `CostParseSpec`) —
  `make_parse` (model, all parses) followed by `find_minimal_translation` (model): the final heap
  denotes at the new root exactly the trees of minimal total cost *among the trees the forest of
  `make_parse` denotes* (accumulated cost fields; one of them for one parse), every tree of that
  forest is the translation of a derivation of `w $eof`; the freed cells are exactly those that
  became unreachable, each once.

Lemmas: `Yaep/Lemmas/HeapWf*.lean` (`HeapWfBase`: ranks; `HeapWfOps`: heap operations;
`HeapWfInv`, `HeapWfMoves`: the invariant and the primitive moves; `HeapWfStep`, `HeapWfCand`,
`HeapWfHead`, `HeapWfLoop`, `HeapWfMain`: the steps of the main loop, all parses; `HeapWfOne`: one
parse; `HeapWfExport`: the exporter on a `WfHeap`).
-/
namespace Yaep
open MP

/-- **the heap of `make_parse` is well formed**, in all-parses mode (`one = false`, the mode the
cost flag uses) and in one-parse mode: ranks from the rule instances (span, then unit-step rank of
the nonterminal; `MP.Gh.rk` compresses them below the heap size), chain heads from the order in
which `place_translation` builds the ALT chains -/
theorem makeParse_heap_wf {g : Grammar} {la : Nat} {w : List Nat} {one : Bool} {fuel : Nat} {s : MP.St}
    {r : Nat} (hg : g.mpWF = true) (hcyc : ¬ Cyclic g) (hsr : g.symsInRange = true)
    (hacc : (BS.buildPLC g la w).1 = none)
    (hm : MP.makeParseSt (MP.mkCtx g (plSets g la w) (plTokNums w) one) fuel = some s)
    (hb : s.bad = false) (hres : s.result = some r) :
    ∃ rk hd, PC.WfHeap (PC.ofHeap s.heap) rk hd ∧ r < (PC.ofHeap s.heap).size ∧ hd r = r := by
  cases one with
  | false =>
    obtain ⟨Γ, h1, h2, h3⟩ := MP.makeParse_heap_wf_ctx (MP.ctxAll_plSets hacc) (MP.grOK_of_mpWF hg)
      hcyc hsr hm hb hres
    exact ⟨_, _, h1, h2, h3⟩
  | true =>
    obtain ⟨Γ, h1, h2, h3⟩ := MP.makeParse_heap_wf_ctx1 (MP.ctxOK_plSets hacc) (MP.grOK_of_mpWF hg)
      hcyc hsr hm hb hres
    exact ⟨_, _, h1, h2, h3⟩

/-- … for every grammar the definition functions accept: no hypothesis on the grammar left -/
theorem makeParse_heap_wf_accepted {raw : RawGrammar} {g : Grammar} {la : Nat} {w : List Nat}
    {one : Bool} {fuel : Nat} {s : MP.St} {r : Nat} (h : readGrammar raw = .ok g)
    (hacc : (BS.buildPLC g la w).1 = none)
    (hm : MP.makeParseSt (MP.mkCtx g (plSets g la w) (plTokNums w) one) fuel = some s)
    (hb : s.bad = false) (hres : s.result = some r) :
    ∃ rk hd, PC.WfHeap (PC.ofHeap s.heap) rk hd ∧ r < (PC.ofHeap s.heap).size ∧ hd r = r :=
  makeParse_heap_wf (readGrammar_mpWF h) (readGrammar_semOK h).1 (readGrammar_symsInRange h) hacc hm
    hb hres

/-! ## the outcome `.ok` and the machine state behind it -/

theorem toHeap_ofHeap (h : Array MP.MNode) : PC.toHeap (PC.ofHeap h) = h := by
  apply Array.ext
  · simp [PC.toHeap, PC.ofHeap]
  · intro i h1 h2
    simp only [PC.toHeap, PC.ofHeap, Array.getElem_map]
    cases h[i] <;> simp [PC.ofMNode, PC.toMNode]

/-- what `.ok res` says about the final machine state -/
theorem makeParse_ok_state {g : Grammar} {sets : Array (Array Item)} {plToks : Array Int} {one : Bool}
    {fuel : Nat} {res : MP.Result} (hm : MP.makeParse g sets plToks one fuel = .ok res) :
    ∃ s r, MP.makeParseSt (MP.mkCtx g sets plToks one) fuel = some s ∧ s.bad = false ∧
      s.result = some r ∧ MP.exportTable s.heap r = some (res.tab, res.root) := by
  simp only [MP.makeParse] at hm
  split at hm
  · cases hm
  · rename_i s0 hi
    split at hm
    · cases hm
    · rename_i s hr
      split at hm
      · cases hm
      · rename_i hb
        split at hm
        · cases hm
        · rename_i r hres
          split at hm
          · cases hm
          · rename_i tab root hx
            injection hm with hm
            subst hm
            refine ⟨s, r, ?_, by simpa using hb, hres, hx⟩
            unfold MP.makeParseSt
            rw [hi]; exact hr

/-- one-parse mode, where totality is proved (`makeParse_one_total`): for an accepted grammar, user
tokens, a sentence and enough fuel the run ends, is not flagged, has a result cell, and its tree
memory is a `WfHeap` — nothing is assumed about the run -/
theorem accepted_makeParse_one_heap_wf {raw : RawGrammar} {g : Grammar} {la : Nat} {w : List Nat}
    {fuel : Nat} (h : readGrammar raw = .ok g) (htok : UserTokens g w) (hla : la ≤ 1)
    (hs : Sentence g w) (hfuel : MP.mpFuel g (w.length + 1) ≤ fuel) :
    ∃ s r, MP.makeParseSt (MP.mkCtx g (plSets g la w) (plTokNums w) true) fuel = some s ∧
      s.bad = false ∧ s.result = some r ∧
      ∃ rk hd, PC.WfHeap (PC.ofHeap s.heap) rk hd ∧ r < (PC.ofHeap s.heap).size ∧ hd r = r := by
  have hwf := readGrammar_wf h
  have hsr := readGrammar_symsInRange h
  have hcyc := (readGrammar_semOK h).1
  have hg := readGrammar_mpWF h
  have hacc : (BS.buildPLC g la w).1 = none := by
    have := (BS.acceptsC_iff_sentence hwf hsr htok hla).mpr hs
    unfold BS.acceptsC at this
    exact Option.isNone_iff_eq_none.mp this
  obtain ⟨res, hm⟩ := makeParse_one_total hwf hg hcyc hsr hacc hfuel
  obtain ⟨s, r, h1, h2, h3, _⟩ := makeParse_ok_state hm
  exact ⟨s, r, h1, h2, h3, makeParse_heap_wf hg hcyc hsr hacc h1 h2 h3⟩

/-- a finished run of all-parses mode that did not hit undefined behaviour has the outcome `.ok`:
the exporter of the harness (`export_node`, which reports cycles) succeeds on a `WfHeap`
(`PC.exportTable_some`) -/
theorem makeParse_all_ok_of_state {g : Grammar} {la : Nat} {w : List Nat} {fuel : Nat} {s : MP.St}
    {r : Nat} (hg : g.mpWF = true) (hcyc : ¬ Cyclic g) (hsr : g.symsInRange = true)
    (hacc : (BS.buildPLC g la w).1 = none)
    (hm : MP.makeParseSt (MP.mkCtx g (plSets g la w) (plTokNums w) false) fuel = some s)
    (hb : s.bad = false) (hres : s.result = some r) :
    ∃ res, MP.makeParse g (plSets g la w) (plTokNums w) false fuel = .ok res := by
  obtain ⟨rk, hd, wf, hr, _⟩ := makeParse_heap_wf hg hcyc hsr hacc hm hb hres
  obtain ⟨tab, root, hx⟩ := PC.exportTable_some wf hr
  rw [toHeap_ofHeap] at hx
  unfold MP.makeParseSt at hm
  split at hm
  · cases hm
  · rename_i s0 hi
    simp only [MP.makeParse, hi, hm, hb, hres, hx]
    exact ⟨_, rfl⟩

/-- **`make_parse`, all parses, never builds a cyclic tree memory** for a grammar without cycles
(the outcome `.cyclic` — the harness's `export_node` meets a cell it is working on — is
impossible) -/
theorem makeParse_all_not_cyclic {g : Grammar} {la : Nat} {w : List Nat} {fuel : Nat}
    (hg : g.mpWF = true) (hcyc : ¬ Cyclic g) (hsr : g.symsInRange = true)
    (hacc : (BS.buildPLC g la w).1 = none) :
    (MP.makeParse g (plSets g la w) (plTokNums w) false fuel matches .cyclic) = false := by
  cases hi : MP.init (MP.mkCtx g (plSets g la w) (plTokNums w) false) with
  | none => simp only [MP.makeParse, hi]
  | some s0 =>
    cases hr : MP.run (MP.mkCtx g (plSets g la w) (plTokNums w) false) fuel s0 with
    | none => simp only [MP.makeParse, hi, hr]
    | some s =>
      have hm : MP.makeParseSt (MP.mkCtx g (plSets g la w) (plTokNums w) false) fuel = some s := by
        unfold MP.makeParseSt; rw [hi]; exact hr
      cases hb : s.bad with
      | true => simp only [MP.makeParse, hi, hr, hb, if_true]
      | false =>
        cases hres : s.result with
        | none => simp only [MP.makeParse, hi, hr, hb, hres]; rfl
        | some r =>
          obtain ⟨res, hok⟩ := makeParse_all_ok_of_state hg hcyc hsr hacc hm hb hres
          rw [hok]

/-! ## the cost-flag parse, end to end -/

/-- what `find_minimal_translation` (model, `PC.findMinimalTranslation`) does to the tree memory
`s.heap` of a finished run of `make_parse` with result cell `r` — for every choice of the
one-parse flag, of `parse_free` (`free`), of the name blocks, and any fuel `≥` the number of cells:

1. the model does not run out of fuel;
2. every tree of the forest of `make_parse` is the translation of a derivation of `w $eof`;
3. all parses: the trees denoted at the new root are exactly the trees of minimal total cost
   *of that forest*, with accumulated cost fields;
4. one parse: exactly one tree is denoted, such a minimal tree;
5. with `parse_free`: the freed cells are exactly the cells that were reachable from `r` and are
   not reachable from the new root (NIL / ERROR excluded), each freed once. -/
def CostParseSpec (g : Grammar) (w : List Nat) (s : MP.St) (r : Nat) : Prop :=
  ∀ (free : Bool) (nameBlk : Nat → Nat) (fuel' f : Nat), s.heap.size ≤ fuel' → s.heap.size ≤ f →
    (∀ one, (PC.findMinimalTranslation fuel' (PC.ofHeap s.heap) r one free nameBlk
      s.nilUsed s.errUsed).oof = false) ∧
    (∀ t ∈ denote (PC.unfoldC (PC.ofHeap s.heap) f r),
      ∃ pt, PT.IsDerivation g (w ++ [g.eofT]) pt ∧ translate g pt = t) ∧
    (∀ t', t' ∈ denote (PC.unfoldC
          (PC.findMinimalTranslation fuel' (PC.ofHeap s.heap) r false free nameBlk s.nilUsed s.errUsed).heap f
          (PC.findMinimalTranslation fuel' (PC.ofHeap s.heap) r false free nameBlk s.nilUsed s.errUsed).root) ↔
        ∃ t, IsMinCost (denote (PC.unfoldC (PC.ofHeap s.heap) f r)) t ∧ t' = t.accum) ∧
    (∃ t, IsMinCost (denote (PC.unfoldC (PC.ofHeap s.heap) f r)) t ∧
      denote (PC.unfoldC
          (PC.findMinimalTranslation fuel' (PC.ofHeap s.heap) r true free nameBlk s.nilUsed s.errUsed).heap f
          (PC.findMinimalTranslation fuel' (PC.ofHeap s.heap) r true free nameBlk s.nilUsed s.errUsed).root) =
        [t.accum]) ∧
    (∀ one,
      (∀ q, PC.Mem.cell q ∈ (PC.findMinimalTranslation fuel' (PC.ofHeap s.heap) r one true nameBlk
            s.nilUsed s.errUsed).frees ↔
          PC.Reach (PC.ofHeap s.heap) r q ∧
          ¬ PC.Reach (PC.findMinimalTranslation fuel' (PC.ofHeap s.heap) r one true nameBlk
              s.nilUsed s.errUsed).heap
            (PC.findMinimalTranslation fuel' (PC.ofHeap s.heap) r one true nameBlk
              s.nilUsed s.errUsed).root q ∧
          PC.isNE (PC.ofHeap s.heap) q = false) ∧
      (PC.findMinimalTranslation fuel' (PC.ofHeap s.heap) r one true nameBlk
        s.nilUsed s.errUsed).frees.Nodup)

/-- the cost-flag parse for a grammar with the decidable hypotheses `mpWF`, `symsInRange`, no
cycle (`accepted_cost_parse` below: every accepted grammar has them): if the all-parses run of the
model of `make_parse` ends with `.ok`, its final state `s` and result cell `r` satisfy `WfHeap` and
`CostParseSpec` -/
theorem makeParse_cost_parse {g : Grammar} {la : Nat} {w : List Nat} {fuel : Nat}
    {res : MP.Result} (hg : g.mpWF = true) (hcyc : ¬ Cyclic g) (hsr : g.symsInRange = true)
    (hacc : (BS.buildPLC g la w).1 = none)
    (hm : MP.makeParse g (plSets g la w) (plTokNums w) false fuel = .ok res) :
    ∃ s r, MP.makeParseSt (MP.mkCtx g (plSets g la w) (plTokNums w) false) fuel = some s ∧
      s.bad = false ∧ s.result = some r ∧
      MP.exportTable s.heap r = some (res.tab, res.root) ∧
      (∃ rk hd, PC.WfHeap (PC.ofHeap s.heap) rk hd ∧ r < (PC.ofHeap s.heap).size ∧ hd r = r) ∧
      CostParseSpec g w s r := by
  obtain ⟨s, r, h1, h2, h3, hx⟩ := makeParse_ok_state hm
  obtain ⟨rk, hd, wf, hr, hdr⟩ := makeParse_heap_wf hg hcyc hsr hacc h1 h2 h3
  refine ⟨s, r, h1, h2, h3, hx, ⟨rk, hd, wf, hr, hdr⟩, ?_⟩
  intro free nameBlk fuel' f hf hfu
  have hsz : (PC.ofHeap s.heap).size = s.heap.size := MP.size_ofHeap _
  have hf' : (PC.ofHeap s.heap).size ≤ fuel' := by rw [hsz]; exact hf
  have hfu' : (PC.ofHeap s.heap).size ≤ f := by rw [hsz]; exact hfu
  -- the forest of the heap is the forest of the exported table
  have hx' : MP.exportTable (PC.toHeap (PC.ofHeap s.heap)) r = some (res.tab, res.root) := by
    rw [toHeap_ofHeap]; exact hx
  have hun : unfoldAt res.tab res.root = PC.unfoldC (PC.ofHeap s.heap) f r := by
    rw [PC.pruneC_unfold_is_export wf hr hx']
    have hrk := wf.rk_lt r hr
    exact PC.unfoldWith_indep _ wf (rk r) r (Nat.le_refl _) hr _ _ hrk (by omega)
  refine ⟨fun one => PC.pruneC_fuel wf hr hdr hf' one free nameBlk _ _, ?_,
    PC.pruneC_minimal_all wf hr hdr hf' free nameBlk _ _ f hfu',
    PC.pruneC_minimal_one wf hr hdr hf' free nameBlk _ _ f hfu',
    fun one => ⟨PC.pruneC_frees wf hr hdr hf' one nameBlk _ _, PC.pruneC_frees_nodup one nameBlk _ _⟩⟩
  rw [← hun]
  exact (makeParse_all_sound hg hacc hm).2

/-- **C04 for the models, end to end.**  For a grammar the definition functions accept, user
tokens, a sentence `w`, lookahead level 0 or 1: if the model of `make_parse`, run in all-parses
mode (what the cost flag makes the C code do) on the parse list of the model of `build_pl`, ends
with the outcome `.ok` — final machine state `s`, result cell `r` —, then the tree memory is a
`WfHeap` and `find_minimal_translation (r)` (model) behaves as `CostParseSpec` says: it denotes
exactly the trees of minimal total cost *among the trees the forest of `make_parse` denotes*
(accumulated cost fields; the first such tree for one parse), every tree of that forest is the
translation of a derivation of `w $eof`, and the freed cells are exactly those that became
unreachable, each once.

Minimality is relative to the forest `make_parse` built, which can miss translations (finding D9,
`makeParse_forest_incomplete`).  That the all-parses run ends with `.ok` is a hypothesis: totality
is proved for one-parse mode only (`makeParse_one_total`). -/
theorem accepted_cost_parse {raw : RawGrammar} {g : Grammar} {la : Nat} {w : List Nat} {fuel : Nat}
    {res : MP.Result} (h : readGrammar raw = .ok g) (htok : UserTokens g w) (hla : la ≤ 1)
    (hs : Sentence g w)
    (hm : MP.makeParse g (plSets g la w) (plTokNums w) false fuel = .ok res) :
    ∃ s r, MP.makeParseSt (MP.mkCtx g (plSets g la w) (plTokNums w) false) fuel = some s ∧
      s.bad = false ∧ s.result = some r ∧
      MP.exportTable s.heap r = some (res.tab, res.root) ∧
      (∃ rk hd, PC.WfHeap (PC.ofHeap s.heap) rk hd ∧ r < (PC.ofHeap s.heap).size ∧ hd r = r) ∧
      CostParseSpec g w s r := by
  have hwf := readGrammar_wf h
  have hsr := readGrammar_symsInRange h
  have hacc : (BS.buildPLC g la w).1 = none := by
    have := (BS.acceptsC_iff_sentence hwf hsr htok hla).mpr hs
    unfold BS.acceptsC at this
    exact Option.isNone_iff_eq_none.mp this
  exact makeParse_cost_parse (readGrammar_mpWF h) (readGrammar_semOK h).1 hsr hacc hm

/-- the same from the machine state: a finished run of all-parses mode (`s`, not `bad`, result
cell `r`) — the outcome is then `.ok` (`makeParse_all_ok_of_state`) -/
theorem makeParse_cost_parse_state {g : Grammar} {la : Nat} {w : List Nat} {fuel : Nat} {s : MP.St}
    {r : Nat} (hg : g.mpWF = true) (hcyc : ¬ Cyclic g) (hsr : g.symsInRange = true)
    (hacc : (BS.buildPLC g la w).1 = none)
    (hm : MP.makeParseSt (MP.mkCtx g (plSets g la w) (plTokNums w) false) fuel = some s)
    (hb : s.bad = false) (hres : s.result = some r) :
    (∃ rk hd, PC.WfHeap (PC.ofHeap s.heap) rk hd ∧ r < (PC.ofHeap s.heap).size ∧ hd r = r) ∧
    CostParseSpec g w s r := by
  obtain ⟨res, hok⟩ := makeParse_all_ok_of_state hg hcyc hsr hacc hm hb hres
  obtain ⟨s', r', h1, _, h3, _, h5, h6⟩ := makeParse_cost_parse hg hcyc hsr hacc hok
  rw [hm] at h1; injection h1 with h1; subst h1
  rw [hres] at h3; injection h3 with h3; subst h3
  exact ⟨h5, h6⟩

/-- **the same on what the harness prints** (the two exported node tables, `denoteTab` = the
function the judge uses): `res.tab`, `res.root` the table of the forest `make_parse` built, `tabO`,
`rO` the table of the tree `find_minimal_translation` returns.  The output table denotes exactly the
trees of `prune` (`Spec/Forest.lean`, C04) applied to the unfolded input table — the same list for
one parse —, every tree the input table denotes is the translation of a derivation, and the
exporter succeeds on the input (no cycle). -/
theorem makeParse_cost_parse_tables {g : Grammar} {la : Nat} {w : List Nat} {fuel : Nat}
    {res : MP.Result} (hg : g.mpWF = true) (hcyc : ¬ Cyclic g) (hsr : g.symsInRange = true)
    (hacc : (BS.buildPLC g la w).1 = none)
    (hm : MP.makeParse g (plSets g la w) (plTokNums w) false fuel = .ok res) :
    ∃ s r, MP.makeParseSt (MP.mkCtx g (plSets g la w) (plTokNums w) false) fuel = some s ∧
      s.result = some r ∧
      (∀ t ∈ (denoteTab res.tab).getD res.root [],
        ∃ pt, PT.IsDerivation g (w ++ [g.eofT]) pt ∧ translate g pt = t) ∧
      ∀ (one free : Bool) (nameBlk : Nat → Nat) (fuel' : Nat), s.heap.size ≤ fuel' →
        ∀ (tabO : Array NodeRec) (rO : Nat),
          MP.exportTable (PC.toHeap (PC.findMinimalTranslation fuel' (PC.ofHeap s.heap) r one free nameBlk
              s.nilUsed s.errUsed).heap)
            (PC.findMinimalTranslation fuel' (PC.ofHeap s.heap) r one free nameBlk
              s.nilUsed s.errUsed).root = some (tabO, rO) →
          (∀ t, t ∈ (denoteTab tabO).getD rO [] ↔
            t ∈ denote (prune (!one) (unfoldAt res.tab res.root)).1) ∧
          (one = true → (denoteTab tabO).getD rO [] =
            denote (prune (!one) (unfoldAt res.tab res.root)).1) := by
  obtain ⟨s, r, h1, h2, h3, hx⟩ := makeParse_ok_state hm
  obtain ⟨rk, hd, wf, hr, hdr⟩ := makeParse_heap_wf hg hcyc hsr hacc h1 h2 h3
  refine ⟨s, r, h1, h3, (makeParse_all_sound hg hacc hm).1, ?_⟩
  intro one free nameBlk fuel' hf tabO rO ho
  have hx' : MP.exportTable (PC.toHeap (PC.ofHeap s.heap)) r = some (res.tab, res.root) := by
    rw [toHeap_ofHeap]; exact hx
  exact PC.pruneC_denote_tables wf hr hdr (by rw [MP.size_ofHeap]; exact hf) one free nameBlk _ _ hx' ho

/-! ## non-vacuity -/

/-- D9a, all parses: the tree memory of the run `D9a.run_all` is a `WfHeap` -/
example : ∃ s r, MP.makeParseSt (MP.mkCtx D9a.g D9a.sets D9a.plToks false) 100 = some s ∧
    s.result = some r ∧
    ∃ rk hd, PC.WfHeap (PC.ofHeap s.heap) rk hd ∧ r < (PC.ofHeap s.heap).size ∧ hd r = r := by
  obtain ⟨s, r, h1, h2, h3, _⟩ := makeParse_ok_state D9a.run_all
  have h : plSets D9a.g 1 D9a.w = D9a.sets ∧ plTokNums D9a.w = D9a.plToks := by decide
  refine ⟨s, r, h1, h3, ?_⟩
  rw [← h.1, ← h.2] at h1
  exact makeParse_heap_wf (la := 1) (by decide)
    (fun hc => loopSet_ne_nil_of_cyclic D9a.g hc (by decide)) (by decide) (by decide) h1 h2 h3

/-- D9a, one parse -/
example : ∃ s r, MP.makeParseSt (MP.mkCtx D9a.g D9a.sets D9a.plToks true) 100 = some s ∧
    s.result = some r ∧
    ∃ rk hd, PC.WfHeap (PC.ofHeap s.heap) rk hd ∧ r < (PC.ofHeap s.heap).size ∧ hd r = r := by
  obtain ⟨s, r, h1, h2, h3, _⟩ := makeParse_ok_state D9a.run_one
  have h : plSets D9a.g 1 D9a.w = D9a.sets ∧ plTokNums D9a.w = D9a.plToks := by decide
  refine ⟨s, r, h1, h3, ?_⟩
  rw [← h.1, ← h.2] at h1
  exact makeParse_heap_wf (la := 1) (by decide)
    (fun hc => loopSet_ne_nil_of_cyclic D9a.g hc (by decide)) (by decide) (by decide) h1 h2 h3

/-- D9b, all parses (ALT chains, a reused abstract node, a copied state) -/
example : ∃ s r, MP.makeParseSt (MP.mkCtx D9b.g D9b.sets D9b.plToks false) 100 = some s ∧
    s.result = some r ∧
    ∃ rk hd, PC.WfHeap (PC.ofHeap s.heap) rk hd ∧ r < (PC.ofHeap s.heap).size ∧ hd r = r := by
  obtain ⟨s, r, h1, h2, h3, _⟩ := makeParse_ok_state D9b.run_all
  have h : plSets D9b.g 1 D9b.w = D9b.sets ∧ plTokNums D9b.w = D9b.plToks := by decide
  refine ⟨s, r, h1, h3, ?_⟩
  rw [← h.1, ← h.2] at h1
  exact makeParse_heap_wf (la := 1) (by decide)
    (fun hc => loopSet_ne_nil_of_cyclic D9b.g hc (by decide)) (by decide) (by decide) h1 h2 h3

/-- the grammar of D9b with costs (`PC.ExMP.g`) on `c a a a`: the tree memory `make_parse` leaves
behind is `PC.ExMP.H` with the result cell 5 (`PC.ExMP.H_is_make_parse`); `PC.ExMP.wf` proves
`WfHeap` for it by evaluating the checker — here it follows from the theorem, together with the
whole specification of the cost-flag parse -/
example : ∃ s, MP.makeParseSt (MP.mkCtx PC.ExMP.g D9b.sets D9b.plToks false) 100 = some s ∧
    PC.ofHeap s.heap = PC.ExMP.H ∧ s.result = some 5 ∧
    (∃ rk hd, PC.WfHeap PC.ExMP.H rk hd ∧ 5 < PC.ExMP.H.size ∧ hd 5 = 5) ∧
    CostParseSpec PC.ExMP.g D9b.w s 5 := by
  have h : plSets PC.ExMP.g 1 D9b.w = D9b.sets ∧ plTokNums D9b.w = D9b.plToks := by decide
  have hok : (MP.makeParse PC.ExMP.g D9b.sets D9b.plToks false 100 matches .ok _) = true := by decide
  cases hres : MP.makeParse PC.ExMP.g D9b.sets D9b.plToks false 100 with
  | ok res =>
    rw [← h.1, ← h.2] at hres
    obtain ⟨s, r, h1, _, h3, _, h5, h6⟩ := makeParse_cost_parse (la := 1) (by decide)
      (fun hc => loopSet_ne_nil_of_cyclic PC.ExMP.g hc (by decide)) (by decide) (by decide) hres
    rw [h.1, h.2] at h1
    obtain ⟨s', e1, e2, e3⟩ := PC.ExMP.H_is_make_parse
    rw [h1] at e1; injection e1 with e1; subst e1
    rw [h3] at e3; injection e3 with e3; subst e3
    rw [e2] at h5
    exact ⟨s, h1, e2, h3, h5, h6⟩
  | noParse => rw [hres] at hok; cases hok
  | outOfFuel => rw [hres] at hok; cases hok
  | undefinedBehaviour => rw [hres] at hok; cases hok
  | cyclic => rw [hres] at hok; cases hok

end Yaep
