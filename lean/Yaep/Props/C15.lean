import Yaep.Lemmas.Api
import Yaep.Props.C14
/-!
# C15: error code, return codes of `yaep_parse`, setters and defaults

`yaep_error_code` is 0 on a new object and afterwards the code of the most recent failing
call (`errorCode_is_last_failure`); `yaep_parse` returns 1 / 2 / 17 / 0 exactly in the
documented situations (`parseRc_eq_one_iff` … `parse_invalid_token_iff`); setters return the
previous value, new objects have the documented defaults, the lookahead level is clamped.
-/
namespace Yaep

/-! ## defaults and setters -/

/-- a new object: no grammar, error code 0, lookahead 1, one parse 1, cost 0, recovery 1,
recovery match 3, debug 0 -/
theorem new_object_defaults {s : List ObjState} {h : Nat} (hh : h < s.length) :
    (apiStep s (.create h)).2 = .unit ∧
      (objAt (apiStep s (.create h)).1 h).alive = true ∧
      (objAt (apiStep s (.create h)).1 h).defn = none ∧
      (objAt (apiStep s (.create h)).1 h).lastErr = 0 ∧
      (objAt (apiStep s (.create h)).1 h).st =
        { la := 1, debug := 0, one := 1, cost := 0, recov := 1, rmatch := 3 } := by
  have key : objAt (apiStep s (.create h)).1 h = { alive := true } :=
    objAt_apiStep_self (op := .create h) hh
  rw [key]
  exact ⟨rfl, rfl, rfl, rfl, rfl⟩

/-- `yaep_error_code` of a new object is 0 -/
theorem errcode_new_object (s : List ObjState) (h : Nat) :
    (apiStep (apiStep s (.create h)).1 (.errcode h)).2 = .code 0 := by
  show ApiRes.code (objAt (apiStep s (.create h)).1 h).lastErr = _
  by_cases hh : h < s.length
  · rw [(new_object_defaults hh).2.2.2.1]
  · rw [objAt_out_of_range (by rw [length_apiStep]; exact hh)]

example : (run tab3 [.create 1, .errcode 1, .set 1 .la 5, .set 1 .one 5, .set 1 .cost 5,
    .set 1 .recov 5, .set 1 .rmatch 5, .set 1 .debug 5]).2
    = [.unit, .code 0, .prev 1, .prev 1, .prev 0, .prev 1, .prev 3, .prev 0] := by decide

/-- every setter returns the previous value of its parameter -/
theorem setter_returns_previous (s : List ObjState) (h : Nat) (k : SetKind) (v : Int) :
    (apiStep s (.set h k v)).2 = .prev ((objAt s h).st.get k) := by
  show ApiRes.prev ((objAt s h).st.set k v).1 = _
  rw [set_fst]

/-- ... stores the new value (the lookahead level clamped, `storedValue`), and changes
nothing else in the object -/
theorem setter_stores {s : List ObjState} {h : Nat} (hh : h < s.length) (k : SetKind) (v : Int) :
    (objAt (apiStep s (.set h k v)).1 h).st.get k = storedValue k v ∧
      (∀ k', k' ≠ k → (objAt (apiStep s (.set h k v)).1 h).st.get k' = (objAt s h).st.get k') ∧
      (objAt (apiStep s (.set h k v)).1 h).defn = (objAt s h).defn ∧
      (objAt (apiStep s (.set h k v)).1 h).lastErr = (objAt s h).lastErr ∧
      (objAt (apiStep s (.set h k v)).1 h).alive = (objAt s h).alive := by
  have key : objAt (apiStep s (.set h k v)).1 h =
      { objAt s h with st := ((objAt s h).st.set k v).2 } :=
    objAt_apiStep_self (op := .set h k v) hh
  rw [key]
  exact ⟨set_snd_get _ k v, fun k' hne => set_snd_get_ne _ hne v, rfl, rfl, rfl⟩

theorem setter_other_fields_unchanged (st : Settings) {k k' : SetKind} (hne : k' ≠ k) (v : Int) :
    (st.set k v).2.get k' = st.get k' := set_snd_get_ne st hne v

/-- setting twice returns the value stored by the first call -/
theorem setter_twice {s : List ObjState} {h : Nat} (hh : h < s.length) (k : SetKind) (v w : Int) :
    (apiStep (apiStep s (.set h k v)).1 (.set h k w)).2 = .prev (storedValue k v) := by
  rw [setter_returns_previous, (setter_stores hh k v).1]

/-- the lookahead level is clamped to `0..2` -/
theorem la_clamped (st : Settings) (v : Int) :
    0 ≤ (st.set .la v).2.la ∧ (st.set .la v).2.la ≤ 2 := by
  show 0 ≤ clampLa v ∧ clampLa v ≤ 2
  unfold clampLa
  split
  · exact ⟨by decide, by decide⟩
  · split
    · exact ⟨by decide, by decide⟩
    · omega

theorem la_in_range_id (st : Settings) {v : Int} (h0 : 0 ≤ v) (h2 : v ≤ 2) :
    (st.set .la v).2.la = v := by
  show clampLa v = v
  unfold clampLa
  rw [if_neg (by omega), if_neg (by omega)]

theorem la_clamp_low (st : Settings) {v : Int} (h : v < 0) : (st.set .la v).2.la = 0 := by
  show clampLa v = 0
  unfold clampLa
  rw [if_pos h]

theorem la_clamp_high (st : Settings) {v : Int} (h : 2 < v) : (st.set .la v).2.la = 2 := by
  show clampLa v = 2
  unfold clampLa
  rw [if_neg (by omega), if_pos h]

example : (run tab3 [.create 0, .set 0 .la (-3), .set 0 .la 9, .set 0 .la 2, .set 0 .la 1,
    .set 0 .rmatch (-3), .set 0 .rmatch 0]).2
    = [.unit, .prev 1, .prev 0, .prev 2, .prev 2, .prev 3, .prev (-3)] := by decide
example : ((({} : Settings).set .la 7).2.set .cost 1).2
    = { la := 2, debug := 0, one := 1, cost := 1, recov := 1, rmatch := 3 } := by decide

/-! ## the error code -/

/-- a failing call (non-zero return code) sets the error code -/
theorem errcode_after_failing_call {s : List ObjState} {op : ApiOp} {c : Int}
    (hh : op.handle < s.length) (hrc : (apiStep s op).2 = .rc c) (hc : c ≠ 0) :
    (apiStep (apiStep s op).1 (.errcode op.handle)).2 = .code c := by
  show ApiRes.code (objAt (apiStep s op).1 op.handle).lastErr = _
  rw [apiStep_snd] at hrc
  rw [objAt_apiStep_self hh]
  have hz : ∀ h, op ≠ .define h (.error 0) := by
    intro h hop
    subst hop
    simp only [objStep, ObjState.define, ApiRes.rc.injEq] at hrc
    exact hc (by simpa using hrc.symm)
  rw [objStep_lastErr _ hz, hrc]
  cases op <;> simp [objStep, lastFailure, hc] at hrc ⊢

/-- a successful call (return code 0) leaves it alone -/
theorem errcode_after_successful_call {s : List ObjState} {op : ApiOp}
    (hh : op.handle < s.length) (hrc : (apiStep s op).2 = .rc 0)
    (hz : ∀ h, op ≠ .define h (.error 0)) :
    (apiStep (apiStep s op).1 (.errcode op.handle)).2 = (apiStep s (.errcode op.handle)).2 := by
  show ApiRes.code (objAt (apiStep s op).1 op.handle).lastErr = ApiRes.code _
  rw [apiStep_snd] at hrc
  rw [objAt_apiStep_self hh, objStep_lastErr _ hz, hrc]
  cases op <;> simp [objStep, lastFailure] at hrc ⊢

/-- `yaep_error_code` returns the code of the most recent failing call on the object since
its creation (`lastFailure` over the object's own history), whatever happened to other
objects in between -/
theorem errorCode_is_last_failure {s : List ObjState} {h : Nat} (hh : h < s.length)
    {ops : List ApiOp} (hz : NoZeroError ops) :
    (apiStep (run s ops).1 (.errcode h)).2 =
      .code (lastFailure (objAt s h).lastErr
        ((ops.filter (·.handle = h)).zip (resultsFor h ops (run s ops).2))) := by
  show ApiRes.code (objAt (run s ops).1 h).lastErr = _
  obtain ⟨h1, h2⟩ := run_obj hh ops
  rw [h1, h2, runObj_lastErr]
  intro op hop
  exact hz op (List.mem_filter.mp hop).1

/-- in particular, starting with the creation of the object -/
theorem errorCode_since_create {s : List ObjState} {h : Nat} (hh : h < s.length)
    {ops : List ApiOp} (hz : NoZeroError ops) :
    (apiStep (run s (.create h :: ops)).1 (.errcode h)).2 =
      .code (lastFailure 0
        ((ops.filter (·.handle = h)).zip (resultsFor h ops (run (apiStep s (.create h)).1 ops).2))) := by
  show (apiStep (run (apiStep s (.create h)).1 ops).1 (.errcode h)).2 = _
  rw [errorCode_is_last_failure (by rw [length_apiStep]; exact hh) hz,
    (new_object_defaults hh).2.2.2.1]

example : NoZeroError opsMixed := by
  intro op hop h heq
  subst heq
  revert hop
  simp [opsMixed]
example : (apiStep (run tab3 opsMixed).1 (.errcode 0)).2 = .code 17 := by decide
example : lastFailure 0 ((opsMixed.filter (·.handle = 0)).zip
    (resultsFor 0 opsMixed (run tab3 opsMixed).2)) = 17 := by decide
example : (run tab3 [.create 0, .define 0 (.ok gApi), .parse 0 false false [5],
    .errcode 0, .parse 0 false false [97], .errcode 0, .parse 0 true true [], .errcode 0,
    .create 0, .errcode 0]).2
    = [.unit, .rc 0, .rc 17, .code 17, .rc 0, .code 17, .rc 1, .code 1, .unit, .code 0] := by
  decide

/-! ## the return code of `yaep_parse` -/

/-- `yaep_parse` returns `parseRc` of the object's state -/
theorem parse_returns (s : List ObjState) (h : Nat) (an fg : Bool) (codes : List Int) :
    (apiStep s (.parse h an fg codes)).2 = .rc (parseRc (objAt s h) an fg codes) := rfl

/-- a token code is a declared terminal code iff `termNumOfCode` finds it; the terminal number
is the least index carrying the code -/
theorem termNumOfCode_some_iff {g : Grammar} {c : Int} {k : Nat} :
    termNumOfCode g c = some k ↔
      g.termCodes[k]? = some c ∧ ∀ j, j < k → g.termCodes[j]? ≠ some c := by
  unfold termNumOfCode
  rw [find?_range_eq_some]
  constructor
  · rintro ⟨h1, h2, h3⟩
    refine ⟨(getD_beq_iff h1).mp h2, fun j hj hx => ?_⟩
    have := h3 j hj
    rw [(getD_beq_iff (Nat.lt_trans hj h1)).mpr hx] at this
    cases this
  · rintro ⟨h1, h2⟩
    have hk : k < g.termCodes.length := (List.getElem?_eq_some_iff.mp h1).1
    refine ⟨hk, (getD_beq_iff hk).mpr h1, fun j hj => ?_⟩
    cases hb : (g.termCodes.getD j 0 == c) with
    | false => rfl
    | true => exact absurd ((getD_beq_iff (Nat.lt_trans hj hk)).mp hb) (h2 j hj)

theorem termNumOfCode_none_iff {g : Grammar} {c : Int} :
    termNumOfCode g c = none ↔ c ∉ g.termCodes := by
  unfold termNumOfCode
  rw [List.find?_eq_none]
  constructor
  · intro h hm
    obtain ⟨i, hi, heq⟩ := List.getElem_of_mem hm
    have h1 : g.termCodes[i]? = some c := by rw [List.getElem?_eq_getElem hi, heq]
    exact h i (List.mem_range.mpr hi) ((getD_beq_iff hi).mpr h1)
  · intro h i hi hb
    have hi' := List.mem_range.mp hi
    have := (getD_beq_iff hi').mp hb
    exact h (List.mem_of_getElem? this)

/-- the tokens read are the codes before the first negative one -/
theorem inputCodes_spec (codes : List Int) :
    ∃ rest, codes = inputCodes codes ++ rest ∧ (∀ c ∈ inputCodes codes, 0 ≤ c) ∧
      ∀ c, rest.head? = some c → c < 0 := by
  unfold inputCodes
  induction codes with
  | nil => exact ⟨[], rfl, fun _ h => (by cases h), fun _ h => (by cases h)⟩
  | cons a as ih =>
    by_cases ha : 0 ≤ a
    · obtain ⟨rest, h1, h2, h3⟩ := ih
      have : (a :: as).takeWhile (· ≥ 0) = a :: as.takeWhile (· ≥ 0) := by
        rw [List.takeWhile_cons, if_pos]; simpa using ha
      rw [this]
      refine ⟨rest, ?_, ?_, h3⟩
      · rw [List.cons_append, ← h1]
      · intro c hc
        rcases List.mem_cons.mp hc with rfl | hc
        · exact ha
        · exact h2 c hc
    · have : (a :: as).takeWhile (· ≥ 0) = [] := by
        rw [List.takeWhile_cons, if_neg]; simpa using ha
      rw [this]
      refine ⟨a :: as, rfl, fun _ h => (by cases h), ?_⟩
      intro c hc
      simp only [List.head?_cons, Option.some.injEq] at hc
      subst hc
      omega

/-- `YAEP_NO_MEMORY` (1): exactly for a NULL allocator with a non-NULL free -/
theorem parseRc_eq_one_iff (o : ObjState) (an fg : Bool) (codes : List Int) :
    parseRc o an fg codes = 1 ↔ (an = true ∧ fg = true) := by
  unfold parseRc
  cases an <;> cases fg <;> simp <;> (cases o.defn <;> simp <;> split <;> decide)

/-- `YAEP_UNDEFINED_OR_BAD_GRAMMAR` (2): exactly if (the allocator pair is fine and) no
grammar is defined -/
theorem parseRc_eq_two_iff (o : ObjState) (an fg : Bool) (codes : List Int) :
    parseRc o an fg codes = 2 ↔ (¬ (an = true ∧ fg = true) ∧ o.defn = none) := by
  unfold parseRc
  cases an <;> cases fg <;> simp <;> (cases o.defn <;> simp <;> split <;> decide)

/-- `YAEP_INVALID_TOKEN_CODE` (17): exactly if a grammar is defined and `read_token` delivers
a code that is not a declared terminal code -/
theorem parseRc_eq_seventeen_iff (o : ObjState) (an fg : Bool) (codes : List Int) :
    parseRc o an fg codes = 17 ↔
      (¬ (an = true ∧ fg = true) ∧ ∃ g, o.defn = some g ∧
        ∃ c ∈ inputCodes codes, termNumOfCode g c = none) := by
  unfold parseRc
  by_cases hb : (an && fg) = true
  · have hb' : an = true ∧ fg = true := by simpa using hb
    rw [if_pos hb]
    simp [hb']
  · have hb' : ¬ (an = true ∧ fg = true) := by simpa using hb
    rw [if_neg hb]
    cases hd : o.defn with
    | none => simp
    | some g =>
      simp only [hb', not_false_eq_true, Option.some.injEq, exists_eq_left', true_and]
      constructor
      · intro h
        split at h
        · rename_i hany
          obtain ⟨c, hc, hn⟩ := List.any_eq_true.mp hany
          exact ⟨c, hc, by simpa using hn⟩
        · cases h
      · rintro ⟨c, hc, hn⟩
        rw [if_pos]
        exact List.any_eq_true.mpr ⟨c, hc, by simp [hn]⟩

/-- 0 otherwise: a grammar is defined and every code read is a declared terminal code -/
theorem parseRc_eq_zero_iff (o : ObjState) (an fg : Bool) (codes : List Int) :
    parseRc o an fg codes = 0 ↔
      (¬ (an = true ∧ fg = true) ∧ ∃ g, o.defn = some g ∧
        ∀ c ∈ inputCodes codes, ∃ k, termNumOfCode g c = some k) := by
  unfold parseRc
  by_cases hb : (an && fg) = true
  · have hb' : an = true ∧ fg = true := by simpa using hb
    rw [if_pos hb]
    simp [hb']
  · have hb' : ¬ (an = true ∧ fg = true) := by simpa using hb
    rw [if_neg hb]
    cases hd : o.defn with
    | none => simp
    | some g =>
      simp only [hb', not_false_eq_true, Option.some.injEq, exists_eq_left', true_and]
      constructor
      · intro h c hc
        split at h
        · cases h
        · rename_i hany
          cases hk : termNumOfCode g c with
          | some k => exact ⟨k, rfl⟩
          | none => exact absurd (List.any_eq_true.mpr ⟨c, hc, by simp [hk]⟩) hany
      · intro h
        rw [if_neg]
        intro hany
        obtain ⟨c, hc, hn⟩ := List.any_eq_true.mp hany
        obtain ⟨k, hk⟩ := h c hc
        rw [hk] at hn
        cases hn

/-- there are no other return codes at this stage -/
theorem parseRc_range (o : ObjState) (an fg : Bool) (codes : List Int) :
    parseRc o an fg codes = 0 ∨ parseRc o an fg codes = 1 ∨ parseRc o an fg codes = 2 ∨
      parseRc o an fg codes = 17 := by
  unfold parseRc
  split
  · exact Or.inr (Or.inl rfl)
  · split
    · exact Or.inr (Or.inr (Or.inl rfl))
    · split
      · exact Or.inr (Or.inr (Or.inr rfl))
      · exact Or.inl rfl

/-- the invalid-token condition in terms of the declared codes: some code before the first
negative one is not among the grammar's terminal codes -/
theorem parse_invalid_token_iff {s : List ObjState} {h : Nat} {g : Grammar}
    (hd : (objAt s h).defn = some g) (codes : List Int) :
    (apiStep s (.parse h false false codes)).2 = .rc 17 ↔
      ∃ c ∈ inputCodes codes, 0 ≤ c ∧ c ∉ g.termCodes := by
  rw [parse_returns, ApiRes.rc.injEq, parseRc_eq_seventeen_iff]
  obtain ⟨_, _, hnn, _⟩ := inputCodes_spec codes
  constructor
  · rintro ⟨_, g', hg', c, hc, hn⟩
    rw [hd] at hg'
    simp only [Option.some.injEq] at hg'
    subst hg'
    exact ⟨c, hc, hnn c hc, termNumOfCode_none_iff.mp hn⟩
  · rintro ⟨c, hc, _, hn⟩
    exact ⟨by simp, g, hd, c, hc, termNumOfCode_none_iff.mpr hn⟩

example : termNumOfCode gApi 98 = some 3 := by decide
example : gApi.termCodes[3]? = some 98 ∧ ∀ j, j < 3 → gApi.termCodes[j]? ≠ some 98 :=
  termNumOfCode_some_iff.mp (by decide)
example : termNumOfCode gApi 5 = none := by decide
example : inputCodes [97, 98, -1, 5, 97] = [97, 98] := by decide
example : parseRc { defn := some gApi } false false [97, 98, -1, 5] = 0 := by decide
example : parseRc { defn := some gApi } false false [97, 5, -1] = 17 := by decide
example : parseRc {} false false [97] = 2 := by decide
example : parseRc { defn := some gApi } true true [97] = 1 := by decide
example : parseRc { defn := some gApi } true false [97] = 0 := by decide
example : ∃ c ∈ inputCodes [97, 5, -1], 0 ≤ c ∧ c ∉ gApi.termCodes :=
  (parse_invalid_token_iff (s := [{ defn := some gApi }]) (h := 0) rfl [97, 5, -1]).mp
    (by decide)

end Yaep
