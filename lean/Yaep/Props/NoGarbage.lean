import Yaep.Lemmas.NoGarbageMain
import Yaep.Lemmas.NoGarbageCost
import Yaep.Lemmas.NoGarbageCostMain
import Yaep.Lemmas.NoGarbageTest
import Yaep.Props.HeapWf
import Yaep.Props.MakeParseTotal
/-!
# No garbage (C13 for the models): every tree cell `make_parse` allocates is reachable from the
result or was handed back, and `yaep_free_tree` releases the tree exactly once

* **`makeParse_no_garbage`** — at the end of a finished run of the step model of `make_parse` (both
  modes), a cell of the tree memory is reachable from the result cell (along the references
  `yaep_free_tree` and the exporter follow: children up to the first NULL, alternative and `next`
  of an ALT cell) **iff** it is not the C-stack cell `rootId`, not the NIL node when
  `nilUsed = false` and not the ERROR node when `errUsed = false` — exactly the two blocks the C
  code hands back to `parse_free` at the end of `make_parse`.
  `makeParse_no_garbage_any`: the "no leak" direction for *any* parse list and any grammar with
  well-formed translations (the invariant `NG.Inv` is purely structural).
* **`accepted_tree_released`** (`makeParse_tree_released`) — C13 for the models, both modes: the
  blocks the parse requested (`allocSeq`) minus the unused NIL / ERROR node handed back are exactly
  the blocks the model of `yaep_free_tree` releases on the exported table, each exactly once
  (`NG.Released`: a permutation of the live cells through `NG.cellOf`; one name block per named rule;
  `termcb` once per TERM cell; the counts agree when the names tell the rules apart).
* **`accepted_cost_tree_released`** (`makeParse_cost_tree_released`, `accepted_cost_cells`,
  `makeParse_cost_cells`) — the same with the cost flag: every cell is released exactly once, by
  `find_minimal_translation` (`PC.findMinimalTranslation`), at the end of `make_parse`, or by
  `yaep_free_tree` on the exported table of the pruned tree; every name block exactly once
  (`NG.CostReleased`, `NG.CostCellsSpec`).

Lemmas: `Yaep/Lemmas/NoGarbage*.lean` (`Base`: references and reachability; `Inv`: the invariant
and the primitive moves; `Step`, `Cand`: the main loop; `Final`: the finished run; `Export`: the
exporter numbers every cell once; `Free`: `free_tree` on the table of a `WfHeap`; `Count`: the
requests; `Main`: composition; `Cost`, `Pruned`, `PrunedExport`, `CostMain`: the cost flag — the
reachable part of the heap `find_minimal_translation` leaves behind is a `WfHeap`; `Test`:
evaluation tests of the conjecture and of the invariant).
-/
namespace Yaep
open MP

/-- **no leak, any parse list**: the run of the model of `make_parse` on an arbitrary parse list
(`sets`, `plToks`), in either mode, for a grammar whose translations are well formed
(`Grammar.translWF`): when it ends, every cell of the tree memory other than the C-stack cell of
`result`, an unused NIL and an unused ERROR node is reachable from the result cell; an unused
NIL / ERROR node is not reachable -/
theorem makeParse_no_garbage_any {g : Grammar} {sets : Array (Array Item)} {plToks : Array Int}
    {one : Bool} {fuel : Nat} {s : MP.St} {r : Nat} (hg : g.translWF = true)
    (hm : MP.makeParseSt (MP.mkCtx g sets plToks one) fuel = some s) (hres : s.result = some r) :
    (∀ i, i < s.heap.size → i ≠ MP.rootId → (i = MP.nilId → s.nilUsed = true) →
      (i = MP.errId → s.errUsed = true) → PC.Reach (PC.ofHeap s.heap) r i) ∧
    (s.nilUsed = false → ¬ PC.Reach (PC.ofHeap s.heap) r MP.nilId) ∧
    (s.errUsed = false → ¬ PC.Reach (PC.ofHeap s.heap) r MP.errId) := by
  obtain ⟨hi, hst⟩ := NG.makeParseSt_inv (NG.cok_mkCtx hg sets plToks one) hm
  exact NG.no_garbage_of_inv hi hst hres

/-- **no garbage** (hypotheses as in `makeParse_heap_wf`): the cells reachable from the result cell
are exactly the cells of the heap other than `rootId`, the unused NIL and the unused ERROR node -/
theorem makeParse_no_garbage {g : Grammar} {la : Nat} {w : List Nat} {one : Bool} {fuel : Nat}
    {s : MP.St} {r : Nat} (hg : g.mpWF = true) (hcyc : ¬ Cyclic g) (hsr : g.symsInRange = true)
    (hacc : (BS.buildPLC g la w).1 = none)
    (hm : MP.makeParseSt (MP.mkCtx g (plSets g la w) (plTokNums w) one) fuel = some s)
    (hb : s.bad = false) (hres : s.result = some r) (i : Nat) :
    PC.Reach (PC.ofHeap s.heap) r i ↔
      i < s.heap.size ∧ i ≠ MP.rootId ∧ (i = MP.nilId → s.nilUsed = true) ∧
        (i = MP.errId → s.errUsed = true) := by
  have htw : g.translWF = true := (MP.grOK_of_mpWF hg).twf
  obtain ⟨hi, hst⟩ := NG.makeParseSt_inv (NG.cok_mkCtx htw _ _ one) hm
  obtain ⟨h1, h2, h3⟩ := NG.no_garbage_of_inv hi hst hres
  obtain ⟨rk, hd, wf, hr, _⟩ := makeParse_heap_wf hg hcyc hsr hacc hm hb hres
  have hi' : NG.Inv (MP.mkCtx g (plSets g la w) (plTokNums w) one) s.heap s.states [] s.nilUsed
      s.errUsed s.namedRules s.nameAfter := by
    have := hi; unfold NG.NGInv at this; rw [hst] at this; exact this
  constructor
  · intro hreach
    have hlt := (NG.wf_reach wf hreach hr).1
    rw [MP.size_ofHeap] at hlt
    refine ⟨hlt, ?_, ?_, ?_⟩
    · intro e; subst e
      exact NG.root_not_reachable wf hi'.hok (NG.allFull_of_inv hi') hres hreach
    · intro e; subst e
      cases hn : s.nilUsed with
      | true => rfl
      | false => exact absurd hreach (h2 hn)
    · intro e; subst e
      cases hn : s.errUsed with
      | true => rfl
      | false => exact absurd hreach (h3 hn)
  · rintro ⟨a1, a2, a3, a4⟩
    exact h1 i a1 a2 a3 a4

/-! ## the blocks of a parse and what `yaep_free_tree` releases (C13 for the models) -/

/-- what `.ok res` copies from the final machine state -/
theorem ng_makeParse_ok_fields {g : Grammar} {sets : Array (Array Item)} {plToks : Array Int} {one : Bool}
    {fuel : Nat} {res : MP.Result} {s : MP.St}
    (hm : MP.makeParse g sets plToks one fuel = .ok res)
    (hs : MP.makeParseSt (MP.mkCtx g sets plToks one) fuel = some s) :
    res.allocs = MP.allocSeq s ∧ res.nilUsed = s.nilUsed ∧ res.errUsed = s.errUsed ∧
      res.heapSize = s.heap.size := by
  unfold MP.makeParseSt at hs
  simp only [MP.makeParse] at hm
  split at hm
  · cases hm
  · rename_i s0 hi
    rw [hi] at hs
    simp only at hs
    rw [hs] at hm
    simp only at hm
    split at hm
    · cases hm
    · split at hm
      · cases hm
      · split at hm
        · cases hm
        · injection hm with hm
          subst hm
          exact ⟨rfl, rfl, rfl, rfl⟩

/-- **C13 for the models, from a finished parse** (hypotheses as in `makeParse_heap_wf`, either
mode): let the model of `make_parse` end with `.ok res`, final machine state `s`, result cell `r`.
Then there is a map `cells` from the entries of the exported table `res.tab` to the cells of the
tree memory (`cells[res.root] = r`, entry `k` is the record of cell `cells[k]`: `MP.RepAt`) such
that `NG.Released` holds of what the model of `yaep_free_tree` does to the table:

* no block is released twice;
* through `NG.cellOf` (entry `k` ↦ cell `cells[k]`; cell `p` of the chain of ALT entry `k` ↦ the
  `p`-th cell of the chain that starts at `cells[k]`) the node and ALT blocks released are a
  **permutation of `NG.liveCells s`**: all cells other than the C-stack cell `rootId` and the unused
  NIL / ERROR node (`NG.handedBack s`, the two blocks `make_parse` itself hands to `parse_free`);
* the name blocks released are the names of the rules in `s.namedRules` (one name block per *name*
  in the model of `free_tree`, one per *rule* in C);
* `termcb` is called once per TERM cell;
* `allocSeq s` (`= res.allocs`, the `parse_alloc` requests in order) has one request per live cell,
  one per cell handed back and one per named rule; when the abstract-node names tell the rules
  apart (`NG.DistinctNames`) the number of requests is the number of blocks released by
  `yaep_free_tree` plus the number handed back during the parse: nothing stays unreleased. -/
theorem makeParse_tree_released {g : Grammar} {la : Nat} {w : List Nat} {one : Bool} {fuel : Nat}
    {res : MP.Result} (hg : g.mpWF = true) (hcyc : ¬ Cyclic g) (hsr : g.symsInRange = true)
    (hacc : (BS.buildPLC g la w).1 = none)
    (hm : MP.makeParse g (plSets g la w) (plTokNums w) one fuel = .ok res) :
    ∃ s r cells, MP.makeParseSt (MP.mkCtx g (plSets g la w) (plTokNums w) one) fuel = some s ∧
      s.bad = false ∧ s.result = some r ∧
      MP.exportTable s.heap r = some (res.tab, res.root) ∧
      res.allocs = MP.allocSeq s ∧ res.nilUsed = s.nilUsed ∧ res.errUsed = s.errUsed ∧
      cells.length = res.tab.size ∧ cells.getD res.root 0 = r ∧
      (∀ id, id < res.tab.size → MP.RepAt s.heap res.tab cells id) ∧
      NG.Released (MP.mkCtx g (plSets g la w) (plTokNums w) one) s cells res.tab res.root := by
  obtain ⟨s, r, h1, h2, h3, hx⟩ := makeParse_ok_state hm
  obtain ⟨rk, hd, wf, hr, hdr⟩ := makeParse_heap_wf hg hcyc hsr hacc h1 h2 h3
  have htw : g.translWF = true := (MP.grOK_of_mpWF hg).twf
  obtain ⟨hi, hst⟩ := NG.makeParseSt_inv (NG.cok_mkCtx htw _ _ one) h1
  obtain ⟨cells, c1, c2, c3, c4⟩ := NG.released_of_inv hi hst h3 wf hr hdr hx
  obtain ⟨f1, f2, f3, _⟩ := ng_makeParse_ok_fields hm h1
  exact ⟨s, r, cells, h1, h2, h3, hx, f1, f2, f3, c1, c2, c3, c4⟩

/-- **C13 for the models, end to end**: for a grammar the definition functions accept, user tokens,
a sentence `w`, lookahead level 0 or 1, either mode (`one`), and enough fuel (`MP.mpFuel` for one
parse, `MP.mpAllFuel` for all parses — both depend only on the grammar and the length of the
input): the model of `make_parse` ends with `.ok res`, and `yaep_free_tree` (model) on the exported
table releases exactly the blocks of the parse that were not handed back, each exactly once
(`NG.Released`, see `makeParse_tree_released`) -/
theorem accepted_tree_released {raw : RawGrammar} {g : Grammar} {la : Nat} {w : List Nat} {one : Bool}
    {fuel : Nat} (h : readGrammar raw = .ok g) (htok : UserTokens g w) (hla : la ≤ 1)
    (hs : Sentence g w)
    (hfuel : (if one then MP.mpFuel g (w.length + 1) else MP.mpAllFuel g (w.length + 1)) ≤ fuel) :
    ∃ res s r cells, MP.makeParse g (plSets g la w) (plTokNums w) one fuel = .ok res ∧
      MP.makeParseSt (MP.mkCtx g (plSets g la w) (plTokNums w) one) fuel = some s ∧
      s.bad = false ∧ s.result = some r ∧
      MP.exportTable s.heap r = some (res.tab, res.root) ∧
      res.allocs = MP.allocSeq s ∧ res.nilUsed = s.nilUsed ∧ res.errUsed = s.errUsed ∧
      cells.length = res.tab.size ∧ cells.getD res.root 0 = r ∧
      (∀ id, id < res.tab.size → MP.RepAt s.heap res.tab cells id) ∧
      NG.Released (MP.mkCtx g (plSets g la w) (plTokNums w) one) s cells res.tab res.root := by
  have hwf := readGrammar_wf h
  have hsr := readGrammar_symsInRange h
  have hcyc := (readGrammar_semOK h).1
  have hg := readGrammar_mpWF h
  have hacc : (BS.buildPLC g la w).1 = none := by
    have := (BS.acceptsC_iff_sentence hwf hsr htok hla).mpr hs
    unfold BS.acceptsC at this
    exact Option.isNone_iff_eq_none.mp this
  have hres : ∃ res, MP.makeParse g (plSets g la w) (plTokNums w) one fuel = .ok res := by
    cases one with
    | true => exact makeParse_one_total hwf hg hcyc hsr hacc (by simpa using hfuel)
    | false => exact makeParse_all_total hwf hg hcyc hsr hacc (by simpa using hfuel)
  obtain ⟨res, hm⟩ := hres
  obtain ⟨s, r, cells, a⟩ := makeParse_tree_released hg hcyc hsr hacc hm
  exact ⟨res, s, r, cells, hm, a⟩

/-! ## the cost flag: `find_minimal_translation` on the tree memory of `make_parse` -/

/-- what `find_minimal_translation` (model, with `parse_free`) and the end of `make_parse` do with
the cells of the tree memory of the finished all-parses run `s` (result cell `r`):
`R = PC.findMinimalTranslation fuel' (ofHeap s.heap) r onep true nameBlk s.nilUsed s.errUsed`.

* `R.frees` has no duplicate (no block is handed to `parse_free` twice);
* every cell other than the C-stack cell `rootId` is **exactly one** of: reachable from the new root
  in the final heap (it stays in the tree); handed to `parse_free` by `find_minimal_translation`
  (`Mem.cell i ∈ R.frees`); the NIL / ERROR node handed back at the end of `make_parse` because its
  `used` flag is off (`NG.handedBackAfter R`);
* nothing else is released or kept: the three sets contain only such cells. -/
def _root_.Yaep.NG.CostCellsSpec (s : MP.St) (r : Nat) (R : PC.Result) : Prop :=
  R.frees.Nodup ∧
  (∀ i, i < s.heap.size → i ≠ MP.rootId →
    (PC.Reach R.heap R.root i ∧ PC.Mem.cell i ∉ R.frees ∧ i ∉ NG.handedBackAfter R) ∨
    (¬ PC.Reach R.heap R.root i ∧ PC.Mem.cell i ∈ R.frees ∧ i ∉ NG.handedBackAfter R) ∨
    (¬ PC.Reach R.heap R.root i ∧ PC.Mem.cell i ∉ R.frees ∧ i ∈ NG.handedBackAfter R)) ∧
  (∀ i, (PC.Reach R.heap R.root i ∨ PC.Mem.cell i ∈ R.frees ∨ i ∈ NG.handedBackAfter R) →
    i < s.heap.size ∧ i ≠ MP.rootId)

/-- **the cost flag, cells** (hypotheses as in `makeParse_heap_wf`, all-parses run): no cell of the
tree memory is lost or released twice by `find_minimal_translation` and the end of `make_parse` -/
theorem makeParse_cost_cells {g : Grammar} {la : Nat} {w : List Nat} {fuel : Nat} {s : MP.St}
    {r : Nat} (hg : g.mpWF = true) (hcyc : ¬ Cyclic g) (hsr : g.symsInRange = true)
    (hacc : (BS.buildPLC g la w).1 = none)
    (hm : MP.makeParseSt (MP.mkCtx g (plSets g la w) (plTokNums w) false) fuel = some s)
    (hb : s.bad = false) (hres : s.result = some r) {fuel' : Nat} (hf : s.heap.size ≤ fuel')
    (onep : Bool) (nameBlk : Nat → Nat) :
    NG.CostCellsSpec s r
      (PC.findMinimalTranslation fuel' (PC.ofHeap s.heap) r onep true nameBlk s.nilUsed s.errUsed) := by
  obtain ⟨rk, hd, wf, hr, hdr⟩ := makeParse_heap_wf hg hcyc hsr hacc hm hb hres
  have htw : g.translWF = true := (MP.grOK_of_mpWF hg).twf
  obtain ⟨hi, hst⟩ := NG.makeParseSt_inv (NG.cok_mkCtx htw _ _ false) hm
  exact NG.cost_partition hi hst hres wf hr hdr hf onep nameBlk

/-- … end to end: accepted grammar, user tokens, a sentence, enough fuel -/
theorem accepted_cost_cells {raw : RawGrammar} {g : Grammar} {la : Nat} {w : List Nat} {fuel : Nat}
    (h : readGrammar raw = .ok g) (htok : UserTokens g w) (hla : la ≤ 1) (hs : Sentence g w)
    (hfuel : MP.mpAllFuel g (w.length + 1) ≤ fuel) :
    ∃ s r, MP.makeParseSt (MP.mkCtx g (plSets g la w) (plTokNums w) false) fuel = some s ∧
      s.bad = false ∧ s.result = some r ∧
      ∀ (fuel' : Nat), s.heap.size ≤ fuel' → ∀ (onep : Bool) (nameBlk : Nat → Nat),
        NG.CostCellsSpec s r
          (PC.findMinimalTranslation fuel' (PC.ofHeap s.heap) r onep true nameBlk s.nilUsed s.errUsed) := by
  obtain ⟨res, s, r, _, h1, h2, h3, _, _, _⟩ := accepted_cost_parse_total h htok hla hs hfuel
  have hwf := readGrammar_wf h
  have hsr := readGrammar_symsInRange h
  have hacc : (BS.buildPLC g la w).1 = none := by
    have := (BS.acceptsC_iff_sentence hwf hsr htok hla).mpr hs
    unfold BS.acceptsC at this
    exact Option.isNone_iff_eq_none.mp this
  exact ⟨s, r, h1, h2, h3, fun fuel' hf onep nameBlk =>
    makeParse_cost_cells (readGrammar_mpWF h) (readGrammar_semOK h).1 hsr hacc h1 h2 h3 hf onep nameBlk⟩

/-- **C13 for the models with the cost flag** (hypotheses as in `makeParse_heap_wf`, the all-parses
run the cost flag makes `make_parse` do): let `R` be what the model of `find_minimal_translation`
(with `parse_free`, any one-parse flag `onep`, any assignment `nameBlk` of name blocks to cells, any
fuel `≥` the number of cells) leaves behind.  The exporter succeeds on the tree `R.root` of the
final heap `R.heap` (although that heap is not a `WfHeap`: the part reachable from `R.root` is, after
re-ranking — `NG.FinalHeap.wfMasked`), and for its table `(tab, root)` `NG.CostReleased` holds:

* neither `find_minimal_translation` nor `yaep_free_tree` releases a block twice;
* every cell `make_parse` allocated (other than the C-stack cell `rootId`) is released **exactly
  once**: by `yaep_free_tree` on the exported table (a node block or a cell of an ALT entry, through
  `NG.cellOf R.heap cells`, injective on the blocks released), by `find_minimal_translation`
  (`Mem.cell i ∈ R.frees`), or as the unused NIL / ERROR node at the end of `make_parse`
  (`NG.handedBackAfter R`); nothing else is released;
* the name block of every named rule is released exactly once: by `yaep_free_tree` when an abstract
  node with that name survives the pruning, by `find_minimal_translation` otherwise (for a block `b`
  that `nameBlk` gives to exactly the abstract nodes with that name);
* `termcb` is called once per TERM cell of the pruned tree. -/
theorem makeParse_cost_tree_released {g : Grammar} {la : Nat} {w : List Nat} {fuel : Nat} {s : MP.St}
    {r : Nat} (hg : g.mpWF = true) (hcyc : ¬ Cyclic g) (hsr : g.symsInRange = true)
    (hacc : (BS.buildPLC g la w).1 = none)
    (hm : MP.makeParseSt (MP.mkCtx g (plSets g la w) (plTokNums w) false) fuel = some s)
    (hb : s.bad = false) (hres : s.result = some r) {fuel' : Nat} (hf : s.heap.size ≤ fuel')
    (onep : Bool) (nameBlk : Nat → Nat) :
    ∃ tab root cells,
      MP.exportTable (PC.toHeap (PC.findMinimalTranslation fuel' (PC.ofHeap s.heap) r onep true nameBlk
        s.nilUsed s.errUsed).heap) (PC.findMinimalTranslation fuel' (PC.ofHeap s.heap) r onep true
        nameBlk s.nilUsed s.errUsed).root = some (tab, root) ∧
      cells.length = tab.size ∧
      cells.getD root 0 = (PC.findMinimalTranslation fuel' (PC.ofHeap s.heap) r onep true nameBlk
        s.nilUsed s.errUsed).root ∧
      (∀ id, id < tab.size → MP.RepAt (PC.toHeap (PC.findMinimalTranslation fuel' (PC.ofHeap s.heap) r
        onep true nameBlk s.nilUsed s.errUsed).heap) tab cells id) ∧
      NG.CostReleased (MP.mkCtx g (plSets g la w) (plTokNums w) false) s nameBlk
        (PC.findMinimalTranslation fuel' (PC.ofHeap s.heap) r onep true nameBlk s.nilUsed s.errUsed)
        cells tab root := by
  obtain ⟨rk, hd, wf, hr, hdr⟩ := makeParse_heap_wf hg hcyc hsr hacc hm hb hres
  have htw : g.translWF = true := (MP.grOK_of_mpWF hg).twf
  obtain ⟨hi, hst⟩ := NG.makeParseSt_inv (NG.cok_mkCtx htw _ _ false) hm
  exact NG.cost_released hi hst hres wf hr hdr hf onep nameBlk

/-- … end to end: accepted grammar, user tokens, a sentence, enough fuel — nothing is assumed about
the run -/
theorem accepted_cost_tree_released {raw : RawGrammar} {g : Grammar} {la : Nat} {w : List Nat}
    {fuel : Nat} (h : readGrammar raw = .ok g) (htok : UserTokens g w) (hla : la ≤ 1)
    (hs : Sentence g w) (hfuel : MP.mpAllFuel g (w.length + 1) ≤ fuel) :
    ∃ s r, MP.makeParseSt (MP.mkCtx g (plSets g la w) (plTokNums w) false) fuel = some s ∧
      s.bad = false ∧ s.result = some r ∧
      ∀ (fuel' : Nat), s.heap.size ≤ fuel' → ∀ (onep : Bool) (nameBlk : Nat → Nat),
        ∃ tab root cells,
          MP.exportTable (PC.toHeap (PC.findMinimalTranslation fuel' (PC.ofHeap s.heap) r onep true
            nameBlk s.nilUsed s.errUsed).heap) (PC.findMinimalTranslation fuel' (PC.ofHeap s.heap) r
            onep true nameBlk s.nilUsed s.errUsed).root = some (tab, root) ∧
          cells.length = tab.size ∧
          NG.CostReleased (MP.mkCtx g (plSets g la w) (plTokNums w) false) s nameBlk
            (PC.findMinimalTranslation fuel' (PC.ofHeap s.heap) r onep true nameBlk s.nilUsed
              s.errUsed) cells tab root := by
  obtain ⟨res, s, r, _, h1, h2, h3, _, _, _⟩ := accepted_cost_parse_total h htok hla hs hfuel
  have hwf := readGrammar_wf h
  have hsr := readGrammar_symsInRange h
  have hacc : (BS.buildPLC g la w).1 = none := by
    have := (BS.acceptsC_iff_sentence hwf hsr htok hla).mpr hs
    unfold BS.acceptsC at this
    exact Option.isNone_iff_eq_none.mp this
  refine ⟨s, r, h1, h2, h3, fun fuel' hf onep nameBlk => ?_⟩
  obtain ⟨tab, root, cells, a1, a2, _, _, a5⟩ := makeParse_cost_tree_released (readGrammar_mpWF h)
    (readGrammar_semOK h).1 hsr hacc h1 h2 h3 hf onep nameBlk
  exact ⟨tab, root, cells, a1, a2, a5⟩

/-! ## non-vacuity -/

/-- D9b, all parses (ALT chains, a reused abstract node, a copied state): 15 cells, none of them
garbage; NIL and ERROR are unused and handed back -/
example : ∃ s r, MP.makeParseSt (MP.mkCtx D9b.g D9b.sets D9b.plToks false) 100 = some s ∧
    s.result = some r ∧ s.heap.size = 15 ∧ s.nilUsed = false ∧ s.errUsed = false ∧
    ∀ i, PC.Reach (PC.ofHeap s.heap) r i ↔ 3 ≤ i ∧ i < 15 := by
  obtain ⟨s, r, h1, h2, h3, _⟩ := makeParse_ok_state D9b.run_all
  obtain ⟨f1, f2, f3, f4⟩ := ng_makeParse_ok_fields D9b.run_all h1
  have h : plSets D9b.g 1 D9b.w = D9b.sets ∧ plTokNums D9b.w = D9b.plToks := by decide
  have hsz : s.heap.size = 15 := f4.symm
  refine ⟨s, r, h1, h3, hsz, f2.symm, f3.symm, ?_⟩
  intro i
  rw [← h.1, ← h.2] at h1
  rw [makeParse_no_garbage (la := 1) (by decide)
    (fun hc => loopSet_ne_nil_of_cyclic D9b.g hc (by decide)) (by decide) (by decide) h1 h2 h3 i,
    hsz, ← f2, ← f3]
  simp only [MP.rootId, MP.nilId, MP.errId]
  constructor
  · rintro ⟨a1, a2, a3, a4⟩
    refine ⟨?_, a1⟩
    rcases (by omega : i = 0 ∨ i = 1 ∨ i = 2 ∨ 3 ≤ i) with e | e | e | e
    · exact absurd (a3 e) (by decide)
    · exact absurd (a4 e) (by decide)
    · exact absurd e a2
    · exact e
  · rintro ⟨a1, a2⟩
    exact ⟨a2, by omega, fun e => by omega, fun e => by omega⟩

/-- D9b, all parses: `yaep_free_tree` on the exported table releases exactly the blocks of the
parse that were not handed back; the names of D9b tell its rules apart, so the counts agree:
20 requests = 18 blocks released by `yaep_free_tree` + 2 handed back by `make_parse` -/
example : ∃ s cells, MP.makeParseSt (MP.mkCtx D9b.g D9b.sets D9b.plToks false) 100 = some s ∧
    NG.Released (MP.mkCtx D9b.g D9b.sets D9b.plToks false) s cells
      #[NodeRec.anode "y" 0 [], .anode "z" 0 [], .anode "t" 0 [0, 1], .anode "x" 0 [], .anode "w" 0 [],
        .anode "t" 0 [3, 4], .alt [2, 5], .anode "u" 0 [6], .anode "v" 0 [5], .alt [7, 8]] 9 ∧
    (freedBlocks (freeTree #[NodeRec.anode "y" 0 [], .anode "z" 0 [], .anode "t" 0 [0, 1],
        .anode "x" 0 [], .anode "w" 0 [], .anode "t" 0 [3, 4], .alt [2, 5], .anode "u" 0 [6],
        .anode "v" 0 [5], .alt [7, 8]] 9)).length + (NG.handedBack s).length =
      (MP.allocSeq s).length := by
  have h : plSets D9b.g 1 D9b.w = D9b.sets ∧ plTokNums D9b.w = D9b.plToks := by decide
  have hrun := D9b.run_all
  rw [← h.1, ← h.2] at hrun
  obtain ⟨s, r, cells, a1, _, _, _, _, _, _, _, _, _, a11⟩ := makeParse_tree_released (la := 1)
    (by decide) (fun hc => loopSet_ne_nil_of_cyclic D9b.g hc (by decide)) (by decide) (by decide) hrun
  rw [h.1, h.2] at a1 a11
  exact ⟨s, cells, a1, a11, a11.count (NG.distinctNames_of_nodup (by decide) _ _ _)⟩

/-- D9a, one parse -/
example : ∃ s r cells, MP.makeParseSt (MP.mkCtx D9a.g D9a.sets D9a.plToks true) 100 = some s ∧
    s.result = some r ∧
    NG.Released (MP.mkCtx D9a.g D9a.sets D9a.plToks true) s cells
      #[NodeRec.anode "x" 0 [], .anode "s" 0 [0]] 1 := by
  have h : plSets D9a.g 1 D9a.w = D9a.sets ∧ plTokNums D9a.w = D9a.plToks := by decide
  have hrun := D9a.run_one
  rw [← h.1, ← h.2] at hrun
  obtain ⟨s, r, cells, a1, _, a3, _, _, _, _, _, _, _, a11⟩ := makeParse_tree_released (la := 1)
    (by decide) (fun hc => loopSet_ne_nil_of_cyclic D9a.g hc (by decide)) (by decide) (by decide) hrun
  rw [h.1, h.2] at a1 a11
  exact ⟨s, r, cells, a1, a3, a11⟩

/-- the grammar of D9b with costs (`PC.ExMP.g`) on `c a a a`, cost flag, all parses kept: the heap
of `make_parse` is `PC.ExMP.H` (15 cells, result cell 5); `find_minimal_translation` frees
`PC.ExMP.R.frees` (the NIL and the ERROR node are unused), the pruned tree is exported as `PC.ExMP.tabO` with root 3 (`PC.ExMP.export_R`), and
`yaep_free_tree` on it releases the rest (`NG.CostReleased`) -/
example : ∃ s cells, MP.makeParseSt (MP.mkCtx PC.ExMP.g D9b.sets D9b.plToks false) 100 = some s ∧
    PC.ofHeap s.heap = PC.ExMP.H ∧
    NG.CostReleased (MP.mkCtx PC.ExMP.g D9b.sets D9b.plToks false) s id
      (PC.findMinimalTranslation 15 PC.ExMP.H 5 false true id false false) cells PC.ExMP.tabO 3 := by
  have h : plSets PC.ExMP.g 1 D9b.w = D9b.sets ∧ plTokNums D9b.w = D9b.plToks := by decide
  obtain ⟨s, e1, e2, e3⟩ := PC.ExMP.H_is_make_parse
  have hb : s.bad = false := by
    have hok : (MP.makeParse PC.ExMP.g D9b.sets D9b.plToks false 100 matches .ok _) = true := by decide
    cases hres : MP.makeParse PC.ExMP.g D9b.sets D9b.plToks false 100 with
    | ok res =>
      obtain ⟨s', r', h1, h2, _, _⟩ := makeParse_ok_state hres
      rw [e1] at h1; injection h1 with h1; subst h1; exact h2
    | noParse => rw [hres] at hok; cases hok
    | outOfFuel => rw [hres] at hok; cases hok
    | undefinedBehaviour => rw [hres] at hok; cases hok
    | cyclic => rw [hres] at hok; cases hok
  have hsz : s.heap.size = 15 := by
    have := congrArg Array.size e2
    rw [MP.size_ofHeap] at this
    rw [this]; rfl
  have hnu : s.nilUsed = false ∧ s.errUsed = false := by
    have hok : (match MP.makeParse PC.ExMP.g D9b.sets D9b.plToks false 100 with
      | .ok res => !res.nilUsed && !res.errUsed | _ => false) = true := by decide
    cases hres : MP.makeParse PC.ExMP.g D9b.sets D9b.plToks false 100 with
    | ok res =>
      rw [hres] at hok
      obtain ⟨_, f2, f3, _⟩ := ng_makeParse_ok_fields hres e1
      rw [← f2, ← f3]
      simp only [Bool.and_eq_true, Bool.not_eq_true'] at hok
      exact hok
    | noParse => rw [hres] at hok; cases hok
    | outOfFuel => rw [hres] at hok; cases hok
    | undefinedBehaviour => rw [hres] at hok; cases hok
    | cyclic => rw [hres] at hok; cases hok
  rw [← h.1, ← h.2] at e1
  obtain ⟨tab, root, cells, a1, _, _, _, a5⟩ := makeParse_cost_tree_released (la := 1) (fuel' := 15)
    (by decide) (fun hc => loopSet_ne_nil_of_cyclic PC.ExMP.g hc (by decide)) (by decide) (by decide)
    e1 hb e3 (by omega) false id
  rw [h.1, h.2] at e1 a5
  rw [e2, hnu.1, hnu.2] at a1 a5
  have hR : MP.exportTable (PC.toHeap (PC.findMinimalTranslation 15 PC.ExMP.H 5 false true id false
      false).heap) (PC.findMinimalTranslation 15 PC.ExMP.H 5 false true id false false).root =
      some (PC.ExMP.tabO, 3) := PC.ExMP.export_R
  rw [hR] at a1
  injection a1 with a1
  injection a1 with a1 a1'
  subst a1; subst a1'
  exact ⟨s, cells, e1, e2, a5⟩

end Yaep
