import Yaep.Lemmas.Yacc
/-!
# C11 (syntax): the recursive-descent model accepts exactly the language of `sgramm.y`

`Generated.sgrammProds` / `Generated.sgrammStart` are regenerated from `/repo/src/sgramm.y` on
every run; `YDer` (`Spec/Yacc.lean`) is derivability in that production list.  bison reports no
conflict for `sgramm.y`, so the generated LALR(1) parser accepts exactly the sentences of the
grammar followed by the end marker.

* `lexDescr_shape`: the lexer output is a token list without `.eof`, followed by one `.eof`.
* `parseFile_iff_yacc`: `parseFile` accepts `body ++ [.eof]` iff the kinds of `body` form a
  sentence of `sgramm.y`.  No side condition on the `.sym c` tokens is needed: a `.sym c` with a
  character other than `= # | ; - ( )` has the kind `'c'`, which occurs in no production, and
  `parseFile` rejects it as well.  (The hypothesis `DTok.eof ∉ body` is not needed either; it is
  kept because this is the shape of the lexer output; `parseFile_iff_yacc_fuel` is the statement
  without it and for every sufficient fuel.)
* `descr_syntax_ok_iff`: the syntax stage of `descrToRaw` (lexer, then `parseFile`) succeeds iff
  the lexer succeeds and its tokens are a sentence of `sgramm.y`.
-/
namespace Yaep

/-- shape of the lexer output -/
theorem lexDescr_shape (fuel : Nat) (text : List UInt8) (toks : List DTok)
    (h : lexDescr fuel text [] = some toks) :
    ∃ body, toks = body ++ [.eof] ∧ DTok.eof ∉ body :=
  lexDescr_shape_acc fuel text [] toks (by simp) h

/-- the recursive-descent model accepts exactly the sentences of `sgramm.y`, for every fuel that
exceeds the number of tokens -/
theorem parseFile_iff_yacc_fuel (body : List DTok) (fuel : Nat) (hf : body.length < fuel) :
    (parseFile fuel true (body ++ [.eof]) {}).isSome = true ↔
      YDer Generated.sgrammProds Generated.sgrammStart (body.map tokKind) := by
  show _ ↔ YDer Generated.sgrammProds "file" (body.map tokKind)
  constructor
  · intro h
    obtain ⟨a, ha⟩ := Option.isSome_iff_exists.mp h
    exact parseFile_sound' fuel body a ha
  · intro h
    obtain ⟨a, ha⟩ := parseFile_complete body h fuel hf
    rw [ha]; rfl

/-- the recursive-descent model accepts exactly the sentences of `sgramm.y` -/
theorem parseFile_iff_yacc (body : List DTok) (_hb : DTok.eof ∉ body) :
    (parseFile (body.length + 2) true (body ++ [.eof]) {}).isSome = true ↔
      YDer Generated.sgrammProds Generated.sgrammStart (body.map tokKind) :=
  parseFile_iff_yacc_fuel body _ (by omega)

/-- combined: the description is syntactically accepted (no error 3 from the parser stage) iff
the lexer succeeds and its tokens form a sentence of `sgramm.y` -/
theorem descr_syntax_ok_iff (text : List UInt8) :
    (∃ toks a, lexDescr (text.length + 2) text [] = some toks ∧
        parseFile (toks.length + 1) true toks {} = some a) ↔
      ∃ body, lexDescr (text.length + 2) text [] = some (body ++ [.eof]) ∧
        YDer Generated.sgrammProds Generated.sgrammStart (body.map tokKind) := by
  constructor
  · rintro ⟨toks, a, hl, hp⟩
    obtain ⟨body, rfl, hb⟩ := lexDescr_shape _ _ _ hl
    refine ⟨body, hl, (parseFile_iff_yacc body hb).mp ?_⟩
    have : (body ++ [DTok.eof]).length + 1 = body.length + 2 := by simp
    rw [this] at hp
    rw [hp]; rfl
  · rintro ⟨body, hl, hd⟩
    obtain ⟨b', hb', hb⟩ := lexDescr_shape _ _ _ hl
    have := List.append_cancel_right hb'
    subst this
    have h := (parseFile_iff_yacc body hb).mpr hd
    obtain ⟨a, ha⟩ := Option.isSome_iff_exists.mp h
    refine ⟨body ++ [.eof], a, hl, ?_⟩
    have : (body ++ [DTok.eof]).length + 1 = body.length + 2 := by simp
    rw [this]; exact ha

/-- in terms of `descrToRaw`: error 3 (description syntax error) is reported exactly when the
lexer fails or its tokens are not a sentence of `sgramm.y` -/
theorem descrToRaw_syntax_error_iff (text : List UInt8) (strict : Bool) :
    descrToRaw text strict = .error 3 ↔
      ¬ ∃ body, lexDescr (text.length + 2) text [] = some (body ++ [.eof]) ∧
        YDer Generated.sgrammProds Generated.sgrammStart (body.map tokKind) := by
  rw [← descr_syntax_ok_iff]
  unfold descrToRaw
  split
  next hl => simp [hl]
  next toks hl =>
    split
    next hp => simp [hl, hp]
    next a hp =>
      have hex : ∃ toks a, lexDescr (text.length + 2) text [] = some toks ∧
          parseFile (toks.length + 1) true toks {} = some a := ⟨toks, a, hl, hp⟩
      simp only [hex, not_true_eq_false, iff_false]
      split
      next e he =>
        intro h
        have := dedupTerms_error _ _ _ he
        simp only [Except.error.injEq] at h
        omega
      next => intro h; cases h

/-! ## non-vacuity -/

/-- the tokens of `TERM a = 1 ; s : a b # f 2 ( 0 - ) | 'c' # 0 ;` -/
def yaccExToks : List DTok :=
  [.term, .ident "a", .sym '=', .num 1, .sym ';', .semIdent "s", .ident "a", .ident "b", .sym '#',
   .ident "f", .num 2, .sym '(', .num 0, .sym '-', .sym ')', .sym '|', .chr 39, .sym '#', .num 0,
   .sym ';']

example : (parseFile (yaccExToks.length + 2) true (yaccExToks ++ [.eof]) {}).isSome = true := by
  decide

example : YDer Generated.sgrammProds Generated.sgrammStart (yaccExToks.map tokKind) :=
  (parseFile_iff_yacc yaccExToks (by decide)).mp (by decide)

example : yaccExToks.map tokKind =
    ["TERM", "IDENT", "'='", "NUMBER", "';'", "SEM_IDENT", "IDENT", "IDENT", "'#'", "IDENT",
     "NUMBER", "'('", "NUMBER", "'-'", "')'", "'|'", "CHAR", "'#'", "NUMBER", "';'"] := by
  decide

/-- the text `TERM a = 1 ; s : a b # f 2 ( 0 - ) | ''' # 0 ;` -/
def yaccExText : List UInt8 :=
  [84, 69, 82, 77, 32, 97, 32, 61, 32, 49, 32, 59, 32, 115, 32, 58, 32, 97, 32, 98, 32, 35, 32, 102, 32, 50, 32,
   40, 32, 48, 32, 45, 32, 41, 32, 124, 32, 39, 39, 39, 32, 35, 32, 48, 32, 59]

example : lexDescr (yaccExText.length + 2) yaccExText [] = some (yaccExToks ++ [.eof]) := by decide

example : ∃ body, lexDescr (yaccExText.length + 2) yaccExText [] = some (body ++ [.eof]) ∧
    YDer Generated.sgrammProds Generated.sgrammStart (body.map tokKind) :=
  (descr_syntax_ok_iff yaccExText).mp ⟨yaccExToks ++ [.eof], _, by decide, rfl⟩

/-- `s : # #` is not a sentence: rejected by the model, hence not derivable -/
example : ¬ YDer Generated.sgrammProds Generated.sgrammStart
    ([DTok.semIdent "s", .sym '#', .sym '#'].map tokKind) := by
  rw [← parseFile_iff_yacc _ (by decide)]
  decide

/-- the empty description is not a sentence -/
example : ¬ YDer Generated.sgrammProds Generated.sgrammStart (([] : List DTok).map tokKind) := by
  rw [← parseFile_iff_yacc _ (by decide)]
  decide

/-- a token the lexer never produces (`.sym 'x'`) is rejected on both sides -/
example : ¬ YDer Generated.sgrammProds Generated.sgrammStart
    ([DTok.term, .sym 'x'].map tokKind) := by
  rw [← parseFile_iff_yacc _ (by decide)]
  decide

end Yaep
