import Yaep.Lemmas.MakeParseTotalPolyPL
import Yaep.Props.HeapWf
/-!
# `make_parse`, all parses, is total (step-for-step model)

For a well-formed grammar without cycles and an accepted input, the model of `make_parse` in
all-parses mode, run on the parse list of the model of `build_pl`, ends with the outcome `.ok`:
never `.noParse` (the C function returns NULL), `.undefinedBehaviour` (a NULL / out-of-range
dereference, the assertions `n_candidates != 0` and `result != NULL`), `.cyclic`, and — with the
explicit fuel `MP.mpAllFuel g (|w| + 1)` or more — never `.outOfFuel`.

The fuel bound is exponential in the length of the input.  That is not an artefact of the proof:
`passGrammar` below (`E : E E # 1 | 'a' # a`, accepted by `yaep_read_grammar`) makes the main loop
allocate `2 ^ (n - 2) + 4` cells on `a^n` — the parse states of rules *without* abstract node are not
memoised (only abstract nodes are, `parse_state_tab`), so every derivation prefix is walked again.

Conversely (`makeParse_all_total_poly`): when no rule without abstract node passes its translation up
to itself through translated symbols of rules without abstract node (`¬ MP.PassCyclic g`), the polynomial
fuel `MP.mpPolyFuel g (|w| + 1)` suffices — `parse_state_tab` makes every abstract-node instance
`(rule, orig, pl_ind)` expanded at most once.

Termination measure (`Yaep/Lemmas/MakeParseTotal*.lean`): a parse state `(rule, pos, orig)` whose
rule instance ends at `fin` has the exponent `rhoI lhs orig fin * (maxRhs + 1) + pos`
(`rhoI` = length of the span, then the rank of the nonterminal along unit steps, `HeapWfBase`); the
stack weighs `Σ K ^ exponent`, `K = 2 C + 2` for `C` a bound on the size of the sets; one iteration
replaces the top state by at most `2 C + 1` states of smaller exponent.
-/
namespace Yaep

/-- **the all-parses run ends, is never flagged and has a result** (machine state) -/
theorem makeParse_all_total_state {g : Grammar} {la : Nat} {w : List Nat} {fuel : Nat}
    (hwf : g.WF) (hg : g.mpWF = true) (hcyc : ¬ Cyclic g) (hsr : g.symsInRange = true)
    (hacc : (BS.buildPLC g la w).1 = none) (hfuel : MP.mpAllFuel g (w.length + 1) ≤ fuel) :
    ∃ s r, MP.makeParseSt (MP.mkCtx g (plSets g la w) (plTokNums w) false) fuel = some s ∧
      s.bad = false ∧ s.result = some r :=
  MP.makeParse_all_total_ctx hwf (MP.ctxAllc_plSets hacc) (MP.grOK_of_mpWF hg) hcyc hsr
    (MP.last_set_nonempty hacc) (MP.plSets_size_le hacc) hfuel

/-- **`make_parse`, all parses, is total**: the outcome is `.ok` — never `.noParse`, `.outOfFuel`,
`.undefinedBehaviour`, `.cyclic` -/
theorem makeParse_all_total {g : Grammar} {la : Nat} {w : List Nat} {fuel : Nat}
    (hwf : g.WF) (hg : g.mpWF = true) (hcyc : ¬ Cyclic g) (hsr : g.symsInRange = true)
    (hacc : (BS.buildPLC g la w).1 = none) (hfuel : MP.mpAllFuel g (w.length + 1) ≤ fuel) :
    ∃ res, MP.makeParse g (plSets g la w) (plTokNums w) false fuel = .ok res := by
  obtain ⟨s, r, hm, hb, hres⟩ := makeParse_all_total_state hwf hg hcyc hsr hacc hfuel
  exact makeParse_all_ok_of_state hg hcyc hsr hacc hm hb hres

/-- … and the outcome does not depend on the fuel once it is at least `MP.mpAllFuel`: one result
for every sufficient fuel -/
theorem makeParse_all_total_unique {g : Grammar} {la : Nat} {w : List Nat}
    (hwf : g.WF) (hg : g.mpWF = true) (hcyc : ¬ Cyclic g) (hsr : g.symsInRange = true)
    (hacc : (BS.buildPLC g la w).1 = none) :
    ∃ res, ∀ fuel, MP.mpAllFuel g (w.length + 1) ≤ fuel →
      MP.makeParse g (plSets g la w) (plTokNums w) false fuel = .ok res := by
  obtain ⟨res, hm⟩ := makeParse_all_total hwf hg hcyc hsr hacc (Nat.le_refl _)
  refine ⟨res, fun fuel hf => ?_⟩
  obtain ⟨k, rfl⟩ := Nat.exists_eq_add_of_le hf
  rw [makeParse_fuel_independent _ _ _ _ _ k (by rw [hm]; intro h; cases h)]
  exact hm

/-- the same with the fuel computed from the parse list itself (`C` = size of its largest set) -/
theorem makeParse_all_total_sets {g : Grammar} {la : Nat} {w : List Nat} {fuel : Nat}
    (hwf : g.WF) (hg : g.mpWF = true) (hcyc : ¬ Cyclic g) (hsr : g.symsInRange = true)
    (hacc : (BS.buildPLC g la w).1 = none)
    (hfuel : MP.mpAllFuelC g (w.length + 1) (MP.plMaxSize (plSets g la w)) ≤ fuel) :
    ∃ res, MP.makeParse g (plSets g la w) (plTokNums w) false fuel = .ok res := by
  obtain ⟨s, r, hm, hb, hres⟩ := MP.makeParse_all_total_ctx hwf (MP.ctxAllc_plSets hacc)
    (MP.grOK_of_mpWF hg) hcyc hsr (MP.last_set_nonempty hacc) (MP.size_le_plMaxSize _) hfuel
  exact makeParse_all_ok_of_state hg hcyc hsr hacc hm hb hres

/-- total and sound, for a sentence of the grammar (lookahead levels 0 and 1): the returned table
denotes only translations of derivations of the input -/
theorem makeParse_all_sentence {g : Grammar} {la : Nat} {w : List Nat} {fuel : Nat}
    (hwf : g.WF) (hg : g.mpWF = true) (hcyc : ¬ Cyclic g) (hsr : g.symsInRange = true)
    (htok : ∀ a ∈ w, a ≠ g.eofT ∧ a ≠ g.errT) (hla : la ≤ 1) (hs : Sentence g w)
    (hfuel : MP.mpAllFuel g (w.length + 1) ≤ fuel) :
    ∃ res, MP.makeParse g (plSets g la w) (plTokNums w) false fuel = .ok res ∧
      (∀ t ∈ (denoteTab res.tab).getD res.root [],
        ∃ pt, PT.IsDerivation g (w ++ [g.eofT]) pt ∧ translate g pt = t) ∧
      (∀ t ∈ (denoteTab res.tab).getD res.root [],
        t ∈ (derivationsP g (w ++ [g.eofT])).map (translate g)) := by
  have hacc : (BS.buildPLC g la w).1 = none := by
    have := (BS.acceptsC_iff_sentence hwf hsr htok hla).mpr hs
    unfold BS.acceptsC at this
    exact Option.isNone_iff_eq_none.mp this
  obtain ⟨res, hm⟩ := makeParse_all_total hwf hg hcyc hsr hacc hfuel
  exact ⟨res, hm, (makeParse_all_sound hg hacc hm).1, makeParse_all_in_translations hg hcyc hsr hacc hm⟩

/-- **for every accepted grammar**: no hypothesis on the grammar is left.  For a grammar the
definition functions accept, tokens that are terminals of the user, and a sentence `w`: the model
of `make_parse` in all-parses mode, run on the parse list of the model of `build_pl` (lookahead
level 0 or 1), ends with `.ok` (with the fuel `MP.mpAllFuel` or more), and every tree of the
returned table is the translation of a derivation of `w $eof`. -/
theorem accepted_makeParse_all {raw : RawGrammar} {g : Grammar} {la : Nat} {w : List Nat} {fuel : Nat}
    (h : readGrammar raw = .ok g) (htok : UserTokens g w) (hla : la ≤ 1) (hs : Sentence g w)
    (hfuel : MP.mpAllFuel g (w.length + 1) ≤ fuel) :
    ∃ res, MP.makeParse g (plSets g la w) (plTokNums w) false fuel = .ok res ∧
      (∀ t ∈ (denoteTab res.tab).getD res.root [],
        ∃ pt, PT.IsDerivation g (w ++ [g.eofT]) pt ∧ translate g pt = t) ∧
      (∀ t ∈ (denoteTab res.tab).getD res.root [],
        t ∈ (derivationsP g (w ++ [g.eofT])).map (translate g)) :=
  makeParse_all_sentence (readGrammar_wf h) (readGrammar_mpWF h) (readGrammar_semOK h).1
    (readGrammar_symsInRange h) htok hla hs hfuel

/-- **the cost-flag parse end to end, without any hypothesis on the run** (`accepted_cost_parse` of
`Yaep/Props/HeapWf.lean` with its hypothesis `hm` discharged): for an accepted grammar, user
tokens and a sentence, the all-parses run of `make_parse` ends with `.ok res`; its final heap is a
`WfHeap`, the exported table is `res.tab`, and `find_minimal_translation` on it satisfies
`CostParseSpec` (never out of fuel, sound, exactly the trees of minimal cost, the frees). -/
theorem accepted_cost_parse_total {raw : RawGrammar} {g : Grammar} {la : Nat} {w : List Nat} {fuel : Nat}
    (h : readGrammar raw = .ok g) (htok : UserTokens g w) (hla : la ≤ 1) (hs : Sentence g w)
    (hfuel : MP.mpAllFuel g (w.length + 1) ≤ fuel) :
    ∃ res s r, MP.makeParse g (plSets g la w) (plTokNums w) false fuel = .ok res ∧
      MP.makeParseSt (MP.mkCtx g (plSets g la w) (plTokNums w) false) fuel = some s ∧
      s.bad = false ∧ s.result = some r ∧
      MP.exportTable s.heap r = some (res.tab, res.root) ∧
      (∃ rk hd, PC.WfHeap (PC.ofHeap s.heap) rk hd ∧ r < (PC.ofHeap s.heap).size ∧ hd r = r) ∧
      CostParseSpec g w s r := by
  obtain ⟨res, hm, _⟩ := accepted_makeParse_all h htok hla hs hfuel
  obtain ⟨s, r, h1, h2, h3, h4, h5, h6⟩ := accepted_cost_parse h htok hla hs hm
  exact ⟨res, s, r, hm, h1, h2, h3, h4, h5, h6⟩

/-! ## non-vacuity: D9a and D9b -/

/-- totality applied to D9a (`S : A B # s(0)`, … on `a a a`) … -/
example : ∃ res, MP.makeParse D9a.g (plSets D9a.g 1 D9a.w) (plTokNums D9a.w) false
    (MP.mpAllFuel D9a.g (D9a.w.length + 1)) = .ok res :=
  makeParse_all_total (by decide) (by decide)
    (fun h => loopSet_ne_nil_of_cyclic D9a.g h (by decide)) (by decide) (by decide) (Nat.le_refl _)

/-- … and to D9b (ALT nodes, a reused abstract node, a copied state) -/
example : ∃ res, MP.makeParse D9b.g (plSets D9b.g 1 D9b.w) (plTokNums D9b.w) false
    (MP.mpAllFuel D9b.g (D9b.w.length + 1)) = .ok res :=
  makeParse_all_total (by decide) (by decide)
    (fun h => loopSet_ne_nil_of_cyclic D9b.g h (by decide)) (by decide) (by decide) (Nat.le_refl _)

/-- the outcome is that of the 100-iteration run of `Yaep/Props/MakeParse.lean`
(`makeParse_fuel_independent`) -/
example : ∃ k, MP.makeParse D9a.g D9a.sets D9a.plToks false (100 + k) =
    MP.makeParse D9a.g D9a.sets D9a.plToks false 100 :=
  ⟨MP.mpAllFuel D9a.g (D9a.w.length + 1), makeParse_fuel_independent _ _ _ _ 100 _ (by
    rw [D9a.run_all]; intro h; cases h)⟩

/-! ## the number of iterations is exponential for a rule without abstract node

`E : E E # 1 | 'a' # a`: the translation of `E E` is the translation of its second `E`, so every
tree denotes the single node `a` — but `make_parse` walks all `2 ^ (n - 2)` ways to cut a suffix of
`a^n` into `E`s again and again: the states of the rule `E : E E` have no abstract node, hence no entry
in `parse_state_tab`. -/

/-- the description as the callbacks deliver it -/
def passRaw : RawGrammar :=
  ⟨[("a", 97)],
   [⟨"E", ["E", "E"], none, 0, some [1]⟩,
    ⟨"E", ["a"], some "a", 0, some []⟩], false⟩

/-- terminals: `a` 0, `error` 1, `$eof` 2; nonterminals: `E` 0, `$S` 1 -/
def passGrammar : Grammar :=
  { rules := [
      { lhs := 1, rhs := [.n 0, .t 2], transLen := 1, order := [some 0, none] },
      { lhs := 0, rhs := [.n 0, .n 0], transLen := 1, order := [none, some 0] },
      { lhs := 0, rhs := [.t 0], anode := some "a", order := [none] },
      { lhs := 1, rhs := [.t 1, .t 2], order := [none, none] } ],
    termNames := ["a", "error", "$eof"], termCodes := [97, -2, -1],
    ntNames := ["E", "$S"], errT := 1, eofT := 2, axiomN := 1, startN := 0 }

/-- `yaep_read_grammar` (model) accepts the description and builds `passGrammar` -/
example : (match readGrammar passRaw with
    | .ok g' => g'.rules == passGrammar.rules && g'.termCodes == passGrammar.termCodes
        && g'.errT == passGrammar.errT && g'.eofT == passGrammar.eofT && g'.axiomN == passGrammar.axiomN
    | .error _ => false) = true := by decide

/-- number of cells `make_parse` allocates (all parses) on `a^n` -/
def passCells (n fuel : Nat) : Nat :=
  match MP.makeParse passGrammar (plSets passGrammar 1 (List.replicate n 0))
      (plTokNums (List.replicate n 0)) false fuel with
  | .ok r => r.heapSize
  | _ => 0

/-- **finding**: `2 ^ (n - 2) + 4` cells for `a^n`, `n ≥ 3` (3 of them are the fixed cells NIL,
ERROR, `$result`), although the exported table has two entries -/
example : (List.range 4).map (fun k => passCells (k + 3) 100) = [6, 8, 12, 20] ∧
    (List.range 4).map (fun k => 2 ^ (k + 1) + 4) = [6, 8, 12, 20] := by decide +kernel

example : passCells 7 170 = 2 ^ 5 + 4 := by decide +kernel

/-- the theorem applies to it (here `a^8`): the run ends, whatever its length -/
example : ∃ res, MP.makeParse passGrammar (plSets passGrammar 1 (List.replicate 8 0))
    (plTokNums (List.replicate 8 0)) false (MP.mpAllFuel passGrammar 9) = .ok res :=
  makeParse_all_total (by decide) (by decide)
    (fun h => loopSet_ne_nil_of_cyclic passGrammar h (by decide)) (by decide) (by decide) (Nat.le_refl _)

/-- `passGrammar` has a pass-through cycle: the rule `E : E E # 1` reaches itself -/
example : MP.PassCyclic passGrammar := ⟨1, .single (by show MP.passStepB passGrammar 1 1 = true; decide)⟩

/-! ## without a pass-through cycle the number of iterations is polynomial -/

/-- **`make_parse`, all parses, ends within polynomially many iterations** when the grammar has no
pass-through cycle (`MP.PassStep g r r'`: `r` and `r'` have no abstract node, `r'` has a nonempty
right-hand side and its left-hand side is a translated symbol of `r`): the fuel
`MP.mpPolyFuel g (|w| + 1) = (|rules| (n + 1)² + 1) · (2 · setBound g n + 2) ^ ((|rules| + 1) (maxRhs + 1) + maxRhs)`,
`n = |w| + 1`, a polynomial in `|w|` for a fixed grammar, suffices. -/
theorem makeParse_all_total_poly {g : Grammar} {la : Nat} {w : List Nat} {fuel : Nat}
    (hwf : g.WF) (hg : g.mpWF = true) (hcyc : ¬ Cyclic g) (hsr : g.symsInRange = true)
    (hacc : (BS.buildPLC g la w).1 = none) (hpc : ¬ MP.PassCyclic g)
    (hfuel : MP.mpPolyFuel g (w.length + 1) ≤ fuel) :
    ∃ res, MP.makeParse g (plSets g la w) (plTokNums w) false fuel = .ok res := by
  have hcc := MP.ctxAllc_plSets (la := la) hacc
  obtain ⟨s0, hi⟩ := MP.init_total_all hwf hcc (MP.last_set_nonempty hacc)
  have hfuel' : MP.mpPolyFuelC g (w ++ [g.eofT]).length (BS.setBound g (w.length + 1)) ≤ fuel := by
    have : (w ++ [g.eofT]).length = w.length + 1 := by simp
    rw [this]; exact hfuel
  obtain ⟨s, hr⟩ := MP.run_poly_ctx hcc.toCtxAll hpc (MP.plSets_size_le hacc) hi hfuel'
  obtain ⟨res, hm⟩ := makeParse_all_total (fuel := fuel + MP.mpAllFuel g (w.length + 1)) hwf hg hcyc hsr hacc
    (Nat.le_add_left _ _)
  rw [makeParse_fuel_independent _ _ _ _ fuel _ (MP.makeParse_ne_outOfFuel hi hr)] at hm
  exact ⟨res, hm⟩

/-- … for every accepted grammar without pass-through cycle -/
theorem accepted_makeParse_all_poly {raw : RawGrammar} {g : Grammar} {la : Nat} {w : List Nat} {fuel : Nat}
    (h : readGrammar raw = .ok g) (htok : UserTokens g w) (hla : la ≤ 1) (hs : Sentence g w)
    (hpc : ¬ MP.PassCyclic g) (hfuel : MP.mpPolyFuel g (w.length + 1) ≤ fuel) :
    ∃ res, MP.makeParse g (plSets g la w) (plTokNums w) false fuel = .ok res := by
  have hwf := readGrammar_wf h
  have hsr := readGrammar_symsInRange h
  have hacc : (BS.buildPLC g la w).1 = none := by
    have := (BS.acceptsC_iff_sentence hwf hsr htok hla).mpr hs
    unfold BS.acceptsC at this
    exact Option.isNone_iff_eq_none.mp this
  exact makeParse_all_total_poly hwf (readGrammar_mpWF h) (readGrammar_semOK h).1 hsr hacc hpc hfuel

/-- a grammar in which every rule (but those of `$S`) has an abstract node has no pass-through cycle:
D9a (its rules without abstract node have no translated symbol) -/
example : ∃ res, MP.makeParse D9a.g (plSets D9a.g 1 D9a.w) (plTokNums D9a.w) false
    (MP.mpPolyFuel D9a.g (D9a.w.length + 1)) = .ok res :=
  makeParse_all_total_poly (by decide) (by decide)
    (fun h => loopSet_ne_nil_of_cyclic D9a.g h (by decide)) (by decide) (by decide)
    (MP.not_passCyclic_of_check (rank := []) (by decide)) (Nat.le_refl _)

/-- a precedence chain `E : E '+' T # plus (0 2) | T # 0`, `T : T T # mul (0 1) | F # 0`, `F : 'a' # a`:
pass-through steps `$S : E $eof` → `E : T` → `T : F`, no cycle.  Terminals: `a` 0, `+` 1, `error` 2,
`$eof` 3; nonterminals: `E` 0, `$S` 1, `T` 2, `F` 3 -/
def chainGrammar : Grammar :=
  { rules := [
      { lhs := 1, rhs := [.n 0, .t 3], transLen := 1, order := [some 0, none] },
      { lhs := 0, rhs := [.n 0, .t 1, .n 2], anode := some "plus", transLen := 2, order := [some 0, none, some 1] },
      { lhs := 0, rhs := [.n 2], transLen := 1, order := [some 0] },
      { lhs := 2, rhs := [.n 2, .n 2], anode := some "mul", transLen := 2, order := [some 0, some 1] },
      { lhs := 2, rhs := [.n 3], transLen := 1, order := [some 0] },
      { lhs := 3, rhs := [.t 0], anode := some "a", order := [none] },
      { lhs := 1, rhs := [.t 2, .t 3], order := [none, none] } ],
    termNames := ["a", "+", "error", "$eof"], termCodes := [97, 43, -2, -1],
    ntNames := ["E", "$S", "T", "F"], errT := 2, eofT := 3, axiomN := 1, startN := 0 }

/-- its pass-through steps, and a rank that decreases along them -/
example : (List.range 7).map (fun r => (List.range 7).filter fun r' => MP.passStepB chainGrammar r r') =
    [[2], [], [4], [], [], [], []] ∧ MP.passRankOK chainGrammar [2, 0, 1] = true := by decide

/-- the polynomial theorem applied to it on `a + a a` (ambiguous: `T : T T`) -/
example : ∃ res, MP.makeParse chainGrammar (plSets chainGrammar 1 [0, 1, 0, 0]) (plTokNums [0, 1, 0, 0]) false
    (MP.mpPolyFuel chainGrammar 5) = .ok res :=
  makeParse_all_total_poly (by decide) (by decide)
    (fun h => loopSet_ne_nil_of_cyclic chainGrammar h (by decide)) (by decide) (by decide)
    (MP.not_passCyclic_of_check (rank := [2, 0, 1]) (by decide)) (Nat.le_refl _)

end Yaep
