import Yaep.Generated
import Yaep.Model.Api
import Yaep.Model.ReadGrammar
import Yaep.Model.GotoCache
import Yaep.Model.Descr
import Yaep.Props.CodeTable
/-!
# The constants the model uses are the ones the sources define now

`Yaep/Generated.lean` is rewritten on every run by `tools/extract_consts.py` from
`/repo/src/yaep.h` and `yaep.c`.  These theorems are re-elaborated whenever it changes: a
renumbered error code, a changed default, reserved name, NIL number or cache size breaks a
proof obligation even before the correspondence runs.
-/
namespace Yaep

open Generated in
/-- the documented error codes, in the numbering the model and the judge use -/
theorem generated_error_codes :
    errorCodes = [("YAEP_NO_MEMORY", 1), ("YAEP_UNDEFINED_OR_BAD_GRAMMAR", 2),
      ("YAEP_DESCRIPTION_SYNTAX_ERROR_CODE", 3), ("YAEP_FIXED_NAME_USAGE", 4), ("YAEP_REPEATED_TERM_DECL", 5),
      ("YAEP_NEGATIVE_TERM_CODE", 6), ("YAEP_REPEATED_TERM_CODE", 7), ("YAEP_NO_RULES", 8),
      ("YAEP_TERM_IN_RULE_LHS", 9), ("YAEP_INCORRECT_TRANSLATION", 10), ("YAEP_NEGATIVE_COST", 11),
      ("YAEP_INCORRECT_SYMBOL_NUMBER", 12), ("YAEP_REPEATED_SYMBOL_NUMBER", 13), ("YAEP_UNACCESSIBLE_NONTERM", 14),
      ("YAEP_NONTERM_DERIVATION", 15), ("YAEP_LOOP_NONTERM", 16), ("YAEP_INVALID_TOKEN_CODE", 17)] := by decide

theorem generated_nil_translation : Generated.nilTranslationNumber = (NIL_TRANSL : Int) := by decide

theorem generated_reserved_names :
    Generated.axiomName = AXIOM_NAME ∧ Generated.endMarkerName = END_MARKER_NAME ∧
    Generated.termErrorName = TERM_ERROR_NAME ∧ Generated.endMarkerCode = -1 ∧ Generated.termErrorCode = -2 := by decide

/-- the defaults of `yaep_create_grammar` are the defaults of a new model object (C15) -/
theorem generated_defaults :
    let s : Settings := {}
    Generated.default_lookahead_level = s.la ∧ Generated.default_debug_level = s.debug ∧
    Generated.default_one_parse_p = s.one ∧ Generated.default_cost_p = s.cost ∧
    Generated.default_error_recovery_p = s.recov ∧ Generated.default_recovery_token_matches = s.rmatch ∧
    Generated.default_error_code = ({} : ObjState).lastErr := by decide

theorem generated_cache_size : Generated.maxCachedGotoResults = (MAX_CACHED_GOTO_RESULTS : Int) := by decide

/-- the message buffer the judge checks messages against (C12) -/
theorem generated_message_length : Generated.maxErrorMessageLength = 200 := by decide

/-! ## error sites of `yaep_read_grammar` / `check_grammar` -/

/-- number of an error macro in `yaep.h` as extracted -/
def codeOfMacro (name : String) : Nat := ((Generated.errorCodes.find? (·.1 == name)).map (·.2)).getD 0

/-- the `throw` sites of `Model/ReadGrammar.lean` (`readTerms`, the `error` name, `readRules`,
the missing-rules test) in the order of its text; the C code has two sites (left-hand side,
right-hand side) where the model tests the reserved names in one condition -/
def modelReadGrammarSites : List Nat := [6, 5, 7, 4, 4, 4, 9, 10, 11, 4, 4, 12, 13, 8]

/-- `checkGrammar`: strict (not productive, not reachable), non-strict (start symbol not
productive), loop -/
def modelCheckGrammarSites : List Nat := [15, 14, 15, 16]

/-- the checks of `yaep_read_grammar` (with `check_grammar` and any helper expanded at its call
site) stand in the source in the order the model performs them: a check that is added, removed
or moved breaks this obligation -/
theorem generated_readGrammar_sites :
    Generated.readGrammarErrorSites.map codeOfMacro = modelReadGrammarSites ++ modelCheckGrammarSites := by decide

/-! ## the description scanner -/

/-- what the scanner model makes of the one-byte text `c` -/
def lexByte (c : Nat) : Option (List DTok) := lexDescr 4 [UInt8.ofNat c] []

/-- the characters `yylex` returns as themselves (`case` labels before `return c;`) are exactly
the bytes the scanner model turns into a `sym` token — over all 256 byte values -/
theorem generated_lex_selfChars :
    (List.range 256).all (fun c =>
      (lexByte c == some [DTok.sym (Char.ofNat c), DTok.eof]) == Generated.lexSelfChars.contains c) = true := by decide +kernel

/-- white space of `yylex` (`case` labels before the first `break;`) = the bytes the model skips -/
theorem generated_lex_whiteSpace :
    (List.range 256).all (fun c =>
      (c != 0 && lexByte c == some [DTok.eof]) == Generated.lexWhiteSpace.contains c) = true := by decide +kernel

/-- identifiers start with a letter or the extracted extra character, and continue with letters,
digits or the extracted extra character -/
theorem generated_lex_ident :
    (List.range 256).all (fun c =>
      (match lexByte c with | some [DTok.ident _, DTok.eof] => true | _ => false) ==
        (isAlpha (UInt8.ofNat c) || c == Generated.lexIdentExtraStart)) = true ∧
    (List.range 256).all (fun c =>
      (match lexDescr 4 [97, UInt8.ofNat c] [] with | some [DTok.ident _, DTok.eof] => true | _ => false) ==
        (isAlpha (UInt8.ofNat c) || isDigit (UInt8.ofNat c) || c == Generated.lexIdentExtraCont || c == 0
          || Generated.lexWhiteSpace.contains c)) = true := by decide +kernel

theorem generated_lex_keyword :
    Generated.lexKeywords = ["TERM"] ∧ lexDescr 8 [84, 69, 82, 77] [] = some [DTok.term, DTok.eof] := by decide +kernel

/-! ## semantic actions of `sgramm.y`

The constants are extracted where the translator still recognises the action (`none` otherwise:
then the obligation is vacuous and the correspondence alone ties the action). -/

/-- a terminal declared without `= NUMBER` gets the extracted "no code" value -/
theorem generated_sgramm_term_actions :
    ∀ c ∈ Generated.sgrammNoCode,
      (parseTermDecls 3 [DTok.ident "a", DTok.eof] {}).map (fun p => (p.1, p.2.sterms.map (fun t => (t.name, t.code)), p.2.srules.length)) =
        some ([DTok.eof], [("a", c)], 0) := by decide +kernel

/-- the scanner model's CHAR token takes the character at the extracted index of its representation -/
theorem generated_sgramm_char_index :
    (∀ k ∈ Generated.sgrammCharIndex, k = 1) ∧ charName 120 = "'x'" ∧ charCode 120 = 120 := by decide +kernel

/-- default cost of an abstract node, cost of a rule without abstract node -/
theorem generated_sgramm_trans_actions :
    (∀ c ∈ Generated.sgrammDefaultCost,
      parseTrans 3 [DTok.sym '#', DTok.ident "n", DTok.eof] = some ([DTok.eof], some "n", c, [])) ∧
    (∀ c ∈ Generated.sgrammNoAnodeCost,
      parseTrans 3 [DTok.sym '#', DTok.num 0, DTok.eof] = some ([DTok.eof], none, c, [0])) ∧
    parseTrans 3 [DTok.sym '#', DTok.sym '-', DTok.eof] = some ([DTok.eof], none, 0, [NIL_TRANSL]) ∧
    parseNumbers 3 [DTok.sym '-', DTok.eof] [] = ([DTok.eof], [NIL_TRANSL]) := by
  refine ⟨?_, ?_, ?_, ?_⟩ <;> decide +kernel

/-- implicit terminal codes start at the extracted value -/
theorem generated_sgramm_first_code :
    ∀ c ∈ Generated.sgrammFirstImplicitCode, assignCodes [⟨"a", -1⟩] [⟨"a", -1⟩] c.toNat = [("a", 256)] := by decide +kernel

/-- the threshold of the dense code table is the value the judge (and `CT.find_spec`) use, and it
meets the size condition of `CT.Pre` -/
theorem generated_code_table_size :
    Generated.symbCodeTransVectSize = 10000 ∧ (10000 : Nat) ≤ 2147483647 := by decide

end Yaep
