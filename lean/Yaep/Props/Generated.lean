import Yaep.Generated
import Yaep.Model.Api
import Yaep.Model.ReadGrammar
import Yaep.Model.GotoCache
/-!
# The constants the model uses are the ones the sources define now

`Yaep/Generated.lean` is rewritten on every run by `tools/extract_consts.py` from
`/repo/src/yaep.h` and `yaep.c`.  These theorems are re-elaborated whenever it changes: a
renumbered error code, a changed default, reserved name, NIL number or cache size breaks a
proof obligation even before the correspondence runs.
-/
namespace Yaep

open Generated in
/-- the documented error codes, in the numbering the model and the judge use -/
theorem generated_error_codes :
    errorCodes = [("YAEP_NO_MEMORY", 1), ("YAEP_UNDEFINED_OR_BAD_GRAMMAR", 2),
      ("YAEP_DESCRIPTION_SYNTAX_ERROR_CODE", 3), ("YAEP_FIXED_NAME_USAGE", 4), ("YAEP_REPEATED_TERM_DECL", 5),
      ("YAEP_NEGATIVE_TERM_CODE", 6), ("YAEP_REPEATED_TERM_CODE", 7), ("YAEP_NO_RULES", 8),
      ("YAEP_TERM_IN_RULE_LHS", 9), ("YAEP_INCORRECT_TRANSLATION", 10), ("YAEP_NEGATIVE_COST", 11),
      ("YAEP_INCORRECT_SYMBOL_NUMBER", 12), ("YAEP_REPEATED_SYMBOL_NUMBER", 13), ("YAEP_UNACCESSIBLE_NONTERM", 14),
      ("YAEP_NONTERM_DERIVATION", 15), ("YAEP_LOOP_NONTERM", 16), ("YAEP_INVALID_TOKEN_CODE", 17)] := by decide

theorem generated_nil_translation : Generated.nilTranslationNumber = (NIL_TRANSL : Int) := by decide

theorem generated_reserved_names :
    Generated.axiomName = AXIOM_NAME ∧ Generated.endMarkerName = END_MARKER_NAME ∧
    Generated.termErrorName = TERM_ERROR_NAME ∧ Generated.endMarkerCode = -1 ∧ Generated.termErrorCode = -2 := by decide

/-- the defaults of `yaep_create_grammar` are the defaults of a new model object (C15) -/
theorem generated_defaults :
    let s : Settings := {}
    Generated.default_lookahead_level = s.la ∧ Generated.default_debug_level = s.debug ∧
    Generated.default_one_parse_p = s.one ∧ Generated.default_cost_p = s.cost ∧
    Generated.default_error_recovery_p = s.recov ∧ Generated.default_recovery_token_matches = s.rmatch ∧
    Generated.default_error_code = ({} : ObjState).lastErr := by decide

theorem generated_cache_size : Generated.maxCachedGotoResults = (MAX_CACHED_GOTO_RESULTS : Int) := by decide

/-- the message buffer the judge checks messages against (C12) -/
theorem generated_message_length : Generated.maxErrorMessageLength = 200 := by decide

end Yaep
