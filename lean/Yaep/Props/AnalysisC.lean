import Yaep.Lemmas.AnalysisCEad
import Yaep.Lemmas.AnalysisCLoop
import Yaep.Lemmas.AnalysisCFFMain
import Yaep.Lemmas.AnalysisCVariants
import Yaep.Lemmas.CheckGrammar
import Yaep.Props.C10
/-!
# The three fixpoint loops of `check_grammar`, step for step, compute the abstract analysis

`Yaep/Model/AnalysisC.lean` transcribes `set_empty_access_derives`, `set_loop_p`,
`create_first_follow_sets` and the error selection of `check_grammar` as written in
`yaep.c`.  Here: each loop terminates within its fuel; the flags / sets it leaves are exactly
`Grammar.nullable`, `Grammar.productive`, `Grammar.reachable`, `Grammar.loopSet`,
`Grammar.firstTab`, `Grammar.followTab` of `Yaep/Model/Analysis.lean`; the error code is
`checkGrammar`; and four realistic mistakes in the loops are caught on concrete grammars (TESTS).

The side condition `g.symsInRange` (every symbol number of a rule is below the size of its
symbol table — the C loops enumerate `nonterm_get (0 … n_nonterms - 1)`) is what
`yaep_read_grammar` guarantees for the grammar it analyses (`buildGrammar_ok`,
`readGrammar_symsInRange`).
-/
namespace Yaep.AC

/-! ## termination: the fuel suffices -/

/-- `set_empty_access_derives`: the loop ends by itself within `eadFuel g` passes, more fuel gives
the same result, and the result is a fixpoint: one more pass changes nothing and raises no flag -/
theorem emptyAccessDerives_fuel_suffices (g : Grammar) :
    doWhile (eadPass g) (eadFuel g) (eadInit g) = some (emptyAccessDerives g) ∧
    (∀ k, doWhile (eadPass g) (eadFuel g + k) (eadInit g) = some (emptyAccessDerives g)) ∧
    eadPass g (emptyAccessDerives g) = (emptyAccessDerives g, false) := by
  obtain ⟨r, hr⟩ := Option.isSome_iff_exists.mp (ead_isSome g)
  have he : emptyAccessDerives g = r := by
    unfold emptyAccessDerives; rw [hr]; rfl
  obtain ⟨_, h2, h3, _⟩ := emptyAccessDerives_fix g
  rw [he] at h2 h3 ⊢
  exact ⟨hr, fun k => doWhile_mono _ _ _ _ k hr, Prod.ext h2 h3⟩

/-- why it terminates: a pass never clears a flag, a pass that raises a change flag sets a flag
that was clear, and there are only `3 * |symUniv g|` flags -/
theorem eadPass_grows (g : Grammar) (fl : Flags) :
    Flags.Le fl (eadPass g fl).1 ∧
    ((eadPass g fl).2 = true → eadMu g fl < eadMu g (eadPass g fl).1) ∧
    eadMu g fl ≤ 3 * (symUniv g).length :=
  ⟨eadPass_le g fl, eadPass_progress g fl, eadMu_le g fl⟩

/-- `set_loop_p` (for any `empty_p` flags) -/
theorem loopC_fuel_suffices (g : Grammar) (empty : Sym → Bool) :
    doWhile (loopPass g empty) (loopFuel g) (loopInit g empty) = some (loopWith g empty) ∧
    (∀ k, doWhile (loopPass g empty) (loopFuel g + k) (loopInit g empty) =
      some (loopWith g empty)) ∧
    loopPass g empty (loopWith g empty) = (loopWith g empty, false) := by
  obtain ⟨r, hr⟩ := Option.isSome_iff_exists.mp (loop_isSome g empty)
  have he : loopWith g empty = r := by
    unfold loopWith; rw [hr]; rfl
  obtain ⟨s0, _, h1, h2⟩ := doWhile_spec (loopPass g empty) (fun _ => True) (fun _ _ => trivial)
    _ _ _ trivial hr
  obtain ⟨h3, _⟩ := loopPass_noChange g empty s0 h2
  have hrs : r = s0 := h1.symm.trans h3
  subst hrs
  rw [he]
  exact ⟨hr, fun k => doWhile_mono _ _ _ _ k hr, Prod.ext h3 h2⟩

/-- why it terminates: a pass never sets a flag, a pass that raises `changed_p` clears one of the
`nN` flags -/
theorem loopPass_shrinks (g : Grammar) (empty : Sym → Bool) (lp : Nat → Bool) :
    (∀ A, (loopPass g empty lp).1 A = true → lp A = true) ∧
    ((loopPass g empty lp).2 = true → loopMu g lp < loopMu g (loopPass g empty lp).1) ∧
    loopMu g lp ≤ g.nN :=
  ⟨loopPass_le g empty lp, loopPass_progress g empty lp, Nat.sub_le _ _⟩

/-- the `empty_p` flags `check_grammar` hands to the two later loops are the abstract ones -/
theorem emptyOK (g : Grammar) (h : g.symsInRange = true) : EmptyOK g (emptyAccessDerives g).empty :=
  fun s => ead_empty_eq (LhsInRange.of_symsInRange h) s

/-- `create_first_follow_sets` -/
theorem firstFollowC_fuel_suffices (g : Grammar) (h : g.symsInRange = true) :
    doWhile (ffPass g (emptyAccessDerives g).empty) (ffFuel g) ffInit = some (firstFollowC g) ∧
    (∀ k, doWhile (ffPass g (emptyAccessDerives g).empty) (ffFuel g + k) ffInit =
      some (firstFollowC g)) ∧
    ffPass g (emptyAccessDerives g).empty (firstFollowC g) = (firstFollowC g, false) := by
  obtain ⟨r, hr⟩ := Option.isSome_iff_exists.mp (ff_isSome h (emptyOK g h))
  have he : firstFollowC g = r := by
    unfold firstFollowC firstFollowWith; rw [hr]; rfl
  have hfix := (firstFollowWith_fix h (emptyOK g h)).2.1
  change ffPass g (emptyAccessDerives g).empty (firstFollowC g) = (firstFollowC g, false) at hfix
  rw [he] at hfix ⊢
  exact ⟨hr, fun k => doWhile_mono _ _ _ _ k hr, hfix⟩

/-- why it terminates: the sets only grow, `changed_p` goes up only if one of them did grow, and
(all terminals they ever hold being justified, hence `< nT`) they hold at most `2 * nN * nT` -/
theorem ffPass_grows (g : Grammar) (h : g.symsInRange = true) (empty : Sym → Bool)
    (hE : EmptyOK g empty) (ff : FF) (hs : FFSound g ff) :
    FF.Le ff (ffPass g empty ff).1 ∧ FFSound g (ffPass g empty ff).1 ∧
    ((ffPass g empty ff).2 = true → ffMu g ff < ffMu g (ffPass g empty ff).1) ∧
    ffMu g ff ≤ 2 * (g.nN * g.nT) :=
  ⟨(ffPass_grow g empty ff).1, ffPass_sound h hE hs,
    fun hc => ffMu_lt h (ffPass_grow g empty ff) (ffPass_sound h hE hs) rfl hc, ffMu_le g ff⟩

/-! ## `set_empty_access_derives` = `nullable`, `productive`, `reachable` -/

/-- **The flags `set_empty_access_derives` leaves are the abstract sets.**  The right-hand-side
scan of the C loop has no `break`, and `access_p` is propagated from every accessible left-hand
side to *all* its right-hand-side symbols, so nothing is lost; the only condition is that every
left-hand side is among the nonterminals `nonterm_get` enumerates. -/
theorem emptyAccessDerives_eq (g : Grammar) (h : g.symsInRange = true) (A : Nat) :
    ((emptyAccessDerives g).empty (.n A) = true ↔ A ∈ g.nullable) ∧
    ((emptyAccessDerives g).deriv (.n A) = true ↔ A ∈ g.productive) ∧
    ((emptyAccessDerives g).access (.n A) = true ↔ A ∈ g.reachable) :=
  have hl := LhsInRange.of_symsInRange h
  ⟨ead_empty_iff hl A, ead_deriv_iff hl A, ead_access_iff hl A⟩

/-- the flags of the terminals: never `empty_p`, always `derivation_p`, `access_p` iff the
terminal occurs in a rule of an accessible nonterminal -/
theorem emptyAccessDerives_terminal (g : Grammar) (h : g.symsInRange = true) (a : Nat) :
    (emptyAccessDerives g).empty (.t a) = false ∧
    (emptyAccessDerives g).deriv (.t a) = true ∧
    ((emptyAccessDerives g).access (.t a) = true ↔
      ∃ rl ∈ g.rules, rl.lhs ∈ g.reachable ∧ Sym.t a ∈ rl.rhs) :=
  ⟨ead_empty_t g a, ead_deriv_t g a, ead_access_t_iff (LhsInRange.of_symsInRange h) a⟩

/-- … and hence the declarative notions (`Yaep/Props/C10.lean`) -/
theorem emptyAccessDerives_correct (g : Grammar) (h : g.symsInRange = true) (A : Nat) :
    ((emptyAccessDerives g).empty (.n A) = true ↔ Nullable g A) ∧
    ((emptyAccessDerives g).deriv (.n A) = true ↔ Productive g A) ∧
    ((emptyAccessDerives g).access (.n A) = true ↔ Reachable g A) := by
  obtain ⟨h1, h2, h3⟩ := emptyAccessDerives_eq g h A
  exact ⟨h1.trans (nullable_correct g A), h2.trans (productive_correct g A),
    h3.trans (reachable_correct g A)⟩

/-! ## `create_first_follow_sets` = `firstTab`, `followTab` -/

/-- **FIRST and FOLLOW of the C loop are the abstract tables**, as sets of
(nonterminal, terminal) pairs -/
theorem firstFollowC_eq (g : Grammar) (h : g.symsInRange = true) (A a : Nat) :
    (((firstFollowC g).first A).testBit a = true ↔ (A, a) ∈ g.firstTab) ∧
    (((firstFollowC g).follow A).testBit a = true ↔ (A, a) ∈ g.followTab) :=
  ⟨firstFollowWith_first_iff h (emptyOK g h) A a, firstFollowWith_follow_iff h (emptyOK g h) A a⟩

/-! ## `set_loop_p` = `loopSet` -/

/-- **the `loop_p` flags `set_loop_p` leaves are the abstract `loopSet`** (equality, not only
emptiness) -/
theorem loopC_eq (g : Grammar) (h : g.symsInRange = true) (A : Nat) :
    loopC g A = true ↔ A ∈ g.loopSet :=
  loopWith_iff h (emptyOK g h) A

/-- some `loop_p` is left set iff some nonterminal derives itself -/
theorem loopC_exists_iff (g : Grammar) (h : g.symsInRange = true) :
    (∃ A, loopC g A = true) ↔ Cyclic g := by
  rw [← loop_exists_iff]
  constructor
  · rintro ⟨A, hA⟩ hnil
    have := (loopC_eq g h A).mp hA
    rw [hnil] at this; cases this
  · intro hne
    cases hl : g.loopSet with
    | nil => exact absurd hl hne
    | cons A t => exact ⟨A, (loopC_eq g h A).mpr (by rw [hl]; exact List.mem_cons_self)⟩

/-- the flagged nonterminals are among those `check_grammar` looks at -/
theorem loopC_lt (g : Grammar) (h : g.symsInRange = true) {A : Nat} (hA : loopC g A = true) :
    A < g.nN := by
  obtain ⟨B, he⟩ := loopSet_target g ((loopC_eq g h A).mp hA)
  exact edge_target_lt h he

/-! ## `check_grammar` -/

/-- **the error code `check_grammar` selects from the C-style flags is `checkGrammar`**; the
non-strict branch reads `rules_ptr->first_rule->rhs[0]`, which is the start symbol -/
theorem checkGrammarC_eq_of_start (g : Grammar) (h : g.symsInRange = true) (strict : Bool)
    (hstart : ∃ r0 rest tl, g.rules = r0 :: rest ∧ r0.rhs = Sym.n g.startN :: tl) :
    checkGrammarC g strict = checkGrammar g strict := by
  have hl := LhsInRange.of_symsInRange h
  have hd : ∀ A, (emptyAccessDerives g).deriv (.n A) = g.productive.contains A := by
    intro A
    have := ead_deriv_iff hl A
    cases hx : (emptyAccessDerives g).deriv (.n A) <;> cases hy : g.productive.contains A <;>
      simp_all
  have ha : ∀ A, (emptyAccessDerives g).access (.n A) = g.reachable.contains A := by
    intro A
    have := ead_access_iff hl A
    cases hx : (emptyAccessDerives g).access (.n A) <;> cases hy : g.reachable.contains A <;>
      simp_all
  have hloop : (List.range g.nN).any (loopC g) = !g.loopSet.isEmpty := by
    cases hl' : g.loopSet with
    | nil =>
      simp only [List.isEmpty_nil, Bool.not_true]
      rw [List.any_eq_false]
      intro A _ hA
      have := (loopC_eq g h A).mp hA
      rw [hl'] at this; cases this
    | cons A t =>
      simp only [List.isEmpty_cons, Bool.not_false]
      rw [List.any_eq_true]
      have hA : loopC g A = true := (loopC_eq g h A).mpr (by rw [hl']; exact List.mem_cons_self)
      exact ⟨A, List.mem_range.mpr (loopC_lt g h hA), hA⟩
  obtain ⟨r0, rest, tl, hr, hr0⟩ := hstart
  rw [checkGrammar_eq]
  unfold checkGrammarC strictErr
  simp only [hd, ha, hloop, hr, hr0, List.head?_cons]
  cases strict <;> simp only [Bool.false_eq_true, if_false, if_true] <;> split <;>
    rename_i heq <;> rw [heq] <;> first | rfl | (cases g.loopSet.isEmpty <;> rfl)

/-- for a well-formed grammar (rule 0 is `$S : start $eof`) -/
theorem checkGrammarC_eq (g : Grammar) (h : g.symsInRange = true) (hwf : g.WF) (strict : Bool) :
    checkGrammarC g strict = checkGrammar g strict := by
  apply checkGrammarC_eq_of_start g h strict
  obtain ⟨h0, _⟩ := hwf
  cases hr : g.rules with
  | nil => rw [hr] at h0; simp at h0
  | cons r0 rest =>
    rw [hr] at h0
    simp only [List.getElem?_cons_zero, Option.map_some, Option.some.injEq, Prod.mk.injEq] at h0
    exact ⟨r0, rest, [Sym.t g.eofT], rfl, h0.2⟩

/-- for every grammar `yaep_read_grammar` builds and hands to `check_grammar` -/
theorem checkGrammarC_eq_built {raw : RawGrammar} {g : Grammar} (hb : buildGrammar raw = .ok g)
    (strict : Bool) : checkGrammarC g strict = checkGrammar g strict := by
  obtain ⟨_, hwf, hr⟩ := buildGrammar_ok hb
  exact checkGrammarC_eq g hr hwf strict

/-- `yaep_read_grammar` with the step-for-step `check_grammar` is the model `readGrammar` -/
theorem readGrammar_eq_C (raw : RawGrammar) :
    readGrammar raw =
      match buildGrammar raw with
      | .error c => .error c
      | .ok g =>
        if checkGrammarC g raw.strict ≠ 0 then .error (checkGrammarC g raw.strict) else .ok g := by
  rw [readGrammar_eq]
  cases hb : buildGrammar raw with
  | error c => rfl
  | ok g => simp only [checkGrammarC_eq_built hb]

/-- the analysis results of an accepted grammar: what the parser later reads from the symbols -/
theorem readGrammar_analysis {raw : RawGrammar} {g : Grammar} (h : readGrammar raw = .ok g)
    (A a : Nat) :
    ((emptyAccessDerives g).empty (.n A) = true ↔ Nullable g A) ∧
    (((firstFollowC g).first A).testBit a = true ↔ (A, a) ∈ g.firstTab) ∧
    (((firstFollowC g).follow A).testBit a = true ↔ (A, a) ∈ g.followTab) ∧
    loopC g A = false := by
  have hr := readGrammar_symsInRange h
  refine ⟨(emptyAccessDerives_correct g hr A).1, (firstFollowC_eq g hr A a).1,
    (firstFollowC_eq g hr A a).2, ?_⟩
  have hc := (readGrammar_ok_build.mp h).2
  have hcyc := ((checkGrammar_spec g raw.strict).mp hc).1
  cases hl : loopC g A
  · rfl
  · exact absurd ((loopC_exists_iff g hr).mp ⟨A, hl⟩) hcyc

/-! ## non-vacuity: the loops on concrete grammars (`gOk`, `gCyc`, `gUnprod`, `gUnreach`, `rawOk`
of `Yaep/Props/C10.lean`) -/

/-- the flags `e= a= d= l=` of `$S`, `S`, `A` in `gOk` (`S : A 'a'; A : ;`) -/
example : flagRows gOk =
    [(false, true, true, false), (false, true, true, false), (true, true, true, false)] := by decide

example : Nullable gOk 2 :=
  ((emptyAccessDerives_correct gOk (by decide) 2).1).mp (by decide)
example : ¬ Productive gUnprod 1 := fun hp =>
  absurd (((emptyAccessDerives_correct gUnprod (by decide) 1).2.1).mpr hp) (by decide)
example : ¬ Reachable gUnreach 2 := fun hp =>
  absurd (((emptyAccessDerives_correct gUnreach (by decide) 2).2.2).mpr hp) (by decide)

/-- FIRST (`S`) = {`a`}, FOLLOW (`S`) = {`$eof`}, FOLLOW (`A`) = {`a`} in `gOk` -/
example : maskList gOk.nT ((firstFollowC gOk).first 1) = [2] ∧
    maskList gOk.nT ((firstFollowC gOk).follow 1) = [1] ∧
    maskList gOk.nT ((firstFollowC gOk).follow 2) = [2] := by decide
example : (2, 2) ∈ gOk.followTab := ((firstFollowC_eq gOk (by decide) 2 2).2).mp (by decide)

/-- `S : A S` with `A` nullable: `loop_p` stays set for `S` only -/
example : (List.range gCyc.nN).map (loopC gCyc) = [false, true, false] := by decide
example : Cyclic gCyc := (loopC_exists_iff gCyc (by decide)).mp ⟨1, by decide⟩
example : ¬ Cyclic gOk := fun hc => by
  obtain ⟨A, hA⟩ := (loopC_exists_iff gOk (by decide)).mpr hc
  have hlt := loopC_lt gOk (by decide) hA
  have : ∀ B < gOk.nN, loopC gOk B = false := by decide
  rw [this A hlt] at hA
  cases hA

/-- the four outcomes of `check_grammar` -/
example : checkGrammarC gOk true = 0 ∧ checkGrammarC gCyc false = 16 ∧
    checkGrammarC gUnprod false = 15 ∧ checkGrammarC gUnreach true = 14 ∧
    checkGrammarC gUnreach false = 0 := by decide

/-- the loops end well inside their fuel: number of passes `set_empty_access_derives` makes on
`gOk` is 3 (fuel 31) -/
example : (doWhile (eadPass gOk) 3 (eadInit gOk)).isSome = true ∧
    (doWhile (eadPass gOk) 2 (eadInit gOk)).isSome = false ∧ eadFuel gOk = 31 := by decide

/-- an accepted definition, end to end (`yaep_read_grammar` with the step-for-step
`check_grammar`) -/
example : (readGrammar rawOk).isOk = true := by
  rw [readGrammar_eq_C]
  decide

/-- a rejected one: `S : S; S : 'a'` has a loop -/
example : (match readGrammar rawCyclic with | .error c => c | .ok _ => 0) = 16 := by
  rw [readGrammar_eq_C]
  decide

/-- the side condition matters: a rule whose left-hand side is not among the `nN` nonterminals
`nonterm_get` enumerates is never visited (`yaep_read_grammar` cannot build such a grammar) -/
example :
    let g : Grammar := { rules := [{ lhs := 5, rhs := [] }] }
    5 ∈ g.nullable ∧ (emptyAccessDerives g).empty (.n 5) = false ∧ g.symsInRange = false := by
  decide

/-! ## TESTS: four historic mistakes, each caught on a concrete grammar

Each `Variant.…` of `Yaep/Lemmas/AnalysisCVariants.lean` is the transcription with one mistake;
the unmodified transcription gives the abstract answer on the same grammar (by the theorems
above and, redundantly, by `decide` here). -/

/-- (a) `$S : S $eof; S : B; S : 'a'; B : A; A : C; A : 'a'; C : ; $S : error $eof` -/
def gMistakeA : Grammar :=
  { rules := [{ lhs := 1, rhs := [.n 0, .t 2] }, { lhs := 0, rhs := [.n 2] },
              { lhs := 0, rhs := [.t 0] }, { lhs := 2, rhs := [.n 3] }, { lhs := 3, rhs := [.n 4] },
              { lhs := 3, rhs := [.t 0] }, { lhs := 4, rhs := [] },
              { lhs := 1, rhs := [.t 1, .t 2] }],
    termNames := ["a", "error", "$eof"], ntNames := ["S", "$S", "B", "A", "C"],
    errT := 1, eofT := 2, axiomN := 1, startN := 0 }

/-- TEST (a): the change of `empty_p` recorded against `derivation_p`: `A` and `B`, already
known to be productive, become `empty_p` silently, the loop stops one pass early and `S`
(visited before them) is never marked although `S ⇒ B ⇒ A ⇒ C ⇒ ε` -/
example : (Variant.emptyAccessDerivesA gMistakeA).empty (.n 0) = false ∧
    0 ∈ gMistakeA.nullable ∧ (emptyAccessDerives gMistakeA).empty (.n 0) = true := by decide

/-- (b) `$S : S $eof; S : U B; S : 'b'; B : 'b'; $S : error $eof` (`U` has no rule) -/
def gMistakeB : Grammar :=
  { rules := [{ lhs := 1, rhs := [.n 0, .t 2] }, { lhs := 0, rhs := [.n 2, .n 3] },
              { lhs := 0, rhs := [.t 0] }, { lhs := 3, rhs := [.t 0] },
              { lhs := 1, rhs := [.t 1, .t 2] }],
    termNames := ["b", "error", "$eof"], ntNames := ["S", "$S", "U", "B"],
    errT := 1, eofT := 2, axiomN := 1, startN := 0 }

/-- TEST (b): the scan leaves at `U` (no `derivation_p`), so `B` behind it is never marked
accessible, in a grammar the non-strict `check_grammar` accepts -/
example : (Variant.emptyAccessDerivesB gMistakeB).access (.n 3) = false ∧
    3 ∈ gMistakeB.reachable ∧ (emptyAccessDerives gMistakeB).access (.n 3) = true ∧
    checkGrammar gMistakeB false = 0 := by decide

/-- (c) `$S : S $eof; S : A N; A : 'a'; N : ; $S : error $eof` -/
def gMistakeC : Grammar :=
  { rules := [{ lhs := 1, rhs := [.n 0, .t 2] }, { lhs := 0, rhs := [.n 2, .n 3] },
              { lhs := 2, rhs := [.t 0] }, { lhs := 3, rhs := [] },
              { lhs := 1, rhs := [.t 1, .t 2] }],
    termNames := ["a", "error", "$eof"], ntNames := ["S", "$S", "A", "N"],
    errT := 1, eofT := 2, axiomN := 1, startN := 0 }

/-- TEST (c): FOLLOW of the left-hand side given to the last symbol only: `$eof ∉ FOLLOW (A)`
although `N` behind `A` is nullable -/
example : ((Variant.firstFollowC' gMistakeC).follow 2).testBit 2 = false ∧
    (2, 2) ∈ gMistakeC.followTab ∧ ((firstFollowC gMistakeC).follow 2).testBit 2 = true := by
  decide

/-- (d) `$S : S $eof; S : 'a'; X2 : 'a' X3; X3 : 'a'; X1 : 'a' X2; S : 'a' X1; $S : error $eof`
(nonterminals `S, $S, X2, X3, X1`) -/
def gMistakeD : Grammar :=
  { rules := [{ lhs := 1, rhs := [.n 0, .t 2] }, { lhs := 0, rhs := [.t 0] },
              { lhs := 2, rhs := [.t 0, .n 3] }, { lhs := 3, rhs := [.t 0] },
              { lhs := 4, rhs := [.t 0, .n 2] }, { lhs := 0, rhs := [.t 0, .n 4] },
              { lhs := 1, rhs := [.t 1, .t 2] }],
    termNames := ["a", "error", "$eof"], ntNames := ["S", "$S", "X2", "X3", "X1"],
    errT := 1, eofT := 2, axiomN := 1, startN := 0 }

/-- TEST (d): the inheritance of FOLLOW does not raise `changed_p`: `$eof` reaches `X1` and
`X2` in the second pass, nothing else changes, the loop stops and `$eof ∉ FOLLOW (X3)` -/
example : ((Variant.firstFollowD gMistakeD).follow 3).testBit 2 = false ∧
    (3, 2) ∈ gMistakeD.followTab ∧ ((firstFollowC gMistakeD).follow 3).testBit 2 = true := by
  decide

/-- the generic pass builders used by variants (c) and (d), with the unmodified loop body, are
the transcription itself (here on the two test grammars) -/
example : (List.range 5).all (fun A =>
    (Variant.firstFollowGeneric gMistakeD).follow A == (firstFollowC gMistakeD).follow A &&
    (Variant.firstFollowGeneric gMistakeC).first A == (firstFollowC gMistakeC).first A) = true := by
  decide

end Yaep.AC
