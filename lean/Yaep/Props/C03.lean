import Yaep.Lemmas.Forest
import Yaep.Lemmas.Examples
/-!
# C03 — the exported node table denotes the trees of its unfolding

`denoteTab` (a left fold over the post-order table, what the judge computes) agrees with the
structural denotation `denote` of the DAG unfolded at each entry: an abstract node picks
one tree per child independently, an ALT node is the union of its alternatives.
-/
namespace Yaep

/-- `prodAll` picks one element from every list: elementwise membership … -/
theorem mem_prodAll_pointwise {α : Type} {ls : List (List α)} {l : List α} :
    l ∈ prodAll ls ↔ Pointwise (fun x xs => x ∈ xs) l ls :=
  mem_prodAll_forall₂

/-- … i.e. same length and the `k`-th element is taken from the `k`-th list -/
theorem mem_prodAll {α : Type} {ls : List (List α)} {l : List α} :
    l ∈ prodAll ls ↔
      l.length = ls.length ∧
        ∀ (k : Nat) (h1 : k < l.length) (h2 : k < ls.length), l[k] ∈ ls[k] :=
  mem_prodAll_forall₂.trans forall₂_iff_getElem

/-- the trees of an abstract node: one tree of every child, independently -/
theorem mem_denote_anode {n : String} {c : Nat} {ks : List Node} {t : Tree} :
    t ∈ denote (.anode n c ks) ↔
      ∃ l, t = .anode n c l ∧ Pointwise (fun x k => x ∈ denote k) l ks :=
  mem_denote_anode_iff

/-- the trees of an ALT node: the trees of its alternatives -/
theorem mem_denote_alt {as : List Node} {t : Tree} :
    t ∈ denote (.alt as) ↔ ∃ a ∈ as, t ∈ denote a :=
  mem_denote_alt_iff

/-- the fold computes one list per table entry -/
theorem denoteTab_size' (tab : Array NodeRec) : (denoteTab tab).size = tab.size :=
  denoteTab_size tab

/-- on a topologically ordered table the fold satisfies the recursive equation of the
denotation: the value of entry `i` is `denoteRec` of the (final) values of its children -/
theorem denoteTab_rec {tab : Array NodeRec} (h : tableWF tab = true) {i : Nat}
    (hi : i < tab.size) :
    (denoteTab tab).getD i [] = denoteRec (denoteTab tab) (tab.getD i .bad) := by
  rw [Array.getD_eq_getD_getElem?, denoteTab_getElem? h hi, Option.getD_some]

/-- the fold over the table computes the denotation of the DAG rooted at `i` (any fuel
above `i` unfolds the DAG completely) -/
theorem denoteTab_spec {tab : Array NodeRec} (h : tableWF tab = true) {i : Nat}
    (hi : i < tab.size) {fuel : Nat} (hf : i < fuel) :
    (denoteTab tab)[i]! = denote (unfold tab fuel i) := by
  rw [← denoteTab_getD_unfold h i hi fuel hf, Array.getD_eq_getD_getElem?]
  simp [denoteTab_size, hi]

theorem denoteTab_spec_getD {tab : Array NodeRec} (h : tableWF tab = true) {i : Nat}
    (hi : i < tab.size) {fuel : Nat} (hf : i < fuel) :
    (denoteTab tab).getD i [] = denote (unfold tab fuel i) :=
  denoteTab_getD_unfold h i hi fuel hf

theorem denoteTab_spec_at {tab : Array NodeRec} (h : tableWF tab = true) {i : Nat}
    (hi : i < tab.size) : (denoteTab tab)[i]! = denote (unfoldAt tab i) :=
  denoteTab_spec h hi (Nat.lt_succ_self i)

/-- more fuel does not change the unfolding of a well-formed table -/
theorem unfold_fuel {tab : Array NodeRec} (h : tableWF tab = true) {i : Nat}
    (hi : i < tab.size) {fuel : Nat} (hf : i < fuel) : unfold tab fuel i = unfoldAt tab i :=
  unfold_fuel_indep h i hi fuel (i + 1) hf (Nat.lt_succ_self i)

/-- `countTab` is the number of denoted trees (with multiplicity) of every entry, which is
what the judge uses to decide whether enumerating the denotation is affordable -/
theorem countTab_spec {tab : Array NodeRec} (h : tableWF tab = true) {i : Nat}
    (hi : i < tab.size) :
    (countTab tab).getD i 0 = ((denoteTab tab).getD i []).length :=
  countTab_getD_length h i hi

/-- the number of denoted trees of the unfolded forest -/
theorem countTab_spec_denote {tab : Array NodeRec} (h : tableWF tab = true) {i : Nat}
    (hi : i < tab.size) :
    (countTab tab).getD i 0 = (denote (unfoldAt tab i)).length := by
  rw [countTab_spec h hi, denoteTab_spec_getD h hi (Nat.lt_succ_self i)]; rfl

/-! ## non-vacuity -/

namespace C03Ex

example : tableWF tab = true := by decide
example : unfoldAt tab 5 =
    .anode "top" 0 [.alt [.anode "x" 1 [.term 97 0], .anode "y" 2 [.term 98 1]], .term 97 0] := by
  rfl
example : denote (unfoldAt tab 5) =
    [.anode "top" 0 [.anode "x" 1 [.term 97 0], .term 97 0],
     .anode "top" 0 [.anode "y" 2 [.term 98 1], .term 97 0]] := by rfl
example : (denoteTab tab)[5]! = denote (unfoldAt tab 5) := denoteTab_spec_at (by decide) (by decide)
example : (denoteTab tab)[5]! =
    [.anode "top" 0 [.anode "x" 1 [.term 97 0], .term 97 0],
     .anode "top" 0 [.anode "y" 2 [.term 98 1], .term 97 0]] := by
  rw [denoteTab_spec_at (by decide) (by decide)]; rfl
example : (denoteTab tab).getD 4 [] = denote (unfold tab 9 4) :=
  denoteTab_spec_getD (by decide) (by decide) (by decide)
example : unfold tab 9 4 = unfoldAt tab 4 := unfold_fuel (by decide) (by decide) (by decide)
example : (denoteTab tab).size = 6 := denoteTab_size' tab
example : (countTab tab).getD 5 0 = 2 := by decide
example : (countTab tab).getD 5 0 = ((denoteTab tab).getD 5 []).length :=
  countTab_spec (by decide) (by decide)
example : (countTab tab).getD 5 0 = (denote (unfoldAt tab 5)).length :=
  countTab_spec_denote (by decide) (by decide)
example : (denoteTab tab).getD 4 [] = denoteRec (denoteTab tab) (.alt [2, 3]) :=
  denoteTab_rec (tab := tab) (by decide) (by decide)
example : [1, 4] ∈ prodAll [[1, 2], [3, 4]] := mem_prodAll.2 ⟨rfl, by
  intro k h1 h2
  match k, h1, h2 with
  | 0, _, _ => simp
  | 1, _, _ => simp⟩
example : [2, 3] ∈ prodAll [[1, 2], [3, 4]] :=
  mem_prodAll_pointwise.2 (.cons (by simp) (.cons (by simp) .nil))
example : (denoteTab tab)[4]! = denote (unfold tab 7 4) :=
  denoteTab_spec (by decide) (by decide) (by decide)
example : prodAll [[1, 2], [3, 4]] = [[1, 3], [1, 4], [2, 3], [2, 4]] := by decide
example : prodAll [[1, 2], [], [3, 4]] = [] := by decide
example : Tree.anode "x" 1 [.term 97 0] ∈ denote (.alt [.nil, .anode "x" 1 [.term 97 0]]) :=
  mem_denote_alt.2 ⟨.anode "x" 1 [.term 97 0], by simp,
    mem_denote_anode.2 ⟨_, rfl, .cons (by simp [denote]) .nil⟩⟩
/-- a table that is not topologically ordered is rejected -/
example : tableWF #[.alt [1], .nil] = false := by decide

end C03Ex

end Yaep
