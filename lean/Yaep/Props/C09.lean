import Yaep.Lemmas.GotoCache
/-!
# C09: internally reusing a previously computed Earley set always yields the set a fresh
computation would produce

(Section `Yaep.Cache`: the goto cache of `build_pl`, model in `Yaep/Model/GotoCache.lean`,
helper lemmas in `Yaep/Lemmas/GotoCache.lean`.)

A set is stored with distances instead of origins (`toRel`, `storedAt`).  The test of
`check_cached_transition_set` (`validAt`) compares, for every item of the cached result with
distance `> 1`, the stored sets that far back from the two places.  `nextSet_congr` shows that
this is all a fresh computation can see; hence a valid hit is the fresh set
(`cache_hit_sound`) and the cached loop computes the same parse list and the same error
position as the plain one (`parseLoopCached_eq`, `buildPLCached_eq`).  No counterexample to
the C test exists in the model: the theorems hold for the test as it is.
-/
namespace Yaep
namespace Cache

/-! ## example grammars -/

/-- `S : 'a' S | 'a'` -- with lookahead 1 every set after an `a` that is followed by an `a` is
the same stored set -/
def gRight : Grammar :=
  { rules := [{ lhs := 0, rhs := [.n 1, .t 1] }, { lhs := 1, rhs := [.t 2, .n 1] },
              { lhs := 1, rhs := [.t 2] }, { lhs := 0, rhs := [.t 0, .t 1] }],
    termNames := ["error", "$eof", "a"], termCodes := [-2, -1, 97], ntNames := ["$S", "S"],
    errT := 0, eofT := 1, axiomN := 0, startN := 1 }

/-- `L : E L | E;  E : '(' E ')' | 'a'` -- results with distances `> 1` are reused -/
def gParen : Grammar :=
  { rules := [{ lhs := 0, rhs := [.n 1, .t 1] }, { lhs := 1, rhs := [.n 2, .n 1] },
              { lhs := 1, rhs := [.n 2] }, { lhs := 2, rhs := [.t 2, .n 2, .t 3] },
              { lhs := 2, rhs := [.t 4] }, { lhs := 0, rhs := [.t 0, .t 1] }],
    termNames := ["error", "$eof", "(", ")", "a"], termCodes := [-2, -1, 40, 41, 97],
    ntNames := ["$S", "L", "E"], errT := 0, eofT := 1, axiomN := 0, startN := 1 }

/-- `( ( a ) ) ( ( a ) ) a` -/
def wParen : List Nat := [2, 2, 4, 3, 3, 2, 2, 4, 3, 3, 4]

/-! ## a set depends on the list only through the stored sets at its own distances -/

/-- Two parse lists whose last sets are the same stored set and which, for every item of the
new set (computed from the first list) with distance `> 1`, hold the same stored set that far
back, produce the same stored new set.  (`ok`, the lookahead filter, is the same function:
the lookahead terminal is part of the cache key.) -/
theorem nextSet_congr (g : Grammar) (ok : Nat → Nat → Bool) {pl pl' : List (List Item)}
    (hpl : WfPL pl) (hpl' : WfPL pl') (hne : pl ≠ []) (hne' : pl' ≠ []) (a : Nat)
    (hcur : storedAt pl (pl.length - 1) = storedAt pl' (pl'.length - 1))
    (hagree : ∀ p ∈ toRel pl.length (nextSet g ok pl a), 1 < p.2.2 →
      storedAt pl (pl.length - p.2.2) = storedAt pl' (pl'.length - p.2.2)) :
    toRel pl.length (nextSet g ok pl a) = toRel pl'.length (nextSet g ok pl' a) :=
  nextSet_congr_aux g ok hpl hpl' hne hne' a hcur hagree

/-- the parse lists the loop builds are well formed -/
theorem wfPL_start (g : Grammar) : WfPL [set0 g] := wfPL_set0 g

theorem wfPL_snoc {g : Grammar} {ok : Nat → Nat → Bool} {pl : List (List Item)} (hpl : WfPL pl)
    (hne : pl ≠ []) (a : Nat) : WfPL (pl ++ [nextSet g ok pl a]) :=
  hpl.snoc (nextSet_upto g ok hpl hne a)

/-! ## the cache -/

/-- under the cache invariant (every stored result was computed by `nextSet` at its place from
the prefix of the list that is still in place) a result that passes the C test is exactly the
set a fresh computation produces at the current place -/
theorem cache_hit_sound {g : Grammar} {an : Analysis} {la : Nat} {pl : List (List Item)}
    {c : GotoCache} (hpl : WfPL pl) (hne : pl ≠ []) (hinv : CacheInv g an la pl c) {a : Nat}
    {nla : Option Nat} {hit : RelSet × Nat}
    (hlook : c.lookup (toRel (pl.length - 1) (pl.getLastD []), a, nla) pl (pl.length - 1)
      = some hit) :
    ofRel (pl.length - 1 + 1) hit.1 = nextSet g (okItem g an la nla) pl a ∧
      hasTrans g (pl.getLastD []) a = true :=
  cache_hit_sound_aux hpl hne hinv hlook

/-- the empty cache satisfies the invariant; the loop keeps it -/
theorem cacheInv_empty (g : Grammar) (an : Analysis) (la : Nat) (pl : List (List Item)) :
    CacheInv g an la pl [] := fun _ h => by cases h

theorem cache_inv_preserved (g : Grammar) (an : Analysis) (la : Nat) (toks : List Nat)
    {pl : List (List Item)} (k : Nat) {c : GotoCache} (hits : Nat) (hpl : WfPL pl) (hne : pl ≠ [])
    (hinv : CacheInv g an la pl c) :
    CacheInv g an la (parseLoopCached g an la toks pl k c hits).result.2
      (parseLoopCached g an la toks pl k c hits).cache :=
  (parseLoopCached_spec g an la toks pl k c hits hpl hne hinv).2

/-- **the cached loop yields the same parse list and the same error position** -/
theorem parseLoopCached_eq (g : Grammar) (an : Analysis) (la : Nat) (toks : List Nat)
    {pl : List (List Item)} (k : Nat) {c : GotoCache} (hits : Nat) (hpl : WfPL pl) (hne : pl ≠ [])
    (hinv : CacheInv g an la pl c) :
    (parseLoopCached g an la toks pl k c hits).result = parseLoop g an la toks pl k :=
  (parseLoopCached_spec g an la toks pl k c hits hpl hne hinv).1

/-- for whole inputs -/
theorem buildPLCached_eq (g : Grammar) (la : Nat) (w : List Nat) :
    (buildPLCached g la w).result = buildPL g la w :=
  parseLoopCached_eq g g.analysis la _ 0 0 (wfPL_set0 g) (by simp)
    (cacheInv_empty g g.analysis la _)

/-! ## non-vacuity: runs in which the cache hits -/

example : (buildPLCached gRight 1 [2, 2, 2, 2, 2, 2]).hits = 3 := by decide
example : (buildPLCached gRight 1 [2, 2, 2, 2, 2, 2]).result = buildPL gRight 1 [2, 2, 2, 2, 2, 2] :=
  buildPLCached_eq _ _ _
example : (buildPLCached gRight 1 [2, 2, 2, 2, 2, 2]).result.1 = none := by decide
example : (buildPLCached gParen 0 wParen).hits = 2 ∧ (buildPLCached gParen 1 wParen).hits = 2 := by
  decide
example : (buildPLCached gParen 1 wParen).result = buildPL gParen 1 wParen :=
  buildPLCached_eq _ _ _
/-- a hit on a result with distance 3, validated by comparing the sets three positions back -/
example : ((buildPLCached gParen 0 wParen).cache.any fun e =>
    e.results.any fun x => x.1.any fun p => decide (1 < p.2.2)) = true := by decide
/-- an error position is reproduced too: `( ( a ) ) ) ...` -/
example : (buildPLCached gParen 1 [2, 2, 4, 3, 3, 3, 2]).result.1 = some 5 ∧
    (buildPL gParen 1 [2, 2, 4, 3, 3, 3, 2]).1 = some 5 := by decide
/-- the test rejects a stored result when the sets further back differ -/
example : validAt [[⟨0, 0, 0⟩], [⟨1, 1, 0⟩], [⟨2, 1, 1⟩]] 2 ([(3, 1, 2)], 0) = false := by decide

end Cache
end Yaep
