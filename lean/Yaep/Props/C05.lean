import Yaep.Props.C02
/-!
# C05 — the ambiguity flag: the enumerator lists every derivation exactly once

`derivSym_nodup`: no derivation is listed twice, so together with `derivSym_spec`
`(derivSym …).length` *is* the number of derivations (of depth `≤ fuel`), and "at least two
list entries" is "at least two different derivations" (`two_le_length_derivations`).
`countSym_spec`: the saturating counter agrees with the length of the enumeration.
-/
namespace Yaep

/-- the rule numbers of a nonterminal are listed without repetition (the hypothesis under
which the enumeration is duplicate-free; it holds by construction) -/
theorem rulesFor_nodup' (g : Grammar) (A : Nat) : (g.rulesFor A).Nodup :=
  rulesFor_nodup g A

/-- the enumeration of derivations has no duplicates -/
theorem derivSym_nodup (g : Grammar) (toks : List Nat) (fuel : Nat) (X : Sym) (i j : Nat) :
    (derivSym g toks fuel X i j).Nodup :=
  derivSym_nodup_aux g toks fuel X i j

theorem derivSeq_derivSym_nodup (g : Grammar) (toks : List Nat) (fuel : Nat) (Xs : List Sym)
    (i j : Nat) : (derivSeq (derivSym g toks fuel) Xs i j).Nodup :=
  derivSeq_nodup (derivSym_nodup g toks fuel) (derivSym_span_unique g toks fuel) Xs i j

theorem derivations_nodup (g : Grammar) (toks : List Nat) : (derivations g toks).Nodup :=
  derivSym_nodup g toks _ _ _ _

/-- the list has at least two entries iff there are two different derivations (of depth
`≤ fuel`) -/
theorem two_le_length_derivSym (g : Grammar) (toks : List Nat) (fuel : Nat) (X : Sym)
    (i j : Nat) :
    2 ≤ (derivSym g toks fuel X i j).length ↔
      ∃ p q, p ≠ q ∧ (PT.ValidAt g toks p X i j ∧ p.depth ≤ fuel) ∧
        (PT.ValidAt g toks q X i j ∧ q.depth ≤ fuel) := by
  rw [two_le_length_iff_of_nodup (derivSym_nodup g toks fuel X i j)]
  simp only [derivSym_spec]

/-- the judge's ambiguity criterion: two list entries = two different derivations of the
input -/
theorem two_le_length_derivations (g : Grammar) (toks : List Nat) :
    2 ≤ (derivations g toks).length ↔
      ∃ p q, p ≠ q ∧ (PT.IsDerivation g toks p ∧ p.depth ≤ g.derivFuel toks.length) ∧
        (PT.IsDerivation g toks q ∧ q.depth ≤ g.derivFuel toks.length) :=
  two_le_length_derivSym g toks _ _ _ _

/-- exactly one entry = exactly one derivation -/
theorem length_derivations_eq_one (g : Grammar) (toks : List Nat) :
    (derivations g toks).length = 1 ↔
      ∃ p, (PT.IsDerivation g toks p ∧ p.depth ≤ g.derivFuel toks.length) ∧
        ∀ q, (PT.IsDerivation g toks q ∧ q.depth ≤ g.derivFuel toks.length) → q = p := by
  rw [length_eq_one_iff_of_nodup (derivations_nodup g toks)]
  simp only [derivations_spec]

/-- the saturating counter over a correct symbol counter counts `derivSeq` -/
theorem countSeq_derivSym_spec (g : Grammar) (toks : List Nat) (cap fuel : Nat) (Xs : List Sym)
    (i j : Nat) :
    countSeq cap (countSym g toks cap fuel) Xs i j =
      min (cap + 1) (derivSeq (derivSym g toks fuel) Xs i j).length :=
  countSeq_spec (countSym_spec_aux g toks cap fuel) Xs i j

/-- the saturating counter returns the number of enumerated derivations, capped at
`cap + 1` -/
theorem countSym_spec (g : Grammar) (toks : List Nat) (cap fuel : Nat) (X : Sym) (i j : Nat) :
    countSym g toks cap fuel X i j = min (cap + 1) (derivSym g toks fuel X i j).length :=
  countSym_spec_aux g toks cap fuel X i j

theorem countDerivations_spec (g : Grammar) (toks : List Nat) (cap : Nat) :
    countDerivations g toks cap = min (cap + 1) (derivations g toks).length :=
  countSym_spec g toks cap _ _ _ _

/-- so `countDerivations ≤ cap` means the count is exact (the enumeration is affordable) -/
theorem countDerivations_exact {g : Grammar} {toks : List Nat} {cap : Nat}
    (h : countDerivations g toks cap ≤ cap) :
    countDerivations g toks cap = (derivations g toks).length := by
  rw [countDerivations_spec] at h ⊢
  omega

/-! ## non-vacuity: `a + a + a` has exactly two derivations -/

namespace C05Ex
open C02Ex

example : g.rulesFor 1 = [1, 2] := by decide
example : (g.rulesFor 1).Nodup := rulesFor_nodup' g 1
example : derivSym g toks3 4 (.n 0) 0 6 = [r, l] := by rfl
example : (derivSym g toks3 4 (.n 0) 0 6).Nodup := derivSym_nodup ..
example : l ≠ r := by intro h; injection h with _ h; injection h with h _; injection h with _ h
                      injection h with h _; injection h with h _; cases h
/-- ambiguous input: two entries, hence two different derivations -/
example : ∃ p q, p ≠ q ∧ (PT.ValidAt g toks3 p (.n 0) 0 6 ∧ p.depth ≤ 4) ∧
    (PT.ValidAt g toks3 q (.n 0) 0 6 ∧ q.depth ≤ 4) :=
  (two_le_length_derivSym g toks3 4 (.n 0) 0 6).1 (by decide +kernel)
example : ∃ p q, p ≠ q ∧
    (PT.IsDerivation g toks3 p ∧ p.depth ≤ g.derivFuel toks3.length) ∧
    (PT.IsDerivation g toks3 q ∧ q.depth ≤ g.derivFuel toks3.length) :=
  (two_le_length_derivations g toks3).1 (by decide +kernel)
example : (derivSeq (derivSym g toks3 3) [.n 1, .t 3, .n 1] 0 5).Nodup :=
  derivSeq_derivSym_nodup ..
/-- unambiguous input: one entry, hence a unique derivation -/
example : (derivations g toks).length = 1 := by decide +kernel
example : ∃ p, (PT.IsDerivation g toks p ∧ p.depth ≤ g.derivFuel toks.length) ∧
    ∀ q, (PT.IsDerivation g toks q ∧ q.depth ≤ g.derivFuel toks.length) → q = p :=
  (length_derivations_eq_one g toks).1 (by decide +kernel)
example : (derivations g toks).Nodup := derivations_nodup g toks
example : countSym g toks3 10 4 (.n 0) 0 6 = 2 := by decide +kernel
example : countSym g toks3 0 4 (.n 0) 0 6 = 1 := by decide +kernel
example : countSym g toks3 0 4 (.n 0) 0 6 = min (0 + 1) (derivSym g toks3 4 (.n 0) 0 6).length :=
  countSym_spec ..
example : countDerivations g toks 10 = (derivations g toks).length :=
  countDerivations_exact (by decide +kernel)
example : countSeq 10 (countSym g toks3 10 3) [.n 1, .t 3, .n 1] 0 5 = 2 := by decide +kernel
example : countSeq 10 (countSym g toks3 10 3) [.n 1, .t 3, .n 1] 0 5 =
    min (10 + 1) (derivSeq (derivSym g toks3 3) [.n 1, .t 3, .n 1] 0 5).length :=
  countSeq_derivSym_spec ..
example : countDerivations g toks3 0 = min (0 + 1) (derivations g toks3).length :=
  countDerivations_spec ..
example : countDerivations g toks3 0 = 1 := by decide +kernel

end C05Ex

/-! ## without cycles the counts are the numbers of *all* derivations -/

/-- ambiguity of the input = at least two entries -/
theorem two_le_length_derivations_acyclic {g : Grammar} {toks : List Nat} (hc : ¬ Cyclic g)
    (hr : g.symsInRange = true) :
    2 ≤ (derivations g toks).length ↔
      ∃ p q, p ≠ q ∧ PT.IsDerivation g toks p ∧ PT.IsDerivation g toks q := by
  rw [two_le_length_iff_of_nodup (derivations_nodup g toks)]
  simp only [derivations_complete hc hr]

/-- exactly one derivation = exactly one entry -/
theorem length_derivations_eq_one_acyclic {g : Grammar} {toks : List Nat} (hc : ¬ Cyclic g)
    (hr : g.symsInRange = true) :
    (derivations g toks).length = 1 ↔
      ∃ p, PT.IsDerivation g toks p ∧ ∀ q, PT.IsDerivation g toks q → q = p := by
  rw [length_eq_one_iff_of_nodup (derivations_nodup g toks)]
  simp only [derivations_complete hc hr]

/-- no derivation = no entry -/
theorem derivations_eq_nil_acyclic {g : Grammar} {toks : List Nat} (hc : ¬ Cyclic g)
    (hr : g.symsInRange = true) :
    derivations g toks = [] ↔ ¬ ∃ p, PT.IsDerivation g toks p := by
  rw [List.eq_nil_iff_forall_not_mem]
  simp only [derivations_complete hc hr, not_exists]

namespace C05Ex
open C02Ex

example : ∃ p q, p ≠ q ∧ PT.IsDerivation g toks3 p ∧ PT.IsDerivation g toks3 q :=
  (two_le_length_derivations_acyclic g_acyclic (by decide)).1 (by decide +kernel)
example : ∃ p, PT.IsDerivation g toks p ∧ ∀ q, PT.IsDerivation g toks q → q = p :=
  (length_derivations_eq_one_acyclic g_acyclic (by decide)).1 (by decide +kernel)
/-- `a +` is not a sentence -/
example : ¬ ∃ p, PT.IsDerivation g [2, 3, 1] p :=
  (derivations_eq_nil_acyclic g_acyclic (by decide)).1 (by rfl)

end C05Ex

end Yaep
